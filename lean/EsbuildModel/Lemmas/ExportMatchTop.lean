import EsbuildModel.Lemmas.ExportMatchTrack5
/-! From `matchLoop_spec` to the statements about whole files: `matchImport`, `matchAll`, `finalRef`. -/
namespace EsbuildModel.ExportMatch
open EsbuildModel.Spec EsbuildModel.Spec.EsModules

/-- a binding of a file of the table whose symbol (if it is a local one) is not the file's `ExportsRef` -/
def GoodBinding (t : Table) (b : ResolvedBinding) : Prop :=
  ∃ f, t[b.module]? = some f ∧ ∀ r, b.bindingName = .name r → r ≠ f.exportsRef

/-- the symbol (file, ref) that stands for binding `b` in the linker -/
def code (t : Table) (b : ResolvedBinding) : Nat × Nat := ((normalOf t b).src, (normalOf t b).ref)

theorem nodeOf_loc {t : Table} {m : Nat} {a : Name} {r : Nat} (h : nodeOf t m a = .loc r) :
    ∃ f e, t[m]? = some f ∧ e ∈ f.exports ∧ e.ref = r := by
  unfold nodeOf at h
  split at h
  · cases h
  · rename_i f hf
    split at h
    · rename_i e he
      split at h
      · cases h
        exact ⟨f, e, hf, (entry_some he).1, rfl⟩
      · split at h
        · split at h <;> cases h
        · split at h <;> cases h
    · split at h <;> cases h

theorem nodeOf_ns {t : Table} (hwf : WF t) {m : Nat} {a : Name} {tg : Nat} (h : nodeOf t m a = .ns tg) :
    tg < t.length := by
  unfold nodeOf at h
  split at h
  · cases h
  · rename_i f hf
    have hfm := List.mem_of_getElem? hf
    split at h
    · rename_i e he
      split at h
      · cases h
      · rename_i ni hni
        split at h
        · rename_i tg' htg
          split at h
          · cases h
            exact hwf.targets f hfm ni (findImport_mem hni).1 _ htg
          · cases h
        · split at h <;> cases h
    · split at h <;> cases h

theorem reaches_good {t : Table} (hwf : WF t) {x : Node} {b : ResolvedBinding} (h : Reaches (toSpec t) x b) :
    GoodBinding t b := by
  obtain ⟨y, _, ht⟩ := h
  obtain ⟨y1, y2⟩ := y
  unfold term at ht
  rw [node_toSpec hwf.aliases] at ht
  simp only at ht
  cases hk : nodeOf t y1 y2 with
  | loc r =>
    rw [hk] at ht
    simp only [Option.some.injEq] at ht
    subst ht
    obtain ⟨f, e, hf, he, her⟩ := nodeOf_loc hk
    exact ⟨f, hf, fun r' hr' => by cases hr'; rw [← her]; exact hwf.exportsRefExport f (List.mem_of_getElem? hf) e he⟩
  | ns tg =>
    rw [hk] at ht
    simp only [Option.some.injEq] at ht
    subst ht
    have := nodeOf_ns hwf hk
    exact ⟨t[tg], List.getElem?_eq_getElem this, fun r hr => by cases hr⟩
  | missing => rw [hk] at ht; cases ht
  | ind _ _ => rw [hk] at ht; cases ht
  | dflt => rw [hk] at ht; cases ht
  | stars _ => rw [hk] at ht; cases ht

theorem bindingOf_code {t : Table} {b : ResolvedBinding} (h : GoodBinding t b) : bindingOf t (code t b) = b := by
  obtain ⟨f, hf, hne⟩ := h
  obtain ⟨m, bn⟩ := b
  cases bn with
  | name r =>
    have := hne r rfl
    simp [bindingOf, code, normalOf, hf, this]
  | «namespace» => simp [bindingOf, code, normalOf, exportsRefOf, hf]

theorem resolutionOf_normalOf {t : Table} {b : ResolvedBinding} (h : GoodBinding t b) :
    resolutionOf t (normalOf t b) = .binding b := by
  obtain ⟨f, hf, hne⟩ := h
  obtain ⟨m, bn⟩ := b
  cases bn with
  | name r =>
    have := hne r rfl
    simp [resolutionOf, normalOf, hf, this]
  | «namespace» => simp [resolutionOf, normalOf, exportsRefOf, hf]

theorem normalOf_inj {t : Table} {b1 b2 : ResolvedBinding} (h1 : GoodBinding t b1) (h2 : GoodBinding t b2)
    (h : normalOf t b1 = normalOf t b2) : b1 = b2 := by
  have := resolutionOf_normalOf h1
  rw [h, resolutionOf_normalOf h2] at this
  cases this; rfl

theorem resolutionOf_noLoc (t : Table) (r : MResult) : resolutionOf t (noLoc r) = resolutionOf t r := rfl

theorem normalOf_kind (t : Table) (b : ResolvedBinding) : (normalOf t b).kind = .normal := by
  unfold normalOf; split <;> rfl

/-- **what `matchImportsWithExportsForFile` computes for one import** -/
theorem matchImport_spec {t : Table} {rs : List Resolved} (H : Hyps t rs) (k : Bool) {s : Nat} {f : File}
    {ni : NamedImport} {r : Nat} (hf : t[s]? = some f) (hi : findImport f r = some ni) :
    ∃ R, matchImport ⟨t, rs, k⟩ s r = some R ∧
      ((∀ b, ¬ Pointed t ni b) → R = {}) ∧
      (∀ b, Pointed t ni b → (∀ b', Pointed t ni b' → b' = b) → noLoc R = normalOf t b) ∧
      (∀ b1 b2, Pointed t ni b1 → Pointed t ni b2 → b1 ≠ b2 → R.kind = .ambiguous) := by
  have htr : (⟨s, 0, r⟩ : Tracker) ∈ trackers t :=
    mem_trackers (q := ⟨s, 0, r⟩) hf ⟨ni, (findImport_mem hi).1, (findImport_mem hi).2⟩ (Or.inl rfl)
  obtain ⟨R, hR, hout⟩ := matchLoop_spec H k (matchFuel t) ⟨s, 0, r⟩ [] {} [] f ni hf hi htr List.nodup_nil
    (by simp) (by simpa using length_trackers_lt t) (by intro q hq; cases hq)
  refine ⟨R, hR, ?_, ?_, ?_⟩
  · intro hnone
    rcases hout with ⟨_, h⟩ | ⟨b0, _, _, hb0, _⟩
    · rw [h]; exact finish_all_eq _ [] (by simp)
    · exact absurd hb0 (hnone b0)
  · intro b hb hu
    obtain ⟨R0, hR0, hRR⟩ := hout.unique hb hu
    rw [hRR, finish_all_eq _ [] (by simp)]
    exact hR0
  · intro b1 b2 h1 h2 hne
    rcases hout with ⟨hnone, _⟩ | ⟨b0, R0, rs1, hb0, hR0, hrs, hcov, hReq⟩
    · exact absurd h1 (hnone b1)
    · -- one of the two differs from b0
      have hpg : ∀ b, Pointed t ni b → GoodBinding t b := by
        intro b hb
        unfold Pointed at hb
        split at hb
        · rename_i tg htg
          split at hb
          · subst hb
            have := H.wf.targets f (List.mem_of_getElem? hf) ni (findImport_mem hi).1 tg htg
            exact ⟨t[tg], List.getElem?_eq_getElem this, fun r hr => by cases hr⟩
          · exact reaches_good H.wf hb
        · exact absurd hb id
      have hdiff : ∃ b, Pointed t ni b ∧ b ≠ b0 := by
        by_cases h : b1 = b0
        · exact ⟨b2, h2, fun h' => hne (h.trans h'.symm)⟩
        · exact ⟨b1, h1, h⟩
      obtain ⟨b, hb, hbne⟩ := hdiff
      rcases hcov b hb with h | ⟨r', hr', hrb⟩
      · exact absurd h hbne
      · rw [hReq]
        apply finish_kind_of_ne
        refine ⟨r', by simp [hr'], ?_⟩
        rw [hrb, hR0]
        intro heq
        exact hbne (normalOf_inj (hpg b hb) (hpg b0 hb0) heq)

/-! ### all imports of all files -/

theorem lookup_results {α : Type} (h : Nat → Option α) : ∀ (imports : List NamedImport) (l : List (Nat × α)),
    mapOpt (fun ni => (h ni.ref).map (fun R => (ni.ref, R))) imports = some l →
    ∀ r, ((∃ ni ∈ imports, ni.ref = r) → ∃ R, h r = some R ∧ l.lookup r = some R) ∧
      ((∀ ni ∈ imports, ni.ref ≠ r) → l.lookup r = none) := by
  intro imports
  induction imports with
  | nil =>
    intro l hl r
    simp only [mapOpt] at hl; cases hl
    exact ⟨fun ⟨ni, hni, _⟩ => (by cases hni), fun _ => rfl⟩
  | cons ni nis ih =>
    intro l hl r
    simp only [mapOpt] at hl
    split at hl
    · cases hl
    · rename_i p hp
      split at hl
      · cases hl
      · rename_i ps hps
        cases hl
        simp only [Option.map_eq_some_iff] at hp
        obtain ⟨R0, hR0, rfl⟩ := hp
        obtain ⟨ih1, ih2⟩ := ih ps hps r
        by_cases hr : r = ni.ref
        · subst hr
          refine ⟨fun _ => ⟨R0, hR0, by simp [List.lookup]⟩, fun hn => absurd rfl (hn ni (by simp))⟩
        · have hbeq : (r == ni.ref) = false := by simpa using hr
          refine ⟨?_, ?_⟩
          · rintro ⟨ni', hni', hr'⟩
            rcases List.mem_cons.1 hni' with rfl | hni'
            · exact absurd hr'.symm hr
            · obtain ⟨R, hR, hl⟩ := ih1 ⟨ni', hni', hr'⟩
              exact ⟨R, hR, by simp [List.lookup, hbeq, hl]⟩
          · intro hn
            simp [List.lookup, hbeq, ih2 (fun ni' hni' => hn ni' (by simp [hni']))]

theorem matchAll_some {t : Table} {rs : List Resolved} (H : Hyps t rs) (k : Bool) :
    ∃ results, matchAll ⟨t, rs, k⟩ = some results := by
  unfold matchAll
  obtain ⟨bs, hbs, _, _⟩ := mapOpt_rel
    (fun s => match (⟨t, rs, k⟩ : Ctx).t[s]? with
      | none => none
      | some f => mapOpt (fun ni => (matchImport ⟨t, rs, k⟩ s ni.ref).map (fun r => (ni.ref, r))) f.imports)
    (fun _ _ => True) (List.range t.length) (by
      intro s hs
      have hs' : s < t.length := List.mem_range.1 hs
      have hf : t[s]? = some t[s] := List.getElem?_eq_getElem hs'
      simp only [hf]
      obtain ⟨l, hl, _, _⟩ := mapOpt_rel
        (fun ni : NamedImport => (matchImport ⟨t, rs, k⟩ s ni.ref).map (fun r => (ni.ref, r))) (fun _ _ => True)
        t[s].imports (by
          intro ni hni
          -- the first import with this ref
          have : ∃ ni', findImport t[s] ni.ref = some ni' := by
            unfold findImport
            cases hfind : t[s].imports.find? (·.ref = ni.ref) with
            | some ni' => exact ⟨ni', rfl⟩
            | none => exact absurd (List.find?_eq_none.1 hfind ni hni) (by simp)
          obtain ⟨ni', hni'⟩ := this
          obtain ⟨R, hR, _⟩ := matchImport_spec H k hf hni'
          exact ⟨(ni.ref, R), by simp [hR], trivial⟩)
      exact ⟨l, hl, trivial⟩)
  exact ⟨bs, hbs⟩

/-- the recorded result of the import (s, r) is `matchImport s r` -/
theorem matchAll_lookup {t : Table} {rs : List Resolved} {k : Bool} {results : List (List (Nat × MResult))}
    (h : matchAll ⟨t, rs, k⟩ = some results) {s : Nat} {f : File} (hf : t[s]? = some f) (r : Nat) :
    ((results[s]?).bind (·.lookup r)) =
      match findImport f r with
      | some _ => matchImport ⟨t, rs, k⟩ s r
      | none => none := by
  unfold matchAll at h
  have hs : s < t.length := (List.getElem?_eq_some_iff.1 hf).1
  obtain ⟨l, hl1, hl2⟩ := mapOpt_getElem _ _ results h s s (by simp [hs])
  simp only [hf] at hl2
  obtain ⟨h1, h2⟩ := lookup_results (fun r => matchImport ⟨t, rs, k⟩ s r) f.imports l hl2 r
  rw [hl1]
  simp only [Option.bind_some]
  cases hfind : findImport f r with
  | some ni =>
    obtain ⟨R, hR, hl⟩ := h1 ⟨ni, (findImport_mem hfind).1, (findImport_mem hfind).2⟩
    simp [hl, hR]
  | none =>
    simp only
    apply h2
    intro ni hni
    unfold findImport at hfind
    simpa using List.find?_eq_none.1 hfind ni hni

end EsbuildModel.ExportMatch
