import EsbuildModel.Lemmas.OutPathsExpand
import EsbuildModel.Lemmas.OutPathsPrel
/-
The final relative path of a chunk as one textual expansion, and when it has no ".." component.
-/
namespace EsbuildModel.OutPaths
open EsbuildModel.Spec.OutPath

/-- `chunk.finalRelPath`: both substitutions together write all four values into the template with the
extension appended -/
theorem finalRelPath_eq (t : List Part) (d n e h : Str) :
    finalRelPath (finalTemplate t d n e) h =
      renderWith (allValues d n h (trimDot e)) (t ++ [⟨e, .none⟩]) := by
  unfold finalRelPath finalTemplate
  rw [templateToString_substituteTemplate, renderWith_substituteTemplate]
  apply renderWith_congr
  intro p hp
  rw [Placeholders.get_orElse]
  cases hph : p.ph with
  | none => rfl
  | dir => rfl
  | name => rfl
  | ext => rfl
  | hash =>
    have hhas : hasPlaceholder (t ++ [⟨e, .none⟩]) .hash = true := by
      unfold hasPlaceholder
      exact List.any_eq_true.mpr ⟨p, hp, by simp [hph]⟩
    have := hasPlaceholder_kept (phs := { dir := some d, name := some n, ext := some (trimDot e) })
      (ph := .hash) (by simp) rfl hhas
    simp [Placeholders.get, this, allValues]

/-- no component of the path is ".." -/
def NoDotDot (s : Str) : Prop := dd ∉ splitSlash s

instance (s : Str) : Decidable (NoDotDot s) := by unfold NoDotDot; infer_instance

/-- appending `p` to a path without ".." components never creates one -/
def Safe (p : Str) : Prop := ∀ x, NoDotDot x → NoDotDot (x ++ p)

theorem noDotDot_nil : NoDotDot [] := by decide

theorem safe_nil : Safe [] := fun x hx => by simpa using hx

theorem safe_append {p q : Str} (hp : Safe p) (hq : Safe q) : Safe (p ++ q) := by
  intro x hx
  rw [← List.append_assoc]
  exact hq _ (hp x hx)

theorem noDotDot_of_safe {p : Str} (hp : Safe p) : NoDotDot p := by simpa using hp [] noDotDot_nil

theorem splitSlash_append_noslash (x : Str) {q : Str} (hq : '/' ∉ q) :
    ∃ init l, splitSlash x = init ++ [l] ∧ splitSlash (x ++ q) = init ++ [l ++ q] := by
  induction x with
  | nil => exact ⟨[], [], rfl, by simpa using splitSlash_noslash hq⟩
  | cons c x ih =>
    obtain ⟨init, l, h1, h2⟩ := ih
    by_cases hc : c = '/'
    · subst hc
      refine ⟨[] :: init, l, ?_, ?_⟩
      · rw [splitSlash_slash, h1]; rfl
      · rw [List.cons_append, splitSlash_slash, h2]; rfl
    · cases init with
      | nil =>
        refine ⟨[], c :: l, ?_, ?_⟩
        · rw [splitSlash_cons_ne hc (by simpa using h1)]; rfl
        · rw [List.cons_append, splitSlash_cons_ne hc (by simpa using h2)]; rfl
      | cons i init =>
        refine ⟨(c :: i) :: init, l, ?_, ?_⟩
        · rw [splitSlash_cons_ne hc (by simpa using h1)]; rfl
        · rw [List.cons_append, splitSlash_cons_ne hc (by simpa using h2)]; rfl

/-- a piece without separator that can never complete a ".." is safe -/
theorem safe_noslash {q : Str} (hq : '/' ∉ q) (h : ∀ l : Str, l ≠ dd → l ++ q ≠ dd) : Safe q := by
  intro x hx
  obtain ⟨init, l, h1, h2⟩ := splitSlash_append_noslash x hq
  unfold NoDotDot at hx ⊢
  rw [h1] at hx
  rw [h2]
  intro hm
  rcases List.mem_append.mp hm with hm | hm
  · exact hx (by simp [hm])
  · simp only [List.mem_singleton] at hm
    exact h l (fun e => hx (by simp [e])) hm.symm

theorem safe_slash_cons {q : Str} (hq : NoDotDot q) : Safe ('/' :: q) := by
  intro x hx
  unfold NoDotDot at *
  rw [splitSlash_append_slash]
  intro hm
  rcases List.mem_append.mp hm with hm | hm
  · exact hx hm
  · exact hq hm

theorem safe_slash : Safe ['/'] := safe_slash_cons noDotDot_nil

/-- a piece without separator that ends in something else than a dot -/
theorem safe_of_last_ne_dot {q : Str} (hq : '/' ∉ q) {c : Char} (hl : q.getLast? = some c) (hc : c ≠ '.') :
    Safe q := by
  apply safe_noslash hq
  intro l _ he
  have hqne : q ≠ [] := by intro e; simp [e] at hl
  have : (l ++ q).getLast? = some c := by rw [getLast?_append_ne_nil l hqne, hl]
  rw [he] at this
  simp [dd] at this
  exact hc this.symm

theorem safe_char {c : Char} (h1 : c ≠ '.') : Safe [c] := by
  by_cases h2 : c = '/'
  · subst h2; exact safe_slash
  · exact safe_of_last_ne_dot (by simpa using fun e : '/' = c => h2 e.symm) (by simp) h1

/-- text without any dot is safe -/
theorem safe_dotless {q : Str} (h : '.' ∉ q) : Safe q := by
  induction q with
  | nil => exact safe_nil
  | cons c q ih =>
    have : c :: q = [c] ++ q := rfl
    rw [this]
    exact safe_append (safe_char (fun e => h (by simp [e]))) (ih (fun e => h (by simp [e])))

/-- a name that is neither "." nor ".." -/
theorem safe_name {n : Str} (h1 : '/' ∉ n) (h2 : n ≠ ['.']) (h3 : n ≠ dd) : Safe n := by
  apply safe_noslash h1
  intro l hl he
  have hlen := congrArg List.length he
  simp only [List.length_append, dd, List.length_cons, List.length_nil] at hlen
  rcases l with _ | ⟨a, _ | ⟨b, l'⟩⟩
  · exact h3 (by simpa using he)
  · rcases n with _ | ⟨c, _ | ⟨d, n'⟩⟩
    · simp at hlen
    · simp only [List.cons_append, List.nil_append, dd, List.cons.injEq, and_true] at he
      exact h2 (by rw [he.2])
    · simp at hlen; omega
  · have : n = [] := by
      cases n with
      | nil => rfl
      | cons _ _ => simp at hlen; omega
    subst this
    exact hl (by simpa using he)

/-- an absolute path in normal form -/
theorem safe_render {Y : AbsPath} (hY : ∀ y ∈ Y, ValidName y) : Safe (render Y) := by
  rw [render_eq]
  apply safe_slash_cons
  unfold NoDotDot
  cases Y with
  | nil => decide
  | cons y Y =>
    rw [splitSlash_joinSlash (by simp) (fun z hz => (hY z hz).2.1)]
    intro hm
    exact (hY dd hm).2.2.2 rfl

theorem noDotDot_dotSlash {r : Str} : NoDotDot ('.' :: '/' :: r) ↔ NoDotDot r := by
  unfold NoDotDot
  have : splitSlash ('.' :: '/' :: r) = ['.'] :: splitSlash r := by
    have := splitSlash_append_slash ['.'] r
    simp [splitSlash]
  rw [this]
  simp [dd]

end EsbuildModel.OutPaths
