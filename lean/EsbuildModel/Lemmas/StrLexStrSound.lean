import EsbuildModel.Lemmas.StrLexStrComplete
/-! Soundness for string literals: whatever the decoder accepts is derived by the grammar, with the decoder's value. -/
namespace EsbuildModel.StrLex
open EsbuildModel.Spec.StrLit
open EsbuildModel.Spec.JsString (hexVal? utf16)

/-- what a successful round that starts with a backslash yields: a character of the grammar (`x`), the text it derives,
its side conditions against the next character of the decoded text, its SV and its strict-mode flag -/
def EscSound (q : Nat) (text units : List Nat) (used : Nat) (lg : Bool) : Prop :=
  ∃ (x : StrChar) (rest : List Nat), text = x.render ++ rest ∧ used = x.render.length ∧ x.ok q rest.head? = true ∧
    x.sv = units ∧ x.isLegacy = lg

theorem octal_sound (q c2 : Nat) (r : List Nat) (hc2 : 48 ≤ c2 ∧ c2 ≤ 55) (units : List Nat) (used : Nat) (lg : Bool)
    (h : octal (c2 - 48) r = .emit units used lg) : EscSound q (92 :: c2 :: r) units used lg := by
  have hv2 := hexVal?_digit c2 (by omega)
  unfold octal at h
  split at h
  · -- no further character
    simp only [Step.emit.injEq] at h
    obtain ⟨rfl, rfl, rfl⟩ := h
    by_cases h0 : c2 = 48
    · subst h0
      exact ⟨.esc .nul, [], rfl, rfl, by simp [StrChar.ok, CEsc.wf, CEsc.look, lookNot], rfl, by simp [StrChar.isLegacy]⟩
    · refine ⟨.octal (.one c2), [], rfl, rfl, ?_, ?_, ?_⟩
      · simp [StrChar.ok, LegacyOctal.wf, LegacyOctal.look, lookNot]; omega
      · simp [StrChar.sv, LegacyOctal.render, digitsMV, hv2]
      · simp [StrChar.isLegacy]; omega
  · rename_i c3 r'
    split at h
    · rename_i ho3
      have hc3 : 48 ≤ c3 ∧ c3 ≤ 55 := by simpa [isOct] using ho3
      have hv3 := hexVal?_digit c3 (by omega)
      split at h
      · simp only [Step.emit.injEq] at h
        obtain ⟨rfl, rfl, rfl⟩ := h
        by_cases h03 : c2 ≤ 51
        · refine ⟨.octal (.two03 c2 c3), [], rfl, rfl, ?_, ?_, rfl⟩
          · simp [StrChar.ok, LegacyOctal.wf, LegacyOctal.look, lookNot, isOctalDigit]; omega
          · simp [StrChar.sv, LegacyOctal.render, digitsMV, hv2, hv3]
        · refine ⟨.octal (.two47 c2 c3), [], rfl, rfl, ?_, ?_, rfl⟩
          · simp [StrChar.ok, LegacyOctal.wf, LegacyOctal.look, isOctalDigit]; omega
          · simp [StrChar.sv, LegacyOctal.render, digitsMV, hv2, hv3]
      · rename_i c4 r''
        split at h
        · rename_i ho4
          have hc4 : 48 ≤ c4 ∧ c4 ≤ 55 := by simpa [isOct] using ho4
          have hv4 := hexVal?_digit c4 (by omega)
          dsimp only at h
          split at h
          · rename_i hlt
            simp only [Step.emit.injEq] at h
            obtain ⟨rfl, rfl, rfl⟩ := h
            refine ⟨.octal (.three c2 c3 c4), r'', rfl, rfl, ?_, ?_, rfl⟩
            · simp [StrChar.ok, LegacyOctal.wf, LegacyOctal.look, isOctalDigit]; omega
            · simp [StrChar.sv, LegacyOctal.render, digitsMV, hv2, hv3, hv4]
          · rename_i hge
            simp only [Step.emit.injEq] at h
            obtain ⟨rfl, rfl, rfl⟩ := h
            refine ⟨.octal (.two47 c2 c3), c4 :: r'', rfl, rfl, ?_, ?_, rfl⟩
            · simp [StrChar.ok, LegacyOctal.wf, LegacyOctal.look, isOctalDigit]; omega
            · simp [StrChar.sv, LegacyOctal.render, digitsMV, hv2, hv3]
        · rename_i hno4
          simp only [Step.emit.injEq] at h
          obtain ⟨rfl, rfl, rfl⟩ := h
          by_cases h03 : c2 ≤ 51
          · refine ⟨.octal (.two03 c2 c3), c4 :: r'', rfl, rfl, ?_, ?_, rfl⟩
            · have : isOctalDigit c4 = false := by simpa [isOct_eq] using hno4
              simp [StrChar.ok, LegacyOctal.wf, LegacyOctal.look, lookNot, isOctalDigit_iff, this]; omega
            · simp [StrChar.sv, LegacyOctal.render, digitsMV, hv2, hv3]
          · refine ⟨.octal (.two47 c2 c3), c4 :: r'', rfl, rfl, ?_, ?_, rfl⟩
            · simp [StrChar.ok, LegacyOctal.wf, LegacyOctal.look, isOctalDigit]; omega
            · simp [StrChar.sv, LegacyOctal.render, digitsMV, hv2, hv3]
    · rename_i hno3
      have hno3' : ¬ (48 ≤ c3 ∧ c3 ≤ 55) := by simpa [isOct] using hno3
      split at h
      · rename_i h89
        simp only [Step.emit.injEq] at h
        obtain ⟨rfl, rfl, rfl⟩ := h
        by_cases h0 : c2 = 48
        · subst h0
          refine ⟨.octal .zero89, c3 :: r', rfl, rfl, ?_, ?_, rfl⟩
          · simp [StrChar.ok, LegacyOctal.wf, LegacyOctal.look, lookIn]; exact h89
          · simp [StrChar.sv, LegacyOctal.render, digitsMV, hexVal?]
        · refine ⟨.octal (.one c2), c3 :: r', rfl, rfl, ?_, ?_, rfl⟩
          · simp [StrChar.ok, LegacyOctal.wf, LegacyOctal.look, lookNot, isOctalDigit]; omega
          · simp [StrChar.sv, LegacyOctal.render, digitsMV, hv2]
      · rename_i hn89
        simp only [Step.emit.injEq] at h
        obtain ⟨rfl, rfl, rfl⟩ := h
        by_cases h0 : c2 = 48
        · subst h0
          refine ⟨.esc .nul, c3 :: r', rfl, rfl, ?_, rfl, by simp [StrChar.isLegacy]⟩
          simp [StrChar.ok, CEsc.wf, CEsc.look, lookNot, isDecimalDigit]; omega
        · refine ⟨.octal (.one c2), c3 :: r', rfl, rfl, ?_, ?_, ?_⟩
          · simp [StrChar.ok, LegacyOctal.wf, LegacyOctal.look, lookNot, isOctalDigit]; omega
          · simp [StrChar.sv, LegacyOctal.render, digitsMV, hv2]
          · simp [StrChar.isLegacy]; omega

theorem isHexDigit_of_hexVal {c d : Nat} (h : hexVal c = some d) : isHexDigit c = true :=
  (isHexDigit_iff c).2 ⟨d, h, hexVal_lt h⟩

theorem hex2_sound (q : Nat) (r : List Nat) (units : List Nat) (used : Nat) (lg : Bool)
    (h : hex2 r = .emit units used lg) : EscSound q (92 :: 120 :: r) units used lg := by
  unfold hex2 at h
  split at h
  · cases h
  · rename_i a r1
    split at h
    · cases h
    · rename_i x hx
      split at h
      · cases h
      · rename_i b r2
        split at h
        · cases h
        · rename_i y hy
          simp only [Step.emit.injEq] at h
          obtain ⟨rfl, rfl, rfl⟩ := h
          have hx' := hx; have hy' := hy
          rw [hexVal_eq] at hx' hy'
          refine ⟨.esc (.hex a b), r2, rfl, rfl, ?_, ?_, rfl⟩
          · simp [StrChar.ok, CEsc.wf, CEsc.look, isHexDigit_of_hexVal hx, isHexDigit_of_hexVal hy]
          · simp [StrChar.sv, CEsc.sv, digitsMV, hx', hy']

theorem hex4_sound (q : Nat) (r : List Nat) (hr : r.head? ≠ some 123) (units : List Nat) (used : Nat) (lg : Bool)
    (h : hex4 r = .emit units used lg) : EscSound q (92 :: 117 :: r) units used lg := by
  unfold hex4 at h
  split at h
  · cases h
  · rename_i a r1
    split at h
    · cases h
    · rename_i w hw
      split at h
      · cases h
      · rename_i b r2
        split at h
        · cases h
        · rename_i x hx
          split at h
          · cases h
          · rename_i c r3
            split at h
            · cases h
            · rename_i y hy
              split at h
              · cases h
              · rename_i d r4
                split at h
                · cases h
                · rename_i z hz
                  simp only [Step.emit.injEq] at h
                  obtain ⟨rfl, rfl, rfl⟩ := h
                  have hw' := hw; have hx' := hx; have hy' := hy; have hz' := hz
                  rw [hexVal_eq] at hw' hx' hy' hz'
                  refine ⟨.esc (.u4 a b c d), r4, rfl, rfl, ?_, ?_, rfl⟩
                  · simp [StrChar.ok, CEsc.wf, CEsc.look, isHexDigit_of_hexVal hw, isHexDigit_of_hexVal hx,
                      isHexDigit_of_hexVal hy, isHexDigit_of_hexVal hz]
                  · simp [StrChar.sv, CEsc.sv, digitsMV, hw', hx', hy', hz']

/-- the `variableLength:` loop leaves through `break` only after hex digits followed by `}` -/
theorem braceLoop_done (r : List Nat) (v : Nat) (oor : Bool) (used : Nat) (h : braceLoop r 0 true false 3 = .done v oor used) :
    ∃ ds rest, r = ds ++ 125 :: rest ∧ ds ≠ [] ∧ (∀ c ∈ ds, isHexDigit c = true) ∧ v = wrapMV 0 ds ∧
      oor = oorAcc 0 false ds ∧ used = ds.length + 4 := by
  have hsplit := List.takeWhile_append_dropWhile (p := isHexDigit) (l := r)
  have hall : ∀ c ∈ r.takeWhile isHexDigit, isHexDigit c = true := fun c hc => List.all_eq_true.1 List.all_takeWhile c hc
  rw [← hsplit, braceLoop_digits _ hall] at h
  cases htail : r.dropWhile isHexDigit with
  | nil => rw [htail] at h; simp [braceLoop] at h
  | cons c rest =>
    rw [htail] at h
    have hc : isHexDigit c = false := by
      have := List.head?_dropWhile_not isHexDigit r
      rw [htail] at this
      simpa using this
    have hc' := (isHexDigit_false_iff c).1 hc
    simp only [braceLoop, hc'] at h
    split at h
    · rename_i hc125
      subst hc125
      split at h
      · cases h
      · rename_i hne
        simp only [Brace.done.injEq] at h
        obtain ⟨rfl, rfl, rfl⟩ := h
        refine ⟨r.takeWhile isHexDigit, rest, ?_, ?_, hall, rfl, rfl, by omega⟩
        · rw [← htail, hsplit]
        · intro he; simp [he] at hne
    · cases h

theorem unicode_sound (q : Nat) (r : List Nat) (units : List Nat) (used : Nat) (lg : Bool)
    (h : unicode true r = .emit units used lg) : EscSound q (92 :: 117 :: r) units used lg := by
  unfold unicode at h
  split at h
  · rename_i r'
    split at h
    · cases h
    · rename_i v oor n hb
      obtain ⟨ds, rest, rfl, hne, hall, rfl, rfl, rfl⟩ := braceLoop_done r' v oor n hb
      split at h
      · simp at h
      · rename_i hoor
        simp only [Step.emit.injEq] at h
        obtain ⟨rfl, rfl, rfl⟩ := h
        have hoor' : oorAcc 0 false ds = false := by simpa using hoor
        have hmv : trueMV 0 ds ≤ 1114111 := by
          apply Nat.le_of_not_lt
          intro hgt
          rw [brace_out_of_range 0 false ds (by omega) hgt] at hoor'
          cases hoor'
        obtain ⟨i1, _⟩ := brace_in_range 0 false ds hmv
        refine ⟨.esc (.uBrace ds), rest, by simp [StrChar.render, CEsc.render], by simp [StrChar.render, CEsc.render], ?_, ?_, rfl⟩
        · have : ds.isEmpty = false := by cases ds <;> simp at hne ⊢
          simp [StrChar.ok, CEsc.wf, CEsc.look, this, digitsMV_eq, hmv]
          exact hall
        · simp [StrChar.sv, CEsc.sv, digitsMV_eq, i1, encodeRune_eq _ hmv]
  · rename_i hnb
    apply hex4_sound q r _ units used lg h
    intro h123
    cases r with
    | nil => simp at h123
    | cons a r1 => simp at h123; subst h123; exact hnb r1 rfl

theorem single_ok (q c : Nat) (rest : List Nat) (h : (singleEscape? c).isSome = true) :
    EscSound q (92 :: c :: rest) [(singleEscape? c).getD 0] 2 false :=
  ⟨.esc (.single c), rest, rfl, rfl, by simp [StrChar.ok, CEsc.wf, CEsc.look, h], rfl, rfl⟩

theorem escape_sound (q c2 : Nat) (r : List Nat) (hc2 : c2 ≤ 1114111) (units : List Nat) (used : Nat) (lg : Bool)
    (h : escape true (c2 :: r) = .emit units used lg) : EscSound q (92 :: c2 :: r) units used lg := by
  by_cases hs : (singleEscape? c2).isSome = true
  · rw [escape_single true c2 r hs] at h
    simp only [Step.emit.injEq] at h; obtain ⟨rfl, rfl, rfl⟩ := h
    exact single_ok q c2 r hs
  have hs' : (singleEscape? c2).isSome = false := by simpa using hs
  have n98 : c2 ≠ 98 := by rintro rfl; exact hs (by decide)
  have n102 : c2 ≠ 102 := by rintro rfl; exact hs (by decide)
  have n110 : c2 ≠ 110 := by rintro rfl; exact hs (by decide)
  have n114 : c2 ≠ 114 := by rintro rfl; exact hs (by decide)
  have n116 : c2 ≠ 116 := by rintro rfl; exact hs (by decide)
  have n118 : c2 ≠ 118 := by rintro rfl; exact hs (by decide)
  by_cases ho : isOct c2 = true
  · have : escape true (c2 :: r) = octal (c2 - 48) r := by simp [escape, n98, n102, n110, n114, n116, n118, ho, legacyGate_true]
    rw [this] at h
    exact octal_sound q c2 r (by simpa [isOct] using ho) units used lg h
  have hno' : ¬ (48 ≤ c2 ∧ c2 ≤ 55) := by simpa [isOct] using ho
  by_cases h89 : c2 = 56 ∨ c2 = 57
  · rw [escape_nonOctal c2 r h89] at h
    simp only [Step.emit.injEq] at h; obtain ⟨rfl, rfl, rfl⟩ := h
    exact ⟨.nonOctal c2, r, rfl, rfl, by simpa [StrChar.ok] using h89, rfl, rfl⟩
  by_cases h120 : c2 = 120
  · subst h120
    have : escape true (120 :: r) = hex2 r := by simp [escape, isOct]
    rw [this] at h
    exact hex2_sound q r units used lg h
  by_cases h117 : c2 = 117
  · subst h117
    have : escape true (117 :: r) = unicode true r := by simp [escape, isOct]
    rw [this] at h
    exact unicode_sound q r units used lg h
  by_cases h13 : c2 = 13
  · subst h13
    cases r with
    | nil =>
      have : escape true [13] = .emit [] 2 false := by simp [escape, isOct]
      rw [this] at h
      simp only [Step.emit.injEq] at h; obtain ⟨rfl, rfl, rfl⟩ := h
      exact ⟨.cont .cr, [], rfl, rfl, rfl, rfl, rfl⟩
    | cons a r' =>
      by_cases ha : a = 10
      · subst ha
        have : escape true (13 :: 10 :: r') = .emit [] 3 false := by simp [escape, isOct]
        rw [this] at h
        simp only [Step.emit.injEq] at h; obtain ⟨rfl, rfl, rfl⟩ := h
        exact ⟨.cont .crlf, r', rfl, rfl, rfl, rfl, rfl⟩
      · have := escape_cont true .cr (a :: r') (by simp [LTS.look, lookNot, ha])
        rw [show LTS.cr.render ++ a :: r' = 13 :: a :: r' from rfl] at this
        rw [this] at h
        simp only [Step.emit.injEq] at h; obtain ⟨rfl, rfl, rfl⟩ := h
        exact ⟨.cont .cr, a :: r', rfl, rfl, by simp [StrChar.ok, LTS.look, lookNot, ha], rfl, rfl⟩
  by_cases hlt : c2 = 10 ∨ c2 = 8232 ∨ c2 = 8233
  · have : escape true (c2 :: r) = .emit [] 2 false := by
      rcases hlt with rfl | rfl | rfl <;> simp [escape, isOct]
    rw [this] at h
    simp only [Step.emit.injEq] at h; obtain ⟨rfl, rfl, rfl⟩ := h
    rcases hlt with rfl | rfl | rfl
    · exact ⟨.cont .lf, r, rfl, rfl, rfl, rfl, rfl⟩
    · exact ⟨.cont .ls, r, rfl, rfl, rfl, rfl, rfl⟩
    · exact ⟨.cont .ps, r, rfl, rfl, rfl, rfl, rfl⟩
  have hd : isDecimalDigit c2 = false := by simp [isDecimalDigit]; omega
  have hl : isLineTerminator c2 = false := by simp [isLineTerminator]; omega
  have hne : isNonEscapeCharacter c2 = true := by
    simp [isNonEscapeCharacter, isSourceChar, hc2, isEscapeCharacter, hs', hd, hl, h120, h117]
  rw [escape_nonEsc true c2 r hne] at h
  simp only [Step.emit.injEq] at h; obtain ⟨rfl, rfl, rfl⟩ := h
  exact ⟨.esc (.nonEsc c2), r, rfl, rfl, by simp [StrChar.ok, CEsc.wf, CEsc.look, hne], rfl, rfl⟩

theorem step_sound_str (q : Nat) (_hq : q = 34 ∨ q = 39) (c : Nat) (t : List Nat) (hsrc : ∀ x ∈ c :: t, x ≤ 1114111)
    (hb : bodyOK q false (c :: t) = true) (units : List Nat) (used : Nat) (lg : Bool)
    (h : step true c t = .emit units used lg) : EscSound q (c :: t) units used lg := by
  unfold step at h
  split at h
  · rename_i hc; subst hc; rw [bodyOK_cr] at hb; simp at hb
  rename_i n13
  split at h
  · rename_i hc; subst hc
    cases t with
    | nil => rw [bodyOK.eq_def] at hb; simp at hb
    | cons c2 r => exact escape_sound q c2 r (hsrc c2 (by simp)) units used lg h
  rename_i n92
  simp only [Step.emit.injEq] at h; obtain ⟨rfl, rfl, rfl⟩ := h
  have hc := hsrc c (by simp)
  have n10 : c ≠ 10 := by rintro rfl; rw [bodyOK_lf] at hb; simp at hb
  rw [bodyOK_plain _ _ _ _ n92 n13 n10 (by simp)] at hb
  have ncq : c ≠ q := by have := hb; simp at this; exact this.1
  exact ⟨.plain c, t, rfl, rfl, by simp [StrChar.ok, isSourceChar, hc, ncq, n92, n10, n13], by simp [StrChar.sv, encodeRune_eq c hc], rfl⟩

theorem StrChar.render_cons (x : StrChar) : ∃ c t, x.render = c :: t := by
  cases x <;> simp [StrChar.render]

theorem prepend_ok {units : List Nat} {l0 : Option Nat} {d : Dec} {v : List Nat} {leg : Option Nat}
    (h : d.prepend units l0 = .ok v leg) : ∃ more l', d = .ok more l' ∧ v = units ++ more ∧ leg = (l' <|> l0) := by
  cases d with
  | ok more l' => simp only [Dec.prepend, Dec.ok.injEq] at h; exact ⟨more, l', rfl, h.1.symm, h.2.symm⟩
  | fail p l => cases h
  | range p n => cases h

theorem decode_sound_str (q : Nat) (hq : q = 34 ∨ q = 39) (n : Nat) : ∀ (body : List Nat) (i : Nat) (v : List Nat)
    (leg : Option Nat), body.length ≤ n → (∀ x ∈ body, x ≤ 1114111) → bodyOK q false body = true →
    decodeLoop true body 0 i = .ok v leg →
    ∃ ds, renderChars ds = body ∧ charsOK q [q] ds = true ∧ svChars ds = v ∧ ds.any StrChar.isLegacy = leg.isSome := by
  induction n with
  | zero =>
    intro body i v leg hn _ _ h
    have : body = [] := List.length_eq_zero_iff.1 (by omega)
    subst this
    simp only [decodeLoop, Dec.ok.injEq] at h
    exact ⟨[], rfl, rfl, h.1, by rw [← h.2]; rfl⟩
  | succ n ih =>
    intro body i v leg hn hsrc hb h
    match body, hn, hsrc, hb, h with
    | [], _, _, _, h =>
      simp only [decodeLoop, Dec.ok.injEq] at h
      exact ⟨[], rfl, rfl, h.1, by rw [← h.2]; rfl⟩
    | c :: t, hn, hsrc, hb, h =>
      cases hstep : step true c t with
      | fail off => rw [decodeLoop_fail true c t off i hstep] at h; cases h
      | range len => rw [decodeLoop_range true c t len i hstep] at h; cases h
      | emit units used lg =>
        obtain ⟨x, rest, htext, hused, hok, hsv, hlg⟩ := step_sound_str q hq c t hsrc hb units used lg hstep
        obtain ⟨c', t', hr⟩ := StrChar.render_cons x
        rw [hr, List.cons_append] at htext
        obtain ⟨rfl, rfl⟩ := List.cons.inj htext
        have hused' : used = t'.length + 1 := by rw [hused, hr]; rfl
        rw [hused'] at hstep
        have hrun := decodeLoop_emit true c t' rest units lg i hstep
        rw [List.cons_append] at hrun
        rw [hrun] at h
        obtain ⟨more, l', hd, rfl, rfl⟩ := prepend_ok h
        have hb' : bodyOK q false rest = true := by
          have := bodyOK_strChar q hq x rest hok
          rw [hr, List.cons_append] at this
          rw [← this]; exact hb
        obtain ⟨ds, h1, h2, h3, h4⟩ := ih rest _ more l' (by simp at hn; omega)
          (fun y hy => hsrc y (by simp [hy])) hb' hd
        refine ⟨x :: ds, ?_, ?_, ?_, ?_⟩
        · simp [renderChars, hr, h1]
        · simp only [charsOK, Bool.and_eq_true]
          refine ⟨?_, h2⟩
          rw [StrChar.ok_local q x _ [q] q rfl (by unfold IsCloser; omega), h1]
          exact hok
        · simp [svChars, hsv, h3]
        · simp only [List.any_cons, h4, hlg]
          cases l' <;> cases lg <;> simp

/-- what a token returned by `lexToken` looks like -/
theorem lexToken_tok (rs : Bool) (src : List Nat) (t : Tok) (h : lexToken rs src = .tok t) :
    ∃ q s tail, src = q :: s ∧ ((rs = true ∧ q = 125) ∨ (rs = false ∧ (q = 39 ∨ q = 34 ∨ q = 96))) ∧
      s = t.body ++ tail ∧
      bodyOK (if rs then 96 else q) (decide ((if rs then 96 else q) = 96)) t.body = true ∧ t.slow = slowBody t.body ∧
      Closing (if rs then 96 else q) rs tail t.kind t.suffixLen := by
  unfold lexToken at h
  split at h
  · cases h
  · rename_i q s
    split at h
    · rename_i hcond
      dsimp only at h
      split at h
      · cases h
      · rename_i k n suf slow hscan
        obtain ⟨body, tail, h1, h2, h3, h4, h5⟩ := scan_sound _ rs s 0 false k n suf slow hscan
        simp only [Lexed.tok.injEq] at h
        subst h
        have hbody : s.take n = body := by rw [h1, h2]; simp
        refine ⟨q, s, tail, rfl, ?_, by simp only [hbody]; exact h1, by simp only [hbody]; exact h3,
          by simp only [hbody]; simpa using h4, h5⟩
        cases rs <;> simp at hcond ⊢ <;> omega
    · cases h

/-- fast path: text without backslash, CR and non-ASCII characters consists of ordinary characters only -/
theorem fast_sound (q : Nat) (body : List Nat) (hb : bodyOK q false body = true) (hs : slowBody body = false) :
    ∃ ds, renderChars ds = body ∧ charsOK q [q] ds = true ∧ svChars ds = body ∧ ds.any StrChar.isLegacy = false := by
  induction body with
  | nil => exact ⟨[], rfl, rfl, rfl, rfl⟩
  | cons c r ih =>
    have hs' : (c ≠ 92 ∧ c ≠ 13 ∧ c < 128) ∧ slowBody r = false := by
      rw [slowBody, List.any_cons, Bool.or_eq_false_iff] at hs
      refine ⟨?_, hs.2⟩
      have := hs.1
      simp at this
      omega
    obtain ⟨⟨n92, n13, hlt⟩, hsr⟩ := hs'
    have n10 : c ≠ 10 := by rintro rfl; rw [bodyOK_lf] at hb; simp at hb
    rw [bodyOK_plain _ _ _ _ n92 n13 n10 (by simp)] at hb
    simp only [Bool.and_eq_true, decide_eq_true_eq] at hb
    obtain ⟨ds, h1, h2, h3, h4⟩ := ih hb.2 hsr
    refine ⟨.plain c :: ds, by simp [renderChars, StrChar.render, h1], ?_, ?_, by simp [StrChar.isLegacy, h4]⟩
    · simp only [charsOK, Bool.and_eq_true]
      refine ⟨?_, h2⟩
      simp [StrChar.ok, isSourceChar, hb.1, n92, n10, n13]; omega
    · simp [svChars, StrChar.sv, utf16_small c (by omega), h3]

theorem lexValue_string_sound (src : List Nat) (hsrc : ∀ c ∈ src, c ≤ 1114111) (n : Nat) (v raw : List Nat)
    (leg : Option Nat) (h : lexValue false src = .tok .str n (some v) raw leg) :
    ∃ l : StringLit, l.valid = true ∧ l.render = src.take n ∧ l.sv = v ∧ l.hasLegacy = leg.isSome := by
  unfold lexValue at h
  split at h
  · rename_i t htok
    obtain ⟨q, s, tail, rfl, hopen, hs, hb, hslow, hclose⟩ := lexToken_tok false _ t htok
    simp only [Bool.false_eq_true, if_false, false_and, false_or, true_and] at hb hclose hopen
    -- the kind decides the closing delimiter
    have hkind : t.kind = .str ∧ (q = 34 ∨ q = 39) ∧ ∃ tl, tail = q :: tl ∧ t.suffixLen = 1 := by
      unfold Tok.stringLiteral at h
      have hk : t.kind = .str := by
        split at h
        · split at h <;> simp only [Res.tok.injEq, reduceCtorEq] at h <;> first | exact h.1 | cases h
        · simp only [Res.tok.injEq] at h; exact h.1
      rcases hclose.inv with ⟨tl, rfl, hk', hsuf⟩ | ⟨tl, h96, _, hk', _⟩
      · refine ⟨hk, ?_, tl, rfl, hsuf⟩
        rw [hk'] at hk
        by_cases h96 : q = 96
        · simp [h96] at hk
        · omega
      · rw [hk'] at hk; simp at hk
    obtain ⟨hk, hq, tl, rfl, hsuf⟩ := hkind
    have h96 : decide (q = 96) = false := by simp; omega
    rw [h96] at hb
    have hlen : t.len = 1 + t.body.length + 1 := by simp [Tok.len, hsuf]
    have htake : (q :: s).take t.len = q :: (t.body ++ [q]) := by
      rw [hs, hlen]; simp [List.take_append]
      exact List.take_of_length_le (by omega)
    have hsrcb : ∀ x ∈ t.body, x ≤ 1114111 := fun x hx => hsrc x (by rw [hs]; simp [hx])
    unfold Tok.stringLiteral at h
    split at h
    · rename_i hslowt
      split at h
      · rename_i units leg0 hdec
        simp only [Res.tok.injEq, Option.some.injEq] at h
        obtain ⟨_, rfl, rfl, _, rfl⟩ := h
        obtain ⟨ds, h1, h2, h3, h4⟩ := decode_sound_str q hq _ t.body 0 units leg0 (Nat.le_refl _) hsrcb hb hdec
        refine ⟨⟨q, ds⟩, ?_, ?_, h3, ?_⟩
        · simp [StringLit.valid, h2]; omega
        · simp [StringLit.render, h1, htake]
        · simp [StringLit.hasLegacy, h4]
      · cases h
      · cases h
    · rename_i hslowt
      simp only [Res.tok.injEq, Option.some.injEq] at h
      obtain ⟨_, rfl, rfl, _, rfl⟩ := h
      have hsl : slowBody t.body = false := by rw [← hslow]; simpa using hslowt
      obtain ⟨ds, h1, h2, h3, h4⟩ := fast_sound q t.body hb hsl
      refine ⟨⟨q, ds⟩, ?_, ?_, h3, ?_⟩
      · simp [StringLit.valid, h2]; omega
      · simp [StringLit.render, h1, htake]
      · simp [StringLit.hasLegacy, h4]
  · cases h
  · cases h

end EsbuildModel.StrLex
