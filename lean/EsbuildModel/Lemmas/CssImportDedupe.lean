import EsbuildModel.Lemmas.CssImportSem
/-!
The backward de-duplication loop (`dedupe`): what `isConditionalImportRedundant` guarantees, and the invariant of the
loop — under the pairwise hypothesis `SafePair` the replaced entries are covered by a later kept copy in the SAME
layer, so the cascade is unchanged in every context.
-/
namespace EsbuildModel.CssImport
open EsbuildModel.Spec.CssCascade

/-- the conditions of the earlier copy beyond the length of the later copy's list carry no `layer` -/
def extraNoLayer (earlier later : List Cond) : Bool :=
  (earlier.drop later.length).all (fun c => c.layer.isNone)

theorem condLayer_of_none {c : Cond} (h : c.layer = none) (id : List Nat) : condLayer c id = [] := by
  simp [condLayer, h]

theorem allLayer_of_noLayer {cs : List Cond} (h : cs.all (fun c => c.layer.isNone) = true) : allLayer cs = [] := by
  induction cs with
  | nil => rfl
  | cons c cs ih =>
    simp only [List.all_cons, Bool.and_eq_true, Option.isNone_iff_eq_none] at h
    simp only [allLayer, List.flatMap_cons, condLayer_of_none h.1, List.nil_append]
    exact ih h.2

theorem condRedundant_layer {a b : Cond} (h : condRedundant a b = true) : a.layer = b.layer := by
  unfold condRedundant at h
  split at h
  · assumption
  · cases h

theorem condRedundant_atoms {a b : Cond} (h : condRedundant a b = true) (env : Env)
    (ha : (condAtoms a).all (Atom.holds env) = true) : (condAtoms b).all (Atom.holds env) = true := by
  unfold condRedundant at h
  split at h
  · cases hbm : b.media <;> cases hbs : b.supports <;> cases ham : a.media <;> cases has : a.supports <;>
      simp_all [condAtoms]
  · cases h

theorem redundant_layer {e l : List Cond} (hr : isRedundant e l = true) (hx : extraNoLayer e l = true) :
    allLayer e = allLayer l := by
  induction e generalizing l with
  | nil =>
    cases l with
    | nil => rfl
    | cons b bs => simp [isRedundant] at hr
  | cons a as ih =>
    cases l with
    | nil =>
      simp only [extraNoLayer, List.length_nil, List.drop_zero] at hx
      rw [allLayer_of_noLayer hx]; rfl
    | cons b bs =>
      simp only [isRedundant, Bool.and_eq_true] at hr
      have hx' : extraNoLayer as bs = true := by simpa [extraNoLayer] using hx
      simp only [allLayer, List.flatMap_cons]
      have := ih hr.2 hx'
      simp only [allLayer] at this
      rw [this]
      unfold condLayer
      rw [condRedundant_layer hr.1]

theorem redundant_atoms {e l : List Cond} (hr : isRedundant e l = true) (env : Env)
    (h : (allAtoms e).all (Atom.holds env) = true) : (allAtoms l).all (Atom.holds env) = true := by
  induction e generalizing l with
  | nil =>
    cases l with
    | nil => rfl
    | cons b bs => simp [isRedundant] at hr
  | cons a as ih =>
    cases l with
    | nil => rfl
    | cons b bs =>
      simp only [isRedundant, Bool.and_eq_true] at hr
      simp only [allAtoms, List.flatMap_cons, List.all_append, Bool.and_eq_true] at h ⊢
      exact ⟨condRedundant_atoms hr.1 env h.1, ih hr.2 h.2⟩

/-- a copy under the later conditions covers the copy under the earlier ones -/
theorem covered_of_redundant {e l : List Cond} (hr : isRedundant e l = true) (hx : extraNoLayer e l = true)
    (items : List Item) : Covered (wrapN e items) (wrapN l items) := by
  intro env cs lay d hit ha
  obtain ⟨a0, l0, h0, rfl, rfl⟩ := mem_wrapN_rule.1 hit
  refine ⟨allAtoms l ++ a0, allLayer l ++ l0, mem_wrapN_rule.2 ⟨a0, l0, h0, rfl, rfl⟩, ?_, ?_⟩
  · simp only [List.all_append, Bool.and_eq_true] at ha ⊢
    exact ⟨redundant_atoms hr env ha.1, ha.2⟩
  · left; rw [redundant_layer hr hx]

theorem redundant_layer_prefix {e l : List Cond} (hr : isRedundant e l = true) :
    ∃ x, allLayer e = allLayer l ++ x := by
  induction e generalizing l with
  | nil =>
    cases l with
    | nil => exact ⟨[], rfl⟩
    | cons b bs => simp [isRedundant] at hr
  | cons a as ih =>
    cases l with
    | nil => exact ⟨allLayer (a :: as), rfl⟩
    | cons b bs =>
      simp only [isRedundant, Bool.and_eq_true] at hr
      obtain ⟨x, hx⟩ := ih hr.2
      refine ⟨x, ?_⟩
      simp only [allLayer, List.flatMap_cons] at hx ⊢
      rw [hx, List.append_assoc]
      unfold condLayer
      rw [condRedundant_layer hr.1]

/-- the rules of the content are normal declarations outside any layer of their own -/
def PlainContent (items : List Item) : Prop := ∀ cs l d, Item.rule cs l d ∈ items → l = [] ∧ d.important = false

/-- … then the later copy sits directly in an ancestor layer of the earlier copy's layer, which is enough -/
theorem covered_of_redundant_plain {e l : List Cond} (hr : isRedundant e l = true)
    (items : List Item) (hp : PlainContent items) : Covered (wrapN e items) (wrapN l items) := by
  intro env cs lay d hit ha
  obtain ⟨a0, l0, h0, rfl, rfl⟩ := mem_wrapN_rule.1 hit
  obtain ⟨hl0, hn⟩ := hp a0 l0 d h0
  subst hl0
  refine ⟨allAtoms l ++ a0, allLayer l ++ [], mem_wrapN_rule.2 ⟨a0, [], h0, rfl, rfl⟩, ?_, ?_⟩
  · simp only [List.all_append, Bool.and_eq_true] at ha ⊢
    exact ⟨redundant_atoms hr env ha.1, ha.2⟩
  · right
    obtain ⟨x, hx⟩ := redundant_layer_prefix hr
    exact ⟨hn, x, by simp [hx]⟩

-- ------------------------------------------------------------------ the Go maps

theorem find?_filter_of_imp {α : Type} (p q : α → Bool) (l : List α) (h : ∀ x, p x = true → q x = true) :
    (l.filter q).find? p = l.find? p := by
  induction l with
  | nil => rfl
  | cons x xs ih =>
    by_cases hq : q x = true
    · rw [List.filter_cons_of_pos hq]
      simp only [List.find?_cons, ih]
    · rw [List.filter_cons_of_neg hq]
      have : p x = false := by
        cases hp : p x
        · rfl
        · exact absurd (h x hp) hq
      simp only [List.find?_cons, this, ih]

theorem DupMap.get_set_self (m : DupMap) (k : Nat) (v : List (List Cond)) : (DupMap.set m k v).get k = v := by
  simp [DupMap.get, DupMap.set]

theorem DupMap.get_set_ne (m : DupMap) (k k' : Nat) (v : List (List Cond)) (h : k' ≠ k) :
    (DupMap.set m k v).get k' = m.get k' := by
  unfold DupMap.get DupMap.set
  have h1 : ((k, v).1 == k') = false := by simpa using fun e => h e.symm
  rw [List.find?_cons, h1]
  rw [find?_filter_of_imp]
  intro x hx
  simp only [beq_iff_eq] at hx
  simpa [hx] using h

-- ------------------------------------------------------------------ the loop invariant

/-- the two entries are copies of the same file / the same external style sheet -/
def sameKey (a b : Entry) : Bool :=
  (a.kind == .file && b.kind == .file && a.src == b.src) || (a.kind == .ext && b.kind == .ext && a.ext == b.ext)

/-- hypothesis about an earlier entry `a` and a later entry `b`: when the later copy makes the earlier one
redundant for `isConditionalImportRedundant`, either the earlier copy has no further `layer` conditions, or all the
rules of the file are normal declarations that are not in a layer of their own -/
def SafePair (g : Graph) (decl : Nat → Decl) (ext : Nat → List Item) (a b : Entry) : Prop :=
  sameKey a b = true → isRedundant a.conds b.conds = true →
    extraNoLayer a.conds b.conds = true ∨ PlainContent (entryContent g decl ext a)

/-- the external style sheets declare no layers of their own -/
def ExtNoLayers (ext : Nat → List Item) : Prop := ∀ p, ∀ it ∈ ext p, Item.isDeclare it = false

/-- entries as the traversal produces them: external entries carry no layer names -/
def ExtEntriesClean (es : List Entry) : Prop := ∀ e ∈ es, e.kind = .ext → e.layers = []

theorem dedupe_inv (g : Graph) (decl : Nat → Decl) (ext : Nat → List Item) (hext : ExtNoLayers ext)
    (es : List Entry) (hsafe : es.Pairwise (SafePair g decl ext)) (hclean : ExtEntriesClean es) :
    CtxSame (semN g decl ext (dedupe g es).1) (semN g decl ext es) ∧
    (∀ k conds, conds ∈ (dedupe g es).2.1.get k →
      ∃ y, y ∈ es ∧ y ∈ (dedupe g es).1 ∧ y.kind = .file ∧ y.src = k ∧ y.conds = conds) ∧
    (∀ k conds, conds ∈ (dedupe g es).2.2.get k →
      ∃ y, y ∈ es ∧ y ∈ (dedupe g es).1 ∧ y.kind = .ext ∧ y.ext = k ∧ y.conds = conds) := by
  induction es with
  | nil =>
    refine ⟨CtxSame.rfl' _, ?_, ?_⟩ <;> intro k conds h <;> simp [dedupe, DupMap.get] at h
  | cons e es ih =>
    rw [List.pairwise_cons] at hsafe
    obtain ⟨ih1, ih2, ih3⟩ := ih hsafe.2 (fun x hx => hclean x (List.mem_cons_of_mem _ hx))
    have hsafe1 := hsafe.1
    -- the generic "replace by layers" step
    have hstep : ∀ (e' : Entry) (y : Entry), y ∈ es → y ∈ (dedupe g es).1 →
        isRedundant e.conds y.conds = true → sameKey e y = true →
        e'.conds = e.conds →
        SameDecls (entryContent g decl ext e) (entryContent g decl ext e') →
        OnlyDeclares (entryContent g decl ext e') →
        entryContent g decl ext y = entryContent g decl ext e →
        CtxSame (semN g decl ext (e' :: (dedupe g es).1)) (semN g decl ext (e :: es)) := by
      intro e' y hy hy' hr hk hc hd ho hcont
      have hx := hsafe1 y hy hk hr
      obtain ⟨A, B, hAB⟩ := List.append_of_mem hy'
      have h1 : CtxSame (semEntryN g decl ext e ++ semN g decl ext A ++ semEntryN g decl ext y)
          (semEntryN g decl ext e' ++ semN g decl ext A ++ semEntryN g decl ext y) := by
        apply ctxSame_drop_covered
        · unfold semEntryN; rw [hc]; exact (hd.wrapN e.conds).sameLayers
        · exact onlyDeclares_wrapN ho _
        · unfold semEntryN; rw [hcont]
          rcases hx with hx | hx
          · exact covered_of_redundant hr hx _
          · exact covered_of_redundant_plain hr _ hx
      have h2 := h1.ctx [] (semN g decl ext B)
      simp only [List.nil_append] at h2
      have h3 : CtxSame (semN g decl ext (e' :: (dedupe g es).1)) (semN g decl ext (e :: (dedupe g es).1)) := by
        rw [hAB]
        simp only [semN_cons, semN_append, List.append_assoc] at h2 ⊢
        exact h2.symm
      refine h3.trans ?_
      simp only [semN_cons]
      exact (CtxSame.rfl' _).append ih1
    cases hk : e.kind with
    | layers =>
      simp only [dedupe, hk]
      refine ⟨?_, ?_, ?_⟩
      · simp only [semN_cons]; exact (CtxSame.rfl' _).append ih1
      · intro k conds h
        obtain ⟨y, h1, h2, h3⟩ := ih2 k conds h
        exact ⟨y, List.mem_cons_of_mem _ h1, List.mem_cons_of_mem _ h2, h3⟩
      · intro k conds h
        obtain ⟨y, h1, h2, h3⟩ := ih3 k conds h
        exact ⟨y, List.mem_cons_of_mem _ h1, List.mem_cons_of_mem _ h2, h3⟩
    | file =>
      simp only [dedupe, hk]
      split
      · -- redundant: replaced by its layer names
        rename_i hany
        rw [List.any_eq_true] at hany
        obtain ⟨later, hl, hr⟩ := hany
        obtain ⟨y, hy, hy', hyk, hys, hyc⟩ := ih2 e.src later hl
        refine ⟨?_, ?_, ?_⟩
        · refine hstep { e with kind := .layers, layers := postOf g e.src } y hy hy' (by rw [hyc]; exact hr)
            (by simp [sameKey, hk, hyk, hys]) rfl ?_ ?_ ?_
          · simp only [entryContent, hk, postOf]
            cases g[e.src]? with
            | none => rfl
            | some f =>
              simp only [SameDecls]
              rw [filter_isDeclare_bodyItems, filter_isDeclare_layerItems]
          · simp only [entryContent]; exact onlyDeclares_layerItems _
          · simp only [entryContent, hk, hyk, hys]
        · intro k conds h
          obtain ⟨y, h1, h2, h3⟩ := ih2 k conds h
          exact ⟨y, List.mem_cons_of_mem _ h1, List.mem_cons_of_mem _ h2, h3⟩
        · intro k conds h
          obtain ⟨y, h1, h2, h3⟩ := ih3 k conds h
          exact ⟨y, List.mem_cons_of_mem _ h1, List.mem_cons_of_mem _ h2, h3⟩
      · refine ⟨?_, ?_, ?_⟩
        · simp only [semN_cons]; exact (CtxSame.rfl' _).append ih1
        · intro k conds h
          by_cases hke : k = e.src
          · subst hke
            rw [DupMap.get_set_self, List.mem_append] at h
            rcases h with h | h
            · obtain ⟨y, h1, h2, h3⟩ := ih2 _ conds h
              exact ⟨y, List.mem_cons_of_mem _ h1, List.mem_cons_of_mem _ h2, h3⟩
            · simp only [List.mem_singleton] at h
              exact ⟨e, List.mem_cons_self .., List.mem_cons_self .., hk, rfl, h.symm⟩
          · rw [DupMap.get_set_ne _ _ _ _ hke] at h
            obtain ⟨y, h1, h2, h3⟩ := ih2 k conds h
            exact ⟨y, List.mem_cons_of_mem _ h1, List.mem_cons_of_mem _ h2, h3⟩
        · intro k conds h
          obtain ⟨y, h1, h2, h3⟩ := ih3 k conds h
          exact ⟨y, List.mem_cons_of_mem _ h1, List.mem_cons_of_mem _ h2, h3⟩
    | ext =>
      simp only [dedupe, hk]
      split
      · rename_i hany
        rw [List.any_eq_true] at hany
        obtain ⟨later, hl, hr⟩ := hany
        obtain ⟨y, hy, hy', hyk, hys, hyc⟩ := ih3 e.ext later hl
        refine ⟨?_, ?_, ?_⟩
        · refine hstep { e with kind := .layers } y hy hy' (by rw [hyc]; exact hr)
            (by simp [sameKey, hk, hyk, hys]) rfl ?_ ?_ ?_
          · simp only [entryContent, hk, hclean e (List.mem_cons_self ..) hk, SameDecls, layerItems, List.map_nil,
              List.filter_nil]
            rw [List.filter_eq_nil_iff]
            intro it hit
            simp [hext e.ext it hit]
          · simp only [entryContent]; exact onlyDeclares_layerItems _
          · simp only [entryContent, hk, hyk, hys]
        · intro k conds h
          obtain ⟨y, h1, h2, h3⟩ := ih2 k conds h
          exact ⟨y, List.mem_cons_of_mem _ h1, List.mem_cons_of_mem _ h2, h3⟩
        · intro k conds h
          obtain ⟨y, h1, h2, h3⟩ := ih3 k conds h
          exact ⟨y, List.mem_cons_of_mem _ h1, List.mem_cons_of_mem _ h2, h3⟩
      · refine ⟨?_, ?_, ?_⟩
        · simp only [semN_cons]; exact (CtxSame.rfl' _).append ih1
        · intro k conds h
          obtain ⟨y, h1, h2, h3⟩ := ih2 k conds h
          exact ⟨y, List.mem_cons_of_mem _ h1, List.mem_cons_of_mem _ h2, h3⟩
        · intro k conds h
          by_cases hke : k = e.ext
          · subst hke
            rw [DupMap.get_set_self, List.mem_append] at h
            rcases h with h | h
            · obtain ⟨y, h1, h2, h3⟩ := ih3 _ conds h
              exact ⟨y, List.mem_cons_of_mem _ h1, List.mem_cons_of_mem _ h2, h3⟩
            · simp only [List.mem_singleton] at h
              exact ⟨e, List.mem_cons_self .., List.mem_cons_self .., hk, rfl, h.symm⟩
          · rw [DupMap.get_set_ne _ _ _ _ hke] at h
            obtain ⟨y, h1, h2, h3⟩ := ih3 k conds h
            exact ⟨y, List.mem_cons_of_mem _ h1, List.mem_cons_of_mem _ h2, h3⟩

end EsbuildModel.CssImport
