import EsbuildModel.Lemmas.OutPathsRelOut
/-
`PathRelativeToOutbase` for input files of the "file" namespace and for custom output paths: the `[dir]`
value is an absolute path in normal form made of real names and "_.._", the `[name]` value has no separator.
-/
namespace EsbuildModel.OutPaths
open EsbuildModel.Spec.OutPath

theorem mem_splitSlash_chars {p x : Str} (hx : x ∈ splitSlash p) {c : Char} (hc : c ∈ x) : c ∈ p := by
  induction p generalizing x with
  | nil => simp [splitSlash] at hx; subst hx; simp at hc
  | cons d p ih =>
    by_cases hd : d = '/'
    · subst hd
      rw [splitSlash_slash] at hx
      rcases List.mem_cons.mp hx with rfl | hx
      · simp at hc
      · exact List.mem_cons_of_mem _ (ih hx hc)
    · obtain ⟨y, ys, hs⟩ := splitSlash_exists p
      rw [splitSlash_cons_ne hd hs] at hx
      rcases List.mem_cons.mp hx with rfl | hx
      · rcases List.mem_cons.mp hc with rfl | hc
        · simp
        · exact List.mem_cons_of_mem _ (ih (by simp [hs]) hc)
      · exact List.mem_cons_of_mem _ (ih (by simp [hs, hx]) hc)

theorem step_mem {cur : AbsPath} {e x : Str} (hx : x ∈ step cur e) : x ∈ cur ∨ x = e := by
  unfold step at hx
  split at hx
  · exact Or.inl hx
  · split at hx
    · exact Or.inl (List.dropLast_subset _ hx)
    · rcases List.mem_append.mp hx with hx | hx
      · exact Or.inl hx
      · exact Or.inr (by simpa using hx)

theorem resolve_mem (comps : List Str) {cur : AbsPath} {x : Str} (hx : x ∈ resolve cur comps) :
    x ∈ cur ∨ x ∈ comps := by
  induction comps generalizing cur with
  | nil => exact Or.inl hx
  | cons e comps ih =>
    simp only [resolve, List.foldl_cons] at hx
    rcases ih hx with h | h
    · rcases step_mem h with h | h
      · exact Or.inl h
      · exact Or.inr (by simp [h])
    · exact Or.inr (by simp [h])

/-- a character of a name of the directory a path denotes is a character of the path -/
theorem denote_chars {p x : Str} (hx : x ∈ denote p) {c : Char} (hc : c ∈ x) : c ∈ p := by
  unfold denote at hx
  rcases resolve_mem _ hx with h | h
  · simp at h
  · rw [components_eq_splitSlash] at h
    exact mem_splitSlash_chars h hc

theorem dropWhile_concat_stop {α} (P : α → Bool) (l : List α) {a : α} (ha : P a = false) :
    ∃ m, (l ++ [a]).dropWhile P = m ++ [a] ∧ ∀ x ∈ m, x ∈ l := by
  induction l with
  | nil => exact ⟨[], by simp [ha], by simp⟩
  | cons b l ih =>
    obtain ⟨m, hm, hsub⟩ := ih
    rw [List.cons_append, List.dropWhile_cons]
    by_cases hb : P b = true
    · simp only [hb, if_true]
      exact ⟨m, hm, fun x hx => List.mem_cons_of_mem _ (hsub x hx)⟩
    · simp only [hb]
      exact ⟨b :: l, rfl, fun x hx => hx⟩

/-- `dir` of an absolute path is an absolute path whose names use characters of the path only -/
theorem dir_abs {p : Str} (hp : isAbs p = true) :
    isAbs (dir p) = true ∧ ∀ x ∈ denote (dir p), ∀ c ∈ x, c ∈ p := by
  obtain ⟨r, rfl⟩ := isAbs_iff.mp hp
  unfold dir
  have hrev : ('/' :: r).reverse = r.reverse ++ ['/'] := by simp
  obtain ⟨m, hm, hsub⟩ := dropWhile_concat_stop (fun c => decide (c ≠ '/')) r.reverse (a := '/') (by simp)
  rw [hrev, hm]
  have hq : (m ++ ['/']).reverse = '/' :: m.reverse := by simp
  rw [hq, clean_rooted]
  refine ⟨by rw [render_eq]; rfl, ?_⟩
  intro x hx c hc
  rw [denote_render (denote_valid _)] at hx
  have := denote_chars hx hc
  rcases List.mem_cons.mp this with rfl | h
  · simp
  · exact List.mem_cons_of_mem _ (by simpa using hsub c (by simpa using h))

/-- the `match` on `fs.Rel` in `PathRelativeToOutbase`, for absolute paths -/
theorem prel_core {outbase absPath : Str} (hb : isAbs outbase = true) (ht : isAbs absPath = true)
    (hbs : ∀ x ∈ denote absPath, '\\' ∉ x) :
    (match fsRel outbase absPath with
      | none => ((['/'] : Str), base absPath)
      | some relPath => (relDirOf relPath, base relPath)) =
    (render (dirNames (denote outbase) (denote absPath)), lastName (denote outbase) (denote absPath)) := by
  obtain ⟨r, h1, h2, h3⟩ := relOut_abs hb ht hbs
  rw [h1]
  simp only [h2, h3]

theorem stripExt_subset (n : Str) : ∀ c ∈ stripExt n, c ∈ n := by
  intro c hc
  exact List.mem_of_mem_take hc

/-- the absolute path `PathRelativeToOutbase` makes relative, for a file or a custom output path -/
def prelAbsPath (keyText outbase : Str) (avoidIndex : Bool) (custom : Str) : Str :=
  if custom ≠ [] then (if isAbs custom then custom else join [outbase, custom])
  else if avoidIndex ∧ stripExt (base keyText) = lit "index" then dir keyText
  else keyText

theorem prelAbsPath_abs {keyText outbase : Str} (hb : isAbs outbase = true) (hk : isAbs keyText = true)
    (avoidIndex : Bool) (custom : Str) (h1 : '\\' ∉ outbase) (h2 : '\\' ∉ keyText) (h3 : '\\' ∉ custom) :
    isAbs (prelAbsPath keyText outbase avoidIndex custom) = true ∧
    ∀ x ∈ denote (prelAbsPath keyText outbase avoidIndex custom), '\\' ∉ x := by
  unfold prelAbsPath
  by_cases hc : custom ≠ []
  · rw [if_pos hc]
    by_cases hca : isAbs custom = true
    · simp only [hca, if_true]
      exact ⟨trivial, fun x hx hm => h3 (denote_chars hx hm)⟩
    · rw [if_neg hca, join_abs hb]
      refine ⟨by rw [render_eq]; rfl, ?_⟩
      intro x hx hm
      have hv : ∀ y ∈ resolve (denote outbase) (components custom), ValidName y := by
        apply resolve_valid _ (denote_valid _)
        intro e he
        rw [components_eq_splitSlash] at he
        exact noslash_of_mem_splitSlash he
      rw [denote_render hv] at hx
      rcases resolve_mem _ hx with h | h
      · exact h1 (denote_chars h hm)
      · rw [components_eq_splitSlash] at h
        exact h3 (mem_splitSlash_chars h hm)
  · have hc' : custom = [] := by simpa using hc
    subst hc'
    rw [if_neg (by simp)]
    split
    · have := dir_abs hk
      exact ⟨this.1, fun x hx hm => h2 (this.2 x hx _ hm)⟩
    · exact ⟨hk, fun x hx hm => h2 (denote_chars hx hm)⟩

/-- `PathRelativeToOutbase` in terms of names -/
theorem pathRelativeToOutbase_eq {keyText outbase : Str} (hb : isAbs outbase = true) (hk : isAbs keyText = true)
    (avoidIndex : Bool) (custom : Str) (h1 : '\\' ∉ outbase) (h2 : '\\' ∉ keyText) (h3 : '\\' ∉ custom) :
    pathRelativeToOutbase keyText true outbase avoidIndex custom =
      (render (dirNames (denote outbase) (denote (prelAbsPath keyText outbase avoidIndex custom))),
       (if custom = [] then stripExt (lastName (denote outbase) (denote (prelAbsPath keyText outbase avoidIndex custom)))
        else lastName (denote outbase) (denote (prelAbsPath keyText outbase avoidIndex custom)))) := by
  have ha := prelAbsPath_abs hb hk avoidIndex custom h1 h2 h3
  obtain ⟨r, hr1, hr2, hr3⟩ := relOut_abs hb ha.1 ha.2
  unfold pathRelativeToOutbase
  simp only [Bool.not_true, Bool.false_eq_true, and_false, if_false]
  unfold prelAbsPath at hr1 hr2 hr3 ⊢
  rw [hr1]
  simp only [hr2, hr3]

end EsbuildModel.OutPaths
