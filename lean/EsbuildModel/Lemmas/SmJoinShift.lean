import EsbuildModel.Lemmas.SmJoinDecode
/-!
# Helper lemmas for `Props/C07Join.lean` — part 3: what the bytes of the sequential encoder do NOT depend on

* only on whether the byte before asks for a comma (`encEvs_last_congr`);
* not on a common shift of the start state and of all segments (`shift_all`): source index, original line and
  column, name index everywhere, generated column on the first line;
* on the name index of the start state only through the first name field (`splice_some`, `splice_none`).
-/
namespace EsbuildModel.SmJoin
open Vlq
open Spec.SourceMapV3 (Ev Orig Seg segsOf)

/-! ## the offset of the name field -/

/-- the numbers before the optional name -/
def fields0 (p c : State) (omitSrc : Bool) : List Int :=
  [c.genCol - p.genCol]
    ++ (if omitSrc then [] else [c.srcIdx - p.srcIdx, c.origLine - p.origLine, c.origCol - p.origCol])

theorem fieldsOf_eq (p c : State) (o : Bool) :
    fieldsOf p c o = fields0 p c o ++ (if c.hasName then [c.origName - p.origName] else []) := rfl

theorem amb_fno (last : Nat) (p c : State) (o : Bool) :
    (appendMappingToBuffer [] last p c o).2 =
      if c.hasName then some (commaOf last ++ (fields0 p c o).flatMap enc).length else none := by
  unfold appendMappingToBuffer commaOf fields0 NoComma
  by_cases h1 : last ≠ 0 ∧ last ≠ 59 ∧ last ≠ 34
  · have h1' : ¬ (last = 0 ∨ last = 59 ∨ last = 34) := by omega
    by_cases h2 : o = true <;> by_cases h3 : c.hasName = true <;> simp [h1, h2, h3] <;> omega
  · have h1' : (last = 0 ∨ last = 59 ∨ last = 34) := by omega
    by_cases h2 : o = true <;> by_cases h3 : c.hasName = true <;> simp [h1, h1', h2, h3] <;> omega

/-! ## dependence on the byte before -/

theorem commaOf_congr {l l' : Nat} (h : NoComma l ↔ NoComma l') : commaOf l = commaOf l' := by
  unfold commaOf; by_cases h1 : NoComma l
  · simp [h1, h.1 h1]
  · have : ¬ NoComma l' := fun h2 => h1 (h.2 h2)
    simp [h1, this]

theorem encOne_last_noComma (p : State) (l : Nat) (e : Ev) :
    NoComma (encOne p l e).last ↔ e = Ev.nl := by
  cases e with
  | nl => simp [encOne, NoComma]
  | seg c o =>
    simp only [encOne, reduceCtorEq, iff_false]
    exact amb_last l p _ _

theorem encOne_last_congr (p : State) {l l' : Nat} (h : NoComma l ↔ NoComma l') (e : Ev) :
    (encOne p l e).bytes = (encOne p l' e).bytes ∧ (encOne p l e).st = (encOne p l' e).st ∧
      (encOne p l e).fno = (encOne p l' e).fno := by
  cases e with
  | nl => simp [encOne]
  | seg c o =>
    simp only [encOne, amb_bytes, amb_fno, commaOf_congr h, and_self]

theorem encEvs_last_congr (evs : List Ev) (p : State) {l l' : Nat} (h : NoComma l ↔ NoComma l') :
    (encEvs p l evs).bytes = (encEvs p l' evs).bytes ∧ (encEvs p l evs).st = (encEvs p l' evs).st ∧
      (encEvs p l evs).fno = (encEvs p l' evs).fno := by
  induction evs generalizing p l l' with
  | nil => simp [encEvs]
  | cons e es ih =>
    obtain ⟨h1, h2, h3⟩ := encOne_last_congr p h e
    have hl : NoComma (encOne p l e).last ↔ NoComma (encOne p l' e).last := by
      rw [encOne_last_noComma, encOne_last_noComma]
    obtain ⟨h4, h5, h6⟩ := ih (encOne p l e).st hl
    simp only [encEvs]
    rw [← h2, ← h1, ← h3, h4, h5, h6]
    exact ⟨rfl, rfl, rfl⟩

/-! ## shifting -/

structure Shift where
  c : Int := 0
  a : Int := 0
  dl : Int := 0
  dc : Int := 0
  b : Int := 0
deriving DecidableEq, Repr

def Shift.noCol (δ : Shift) : Shift := { δ with c := 0 }

/-- `q` is `p` shifted by `δ` (generated line and `hasName` play no role) -/
structure ShiftRel (δ : Shift) (p q : State) : Prop where
  c : q.genCol = p.genCol + δ.c
  a : q.srcIdx = p.srcIdx + δ.a
  dl : q.origLine = p.origLine + δ.dl
  dc : q.origCol = p.origCol + δ.dc
  b : q.origName = p.origName + δ.b

def shiftOrig (δ : Shift) (o : Orig) : Orig :=
  ⟨o.src + δ.a, o.line + δ.dl, o.col + δ.dc, o.name.map (· + δ.b)⟩

/-- all segments shifted; the generated column only up to the first line break -/
def shiftEvs (δ : Shift) : List Ev → List Ev
  | [] => []
  | .nl :: es => .nl :: shiftEvs δ.noCol es
  | .seg c o :: es => .seg (c + δ.c) (o.map (shiftOrig δ)) :: shiftEvs δ es

theorem shift_seg (δ : Shift) (p q : State) (h : ShiftRel δ p q) (l : Nat) (c : Int) (o : Option Orig) :
    (encOne q l (.seg (c + δ.c) (o.map (shiftOrig δ)))).bytes = (encOne p l (.seg c o)).bytes ∧
    (encOne q l (.seg (c + δ.c) (o.map (shiftOrig δ)))).fno = (encOne p l (.seg c o)).fno ∧
    ShiftRel δ (encOne p l (.seg c o)).st (encOne q l (.seg (c + δ.c) (o.map (shiftOrig δ)))).st := by
  obtain ⟨hc, ha, hdl, hdc, hb⟩ := h
  cases o with
  | none =>
    have e1 : c + δ.c - q.genCol = c - p.genCol := by omega
    refine ⟨?_, ?_, ?_⟩
    · simp [encOne, amb_bytes, fieldsOf, curOf, e1]
    · simp [encOne, amb_fno, curOf]
    · constructor <;> simp [encOne, curOf, nextOf, ha, hdl, hdc, hb]
  | some o =>
    obtain ⟨a, ln, cl, n⟩ := o
    have e1 : c + δ.c - q.genCol = c - p.genCol := by omega
    have e2 : a + δ.a - q.srcIdx = a - p.srcIdx := by omega
    have e3 : ln + δ.dl - q.origLine = ln - p.origLine := by omega
    have e4 : cl + δ.dc - q.origCol = cl - p.origCol := by omega
    cases n with
    | none =>
      refine ⟨?_, ?_, ?_⟩
      · simp [encOne, amb_bytes, fieldsOf, curOf, shiftOrig, e1, e2, e3, e4]
      · simp [encOne, amb_fno, curOf, shiftOrig]
      · constructor <;> simp [encOne, curOf, nextOf, shiftOrig, hb]
    | some n =>
      have e5 : n + δ.b - q.origName = n - p.origName := by omega
      refine ⟨?_, ?_, ?_⟩
      · simp [encOne, amb_bytes, fieldsOf, curOf, shiftOrig, e1, e2, e3, e4, e5]
      · simp [encOne, amb_fno, curOf, shiftOrig, fields0, e1, e2, e3, e4]
      · constructor <;> simp [encOne, curOf, nextOf, shiftOrig]

theorem shift_nl (δ : Shift) (p q : State) (h : ShiftRel δ p q) (l : Nat) :
    ShiftRel δ.noCol (encOne p l .nl).st (encOne q l .nl).st := by
  obtain ⟨hc, ha, hdl, hdc, hb⟩ := h
  constructor <;> simp [encOne, Shift.noCol, ha, hdl, hdc, hb]

def hasNl : List Ev → Bool
  | [] => false
  | .nl :: _ => true
  | .seg _ _ :: es => hasNl es

/-- **Delta encoding is translation invariant.** -/
theorem shift_all (evs : List Ev) (δ : Shift) (p q : State) (h : ShiftRel δ p q) (l : Nat) :
    (encEvs q l (shiftEvs δ evs)).bytes = (encEvs p l evs).bytes ∧
    (encEvs q l (shiftEvs δ evs)).fno = (encEvs p l evs).fno ∧
    ShiftRel (if hasNl evs then δ.noCol else δ) (encEvs p l evs).st (encEvs q l (shiftEvs δ evs)).st := by
  induction evs generalizing δ p q l with
  | nil => simpa [encEvs, shiftEvs, hasNl] using h
  | cons e es ih =>
    cases e with
    | nl =>
      have h1 := shift_nl δ p q h l
      obtain ⟨h2, h3, h4⟩ := ih δ.noCol _ _ h1 59
      have hn : (if hasNl es then δ.noCol.noCol else δ.noCol) = δ.noCol := by simp [Shift.noCol]
      rw [hn] at h4
      simp only [shiftEvs, encEvs, hasNl, ↓reduceIte]
      simp only [encOne] at h2 h3 h4 ⊢
      rw [h2, h3]
      exact ⟨rfl, rfl, h4⟩
    | seg c o =>
      obtain ⟨h1, h2, h3⟩ := shift_seg δ p q h l c o
      have hl : (encOne q l (.seg (c + δ.c) (o.map (shiftOrig δ)))).last = (encOne p l (.seg c o)).last := by
        have := h1; simp only [encOne] at this ⊢; rw [this]
      obtain ⟨h4, h5, h6⟩ := ih δ _ _ h3 (encOne p l (.seg c o)).last
      simp only [shiftEvs, encEvs, hasNl, hl, h1, h2, h4, h5]
      exact ⟨trivial, trivial, h6⟩

/-! ## the first name field -/

theorem encOne_fno_none_name (p : State) (l : Nat) (e : Ev) (h : (encOne p l e).fno = none) (x : Int) :
    (encOne { p with origName := x } l e).bytes = (encOne p l e).bytes ∧
    (encOne { p with origName := x } l e).st = { (encOne p l e).st with origName := x } ∧
    (encOne { p with origName := x } l e).fno = none ∧
    (encOne { p with origName := x } l e).last = (encOne p l e).last := by
  cases e with
  | nl => simp [encOne]
  | seg c o =>
    cases o with
    | none => simp [encOne, amb_bytes, amb_fno, fieldsOf, curOf, nextOf]
    | some o =>
      obtain ⟨a, ln, cl, n⟩ := o
      cases n with
      | none => simp [encOne, amb_bytes, amb_fno, fieldsOf, curOf, nextOf]
      | some n => simp [encOne, amb_fno, curOf] at h

theorem splice_none (evs : List Ev) (p : State) (l : Nat) (h : (encEvs p l evs).fno = none) (x : Int) :
    (encEvs { p with origName := x } l evs).bytes = (encEvs p l evs).bytes ∧
    (encEvs { p with origName := x } l evs).st = { (encEvs p l evs).st with origName := x } := by
  induction evs generalizing p l with
  | nil => simp [encEvs]
  | cons e es ih =>
    simp only [encEvs] at h
    have h1 : (encOne p l e).fno = none := by
      cases hh : (encOne p l e).fno with
      | none => rfl
      | some k => rw [hh] at h; simp at h
    have h2 : (encEvs (encOne p l e).st (encOne p l e).last es).fno = none := by
      rw [h1] at h; simpa using h
    obtain ⟨e1, e2, e3, e4⟩ := encOne_fno_none_name p l e h1 x
    obtain ⟨e5, e6⟩ := ih _ _ h2
    simp only [encEvs, e1, e2, e4, e5, e6, and_self]

theorem splice_some (evs : List Ev) (p : State) (l : Nat) (k : Nat) (h : (encEvs p l evs).fno = some k) :
    ∃ X n Y, (encEvs p l evs).bytes = X ++ enc n ++ Y ∧ X.length = k ∧
      ∀ δ : Int, (encEvs { p with origName := p.origName - δ } l evs).bytes = X ++ enc (n + δ) ++ Y ∧
        (encEvs { p with origName := p.origName - δ } l evs).st = (encEvs p l evs).st := by
  induction evs generalizing p l k with
  | nil => simp [encEvs] at h
  | cons e es ih =>
    cases h1 : (encOne p l e).fno with
    | none =>
      simp only [encEvs, h1] at h
      cases h2 : (encEvs (encOne p l e).st (encOne p l e).last es).fno with
      | none => rw [h2] at h; simp at h
      | some k' =>
        rw [h2] at h
        simp only [Option.map_some, Option.some.injEq] at h
        obtain ⟨X, n, Y, hb, hX, hδ⟩ := ih _ _ k' h2
        refine ⟨(encOne p l e).bytes ++ X, n, Y, ?_, ?_, ?_⟩
        · simp only [encEvs, hb, List.append_assoc]
        · simp [hX]; omega
        · intro δ
          obtain ⟨e1, e2, e3, e4⟩ := encOne_fno_none_name p l e h1 (p.origName - δ)
          have hn : (encOne p l e).st.origName = p.origName := by
            cases e with
            | nl => rfl
            | seg c o =>
              cases o with
              | none => rfl
              | some o =>
                obtain ⟨a, ln, cl, n⟩ := o
                cases n with
                | none => rfl
                | some n => simp [encOne, amb_fno, curOf] at h1
          obtain ⟨e5, e6⟩ := hδ δ
          rw [hn] at e5 e6
          simp only [encEvs, e1, e2, e4, e5, e6, List.append_assoc, and_self]
    | some k1 =>
      simp only [encEvs, h1, Option.some.injEq] at h
      subst h
      cases e with
      | nl => simp [encOne] at h1
      | seg c o =>
        cases o with
        | none => simp [encOne, amb_fno, curOf] at h1
        | some o =>
          obtain ⟨a, ln, cl, n⟩ := o
          cases n with
          | none => simp [encOne, amb_fno, curOf] at h1
          | some n =>
            simp only [encOne, amb_fno, curOf, Option.isSome_some, ↓reduceIte, Option.some.injEq] at h1
            refine ⟨commaOf l ++ (fields0 p (curOf p c (some ⟨a, ln, cl, some n⟩)) false).flatMap enc,
              n - p.origName,
              (encEvs (encOne p l (.seg c (some ⟨a, ln, cl, some n⟩))).st
                (encOne p l (.seg c (some ⟨a, ln, cl, some n⟩))).last es).bytes, ?_, ?_, ?_⟩
            · simp [encEvs, encOne, amb_bytes, fieldsOf_eq, curOf, List.append_assoc]
            · simpa [curOf] using h1
            · intro δ
              have hst : (encOne { p with origName := p.origName - δ } l (.seg c (some ⟨a, ln, cl, some n⟩))).st
                  = (encOne p l (.seg c (some ⟨a, ln, cl, some n⟩))).st := by
                simp [encOne, curOf, nextOf]
              have hlast : NoComma (encOne { p with origName := p.origName - δ } l
                    (.seg c (some ⟨a, ln, cl, some n⟩))).last ↔
                  NoComma (encOne p l (.seg c (some ⟨a, ln, cl, some n⟩))).last := by
                rw [encOne_last_noComma, encOne_last_noComma]
              obtain ⟨e1, e2, _⟩ := encEvs_last_congr es (encOne p l (.seg c (some ⟨a, ln, cl, some n⟩))).st hlast
              have e5 : n - (p.origName - δ) = n - p.origName + δ := by omega
              simp only [encEvs, hst, e1, e2, and_true]
              simp [encOne, amb_bytes, fieldsOf_eq, curOf, fields0, List.append_assoc, e5]

end EsbuildModel.SmJoin
