import EsbuildModel.Lemmas.JsonSoundStr2
import EsbuildModel.Lemmas.JsonStrTs
/-
Soundness for strings (tsconfig flavour): what `tryToDecodeEscapeSequences` decodes without complaint is a string
body of the dialect `esbuildTsconfig`, and it decodes it to the body's code units.
-/
namespace EsbuildModel.Json
open EsbuildModel.Spec.Json

theorem sc_no_cr {fl : Flavor} {t : List Char} : ¬ ScanClean fl ('\r' :: t) := by
  intro h
  cases h with
  | plain _ _ _ h2 => exact h2 rfl

theorem sc_plain {c : Char} {t : List Char} (h : ScanClean .tsconfig (c :: t)) (hc : c ≠ '\\') :
    c ≠ '"' ∧ c ≠ '\r' ∧ c ≠ '\n' ∧ ScanClean .tsconfig t := by
  cases h with
  | plain _ _ h1 h2 h3 h4 h5 h6 => exact ⟨h4, h2, h3, h6⟩
  | esc _ _ _ _ => exact absurd rfl hc
  | crlf _ _ => exact absurd rfl hc
  | cr _ _ => exact absurd rfl hc

theorem sc_bs {d : Char} {t : List Char} (h : ScanClean .tsconfig ('\\' :: d :: t)) (hd : d ≠ '\r') :
    ScanClean .tsconfig t := by
  cases h with
  | plain _ _ h1 => exact absurd rfl h1
  | esc _ _ _ h2 => exact h2
  | crlf _ _ => exact absurd rfl hd
  | cr _ _ => exact absurd rfl hd

theorem sc_bs_nil : ¬ ScanClean .tsconfig ['\\'] := by
  intro h
  cases h with
  | plain _ _ h1 => exact h1 rfl

theorem sc_crlf {t : List Char} (h : ScanClean .tsconfig ('\\' :: '\r' :: '\n' :: t)) : ScanClean .tsconfig t := by
  cases h with
  | plain _ _ h1 => exact absurd rfl h1
  | esc _ _ h1 _ => exact absurd ⟨rfl, by simp⟩ h1
  | crlf _ _ h2 => exact h2
  | cr _ _ h2 _ => simp at h2

theorem sc_cr {t : List Char} (h : ScanClean .tsconfig ('\\' :: '\r' :: t)) (hn : t.head? ≠ some '\n') :
    ScanClean .tsconfig t := by
  cases h with
  | plain _ _ h1 => exact absurd rfl h1
  | esc _ _ h1 _ => exact absurd ⟨rfl, by simp⟩ h1
  | crlf _ _ _ => simp at hn
  | cr _ _ _ h3 => exact h3

/-- the conclusion of soundness in mode `m` (tsconfig flavour) -/
def DecPostTs (m : DMode) (l : List Cp) (us : List Nat) : Prop :=
  match m with
  | .normal => ScanClean .tsconfig (chars l) →
      ∃ cs, strOk esbuildTsconfig cs = true ∧ chars l = strRender cs ∧ us = strUnits cs
  | .brace v o isFirst _ => ScanClean .tsconfig (chars l) →
      ∃ ds cs, chars l = ds ++ '}' :: strRender cs ∧ (∀ c ∈ ds, isHexDigit c = true) ∧ (isFirst = true → ds ≠ []) ∧
        o = false ∧ (v ≤ 0x10FFFF → hexAcc v ds ≤ 0x10FFFF) ∧ strOk esbuildTsconfig cs = true ∧
        us = unitsOf (hexAcc v ds) ++ strUnits cs

/-- one item in front of a body that is already understood -/
theorem ts_item (it : SChar) (l r : List Cp) (us : List Nat) (d' : Dec) (hl : chars l = it.render ++ chars r)
    (h : d'.cons it.units = .ok us) (ih : ∀ us', d' = .ok us' → DecPostTs .normal r us')
    (hsc : ScanClean .tsconfig (chars r)) (hok : it.ok esbuildTsconfig (chars r).head? = true) :
    ∃ cs, strOk esbuildTsconfig cs = true ∧ chars l = strRender cs ∧ us = strUnits cs := by
  obtain ⟨t, ht, rfl⟩ := Dec.cons_ok_inv h
  obtain ⟨cs, k1, k2, k3⟩ := ih t ht hsc
  refine ⟨it :: cs, ?_, by simp [hl, k2], by simp [k3]⟩
  simp only [strOk, k1, Bool.and_true]
  rw [← k2]; exact hok

theorem headIs_chars (l : List Cp) (p : Char → Bool) : headIs l p = ((chars l).head?.map p).getD false := by
  cases l <;> rfl

theorem esc_ok_ts {c : Char} (h : (rfcEscape c).isSome = true ∨ c = 'v' ∨ c = '8' ∨ c = '9' ∨ jsEscapeLead c = false)
    (next : Option Char) : (SChar.esc c).ok esbuildTsconfig next = true := by
  simp only [SChar.ok, esbuildTsconfig, Bool.true_and, Bool.or_eq_true, beq_iff_eq, Bool.not_eq_true']
  rcases h with h | h | h | h | h
  · exact Or.inl (Or.inl h)
  · exact Or.inr (Or.inl (Or.inl (Or.inl h)))
  · exact Or.inr (Or.inl (Or.inl (Or.inr h)))
  · exact Or.inr (Or.inl (Or.inr h))
  · exact Or.inr (Or.inr h)

/-- escapes of one character after the backslash -/
theorem ts_esc_case (c d : Cp) (r : List Cp) (us : List Nat) (u : List Nat) (d' : Dec) (hc : c.c = '\\') (hd : d.c ≠ '\r')
    (h : d'.cons u = .ok us) (ih : ∀ us', d' = .ok us' → DecPostTs .normal r us')
    (hok : (rfcEscape d.c).isSome = true ∨ d.c = 'v' ∨ d.c = '8' ∨ d.c = '9' ∨ jsEscapeLead d.c = false)
    (hu : (SChar.esc d.c).units = u) : DecPostTs .normal (c :: d :: r) us := by
  intro hsc
  simp only [chars_cons, hc] at hsc
  exact ts_item (.esc d.c) (c :: d :: r) r us d' (by simp [SChar.render, hc]) (by rw [hu]; exact h) ih (sc_bs hsc hd)
    (esc_ok_ts hok _)

theorem oct_facts {c : Char} (h : 48 ≤ c.toNat ∧ c.toNat ≤ 55) :
    Spec.Json.isOctDigit c = true ∧ c ≠ '\\' ∧ c ≠ '\r' := by
  refine ⟨by simp [Spec.Json.isOctDigit, h.1, h.2], ?_, ?_⟩ <;> (rintro rfl; revert h; decide)

theorem decodeEsc_sound_ts (m : DMode) (l : List Cp) (p : Nat) :
    ∀ us, decodeEsc .tsconfig m l p = .ok us → DecPostTs m l us := by
  fun_induction decodeEsc .tsconfig m l p <;> intro us h
  all_goals try (cases h; done)
  all_goals try (exfalso; simp at *; done)
  case case1 =>
    cases h
    intro _
    exact ⟨[], rfl, rfl, rfl⟩
  case case3 v o isFirst hs c r pos d hx v' ih =>
    intro hsc
    obtain ⟨hd, hD⟩ := isHexDigit_of_hexVal hx
    simp only [chars_cons] at hsc
    obtain ⟨_, _, _, hsc'⟩ := sc_plain hsc (hex_plain hd)
    obtain ⟨ds, cs, k1, k2, k3, k4, k5, k6, k7⟩ := ih us h hsc'
    have ho : o = false ∧ v' ≤ 0x10FFFF := by
      simp only [Bool.or_eq_false_iff, decide_eq_false_iff_not, Nat.not_lt] at k4
      exact ⟨k4.1, by omega⟩
    have hacc : hexAcc v (c.c :: ds) = hexAcc v' ds := by simp [hexAcc, hD, v']
    refine ⟨c.c :: ds, cs, by simp [k1], ?_, by simp, ho.1, fun _ => by rw [hacc]; exact k5 ho.2, k6, by rw [hacc]; exact k7⟩
    intro x hx'
    rcases List.mem_cons.1 hx' with rfl | hx'
    · exact hd
    · exact k2 x hx'
  case case6 v o isFirst hs c r pos hx hbr hnf hno ih =>
    intro hsc
    simp only [chars_cons, hbr] at hsc
    obtain ⟨_, _, _, hsc'⟩ := sc_plain hsc (by decide)
    obtain ⟨t, ht, rfl⟩ := Dec.cons_ok_inv h
    obtain ⟨cs, k1, k2, k3⟩ := ih t ht hsc'
    refine ⟨[], cs, by simp [hbr, k2], by simp, fun hf => absurd hf hnf, by simpa using hno, fun hv => by simpa [hexAcc] using hv, k1,
      by simp [hexAcc, k3]⟩
  case case8 c _ hcr d t _ ih =>
    intro hsc
    simp only [chars_cons, hcr] at hsc
    exact absurd hsc sc_no_cr
  case case9 c _ hcr _ =>
    intro hsc
    simp only [chars_cons, hcr] at hsc
    exact absurd hsc sc_no_cr
  case case10 c r _ hcr _ ih =>
    intro hsc
    simp only [chars_cons, hcr] at hsc
    exact absurd hsc sc_no_cr
  case case11 c r _ hcr hbs ih =>
    intro hsc
    simp only [chars_cons] at hsc
    obtain ⟨h1, h2, h3, h4⟩ := sc_plain hsc hbs
    refine ts_item (.lit c.c) (c :: r) r us _ (by simp [SChar.render]) ?_ ih h4 ?_
    · simpa [SChar.units, unitsOf_eq _ (char_le c.c)] using h
    · simp [SChar.ok, esbuildTsconfig, h1, hbs, h2, h3]
  case case13 c _ hcr hbs _ =>
    intro hsc
    have : c.c = '\\' := by simpa using hbs
    simp only [chars_cons, chars_nil, this] at hsc
    exact absurd hsc sc_bs_nil
  case case14 c _ hcr hbs _ d r _ _ hd ih =>
    exact ts_esc_case c d r us [8] _ (by simpa using hbs) (by rw [hd]; decide) h ih (Or.inl (by simp [hd, rfcEscape]))
      (by simp [SChar.units, hd, rfcEscape, Spec.Unicode.utf16])
  case case15 c _ hcr hbs _ d r _ _ _ hd ih =>
    exact ts_esc_case c d r us [12] _ (by simpa using hbs) (by rw [hd]; decide) h ih (Or.inl (by simp [hd, rfcEscape]))
      (by simp [SChar.units, hd, rfcEscape, Spec.Unicode.utf16])
  case case16 c _ hcr hbs _ d r _ _ _ _ hd ih =>
    exact ts_esc_case c d r us [10] _ (by simpa using hbs) (by rw [hd]; decide) h ih (Or.inl (by simp [hd, rfcEscape]))
      (by simp [SChar.units, hd, rfcEscape, Spec.Unicode.utf16])
  case case17 c _ hcr hbs _ d r _ _ _ _ _ hd ih =>
    exact ts_esc_case c d r us [13] _ (by simpa using hbs) (by rw [hd]; decide) h ih (Or.inl (by simp [hd, rfcEscape]))
      (by simp [SChar.units, hd, rfcEscape, Spec.Unicode.utf16])
  case case18 c _ hcr hbs _ d r _ _ _ _ _ _ hd ih =>
    exact ts_esc_case c d r us [9] _ (by simpa using hbs) (by rw [hd]; decide) h ih (Or.inl (by simp [hd, rfcEscape]))
      (by simp [SChar.units, hd, rfcEscape, Spec.Unicode.utf16])
  case case20 c _ hcr hbs _ d r _ _ _ _ _ _ _ hd _ ih =>
    exact ts_esc_case c d r us [11] _ (by simpa using hbs) (by rw [hd]; decide) h ih (Or.inr (Or.inl hd))
      (by simp [SChar.units, hd, rfcEscape, Spec.Unicode.utf16])
  case case21 c _ hcr hbs _ d r _ _ _ _ _ _ _ _ hd ih =>
    refine ts_esc_case c d r us [d.c.toNat] _ (by simpa using hbs) ?_ h ih ?_ ?_
    · rcases hd with hd | hd <;> (rw [hd]; decide)
    · rcases hd with hd | hd
      · exact Or.inr (Or.inr (Or.inl hd))
      · exact Or.inr (Or.inr (Or.inr (Or.inl hd)))
    · rcases hd with hd | hd <;> simp [SChar.units, hd, rfcEscape, Spec.Unicode.utf16]
  case case23 c _ hcr hbs _ d r _ _ _ _ _ _ _ _ hoct _ v1 hhead ih =>
    intro hsc
    have hbs' : c.c = '\\' := by simpa using hbs
    obtain ⟨o1, o2, o3⟩ := oct_facts hoct
    simp only [chars_cons, hbs'] at hsc
    have hn : headIs r isOct = false := by simpa using hhead
    refine ts_item (.oct [d.c]) (c :: d :: r) r us _ (by simp [SChar.render, hbs']) ?_ ih (sc_bs hsc o3) ?_
    · simpa [SChar.units, octMV, v1, unitsOf_small _ (show d.c.toNat - 48 ≤ 0xFFFF by omega)] using h
    · rw [headIs_chars] at hn
      have e : Spec.Json.isOctDigit = isOct := rfl
      simp only [SChar.ok, esbuildTsconfig, List.all_cons, List.all_nil, o1, Bool.and_true, Bool.true_and]
      rw [e, hn]; rfl
  case case24 => exfalso; simp [headIs] at *
  case case25 c _ hcr hbs _ a _ _ _ _ _ _ _ _ hoct _ v1 b r v2 hhead hb ih2 ih =>
    intro hsc
    have hbs' : c.c = '\\' := by simpa using hbs
    obtain ⟨o1, o2, o3⟩ := oct_facts hoct
    have hb' : 48 ≤ b.c.toNat ∧ b.c.toNat ≤ 55 := by simpa [headIs, isOct] using hb
    obtain ⟨p1, p2, p3⟩ := oct_facts hb'
    simp only [chars_cons, hbs'] at hsc
    have hsc2 := (sc_plain (sc_bs hsc o3) p2).2.2.2
    have hn : headIs r (fun c4 => isOct c4 && decide (v2 * 8 + (c4.toNat - 48) < 256)) = false := by simpa using hhead
    refine ts_item (.oct [a.c, b.c]) (c :: a :: b :: r) r us _ (by simp [SChar.render, hbs']) ?_ ih hsc2 ?_
    · simpa [SChar.units, octMV, v1, v2, unitsOf_small _ (show (a.c.toNat - 48) * 8 + (b.c.toNat - 48) ≤ 0xFFFF by omega)] using h
    · rw [headIs_chars] at hn
      have e : Spec.Json.isOctDigit = isOct := rfl
      have h52 : a.c.toNat ≥ 52 ∨ ((chars r).head?.map isOct).getD false = false := by
        cases hx : (chars r).head? with
        | none => right; rfl
        | some x =>
          rw [hx] at hn
          simp only [Option.map_some, Option.getD_some, Bool.and_eq_false_iff, decide_eq_false_iff_not, Nat.not_lt] at hn
          by_cases hox : isOct x = true
          · left
            have hxr : 48 ≤ x.toNat ∧ x.toNat ≤ 55 := by simpa [isOct] using hox
            rcases hn with hn | hn
            · rw [hox] at hn; cases hn
            · simp only [v1, v2] at hn
              omega
          · right; simpa using hox
      have o1' : isOct a.c = true := o1
      have p1' : isOct b.c = true := p1
      have hjs : esbuildTsconfig.jsStrings = true := rfl
      simp only [SChar.ok, hjs, List.all_cons, List.all_nil, Bool.and_true, Bool.true_and, e, o1', p1']
      rw [Bool.or_eq_true]
      rcases h52 with h | h
      · left; exact decide_eq_true h
      · right; rw [h]; rfl
  case case26 => exfalso; simp [headIs] at *
  case case27 c _ hcr hbs _ a _ _ _ _ _ _ _ _ hoct _ v1 b v2 d r hd hb ih2 ih =>
    intro hsc
    have hbs' : c.c = '\\' := by simpa using hbs
    obtain ⟨o1, o2, o3⟩ := oct_facts hoct
    have hb' : 48 ≤ b.c.toNat ∧ b.c.toNat ≤ 55 := by simpa [headIs, isOct] using hb
    obtain ⟨p1, p2, p3⟩ := oct_facts hb'
    have hd' : (48 ≤ d.c.toNat ∧ d.c.toNat ≤ 55) ∧ v2 * 8 + (d.c.toNat - 48) < 256 := by
      simpa [headIs, isOct] using hd
    obtain ⟨q1, q2, q3⟩ := oct_facts hd'.1
    simp only [chars_cons, hbs'] at hsc
    have hsc3 := (sc_plain (sc_plain (sc_bs hsc o3) p2).2.2.2 q2).2.2.2
    refine ts_item (.oct [a.c, b.c, d.c]) (c :: a :: b :: d :: r) r us _ (by simp [SChar.render, hbs']) ?_ ih hsc3 ?_
    · have hlt := hd'.2
      simp only [v1, v2] at hlt
      simpa [SChar.units, octMV, v1, v2, unitsOf_small _ (show ((a.c.toNat - 48) * 8 + (b.c.toNat - 48)) * 8 + (d.c.toNat - 48) ≤ 0xFFFF by omega)] using h
    · have hlt := hd'.2
      simp only [v1, v2] at hlt
      simp only [SChar.ok, esbuildTsconfig, Bool.true_and, List.all_cons, List.all_nil, o1, p1, q1, Bool.and_true,
        decide_eq_true_eq]
      omega
  case case33 c _ hcr hbs _ x _ _ _ _ _ _ _ _ _ hx _ a d1 e1 b r d2 e2 ih2 ih =>
    intro hsc
    have hbs' : c.c = '\\' := by simpa using hbs
    obtain ⟨x1, y1⟩ := isHexDigit_of_hexVal e1
    obtain ⟨x2, y2⟩ := isHexDigit_of_hexVal e2
    simp only [chars_cons, hbs', hx] at hsc
    have hsc2 := (sc_plain (sc_plain (sc_bs hsc (by decide)) (hex_plain x1)).2.2.2 (hex_plain x2)).2.2.2
    have l1 := hexD_lt a.c; have l2 := hexD_lt b.c
    refine ts_item (.x a.c b.c) (c :: x :: a :: b :: r) r us _ (by simp [SChar.render, hbs', hx]) ?_ ih hsc2 ?_
    · simpa [SChar.units, y1, y2, unitsOf_small _ (show d1 * 16 + d2 ≤ 0xFFFF by omega)] using h
    · simp [SChar.ok, esbuildTsconfig, x1, x2]
  case case36 c _ hcr hbs _ u _ _ _ _ _ _ _ _ _ _ hu br r hbr _ ih2 ih =>
    intro hsc
    have hbs' : c.c = '\\' := by simpa using hbs
    simp only [chars_cons, hbs', hu, hbr] at hsc
    have hsc2 := (sc_plain (sc_bs hsc (by decide)) (by decide)).2.2.2
    obtain ⟨ds, cs, k1, k2, k3, k4, k5, k6, k7⟩ := ih us h hsc2
    have hle : hexMV ds ≤ 0x10FFFF := by have := k5 (by decide); rwa [hexAcc_zero] at this
    refine ⟨.ubrace ds :: cs, ?_, ?_, ?_⟩
    · have hall : ds.all isHexDigit = true := List.all_eq_true.2 k2
      have hne : ds.isEmpty = false := by
        cases ds with
        | nil => exact absurd rfl (k3 rfl)
        | cons _ _ => rfl
      have hjs : esbuildTsconfig.jsStrings = true := rfl
      simp only [strOk, k6, Bool.and_true, SChar.ok, hjs, Bool.true_and, hall, hne, Bool.not_false]
      exact decide_eq_true hle
    · simp [SChar.render, hbs', hu, hbr, k1]
    · rw [k7, hexAcc_zero, unitsOf_eq _ hle]; simp [SChar.units]
  case case44 c _ hcr hbs _ u _ _ _ _ _ _ _ _ _ _ hu a hbr d1 e1 b d2 e2 c' d3 e3 d r d4 e4 ih2 ih1 =>
    intro hsc
    have hbs' : c.c = '\\' := by simpa using hbs
    simp only [chars_cons, hbs', hu] at hsc
    obtain ⟨x1, y1⟩ := isHexDigit_of_hexVal e1
    obtain ⟨x2, y2⟩ := isHexDigit_of_hexVal e2
    obtain ⟨x3, y3⟩ := isHexDigit_of_hexVal e3
    obtain ⟨x4, y4⟩ := isHexDigit_of_hexVal e4
    have s1 := sc_bs hsc (by decide)
    have s5 := (sc_plain (sc_plain (sc_plain (sc_plain s1 (hex_plain x1)).2.2.2 (hex_plain x2)).2.2.2 (hex_plain x3)).2.2.2
      (hex_plain x4)).2.2.2
    have l1 := hexD_lt a.c; have l2 := hexD_lt b.c; have l3 := hexD_lt c'.c; have l4 := hexD_lt d.c
    refine ts_item (.u a.c b.c c'.c d.c) (c :: u :: a :: b :: c' :: d :: r) r us _ (by simp [SChar.render, hbs', hu]) ?_ ih1 s5 ?_
    · simpa [SChar.units, y1, y2, y3, y4, unitsOf_small _ (show ((d1 * 16 + d2) * 16 + d3) * 16 + d4 ≤ 0xFFFF by omega)] using h
    · simp [SChar.ok, x1, x2, x3, x4]
  case case46 c _ hcr hbs _ d _ _ _ _ _ _ _ _ _ _ _ hd _ e t he ih2 ih =>
    intro hsc
    have hbs' : c.c = '\\' := by simpa using hbs
    have he' : e.c = '\n' := by simpa [headIs] using he
    simp only [chars_cons, hbs', hd, he'] at hsc
    refine ts_item (.cont ['\r', '\n']) (c :: d :: e :: t) t us _ (by simp [SChar.render, hbs', hd, he']) ?_ ih (sc_crlf hsc) ?_
    · simpa [SChar.units] using h
    · simp [SChar.ok, esbuildTsconfig]
  case case47 => exfalso; simp [headIs] at *
  case case48 c _ hcr hbs _ d r _ _ _ _ _ _ _ _ _ _ _ hd _ hn ih =>
    intro hsc
    have hbs' : c.c = '\\' := by simpa using hbs
    simp only [chars_cons, hbs', hd] at hsc
    have hn' : (chars r).head? ≠ some '\n' := by
      have : headIs r (· == '\n') = false := by simpa using hn
      rw [headIs_chars] at this
      intro hh; rw [hh] at this; simp at this
    refine ts_item (.cont ['\r']) (c :: d :: r) r us _ (by simp [SChar.render, hbs', hd]) ?_ ih (sc_cr hsc hn') ?_
    · simpa [SChar.units] using h
    · simp [SChar.ok, esbuildTsconfig, hn']
  case case50 c _ hcr hbs _ d r _ _ _ _ _ _ _ _ _ _ _ hncr hd _ ih =>
    intro hsc
    have hbs' : c.c = '\\' := by simpa using hbs
    simp only [chars_cons, hbs'] at hsc
    refine ts_item (.cont [d.c]) (c :: d :: r) r us _ (by simp [SChar.render, hbs']) ?_ ih (sc_bs hsc hncr) ?_
    · simpa [SChar.units] using h
    · have hch : ∀ n : Nat, d.c.toNat = n → d.c = Char.ofNat n := by
        intro n hn; rw [← hn]; simp [Char.ofNat_toNat]
      rcases hd with hd | hd | hd
      · simp [SChar.ok, esbuildTsconfig, hd]
      · simp [SChar.ok, esbuildTsconfig, hch _ hd]
      · simp [SChar.ok, esbuildTsconfig, hch _ hd]
  case case52 c _ hcr hbs _ d r _ nb nf nn nr nt nv n89 noct nx nu ncr nlt _ ih =>
    refine ts_esc_case c d r us (unitsOf d.c.toNat) _ (by simpa using hbs) ncr h ih ?_ ?_
    · by_cases hr : (rfcEscape d.c).isSome = true
      · exact Or.inl hr
      · right; right; right; right
        simp only [jsEscapeLead, Bool.or_eq_false_iff, beq_eq_false_iff_ne, ne_eq, Bool.and_eq_false_iff,
          decide_eq_false_iff_not, isLT]
        simp only [not_or] at n89 nlt
        refine ⟨⟨⟨⟨nu, nx⟩, nv⟩, ?_⟩, ⟨⟨nlt.1, ncr⟩, nlt.2.1⟩, nlt.2.2⟩
        by_cases h1 : 48 ≤ d.c.toNat
        · right
          intro h2
          have : d.c.toNat = 56 ∨ d.c.toNat = 57 := by omega
          rcases this with h | h
          · exact n89.1 (Char.toNat_inj.mp (by simpa using h))
          · exact n89.2 (Char.toNat_inj.mp (by simpa using h))
        · left; exact h1
    · have hval : (rfcEscape d.c).getD (if d.c = 'v' then 11 else d.c.toNat) = d.c.toNat := by
        simp only [rfcEscape, nb, nf, nn, nr, nt, nv, if_false]
        by_cases h1 : d.c = '"'
        · simp [h1]
        · by_cases h2 : d.c = '\\'
          · simp [h2]
          · by_cases h3 : d.c = '/'
            · simp [h3]
            · simp [h1, h2, h3]
      simp [SChar.units, hval, unitsOf_eq _ (char_le d.c)]

end EsbuildModel.Json
