import EsbuildModel.Lemmas.CssBoxLoop
/-
`processDeclarations` and the duplicate removal preserve, for every side and importance level, the last contribution
to the cascade of family `F`.
-/
namespace EsbuildModel.CssBox
open EsbuildModel.Spec.BoxCascade

section
variable {V : Type} {B : Browser Tok V} {F : Family} {ds : List CssBox.Decl}

/-- hypothesis of the main theorem: no flow-relative property of family `F` in the list -/
def NoFlow (F : Family) (ds : List CssBox.Decl) : Prop :=
  ∀ d ∈ ds, ∀ p, d.key = .box F p → p = .shorthand ∨ ∃ s, p = .side s

theorem MInv.step (hB : CssFacts B F) (o : Opts) (ho : o.insetUnsupported = false) (hflow : NoFlow F ds)
    {n : Nat} {st : St} (h : MInv B F ds n st) (d : CssBox.Decl) (hd : ds[n]? = some d) :
    MInv B F ds (n + 1) (step o st d) := by
  have hmem : d ∈ ds := List.mem_of_getElem? hd
  have hrs : (pushRule st d).rs = { rules := st.rs.rules ++ [some d], panic := false } :=
    RS.eta _ (by simpa using h.nopanic)
  have hpush : ∀ (hp : propOf F d.key = none), MInv B F ds (n + 1) (pushRule st d) := by
    intro hp
    apply h.other d hd (fun s imp => cD_none s imp d hp) (by simp) (by simpa using h.kt) (by simpa using h.nopanic)
      (by simp [h.len])
    · intro f s hs
      simp only [pushRule_get] at hs ⊢
      have := h.own f s hs; exact ⟨by omega, this.2⟩
    · intro i s imp
      simp only [pushRule_rules]
      by_cases hi : i < n
      · rw [if_pos hi, cAt_append_left B F _ _ s imp i (by rw [h.len]; exact hi)]
      · rw [if_neg hi]
        by_cases hi' : i = n
        · rw [hi', ← h.len, cAt_concat_last]; exact cD_none s imp d hp
        · exact cAt_ge B F _ s imp i (by simp [h.len]; omega)
  have hsides : ∀ f, d.key = .box f .shorthand → MInv B F ds (n + 1) (stepSides o (pushRule st d) f d) := by
    intro f hk
    have heff := stepSides_eff o st h.bound f d
    rw [h.len] at heff
    apply h.tracked d hd f (Or.inl hk) heff (fun f' hf => by rw [stepSides_get_ne _ _ _ _ _ hf]; simp)
    intro hfF
    subst hfF
    unfold stepSides
    simp only [St.get_put, St.rs_put, if_true, pushRule_get, hrs]
    exact mangleSides_TInv hB h.tinv d hk ⟨d, by rw [h.len]; exact hd, Or.inl hk⟩ o.minifyWhitespace
  have hside : ∀ f x, d.key = .box f (.side x) → MInv B F ds (n + 1) (stepSide o (pushRule st d) f d x) := by
    intro f x hk
    have heff := stepSide_eff o st h.bound f d x
    rw [h.len] at heff
    apply h.tracked d hd f (Or.inr ⟨x, hk⟩) heff (fun f' hf => by rw [stepSide_get_ne _ _ _ _ _ _ hf]; simp)
    intro hfF
    subst hfF
    unfold stepSide
    simp only [St.get_put, St.rs_put, if_true, pushRule_get, hrs]
    exact mangleSide_TInv hB h.tinv d x hk ⟨d, by rw [h.len]; exact hd, Or.inr ⟨x, hk⟩⟩ o.minifyWhitespace
  have hprop : ∀ f p, d.key = .box f p → p ≠ .shorthand → (∀ s, p ≠ .side s) → propOf F d.key = none := by
    intro f p hk h1 h2
    rw [hk]; unfold propOf
    by_cases hf : f = F
    · subst hf
      rcases hflow d hmem p hk with e | ⟨s, e⟩
      · exact absurd e h1
      · exact absurd e (h2 s)
    · simp [hf]
  unfold CssBox.step
  simp only
  split
  · rename_i f hk
    have : ¬(f = Family.inset ∧ o.insetUnsupported = true) := by simp [ho]
    rw [if_neg this]
    exact hsides f hk
  · rename_i f x hk
    exact hside f x hk
  · rename_i hk1 hk2
    apply hpush
    cases hkey : d.key with
    | other => rfl
    | box f p =>
      rw [← hkey]
      apply hprop f p hkey
      · intro e; exact hk1 f (by rw [hkey, e])
      · intro s e; exact hk2 f s (by rw [hkey, e])


theorem MInv.init (o : Opts) (ho : o.insetUnsupported = false) : MInv B F ds 0 (initSt o) := by
  have hkt : ∀ f, ((initSt o).get f).keyText = famName f := by
    intro f; cases f <;> simp [initSt, St.get, famName, ho]
  have haa : ∀ f, ((initSt o).get f).allowAuto = famAllowAuto f := by
    intro f; cases f <;> rfl
  have hs : ∀ f s, (((initSt o).get f).sides.get s).present = false := by
    intro f s; cases f <;> cases s <;> rfl
  have hno : ∀ {P : Prop} f s, (((initSt o).get f).sides.get s).present = true → P := by
    intro P f s h; rw [hs] at h; cases h
  refine ⟨rfl, rfl, hkt, fun f s h => hno f s h, ?_, fun i s imp _ => rfl, fun s imp => rfl⟩
  exact ⟨hkt F, haa F, fun s h => hno F s h, fun s h => hno F s h, fun s h => hno F s h, fun s h => hno F s h,
    fun s h => hno F s h, fun s h => hno F s h⟩

theorem MInv.run (hB : CssFacts B F) (o : Opts) (ho : o.insetUnsupported = false) (hflow : NoFlow F ds) :
    ∀ k, k ≤ ds.length → MInv B F ds k ((ds.take k).foldl (CssBox.step o) (initSt o)) := by
  intro k
  induction k with
  | zero => intro _; exact MInv.init o ho
  | succ k ih =>
    intro hk
    have hlt : k < ds.length := hk
    have hd : ds[k]? = some ds[k] := List.getElem?_eq_getElem hlt
    rw [take_succ_of_get hd, List.foldl_append]
    exact (ih (by omega)).step hB o ho hflow _ hd

theorem tokensEqual_core : ∀ (l l' : List Token), tokensEqual l l' = true → l.map Token.core = l'.map Token.core
  | [], [], _ => rfl
  | a :: as, c :: cs, h => by
    simp only [tokensEqual, Bool.and_eq_true] at h
    have h1 : a.core = c.core := by
      have := h.1
      simp only [Token.equal, Bool.and_eq_true, beq_iff_eq] at this
      simp [Token.core, this.1.1, this.1.2]
    simp [h1, tokensEqual_core as cs h.2]
  | [], _ :: _, h => by simp [tokensEqual] at h
  | _ :: _, [], h => by simp [tokensEqual] at h

theorem view_of_equal (a c : CssBox.Decl) (h : a.equal c = true) : view F a = view F c := by
  simp only [Decl.equal, Bool.and_eq_true, beq_iff_eq] at h
  unfold view Decl.key
  rw [h.1.1, tokensEqual_core _ _ h.1.2, h.2]

/-- duplicate removal keeps the last contribution -/
theorem lastSome_removeDead (c : CssBox.Decl → Option (Val Tok V)) (hc : ∀ a e, a.equal e = true → c a = c e)
    (l : List CssBox.Decl) : lastSome c (removeDead l) = lastSome c l := by
  induction l with
  | nil => rfl
  | cons d rest ih =>
    have hstep : removeDead (d :: rest) =
        if (removeDead rest).any (fun e => d.equal e) = true then removeDead rest else d :: removeDead rest := rfl
    rw [hstep, lastSome_cons]
    split
    · rename_i hany
      rw [ih]
      obtain ⟨e, he, hde⟩ := List.any_eq_true.mp hany
      cases hcd : c d with
      | none => simp
      | some v =>
        -- `e` is kept and contributes the same, so there is a later contribution
        have hce : c e = some v := by rw [← hc d e hde]; exact hcd
        have : lastSome c (removeDead rest) ≠ none := by
          intro hn
          have := (lastSome_eq_none_iff c _).mp hn e he
          rw [hce] at this; cases this
        rw [ih] at this
        cases hl : lastSome c rest with
        | none => exact absurd hl this
        | some w => simp
    · rw [lastSome_cons, ih]

theorem processDeclarations_lastSome (hB : CssFacts B F) (o : Opts) (ho : o.insetUnsupported = false)
    (hflow : NoFlow F ds) (out : List CssBox.Decl) (hrun : minifyDecls o ds = some out) (s : Side) (imp : Bool) :
    lastSome (cD B F s imp) out = lastSome (cD B F s imp) ds := by
  have hm := MInv.run (B := B) hB o ho hflow ds.length (Nat.le_refl _)
  rw [List.take_length] at hm
  unfold minifyDecls processDeclarations at hrun
  simp only [hm.nopanic, Bool.false_eq_true, if_false, Option.map_some, Option.some.injEq] at hrun
  rw [← hrun, lastSome_removeDead _ (fun a e h => by unfold cD; rw [view_of_equal a e h]), lastSome_filterMap]
  have := hm.sem s imp
  rw [List.take_length] at this
  rw [this]
  unfold LS
  congr 1
  funext x
  cases x <;> rfl

end
end EsbuildModel.CssBox
