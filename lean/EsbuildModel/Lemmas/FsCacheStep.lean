import EsbuildModel.Lemmas.FsCacheInv
/-
`FSCache.ReadFile` keeps the cache invariant and answers with current contents.
-/
namespace EsbuildModel.FsCache
open EsbuildModel.StatCache

@[simp] theorem statPhase_clock (cfg : Cfg) (s : State) (p : Nat) : (statPhase cfg s p).clock = s.clock := rfl
@[simp] theorem statPhase_world (cfg : Cfg) (s : State) (p : Nat) : (statPhase cfg s p).world = s.world := rfl
@[simp] theorem statPhase_seen (cfg : Cfg) (s : State) (p : Nat) : (statPhase cfg s p).seen = s.seen := rfl
@[simp] theorem statPhase_cache (cfg : Cfg) (s : State) (p : Nat) : (statPhase cfg s p).cache = s.cache := rfl
@[simp] theorem statPhase_log (cfg : Cfg) (s : State) (p : Nat) : (statPhase cfg s p).log = s.log := rfl
@[simp] theorem statPhase_lastRead (cfg : Cfg) (s : State) (p : Nat) : (statPhase cfg s p).lastRead = s.lastRead := rfl
@[simp] theorem statPhase_flip (cfg : Cfg) (s : State) (p : Nat) : (statPhase cfg s p).flip = s.flip := rfl

/-- what a hit means -/
theorem hitOf_some {entry : Option Entry} {kr : KeyRes} {c : Contents} (h : hitOf entry kr = some c) :
    ∃ e K, entry = some e ∧ e.isModKeyUsable = true ∧ kr = .ok K ∧ e.modKey = K ∧ c = e.contents := by
  cases entry with
  | none => simp [hitOf] at h
  | some e =>
    simp only [hitOf] at h
    split at h
    · rename_i hc
      cases kr with
      | ok K => exact ⟨e, K, rfl, hc.1, rfl, hc.2.2, by injection h with h; exact h.symm⟩
      | unusable => simp [KeyRes.isOk] at hc
      | err => simp [KeyRes.isOk] at hc
    · cases h

/-- the three things the first theorem needs, as one invariant -/
structure Inv (cfg : Cfg) (s : State) : Prop where
  seen : SeenInv s
  cache : CacheInv cfg s
  log : ∀ l ∈ s.log, l.answer = resOf l.atRead ∧ (l.hit = true → l.atRead = l.atStat)

theorem Inv_init (cfg : Cfg) (clock : Int) (w : World) : Inv cfg (State.init clock w) := by
  refine ⟨?_, ?_, ?_⟩
  · intro p f hf
    simp only [State.init] at hf ⊢
    rw [hf]; simp [inoOf]
  · intro p e he; simp [State.init] at he
  · intro l hl; simp [State.init] at hl

theorem Inv_stepAct {cfg : Cfg} {s : State} {a : Act} (hok : ActOK cfg s a) (h : Inv cfg s) : Inv cfg (stepAct cfg s a) := by
  refine ⟨SeenInv_stepAct a h.seen, ?_, ?_⟩
  · intro p e he hu
    rw [stepAct_cache] at he
    exact Trusts_stepAct hok (h.cache p e he hu)
  · rw [stepAct_log]; exact h.log

theorem Inv_stepRead {cfg : Cfg} {s : State} {p : Nat} {mids : List Act}
    (hok : ActsOK cfg (statPhase cfg s p) mids) (h : Inv cfg s) : Inv cfg (stepRead cfg s p mids) := by
  unfold stepRead
  simp only [statPhase_cache]
  split
  · -- hit
    rename_i c hhit
    obtain ⟨e, K, he, hu, hkr, hK, hc⟩ := hitOf_some hhit
    have hcur : resOf (s.world p) = .ok c := by
      have := h.cache p e he hu
      rw [hK] at this
      rw [hc]
      exact trusted_key_current this hkr
    refine ⟨h.seen, h.cache, ?_⟩
    intro l hl
    simp only [statPhase_log, List.mem_append, List.mem_singleton] at hl
    rcases hl with hl | hl
    · exact h.log l hl
    · subst hl
      exact ⟨hcur.symm, fun _ => rfl⟩
  · -- miss
    rename_i hmiss
    have hseen1 : SeenInv (statPhase cfg s p) := h.seen
    have hcache1 : CacheInv cfg (statPhase cfg s p) := h.cache
    have hseen2 := SeenInv_runActs (cfg := cfg) mids hseen1
    have hcache2 := CacheInv_runActs hok hcache1
    have hlog : ∀ l ∈ (runActs cfg (statPhase cfg s p) mids).log ++
        [LogEntry.mk p false (resOf ((runActs cfg (statPhase cfg s p) mids).world p)) (s.world p)
          ((runActs cfg (statPhase cfg s p) mids).world p)],
        l.answer = resOf l.atRead ∧ (l.hit = true → l.atRead = l.atStat) := by
      intro l hl
      simp only [runActs_log, statPhase_log, List.mem_append, List.mem_singleton] at hl
      rcases hl with hl | hl
      · exact h.log l hl
      · subst hl
        exact ⟨rfl, fun hh => by cases hh⟩
    split
    · -- read error: nothing is stored
      exact ⟨hseen2, hcache2, hlog⟩
    · -- read ok: the new entry
      rename_i c hrd
      refine ⟨hseen2, ?_, hlog⟩
      intro q e he hu
      simp only at he ⊢
      by_cases hq : q = p
      · subst hq
        rw [upd_same] at he
        injection he with he
        subst he
        simp only [entryOf] at hu ⊢
        cases hkr : modKey cfg.plat cfg.gapSec s.clock (s.world q) with
        | ok K =>
          have hw : ∃ f, (runActs cfg (statPhase cfg s q) mids).world q = some f ∧ c = f.contents := by
            cases hwq : (runActs cfg (statPhase cfg s q) mids).world q with
            | none => rw [hwq] at hrd; simp [resOf] at hrd
            | some f => rw [hwq] at hrd; simp only [resOf] at hrd; injection hrd with hrd; exact ⟨f, rfl, hrd.symm⟩
          obtain ⟨f, hf, hcf⟩ := hw
          subst hcf
          simp only [KeyRes.key]
          exact new_key_trusted hseen1 hok hkr hf
        | unusable => rw [hkr] at hu; simp [KeyRes.isOk] at hu
        | err => rw [hkr] at hu; simp [KeyRes.isOk] at hu
      · rw [upd_other _ _ hq] at he
        exact hcache2 q e he hu

theorem Inv_stepRawRead {cfg : Cfg} {s : State} {p : Nat} (h : Inv cfg s) : Inv cfg (stepRawRead s p) := by
  unfold stepRawRead
  have hlog : ∀ l ∈ s.log ++ [LogEntry.mk p false (resOf (s.world p)) (s.world p) (s.world p)],
      l.answer = resOf l.atRead ∧ (l.hit = true → l.atRead = l.atStat) := by
    intro l hl
    simp only [List.mem_append, List.mem_singleton] at hl
    rcases hl with hl | hl
    · exact h.log l hl
    · subst hl; exact ⟨rfl, fun _ => rfl⟩
  dsimp only
  split <;> exact ⟨h.seen, h.cache, hlog⟩

theorem Inv_step {cfg : Cfg} {s : State} {op : Op} (hok : OpOK cfg s op) (h : Inv cfg s) : Inv cfg (step cfg s op) := by
  cases op with
  | act a => exact Inv_stepAct hok h
  | read p mids => exact Inv_stepRead hok h
  | rawRead p => exact Inv_stepRawRead h
  | newBuild => exact ⟨h.seen, h.cache, h.log⟩

theorem Inv_run {cfg : Cfg} {s : State} {ops : List Op} (hok : Trusted cfg s ops) (h : Inv cfg s) : Inv cfg (run cfg s ops) := by
  induction ops generalizing s with
  | nil => exact h
  | cons op ops ih => exact ih hok.2 (Inv_step hok.1 h)

end EsbuildModel.FsCache
