import EsbuildModel.Lemmas.Lower3Sim
/-!
Statements: an expression statement (a destructuring assignment that is the whole statement is lowered with
objRestReturnValueIsUnused) and declaration lists (lowerObjectRestInDecls).
-/
namespace EsbuildModel.Lower3

theorem runAL_val (w : World) (g : Bool) : ∀ (al : List (Pat × E)) (s : TState) (v : Val),
    (runAL w g al s).1 = .ok v → v = .undef := by
  intro al
  induction al with
  | nil => intro s v h; simp only [runAL, R.ok.injEq] at h; exact h.symm
  | cons pe r ih =>
    intro s v h
    obtain ⟨p, e⟩ := pe
    simp only [runAL] at h
    rcases h1 : evalE w g e s with ⟨r1, s1⟩
    rw [h1] at h
    cases r1 with
    | err x => simp at h
    | ok v1 =>
      simp only [bindR_ok] at h
      rcases h2 : bindPat w g p v1 s1 with ⟨r2, s2⟩
      rw [h2] at h
      cases r2 with
      | err x => simp at h
      | ok v2 => exact ih s2 v h

/-- lowered declarations (children lowered) against source declarations -/
inductive DeclsOK (w : World) (B : Nat) : List (Pat × E) → List (Pat × E) → Prop where
  | nil : DeclsOK w B [] []
  | cons {p' p : Pat} {e' e : E} {r' r : List (Pat × E)} :
      PatOK w B p' p → SimB w e' e → e'.wr (ltB B) = true → DeclsOK w B r' r → DeclsOK w B ((p', e') :: r') ((p, e) :: r)

theorem PatOK.mono {w : World} {B B' : Nat} {p' p : Pat} (h : PatOK w B p' p) (hb : B ≤ B') : PatOK w B' p' p :=
  ⟨Pat.wr_mono (ltB_mono B B' hb) _ h.wr, h.native,
    fun n init' I s s' hn hi hh hI => h.visit n init' I s s' (Nat.le_trans hb hn) hi hh hI⟩

theorem DeclsOK.mono {w : World} {B B' : Nat} {a b : List (Pat × E)} (h : DeclsOK w B a b) (hb : B ≤ B') : DeclsOK w B' a b := by
  induction h with
  | nil => exact DeclsOK.nil
  | cons h1 h2 h3 _ ih => exact DeclsOK.cons (h1.mono hb) h2 (wrE_up h3 hb) ih

theorem lowerDecls_ok (w : World) (hq : Quiet w) : ∀ (ds : List (Pat × E)), (ds.all fun pe => pe.1.src && pe.2.src) = true →
    ∀ n, n ≤ (lowerDecls ds n).2 ∧ ∀ B, (lowerDecls ds n).2 ≤ B → DeclsOK w B (lowerDecls ds n).1 ds := by
  intro ds
  induction ds with
  | nil => intro _ n; exact ⟨Nat.le_refl _, fun _ _ => DeclsOK.nil⟩
  | cons pe r ih =>
    intro hs n
    obtain ⟨p, e⟩ := pe
    simp only [List.all_cons, Bool.and_eq_true] at hs
    obtain ⟨p1, p2, _⟩ := thmPat w hq p hs.1.1 n
    obtain ⟨e1, e2, e3, _, _⟩ := thmE w hq e hs.1.2 (lowerPat p n).2
    obtain ⟨r1, r2⟩ := ih hs.2 (lowerE e (lowerPat p n).2).2
    refine ⟨by simp only [lowerDecls]; omega, fun B hB => ?_⟩
    simp only [lowerDecls] at hB ⊢
    exact DeclsOK.cons (p1 B (by omega)) e1 (wrE_up e2 (by omega)) (r2 B hB)

/-- lowerObjectRestInDecls: the declarations with a rest element are replaced by what `visit` emits -/
theorem visitDecls_ok (w : World) (B : Nat) {ds' ds : List (Pat × E)} (h : DeclsOK w B ds' ds) :
    ∀ (n : Nat) (s s' : TState), B ≤ n → s.h = s'.h →
      RelQ (fun (_ : Val) _ => True) (runAL w true (visitDecls ds' n).1 s) (runAL w true ds s') := by
  induction h with
  | nil => intro n s s' _ hh; exact Or.inr ⟨rfl, hh, fun _ _ => trivial⟩
  | @cons p' p e' e r' r hp he hw _ ih =>
    intro n s s' hn hh
    simp only [visitDecls]
    split
    · have hle := (visitPat_wr B p' e' [] n hp.wr (E.wr_mono (ltB_outP B n) _ hw)).1
      have hvis := hp.visit n e' (fun sb => evalE w true e sb) s s' hn (wrE_up hw hn) hh (he s s' hh)
      rw [runAL_append]
      have : runAL w true ((p, e) :: r) s' =
          bindR (bindR (evalE w true e s') fun v s1' => bindPat w true p v s1') fun _ s2 => runAL w true r s2 := by
        simp only [runAL, bindR_assoc]
      rw [this]
      exact RelQ.bind hvis (fun _ _ s2 s2' _ _ hh2 _ => ih _ s2 s2' (Nat.le_trans hn hle) hh2)
    · simp only [runAL]
      refine RelR.bindQ (he s s' hh) (fun v s1 s1' _ _ hh1 => ?_)
      refine RelR.bindQ (hp.native v s1 s1' hh1) (fun _ s2 s2' _ _ hh2 => ?_)
      exact ih n s2 s2' hn hh2

/-- LOWERING A STATEMENT PRESERVES BEHAVIOUR: same completion (normal, or the same exception), same trace, same
variables — unless the source run leaves the model -/
theorem lowerStmt_ok (w : World) (hq : Quiet w) (st : Stmt) (hs : st.src = true) (s s' : TState) (hh : s.h = s'.h) :
    RelR (execStmt w true (lowerS st) s) (execStmt w true st s') := by
  cases st with
  | decl ds =>
    simp only [Stmt.src] at hs
    obtain ⟨_, h2⟩ := lowerDecls_ok w hq ds hs 0
    have h := visitDecls_ok w _ (h2 _ (Nat.le_refl _)) (lowerDecls ds 0).2 s s' (Nat.le_refl _) hh
    simp only [lowerS, lowerStmt, execStmt]
    exact h.toR (runAL_val w true _ s) (runAL_val w true _ s')
  | expr e =>
    simp only [Stmt.src] at hs
    have hgen : RelR (execStmt w true (.expr (lowerE e 0).1) s) (execStmt w true (.expr e) s') := by
      simp only [execStmt]
      exact RelR.bind ((thmE w hq e hs 0).1 s s' hh) (fun _ s1 s1' hh1 => Or.inr ⟨rfl, hh1⟩)
    cases e with
    | asg p rhs =>
      simp only [E.src, Bool.and_eq_true] at hs
      obtain ⟨p1, p2, _⟩ := thmPat w hq p hs.1 0
      obtain ⟨r1, r2, r3, _, _⟩ := thmE w hq rhs hs.2 (lowerPat p 0).2
      have hpat := p1 (lowerE rhs (lowerPat p 0).2).2 r3
      simp only [lowerS, lowerStmt]
      split
      · -- the value of the assignment is not used: no temporary for it
        have hvis := hpat.visit (lowerE rhs (lowerPat p 0).2).2 (lowerE rhs (lowerPat p 0).2).1 (fun sb => evalE w true rhs sb)
          s s' (Nat.le_refl _) r2 hh (r1 s s' hh)
        simp only [execStmt, evalE]
        rw [seqAll_run w true _ _ (visit_nonempty _ _ _ _)]
        have := hvis.toR_pure .undef
        simpa only [bindR_assoc, bindR_ok] using this
      · rename_i hrest
        simp only [execStmt, evalE]
        refine RelR.bind (RelR.bind (r1 s s' hh) (fun v s1 s1' hh1 => ?_)) (fun _ s1 s1' hh1 => Or.inr ⟨rfl, hh1⟩)
        exact RelR.bind (hpat.native v s1 s1' hh1) (fun _ s2 s2' hh2 => Or.inr ⟨rfl, hh2⟩)
    | id x => simpa only [lowerS, lowerStmt] using hgen
    | lit v => simpa only [lowerS, lowerStmt] using hgen
    | call f a => simpa only [lowerS, lowerStmt] using hgen
    | obj ps => simpa only [lowerS, lowerStmt] using hgen
    | seq a b => simpa only [lowerS, lowerStmt] using hgen
    | tmp k => simp [E.src] at hs
    | spreadValues a b => simp [E.src] at hs
    | spreadProps a b => simp [E.src] at hs
    | objRest a b => simp [E.src] at hs

end EsbuildModel.Lower3
