import EsbuildModel.Lemmas.SmJoinAppend2
/-!
# Helper lemmas for `Props/C07Join.lean` — part 6: the linker's loop
-/
namespace EsbuildModel.SmJoin
open Vlq
open Spec.SourceMapV3 (Ev Orig Seg segsOf LineCol place)

/-! ## small facts about event lists -/

theorem evs_decomp (evs : List Ev) :
    (∃ n, evs = List.replicate n Ev.nl) ∨ (∃ s c o rest, evs = List.replicate s Ev.nl ++ Ev.seg c o :: rest) := by
  induction evs with
  | nil => exact .inl ⟨0, rfl⟩
  | cons e es ih =>
    cases e with
    | seg c o => exact .inr ⟨0, c, o, es, rfl⟩
    | nl =>
      rcases ih with ⟨n, rfl⟩ | ⟨s, c, o, rest, rfl⟩
      · exact .inl ⟨n + 1, rfl⟩
      · exact .inr ⟨s + 1, c, o, rest, rfl⟩

/-- every segment has an original position -/
def AllSrc : List Ev → Prop
  | [] => True
  | .nl :: es => AllSrc es
  | .seg _ o :: es => o.isSome = true ∧ AllSrc es

theorem allSrc_append (a b : List Ev) : AllSrc (a ++ b) ↔ AllSrc a ∧ AllSrc b := by
  induction a with
  | nil => simp [AllSrc]
  | cons e es ih => cases e <;> simp [AllSrc, ih, and_assoc]

theorem allSrc_coverEv (cover : Bool) (s : LSt) (b : Bool) : AllSrc (coverEv cover s b) := by
  unfold coverEv
  cases s.prevOrig with
  | none => simp [AllSrc]
  | some t => obtain ⟨a, l, c⟩ := t; simp only; split <;> simp [AllSrc]

theorem allSrc_lowerFrom (cover : Bool) (s : LSt) (evs : List BEv) : AllSrc (lowerFrom cover s evs) := by
  induction evs generalizing s with
  | nil => simp [lowerFrom, AllSrc]
  | cons e es ih =>
    simp only [lowerFrom, allSrc_append]
    refine ⟨?_, ih _⟩
    cases e with
    | newline => simp [lowerStep, allSrc_append, allSrc_coverEv, AllSrc]
    | cols k => simp [lowerStep, AllSrc]
    | map r => cases r <;> simp [lowerStep, allSrc_append, allSrc_coverEv, AllSrc]

theorem allSrc_lower (cover : Bool) (evs : List BEv) : AllSrc (lower cover evs) := allSrc_lowerFrom cover {} evs

theorem encEvs_genLine (evs : List Ev) (p : State) (l : Nat) :
    (encEvs p l evs).st.genLine = p.genLine + nlCount evs := by
  induction evs generalizing p l with
  | nil => simp [encEvs, nlCount]
  | cons e es ih =>
    cases e with
    | nl => simp only [encEvs, ih, encOne, nlCount]; omega
    | seg c o =>
      simp only [encEvs, ih, nlCount]
      cases o with
      | none => simp [encOne, curOf, nextOf]
      | some o => obtain ⟨a, ln, cl, n⟩ := o; cases n <;> simp [encOne, curOf, nextOf]

theorem hasNl_iff (evs : List Ev) : hasNl evs = decide (nlCount evs ≠ 0) := by
  induction evs with
  | nil => simp [hasNl, nlCount]
  | cons e es ih =>
    cases e with
    | nl => simp [hasNl, nlCount]
    | seg c o => simp only [hasNl, nlCount]; exact ih

theorem nlCount_replicate (n : Nat) : nlCount (List.replicate n Ev.nl) = n := by
  induction n with
  | zero => rfl
  | succ n ih => simp [List.replicate_succ, nlCount, ih]

theorem nlCount_shiftEvs (δ : Shift) (evs : List Ev) : nlCount (shiftEvs δ evs) = nlCount evs := by
  induction evs generalizing δ with
  | nil => rfl
  | cons e es ih => cases e <;> simp [shiftEvs, nlCount, ih]

theorem shiftEvs_zero (evs : List Ev) : shiftEvs {} evs = evs := by
  induction evs with
  | nil => rfl
  | cons e es ih =>
    cases e with
    | nl => simp only [shiftEvs]; rw [show ({} : Shift).noCol = {} from rfl, ih]
    | seg c o =>
      simp only [shiftEvs, ih]
      cases o with
      | none => simp
      | some o => cases o with | mk a l cc n => cases n <;> simp [shiftOrig]

/-- a pure column shift after another shift -/
theorem shiftEvs_col (e : Int) (δ : Shift) (evs : List Ev) :
    shiftEvs ⟨e, 0, 0, 0, 0⟩ (shiftEvs δ evs) = shiftEvs { δ with c := δ.c + e } evs := by
  induction evs generalizing e δ with
  | nil => rfl
  | cons ev es ih =>
    cases ev with
    | nl =>
      simp only [shiftEvs]
      have h1 : (⟨e, 0, 0, 0, 0⟩ : Shift).noCol = ⟨0, 0, 0, 0, 0⟩ := rfl
      have h2 : ({ δ with c := δ.c + e } : Shift).noCol = { δ.noCol with c := δ.noCol.c + 0 } := by
        simp [Shift.noCol]
      rw [h1, h2, ih]
    | seg c o =>
      simp only [shiftEvs, ih]
      cases o with
      | none => simp; omega
      | some o => cases o with | mk a l cc n => cases n <;> simp [shiftOrig] <;> omega

theorem encEvs_nls_bytes_all (n : Nat) : (encEvs {} 0 (List.replicate n Ev.nl)).bytes.all (· == 59) = true := by
  rw [encEvs_nls]; simp

/-! ## the null entry `"A"` -/

theorem enc_zero : enc 0 = [65] := by
  simp [enc, encodeBytes, encode, toVlq, fromDigit, Gen.base64]

theorem asmc_null (j : Joiner) (prevEnd start : State) (hl : 0 ≤ start.genLine) (hn : start.hasName = false) :
    appendSourceMapChunk j prevEnd start ⟨[65], none⟩ =
      some ⟨j.data ++ (encEvs prevEnd j.lastByte
              (List.replicate start.genLine.toNat Ev.nl ++ [Ev.seg start.genCol none])).bytes,
            (encEvs prevEnd j.lastByte
              (List.replicate start.genLine.toNat Ev.nl ++ [Ev.seg start.genCol none])).last⟩ ∧
    (encEvs prevEnd j.lastByte (List.replicate start.genLine.toNat Ev.nl ++ [Ev.seg start.genCol none])).st =
      { prevEnd with genLine := prevEnd.genLine + start.genLine.toNat, genCol := start.genCol, hasName := false } := by
  have hcs : countSemis [65] = some 0 := by simp [countSemis]
  have hsf : stripFirst [65] 0 = some (0, 0, 0, 0, 1, true) := by
    have := stripFirst_nosrc [] [] 0 (.inl rfl)
    simpa [enc_zero] using this
  have hneg : ¬ start.genLine < 0 := by omega
  rw [encEvs_last, encEvs_append, encEvs_nls]
  constructor
  · unfold appendSourceMapChunk
    simp only [hneg, ↓reduceIte, hcs, hsf, Nat.lt_irrefl]
    by_cases hK : start.genLine = 0
    · simp [hK, appendRest, addBytes_eq, amb_bytes, fieldsOf, hn, encEvs, encOne, curOf, lastAfter_append]
    · have hK0 : start.genLine.toNat ≠ 0 := by omega
      simp [hK, hK0, appendRest, addBytes_eq, amb_bytes, fieldsOf, hn, encEvs, encOne, curOf, lastAfter_append,
        lastAfter_replicate, List.append_assoc]
  · simp [encEvs, encOne, curOf, nextOf]

/-! ## pieces of a joined source map -/

/-- one `compileResultForSourceMap`, by what produced it: a chunk of a `ChunkBuilder`, placed `offset` after the
end of the text of the piece before (relative, as `LineColumnOffset.Add` adds), or a "null entry" (the linker
builds those with a zero offset: `compileResultForSourceMap{sourceIndex: …, isNullEntry: true}`) -/
inductive Piece where
  | chunk (cover : Bool) (bevs : List BEv) (offset : Offset) (sourcesIndex : Int) (quotedNames : Nat)
  | null (sourcesIndex : Int)
deriving Repr

def Piece.toLinkIn : Piece → LinkIn
  | .chunk cover bevs off si q => ⟨false, off, si, buildChunk cover bevs, q⟩
  | .null si => ⟨true, {}, si, ⟨⟨[], none⟩, {}, 0, false⟩, 0⟩

/-- what the piece maps, relative to its own start -/
def Piece.evs : Piece → List Ev
  | .chunk cover bevs _ _ _ => lower cover bevs
  | .null _ => [Ev.seg 0 none]

/-- extent of the piece's text: line breaks in it, length of its last line -/
def Piece.extent : Piece → LineCol
  | .chunk cover bevs _ _ _ => ⟨nlCount (lower cover bevs), (lowerEnd cover {} bevs).gc⟩
  | .null _ => ⟨0, 0⟩

def Piece.offsetLC : Piece → LineCol
  | .chunk _ _ off _ _ => ⟨off.lines, off.columns⟩
  | .null _ => ⟨0, 0⟩

def Piece.src : Piece → Int
  | .chunk _ _ _ si _ => si
  | .null si => si

def Piece.names : Piece → Nat
  | .chunk _ _ _ _ q => q
  | .null _ => 0

/-- what the linker relies on: it never passes on a chunk without mappings (`ShouldIgnore`), and offsets count
lines -/
def Piece.ok : Piece → Prop
  | .chunk cover bevs off _ _ => (buildChunk cover bevs).shouldIgnore = false ∧ 0 ≤ off.lines
  | .null _ => True

/-- line breaks and segments of one piece in the joined file, when the text before it ends at `E` and `names`
names precede its own -/
def pieceEvs (E : LineCol) (names : Int) (p : Piece) : List Ev :=
  List.replicate p.offsetLC.lines.toNat Ev.nl ++
    shiftEvs ⟨(E.add p.offsetLC).columns, p.src, 0, 0, names⟩ p.evs

def pieceEnd (E : LineCol) (p : Piece) : LineCol := (E.add p.offsetLC).add p.extent

/-- line breaks and segments of the whole joined file -/
def joinedEvs (E : LineCol) (names : Int) : List Piece → List Ev
  | [] => []
  | p :: ps => pieceEvs E names p ++ joinedEvs (pieceEnd E p) (names + p.names) ps

/-! ## the invariant of the linker's loop -/

structure LinkInv (P : List Ev) (E : LineCol) (names : Int) (s : LinkState) : Prop where
  data : s.j.data = (encEvs {} 34 P).bytes
  last : s.j.lastByte = (encEvs {} 34 P).last
  a : s.prevEndState.srcIdx = (encEvs {} 34 P).st.srcIdx
  dl : s.prevEndState.origLine = (encEvs {} 34 P).st.origLine
  dc : s.prevEndState.origCol = (encEvs {} 34 P).st.origCol
  b : s.prevEndState.origName = (encEvs {} 34 P).st.origName
  /-- the linker's column bookkeeping may be off, but by the same amount in both places -/
  col : s.prevEndState.genCol - (encEvs {} 34 P).st.genCol = s.prevColumnOffset - E.columns
  lines : E.lines = nlCount P
  names : s.totalQuotedNameLen = names

/-- the start state the loop passes to `AppendSourceMapChunk` -/
def startOf (s : LinkState) (r : LinkIn) : State :=
  { srcIdx := r.sourcesIndex, genLine := r.offset.lines,
    genCol := r.offset.columns + (if r.offset.lines = 0 then s.prevColumnOffset else 0),
    origName := s.totalQuotedNameLen }

theorem linkStep_chunk (s : LinkState) (r : LinkIn) (h1 : r.chunk.shouldIgnore = false) (h2 : r.isNullEntry = false) :
    linkStep s r =
      match appendSourceMapChunk s.j s.prevEndState (startOf s r) r.chunk.buffer with
      | none => none
      | some j =>
        some { j := j
               prevEndState :=
                 { r.chunk.endState with
                   srcIdx := r.chunk.endState.srcIdx + r.sourcesIndex
                   origName := if r.chunk.buffer.firstNameOffset.isSome
                     then r.chunk.endState.origName + s.totalQuotedNameLen else s.prevEndState.origName
                   genCol := r.chunk.endState.genCol +
                     (if r.chunk.endState.genLine = 0 then (startOf s r).genCol else 0) }
               prevColumnOffset := r.chunk.finalGeneratedColumn +
                 (if r.chunk.endState.genLine = 0 then (startOf s r).genCol else 0)
               totalQuotedNameLen := s.totalQuotedNameLen + r.quotedNames } := by
  have hst : (if r.offset.lines = 0 then
      { ({ srcIdx := r.sourcesIndex, genLine := r.offset.lines, genCol := r.offset.columns,
           origName := s.totalQuotedNameLen } : State) with
        genCol := r.offset.columns + s.prevColumnOffset }
      else { srcIdx := r.sourcesIndex, genLine := r.offset.lines, genCol := r.offset.columns,
             origName := s.totalQuotedNameLen }) = startOf s r := by
    unfold startOf; split <;> simp
  unfold linkStep
  simp only [h1, h2, Bool.false_eq_true, ↓reduceIte, hst]
  cases appendSourceMapChunk s.j s.prevEndState (startOf s r) r.chunk.buffer with
  | none => rfl
  | some j =>
    simp only
    by_cases hf : r.chunk.buffer.firstNameOffset.isSome = true <;>
      by_cases hg : r.chunk.endState.genLine = 0 <;> simp [hf, hg]

theorem linkStep_null (s : LinkState) (r : LinkIn) (h1 : r.chunk.shouldIgnore = false) (h2 : r.isNullEntry = true) :
    linkStep s r =
      match appendSourceMapChunk s.j s.prevEndState (startOf s r) ⟨[65], r.chunk.buffer.firstNameOffset⟩ with
      | none => none
      | some j =>
        some { j := j
               prevEndState :=
                 { s.prevEndState with
                   genLine := (startOf s r).genLine
                   genCol := (startOf s r).genCol +
                     (if (startOf s r).genLine = 0 then (startOf s r).genCol else 0) }
               prevColumnOffset := s.prevColumnOffset +
                 (if (startOf s r).genLine = 0 then (startOf s r).genCol else 0)
               totalQuotedNameLen := s.totalQuotedNameLen } := by
  have hst : (if r.offset.lines = 0 then
      { ({ srcIdx := r.sourcesIndex, genLine := r.offset.lines, genCol := r.offset.columns,
           origName := s.totalQuotedNameLen } : State) with
        genCol := r.offset.columns + s.prevColumnOffset }
      else { srcIdx := r.sourcesIndex, genLine := r.offset.lines, genCol := r.offset.columns,
             origName := s.totalQuotedNameLen }) = startOf s r := by
    unfold startOf; split <;> simp
  unfold linkStep
  simp only [h1, h2, Bool.false_eq_true, ↓reduceIte, hst]
  cases appendSourceMapChunk s.j s.prevEndState (startOf s r) ⟨[65], r.chunk.buffer.firstNameOffset⟩ with
  | none => rfl
  | some j =>
    simp only
    by_cases hg : (startOf s r).genLine = 0 <;> simp [hg]

end EsbuildModel.SmJoin
