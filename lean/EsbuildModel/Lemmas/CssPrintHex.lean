import EsbuildModel.Impl.CssPrint
import EsbuildModel.Lemmas.CssLexEscape
/-!
A hexadecimal escape written by `printWithEscape` is read back by `consumeEscape` as the code point it was written for.
-/
namespace EsbuildModel.CssLex

/-- an ASCII byte as a decoded rune -/
def chOf (b : Nat) : Ch := ⟨b, [b]⟩

theorem decodeAll_asciis (l : List Nat) (h : ∀ b ∈ l, b < 128) (rest : List Nat) :
    decodeAll (l ++ rest) = l.map chOf ++ decodeAll rest := by
  induction l with
  | nil => simp
  | cons b t ih =>
    rw [List.cons_append, decodeAll_ascii b _ (h b (by simp)), ih (fun x hx => h x (List.mem_cons_of_mem _ hx))]
    simp [chOf]

/-- the digit values of `fmt.Sprintf("%x", c)` -/
def digitVals (c : Nat) : List Nat :=
  if c < 16 then [c] else digitVals (c / 16) ++ [c % 16]
termination_by c
decreasing_by omega

theorem hexDigitsOf_eq (c : Nat) : hexDigitsOf c = (digitVals c).map hexChar := by
  fun_induction digitVals c with
  | case1 c h => rw [hexDigitsOf]; simp [h]
  | case2 c h ih => rw [hexDigitsOf]; simp [h, ih]

theorem digitVals_lt (c : Nat) : ∀ d ∈ digitVals c, d < 16 := by
  fun_induction digitVals c with
  | case1 c h => intro d hd; simp at hd; omega
  | case2 c h ih =>
    intro d hd
    simp only [List.mem_append, List.mem_singleton] at hd
    rcases hd with hd | hd
    · exact ih d hd
    · omega

theorem digitVals_ne_nil (c : Nat) : digitVals c ≠ [] := by
  rw [digitVals]; split <;> simp

theorem digitVals_foldl (c acc : Nat) :
    (digitVals c).foldl (fun a d => a * 16 + d) acc = acc * 16 ^ (digitVals c).length + c := by
  fun_induction digitVals c generalizing acc with
  | case1 c h => simp
  | case2 c h ih =>
    rw [List.foldl_append, ih]
    simp only [List.foldl_cons, List.foldl_nil, List.length_append, List.length_singleton, Nat.pow_succ]
    have : c = c / 16 * 16 + c % 16 := by omega
    generalize 16 ^ (digitVals (c / 16)).length = p
    have e : (acc * p + c / 16) * 16 = acc * (p * 16) + c / 16 * 16 := by
      rw [Nat.add_mul, Nat.mul_assoc]
    omega

theorem digitVals_length (c k : Nat) (hk : 1 ≤ k) (h : c < 16 ^ k) : (digitVals c).length ≤ k := by
  fun_induction digitVals c generalizing k with
  | case1 c h1 => simp; exact hk
  | case2 c h1 ih =>
    obtain ⟨k', rfl⟩ : ∃ k', k = k' + 1 := ⟨k - 1, by omega⟩
    have hk' : 1 ≤ k' := by
      cases k' with
      | zero => simp at h; omega
      | succ n => omega
    have : c / 16 < 16 ^ k' := by rw [Nat.pow_succ] at h; omega
    have := ih k' hk' this
    simp only [List.length_append, List.length_singleton]; omega

theorem isHex_hexChar (d : Nat) (h : d < 16) : isHex (hexChar d) = some d := by
  unfold hexChar isHex
  by_cases h1 : d < 10
  · simp only [h1, if_true]
    have : 48 ≤ 48 + d ∧ 48 + d ≤ 57 := by omega
    simp only [this, and_self, if_true]; congr 1; omega
  · simp only [h1, if_false]
    have h2 : ¬ (48 ≤ 87 + d ∧ 87 + d ≤ 57) := by omega
    have h3 : 97 ≤ 87 + d ∧ 87 + d ≤ 102 := by omega
    simp only [h2, if_false, h3, and_self, if_true]; congr 1; omega

theorem hexChar_lt (d : Nat) (h : d < 16) : hexChar d < 128 := by unfold hexChar; split <;> omega

theorem hexLoop_nohex (k v : Nat) (m : List Ch) (h : k = 0 ∨ headIs (fun c => (isHex c).isSome) m = false) :
    hexLoop k v m = (v, m) := by
  cases k with
  | zero => simp [hexLoop]
  | succ k =>
    rcases h with h | h
    · omega
    · cases m with
      | nil => simp [hexLoop]
      | cons x xs =>
        simp only [headIs] at h
        simp only [hexLoop]
        cases hx : isHex x.cp with
        | none => rfl
        | some d => simp [hx] at h

/-- `hexLoop` over written digits -/
theorem hexLoop_digits (ds : List Nat) (hd : ∀ d ∈ ds, d < 16) (k acc : Nat) (m : List Ch) (hk : ds.length ≤ k)
    (hm : ds.length < k → headIs (fun c => (isHex c).isSome) m = false) :
    hexLoop k acc (ds.map (fun d => chOf (hexChar d)) ++ m) = (ds.foldl (fun a d => a * 16 + d) acc, m) := by
  induction ds generalizing k acc with
  | nil =>
    simp only [List.map_nil, List.nil_append, List.foldl_nil]
    apply hexLoop_nohex
    cases k with
    | zero => left; rfl
    | succ k => right; exact hm (by simp)
  | cons d ds ih =>
    obtain ⟨k', rfl⟩ : ∃ k', k = k' + 1 := ⟨k - 1, by simp only [List.length_cons] at hk; omega⟩
    simp only [List.map_cons, List.cons_append, hexLoop, chOf, isHex_hexChar d (hd d (by simp)), List.foldl_cons]
    exact ih (fun x hx => hd x (List.mem_cons_of_mem _ hx)) k' _ (by simp only [List.length_cons] at hk; omega)
      (fun hl => hm (by simp only [List.length_cons]; omega))

end EsbuildModel.CssLex
