import EsbuildModel.Lemmas.Wtf8Round
/-!
`UTF16EqualsString(text, str)` = (`UTF16ToString(text) == str`), and it never indexes `str` out of range.
-/
namespace EsbuildModel.Wtf8
set_option linter.unusedSimpArgs false

theorem cmpBytes_spec (str : List Nat) : ∀ (t : List Nat) (j : Nat), j + t.length ≤ str.length →
    cmpBytes str t j = some (if t.isPrefixOf (str.drop j) then some (j + t.length) else none) := by
  intro t
  induction t with
  | nil => intro j _; simp [cmpBytes]
  | cons x ts ih =>
    intro j hj
    simp only [List.length_cons] at hj
    have hlt : j < str.length := by omega
    rw [cmpBytes, List.getElem?_eq_getElem hlt]
    simp only
    rw [List.drop_eq_getElem_cons hlt]
    by_cases hx : x = str[j]
    · subst hx
      simp only [ne_eq, not_true_eq_false, if_false]
      rw [ih (j + 1) (by omega)]
      simp [List.isPrefixOf, Nat.add_assoc, Nat.add_comm 1]
    · simp [hx, List.isPrefixOf]

/-- `s = t ++ b` iff `t` is a prefix of `s` and the rest is `b` -/
theorem eq_append_iff_prefix (s t b : List Nat) : s = t ++ b ↔ (t.isPrefixOf s = true ∧ s.drop t.length = b) := by
  constructor
  · rintro rfl
    simp
  · rintro ⟨h1, h2⟩
    rw [List.isPrefixOf_iff_prefix] at h1
    obtain ⟨r, rfl⟩ := h1
    simp at h2
    rw [h2]

theorem equalsStep_spec (str : List Nat) (r : Nat) (hr : r ≤ 0x10FFFF) (j : Nat) (_hj : j ≤ str.length) :
    equalsStep str r j =
      some (if j + (encA r).length ≤ str.length ∧ (encA r).isPrefixOf (str.drop j) then some (j + (encA r).length) else none) := by
  unfold equalsStep
  rw [enc_eq r hr]
  simp only
  by_cases hlen : j + (encA r).length > str.length
  · have : ¬ (j + (encA r).length ≤ str.length) := by omega
    simp [hlen, this]
  · have h' : j + (encA r).length ≤ str.length := by omega
    simp only [hlen, if_false, h', true_and]
    exact cmpBytes_spec str _ j h'

/-- the loop of `UTF16EqualsString` decides whether the rest of `str` is the WTF-8 of the rest of `text` -/
theorem equalsLoop_spec (str : List Nat) (u : List Nat) (hu : ∀ x ∈ u, x < 65536) : ∀ (j : Nat), j ≤ str.length →
    equalsLoop str u j = some (decide (str.drop j = (pairs u).flatMap encA)) := by
  -- one round, for a code point `r` followed by the bytes `B` of the remaining code points
  have round : ∀ (r : Nat), r ≤ 0x10FFFF → ∀ (B : List Nat) (k : Nat → Option Bool) (j : Nat), j ≤ str.length →
      (∀ j', j' ≤ str.length → k j' = some (decide (str.drop j' = B))) →
      afterStep (equalsStep str r j) k = some (decide (str.drop j = encA r ++ B)) := by
    intro r hr B k j hj hk
    rw [equalsStep_spec str r hr j hj]
    by_cases hc : j + (encA r).length ≤ str.length ∧ (encA r).isPrefixOf (str.drop j) = true
    · simp only [hc, and_self, if_true, afterStep]
      rw [hk _ hc.1]
      congr 1
      have := eq_append_iff_prefix (str.drop j) (encA r) B
      simp only [List.drop_drop] at this
      simp only [this, hc.2, true_and, Nat.add_comm]
    · simp only [hc, if_false, afterStep]
      congr 1
      symm
      rw [decide_eq_false_iff_not]
      intro heq
      apply hc
      have h1 := (eq_append_iff_prefix _ _ _).mp heq
      refine ⟨?_, h1.1⟩
      have := congrArg List.length heq
      simp only [List.length_drop, List.length_append] at this
      omega
  induction u using pairs.induct with
  | case1 =>
    intro j hj
    rw [equalsLoop, pairs]
    congr 1
    simp only [List.flatMap_nil, List.drop_eq_nil_iff]
    by_cases h : j = str.length <;> simp [h] <;> omega
  | case2 c =>
    intro j hj
    have := hu c (by simp)
    rw [equalsLoop, pairs]
    have := round c (by omega) [] (fun j => some (decide (j = str.length))) j hj (by
      intro j' hj'
      congr 1
      simp only [List.drop_eq_nil_iff]
      by_cases h : j' = str.length <;> simp [h] <;> omega)
    simpa using this
  | case3 c c2 rest hc ih =>
    intro j hj
    have hc' := hc
    simp only [Bool.and_eq_true] at hc'
    have hcp := combine_pair c c2 hc'.1 hc'.2
    rw [equalsLoop, pairs]
    simp only [hc, if_true, List.flatMap_cons]
    exact round _ hcp.2.2 _ _ j hj (ih (fun x hx => hu x (List.mem_cons_of_mem _ (List.mem_cons_of_mem _ hx))))
  | case4 c c2 rest hc ih =>
    intro j hj
    have := hu c (by simp)
    rw [equalsLoop, pairs]
    simp only [hc, Bool.false_eq_true, if_false, List.flatMap_cons]
    exact round c (by omega) _ _ j hj (ih (fun x hx => hu x (List.mem_cons_of_mem _ hx)))

theorem bytes_length_ge (u : List Nat) (hu : ∀ x ∈ u, x < 65536) : u.length ≤ ((pairs u).flatMap encA).length := by
  induction u using pairs.induct with
  | case1 => simp [pairs]
  | case2 c => have := encA_length c; simp [pairs]; omega
  | case3 c c2 rest hc ih =>
    have hc' := hc
    simp only [Bool.and_eq_true] at hc'
    have hcp := combine_pair c c2 hc'.1 hc'.2
    have ih' := ih (fun x hx => hu x (List.mem_cons_of_mem _ (List.mem_cons_of_mem _ hx)))
    have h4 : (encA (combine c c2)).length = 4 := by
      unfold encA
      have a1 : ¬ combine c c2 ≤ 127 := by omega
      have a2 : ¬ combine c c2 ≤ 2047 := by omega
      have a3 : ¬ combine c c2 ≤ 65535 := by omega
      simp [a1, a2, a3]
    simp only [pairs, hc, if_true, List.flatMap_cons, List.length_append, List.length_cons, h4]
    omega
  | case4 c c2 rest hc ih =>
    have ih' := ih (fun x hx => hu x (List.mem_cons_of_mem _ hx))
    have := encA_length c
    simp only [pairs, hc, Bool.false_eq_true, if_false, List.flatMap_cons, List.length_append, List.length_cons] at ih' ⊢
    omega

end EsbuildModel.Wtf8
