import EsbuildModel.Lemmas.Lower3SimBasic
/-!
Syntactic facts about what the lowering produces (temporaries written are below the counter it returns; the
result of lowerObjectSpread is never a bare identifier or temporary), and the lowering of one destructuring
assignment whose value is used (`lowerAsgUsed`).
-/
namespace EsbuildModel.Lower3

-- ---------------------------------------------------------------- lowerSpread, syntactically

theorem PL.wr_append (P : Nat → Bool) (a b : PL) : (a.append b).wr P = (a.wr P && b.wr P) := by
  induction a using PL.ind with
  | nil => simp [PL.append, PL.wr]
  | data k ke v rest ih => simp only [PL.append, PL.wr, ih, Bool.and_assoc]
  | getter k ke g rest ih => simp only [PL.append, PL.wr, ih, Bool.and_assoc]
  | setter k ke f rest ih => simp only [PL.append, PL.wr, ih, Bool.and_assoc]
  | proto v rest ih => simp only [PL.append, PL.wr, ih, Bool.and_assoc]
  | spread e rest ih => simp only [PL.append, PL.wr, ih, Bool.and_assoc]

theorem r1Of_wr (P : Nat → Bool) (res : Option E) (pend : PL) (hr : ∀ r, res = some r → r.wr P = true)
    (hp : pend.wr P = true) : (r1Of res pend).wr P = true := by
  cases res with
  | none => simpa only [r1Of, E.wr] using hp
  | some r =>
    simp only [r1Of]
    split
    · exact hr r rfl
    · simp only [E.wr, hr r rfl, hp, Bool.and_self]

theorem spreadLoop_wr (P : Nat → Bool) : ∀ (todo : PL) (res : Option E) (pend : PL),
    todo.wr P = true → (∀ r, res = some r → r.wr P = true) → pend.wr P = true → (spreadLoop todo res pend).wr P = true := by
  intro todo
  induction todo using PL.ind with
  | nil => intro res pend _ hr hp; rw [spreadLoop_nil]; exact r1Of_wr P res pend hr hp
  | data k ke v rest ih =>
    intro res pend ht hr hp
    simp only [PL.wr, Bool.and_eq_true] at ht
    exact ih res _ ht.2 hr (by simp [PL.wr_append, PL.wr, hp, ht.1.1, ht.1.2])
  | getter k ke g rest ih =>
    intro res pend ht hr hp
    simp only [PL.wr, Bool.and_eq_true] at ht
    exact ih res _ ht.2 hr (by simp [PL.wr_append, PL.wr, hp, ht.1])
  | setter k ke f rest ih =>
    intro res pend ht hr hp
    simp only [PL.wr, Bool.and_eq_true] at ht
    exact ih res _ ht.2 hr (by simp [PL.wr_append, PL.wr, hp, ht.1])
  | proto v rest ih =>
    intro res pend ht hr hp
    simp only [PL.wr, Bool.and_eq_true] at ht
    exact ih res _ ht.2 hr (by simp [PL.wr_append, PL.wr, hp, ht.1])
  | spread e rest ih =>
    intro res pend ht hr hp
    simp only [PL.wr, Bool.and_eq_true] at ht
    have hr1 : spreadLoop (.spread e rest) res pend = spreadLoop rest (some (.spreadValues (r1Of res pend) e)) .nil := by
      cases res <;> rfl
    rw [hr1]
    refine ih _ _ ht.2 (fun r hr' => ?_) rfl
    cases hr'
    simp only [E.wr, r1Of_wr P res pend hr hp, ht.1, Bool.and_self]

theorem lowerSpread_wr (P : Nat → Bool) (ps : PL) (h : ps.wr P = true) : (lowerSpread ps).wr P = true := by
  unfold lowerSpread
  split
  · exact spreadLoop_wr P ps none .nil h (fun r hr => by cases hr) rfl
  · simpa only [E.wr] using h

/-- neither a bare identifier nor a bare temporary -/
def E.plain (e : E) : Prop := e.asId = none ∧ ∀ j, e ≠ .tmp j

theorem r1Of_plain (res : Option E) (pend : PL) (hr : ∀ r, res = some r → r.plain) : (r1Of res pend).plain := by
  cases res with
  | none => exact ⟨rfl, fun j h => by simp [r1Of] at h⟩
  | some r =>
    simp only [r1Of]
    split
    · exact hr r rfl
    · exact ⟨rfl, fun j h => by cases h⟩

theorem spreadLoop_plain : ∀ (todo : PL) (res : Option E) (pend : PL),
    (∀ r, res = some r → r.plain) → (spreadLoop todo res pend).plain := by
  intro todo
  induction todo using PL.ind with
  | nil => intro res pend hr; rw [spreadLoop_nil]; exact r1Of_plain res pend hr
  | data k ke v rest ih => intro res pend hr; exact ih res _ hr
  | getter k ke g rest ih => intro res pend hr; exact ih res _ hr
  | setter k ke f rest ih => intro res pend hr; exact ih res _ hr
  | proto v rest ih => intro res pend hr; exact ih res _ hr
  | spread e rest ih =>
    intro res pend hr
    have hr1 : spreadLoop (.spread e rest) res pend = spreadLoop rest (some (.spreadValues (r1Of res pend) e)) .nil := by
      cases res <;> rfl
    rw [hr1]
    exact ih _ _ (fun r hr' => by cases hr'; exact ⟨rfl, fun j h => by cases h⟩)

theorem lowerSpread_plain (ps : PL) : (lowerSpread ps).plain := by
  unfold lowerSpread
  split
  · exact spreadLoop_plain ps none .nil (fun r hr => by cases hr)
  · exact ⟨rfl, fun j h => by cases h⟩

-- ---------------------------------------------------------------- what `visit` emits writes below the counter it returns

theorem ltB_mono (n n' : Nat) (h : n ≤ n') (k : Nat) (hk : ltB n k = true) : ltB n' k = true := by
  simp only [ltB, decide_eq_true_eq] at hk ⊢
  omega

theorem keyCap_wr_up (hr : Bool) (k : KK) (ke' : E) (n : Nat) (hw : ke'.wr (ltB n) = true) :
    (keyCap hr k ke' n).1.wr (ltB (keyCap hr k ke' n).2.2) = true := by
  refine E.wr_mono (fun j hj => ?_) _ (keyCap_wr hr k ke' n n hw)
  simp only [ltB, Bool.or_eq_true, Bool.and_eq_true, decide_eq_true_eq] at hj ⊢
  have := keyCap_le hr k ke' n
  omega

theorem restPattern_up (n : Nat) (before : PPL) (r : Nat) (init : E) (cap : List CK)
    (hb : before.wr (ltB n) = true) (hi : init.wr (ltB n) = true) :
    n ≤ (restPattern before r init cap n).2 ∧
    alWr (ltB (restPattern before r init cap n).2) (restPattern before r init cap n).1 = true := by
  unfold restPattern
  split
  · exact ⟨Nat.le_refl _, by simp [alWr, Pat.wr, E.wr, hi]⟩
  · have h1 : before.wr (ltB (n + 1)) = true := PPL.wr_mono (ltB_mono n (n + 1) (Nat.le_succ _)) _ hb
    have h2 : init.wr (ltB (n + 1)) = true := E.wr_mono (ltB_mono n (n + 1) (Nat.le_succ _)) _ hi
    exact ⟨Nat.le_succ _, by simp [alWr, Pat.wr, E.wr, h1, h2, ltB]⟩

mutual
theorem visitPat_up : ∀ (p' : Pat) (init : E) (cap : List CK) (n : Nat),
    p'.wr (ltB n) = true → init.wr (ltB n) = true →
    n ≤ (visitPat p' init cap n).2 ∧ alWr (ltB (visitPat p' init cap n).2) (visitPat p' init cap n).1 = true
  | .var x, init, cap, n, _, hi => by simp [visitPat, alWr, Pat.wr, hi]
  | .tmp k, init, cap, n, hp, hi => by
    simp only [Pat.wr] at hp
    simp [visitPat, alWr, Pat.wr, hi, hp]
  | .obj ps rest, init, cap, n, hp, hi => by
    simp only [Pat.wr] at hp
    simp only [visitPat]
    exact visitPPL_up ps .nil rest init cap n hp rfl hi
theorem visitPPL_up : ∀ (todo' done' : PPL) (rest : Option Nat) (init : E) (cap : List CK) (n : Nat),
    todo'.wr (ltB n) = true → done'.wr (ltB n) = true → init.wr (ltB n) = true →
    n ≤ (visitPPL done' todo' rest init cap n).2 ∧
    alWr (ltB (visitPPL done' todo' rest init cap n).2) (visitPPL done' todo' rest init cap n).1 = true
  | .nil, done', none, init, cap, n, _, hd, hi => by
    simp [visitPPL, alWr, Pat.wr, hd, hi]
  | .nil, done', some r, init, cap, n, _, hd, hi => by
    simp only [visitPPL]
    exact restPattern_up n done' r init cap hd hi
  | .prop k ke t hd d tl, done', rest, init, cap, n, ht, hdn, hi => by
    simp only [PPL.wr, Bool.and_eq_true] at ht
    obtain ⟨⟨⟨hke, htt⟩, hdd⟩, htl⟩ := ht
    have hc := keyCap_le rest.isSome k ke n
    have hkw := keyCap_wr_up rest.isSome k ke n hke
    have e1 : (if rest.isSome = true then captureKey k ke n else (ke, CK.str "", n)) = keyCap rest.isSome k ke n := rfl
    simp only [visitPPL, e1]
    by_cases hsplit : t.hasRest = true
    · simp only [hsplit, if_true]
      by_cases hmore : (!tl.isNil || rest.isSome) = true
      · simp only [hmore, if_true]
        have h2 := visitPat_up t (.tmp ((keyCap rest.isSome k ke n).2.2 + 1)) [] ((keyCap rest.isSome k ke n).2.2 + 1 + 1)
          (Pat.wr_mono (ltB_mono _ _ (by omega)) t htt) rfl
        have h3 := visitPPL_up tl .nil rest (.tmp (keyCap rest.isSome k ke n).2.2)
          (if rest.isSome = true then cap ++ [(keyCap rest.isSome k ke n).2.1] else cap)
          (visitPat t (.tmp ((keyCap rest.isSome k ke n).2.2 + 1)) [] ((keyCap rest.isSome k ke n).2.2 + 1 + 1)).2
          (PPL.wr_mono (ltB_mono _ _ (by omega)) tl htl) rfl rfl
        obtain ⟨h21, h22⟩ := h2
        obtain ⟨h31, h32⟩ := h3
        generalize hn1 : (keyCap rest.isSome k ke n).2.2 = n1 at *
        generalize visitPat t (.tmp (n1 + 1)) [] (n1 + 1 + 1) = r2 at *
        generalize visitPPL .nil tl rest (.tmp n1) (if rest.isSome = true then cap ++ [(keyCap rest.isSome k ke n).2.1] else cap) r2.2 = r3 at *
        refine ⟨by omega, ?_⟩
        have hN : n ≤ r3.2 := by omega
        have hi' := E.wr_mono (ltB_mono n r3.2 hN) init hi
        have hd1 := PPL.wr_mono (ltB_mono n r3.2 hN) done' hdn
        have hk1 := E.wr_mono (ltB_mono n1 r3.2 (by omega)) _ hkw
        have hdd1 := E.wr_mono (ltB_mono n r3.2 hN) d hdd
        have ft1 : ltB r3.2 n1 = true := by simp only [ltB, decide_eq_true_eq]; omega
        have ft2 : ltB r3.2 (n1 + 1) = true := by simp only [ltB, decide_eq_true_eq]; omega
        rw [alWr_append, alWr_append, alWr_append, Bool.and_eq_true, Bool.and_eq_true, Bool.and_eq_true]
        refine ⟨⟨⟨?_, ?_⟩, alWr_mono (ltB_mono _ _ h31) _ h22⟩, h32⟩
        · simp [alWr, Pat.wr, hi', ft1]
        · simp [alWr, Pat.wr, E.wr, PPL.wr_append, PPL.wr, hd1, hk1, hdd1, ft2]
      · simp only [hmore, if_false, Bool.false_eq_true]
        have h2 := visitPat_up t (.tmp (keyCap rest.isSome k ke n).2.2) [] ((keyCap rest.isSome k ke n).2.2 + 1)
          (Pat.wr_mono (ltB_mono _ _ (by omega)) t htt) rfl
        obtain ⟨h21, h22⟩ := h2
        generalize hn1 : (keyCap rest.isSome k ke n).2.2 = n1 at *
        generalize visitPat t (.tmp n1) [] (n1 + 1) = r2 at *
        refine ⟨by omega, ?_⟩
        have hN : n ≤ r2.2 := by omega
        have hi' := E.wr_mono (ltB_mono n r2.2 hN) init hi
        have hd1 := PPL.wr_mono (ltB_mono n r2.2 hN) done' hdn
        have hk1 := E.wr_mono (ltB_mono n1 r2.2 (by omega)) _ hkw
        have hdd1 := E.wr_mono (ltB_mono n r2.2 hN) d hdd
        have ft1 : ltB r2.2 n1 = true := by simp only [ltB, decide_eq_true_eq]; omega
        rw [alWr_append, alWr_append, Bool.and_eq_true, Bool.and_eq_true]
        refine ⟨⟨rfl, ?_⟩, h22⟩
        simp [alWr, Pat.wr, PPL.wr_append, PPL.wr, hd1, hk1, hdd1, hi', ft1]
    · simp only [hsplit, if_false, Bool.false_eq_true]
      have h3 := visitPPL_up tl (done'.append (.prop k (keyCap rest.isSome k ke n).1 t hd d .nil)) rest init
        (if rest.isSome = true then cap ++ [(keyCap rest.isSome k ke n).2.1] else cap) (keyCap rest.isSome k ke n).2.2
        (PPL.wr_mono (ltB_mono _ _ hc) tl htl)
        (by simp [PPL.wr_append, PPL.wr, PPL.wr_mono (ltB_mono _ _ hc) done' hdn, hkw, E.wr_mono (ltB_mono _ _ hc) d hdd,
              Pat.wr_mono (ltB_mono _ _ hc) t htt])
        (E.wr_mono (ltB_mono _ _ hc) init hi)
      exact ⟨by omega, h3.2⟩
end

theorem seqAll_wr (P : Nat → Bool) (al : List (Pat × E)) (h : alWr P al = true) : (seqAll al).wr P = true := by
  cases al with
  | nil => rfl
  | cons pe r =>
    obtain ⟨p, e⟩ := pe
    simp only [alWr, List.all_cons, Bool.and_eq_true] at h
    have : ∀ (r : List (Pat × E)) (acc : E), acc.wr P = true → (r.all fun pe => pe.1.wr P && pe.2.wr P) = true →
        (r.foldl (fun a pe => E.seq a (.asg pe.1 pe.2)) acc).wr P = true := by
      intro r
      induction r with
      | nil => intro acc ha _; exact ha
      | cons pe r ih =>
        intro acc ha hr
        simp only [List.all_cons, Bool.and_eq_true] at hr
        exact ih _ (by simp [E.wr, ha, hr.1.1, hr.1.2]) hr.2
    exact this r _ (by simp [E.wr, h.1.1, h.1.2]) h.2

-- ---------------------------------------------------------------- a destructuring assignment whose value is used

theorem RelQ.toR_pure {α β : Type} {Q : β → TState → Prop} {a : R α × TState} {b : R β × TState} (c : Val)
    (h : RelQ Q a b) : RelR (bindR a fun _ s => ((.ok c : Res), s)) (bindR b fun _ s => ((.ok c : Res), s)) := by
  cases h with
  | inl h => exact Or.inl (outside_bind _ _ h)
  | inr h =>
    obtain ⟨ra, sa⟩ := a
    obtain ⟨rb, sb⟩ := b
    obtain ⟨h1, h2, _⟩ := h
    simp only at h1 h2
    cases ra with
    | ok x =>
      cases rb with
      | ok y => exact Or.inr ⟨rfl, h2⟩
      | err e => simp at h1
    | err e =>
      cases rb with
      | ok y => simp at h1
      | err e' =>
        simp only [R.void_err, R.err.injEq] at h1
        subst h1
        exact Or.inr ⟨rfl, h2⟩

/-- lowerAssign with objRestMustReturnInitExpr: `(_a = init, …assignments…, _a)` against `pattern = init` -/
theorem asgUsed_ok (w : World) (p' p : Pat) (rhs' rhs : E) (n B : Nat) (hB : B ≤ n)
    (hpat : PatOK w B p' p) (hr : SimB w rhs' rhs) (hrw : rhs'.wr (ltB n) = true) (hrest : p'.hasRest = true) :
    SimB w (lowerAsgUsed p' rhs' n).1 (.asg p rhs) := by
  intro s s' hh
  unfold lowerAsgUsed
  rw [if_pos hrest]
  simp only [evalE]
  rw [seqAll_run w true _ _ (visit_nonempty _ _ _ _)]
  unfold captureInit
  split
  · -- a literal initialiser is written twice
    rename_i v0
    have hI := hr s s' hh
    have hvis := hpat.visit n (.lit v0) (fun sb => evalE w true rhs sb) s s' hB rfl hh hI
    simp only [evalE]
    cases hI with
    | inl ho => exact Or.inl (outside_bind _ _ ho)
    | inr hI =>
      simp only [evalE] at hI
      rcases hb : evalE w true rhs s' with ⟨rb, sb⟩
      rw [hb] at hI hvis
      simp only at hI
      obtain ⟨hv, _⟩ := hI
      subst hv
      simp only [bindR_ok] at hvis ⊢
      have := hvis.toR_pure v0
      simpa only [bindR_assoc] using this
  · -- anything else is stored in a temporary first
    rw [visitPat_capture, bindR_assoc]
    refine RelR.bind (hr s s' hh) (fun v s1 s1' hh1 => ?_)
    have hvis := hpat.visit (n + 1) (.tmp n) (fun sb => (.ok v, sb)) (setTmp n v s1) s1' (by omega) rfl
      (by simpa using hh1) (Or.inr ⟨by simp [evalE, setTmp_tm_self], by simpa [evalE] using hh1⟩)
    simp only [bindR_ok] at hvis
    have hfr : (runAL w true (visitPat p' (.tmp n) [] (n + 1)).1 (setTmp n v s1)).2.tm n = v := by
      have := runAL_frame w true (outP B (n + 1)) n (by simp [outP]; omega) _ (setTmp n v s1)
        (visitPat_wr B p' (.tmp n) [] (n + 1) hpat.wr rfl).2
      rw [this, setTmp_tm_self]
    simp only [evalE]
    cases hvis with
    | inl ho => exact Or.inl (outside_bind _ _ ho)
    | inr hv =>
      obtain ⟨h1, h2, _⟩ := hv
      rcases ha : runAL w true (visitPat p' (.tmp n) [] (n + 1)).1 (setTmp n v s1) with ⟨ra, sa⟩
      rcases hb : bindPat w true p v s1' with ⟨rb, sb⟩
      rw [ha] at h1 h2 hfr
      rw [hb] at h1 h2
      simp only at h1 h2 hfr
      cases ra with
      | ok x =>
        cases rb with
        | ok y => exact Or.inr ⟨by simp [hfr], h2⟩
        | err e => simp at h1
      | err e =>
        cases rb with
        | ok y => simp at h1
        | err e' =>
          simp only [R.void_err, R.err.injEq] at h1
          subst h1
          exact Or.inr ⟨rfl, h2⟩

theorem lowerAsgUsed_wr (p' : Pat) (rhs' : E) (n : Nat) (hp : p'.wr (ltB n) = true) (hrw : rhs'.wr (ltB n) = true) :
    n ≤ (lowerAsgUsed p' rhs' n).2 ∧ (lowerAsgUsed p' rhs' n).1.wr (ltB (lowerAsgUsed p' rhs' n).2) = true := by
  unfold lowerAsgUsed
  split
  · unfold captureInit
    split
    · rename_i v0
      have h := visitPat_up p' (.lit v0) [] n hp rfl
      exact ⟨h.1, by simp [E.wr, seqAll_wr _ _ h.2]⟩
    · have h := visitPat_up p' (.asg (.tmp n) rhs') [] (n + 1) (Pat.wr_mono (ltB_mono n (n + 1) (Nat.le_succ _)) _ hp)
        (by simp [E.wr, Pat.wr, ltB, E.wr_mono (ltB_mono n (n + 1) (Nat.le_succ _)) _ hrw])
      have h1 := h.1
      simp only
      exact ⟨by omega, by simp [E.wr, seqAll_wr _ _ h.2]⟩
  · exact ⟨Nat.le_refl _, by simp [E.wr, hp, hrw]⟩

theorem lowerAsgUsed_plain (p' : Pat) (rhs' : E) (n : Nat) : (lowerAsgUsed p' rhs' n).1.plain := by
  unfold lowerAsgUsed
  split
  · exact ⟨rfl, fun j h => by cases h⟩
  · exact ⟨rfl, fun j h => by cases h⟩

end EsbuildModel.Lower3
