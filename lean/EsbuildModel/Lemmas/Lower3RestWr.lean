import EsbuildModel.Lemmas.Lower3RestDone
/-!
Which temporaries the assignments emitted by `visit` write: those of the pattern's sub-expressions (below B) and
new ones (from the counter on).
-/
namespace EsbuildModel.Lower3

def outP (B n : Nat) : Nat → Bool := fun j => decide (j < B) || decide (n ≤ j)

def alWr (P : Nat → Bool) (al : List (Pat × E)) : Bool := al.all fun pe => pe.1.wr P && pe.2.wr P

theorem alWr_append (P : Nat → Bool) (a b : List (Pat × E)) : alWr P (a ++ b) = (alWr P a && alWr P b) := by
  simp [alWr, List.all_append]

theorem alWr_mono {P Q : Nat → Bool} (h : ∀ k, P k = true → Q k = true) (al : List (Pat × E)) (ha : alWr P al = true) :
    alWr Q al = true := by
  simp only [alWr, List.all_eq_true, Bool.and_eq_true] at ha ⊢
  exact fun pe hpe => ⟨Pat.wr_mono h _ (ha pe hpe).1, E.wr_mono h _ (ha pe hpe).2⟩

theorem outP_mono (B n n' : Nat) (h : n ≤ n') (k : Nat) (hk : outP B n' k = true) : outP B n k = true := by
  simp only [outP, Bool.or_eq_true, decide_eq_true_eq] at hk ⊢
  omega

theorem ltB_outP (B n : Nat) (k : Nat) (hk : ltB B k = true) : outP B n k = true := by
  simp only [ltB, outP, Bool.or_eq_true, decide_eq_true_eq] at hk ⊢
  exact Or.inl hk

theorem PPL.wr_append (P : Nat → Bool) (a b : PPL) : (a.append b).wr P = (a.wr P && b.wr P) := by
  induction a using PPL.ind with
  | nil => simp [PPL.append, PPL.wr]
  | prop k ke t hd d tl ih => simp only [PPL.append, PPL.wr, ih, Bool.and_assoc]

theorem keyCap_wr_out (hr : Bool) (k : KK) (ke' : E) (n nlo B : Nat) (hw : ke'.wr (ltB B) = true) (hn : nlo ≤ n) :
    (keyCap hr k ke' n).1.wr (outP B nlo) = true := by
  refine E.wr_mono (fun j hj => ?_) _ (keyCap_wr hr k ke' n B hw)
  simp only [outP, Bool.or_eq_true, Bool.and_eq_true, decide_eq_true_eq] at hj ⊢
  omega

theorem restPattern_wr (B nlo n : Nat) (before : PPL) (r : Nat) (init : E) (cap : List CK) (hn : nlo ≤ n)
    (hb : before.wr (outP B nlo) = true) (hi : init.wr (outP B nlo) = true) :
    n ≤ (restPattern before r init cap n).2 ∧ alWr (outP B nlo) (restPattern before r init cap n).1 = true := by
  unfold restPattern
  split
  · exact ⟨Nat.le_refl _, by simp [alWr, Pat.wr, E.wr, hi]⟩
  · refine ⟨Nat.le_succ _, ?_⟩
    have : outP B nlo n = true := by simp [outP]; omega
    simp [alWr, Pat.wr, E.wr, hi, hb, this]

mutual
theorem visitPat_wr (B : Nat) : ∀ (p' : Pat) (init : E) (cap : List CK) (n : Nat),
    p'.wr (ltB B) = true → init.wr (outP B n) = true →
    n ≤ (visitPat p' init cap n).2 ∧ alWr (outP B n) (visitPat p' init cap n).1 = true
  | .var x, init, cap, n, _, hi => by simp [visitPat, alWr, Pat.wr, hi]
  | .tmp k, init, cap, n, hp, hi => by
    simp only [Pat.wr] at hp
    simp [visitPat, alWr, Pat.wr, hi, ltB_outP B n k hp]
  | .obj ps rest, init, cap, n, hp, hi => by
    simp only [Pat.wr] at hp
    simp only [visitPat]
    exact visitPPL_wr B ps .nil rest init cap n n (Nat.le_refl _) hp rfl hi
theorem visitPPL_wr (B : Nat) : ∀ (todo' done' : PPL) (rest : Option Nat) (init : E) (cap : List CK) (nlo n : Nat),
    nlo ≤ n → todo'.wr (ltB B) = true → done'.wr (outP B nlo) = true → init.wr (outP B nlo) = true →
    n ≤ (visitPPL done' todo' rest init cap n).2 ∧ alWr (outP B nlo) (visitPPL done' todo' rest init cap n).1 = true
  | .nil, done', none, init, cap, nlo, n, hn, _, hd, hi => by
    simp [visitPPL, alWr, Pat.wr, hd, hi]
  | .nil, done', some r, init, cap, nlo, n, hn, _, hd, hi => by
    simp only [visitPPL]
    exact restPattern_wr B nlo n done' r init cap hn hd hi
  | .prop k ke t hd d tl, done', rest, init, cap, nlo, n, hn, ht, hdn, hi => by
    simp only [PPL.wr, Bool.and_eq_true] at ht
    obtain ⟨⟨⟨hke, htt⟩, hdd⟩, htl⟩ := ht
    have hc := keyCap_le rest.isSome k ke n
    have hkw := keyCap_wr_out rest.isSome k ke n nlo B hke hn
    have hdo : d.wr (outP B nlo) = true := E.wr_mono (ltB_outP B nlo) d hdd
    have e1 : (if rest.isSome = true then captureKey k ke n else (ke, CK.str "", n)) = keyCap rest.isSome k ke n := rfl
    simp only [visitPPL, e1]
    by_cases hsplit : t.hasRest = true
    · simp only [hsplit, if_true]
      by_cases hmore : (!tl.isNil || rest.isSome) = true
      · simp only [hmore, if_true]
        have hn2 : nlo ≤ (keyCap rest.isSome k ke n).2.2 + 1 := by omega
        have h2 := visitPat_wr B t (.tmp ((keyCap rest.isSome k ke n).2.2 + 1)) [] ((keyCap rest.isSome k ke n).2.2 + 1 + 1) htt rfl
        have h3 := fun cap' n' (hn' : nlo ≤ n') =>
          visitPPL_wr B tl .nil rest (.tmp (keyCap rest.isSome k ke n).2.2) cap' nlo n' hn' htl rfl rfl
        have h21 := h2.1
        refine ⟨Nat.le_trans (by omega) (h3 _ _ (by omega)).1, ?_⟩
        rw [alWr_append, alWr_append, alWr_append, Bool.and_eq_true, Bool.and_eq_true, Bool.and_eq_true]
        refine ⟨⟨⟨?_, ?_⟩, alWr_mono (outP_mono B nlo _ (by omega)) _ h2.2⟩, (h3 _ _ (by omega)).2⟩
        · have : outP B nlo (keyCap rest.isSome k ke n).2.2 = true := by simp [outP]; omega
          simp [alWr, Pat.wr, hi, this]
        · have : outP B nlo ((keyCap rest.isSome k ke n).2.2 + 1) = true := by simp [outP]; omega
          simp [alWr, Pat.wr, E.wr, PPL.wr_append, PPL.wr, hdn, hkw, hdo, this]
      · simp only [hmore, if_false, Bool.false_eq_true]
        have h2 := visitPat_wr B t (.tmp (keyCap rest.isSome k ke n).2.2) [] ((keyCap rest.isSome k ke n).2.2 + 1) htt rfl
        refine ⟨by omega, ?_⟩
        rw [alWr_append, alWr_append, Bool.and_eq_true, Bool.and_eq_true]
        refine ⟨⟨rfl, ?_⟩, alWr_mono (outP_mono B nlo _ (by omega)) _ h2.2⟩
        have : outP B nlo (keyCap rest.isSome k ke n).2.2 = true := by simp [outP]; omega
        simp [alWr, Pat.wr, PPL.wr_append, PPL.wr, hdn, hkw, hdo, hi, this]
    · simp only [hsplit, if_false, Bool.false_eq_true]
      have h3 := visitPPL_wr B tl (done'.append (.prop k (keyCap rest.isSome k ke n).1 t hd d .nil)) rest init
        (if rest.isSome = true then cap ++ [(keyCap rest.isSome k ke n).2.1] else cap) nlo (keyCap rest.isSome k ke n).2.2
        (by omega) htl (by simp [PPL.wr_append, PPL.wr, hdn, hkw, hdo, Pat.wr_mono (ltB_outP B nlo) t htt]) hi
      exact ⟨by omega, h3.2⟩
end

end EsbuildModel.Lower3
