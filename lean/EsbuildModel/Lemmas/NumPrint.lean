import EsbuildModel.Impl.NumPrint
import EsbuildModel.Lemmas.NumText
/-!
Lemmas about the model `Impl/NumPrint.lean`: `smallIntToBytes`/`parseSmallInt` against the decimal value of
digit strings, and a closed form of every branch of the text rewriting on texts of a known shape.
-/
namespace EsbuildModel.NumPrint
open EsbuildModel.NumText EsbuildModel.Spec.Num

theorem digitChar_spec : ∀ d, d < 10 → isDigit (digitChar d) = true ∧ digitVal (digitChar d) = d := by decide

theorem digitChar_zero_iff : ∀ d, d < 10 → (digitChar d = '0' ↔ d = 0) := by decide

/-- the decimal digits of n, most significant first -/
def natDigits (n : Nat) : List Char := natToBytes n []

theorem natToBytes_acc (n : Nat) : ∀ acc, natToBytes n acc = natDigits n ++ acc := by
  induction n using Nat.strongRecOn with
  | _ n ih =>
    intro acc
    unfold natDigits
    rw [natToBytes.eq_1 n acc, natToBytes.eq_1 n []]
    by_cases h : n / 10 = 0
    · simp [h]
    · rw [if_neg h, if_neg h, ih (n / 10) (by omega), ih (n / 10) (by omega) [_]]
      simp

theorem natDigits_lt10 {n : Nat} (h : n < 10) : natDigits n = [digitChar n] := by
  unfold natDigits
  rw [natToBytes.eq_1]
  have : n / 10 = 0 := by omega
  simp [this, Nat.mod_eq_of_lt h]

theorem natDigits_step {n : Nat} (h : 10 ≤ n) : natDigits n = natDigits (n / 10) ++ [digitChar (n % 10)] := by
  have h' : ¬ n / 10 = 0 := by omega
  conv => lhs; unfold natDigits
  rw [natToBytes.eq_1, if_neg h', natToBytes_acc]

theorem natDigits_spec (n : Nat) :
    AllDigits (natDigits n) ∧ digitsMV (natDigits n) = n ∧ natDigits n ≠ [] ∧
    (0 < n → (natDigits n).head? ≠ some '0') := by
  induction n using Nat.strongRecOn with
  | _ n ih =>
    by_cases h : n < 10
    · rw [natDigits_lt10 h]
      have := digitChar_spec n h
      refine ⟨?_, ?_, by simp, ?_⟩
      · intro c hc; simp at hc; rw [hc]; exact this.1
      · rw [digitsMV_singleton]; exact this.2
      · intro hpos
        have : digitChar n ≠ '0' := fun hc => by
          have := (digitChar_zero_iff n h).mp hc; omega
        simpa using this
    · rw [natDigits_step (by omega)]
      obtain ⟨h1, h2, h3, h4⟩ := ih (n / 10) (by omega)
      have hd := digitChar_spec (n % 10) (by omega)
      refine ⟨?_, ?_, by simp, ?_⟩
      · rw [allDigits_append]
        exact ⟨h1, by intro c hc; simp at hc; rw [hc]; exact hd.1⟩
      · rw [digitsMV_append, h2, digitsMV_singleton, hd.2]; simp; omega
      · intro _
        have := h4 (by omega)
        cases hnd : natDigits (n / 10) with
        | nil => exact absurd hnd h3
        | cons c l => rw [hnd] at this; simpa using this
open EsbuildModel.NumText EsbuildModel.Spec.Num

theorem smallIntToBytes_nat (n : Nat) : smallIntToBytes (n : Int) = natDigits n := by
  unfold smallIntToBytes natDigits
  have : ¬ ((n : Int) < 0) := by omega
  simp [this]

theorem smallIntToBytes_neg {n : Nat} (h : 0 < n) : smallIntToBytes (-(n : Int)) = '-' :: natDigits n := by
  unfold smallIntToBytes natDigits
  have : (-(n : Int) < 0) := by omega
  simp only [this, if_true, Int.natAbs_neg, Int.natAbs_natCast]

theorem byteMinusZero_digit {c : Char} (h : isDigit c = true) : byteMinusZero c = (digitVal c : Int) := by
  have := isDigit_range h
  unfold byteMinusZero digitVal
  omega

theorem foldl_byteMinusZero {l : List Char} (h : AllDigits l) (a : Nat) :
    l.foldl (fun n c => n * 10 + byteMinusZero c) (a : Int)
      = ((l.foldl (fun a c => a * 10 + digitVal c) a : Nat) : Int) := by
  induction l generalizing a with
  | nil => rfl
  | cons c l ih =>
    rw [allDigits_cons] at h
    simp only [List.foldl_cons]
    rw [byteMinusZero_digit h.1, ← ih h.2]
    congr 1

theorem parseSmallInt_digits {l : List Char} (h : AllDigits l) (hne : l ≠ []) :
    parseSmallInt l = some (digitsMV l : Int) := by
  cases l with
  | nil => exact absurd rfl hne
  | cons c r =>
    have hc := isDigit_ne_minus (h c List.mem_cons_self)
    simp only [parseSmallInt, if_neg hc]
    have := foldl_byteMinusZero h 0
    simp only [Int.natCast_zero] at this
    rw [this]; rfl

theorem parseSmallInt_minus {l : List Char} (h : AllDigits l) :
    parseSmallInt ('-' :: l) = some (-(digitsMV l : Int)) := by
  have := foldl_byteMinusZero h 0
  simp only [Int.natCast_zero] at this
  simp only [parseSmallInt, if_true]
  rw [this]; rfl

/-! ### simplifyExponent -/

theorem simplifyExponent_noE {t : List Char} (h : 'e' ∉ t) : simplifyExponent t = some t := by
  unfold simplifyExponent
  rw [lastIndexOf_none h]

theorem simplifyExponent_plus (P : List Char) (z : Nat) {X : List Char} (hX : 'e' ∉ X) (h0 : X.head? ≠ some '0') :
    simplifyExponent (P ++ 'e' :: '+' :: (List.replicate z '0' ++ X)) = some (P ++ 'e' :: X) := by
  unfold simplifyExponent
  have hmem : 'e' ∉ '+' :: (List.replicate z '0' ++ X) := by
    simp [hX]
  rw [lastIndexOf_append P hmem]
  simp only
  have h1 : (P ++ 'e' :: '+' :: (List.replicate z '0' ++ X))[P.length + 1]? = some '+' := by
    rw [getElem?_len_add]; rfl
  rw [h1]
  simp only
  have h2 : (P ++ 'e' :: '+' :: (List.replicate z '0' ++ X)).drop (P.length + 2) = List.replicate z '0' ++ X := by
    rw [drop_len_add]; rfl
  have h3 : (P ++ 'e' :: '+' :: (List.replicate z '0' ++ X)).take (P.length + 1) = P ++ ['e'] := by
    rw [take_len_add]; rfl
  simp only [show ('+' = '-') = False from by decide, if_false, true_or, if_true]
  rw [h2, countZeros_zeros_append z h0, h3, Nat.add_assoc, drop_len_add]
  have : ('e' :: '+' :: (List.replicate z '0' ++ X)).drop (2 + z) = X := by
    rw [Nat.add_comm]; simp
  rw [this]; simp
open EsbuildModel.NumText EsbuildModel.Spec.Num

theorem simplifyExponent_minus (P : List Char) (z : Nat) {X : List Char} (hX : 'e' ∉ X) (h0 : X.head? ≠ some '0') :
    simplifyExponent (P ++ 'e' :: '-' :: (List.replicate z '0' ++ X)) = some (P ++ 'e' :: '-' :: X) := by
  unfold simplifyExponent
  have hmem : 'e' ∉ '-' :: (List.replicate z '0' ++ X) := by
    simp [hX]
  rw [lastIndexOf_append P hmem]
  simp only
  have h1 : (P ++ 'e' :: '-' :: (List.replicate z '0' ++ X))[P.length + 1]? = some '-' := by
    rw [getElem?_len_add]; rfl
  rw [h1]
  simp only
  have h2 : (P ++ 'e' :: '-' :: (List.replicate z '0' ++ X)).drop (P.length + 2) = List.replicate z '0' ++ X := by
    rw [drop_len_add]; rfl
  have h3 : (P ++ 'e' :: '-' :: (List.replicate z '0' ++ X)).take (P.length + 2) = P ++ ['e', '-'] := by
    rw [take_len_add]; rfl
  simp only [or_true, if_true]
  rw [h2, countZeros_zeros_append z h0, h3, Nat.add_assoc, drop_len_add]
  have : ('e' :: '-' :: (List.replicate z '0' ++ X)).drop (2 + z) = X := by
    rw [Nat.add_comm]; simp
  rw [this]; simp

/-! ### branchDot -/

/-- the result of `branchDot` on `I.FeE` in terms of the pieces -/
def dotResult (I F E : List Char) (x : Int) : List Char :=
  let r := I ++ '.' :: (F ++ 'e' :: E)
  let exponent : Int := x - (F.length : Int)
  if 0 ≤ exponent ∧ exponent ≤ 2 then
    if (r.length : Int) ≥ (I.length : Int) + (F.length : Int) + exponent then
      I ++ F ++ List.replicate exponent.toNat '0'
    else r
  else
    let ex := smallIntToBytes exponent
    if r.length ≥ I.length + F.length + 1 + ex.length then I ++ F ++ 'e' :: ex else r

theorem branchDot_exp (I F E : List Char) (x : Int) (hE : 'e' ∉ E) (hp : parseSmallInt E = some x) :
    branchDot (I ++ '.' :: (F ++ 'e' :: E)) I.length = some (dotResult I F E x) := by
  unfold branchDot
  have hl : lastIndexOf 'e' (I ++ '.' :: (F ++ 'e' :: E)) = some (I.length + (F.length + 1)) := by
    have := lastIndexOf_append (I ++ '.' :: F) hE
    simpa [Nat.add_assoc] using this
  rw [hl]
  simp only
  have hlt : ¬ (I.length + (F.length + 1) < I.length + 1) := by omega
  rw [if_neg hlt]
  have h1 : (I ++ '.' :: (F ++ 'e' :: E)).take I.length = I := take_len _ _
  have h2 : ((I ++ '.' :: (F ++ 'e' :: E)).take (I.length + (F.length + 1))).drop (I.length + 1) = F := by
    rw [take_len_add, drop_len_add]
    have : ('.' :: (F ++ 'e' :: E)).take (F.length + 1) = '.' :: F := by
      simp
    rw [this]; rfl
  have h3 : (I ++ '.' :: (F ++ 'e' :: E)).drop (I.length + (F.length + 1) + 1) = E := by
    rw [Nat.add_assoc, drop_len_add]
    have : ('.' :: (F ++ 'e' :: E)).drop (F.length + 1 + 1) = E := by
      simp
    exact this
  rw [h1, h2, h3, hp]
  simp only [dotResult]
  split
  · split <;> rfl
  · split <;> rfl

theorem branchDot_noE {r : List Char} (d : Nat) (h : 'e' ∉ r) : branchDot r d = some r := by
  unfold branchDot
  rw [lastIndexOf_none h]
open EsbuildModel.NumText EsbuildModel.Spec.Num

/-! ### branchZeroDot -/

/-- the result of `branchZeroDot` on `0.000G` (z zeros, G starts with another byte) -/
def zeroDotResult (minify : Bool) (z : Nat) (G : List Char) : List Char :=
  let r : List Char := if minify then '.' :: (List.replicate z '0' ++ G) else '0' :: '.' :: (List.replicate z '0' ++ G)
  if z = 0 then r
  else
    let exponent := smallIntToBytes (-((z + G.length : Nat) : Int))
    if r.length > G.length + 1 + exponent.length then G ++ 'e' :: exponent else r

theorem branchZeroDot_eq (minify : Bool) (z : Nat) {G : List Char} (hG : G ≠ []) (h0 : G.head? ≠ some '0') :
    branchZeroDot minify ('0' :: '.' :: (List.replicate z '0' ++ G)) = some (zeroDotResult minify z G) := by
  obtain ⟨g, G', rfl⟩ := List.exists_cons_of_ne_nil hG
  have hg : g ≠ '0' := by intro h; apply h0; simp [h]
  cases z with
  | zero =>
    cases minify <;> simp [branchZeroDot, zeroDotResult, hg]
  | succ z =>
    have hcz : countZeros (List.replicate z '0' ++ g :: G') = z := countZeros_zeros_append z h0
    cases minify
    · simp only [branchZeroDot, zeroDotResult, Bool.false_eq_true, if_false, List.replicate_succ, List.cons_append,
        List.getElem?_cons_succ, List.getElem?_cons_zero, if_true, List.drop_succ_cons, List.drop_zero, hcz]
      have hlen : ¬ (('0' :: '.' :: '0' :: (List.replicate z '0' ++ g :: G')).length ≤ 2 + 1 + z) := by
        simp; omega
      rw [if_neg hlen]
      have hd : ('0' :: '.' :: '0' :: (List.replicate z '0' ++ g :: G')).drop (2 + 1 + z) = g :: G' := by
        have := drop_len_add ('0' :: '.' :: '0' :: List.replicate z '0') (g :: G') 0
        simp only [List.length_cons, List.length_replicate, Nat.add_zero, List.drop_zero] at this
        rw [show 2 + 1 + z = z + 1 + 1 + 1 by omega]
        simp
      rw [hd]
      have he : ((2 : Nat) : Int) - ((2 + 1 + z : Nat) : Int) - (((g :: G').length : Nat) : Int)
          = -((z + 1 + (g :: G').length : Nat) : Int) := by
        simp only [List.length_cons]; omega
      rw [he]
      simp only [Nat.succ_ne_zero, if_false]
      split <;> rfl
    · simp only [branchZeroDot, zeroDotResult, if_true, List.replicate_succ, List.cons_append,
        List.getElem?_cons_succ, List.getElem?_cons_zero, List.drop_succ_cons, List.drop_zero, hcz]
      have hlen : ¬ (('.' :: '0' :: (List.replicate z '0' ++ g :: G')).length ≤ 1 + 1 + z) := by
        simp; omega
      rw [if_neg hlen]
      have hd : ('.' :: '0' :: (List.replicate z '0' ++ g :: G')).drop (1 + 1 + z) = g :: G' := by
        have := drop_len_add ('.' :: '0' :: List.replicate z '0') (g :: G') 0
        simp only [List.length_cons, List.length_replicate, Nat.add_zero, List.drop_zero] at this
        rw [show 1 + 1 + z = z + 1 + 1 by omega]
        simp
      rw [hd]
      have he : ((1 : Nat) : Int) - ((1 + 1 + z : Nat) : Int) - (((g :: G').length : Nat) : Int)
          = -((z + 1 + (g :: G').length : Nat) : Int) := by
        simp only [List.length_cons]; omega
      rw [he]
      simp only [Nat.succ_ne_zero, if_false]
      split <;> rfl
open EsbuildModel.NumText EsbuildModel.Spec.Num

/-! ### branchTrailingZeros -/

/-- the result of `branchTrailingZeros` on `R000` (k zeros, R does not end with '0') -/
def trailingResult (R : List Char) (k : Nat) : List Char :=
  let r := R ++ List.replicate k '0'
  let exponent := smallIntToBytes (k : Int)
  if r.length > R.length + 1 + exponent.length then R ++ 'e' :: exponent else r

theorem branchTrailingZeros_eq (R : List Char) (k : Nat) (h : R.getLast? ≠ some '0') :
    branchTrailingZeros (R ++ List.replicate k '0') = trailingResult R k := by
  unfold branchTrailingZeros trailingResult
  have hc : countZeros (R ++ List.replicate k '0').reverse = k := by
    rw [List.reverse_append, List.reverse_replicate]
    exact countZeros_zeros_append k (by simpa [List.head?_reverse] using h)
  simp only [hc]
  have hl : (R ++ List.replicate k '0').length - k = R.length := by simp
  rw [hl, take_len]
open EsbuildModel.NumText EsbuildModel.Spec.Num

/-! ### every branch yields a valid literal with the same value, not longer than the input -/

/-- `out` is (the rendering of) a valid decimal literal with value `v`, not longer than `n` -/
def Good (n : Nat) (v : Rat) (out : List Char) : Prop :=
  ∃ q : DecParts, out = q.render ∧ q.WF ∧ q.jsValid = true ∧ q.mv = v ∧ out.length ≤ n

theorem MV_render {q : DecParts} (hw : q.WF) (hv : q.jsValid = true) : MV q.render = some q.mv := by
  unfold MV
  rw [parseDec_render q hw]
  simp [hv]

theorem Good.MV {n : Nat} {v : Rat} {out : List Char} (h : Good n v out) : MV out = some v := by
  obtain ⟨q, rfl, hw, hv, hm, _⟩ := h
  rw [MV_render hw hv, hm]

theorem Good.mono {n n' : Nat} {v : Rat} {out : List Char} (h : Good n v out) (hn : n ≤ n') : Good n' v out := by
  obtain ⟨q, h1, hw, hv, hm, hl⟩ := h
  exact ⟨q, h1, hw, hv, hm, Nat.le_trans hl hn⟩

theorem natDigits_length_pos (n : Nat) : 0 < (natDigits n).length :=
  List.length_pos_iff.mpr (natDigits_spec n).2.2.1

theorem smallIntToBytes_cases (e : Int) :
    (0 ≤ e ∧ smallIntToBytes e = natDigits e.toNat) ∨ (e < 0 ∧ smallIntToBytes e = '-' :: natDigits (-e).toNat) := by
  by_cases h : 0 ≤ e
  · left
    refine ⟨h, ?_⟩
    have := smallIntToBytes_nat e.toNat
    rwa [Int.toNat_of_nonneg h] at this
  · right
    refine ⟨by omega, ?_⟩
    have := smallIntToBytes_neg (n := (-e).toNat) (by omega)
    rwa [Int.toNat_of_nonneg (by omega), Int.neg_neg] at this

theorem jsIntOk_of_head {I : List Char} (hd : AllDigits I) (hne : I ≠ []) (h0 : I.head? ≠ some '0') : jsIntOk I = true := by
  cases I with
  | nil => exact absurd rfl hne
  | cons c I' =>
    have hc : c ≠ '0' := by intro h; apply h0; simp [h]
    cases I' with
    | nil => exact hd c List.mem_cons_self
    | cons c' I'' => simp [jsIntOk, hc]

theorem jsIntOk_cases {I : List Char} (h : jsIntOk I = true) (hd : AllDigits I) :
    I = ['0'] ∨ (I ≠ [] ∧ I.head? ≠ some '0') := by
  cases I with
  | nil => simp [jsIntOk] at h
  | cons c I' =>
    cases I' with
    | nil =>
      by_cases hc : c = '0'
      · left; rw [hc]
      · right; simp [hc]
    | cons c' I'' =>
      right
      simp only [jsIntOk, bne_iff_ne, ne_eq] at h
      simp [h]

/-- values: an exponent part without sign / with a minus sign -/
theorem expVal_none (D : List Char) : expVal (some ⟨false, .none, D⟩) = (digitsMV D : Int) := by
  simp [expVal]
theorem expVal_minus (D : List Char) : expVal (some ⟨false, .minus, D⟩) = -(digitsMV D : Int) := by
  simp [expVal]
theorem expVal_plus (D : List Char) : expVal (some ⟨false, .plus, D⟩) = (digitsMV D : Int) := by
  simp [expVal]

theorem countZeros_le (l : List Char) : countZeros l ≤ l.length := by
  induction l with
  | nil => simp [countZeros]
  | cons c l ih => simp only [countZeros]; split <;> simp <;> omega

/-- case `ddd`: a plain integer text -/
theorem rewrite_int (m : Bool) {I : List Char} (hd : AllDigits I) (hok : jsIntOk I = true) :
    ∃ out, rewrite m I = some out ∧ Good I.length (dec (digitsMV I) 0) out := by
  have hne : I ≠ [] := by intro h; rw [h] at hok; simp [jsIntOk] at hok
  have hnoe : 'e' ∉ I := not_mem_of_allDigits hd (by decide)
  have hnodot : '.' ∉ I := not_mem_of_allDigits hd (by decide)
  have hself : Good I.length (dec (digitsMV I) 0) I := by
    refine ⟨⟨I, none, none⟩, by simp [DecParts.render, fracText, expText], ⟨hd, by simp, by simp⟩, ?_, ?_, Nat.le_refl _⟩
    · cases I with
      | nil => exact absurd rfl hne
      | cons c I' => simpa [DecParts.jsValid] using hok
    · rw [mv_eq_dec]; simp [expVal]
  unfold rewrite
  rw [simplifyExponent_noE hnoe]
  simp only
  rw [indexOf_none hnodot]
  simp only
  obtain ⟨c, hc⟩ : ∃ c, I.getLast? = some c := by
    cases h : I.getLast? with
    | none => simp at h; exact absurd h hne
    | some c => exact ⟨c, rfl⟩
  rw [hc]
  simp only
  by_cases hc0 : c = '0'
  · rw [if_pos hc0]
    obtain ⟨R, k, hI, hR⟩ := exists_zeros_suffix I
    refine ⟨_, rfl, ?_⟩
    conv => rhs; rw [hI]
    rw [branchTrailingZeros_eq R k hR]
    unfold trailingResult
    simp only
    split
    · rename_i hlen
      rw [smallIntToBytes_nat] at hlen ⊢
      have hkpos := natDigits_length_pos k
      simp only [List.length_append, List.length_replicate] at hlen
      -- R is not empty: otherwise I is "0"
      have hRne : R ≠ [] := by
        intro hR0
        subst hR0
        simp only [List.nil_append] at hI
        rcases jsIntOk_cases hok hd with h1 | ⟨_, h2⟩
        · rw [h1] at hI
          have := congrArg List.length hI
          simp at this
          simp at hlen
          omega
        · rw [hI] at h2
          cases k with
          | zero => simp at hlen
          | succ k => simp [List.replicate_succ] at h2
      have hRd : AllDigits R := by rw [hI, allDigits_append] at hd; exact hd.1
      have hRok : jsIntOk R = true := by
        apply jsIntOk_of_head hRd hRne
        rcases jsIntOk_cases hok hd with h1 | ⟨_, h2⟩
        · rw [h1] at hI
          have := congrArg List.length hI
          simp at this
          omega
        · rw [hI] at h2
          cases R with
          | nil => exact absurd rfl hRne
          | cons r R' => simpa using h2
      obtain ⟨hkd, hkv, hkne, _⟩ := natDigits_spec k
      refine ⟨⟨R, none, some ⟨false, .none, natDigits k⟩⟩, by simp [DecParts.render, fracText, expText, Sign.text],
        ⟨hRd, by simp, ?_⟩, ?_, ?_, ?_⟩
      · intro x hx; simp only [Option.some.injEq] at hx; subst hx; exact ⟨hkd, hkne⟩
      · cases R with
        | nil => exact absurd rfl hRne
        | cons r R' => simpa [DecParts.jsValid] using hRok
      · rw [mv_eq_dec]
        simp only [Option.getD_none, List.append_nil, List.length_nil, expVal_none, hkv]
        rw [hI, digitsMV_append_zeros, dec_shift]
        simp
      · rw [hI]; simp only [List.length_append, List.length_cons, List.length_replicate]; omega
    · rw [← hI]; exact hself
  · rw [if_neg hc0]
    exact ⟨I, rfl, hself⟩
open EsbuildModel.NumText EsbuildModel.Spec.Num

theorem allZero_replicate (z : Nat) : allZero (List.replicate z '0') = true := by
  simp [allZero]

/-- case `ddd.ddd`: a fraction without exponent; "0.000" (which FormatFloat never produces) is excluded -/
theorem rewrite_frac (m : Bool) {I F : List Char} (hI : AllDigits I) (hF : AllDigits F) (hok : jsIntOk I = true)
    (hFne : F ≠ []) (hz : ¬ (I = ['0'] ∧ allZero F = true)) :
    ∃ out, rewrite m (I ++ '.' :: F) = some out ∧
      Good (I ++ '.' :: F).length (dec (digitsMV (I ++ F)) (-(F.length : Int))) out := by
  have hne : I ≠ [] := by intro h; rw [h] at hok; simp [jsIntOk] at hok
  have hnoe : 'e' ∉ I ++ '.' :: F := by
    simp only [List.mem_append, List.mem_cons, not_or]
    exact ⟨not_mem_of_allDigits hI (by decide), by decide, not_mem_of_allDigits hF (by decide)⟩
  have hnodot : '.' ∉ I := not_mem_of_allDigits hI (by decide)
  have hself : Good (I ++ '.' :: F).length (dec (digitsMV (I ++ F)) (-(F.length : Int))) (I ++ '.' :: F) := by
    refine ⟨⟨I, some F, none⟩, by simp [DecParts.render, fracText, expText], ⟨hI, ?_, by simp⟩, ?_, ?_, Nat.le_refl _⟩
    · intro f hf; simp only [Option.some.injEq] at hf; subst hf; exact hF
    · cases I with
      | nil => exact absurd rfl hne
      | cons c I' => simpa [DecParts.jsValid] using hok
    · rw [mv_eq_dec]; simp [expVal]
  unfold rewrite
  rw [simplifyExponent_noE hnoe]
  simp only
  rw [indexOf_append F hnodot]
  simp only
  by_cases hcond : I.length = 1 ∧ (I ++ '.' :: F).head? = some '0'
  · rw [if_pos hcond]
    have hI0 : I = ['0'] := by
      cases I with
      | nil => exact absurd rfl hne
      | cons c I' =>
        cases I' with
        | nil => simp at hcond; rw [hcond]
        | cons c' I'' => simp at hcond
    subst hI0
    obtain ⟨z, G, hFG, hG0⟩ := exists_zeros_prefix F
    have hGne : G ≠ [] := by
      intro hG
      apply hz
      refine ⟨rfl, ?_⟩
      rw [hFG, hG, List.append_nil]
      exact allZero_replicate z
    have hGd : AllDigits G := by rw [hFG, allDigits_append] at hF; exact hF.2
    refine ⟨_, by rw [hFG]; exact branchZeroDot_eq m z hGne hG0, ?_⟩
    have hFlen : F.length = z + G.length := by rw [hFG]; simp
    have hFmv : digitsMV F = digitsMV G := by rw [hFG, digitsMV_zeros_append]
    -- the text with or without the leading zero
    have hr : Good (['0'] ++ '.' :: F).length (dec (digitsMV (['0'] ++ F)) (-(F.length : Int)))
        (if m = true then '.' :: (List.replicate z '0' ++ G) else '0' :: '.' :: (List.replicate z '0' ++ G)) := by
      rw [← hFG]
      cases m
      · exact hself
      · refine ⟨⟨[], some F, none⟩, by simp [DecParts.render, fracText, expText], ⟨allDigits_nil, ?_, by simp⟩, ?_, ?_, by simp⟩
        · intro f hf; simp only [Option.some.injEq] at hf; subst hf; exact hF
        · cases F with
          | nil => exact absurd rfl hFne
          | cons c F' => simp [DecParts.jsValid]
        · rw [mv_eq_dec]
          simp only [Option.getD_some, List.nil_append, expVal, List.singleton_append, digitsMV_zero_cons]
          simp
    have hrlen : (if m = true then '.' :: (List.replicate z '0' ++ G) else '0' :: '.' :: (List.replicate z '0' ++ G)).length
        ≤ (['0'] ++ '.' :: F).length := by
      rw [← hFG]; cases m <;> simp
    unfold zeroDotResult
    simp only
    generalize (if m = true then '.' :: (List.replicate z '0' ++ G) else '0' :: '.' :: (List.replicate z '0' ++ G)) = r
      at hr hrlen ⊢
    split
    · exact hr
    · rename_i hz0
      split
      · rename_i hlen
        have hpos : 0 < z + G.length := by omega
        rw [smallIntToBytes_neg hpos] at hlen ⊢
        obtain ⟨hkd, hkv, hkne, _⟩ := natDigits_spec (z + G.length)
        refine ⟨⟨G, none, some ⟨false, .minus, natDigits (z + G.length)⟩⟩,
          by simp [DecParts.render, fracText, expText, Sign.text], ⟨hGd, by simp, ?_⟩, ?_, ?_, ?_⟩
        · intro x hx; simp only [Option.some.injEq] at hx; subst hx; exact ⟨hkd, hkne⟩
        · have := jsIntOk_of_head hGd hGne hG0
          cases G with
          | nil => exact absurd rfl hGne
          | cons g G' => simpa [DecParts.jsValid] using this
        · rw [mv_eq_dec]
          simp only [Option.getD_none, List.append_nil, List.length_nil, expVal_minus, hkv,
            List.singleton_append, digitsMV_zero_cons, hFmv, hFlen]
          simp
        · simp only [List.length_append, List.length_cons] at hlen hrlen ⊢
          omega
      · exact hr
  · rw [if_neg hcond]
    exact ⟨_, branchDot_noE _ hnoe, hself⟩
open EsbuildModel.NumText EsbuildModel.Spec.Num

/-! ### texts with an exponent part -/

/-- the sign bytes that survive exponent simplification -/
def keptSign (neg : Bool) : List Char := if neg then ['-'] else []
def signByte (neg : Bool) : Char := if neg then '-' else '+'
def signedVal (neg : Bool) (n : Nat) : Int := if neg then -(n : Int) else (n : Int)

theorem simplifyExponent_signed (P : List Char) (neg : Bool) (z : Nat) {X : List Char} (hX : 'e' ∉ X)
    (h0 : X.head? ≠ some '0') :
    simplifyExponent (P ++ 'e' :: signByte neg :: (List.replicate z '0' ++ X)) = some (P ++ 'e' :: (keptSign neg ++ X)) := by
  cases neg
  · exact simplifyExponent_plus P z hX h0
  · exact simplifyExponent_minus P z hX h0

/-- exponent digits with a value in 1…999: leading zeros, then at most three digits -/
theorem exp_digits_split {X : List Char} (hX : AllDigits X) (hpos : 0 < digitsMV X) (hlt : digitsMV X < 1000) :
    ∃ z X', X = List.replicate z '0' ++ X' ∧ X'.head? ≠ some '0' ∧ X' ≠ [] ∧ AllDigits X' ∧
      digitsMV X' = digitsMV X ∧ X'.length ≤ 3 := by
  obtain ⟨z, X', h1, h2⟩ := exists_zeros_prefix X
  have hmv : digitsMV X' = digitsMV X := by rw [h1, digitsMV_zeros_append]
  have hd : AllDigits X' := by rw [h1, allDigits_append] at hX; exact hX.2
  have hne : X' ≠ [] := by
    intro h; rw [h] at hmv; simp at hmv; omega
  refine ⟨z, X', h1, h2, hne, hd, hmv, ?_⟩
  cases X' with
  | nil => exact absurd rfl hne
  | cons x rest =>
    have hx : x ≠ '0' := by intro h; apply h2; simp [h]
    have := digitsMV_ge (l := rest) (hd x List.mem_cons_self) hx
    rw [hmv] at this
    have h3 : 10 ^ rest.length < 10 ^ 3 := by omega
    have := (Nat.pow_lt_pow_iff_right (by decide : 1 < 10)).mp h3
    simp only [List.length_cons]; omega

theorem countZeros_append_lt {a : List Char} (b : List Char) (h : ∃ c ∈ a, c ≠ '0') :
    countZeros (a ++ b) < a.length := by
  induction a with
  | nil => obtain ⟨c, hc, _⟩ := h; cases hc
  | cons x a ih =>
    simp only [List.cons_append, countZeros, List.length_cons]
    split
    · rename_i hx
      obtain ⟨c, hc, hc0⟩ := h
      rcases List.mem_cons.mp hc with rfl | hc
      · exact absurd hx hc0
      · have := ih ⟨c, hc, hc0⟩
        omega
    · omega

theorem branchTrailingZeros_noswitch {r : List Char} (h : countZeros r.reverse ≤ 2) : branchTrailingZeros r = r := by
  unfold branchTrailingZeros
  simp only
  have hle := countZeros_le r.reverse
  rw [List.length_reverse] at hle
  have hpos : 0 < (smallIntToBytes ((countZeros r.reverse : Nat) : Int)).length := by
    rw [smallIntToBytes_nat]; exact natDigits_length_pos _
  rw [if_neg]
  simp only [List.length_take]
  omega

theorem parseSmallInt_signed (neg : Bool) {X : List Char} (hX : AllDigits X) (hne : X ≠ []) :
    parseSmallInt (keptSign neg ++ X) = some (signedVal neg (digitsMV X)) := by
  cases neg
  · simpa [keptSign, signedVal] using parseSmallInt_digits hX hne
  · simpa [keptSign, signedVal] using parseSmallInt_minus hX

theorem not_mem_keptSign_append {c : Char} (neg : Bool) {X : List Char} (hX : AllDigits X) (hc : isDigit c = false)
    (hm : c ≠ '-') : c ∉ keptSign neg ++ X := by
  have := not_mem_of_allDigits hX hc
  cases neg <;> simp [keptSign, this, hm]

/-- the parts of an exponent that went through simplification -/
def keptExp (neg : Bool) (X : List Char) : ExpPart := ⟨false, if neg then .minus else .none, X⟩

theorem expText_keptExp (neg : Bool) (X : List Char) : expText (some (keptExp neg X)) = 'e' :: (keptSign neg ++ X) := by
  cases neg <;> simp [keptExp, expText, keptSign, Sign.text]

theorem expVal_keptExp (neg : Bool) (X : List Char) : expVal (some (keptExp neg X)) = signedVal neg (digitsMV X) := by
  cases neg <;> simp [keptExp, expVal, signedVal]

/-- case `ddde±dd`: no dot -/
theorem rewrite_exp_int (m : Bool) (neg : Bool) {I X : List Char} (hI : AllDigits I) (hX : AllDigits X)
    (hIne : I ≠ []) (hI0 : I.head? ≠ some '0') (hpos : 0 < digitsMV X) (hlt : digitsMV X < 1000) :
    ∃ out, rewrite m (I ++ 'e' :: signByte neg :: X) = some out ∧
      Good (I ++ 'e' :: signByte neg :: X).length (dec (digitsMV I) (signedVal neg (digitsMV X))) out := by
  obtain ⟨z, X', hXs, hX0, hXne, hXd, hXmv, hXlen⟩ := exp_digits_split hX hpos hlt
  have hnoeX : 'e' ∉ X' := not_mem_of_allDigits hXd (by decide)
  have hr : rewrite m (I ++ 'e' :: signByte neg :: X) = some (I ++ 'e' :: (keptSign neg ++ X')) := by
    unfold rewrite
    rw [hXs, simplifyExponent_signed I neg z hnoeX hX0]
    simp only
    have hnodot : '.' ∉ I ++ 'e' :: (keptSign neg ++ X') := by
      simp only [List.mem_append, List.mem_cons, not_or]
      have h1 := not_mem_of_allDigits hI (c := '.') (by decide)
      have h2 := not_mem_keptSign_append neg hXd (c := '.') (by decide) (by decide)
      simp only [List.mem_append, not_or] at h2
      exact ⟨h1, by decide, h2.1, h2.2⟩
    rw [indexOf_none hnodot]
    simp only
    have hlast : (I ++ 'e' :: (keptSign neg ++ X')).getLast? = X'.getLast? := by
      rw [List.getLast?_append, List.getLast?_cons, List.getLast?_append]
      cases h : X'.getLast? with
      | none => simp at h; exact absurd h hXne
      | some c => simp
    obtain ⟨c, hc⟩ : ∃ c, X'.getLast? = some c := by
      cases h : X'.getLast? with
      | none => simp at h; exact absurd h hXne
      | some c => exact ⟨c, rfl⟩
    rw [hlast, hc]
    simp only
    split
    · rw [branchTrailingZeros_noswitch]
      rw [show I ++ 'e' :: (keptSign neg ++ X') = (I ++ 'e' :: keptSign neg) ++ X' by simp,
        List.reverse_append]
      have : ∃ c ∈ X'.reverse, c ≠ '0' := by
        cases X' with
        | nil => exact absurd rfl hXne
        | cons x rest =>
          exact ⟨x, by simp, by intro h; apply hX0; simp [h]⟩
      have := countZeros_append_lt (I ++ 'e' :: keptSign neg).reverse this
      rw [List.length_reverse] at this
      omega
    · rfl
  refine ⟨_, hr, ⟨⟨I, none, some (keptExp neg X')⟩, ?_, ⟨hI, by simp, ?_⟩, ?_, ?_, ?_⟩⟩
  · simp [DecParts.render, fracText, expText_keptExp]
  · intro x hx; simp only [Option.some.injEq] at hx; subst hx; exact ⟨hXd, hXne⟩
  · have := jsIntOk_of_head hI hIne hI0
    cases I with
    | nil => exact absurd rfl hIne
    | cons c I' => simpa [DecParts.jsValid] using this
  · rw [mv_eq_dec]
    simp only [Option.getD_none, List.append_nil, List.length_nil, expVal_keptExp, hXmv]
    simp
  · rw [hXs]
    cases neg <;> simp [keptSign, signByte] <;> omega
open EsbuildModel.NumText EsbuildModel.Spec.Num

/-- case `ddd.ddde±dd` -/
theorem rewrite_exp_frac (m : Bool) (neg : Bool) {I F X : List Char} (hI : AllDigits I) (hF : AllDigits F)
    (hX : AllDigits X) (hIne : I ≠ []) (hI0 : I.head? ≠ some '0') (hpos : 0 < digitsMV X) (hlt : digitsMV X < 1000) :
    ∃ out, rewrite m (I ++ '.' :: (F ++ 'e' :: signByte neg :: X)) = some out ∧
      Good (I ++ '.' :: (F ++ 'e' :: signByte neg :: X)).length
        (dec (digitsMV (I ++ F)) (signedVal neg (digitsMV X) - (F.length : Int))) out := by
  obtain ⟨z, X', hXs, hX0, hXne, hXd, hXmv, hXlen⟩ := exp_digits_split hX hpos hlt
  have hnoeX : 'e' ∉ X' := not_mem_of_allDigits hXd (by decide)
  have hIok : jsIntOk I = true := jsIntOk_of_head hI hIne hI0
  -- value of the simplified text
  have hkept : Good (I ++ '.' :: (F ++ 'e' :: signByte neg :: X)).length
      (dec (digitsMV (I ++ F)) (signedVal neg (digitsMV X) - (F.length : Int)))
      (I ++ '.' :: (F ++ 'e' :: (keptSign neg ++ X'))) := by
    refine ⟨⟨I, some F, some (keptExp neg X')⟩, ?_, ⟨hI, ?_, ?_⟩, ?_, ?_, ?_⟩
    · simp [DecParts.render, fracText, expText_keptExp]
    · intro f hf; simp only [Option.some.injEq] at hf; subst hf; exact hF
    · intro x hx; simp only [Option.some.injEq] at hx; subst hx; exact ⟨hXd, hXne⟩
    · cases I with
      | nil => exact absurd rfl hIne
      | cons c I' => simpa [DecParts.jsValid] using hIok
    · rw [mv_eq_dec]
      simp only [Option.getD_some, expVal_keptExp, hXmv]
    · rw [hXs]
      cases neg <;> simp [keptSign, signByte] <;> omega
  have hr : rewrite m (I ++ '.' :: (F ++ 'e' :: signByte neg :: X))
      = some (dotResult I F (keptSign neg ++ X') (signedVal neg (digitsMV X'))) := by
    unfold rewrite
    have := simplifyExponent_signed (I ++ '.' :: F) neg z hnoeX hX0
    rw [hXs, show I ++ '.' :: (F ++ 'e' :: signByte neg :: (List.replicate z '0' ++ X'))
      = (I ++ '.' :: F) ++ 'e' :: signByte neg :: (List.replicate z '0' ++ X') by simp, this]
    simp only
    rw [show I ++ '.' :: F ++ 'e' :: (keptSign neg ++ X') = I ++ '.' :: (F ++ 'e' :: (keptSign neg ++ X')) by simp]
    rw [indexOf_append _ (not_mem_of_allDigits hI (by decide))]
    simp only
    have hcond : ¬ (I.length = 1 ∧ (I ++ '.' :: (F ++ 'e' :: (keptSign neg ++ X'))).head? = some '0') := by
      rintro ⟨_, h⟩
      apply hI0
      cases I with
      | nil => exact absurd rfl hIne
      | cons c I' => simpa using h
    rw [if_neg hcond]
    exact branchDot_exp I F _ _ (not_mem_keptSign_append neg hXd (by decide) (by decide))
      (parseSmallInt_signed neg hXd hXne)
  refine ⟨_, hr, ?_⟩
  rw [hXmv]
  unfold dotResult
  simp only
  have hIFd : AllDigits (I ++ F) := allDigits_append.mpr ⟨hI, hF⟩
  have hIFne : I ++ F ≠ [] := by simp [hIne]
  have hIF0 : (I ++ F).head? ≠ some '0' := by
    cases I with
    | nil => exact absurd rfl hIne
    | cons c I' => simpa using hI0
  generalize hex : signedVal neg (digitsMV X) - (F.length : Int) = ex
  split
  · rename_i hsmall
    split
    · rename_i hlen
      -- "1.2e2" => "120"
      have hd : AllDigits (I ++ F ++ List.replicate ex.toNat '0') :=
        allDigits_append.mpr ⟨hIFd, allDigits_replicate_zero _⟩
      refine ⟨⟨I ++ F ++ List.replicate ex.toNat '0', none, none⟩, by simp [DecParts.render, fracText, expText],
        ⟨hd, by simp, by simp⟩, ?_, ?_, ?_⟩
      · have := jsIntOk_of_head hd (by simp [hIne]) (by
          cases I with
          | nil => exact absurd rfl hIne
          | cons c I' => simpa using hI0)
        cases I with
        | nil => exact absurd rfl hIne
        | cons c I' => simpa [DecParts.jsValid] using this
      · rw [mv_eq_dec]
        simp only [Option.getD_none, List.append_nil, List.length_nil, expVal]
        rw [digitsMV_append_zeros, dec_shift]
        congr 1
        omega
      · have h1 : (I ++ '.' :: (F ++ 'e' :: (keptSign neg ++ X'))).length
            ≤ (I ++ '.' :: (F ++ 'e' :: signByte neg :: X)).length := by
          rw [hXs]; cases neg <;> simp [keptSign, signByte] <;> omega
        simp only [List.length_append, List.length_replicate] at hlen h1 ⊢
        omega
    · rw [← hex]; exact hkept
  · rename_i hbig
    split
    · rename_i hlen
      have h1 : (I ++ '.' :: (F ++ 'e' :: (keptSign neg ++ X'))).length
          ≤ (I ++ '.' :: (F ++ 'e' :: signByte neg :: X)).length := by
        rw [hXs]; cases neg <;> simp [keptSign, signByte] <;> omega
      rcases smallIntToBytes_cases ex with ⟨hnn, hs⟩ | ⟨hng, hs⟩
      · -- "1.2e4" => "12e3"
        rw [hs] at hlen ⊢
        obtain ⟨hkd, hkv, hkne, _⟩ := natDigits_spec ex.toNat
        refine ⟨⟨I ++ F, none, some ⟨false, .none, natDigits ex.toNat⟩⟩,
          by simp [DecParts.render, fracText, expText, Sign.text], ⟨hIFd, by simp, ?_⟩, ?_, ?_, ?_⟩
        · intro x hx; simp only [Option.some.injEq] at hx; subst hx; exact ⟨hkd, hkne⟩
        · have := jsIntOk_of_head hIFd hIFne hIF0
          cases I with
          | nil => exact absurd rfl hIne
          | cons c I' => simpa [DecParts.jsValid] using this
        · rw [mv_eq_dec]
          simp only [Option.getD_none, List.append_nil, List.length_nil, expVal_none, hkv]
          congr 1
          omega
        · simp only [List.length_append, List.length_cons] at hlen h1 ⊢
          omega
      · -- "1.2e-7" => "12e-8"
        rw [hs] at hlen ⊢
        obtain ⟨hkd, hkv, hkne, _⟩ := natDigits_spec (-ex).toNat
        refine ⟨⟨I ++ F, none, some ⟨false, .minus, natDigits (-ex).toNat⟩⟩,
          by simp [DecParts.render, fracText, expText, Sign.text], ⟨hIFd, by simp, ?_⟩, ?_, ?_, ?_⟩
        · intro x hx; simp only [Option.some.injEq] at hx; subst hx; exact ⟨hkd, hkne⟩
        · have := jsIntOk_of_head hIFd hIFne hIF0
          cases I with
          | nil => exact absurd rfl hIne
          | cons c I' => simpa [DecParts.jsValid] using this
        · rw [mv_eq_dec]
          simp only [Option.getD_none, List.append_nil, List.length_nil, expVal_minus, hkv]
          congr 1
          omega
        · simp only [List.length_append, List.length_cons] at hlen h1 ⊢
          omega
    · rw [← hex]; exact hkept
open EsbuildModel.NumText EsbuildModel.Spec.Num

/-- all shapes together: on a FormatFloat-shaped text the rewriting never panics and yields a valid
decimal literal with the same value that is not longer -/
theorem rewrite_spec (m : Bool) {t : List Char} {p : DecParts} (hp : parseDec t = some p) (hok : ffOk p = true) :
    ∃ out, rewrite m t = some out ∧ Good t.length p.mv out := by
  obtain ⟨ht, hI, hF, hE⟩ := parseDec_sound hp
  obtain ⟨I, fo, eo⟩ := p
  simp only at hI hF hE
  simp only [ffOk, Bool.and_eq_true] at hok
  obtain ⟨⟨hIok, hfo⟩, heo⟩ := hok
  have hIne : I ≠ [] := by intro h; rw [h] at hIok; simp [jsIntOk] at hIok
  subst ht
  rw [mv_eq_dec]
  cases eo with
  | none =>
    cases fo with
    | none =>
      simp only [DecParts.render, fracText, expText, List.append_nil, Option.getD_none, List.length_nil, expVal]
      have := rewrite_int m hI hIok
      simpa using this
    | some F =>
      have hFd := hF F rfl
      have hFne : F ≠ [] := by simpa using hfo
      have hz : ¬ (I = ['0'] ∧ allZero F = true) := by
        rintro ⟨h1, h2⟩
        simp [h1, h2] at heo
      simp only [DecParts.render, fracText, expText, List.append_nil, Option.getD_some, expVal]
      have := rewrite_frac m hI hFd hIok hFne hz
      simpa using this
  | some x =>
    obtain ⟨up, sg, X⟩ := x
    obtain ⟨hXd, hXne⟩ := hE _ rfl
    simp only [Bool.and_eq_true, Bool.not_eq_true', bne_iff_ne, ne_eq, decide_eq_true_eq] at heo
    obtain ⟨⟨⟨⟨hup, hsg⟩, hI0⟩, hpos⟩, hlt⟩ := heo
    subst hup
    obtain ⟨neg, hneg⟩ : ∃ neg : Bool, sg = (if neg then Sign.minus else Sign.plus) := by
      cases sg with
      | none => exact absurd rfl hsg
      | plus => exact ⟨false, rfl⟩
      | minus => exact ⟨true, rfl⟩
    have hexp : expText (some ⟨false, sg, X⟩) = 'e' :: signByte neg :: X := by
      subst hneg; cases neg <;> simp [expText, Sign.text, signByte]
    have hval : expVal (some ⟨false, sg, X⟩) = signedVal neg (digitsMV X) := by
      subst hneg; cases neg <;> simp [expVal, signedVal]
    cases fo with
    | none =>
      simp only [DecParts.render, fracText, hexp, List.nil_append, Option.getD_none, List.length_nil, hval,
        List.append_nil]
      have := rewrite_exp_int m neg hI hXd hIne hI0 hpos hlt
      simpa using this
    | some F =>
      have hFd := hF F rfl
      simp only [DecParts.render, fracText, hexp, List.cons_append, Option.getD_some, hval]
      exact rewrite_exp_frac m neg hI hFd hXd hIne hI0 hpos hlt

/-- a FormatFloat-shaped text is itself a valid decimal literal -/
theorem MV_of_ffOk {t : List Char} {p : DecParts} (hp : parseDec t = some p) (hok : ffOk p = true) :
    MV t = some p.mv := by
  unfold MV
  rw [hp]
  simp only [ffOk, Bool.and_eq_true] at hok
  have hIok := hok.1.1
  have : p.jsValid = true := by
    unfold DecParts.jsValid
    cases hi : p.int with
    | nil => rw [hi] at hIok; simp [jsIntOk] at hIok
    | cons c I' => rw [hi] at hIok; simpa using hIok
  simp [this]

/-! ### the hex form -/

theorem hexChar_spec : ∀ d, d < 16 → hexVal? (hexChar d) = some d := by decide

/-- hex digits of n, most significant first -/
def hexDigitsOf (n : Nat) : List Char := hexToBytes n []

theorem hexToBytes_acc (n : Nat) : ∀ acc, hexToBytes n acc = hexDigitsOf n ++ acc := by
  induction n using Nat.strongRecOn with
  | _ n ih =>
    intro acc
    unfold hexDigitsOf
    rw [hexToBytes.eq_1 n acc, hexToBytes.eq_1 n []]
    by_cases h : n / 16 = 0
    · simp [h]
    · rw [if_neg h, if_neg h, ih (n / 16) (by omega), ih (n / 16) (by omega) [_]]
      simp

theorem hexDigitsMV?_snoc (l : List Char) (c : Char) :
    hexDigitsMV? (l ++ [c]) = (match hexDigitsMV? l, hexVal? c with
      | some a, some d => some (a * 16 + d)
      | _, _ => none) := by
  unfold hexDigitsMV?
  rw [List.foldl_append]
  simp only [List.foldl_cons, List.foldl_nil]
  generalize List.foldl _ (some 0) l = a
  cases a <;> cases hexVal? c <;> rfl

theorem hexDigitsOf_lt16 {n : Nat} (h : n < 16) : hexDigitsOf n = [hexChar n] := by
  unfold hexDigitsOf
  rw [hexToBytes.eq_1]
  have : n / 16 = 0 := by omega
  simp [this, Nat.mod_eq_of_lt h]

theorem hexDigitsOf_step {n : Nat} (h : 16 ≤ n) : hexDigitsOf n = hexDigitsOf (n / 16) ++ [hexChar (n % 16)] := by
  have h' : ¬ n / 16 = 0 := by omega
  conv => lhs; unfold hexDigitsOf
  rw [hexToBytes.eq_1, if_neg h', hexToBytes_acc]

theorem hexDigitsOf_spec (n : Nat) : hexDigitsMV? (hexDigitsOf n) = some n ∧ hexDigitsOf n ≠ [] := by
  induction n using Nat.strongRecOn with
  | _ n ih =>
    by_cases h : n < 16
    · rw [hexDigitsOf_lt16 h]
      refine ⟨?_, by simp⟩
      have := hexDigitsMV?_snoc [] (hexChar n)
      simp only [List.nil_append] at this
      rw [this, hexChar_spec n h]
      simp [hexDigitsMV?]
    · rw [hexDigitsOf_step (by omega)]
      refine ⟨?_, by simp⟩
      rw [hexDigitsMV?_snoc, (ih (n / 16) (by omega)).1, hexChar_spec (n % 16) (by omega)]
      simp only [Option.some.injEq]
      omega

/-- `MV("0x" ++ hex n) = n` -/
theorem MV_hex (n : Nat) : MV ('0' :: 'x' :: hexDigitsOf n) = some (n : Rat) := by
  obtain ⟨h1, h2⟩ := hexDigitsOf_spec n
  obtain ⟨h, hs, hh⟩ := List.exists_cons_of_ne_nil h2
  have hp : parseDec ('0' :: 'x' :: hexDigitsOf n) = none := by
    unfold parseDec
    have : ('0' :: 'x' :: hexDigitsOf n).dropWhile isDigit = 'x' :: hexDigitsOf n := by
      rw [List.dropWhile_cons_of_pos (by decide), List.dropWhile_cons_of_neg (by decide)]
    rw [this]
    simp [parseExp]
  unfold MV
  rw [hp]
  simp only
  rw [hh] at h1 ⊢
  simp [hexMV?, h1]

end EsbuildModel.NumPrint
