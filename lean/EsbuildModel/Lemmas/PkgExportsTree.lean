import EsbuildModel.Lemmas.PkgExports
/-! PACKAGE_TARGET_RESOLVE on whole trees: condition objects and fallback arrays. -/
namespace EsbuildModel.PkgExports
open EsbuildModel.NodeExports

def optTR : Option (Str × Status) → Option TR
  | none => some .undef
  | some r => toTR r

theorem toTR_undef_iff (r : Str × Status) (s : TR) (h : toTR r = some s) :
    r.2.isUndefined = true ↔ s = .undef := by
  obtain ⟨p, st⟩ := r
  cases st <;> simp [toTR, Status.isUndefined] at h ⊢ <;> subst h <;> simp

mutual
theorem target_ok (strict isImports : Bool) (conds : List Str) (pm : Option Str)
    (hpm : ∀ m, pm = some m → subOK m = true) :
    (t : Target) → wf t = true →
    toTR (PkgExports.targetResolve ['/'] (pm.getD []) pm.isSome isImports conds t) =
      some (NodeExports.targetResolve strict ['/'] pm isImports conds t)
  | .str s, h => target_str strict isImports conds s pm (by simpa [wf] using h) hpm
  | .null, _ => by simp [PkgExports.targetResolve, NodeExports.targetResolve, toTR]
  | .other, _ => by simp [PkgExports.targetResolve, NodeExports.targetResolve, toTR]
  | .arr l, h => by
    have hl : wfList l = true := by simpa [wf] using h
    simp only [PkgExports.targetResolve, NodeExports.targetResolve]
    cases he : l.isEmpty
    · simp only [Bool.false_eq_true, ↓reduceIte]
      exact arr_ok strict isImports conds pm hpm .undefined .undef rfl l hl
    · simp [toTR]
  | .obj l, h => by
    simp only [wf, Bool.and_eq_true, Bool.not_eq_true'] at h
    obtain ⟨⟨hmix, hidx⟩, hl⟩ := h
    simp only [PkgExports.targetResolve, NodeExports.targetResolve, hmix, hidx, Bool.false_eq_true, ↓reduceIte]
    rw [← cond_ok strict isImports conds pm hpm l hl]
    cases hc : PkgExports.conditionLoop ['/'] (pm.getD []) pm.isSome isImports conds l with
    | some r => rfl
    | none =>
      simp only [optTR]
      split <;> rfl

theorem cond_ok (strict isImports : Bool) (conds : List Str) (pm : Option Str)
    (hpm : ∀ m, pm = some m → subOK m = true) :
    (l : List (Str × Target)) → wfProps l = true →
    optTR (PkgExports.conditionLoop ['/'] (pm.getD []) pm.isSome isImports conds l) =
      some (NodeExports.conditionLoop strict ['/'] pm isImports conds l)
  | [], _ => rfl
  | (k, v) :: rest, h => by
    simp only [wfProps, Bool.and_eq_true] at h
    have ihv := target_ok strict isImports conds pm hpm v h.1
    have ihr := cond_ok strict isImports conds pm hpm rest h.2
    simp only [PkgExports.conditionLoop, NodeExports.conditionLoop]
    cases happ : (decide (k = ['d', 'e', 'f', 'a', 'u', 'l', 't']) || conds.contains k)
    · simp only [Bool.false_eq_true, ↓reduceIte]; exact ihr
    · simp only [↓reduceIte]
      have hiff := toTR_undef_iff _ _ ihv
      cases hu : (PkgExports.targetResolve ['/'] (pm.getD []) pm.isSome isImports conds v).2.isUndefined
      · simp only [Bool.false_eq_true, ↓reduceIte, optTR]
        have hne : NodeExports.targetResolve strict ['/'] pm isImports conds v ≠ .undef := by
          intro he; have := hiff.mpr he; rw [hu] at this; cases this
        rw [ihv]
        split
        · rename_i heq; exact absurd heq hne
        · rfl
      · simp only [↓reduceIte]
        have he := hiff.mp hu
        rw [he]
        exact ihr

theorem arr_ok (strict isImports : Bool) (conds : List Str) (pm : Option Str)
    (hpm : ∀ m, pm = some m → subOK m = true) (last : Status) (lastS : TR)
    (hlast : toTR ([], last) = some lastS) :
    (l : List Target) → wfList l = true →
    toTR (PkgExports.arrayLoop ['/'] (pm.getD []) pm.isSome isImports conds last l) =
      some (NodeExports.fallbackLoop strict ['/'] pm isImports conds lastS l)
  | [], _ => by simpa [PkgExports.arrayLoop, NodeExports.fallbackLoop] using hlast
  | t :: rest, h => by
    simp only [wfList, Bool.and_eq_true] at h
    have iht := target_ok strict isImports conds pm hpm t h.1
    simp only [PkgExports.arrayLoop, NodeExports.fallbackLoop]
    generalize hr : PkgExports.targetResolve ['/'] (pm.getD []) pm.isSome isImports conds t = r at iht
    obtain ⟨p, st⟩ := r
    cases st <;> simp only [toTR, Option.some.injEq, reduceCtorEq] at iht <;> rw [← iht] <;>
      simp only [Status.isUndefined, reduceCtorEq, decide_false, decide_true, Bool.or_false, Bool.or_true,
        Bool.false_eq_true, ↓reduceIte, Bool.or_self]
    · exact arr_ok strict isImports conds pm hpm last lastS hlast rest h.2
    · exact arr_ok strict isImports conds pm hpm last lastS hlast rest h.2
    · exact arr_ok strict isImports conds pm hpm .null .null rfl rest h.2
    · rfl
    · rfl
    · rfl
    · rfl
    · exact arr_ok strict isImports conds pm hpm .invalidPackageTarget (.throw .invalidTarget) rfl rest h.2
end

end EsbuildModel.PkgExports
