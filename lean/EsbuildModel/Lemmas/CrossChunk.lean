/-
Helper lemmas for Props/C10CrossChunk.lean: the generic sequencing helpers, membership characterisations of the
sets the model builds, and the shape of `run`'s result.
-/
import EsbuildModel.Spec.CrossChunk
import EsbuildModel.Props.C15
namespace EsbuildModel.CrossChunk

-- ---------------------------------------------------------------- allSome / seqAll / keep

theorem allSome_eq_some {α : Type} : ∀ {l : List (Option α)} {r : List α}, allSome l = some r → l = r.map some
  | [], r, h => by simp [allSome] at h; subst h; rfl
  | none :: _, r, h => by simp [allSome] at h
  | some a :: rest, r, h => by
    simp only [allSome, Option.map_eq_some_iff] at h
    obtain ⟨r', hr', rfl⟩ := h
    simp [allSome_eq_some hr']

theorem allSome_map_some {α : Type} : ∀ (r : List α), allSome (r.map some) = some r
  | [] => rfl
  | a :: r => by simp [allSome, allSome_map_some r]

theorem allSome_map_get {α β : Type} {f : α → Option β} {xs : List α} {r : List β}
    (h : allSome (xs.map f) = some r) {i : Nat} {x : α} (hx : xs[i]? = some x) :
    ∃ y, r[i]? = some y ∧ f x = some y := by
  have := congrArg (fun l => l[i]?) (allSome_eq_some h)
  simp only [List.getElem?_map, hx, Option.map_some] at this
  cases hr : r[i]? with
  | none => simp [hr] at this
  | some y => exact ⟨y, rfl, by simpa [hr] using this⟩

theorem allSome_map_get' {α β : Type} {f : α → Option β} {xs : List α} {r : List β}
    (h : allSome (xs.map f) = some r) {i : Nat} {y : β} (hy : r[i]? = some y) :
    ∃ x, xs[i]? = some x ∧ f x = some y := by
  have := congrArg (fun l => l[i]?) (allSome_eq_some h)
  simp only [List.getElem?_map, hy, Option.map_some] at this
  cases hx : xs[i]? with
  | none => simp [hx] at this
  | some x => exact ⟨x, rfl, by simpa [hx] using this⟩

theorem allSome_map_length {α β : Type} {f : α → Option β} {xs : List α} {r : List β}
    (h : allSome (xs.map f) = some r) : r.length = xs.length := by
  have := congrArg List.length (allSome_eq_some h)
  simpa using this.symm

theorem allSome_map_mem {α β : Type} {f : α → Option β} {xs : List α} {r : List β}
    (h : allSome (xs.map f) = some r) {y : β} : y ∈ r ↔ ∃ x ∈ xs, f x = some y := by
  have h' := allSome_eq_some h
  constructor
  · intro hy
    have : some y ∈ r.map some := List.mem_map.mpr ⟨y, hy, rfl⟩
    rw [← h'] at this
    obtain ⟨x, hx, hfx⟩ := List.mem_map.mp this
    exact ⟨x, hx, hfx⟩
  · rintro ⟨x, hx, hfx⟩
    have : some y ∈ xs.map f := List.mem_map.mpr ⟨x, hx, hfx⟩
    rw [h'] at this
    obtain ⟨y', hy', hyy⟩ := List.mem_map.mp this
    cases hyy
    exact hy'

theorem seqAll_map_mem {α β : Type} {f : α → Option (List β)} {xs : List α} {r : List β}
    (h : seqAll (xs.map f) = some r) {y : β} : y ∈ r ↔ ∃ x ∈ xs, ∃ l, f x = some l ∧ y ∈ l := by
  simp only [seqAll, Option.map_eq_some_iff] at h
  obtain ⟨ls, hls, rfl⟩ := h
  simp only [List.mem_flatten]
  constructor
  · rintro ⟨l, hl, hy⟩
    obtain ⟨x, hx, hfx⟩ := (allSome_map_mem hls).mp hl
    exact ⟨x, hx, l, hfx, hy⟩
  · rintro ⟨x, hx, l, hfx, hy⟩
    exact ⟨l, (allSome_map_mem hls).mpr ⟨x, hx, hfx⟩, hy⟩

theorem insertBy_perm {α : Type} (le : α → α → Bool) (a : α) : ∀ l : List α, (insertBy le a l).Perm (a :: l)
  | [] => List.Perm.refl _
  | b :: l => by
    simp only [insertBy]
    split
    · exact List.Perm.refl _
    · exact ((insertBy_perm le a l).cons b).trans (List.Perm.swap a b l)

theorem sortBy_perm {α : Type} (le : α → α → Bool) : ∀ l : List α, (sortBy le l).Perm l
  | [] => List.Perm.refl _
  | a :: l => (insertBy_perm le a _).trans ((sortBy_perm le l).cons a)

theorem mem_sortBy {α : Type} {le : α → α → Bool} {l : List α} {a : α} : a ∈ sortBy le l ↔ a ∈ l :=
  (sortBy_perm le l).mem_iff

theorem mem_keep {l : List (Option Ref)} {s : Ref} : s ∈ keep l ↔ some s ∈ l := by
  simp [keep, List.mem_filterMap]

-- ---------------------------------------------------------------- phase 1

theorem mem_liveParts {f : File} {p : Part} : p ∈ liveParts f ↔ p ∈ f.parts ∧ p.live = true := by
  simp [liveParts]

theorem mem_partImports {g : G} {f : File} {p : Part} {l : List Ref} (h : partImports g f p = some l) {s : Ref} :
    s ∈ l ↔ ∃ u ∈ p.uses, resolveUse g f u = some (some s) := by
  simp only [partImports, Option.map_eq_some_iff] at h
  obtain ⟨rs, hrs, rfl⟩ := h
  rw [mem_keep, allSome_map_mem hrs]

theorem mem_fileImports {g : G} {src : Nat} {l : List Ref} (h : fileImports g src = some l) {s : Ref} :
    s ∈ l ↔ ∃ f, g.file? src = some f ∧ f.isJS = true ∧ ∃ p ∈ f.parts, p.live = true ∧
      ∃ u ∈ p.uses, resolveUse g f u = some (some s) := by
  unfold fileImports at h
  cases hf : g.file? src with
  | none => simp [hf] at h
  | some f =>
    simp only [hf] at h
    by_cases hjs : f.isJS = true
    · simp only [hjs, if_true] at h
      rw [seqAll_map_mem h]
      constructor
      · rintro ⟨p, hp, l', hl', hs⟩
        rw [mem_liveParts] at hp
        exact ⟨f, rfl, hjs, p, hp.1, hp.2, (mem_partImports hl').mp hs⟩
      · rintro ⟨f', hf', _, p, hp, hlive, hu⟩
        cases hf'
        have hp' : p ∈ liveParts f := mem_liveParts.mpr ⟨hp, hlive⟩
        -- the part's imports exist because the whole sequence succeeded
        simp only [seqAll, Option.map_eq_some_iff] at h
        obtain ⟨ls, hls, _⟩ := h
        obtain ⟨i, hi⟩ := List.getElem?_of_mem hp'
        obtain ⟨l', _, hl'⟩ := allSome_map_get hls hi
        exact ⟨p, hp', l', hl', (mem_partImports hl').mpr hu⟩
    · simp only [hjs] at h
      simp at h
      subst h
      simp [hjs]

theorem mem_entryImports {g : G} {c : Chunk} {l : List Ref} (h : entryImports g c = some l) {s : Ref} :
    s ∈ l ↔ EntryNeeds g c s := by
  unfold entryImports at h
  unfold EntryNeeds
  by_cases he : c.isEntry = true
  · simp only [he, Bool.not_true, Bool.false_eq_true, if_false] at h
    cases hf : g.file? c.entrySrc with
    | none => simp [hf] at h
    | some f =>
      simp only [hf] at h
      by_cases hjs : f.isJS = true
      · simp only [hjs, Bool.not_true, Bool.false_eq_true, if_false, Option.map_eq_some_iff] at h
        obtain ⟨ex, hex, rfl⟩ := h
        have hexm : s ∈ ex ↔ (f.wrap ≠ 1 ∧ ∃ e ∈ f.exports, resolveExport g e = some s) := by
          by_cases hw : f.wrap = 1
          · simp [hw] at hex; subst hex; simp [hw]
          · have : (f.wrap != 1) = true := by simpa using hw
            simp only [this, if_true] at hex
            rw [allSome_map_mem hex]
            simp [hw]
        simp only [List.mem_append, hexm, he, true_and]
        constructor
        · rintro ((h1 | h2) | h3)
          · exact ⟨f, rfl, hjs, Or.inl h1⟩
          · by_cases hfo : f.force = true
            · simp [hfo] at h2; exact ⟨f, rfl, hjs, Or.inr (Or.inl ⟨hfo, h2⟩)⟩
            · simp [hfo] at h2
          · by_cases hw : f.wrap = 0
            · simp [hw] at h3
            · have : (f.wrap != 0) = true := by simpa using hw
              simp [this] at h3; exact ⟨f, rfl, hjs, Or.inr (Or.inr ⟨hw, h3⟩)⟩
        · rintro ⟨f', hf', _, h1 | ⟨hfo, h2⟩ | ⟨hw, h3⟩⟩
          · cases hf'; exact Or.inl (Or.inl h1)
          · cases hf'; subst h2; exact Or.inl (Or.inr (by simp [hfo]))
          · cases hf'; subst h3
            have : (f.wrap != 0) = true := by simpa using hw
            exact Or.inr (by simp [this])
      · simp [hjs] at h
        subst h
        simp [hjs]
  · simp [he] at h
    subst h
    simp [he]

theorem mem_chunkImports {g : G} {c : Chunk} {imps : List Ref} (h : chunkImports g c = some imps) {s : Ref} :
    s ∈ imps ↔ Needs g c s := by
  unfold chunkImports at h
  cases ha : seqAll (c.files.map (fileImports g)) with
  | none => simp [ha] at h
  | some a =>
    cases hb : entryImports g c with
    | none => simp [ha, hb] at h
    | some b =>
      simp only [ha, hb, Option.some.injEq] at h
      subst h
      rw [List.mem_eraseDups, List.mem_append, mem_entryImports hb, seqAll_map_mem ha]
      unfold Needs PartNeeds LivePartOf
      constructor
      · rintro (⟨src, hsrc, l, hl, hs⟩ | h2)
        · obtain ⟨f, hf, hjs, p, hp, hlive, u, hu, hr⟩ := (mem_fileImports hl).mp hs
          exact Or.inl ⟨f, p, u, ⟨src, hsrc, hf, hjs, hp, hlive⟩, hu, hr⟩
        · exact Or.inr h2
      · rintro (⟨f, p, u, ⟨src, hsrc, hf, hjs, hp, hlive⟩, hu, hr⟩ | h2)
        · left
          simp only [seqAll, Option.map_eq_some_iff] at ha
          obtain ⟨ls, hls, _⟩ := ha
          obtain ⟨i, hi⟩ := List.getElem?_of_mem hsrc
          obtain ⟨l, _, hl⟩ := allSome_map_get hls hi
          exact ⟨src, hsrc, l, hl, (mem_fileImports hl).mpr ⟨f, hf, hjs, p, hp, hlive, u, hu, hr⟩⟩
        · exact Or.inr h2

-- ---------------------------------------------------------------- declarations

theorem mem_chunkDeclared {g : G} {c : Chunk} {s : Ref} : s ∈ chunkDeclared g c ↔ Declares g c s := by
  unfold chunkDeclared Declares LivePartOf
  simp only [List.mem_flatMap]
  constructor
  · rintro ⟨src, hsrc, hs⟩
    cases hf : g.file? src with
    | none => simp [hf] at hs
    | some f =>
      simp only [hf] at hs
      by_cases hjs : f.isJS = true
      · simp only [hjs, if_true, List.mem_flatMap] at hs
        obtain ⟨p, hp, hs⟩ := hs
        rw [mem_liveParts] at hp
        exact ⟨f, p, ⟨src, hsrc, hf, hjs, hp.1, hp.2⟩, hs⟩
      · simp [hjs] at hs
  · rintro ⟨f, p, ⟨src, hsrc, hf, hjs, hp, hlive⟩, hs⟩
    refine ⟨src, hsrc, ?_⟩
    simp only [hf, hjs, if_true, List.mem_flatMap]
    exact ⟨p, mem_liveParts.mpr ⟨hp, hlive⟩, hs⟩

theorem declChunk_some {g : G} {r : Ref} {B : Nat} (h : declChunk g r = some B) :
    ∃ cB, g.chunks[B]? = some cB ∧ Declares g cB r := by
  unfold declChunk at h
  simp only [Option.map_eq_some_iff] at h
  obtain ⟨⟨c, i⟩, hlast, rfl⟩ := h
  have hm := List.mem_of_getLast? hlast
  simp only [List.mem_filter, List.contains_iff_mem] at hm
  refine ⟨c, ?_, mem_chunkDeclared.mp hm.2⟩
  have := List.mem_zipIdx_iff_getElem?.mp hm.1
  simpa using this

theorem declChunk_of_declares {g : G} (hu : DeclUnique g) {r : Ref} {B : Nat} {cB : Chunk}
    (hB : g.chunks[B]? = some cB) (hd : Declares g cB r) : declChunk g r = some B := by
  have hmem : (cB, B) ∈ g.chunks.zipIdx.filter (fun ci => (chunkDeclared g ci.1).contains r) := by
    simp only [List.mem_filter, List.contains_iff_mem]
    exact ⟨List.mem_zipIdx_iff_getElem?.mpr (by simpa using hB), mem_chunkDeclared.mpr hd⟩
  cases h : declChunk g r with
  | none =>
    unfold declChunk at h
    simp only [Option.map_eq_none_iff, List.getLast?_eq_none_iff] at h
    rw [h] at hmem
    simp at hmem
  | some B' =>
    obtain ⟨cB', hB', hd'⟩ := declChunk_some h
    rw [hu B' B cB' cB r hB' hB hd' hd]

theorem mem_itemsFor {g : G} {imps : List Ref} {ci o : Nat} {s : Ref} :
    s ∈ itemsFor g imps ci o ↔ o ≠ ci ∧ s ∈ imps ∧ declChunk g s = some o := by
  unfold itemsFor
  by_cases h : o = ci
  · simp [h]
  · simp [h, List.mem_filter]

-- ---------------------------------------------------------------- the shape of run's result

/-- the intermediate results `run` computes -/
structure RunData (g : G) (R : List ChunkOut) where
  allImps : List (List Ref)
  allDyn : List (List Nat)
  allTail : List (List TailTok)
  allEx : List (List (Ref × Name))
  hImps : allSome (g.chunks.map (chunkImports g)) = some allImps
  hDyn : allSome (g.chunks.zipIdx.map fun x => chunkDyn g x.1 x.2) = some allDyn
  hTail : allSome (g.chunks.map (chunkTail g)) = some allTail
  hEx : allSome ((List.range g.chunks.length).map (exportItems g allImps)) = some allEx
  hR : R = (g.chunks.zip (allImps.zip (allDyn.zip allTail))).zipIdx.map fun x =>
        mkOut g allEx x.1.1 x.1.2.1 x.1.2.2.1 x.1.2.2.2 x.2

theorem run_data {g : G} {R : List ChunkOut} (h : run g = some R) : Nonempty (RunData g R) := by
  unfold run at h
  cases h1 : allSome (g.chunks.map (chunkImports g)) with
  | none => simp [h1] at h
  | some allImps =>
    cases h2 : allSome (g.chunks.zipIdx.map fun x => chunkDyn g x.1 x.2) with
    | none => simp [h1, h2] at h
    | some allDyn =>
      cases h3 : allSome (g.chunks.map (chunkTail g)) with
      | none => simp [h1, h2, h3] at h
      | some allTail =>
        simp only [h1, h2, h3] at h
        cases h4 : allSome ((List.range g.chunks.length).map (exportItems g allImps)) with
        | none => simp [h4] at h
        | some allEx =>
          simp only [h4, Option.some.injEq] at h
          exact ⟨⟨allImps, allDyn, allTail, allEx, h1, h2, h3, h4, h.symm⟩⟩

theorem RunData.len_imps {g : G} {R} (d : RunData g R) : d.allImps.length = g.chunks.length := by
  simpa using allSome_map_length d.hImps
theorem RunData.len_dyn {g : G} {R} (d : RunData g R) : d.allDyn.length = g.chunks.length := by
  simpa using allSome_map_length d.hDyn
theorem RunData.len_tail {g : G} {R} (d : RunData g R) : d.allTail.length = g.chunks.length := by
  simpa using allSome_map_length d.hTail
theorem RunData.len_ex {g : G} {R} (d : RunData g R) : d.allEx.length = g.chunks.length := by
  simpa using allSome_map_length d.hEx

/-- chunk `A`'s output, given the chunk -/
theorem RunData.out_of_chunk {g : G} {R} (d : RunData g R) {A : Nat} {cA : Chunk} (hA : g.chunks[A]? = some cA) :
    ∃ imps dyn tail, d.allImps[A]? = some imps ∧ chunkImports g cA = some imps ∧
      d.allTail[A]? = some tail ∧ chunkTail g cA = some tail ∧
      R[A]? = some (mkOut g d.allEx cA imps dyn tail A) := by
  obtain ⟨imps, hi, hci⟩ := allSome_map_get d.hImps hA
  obtain ⟨tail, ht, hct⟩ := allSome_map_get d.hTail hA
  have hlt : A < g.chunks.length := (List.getElem?_eq_some_iff.mp hA).1
  have hdl : A < d.allDyn.length := by rw [d.len_dyn]; exact hlt
  refine ⟨imps, d.allDyn[A], tail, hi, hci, ht, hct, ?_⟩
  have e := congrArg (fun l => l[A]?) d.hR
  rw [e, List.getElem?_map, List.getElem?_zipIdx]
  have : (g.chunks.zip (d.allImps.zip (d.allDyn.zip d.allTail)))[A]? = some (cA, imps, d.allDyn[A], tail) := by
    rw [List.getElem?_zip_eq_some]
    refine ⟨hA, ?_⟩
    rw [List.getElem?_zip_eq_some]
    refine ⟨hi, ?_⟩
    rw [List.getElem?_zip_eq_some]
    exact ⟨by simp [hdl], ht⟩
  simp [this]

/-- chunk `A`'s output, given the output -/
theorem RunData.chunk_of_out {g : G} {R} (d : RunData g R) {A : Nat} {o : ChunkOut} (hA : R[A]? = some o) :
    ∃ cA imps dyn tail, g.chunks[A]? = some cA ∧ d.allImps[A]? = some imps ∧ chunkImports g cA = some imps ∧
      d.allTail[A]? = some tail ∧ chunkTail g cA = some tail ∧ o = mkOut g d.allEx cA imps dyn tail A := by
  have hlen : R.length ≤ g.chunks.length := by
    have e := congrArg List.length d.hR
    simp only [List.length_map, List.length_zipIdx, List.length_zip] at e; omega
  have hlt : A < g.chunks.length := by
    have := (List.getElem?_eq_some_iff.mp hA).1; omega
  obtain ⟨imps, dyn, tail, hi, hci, ht, hct, hR⟩ := d.out_of_chunk (List.getElem?_eq_getElem hlt)
  rw [hR] at hA
  cases hA
  exact ⟨_, imps, dyn, tail, List.getElem?_eq_getElem hlt, hi, hci, ht, hct, rfl⟩

theorem RunData.ex_get {g : G} {R} (d : RunData g R) {B : Nat} (hB : B < g.chunks.length) :
    ∃ ex, d.allEx[B]? = some ex ∧ exportItems g d.allImps B = some ex := by
  have : (List.range g.chunks.length)[B]? = some B := by simp [hB]
  obtain ⟨ex, h1, h2⟩ := allSome_map_get d.hEx this
  exact ⟨ex, h1, h2⟩

-- ---------------------------------------------------------------- export sets

theorem mem_exportSet {g : G} {allImps : List (List Ref)} {o : Nat} {s : Ref} :
    s ∈ exportSet g allImps o ↔ ∃ A cA imps, g.chunks[A]? = some cA ∧ allImps[A]? = some imps ∧ cA.js = true ∧
      s ∈ itemsFor g imps A o := by
  unfold exportSet
  simp only [List.mem_eraseDups, List.mem_flatMap, List.mem_filter]
  constructor
  · rintro ⟨⟨⟨c, imps⟩, A⟩, ⟨hz, hjs⟩, hs⟩
    have := List.mem_zipIdx_iff_getElem?.mp hz
    simp only [List.getElem?_zip_eq_some] at this
    exact ⟨A, c, imps, this.1, this.2, hjs, hs⟩
  · rintro ⟨A, cA, imps, hA, hi, hjs, hs⟩
    refine ⟨((cA, imps), A), ⟨List.mem_zipIdx_iff_getElem?.mpr ?_, hjs⟩, hs⟩
    simp only [List.getElem?_zip_eq_some]
    exact ⟨hA, hi⟩

theorem allSome_map_proj {α β : Type} {f : α → Option β} {p : β → α} (hp : ∀ x y, f x = some y → p y = x) :
    ∀ {xs : List α} {r : List β}, allSome (xs.map f) = some r → r.map p = xs
  | [], r, h => by simp [allSome] at h; subst h; rfl
  | x :: xs, r, h => by
    simp only [List.map_cons] at h
    cases hfx : f x with
    | none => simp [hfx, allSome] at h
    | some y =>
      simp only [hfx, allSome, Option.map_eq_some_iff] at h
      obtain ⟨r', hr', rfl⟩ := h
      simp [hp x y hfx, allSome_map_proj hp hr']

theorem sortedExports_perm {g : G} {l l' : List Ref} (h : sortedExports g l = some l') : l'.Perm l := by
  simp only [sortedExports, Option.map_eq_some_iff] at h
  obtain ⟨ks, hks, rfl⟩ := h
  have hproj : ks.map (·.2.2) = l := by
    apply allSome_map_proj (f := stableKey g) _ hks
    intro x y hxy
    simp only [stableKey, Option.map_eq_some_iff] at hxy
    obtain ⟨f, _, rfl⟩ := hxy
    rfl
  rw [← hproj]
  exact (sortBy_perm _ ks).map _

theorem nodup_eraseDups {α : Type} [BEq α] [LawfulBEq α] : ∀ (l : List α), l.eraseDups.Nodup := by
  intro l
  generalize hn : l.length = n
  induction n using Nat.strongRecOn generalizing l with
  | _ n ih =>
    cases l with
    | nil => simp
    | cons a as =>
      rw [List.eraseDups_cons, List.nodup_cons]
      constructor
      · rw [List.mem_eraseDups]
        simp
      · have hl : (List.filter (fun b => b != a) as).length < n := by
          have := List.length_filter_le (fun b => b != a) as
          simp at hn; omega
        exact ih _ hl _ rfl

theorem exportSet_nodup (g : G) (allImps : List (List Ref)) (o : Nat) : (exportSet g allImps o).Nodup :=
  nodup_eraseDups _

-- ---------------------------------------------------------------- export aliases

theorem findFree_spec {used : List (Name × Nat)} {pre : Name} :
    ∀ {fuel tries : Nat} {a : Name} {t : Nat}, findFree used pre fuel tries = some (a, t) → used.lookup a = none
  | 0, _, _, _, h => by simp [findFree] at h
  | fuel + 1, tries, a, t, h => by
    simp only [findFree] at h
    split at h
    · exact findFree_spec h
    · rename_i hfree
      simp only [Option.some.injEq, Prod.mk.injEq] at h
      rw [← h.1]
      cases hl : List.lookup (pre ++ dec (tries + 1)) used with
      | none => rfl
      | some v => simp [hl] at hfree

theorem nextRenamed_spec {used : List (Name × Nat)} {name a : Name} {used' : List (Name × Nat)}
    (h : nextRenamed used name = some (a, used')) : used.lookup a = none ∧ ∃ t, used' = (a, t) :: used := by
  unfold nextRenamed at h
  split at h
  · simp only [Option.map_eq_some_iff, Prod.mk.injEq] at h
    obtain ⟨⟨c, t⟩, hf, rfl, rfl⟩ := h
    exact ⟨findFree_spec hf, t, rfl⟩
  · rename_i hnone
    simp only [Option.some.injEq, Prod.mk.injEq] at h
    obtain ⟨rfl, rfl⟩ := h
    exact ⟨hnone, 1, rfl⟩

theorem renameAll_spec {g : G} : ∀ {l : List Ref} {used : List (Name × Nat)} {ex : List (Ref × Name)},
    renameAll g used l = some ex →
      ex.map (·.1) = l ∧ (ex.map (·.2)).Nodup ∧ ∀ a ∈ ex.map (·.2), used.lookup a = none
  | [], used, ex, h => by simp [renameAll] at h; subst h; simp
  | r :: rest, used, ex, h => by
    simp only [renameAll] at h
    split at h
    · simp at h
    · rename_i s hs
      split at h
      · simp at h
      · rename_i au hau
        simp only [Option.map_eq_some_iff] at h
        obtain ⟨ex', hex', rfl⟩ := h
        obtain ⟨h1, h2, h3⟩ := renameAll_spec hex'
        obtain ⟨hfree, t, hu⟩ := nextRenamed_spec (a := au.1) (used' := au.2) (by simpa using hau)
        refine ⟨by simp [h1], ?_, ?_⟩
        · simp only [List.map_cons, List.nodup_cons]
          refine ⟨?_, h2⟩
          intro hmem
          have := h3 _ hmem
          rw [hu] at this
          simp at this
        · intro a ha
          simp only [List.map_cons, List.mem_cons] at ha
          rcases ha with rfl | ha
          · exact hfree
          · have := h3 _ ha
            rw [hu, List.lookup_cons] at this
            split at this
            · simp at this
            · exact this

theorem defaultAlphabet_ok : defaultAlphabet.head.Nodup ∧ defaultAlphabet.tail.Nodup ∧
    0 < defaultAlphabet.head.length ∧ 0 < defaultAlphabet.tail.length := by
  decide

theorem minName_injective {i j : Nat} (h : minName i = minName j) : i = j := by
  unfold minName at h
  have hinj : ∀ {a b : List Char}, a.map Char.toNat = b.map Char.toNat → a = b := by
    intro a b hab
    exact (List.map_inj_right (fun x y hxy => Char.toNat_inj.mp hxy)).mp hab
  obtain ⟨h1, h2, h3, h4⟩ := defaultAlphabet_ok
  exact Rename.name_injective defaultAlphabet h1 h2 h3 h4 i j (hinj h)


theorem assignAliases_spec {g : G} {l : List Ref} {ex : List (Ref × Name)} (h : assignAliases g l = some ex) :
    ex.map (·.1) = l ∧ (ex.map (·.2)).Nodup := by
  unfold assignAliases at h
  split at h
  · simp only [Option.some.injEq] at h
    subst h
    constructor
    · simp only [List.map_map]
      exact List.zipIdx_map_fst 0 l
    · simp only [List.map_map]
      have : ((fun x : Ref × Name => x.2) ∘ fun x : Ref × Nat => (x.1, minName x.2)) = minName ∘ Prod.snd := rfl
      rw [this, ← List.map_map, List.zipIdx_map_snd]
      exact List.Pairwise.map minName (fun a b hab hm => hab (minName_injective hm)) (List.nodup_range' (step := 1))
  · have := renameAll_spec h
    exact ⟨this.1, this.2.1⟩

/-- what `exportItems` yields for a JavaScript chunk -/
theorem exportItems_spec {g : G} {allImps : List (List Ref)} {B : Nat} {cB : Chunk} {ex : List (Ref × Name)}
    (hB : g.chunks[B]? = some cB) (h : exportItems g allImps B = some ex) :
    (ex.map (·.2)).Nodup ∧ (ex.map (·.1)).Nodup ∧
      (cB.js = true → ∀ s, s ∈ ex.map (·.1) ↔ s ∈ exportSet g allImps B) ∧ (cB.js = false → ex = []) := by
  unfold exportItems at h
  simp only [hB] at h
  by_cases hjs : cB.js = true
  · simp only [hjs, if_true, Option.bind_eq_some_iff] at h
    obtain ⟨l', hl', hex⟩ := h
    obtain ⟨h1, h2⟩ := assignAliases_spec hex
    have hperm := sortedExports_perm hl'
    refine ⟨h2, ?_, ?_, by simp [hjs]⟩
    · rw [h1]; exact hperm.symm.nodup (exportSet_nodup _ _ _)
    · intro _ s; rw [h1]; exact hperm.mem_iff
  · simp only [hjs] at h
    simp at h
    subst h
    simp [hjs]

theorem aliasOf_spec {ex : List (Ref × Name)} (hn : (ex.map (·.1)).Nodup) {s : Ref} {a : Name} (h : (s, a) ∈ ex) :
    aliasOf ex s = a := by
  unfold aliasOf
  induction ex with
  | nil => simp at h
  | cons x xs ih =>
    obtain ⟨k, b⟩ := x
    simp only [List.map_cons, List.nodup_cons] at hn
    simp only [List.lookup_cons]
    rcases List.mem_cons.mp h with heq | hx
    · cases heq; simp
    · have : (s == k) = false := by
        simp only [beq_eq_false_iff_ne, ne_eq]
        rintro rfl
        exact hn.1 (List.mem_map.mpr ⟨(s, a), hx, rfl⟩)
      simp only [this]
      exact ih hn.2 hx

theorem aliasOf_mem {ex : List (Ref × Name)} {s : Ref} (h : s ∈ ex.map (·.1)) : (s, aliasOf ex s) ∈ ex := by
  unfold aliasOf
  induction ex with
  | nil => simp at h
  | cons x xs ih =>
    obtain ⟨k, b⟩ := x
    simp only [List.lookup_cons]
    by_cases hx : s = k
    · subst hx; simp
    · have : (s == k) = false := by simpa using hx
      simp only [this]
      simp only [List.map_cons, List.mem_cons, hx, false_or] at h
      exact List.mem_cons_of_mem _ (ih h)

-- ---------------------------------------------------------------- import statements

theorem mem_importKeys {g : G} {c : Chunk} {imps : List Ref} {ci o : Nat} :
    o ∈ importKeys g c imps ci ↔ o < g.chunks.length ∧ (itemsFor g imps ci o ≠ [] ∨ entryKey g c ci o = true) := by
  simp [importKeys, List.mem_filter]

theorem mem_importsOf {g : G} {allEx : List (List (Ref × Name))} {c : Chunk} {imps : List Ref} {ci B : Nat}
    {items : List (Ref × Name)} (h : (B, items) ∈ importsOf g allEx c imps ci) :
    B ∈ importKeys g c imps ci ∧
      ∀ s a, (s, a) ∈ items ↔ s ∈ itemsFor g imps ci B ∧ a = aliasOf (allEx.getD B []) s := by
  simp only [importsOf, List.mem_map, Prod.mk.injEq] at h
  obtain ⟨o, ho, rfl, rfl⟩ := h
  refine ⟨ho, fun s a => ?_⟩
  rw [mem_sortBy]
  simp only [List.mem_map, Prod.mk.injEq]
  constructor
  · rintro ⟨r, hr, rfl, rfl⟩; exact ⟨hr, rfl⟩
  · rintro ⟨hs, rfl⟩; exact ⟨s, hs, rfl, rfl⟩

theorem importsOf_of_key {g : G} {allEx : List (List (Ref × Name))} {c : Chunk} {imps : List Ref} {ci B : Nat}
    (h : B ∈ importKeys g c imps ci) : ∃ items, (B, items) ∈ importsOf g allEx c imps ci := by
  simp only [importsOf, List.mem_map, Prod.mk.injEq]
  exact ⟨_, B, h, rfl, rfl⟩

theorem mkOut_js {g : G} {allEx} {c : Chunk} {imps dyn tail} {ci : Nat} (h : c.js = true) :
    (mkOut g allEx c imps dyn tail ci).imports = importsOf g allEx c imps ci ∧
    (mkOut g allEx c imps dyn tail ci).exports = allEx.getD ci [] ∧
    (mkOut g allEx c imps dyn tail ci).cci =
      dyn.map (fun o => (true, o)) ++ (importKeys g c imps ci).map (fun o => (false, o)) ∧
    (mkOut g allEx c imps dyn tail ci).tail = tail := by
  simp [mkOut, h]

theorem mkOut_nonjs {g : G} {allEx} {c : Chunk} {imps dyn tail} {ci : Nat} (h : c.js = false) :
    (mkOut g allEx c imps dyn tail ci).imports = [] ∧ (mkOut g allEx c imps dyn tail ci).exports = [] ∧
    (mkOut g allEx c imps dyn tail ci).cci = [] ∧ (mkOut g allEx c imps dyn tail ci).tail = tail := by
  simp [mkOut, h]

theorem getD_of_get {α : Type} {l : List α} {i : Nat} {x d : α} (h : l[i]? = some x) : l.getD i d = x := by
  simp [List.getD, h]

-- ---------------------------------------------------------------- the tail of an entry chunk

theorem mem_tailNeeds {l : List TailTok} {s : Ref} :
    s ∈ tailNeeds l ↔ (TailTok.ref s ∈ l ∨ ∃ a, TailTok.item s a ∈ l) := by
  induction l with
  | nil => simp [tailNeeds]
  | cons t rest ih =>
    cases t with
    | ref r =>
      simp only [tailNeeds, List.mem_cons, ih, TailTok.ref.injEq, reduceCtorEq, false_or]
      constructor
      · rintro (h | h | h)
        · exact Or.inl (Or.inl h)
        · exact Or.inl (Or.inr h)
        · exact Or.inr h
      · rintro ((h | h) | h)
        · exact Or.inl h
        · exact Or.inr (Or.inl h)
        · exact Or.inr (Or.inr h)
    | item r a =>
      simp only [tailNeeds, List.mem_cons, ih, TailTok.item.injEq, reduceCtorEq, false_or]
      constructor
      · rintro (h | h | ⟨a', h⟩)
        · exact Or.inr ⟨a, Or.inl ⟨h, rfl⟩⟩
        · exact Or.inl h
        · exact Or.inr ⟨a', Or.inr h⟩
      · rintro (h | ⟨a', (⟨h, _⟩ | h)⟩)
        · exact Or.inr (Or.inl h)
        · exact Or.inl h
        · exact Or.inr (Or.inr ⟨a', h⟩)
    | decl r => simp [tailNeeds, ih]
    | itemLocal r a => simp [tailNeeds, ih]

/-- the tail's export clause item for an alias and the cross-chunk computation's view of the same alias agree on
the symbol -/
theorem tailItem_resolve {g : G} {f : File} {i : Nat} {e : Name × Nat × Ref} {it : List TailTok × TailTok}
    (h : tailItem g f i e = some it) :
    ∃ t, resolveExport g e = some t ∧
      ((it.1 = [] ∧ it.2 = .item t e.1) ∨
       (∃ tmp, f.copies[i]? = some tmp ∧ it.1 = [.decl tmp, .ref t] ∧ it.2 = .itemLocal tmp e.1)) := by
  unfold tailItem at h
  unfold resolveExport
  cases hef : g.file? e.2.1 with
  | none => simp [hef] at h
  | some ef =>
    simp only [hef] at h ⊢
    by_cases hjs : ef.isJS = true
    · simp only [hjs, Bool.not_true, Bool.false_eq_true, if_false] at h ⊢
      generalize boundTarget ef e.2.2 = t at h ⊢
      cases hts : g.sym? t with
      | none => simp [hts] at h
      | some tsym =>
        simp only [hts] at h ⊢
        cases hns : tsym.ns with
        | none =>
          simp only [hns, Option.some.injEq] at h
          subst h
          exact ⟨t, by simp [nsTarget, hns], Or.inl ⟨rfl, rfl⟩⟩
        | some n =>
          simp only [hns] at h
          cases hc : f.copies[i]? with
          | none => simp [hc] at h
          | some tmp =>
            simp only [hc, Option.some.injEq] at h
            subst h
            exact ⟨n, by simp [nsTarget, hns], Or.inr ⟨tmp, rfl, rfl, rfl⟩⟩
    · simp [hjs] at h

/-- everything the tail of an entry chunk mentions is among what `computeCrossChunkDependencies` records for the
entry point; and a local export item is declared by the tail -/
theorem chunkTail_needs {g : G} {c : Chunk} {tail : List TailTok} (h : chunkTail g c = some tail) :
    (∀ s, s ∈ tailNeeds tail → EntryNeeds g c s) ∧
    (∀ r a, TailTok.itemLocal r a ∈ tail → TailTok.decl r ∈ tail) := by
  unfold chunkTail at h
  by_cases hce : (c.js && c.isEntry) = true
  · simp only [hce, if_true] at h
    have hentry : c.isEntry = true := by simp at hce; exact hce.2
    cases hf : g.file? c.entrySrc with
    | none => simp [hf] at h
    | some f =>
      simp only [hf] at h
      by_cases hjs : f.isJS = true
      · simp only [hjs, if_true] at h
        unfold tailOf at h
        by_cases hw : f.wrap = 1
        · simp only [hw, beq_self_eq_true, if_true, Option.some.injEq] at h
          subst h
          constructor
          · intro s hs
            simp only [tailNeeds, List.mem_singleton] at hs
            exact ⟨hentry, f, hf, hjs, Or.inr (Or.inr ⟨by omega, hs⟩)⟩
          · intro r a hm; simp at hm
        · have hw' : (f.wrap == 1) = false := by simpa using hw
          simp only [hw', Bool.false_eq_true, if_false, Option.map_eq_some_iff] at h
          obtain ⟨its, hits, rfl⟩ := h
          have hit : ∀ it ∈ its, ∃ e ∈ f.exports, ∃ i, tailItem g f i e = some it := by
            intro it hit
            obtain ⟨x, hx, hxe⟩ := (allSome_map_mem hits).mp hit
            exact ⟨x.1, List.fst_mem_of_mem_zipIdx hx, x.2, hxe⟩
          constructor
          · intro s hs
            refine ⟨hentry, f, hf, hjs, ?_⟩
            rw [mem_tailNeeds] at hs
            simp only [List.mem_append, List.mem_flatMap, List.mem_map] at hs
            rcases hs with ((hpre | ⟨it, hi, hm⟩) | ⟨it, hi, hm⟩) | ⟨a, ((hpre | ⟨it, hi, hm⟩) | ⟨it, hi, hm⟩)⟩
            · by_cases hw2 : f.wrap = 2
              · simp [hw2] at hpre; exact Or.inr (Or.inr ⟨by omega, hpre⟩)
              · have : (f.wrap == 2) = false := by simpa using hw2
                simp [this] at hpre
            · obtain ⟨e, he, i, hti⟩ := hit it hi
              obtain ⟨t, hres, (⟨h1, _⟩ | ⟨tmp, _, h1, _⟩)⟩ := tailItem_resolve hti
              · rw [h1] at hm; simp at hm
              · rw [h1] at hm
                simp at hm
                subst hm
                exact Or.inl ⟨hw, e, he, hres⟩
            · obtain ⟨e, he, i, hti⟩ := hit it hi
              obtain ⟨t, hres, (⟨_, h2⟩ | ⟨tmp, _, _, h2⟩)⟩ := tailItem_resolve hti
              · rw [h2] at hm; simp at hm
              · rw [h2] at hm; simp at hm
            · by_cases hw2 : f.wrap = 2
              · simp [hw2] at hpre
              · have : (f.wrap == 2) = false := by simpa using hw2
                simp [this] at hpre
            · obtain ⟨e, he, i, hti⟩ := hit it hi
              obtain ⟨t, hres, (⟨h1, _⟩ | ⟨tmp, _, h1, _⟩)⟩ := tailItem_resolve hti
              · rw [h1] at hm; simp at hm
              · rw [h1] at hm; simp at hm
            · obtain ⟨e, he, i, hti⟩ := hit it hi
              obtain ⟨t, hres, (⟨_, h2⟩ | ⟨tmp, _, _, h2⟩)⟩ := tailItem_resolve hti
              · rw [h2] at hm
                simp at hm
                obtain ⟨rfl, _⟩ := hm
                exact Or.inl ⟨hw, e, he, hres⟩
              · rw [h2] at hm; simp at hm
          · intro r a hm
            simp only [List.mem_append, List.mem_flatMap, List.mem_map] at hm ⊢
            rcases hm with (hpre | ⟨it, hi, hm⟩) | ⟨it, hi, hm⟩
            · by_cases hw2 : f.wrap = 2
              · simp [hw2] at hpre
              · have : (f.wrap == 2) = false := by simpa using hw2
                simp [this] at hpre
            · obtain ⟨e, he, i, hti⟩ := hit it hi
              obtain ⟨t, hres, (⟨h1, _⟩ | ⟨tmp, _, h1, _⟩)⟩ := tailItem_resolve hti
              · rw [h1] at hm; simp at hm
              · rw [h1] at hm; simp at hm
            · obtain ⟨e, he, i, hti⟩ := hit it hi
              obtain ⟨t, hres, (⟨_, h2⟩ | ⟨tmp, _, h1, h2⟩)⟩ := tailItem_resolve hti
              · rw [h2] at hm; simp at hm
              · rw [h2] at hm
                simp at hm
                obtain ⟨rfl, _⟩ := hm
                exact Or.inl (Or.inr ⟨it, hi, by rw [h1]; simp⟩)
      · simp [hjs] at h
        subst h
        simp [tailNeeds]
  · simp only [hce] at h
    simp at h
    subst h
    simp [tailNeeds]

-- ---------------------------------------------------------------- the renaming loop terminates

theorem decAux_fuel : ∀ (f1 f2 n : Nat), n ≤ f1 → n ≤ f2 → decAux f1 n = decAux f2 n
  | 0, 0, n, _, _ => rfl
  | 0, f2 + 1, n, h1, _ => by
    have : n = 0 := by omega
    subst this
    simp [decAux]
  | f1 + 1, 0, n, _, h2 => by
    have : n = 0 := by omega
    subst this
    simp [decAux]
  | f1 + 1, f2 + 1, n, h1, h2 => by
    simp only [decAux]
    split
    · rfl
    · rw [decAux_fuel f1 f2 (n / 10) (by omega) (by omega)]

/-- the defining equation of decimal notation -/
theorem dec_eq (n : Nat) : dec n = if n < 10 then [48 + n] else dec (n / 10) ++ [48 + n % 10] := by
  unfold dec
  cases n with
  | zero => simp [decAux]
  | succ k =>
    simp only [decAux]
    split
    · rfl
    · rw [decAux_fuel k ((k + 1) / 10) ((k + 1) / 10) (by omega) (Nat.le_refl _)]

theorem dec_ne_nil (n : Nat) : dec n ≠ [] := by
  rw [dec_eq]; split <;> simp

theorem dec_injective : ∀ (m n : Nat), dec m = dec n → m = n := by
  intro m
  induction m using Nat.strongRecOn with
  | _ m ih =>
    intro n h
    have em : dec m = if m < 10 then [48 + m] else dec (m / 10) ++ [48 + m % 10] := by rw [dec_eq]
    have en : dec n = if n < 10 then [48 + n] else dec (n / 10) ++ [48 + n % 10] := by rw [dec_eq]
    rw [em, en] at h
    by_cases hm : m < 10 <;> by_cases hn : n < 10
    · simp [hm, hn] at h; omega
    · simp only [hm, hn, if_true, if_false] at h
      have hl := congrArg List.length h
      simp only [List.length_append, List.length_cons, List.length_nil] at hl
      have := List.length_pos_iff.mpr (dec_ne_nil (n / 10))
      omega
    · simp only [hm, hn, if_true, if_false] at h
      have hl := congrArg List.length h
      simp only [List.length_append, List.length_cons, List.length_nil] at hl
      have := List.length_pos_iff.mpr (dec_ne_nil (m / 10))
      omega
    · simp only [hm, hn, if_false] at h
      have h' := List.append_inj' h rfl
      have h1 := ih (m / 10) (by omega) (n / 10) h'.1
      have h2 : m % 10 = n % 10 := by simpa using h'.2
      omega

theorem findFree_none {used : List (Name × Nat)} {pre : Name} :
    ∀ {fuel tries : Nat}, findFree used pre fuel tries = none →
      ∀ t ∈ List.range' (tries + 1) fuel, (used.lookup (pre ++ dec t)).isSome = true
  | 0, _, _, t, ht => by simp at ht
  | fuel + 1, tries, h, t, ht => by
    simp only [findFree] at h
    split at h
    · rename_i hs
      simp only [List.range'_succ, List.mem_cons] at ht
      rcases ht with rfl | ht
      · exact hs
      · exact findFree_none h t ht
    · simp at h

theorem lookup_isSome_mem {α β : Type} [BEq α] [LawfulBEq α] {k : α} : ∀ {l : List (α × β)},
    (l.lookup k).isSome = true → k ∈ l.map (·.1)
  | [], h => by simp at h
  | (a, b) :: l, h => by
    simp only [List.lookup_cons] at h
    by_cases hk : k = a
    · simp [hk]
    · have : (k == a) = false := by simpa using hk
      simp only [this] at h
      exact List.mem_cons_of_mem _ (lookup_isSome_mem h)

/-- the renaming loop of NextRenamedName always finds a free name within `len(used)+1` rounds -/
theorem findFree_isSome (used : List (Name × Nat)) (pre : Name) (tries : Nat) :
    (findFree used pre (used.length + 1) tries).isSome = true := by
  cases h : findFree used pre (used.length + 1) tries with
  | some _ => rfl
  | none =>
    exfalso
    have hall := findFree_none h
    have hsub : (List.range' (tries + 1) (used.length + 1)).map (fun t => pre ++ dec t) ⊆ used.map (·.1) := by
      intro x hx
      obtain ⟨t, ht, rfl⟩ := List.mem_map.mp hx
      exact lookup_isSome_mem (hall t ht)
    have hnd : ((List.range' (tries + 1) (used.length + 1)).map (fun t => pre ++ dec t)).Nodup := by
      apply List.Pairwise.map _ _ (List.nodup_range' (step := 1))
      intro a b hab heq
      exact hab (dec_injective a b (List.append_cancel_left heq))
    have := hnd.length_le_of_subset hsub
    simp at this
    omega

theorem nextRenamed_isSome (used : List (Name × Nat)) (name : Name) : (nextRenamed used name).isSome = true := by
  unfold nextRenamed
  split
  · rename_i tries _
    have := findFree_isSome used name tries
    cases h : findFree used name (used.length + 1) tries with
    | none => simp [h] at this
    | some _ => simp
  · rfl

theorem renameAll_isSome {g : G} : ∀ (l : List Ref) (used : List (Name × Nat)),
    (∀ r ∈ l, (g.sym? r).isSome = true) → (renameAll g used l).isSome = true
  | [], _, _ => rfl
  | r :: rest, used, h => by
    simp only [renameAll]
    have hr := h r (List.mem_cons_self)
    cases hs : g.sym? r with
    | none => simp [hs] at hr
    | some s =>
      simp only []
      have hn := nextRenamed_isSome used s.name
      cases hau : nextRenamed used s.name with
      | none => simp [hau] at hn
      | some au =>
        simp only [Option.isSome_map]
        exact renameAll_isSome rest au.2 (fun r' hr' => h r' (List.mem_cons_of_mem _ hr'))

-- ---------------------------------------------------------------- chunks as modules

theorem run_length {g : G} {R : List ChunkOut} (h : run g = some R) : R.length = g.chunks.length := by
  obtain ⟨d⟩ := run_data h
  have e := congrArg List.length d.hR
  simp only [List.length_map, List.length_zipIdx, List.length_zip, d.len_imps, d.len_dyn, d.len_tail] at e
  omega

theorem modulesOf_get {g : G} {R : List ChunkOut} {A : Nat} {c : Chunk} {o : ChunkOut}
    (hA : g.chunks[A]? = some c) (hRA : R[A]? = some o) : (modulesOf g R)[A]? = some (moduleOf g c o) := by
  unfold modulesOf
  rw [List.getElem?_map]
  have : (g.chunks.zip R)[A]? = some (c, o) := List.getElem?_zip_eq_some.mpr ⟨hA, hRA⟩
  simp [this]

theorem mem_modulesOf {g : G} {R : List ChunkOut} {m : EsmLink.Mod Ref Name} (hm : m ∈ modulesOf g R) :
    ∃ (A : Nat) (c : Chunk) (o : ChunkOut), g.chunks[A]? = some c ∧ R[A]? = some o ∧ m = moduleOf g c o := by
  unfold modulesOf at hm
  obtain ⟨⟨c, o⟩, hz, rfl⟩ := List.mem_map.mp hm
  obtain ⟨A, hA⟩ := List.getElem?_of_mem hz
  rw [List.getElem?_zip_eq_some] at hA
  exact ⟨A, c, o, hA.1, hA.2, rfl⟩

end EsbuildModel.CrossChunk
