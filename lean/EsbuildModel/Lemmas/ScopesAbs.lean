import EsbuildModel.Lemmas.ScopesTree
/-!
The parse pass at the level of symbol KINDS: which names a scope declares and with which kind, without symbol numbers
and links.  `aParseItems` is `parseItems` with members `name ↦ kind`; the real parse pass refines it (`parseItems_abs`).
Used to characterise when the parser reports a redeclaration.
-/
namespace EsbuildModel.Scopes

/-- members at the level of kinds -/
abbrev AMembers := List (Name × SK)

def alookup (n : Name) : AMembers → Option SK
  | [] => none
  | (k, v) :: rest => if k = n then some v else alookup n rest

def ainsert (n : Name) (v : SK) : AMembers → AMembers
  | [] => [(n, v)]
  | (k, w) :: rest => if k = n then (k, v) :: rest else (k, w) :: ainsert n v rest

/-- a scope at the level of kinds: `replaced` = name and kind of the symbols of `Replaced` -/
structure AFrame where
  kind : ScK
  strict : Strict
  mem : AMembers
  replaced : List (Name × SK)
deriving Repr

inductive AT where
  | node (f : AFrame) (kids : List AT)
deriving Repr

def AT.frame : AT → AFrame
  | .node f _ => f
def AT.kids : AT → List AT
  | .node _ k => k

/-- declareSymbol at the level of kinds: the new scope and "an error is reported" -/
def aDeclare (cur : AFrame) (kind : SK) (name : Name) : AFrame × Bool :=
  match alookup name cur.mem with
  | none => ({ cur with mem := ainsert name kind cur.mem }, false)
  | some ek =>
    match canMergeSymbols cur.kind ek kind with
    | .forbidden => (cur, true)
    | .keepExisting => (cur, false)
    | .replaceWithNew => ({ cur with mem := ainsert name kind cur.mem, replaced := cur.replaced ++ [(name, ek)] }, false)
    | .becomePrivateGetSetPair => ({ cur with mem := ainsert name .privateGetSetPair cur.mem }, false)
    | .becomePrivateStaticGetSetPair => ({ cur with mem := ainsert name .privateStaticGetSetPair cur.mem }, false)
    | .overwriteWithNew => ({ cur with mem := ainsert name kind cur.mem }, false)

/-- canMergeSymbols never answers "become a getter/setter pair" for these kinds -/
def SK.noPair (k : SK) : Bool :=
  k != .privateGet && k != .privateSet && k != .privateStaticGet && k != .privateStaticSet

/-- kind and name of a symbol -/
def infoOf? (syms : Syms) (r : Nat) : Option (SK × Name) := (syms[r]?).map (fun s => (s.kind, s.name))

/-- the members of `m` have the kinds `am` in the symbol table, and every member symbol is called like its key -/
def RelM (syms : Syms) (m : Members) (am : AMembers) : Prop :=
  m.map (fun p => (p.1, infoOf? syms p.2)) = am.map (fun p => (p.1, some (p.2, p.1)))

/-- the symbol table only grew and no symbol changed its kind or name -/
def SymsExt (a b : Syms) : Prop :=
  ∀ (i : Nat) (s : Sym), a[i]? = some s → ∃ s' : Sym, b[i]? = some s' ∧ s'.kind = s.kind ∧ s'.name = s.name

theorem SymsExt.refl (a : Syms) : SymsExt a a := fun _ s h => ⟨s, h, rfl, rfl⟩

theorem SymsExt.trans {a b c : Syms} (h1 : SymsExt a b) (h2 : SymsExt b c) : SymsExt a c := by
  intro i s hs
  obtain ⟨s1, e1, k1, n1⟩ := h1 i s hs
  obtain ⟨s2, e2, k2, n2⟩ := h2 i s1 e1
  exact ⟨s2, e2, k2.trans k1, n2.trans n1⟩

theorem SymsExt.append (a : Syms) (x : List Sym) : SymsExt a (a ++ x) := by
  intro i s hs
  have hi : i < a.length := by
    rcases Nat.lt_or_ge i a.length with h | h
    · exact h
    · rw [List.getElem?_eq_none h] at hs; cases hs
  exact ⟨s, by rw [List.getElem?_append_left hi]; exact hs, rfl, rfl⟩

theorem SymsExt.modify (a : Syms) (i : Nat) (f : Sym → Sym) (hf : ∀ s, (f s).kind = s.kind ∧ (f s).name = s.name) :
    SymsExt a (a.modify i f) := by
  intro j s hs
  by_cases hij : i = j
  · subst hij
    refine ⟨f s, ?_, (hf s).1, (hf s).2⟩
    rw [List.getElem?_modify]; simp [hs]
  · refine ⟨s, ?_, rfl, rfl⟩
    rw [List.getElem?_modify]; simp [hij, hs]

theorem SymsExt.setLink (a : Syms) (i : Nat) (l : Option Nat) : SymsExt a (setLink a i l) :=
  SymsExt.modify a i _ (fun _ => ⟨rfl, rfl⟩)
theorem SymsExt.pin (a : Syms) (i : Nat) : SymsExt a (pin a i) :=
  SymsExt.modify a i _ (fun _ => ⟨rfl, rfl⟩)

theorem infoOf_ext {a b : Syms} (h : SymsExt a b) {r : Nat} {x : SK × Name} (hk : infoOf? a r = some x) :
    infoOf? b r = some x := by
  unfold infoOf? at hk ⊢
  cases hs : a[r]? with
  | none => rw [hs] at hk; cases hk
  | some s =>
    rw [hs] at hk
    obtain ⟨s', e, k', n'⟩ := h r s hs
    rw [e]
    simp only [Option.map_some, Option.some.injEq] at hk ⊢
    rw [k', n']; exact hk

theorem kindOf_of_info {a : Syms} {r : Nat} {k : SK} {n : Name} (h : infoOf? a r = some (k, n)) : kindOf? a r = some k := by
  unfold infoOf? at h
  unfold kindOf?
  cases hs : a[r]? with
  | none => rw [hs] at h; cases h
  | some s => rw [hs] at h; simp only [Option.map_some, Option.some.injEq, Prod.mk.injEq] at h ⊢; exact h.1

theorem RelM.ext {a b : Syms} (h : SymsExt a b) : ∀ {m : Members} {am : AMembers}, RelM a m am → RelM b m am
  | [], [], _ => rfl
  | [], _ :: _, hr => by simp [RelM] at hr
  | _ :: _, [], hr => by simp [RelM] at hr
  | (n, r) :: m, (n', k) :: am, hr => by
    simp only [RelM, List.map_cons, List.cons.injEq, Prod.mk.injEq] at hr ⊢
    exact ⟨⟨hr.1.1, infoOf_ext h hr.1.2⟩, RelM.ext h (m := m) (am := am) hr.2⟩

theorem RelM.lookup_some {syms : Syms} {n : Name} {r : Nat} : ∀ {m : Members} {am : AMembers}, RelM syms m am →
    Scopes.lookup n m = some r → ∃ k, infoOf? syms r = some (k, n) ∧ alookup n am = some k
  | [], [], _, h => by simp [Scopes.lookup] at h
  | [], _ :: _, hr, _ => by simp [RelM] at hr
  | _ :: _, [], hr, _ => by simp [RelM] at hr
  | (n1, r1) :: m, (n2, k) :: am, hr, h => by
    simp only [RelM, List.map_cons, List.cons.injEq, Prod.mk.injEq] at hr
    obtain ⟨⟨hn, hk⟩, hrest⟩ := hr
    subst hn
    simp only [Scopes.lookup, alookup] at h ⊢
    split at h
    · next heq =>
      cases h
      subst heq
      exact ⟨k, hk, by simp⟩
    · next hne =>
      obtain ⟨k', h1, h2⟩ := RelM.lookup_some (m := m) (am := am) hrest h
      exact ⟨k', h1, by simp [hne, h2]⟩

theorem RelM.lookup_none {syms : Syms} {n : Name} : ∀ {m : Members} {am : AMembers}, RelM syms m am →
    Scopes.lookup n m = none → alookup n am = none
  | [], [], _, _ => by simp [alookup]
  | [], _ :: _, hr, _ => by simp [RelM] at hr
  | _ :: _, [], hr, _ => by simp [RelM] at hr
  | (n1, r1) :: m, (n2, k) :: am, hr, h => by
    simp only [RelM, List.map_cons, List.cons.injEq, Prod.mk.injEq] at hr
    obtain ⟨⟨hn, _⟩, hrest⟩ := hr
    subst hn
    simp only [Scopes.lookup, alookup] at h ⊢
    split at h
    · cases h
    · next hne => simp [hne, RelM.lookup_none (m := m) (am := am) hrest h]

theorem RelM.alookup_some {syms : Syms} {n : Name} {k : SK} : ∀ {m : Members} {am : AMembers}, RelM syms m am →
    alookup n am = some k → ∃ r, Scopes.lookup n m = some r ∧ infoOf? syms r = some (k, n)
  | [], [], _, h => by simp [alookup] at h
  | [], _ :: _, hr, _ => by simp [RelM] at hr
  | _ :: _, [], hr, _ => by simp [RelM] at hr
  | (n1, r1) :: m, (n2, k2) :: am, hr, h => by
    simp only [RelM, List.map_cons, List.cons.injEq, Prod.mk.injEq] at hr
    obtain ⟨⟨hn, hk⟩, hrest⟩ := hr
    subst hn
    simp only [Scopes.lookup, alookup] at h ⊢
    split at h
    · next heq =>
      cases h
      subst heq
      exact ⟨r1, by simp, hk⟩
    · next hne =>
      obtain ⟨r, h1, h2⟩ := RelM.alookup_some (m := m) (am := am) hrest h
      exact ⟨r, by simp [hne, h1], h2⟩

theorem RelM.insert {syms : Syms} {n : Name} {r : Nat} {k : SK} (hk : infoOf? syms r = some (k, n)) :
    ∀ {m : Members} {am : AMembers}, RelM syms m am → RelM syms (Scopes.insert n r m) (ainsert n k am)
  | [], [], _ => by simp [RelM, Scopes.insert, ainsert, hk]
  | [], _ :: _, hr => by simp [RelM] at hr
  | _ :: _, [], hr => by simp [RelM] at hr
  | (n1, r1) :: m, (n2, k2) :: am, hr => by
    simp only [RelM, List.map_cons, List.cons.injEq, Prod.mk.injEq] at hr
    obtain ⟨⟨hn, hk1⟩, hrest⟩ := hr
    subst hn
    simp only [Scopes.insert, ainsert]
    split
    · next heq =>
      subst heq
      simp only [RelM, List.map_cons, List.cons.injEq, Prod.mk.injEq]
      exact ⟨⟨trivial, hk⟩, hrest⟩
    · simp only [RelM, List.map_cons, List.cons.injEq, Prod.mk.injEq]
      exact ⟨⟨trivial, hk1⟩, RelM.insert hk (m := m) (am := am) hrest⟩

theorem ainsert_same {n : Name} {k : SK} : ∀ {am : AMembers}, alookup n am = some k → ainsert n k am = am
  | [] => by simp [alookup]
  | (n1, k1) :: rest => by
    simp only [alookup, ainsert]
    split
    · intro h; cases h; rfl
    · intro h; rw [ainsert_same (am := rest) h]

/-- the replaced symbols have the names and kinds `ar` -/
def RelR (syms : Syms) (rs : List Nat) (ar : List (Name × SK)) : Prop :=
  rs.map (fun r => infoOf? syms r) = ar.map (fun p => some (p.2, p.1))

theorem RelR.ext {a b : Syms} (h : SymsExt a b) : ∀ {rs : List Nat} {ar : List (Name × SK)}, RelR a rs ar → RelR b rs ar
  | [], [], _ => rfl
  | [], _ :: _, hr => by simp [RelR] at hr
  | _ :: _, [], hr => by simp [RelR] at hr
  | r :: rs, x :: ar, hr => by
    simp only [RelR, List.map_cons, List.cons.injEq] at hr ⊢
    exact ⟨infoOf_ext h hr.1, RelR.ext h (rs := rs) (ar := ar) hr.2⟩

theorem RelR.append {a : Syms} {rs : List Nat} {ar : List (Name × SK)} (h : RelR a rs ar) {r : Nat} {k : SK} {n : Name}
    (hr : infoOf? a r = some (k, n)) : RelR a (rs ++ [r]) (ar ++ [(n, k)]) := by
  simp only [RelR, List.map_append, List.map_cons, List.map_nil] at h ⊢
  rw [h, hr]

/-- a frame and its kind-level description -/
structure RelF (syms : Syms) (f : Frame) (af : AFrame) : Prop where
  kind : f.kind = af.kind
  strict : f.strict = af.strict
  mem : RelM syms f.members af.mem
  rep : RelR syms f.replaced af.replaced

theorem RelF.ext {a b : Syms} (h : SymsExt a b) {f : Frame} {af : AFrame} (hr : RelF a f af) : RelF b f af :=
  ⟨hr.kind, hr.strict, hr.mem.ext h, hr.rep.ext h⟩

theorem canMerge_noPair {sk : ScK} {ek nk : SK} (h : nk.noPair = true) :
    canMergeSymbols sk ek nk ≠ .becomePrivateGetSetPair ∧ canMergeSymbols sk ek nk ≠ .becomePrivateStaticGetSetPair := by
  unfold canMergeSymbols
  simp only [SK.noPair, Bool.and_eq_true, bne_iff_ne, ne_eq] at h
  split
  · simp
  · split
    · simp
    · split
      · simp
      · split
        · simp
        · split
          · simp
          · split
            · next hc => rcases hc with ⟨_, hc⟩ | ⟨_, hc⟩ <;> simp_all
            · split
              · next hc => rcases hc with ⟨_, hc⟩ | ⟨_, hc⟩ <;> simp_all
              · split
                · simp
                · split
                  · simp
                  · split <;> simp

theorem infoOf_new (syms : Syms) (k : SK) (n : Name) :
    infoOf? (syms ++ [⟨k, n, none, false⟩]) syms.length = some (k, n) := by
  simp [infoOf?]

/-- declareSymbol refines aDeclare -/
theorem declareSymbol_abs {cur : Frame} {acur : AFrame} {st : PSt} (kind : SK) (name : Name)
    (hrel : RelF st.syms cur acur) (hnp : kind.noPair = true) :
    ∃ cur' st' r, declareSymbol cur st kind name = some (cur', st', r) ∧
      RelF st'.syms cur' (aDeclare acur kind name).1 ∧ SymsExt st.syms st'.syms ∧
      st'.errs = st.errs ++ (if (aDeclare acur kind name).2 then [name] else []) ∧
      st'.declRefs = st.declRefs ∧
      cur'.generated = cur.generated ∧ cur'.label = cur.label ∧ cur'.eval = cur.eval := by
  have hext1 : SymsExt st.syms (st.syms ++ [⟨kind, name, none, false⟩]) := SymsExt.append _ _
  have hnew := infoOf_new st.syms kind name
  unfold declareSymbol aDeclare
  simp only [newSymbol]
  cases hl : lookup name cur.members with
  | none =>
    rw [RelM.lookup_none hrel.mem hl]
    exact ⟨_, _, _, rfl, ⟨hrel.kind, hrel.strict, RelM.insert hnew (hrel.mem.ext hext1), hrel.rep.ext hext1⟩, hext1,
      by simp, rfl, rfl, rfl, rfl⟩
  | some existing =>
    obtain ⟨ek, hek, hak⟩ := RelM.lookup_some hrel.mem hl
    have hek1 := infoOf_ext hext1 hek
    rw [hak]
    simp only [kindOf_of_info hek1]
    rw [← hrel.kind]
    have hnp' := canMerge_noPair (sk := cur.kind) (ek := ek) hnp
    split
    · next hm =>
      simp only [hm]
      exact ⟨_, _, _, rfl, hrel.ext hext1, hext1, by simp, rfl, rfl, rfl, rfl⟩
    · next hm =>
      simp only [hm]
      refine ⟨_, _, _, rfl, ⟨hrel.kind, hrel.strict, ?_, hrel.rep.ext hext1⟩, hext1, by simp, rfl, rfl, rfl, rfl⟩
      simp only [insert_same hl]
      exact hrel.mem.ext hext1
    · next hm =>
      simp only [hm]
      have hext2 : SymsExt (st.syms ++ [⟨kind, name, none, false⟩])
          (setLink (st.syms ++ [⟨kind, name, none, false⟩]) existing (some st.syms.length)) := SymsExt.setLink _ _ _
      refine ⟨_, _, _, rfl, ⟨rfl, hrel.strict, ?_, ?_⟩, hext1.trans hext2, by simp, rfl, rfl, rfl, rfl⟩
      · exact RelM.insert (infoOf_ext hext2 hnew) ((hrel.mem.ext hext1).ext hext2)
      · exact RelR.append ((hrel.rep.ext hext1).ext hext2) (infoOf_ext hext2 hek1)
    · next hm => exact absurd hm hnp'.1
    · next hm => exact absurd hm hnp'.2
    · next hm =>
      simp only [hm]
      exact ⟨_, _, _, rfl, ⟨rfl, hrel.strict, RelM.insert hnew (hrel.mem.ext hext1), hrel.rep.ext hext1⟩, hext1,
        by simp, rfl, rfl, rfl, rfl⟩

-- the parse pass at the level of kinds -------------------------------------------------------------------------

def aCopyArgs : AMembers → AMembers
  | [] => []
  | (n, k) :: rest => if k = .hoistedFunction then aCopyArgs rest else (n, k) :: aCopyArgs rest

def aPush (parent : AFrame) (k : ScK) : Option AFrame :=
  if k = .fnBody then
    if parent.kind ≠ .fnArgs then none else some ⟨k, parent.strict, aCopyArgs parent.mem, []⟩
  else some ⟨k, parent.strict, [], []⟩

def aClassStrict (f : AFrame) : AFrame :=
  if f.kind = .classBody ∧ f.strict = 0 then { f with strict := 2 } else f

def aApplyUseStrict (parent child : AFrame) : AFrame × AFrame :=
  let child' := { child with strict := 1 }
  if child.kind = .fnBody ∧ parent.kind = .fnArgs ∧ parent.strict = 0 then ({ parent with strict := 1 }, child')
  else (parent, child')

structure ACtx where
  cur : AFrame
  kids : List AT
  errs : List Name
deriving Repr

def aDeclareCtx (c : ACtx) (k : SK) (n : Name) : ACtx :=
  ⟨(aDeclare c.cur k n).1, c.kids, c.errs ++ (if (aDeclare c.cur k n).2 then [n] else [])⟩

mutual
def aParseItem : Item → ACtx → Option ACtx
  | .decl k n, c => some (aDeclareCtx c k n)
  | .declArgs, c =>
    match alookup argumentsName c.cur.mem with
    | some _ => some c
    | none => some (aDeclareCtx c .arguments argumentsName)
  | .scope k us _ body, c =>
    match aPush c.cur k with
    | none => none
    | some child0 =>
      let pc := if us then aApplyUseStrict c.cur (aClassStrict child0) else (c.cur, aClassStrict child0)
      match aParseItems body ⟨pc.2, [], c.errs⟩ with
      | none => none
      | some r => some ⟨pc.1, c.kids ++ [.node r.cur r.kids], r.errs⟩
  | _, c => some c
def aParseItems : List Item → ACtx → Option ACtx
  | [], c => some c
  | i :: is, c =>
    match aParseItem i c with
    | none => none
    | some c' => aParseItems is c'
end

mutual
/-- no declaration of a private getter or setter (the kinds for which declareSymbol changes the kind of a symbol) -/
def noPairItem : Item → Bool
  | .decl k _ => k.noPair
  | .scope _ _ _ body => noPairItems body
  | _ => true
def noPairItems : List Item → Bool
  | [] => true
  | i :: is => noPairItem i && noPairItems is
end

mutual
def RelT (syms : Syms) : Sc → AT → Prop
  | .node f ks, .node af aks => RelF syms f af ∧ RelTs syms ks aks
def RelTs (syms : Syms) : List Sc → List AT → Prop
  | [], [] => True
  | k :: ks, a :: as => RelT syms k a ∧ RelTs syms ks as
  | _, _ => False
end

mutual
theorem RelT.ext {a b : Syms} (h : SymsExt a b) : ∀ {sc : Sc} {at_ : AT}, RelT a sc at_ → RelT b sc at_
  | .node _ ks, .node _ aks, hr => by
    simp only [RelT] at hr ⊢
    exact ⟨hr.1.ext h, RelTs.ext h (ks := ks) (aks := aks) hr.2⟩
theorem RelTs.ext {a b : Syms} (h : SymsExt a b) : ∀ {ks : List Sc} {aks : List AT}, RelTs a ks aks → RelTs b ks aks
  | [], [], _ => trivial
  | k :: ks, x :: aks, hr => by
    simp only [RelTs] at hr ⊢
    exact ⟨RelT.ext h (sc := k) (at_ := x) hr.1, RelTs.ext h (ks := ks) (aks := aks) hr.2⟩
  | [], _ :: _, hr => by simp [RelTs] at hr
  | _ :: _, [], hr => by simp [RelTs] at hr
end

theorem RelTs.append {syms : Syms} : ∀ {ks : List Sc} {aks : List AT} {k : Sc} {x : AT}, RelTs syms ks aks → RelT syms k x →
    RelTs syms (ks ++ [k]) (aks ++ [x])
  | [], [], _, _, _, h => by simp only [List.nil_append, RelTs]; exact ⟨h, trivial⟩
  | k0 :: ks, x0 :: aks, k, x, hr, h => by
    simp only [RelTs, List.cons_append] at hr ⊢
    exact ⟨hr.1, RelTs.append hr.2 h⟩
  | [], _ :: _, _, _, hr, _ => by simp [RelTs] at hr
  | _ :: _, [], _, _, hr, _ => by simp [RelTs] at hr

structure RelC (c : PCtx) (ac : ACtx) : Prop where
  cur : RelF c.st.syms c.cur ac.cur
  kids : RelTs c.st.syms c.kids ac.kids
  errs : c.st.errs = ac.errs

theorem copyArgs_abs {syms : Syms} : ∀ {m : Members} {am : AMembers}, RelM syms m am →
    ∃ m', copyArgs syms m = some m' ∧ RelM syms m' (aCopyArgs am)
  | [], [], _ => ⟨[], rfl, rfl⟩
  | [], _ :: _, hr => by simp [RelM] at hr
  | _ :: _, [], hr => by simp [RelM] at hr
  | (n, r) :: m, (n', k) :: am, hr => by
    simp only [RelM, List.map_cons, List.cons.injEq, Prod.mk.injEq] at hr
    obtain ⟨⟨hn, hk⟩, hrest⟩ := hr
    subst hn
    obtain ⟨m', hm', hr'⟩ := copyArgs_abs (m := m) (am := am) hrest
    simp only [copyArgs, kindOf_of_info hk, hm', aCopyArgs]
    split
    · exact ⟨m', rfl, hr'⟩
    · refine ⟨(n, r) :: m', rfl, ?_⟩
      simp only [RelM, List.map_cons, List.cons.injEq, Prod.mk.injEq]
      exact ⟨⟨trivial, hk⟩, hr'⟩

theorem pushFrame_abs {syms : Syms} {parent : Frame} {aparent : AFrame} (k : ScK) (hr : RelF syms parent aparent) :
    match pushFrame parent k syms, aPush aparent k with
    | some f, some af => RelF syms f af ∧ f.generated = [] ∧ f.label = none ∧ f.eval = false
    | none, none => True
    | _, _ => False := by
  unfold pushFrame aPush
  by_cases hk : k = .fnBody
  · simp only [hk, if_true]
    by_cases hp : parent.kind = .fnArgs
    · have hp' : aparent.kind = .fnArgs := hr.kind ▸ hp
      simp only [hp, hp', ne_eq, not_true_eq_false, if_false]
      obtain ⟨m', hm', hr'⟩ := copyArgs_abs hr.mem
      simp only [hm']
      exact ⟨⟨rfl, hr.strict, hr', rfl⟩, by simp⟩
    · have hp' : aparent.kind ≠ .fnArgs := hr.kind ▸ hp
      simp [hp, hp']
  · simp only [hk, if_false]
    exact ⟨⟨rfl, hr.strict, rfl, rfl⟩, by simp⟩

theorem classStrict_abs {syms : Syms} {f : Frame} {af : AFrame} (hr : RelF syms f af) :
    RelF syms (classStrict f) (aClassStrict af) := by
  unfold classStrict aClassStrict
  by_cases hc : f.kind = .classBody ∧ f.strict = 0
  · have hc' : af.kind = .classBody ∧ af.strict = 0 := ⟨hr.kind ▸ hc.1, hr.strict ▸ hc.2⟩
    rw [if_pos hc, if_pos hc']
    exact ⟨hr.kind, rfl, hr.mem, hr.rep⟩
  · have hc' : ¬(af.kind = .classBody ∧ af.strict = 0) := fun h => hc ⟨hr.kind ▸ h.1, hr.strict ▸ h.2⟩
    rw [if_neg hc, if_neg hc']
    exact hr

theorem applyUseStrict_abs {syms : Syms} {p c : Frame} {ap ac : AFrame} (hp : RelF syms p ap) (hc : RelF syms c ac) :
    RelF syms (applyUseStrict p c).1 (aApplyUseStrict ap ac).1 ∧ RelF syms (applyUseStrict p c).2 (aApplyUseStrict ap ac).2 := by
  unfold applyUseStrict aApplyUseStrict
  simp only
  by_cases h : c.kind = .fnBody ∧ p.kind = .fnArgs ∧ p.strict = 0
  · have h' : ac.kind = .fnBody ∧ ap.kind = .fnArgs ∧ ap.strict = 0 := ⟨hc.kind ▸ h.1, hp.kind ▸ h.2.1, hp.strict ▸ h.2.2⟩
    rw [if_pos h, if_pos h']
    exact ⟨⟨hp.kind, rfl, hp.mem, hp.rep⟩, ⟨hc.kind, rfl, hc.mem, hc.rep⟩⟩
  · have h' : ¬(ac.kind = .fnBody ∧ ap.kind = .fnArgs ∧ ap.strict = 0) :=
      fun x => h ⟨hc.kind ▸ x.1, hp.kind ▸ x.2.1, hp.strict ▸ x.2.2⟩
    rw [if_neg h, if_neg h']
    exact ⟨hp, ⟨hc.kind, rfl, hc.mem, hc.rep⟩⟩

/-- both sides panic, or both succeed with related results and a symbol table that only grew -/
def OptRelC (syms0 : Syms) : Option PCtx → Option ACtx → Prop
  | some c', some ac' => RelC c' ac' ∧ SymsExt syms0 c'.st.syms
  | none, none => True
  | _, _ => False

mutual
theorem parseItem_abs : ∀ (i : Item) (c : PCtx) (ac : ACtx), noPairItem i = true → RelC c ac →
    OptRelC c.st.syms (parseItem i c) (aParseItem i ac)
  | .decl k n, c, ac, hnp, hr => by
    simp only [noPairItem] at hnp
    obtain ⟨cur', st', r, he, hf, hx, herr, _, _⟩ := declareSymbol_abs (st := c.st) k n hr.cur hnp
    simp only [parseItem, he, aParseItem, aDeclareCtx, OptRelC]
    exact ⟨⟨hf, hr.kids.ext hx, by simp only [herr, hr.errs]⟩, hx⟩
  | .declArgs, c, ac, _, hr => by
    simp only [parseItem, aParseItem]
    cases hl : lookup argumentsName c.cur.members with
    | some x =>
      obtain ⟨k, _, hk⟩ := RelM.lookup_some hr.cur.mem hl
      simp only [hk, OptRelC]
      exact ⟨hr, SymsExt.refl _⟩
    | none =>
      simp only [RelM.lookup_none hr.cur.mem hl]
      obtain ⟨cur', st', r, he, hf, hx, herr, _, _⟩ := declareSymbol_abs (st := c.st) .arguments argumentsName hr.cur (by decide)
      simp only [he, aDeclareCtx, OptRelC]
      have hx2 : SymsExt st'.syms (pin st'.syms r) := SymsExt.pin _ _
      exact ⟨⟨hf.ext hx2, (hr.kids.ext hx).ext hx2, by simp only [herr, hr.errs]⟩, hx.trans hx2⟩
  | .rawSym n, c, ac, _, hr => by
    simp only [parseItem, aParseItem, newSymbol, OptRelC]
    have hx : SymsExt c.st.syms (c.st.syms ++ [⟨.other, n, none, false⟩]) := SymsExt.append _ _
    exact ⟨⟨hr.cur.ext hx, hr.kids.ext hx, hr.errs⟩, hx⟩
  | .genSym n, c, ac, _, hr => by
    simp only [parseItem, aParseItem, newSymbol, OptRelC]
    have hx : SymsExt c.st.syms (c.st.syms ++ [⟨.other, n, none, false⟩]) := SymsExt.append _ _
    exact ⟨⟨⟨hr.cur.kind, hr.cur.strict, hr.cur.mem.ext hx, hr.cur.rep.ext hx⟩, hr.kids.ext hx, hr.errs⟩, hx⟩
  | .classInner _, c, ac, _, hr => by
    simp only [parseItem, aParseItem, OptRelC]; exact ⟨hr, SymsExt.refl _⟩
  | .ref _, c, ac, _, hr => by
    simp only [parseItem, aParseItem, OptRelC]; exact ⟨hr, SymsExt.refl _⟩
  | .eval, c, ac, _, hr => by
    simp only [parseItem, aParseItem, OptRelC]; exact ⟨hr, SymsExt.refl _⟩
  | .cut, c, ac, _, hr => by
    simp only [parseItem, aParseItem, OptRelC]; exact ⟨hr, SymsExt.refl _⟩
  | .scope k us lbl body, c, ac, hnp, hr => by
    simp only [noPairItem] at hnp
    simp only [parseItem, aParseItem]
    have hp := pushFrame_abs (syms := c.st.syms) k hr.cur
    cases hpf : pushFrame c.cur k c.st.syms with
    | none =>
      cases hpa : aPush ac.cur k with
      | none => simp [OptRelC]
      | some af => rw [hpf, hpa] at hp; exact hp.elim
    | some child0 =>
      cases hpa : aPush ac.cur k with
      | none => rw [hpf, hpa] at hp; exact hp.elim
      | some achild0 =>
        rw [hpf, hpa] at hp
        simp only at hp
        have hcs := classStrict_abs hp.1
        have hpc : RelF c.st.syms (if us = true then applyUseStrict c.cur (classStrict child0) else (c.cur, classStrict child0)).1
            (if us = true then aApplyUseStrict ac.cur (aClassStrict achild0) else (ac.cur, aClassStrict achild0)).1 ∧
          RelF c.st.syms (if us = true then applyUseStrict c.cur (classStrict child0) else (c.cur, classStrict child0)).2
            (if us = true then aApplyUseStrict ac.cur (aClassStrict achild0) else (ac.cur, aClassStrict achild0)).2 := by
          split
          · exact applyUseStrict_abs hr.cur hcs
          · exact ⟨hr.cur, hcs⟩
        have ih := parseItems_abs body
          ⟨(if us = true then applyUseStrict c.cur (classStrict child0) else (c.cur, classStrict child0)).2, [], c.st⟩
          ⟨(if us = true then aApplyUseStrict ac.cur (aClassStrict achild0) else (ac.cur, aClassStrict achild0)).2, [], c.st.errs⟩
          hnp ⟨hpc.2, trivial, rfl⟩
        simp only at ih
        rw [← hr.errs]
        cases hpi : parseItems body
            ⟨(if us = true then applyUseStrict c.cur (classStrict child0) else (c.cur, classStrict child0)).2, [], c.st⟩ with
        | none =>
          rw [hpi] at ih
          cases hpa2 : aParseItems body
              ⟨(if us = true then aApplyUseStrict ac.cur (aClassStrict achild0) else (ac.cur, aClassStrict achild0)).2, [], c.st.errs⟩ with
          | none => simp only [hpi, hpa2, OptRelC]
          | some ar => rw [hpa2] at ih; exact ih.elim
        | some r =>
          rw [hpi] at ih
          cases hpa2 : aParseItems body
              ⟨(if us = true then aApplyUseStrict ac.cur (aClassStrict achild0) else (ac.cur, aClassStrict achild0)).2, [], c.st.errs⟩ with
          | none => rw [hpa2] at ih; exact ih.elim
          | some ar =>
            rw [hpa2] at ih
            simp only [hpi, hpa2, OptRelC] at ih ⊢
            obtain ⟨hrr, hx⟩ := ih
            refine ⟨⟨hpc.1.ext hx, RelTs.append (hr.kids.ext hx) ?_, hrr.errs⟩, hx⟩
            simp only [RelT]
            exact ⟨hrr.cur, hrr.kids⟩
theorem parseItems_abs : ∀ (is : List Item) (c : PCtx) (ac : ACtx), noPairItems is = true → RelC c ac →
    OptRelC c.st.syms (parseItems is c) (aParseItems is ac)
  | [], c, ac, _, hr => by
    simp only [parseItems, aParseItems, OptRelC]; exact ⟨hr, SymsExt.refl _⟩
  | i :: is, c, ac, hnp, hr => by
    simp only [noPairItems, Bool.and_eq_true] at hnp
    simp only [parseItems, aParseItems]
    have h1 := parseItem_abs i c ac hnp.1 hr
    cases hp : parseItem i c with
    | none =>
      rw [hp] at h1
      cases hpa : aParseItem i ac with
      | none => simp [OptRelC]
      | some ac1 => rw [hpa] at h1; exact h1.elim
    | some c1 =>
      rw [hp] at h1
      cases hpa : aParseItem i ac with
      | none => rw [hpa] at h1; exact h1.elim
      | some ac1 =>
        rw [hpa] at h1
        simp only [OptRelC] at h1
        have h2 := parseItems_abs is c1 ac1 hnp.2 h1.1
        simp only
        cases hp2 : parseItems is c1 with
        | none =>
          rw [hp2] at h2
          cases hpa2 : aParseItems is ac1 with
          | none => simp only [OptRelC]
          | some x => rw [hpa2] at h2; exact h2.elim
        | some c2 =>
          rw [hp2] at h2
          cases hpa2 : aParseItems is ac1 with
          | none => rw [hpa2] at h2; exact h2.elim
          | some ac2 =>
            rw [hpa2] at h2
            simp only [OptRelC] at h2 ⊢
            exact ⟨h2.1, h1.2.trans h2.2⟩
end

end EsbuildModel.Scopes
