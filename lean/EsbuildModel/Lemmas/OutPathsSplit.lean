import EsbuildModel.Impl.OutPathsDriver
import EsbuildModel.Spec.OutPath
/-
Basic facts about `splitSlash` / `joinSlash` (model) and `components` (spec).
-/
namespace EsbuildModel.OutPaths
open EsbuildModel.Spec.OutPath (components)

theorem splitSlash_ne_nil (s : Str) : splitSlash s ≠ [] := by
  induction s with
  | nil => simp [splitSlash]
  | cons c cs ih =>
    unfold splitSlash
    split
    · simp
    · split <;> simp

theorem components_eq_splitSlash (s : Str) : components s = splitSlash s := by
  induction s with
  | nil => rfl
  | cons c cs ih => simp only [components, splitSlash, ih]; rfl

theorem splitSlash_slash (s : Str) : splitSlash ('/' :: s) = [] :: splitSlash s := by
  simp [splitSlash]

theorem splitSlash_exists (s : Str) : ∃ x xs, splitSlash s = x :: xs := by
  cases h : splitSlash s with
  | nil => exact absurd h (splitSlash_ne_nil s)
  | cons x xs => exact ⟨x, xs, rfl⟩

theorem splitSlash_cons_ne {c : Char} (h : c ≠ '/') {s x : Str} {xs : List Str}
    (hs : splitSlash s = x :: xs) : splitSlash (c :: s) = (c :: x) :: xs := by
  rw [splitSlash]
  simp only [h, if_false, hs]

theorem joinSlash_cons_cons (x y : Str) (l : List Str) :
    joinSlash (x :: y :: l) = x ++ '/' :: joinSlash (y :: l) := by
  simp [joinSlash, List.intercalate_cons_cons]

theorem joinSlash_singleton (x : Str) : joinSlash [x] = x := by
  simp [joinSlash, List.intercalate]

theorem joinSlash_nil : joinSlash [] = [] := by simp [joinSlash, List.intercalate]

theorem joinSlash_cons_of_ne {l : List Str} (h : l ≠ []) (x : Str) :
    joinSlash (x :: l) = x ++ '/' :: joinSlash l := by
  cases l with
  | nil => exact absurd rfl h
  | cons y l => exact joinSlash_cons_cons x y l

theorem joinSlash_splitSlash (s : Str) : joinSlash (splitSlash s) = s := by
  induction s with
  | nil => simp [splitSlash, joinSlash_singleton]
  | cons c cs ih =>
    by_cases hc : c = '/'
    · subst hc
      rw [splitSlash_slash, joinSlash_cons_of_ne (splitSlash_ne_nil cs), ih]
      rfl
    · obtain ⟨x, xs, hs⟩ := splitSlash_exists cs
      rw [splitSlash_cons_ne hc hs]
      rw [hs] at ih
      cases xs with
      | nil =>
        rw [joinSlash_singleton] at ih
        rw [joinSlash_singleton, ih]
      | cons y ys =>
        rw [joinSlash_cons_cons] at ih
        rw [joinSlash_cons_cons, List.cons_append, ih]

theorem splitSlash_noslash {s : Str} (h : '/' ∉ s) : splitSlash s = [s] := by
  induction s with
  | nil => rfl
  | cons c cs ih =>
    have hc : c ≠ '/' := fun e => h (by simp [e])
    have hcs : '/' ∉ cs := fun e => h (by simp [e])
    rw [splitSlash_cons_ne hc (ih hcs)]

theorem splitSlash_append_slash (a b : Str) :
    splitSlash (a ++ '/' :: b) = splitSlash a ++ splitSlash b := by
  induction a with
  | nil => simp [splitSlash]
  | cons c cs ih =>
    by_cases hc : c = '/'
    · subst hc
      simp only [List.cons_append]
      rw [splitSlash_slash, splitSlash_slash, ih]
      rfl
    · obtain ⟨x, xs, hs⟩ := splitSlash_exists cs
      simp only [List.cons_append]
      rw [splitSlash_cons_ne hc hs, splitSlash_cons_ne hc (x := x) (xs := xs ++ splitSlash b)]
      · rfl
      · rw [ih, hs]; rfl

/-- a segment never contains the separator -/
theorem noslash_of_mem_splitSlash {s x : Str} (h : x ∈ splitSlash s) : '/' ∉ x := by
  induction s generalizing x with
  | nil => simp [splitSlash] at h; subst h; simp
  | cons c cs ih =>
    by_cases hc : c = '/'
    · subst hc
      rw [splitSlash_slash] at h
      rcases List.mem_cons.mp h with h | h
      · subst h; simp
      · exact ih h
    · obtain ⟨y, ys, hs⟩ := splitSlash_exists cs
      rw [splitSlash_cons_ne hc hs] at h
      rcases List.mem_cons.mp h with h | h
      · subst h
        have : '/' ∉ y := ih (by simp [hs])
        intro hm
        rcases List.mem_cons.mp hm with e | e
        · exact hc e.symm
        · exact this e
      · exact ih (by simp [hs, h])

theorem splitSlash_joinSlash {l : List Str} (hne : l ≠ []) (h : ∀ x ∈ l, '/' ∉ x) :
    splitSlash (joinSlash l) = l := by
  induction l with
  | nil => exact absurd rfl hne
  | cons x l ih =>
    cases l with
    | nil => rw [joinSlash_singleton]; exact splitSlash_noslash (h x (by simp))
    | cons y l =>
      rw [joinSlash_cons_cons, splitSlash_append_slash, splitSlash_noslash (h x (by simp)),
        ih (by simp) (fun z hz => h z (by simp [hz]))]
      rfl

end EsbuildModel.OutPaths
