import EsbuildModel.Impl.Split
/-!
Lemmas about the chunk-assignment model: the fuelled closure computes exactly graph reachability (pigeonhole
on duplicate-free lists of file indices), entry-point bit sets are monotone along static imports, and the
population count of a key strictly grows along every static cross-chunk edge.
-/
namespace EsbuildModel.Split

def Closed (es : List (Nat × Nat)) (s : List Nat) : Prop := ∀ e ∈ es, e.1 ∈ s → e.2 ∈ s

/-- reflexive-transitive closure of an edge list -/
inductive Reach (es : List (Nat × Nat)) : Nat → Nat → Prop
  | refl (a : Nat) : Reach es a a
  | tail {a b c : Nat} : Reach es a b → (b, c) ∈ es → Reach es a c

def Inv (n : Nat) (s : List Nat) : Prop := s.Nodup ∧ ∀ x ∈ s, x < n

def EdgesLt (n : Nat) (es : List (Nat × Nat)) : Prop := ∀ e ∈ es, e.1 < n ∧ e.2 < n

theorem step_cases (es : List (Nat × Nat)) (s : List Nat) :
    (step es s = s ∧ Closed es s) ∨ (∃ e ∈ es, e.1 ∈ s ∧ e.2 ∉ s ∧ step es s = e.2 :: s) := by
  unfold step
  cases h : es.find? (fun e => s.contains e.1 && !s.contains e.2) with
  | none =>
    left
    refine ⟨rfl, ?_⟩
    intro e he h1
    have := List.find?_eq_none.mp h e he
    simp only [Bool.and_eq_true, List.contains_iff_mem, Bool.not_eq_true', not_and] at this
    have h2 := this h1
    cases hc : s.contains e.2 with
    | true => exact List.contains_iff_mem.mp hc
    | false => simp at h2; exact h2
  | some e =>
    right
    have hp := List.find?_some h
    have hm := List.mem_of_find?_eq_some h
    simp only [Bool.and_eq_true, List.contains_iff_mem, Bool.not_eq_true'] at hp
    refine ⟨e, hm, hp.1, ?_, rfl⟩
    intro hc
    have := List.contains_iff_mem.mpr hc
    rw [hp.2] at this; exact absurd this (by simp)

theorem inv_length_le {n : Nat} {s : List Nat} (h : Inv n s) : s.length ≤ n := by
  have := List.Nodup.length_le_of_subset (l₂ := List.range n) h.1
    (fun x hx => List.mem_range.mpr (h.2 x hx))
  simpa using this

theorem step_inv {n : Nat} {es : List (Nat × Nat)} {s : List Nat} (hes : EdgesLt n es) (h : Inv n s) :
    Inv n (step es s) := by
  rcases step_cases es s with ⟨he, _⟩ | ⟨e, hm, _, h2, he⟩
  · rw [he]; exact h
  · rw [he]
    refine ⟨List.nodup_cons.mpr ⟨h2, h.1⟩, ?_⟩
    intro x hx
    rcases List.mem_cons.mp hx with rfl | hx
    · exact (hes e hm).2
    · exact h.2 x hx

theorem closure_of_closed {es : List (Nat × Nat)} {s : List Nat} (h : Closed es s) (k : Nat) :
    closure es k s = s := by
  induction k with
  | zero => rfl
  | succ k ih =>
    have : step es s = s := by
      rcases step_cases es s with ⟨he, _⟩ | ⟨e, hm, h1, h2, _⟩
      · exact he
      · exact absurd (h e hm h1) h2
    simp [closure, this, ih]

theorem closure_closed {n : Nat} {es : List (Nat × Nat)} (hes : EdgesLt n es) :
    ∀ (k : Nat) (s : List Nat), Inv n s → n < s.length + k → Closed es (closure es k s) := by
  intro k
  induction k with
  | zero =>
    intro s h hl
    have := inv_length_le h
    omega
  | succ k ih =>
    intro s h hl
    rcases step_cases es s with ⟨he, hc⟩ | ⟨e, _, _, _, he⟩
    · simp only [closure, he]
      rw [closure_of_closed hc]; exact hc
    · simp only [closure]
      apply ih
      · exact step_inv hes h
      · rw [he]; simp; omega

theorem subset_step (es : List (Nat × Nat)) (s : List Nat) : ∀ x ∈ s, x ∈ step es s := by
  intro x hx
  rcases step_cases es s with ⟨he, _⟩ | ⟨e, _, _, _, he⟩ <;> rw [he]
  · exact hx
  · exact List.mem_cons_of_mem _ hx

theorem subset_closure (es : List (Nat × Nat)) : ∀ (k : Nat) (s : List Nat), ∀ x ∈ s, x ∈ closure es k s := by
  intro k
  induction k with
  | zero => intro s x hx; exact hx
  | succ k ih => intro s x hx; exact ih _ x (subset_step es s x hx)

theorem step_sound {es : List (Nat × Nat)} {r : Nat} {s : List Nat} (h : ∀ x ∈ s, Reach es r x) :
    ∀ x ∈ step es s, Reach es r x := by
  rcases step_cases es s with ⟨he, _⟩ | ⟨e, hm, h1, _, he⟩ <;> rw [he]
  · exact h
  · intro x hx
    rcases List.mem_cons.mp hx with rfl | hx
    · exact Reach.tail (h _ h1) hm
    · exact h x hx

theorem closure_sound {es : List (Nat × Nat)} {r : Nat} :
    ∀ (k : Nat) (s : List Nat), (∀ x ∈ s, Reach es r x) → ∀ x ∈ closure es k s, Reach es r x := by
  intro k
  induction k with
  | zero => intro s h; exact h
  | succ k ih => intro s h; exact ih _ (step_sound h)

theorem closed_complete {es : List (Nat × Nat)} {s : List Nat} (hc : Closed es s) {r f : Nat}
    (hr : r ∈ s) (h : Reach es r f) : f ∈ s := by
  induction h with
  | refl => exact hr
  | tail _ he ih => exact hc _ he ih

/-- the fuelled closure from one root is exactly reachability -/
theorem closure_iff_reach {n : Nat} {es : List (Nat × Nat)} (hes : EdgesLt n es) {r : Nat} (hr : r < n)
    (f : Nat) : f ∈ closure es n [r] ↔ Reach es r f := by
  constructor
  · intro h
    exact closure_sound n [r] (by intro x hx; simp at hx; subst hx; exact Reach.refl _) f h
  · intro h
    have hinv : Inv n [r] := ⟨by simp, by intro x hx; simp at hx; omega⟩
    have hc := closure_closed hes n [r] hinv (by simp)
    exact closed_complete hc (subset_closure es n [r] r (by simp)) h

-- ---------------------------------------------------------------- well-formedness

theorem wf_edges {g : G} (h : wf g = true) : EdgesLt g.n (allEdges g) := by
  intro e he
  simp only [wf, Bool.and_eq_true, List.all_eq_true, decide_eq_true_eq] at h
  exact h.1 e he

theorem wf_static {g : G} (h : wf g = true) : EdgesLt g.n (static g) := by
  intro e he
  apply wf_edges h e
  simp only [allEdges, static] at *
  exact List.mem_append_left _ he

theorem wf_entries {g : G} (h : wf g = true) : ∀ e ∈ entries g, e < g.n := by
  intro e he
  simp only [entries] at he
  rw [List.mem_eraseDups] at he
  rcases List.mem_append.mp he with hu | hd
  · simp only [wf, Bool.and_eq_true, List.all_eq_true, decide_eq_true_eq] at h
    exact h.2 e hu
  · rw [List.mem_map] at hd
    obtain ⟨p, hp, rfl⟩ := hd
    have hp' := (List.mem_filter.mp hp).1
    exact (wf_edges h p (by simp only [allEdges]; exact List.mem_append_right _ hp')).2

theorem reach_iff {g : G} (h : wf g = true) {e : Nat} (he : e < g.n) (f : Nat) :
    reach g e f = true ↔ Reach (static g) e f := by
  unfold reach
  rw [List.contains_iff_mem]
  exact closure_iff_reach (wf_static h) he f

theorem reach_mono {g : G} (h : wf g = true) {e : Nat} (he : e < g.n) {a b : Nat}
    (hab : (a, b) ∈ static g) (ha : reach g e a = true) : reach g e b = true := by
  rw [reach_iff h he] at *
  exact Reach.tail ha hab

-- ---------------------------------------------------------------- counting

theorem count_map_le {α : Type} (es : List α) (p q : α → Bool)
    (himp : ∀ e ∈ es, p e = true → q e = true) :
    (es.map p).count true ≤ (es.map q).count true := by
  induction es with
  | nil => simp
  | cons a es ih =>
    have ih' := ih (fun e he => himp e (List.mem_cons_of_mem _ he))
    have ha := himp a (by simp)
    simp only [List.map_cons, List.count_cons]
    cases hp : p a <;> cases hq : q a <;> simp_all <;> omega

theorem count_map_lt {α : Type} (es : List α) (p q : α → Bool)
    (himp : ∀ e ∈ es, p e = true → q e = true) (hne : es.map p ≠ es.map q) :
    (es.map p).count true < (es.map q).count true := by
  induction es with
  | nil => simp at hne
  | cons a es ih =>
    have himp' : ∀ e ∈ es, p e = true → q e = true := fun e he => himp e (List.mem_cons_of_mem _ he)
    have hle := count_map_le es p q himp'
    have ha := himp a (by simp)
    simp only [List.map_cons, List.count_cons]
    cases hp : p a <;> cases hq : q a
    · have : es.map p ≠ es.map q := by
        intro heq; apply hne; simp [hp, hq, heq]
      have := ih himp' this
      simp; omega
    · simp; omega
    · simp [hp] at ha; simp [hq] at ha
    · have : es.map p ≠ es.map q := by
        intro heq; apply hne; simp [hp, hq, heq]
      have := ih himp' this
      simp; omega

theorem bits_getD (g : G) (f i : Nat) :
    (bits g f).getD i false = match (entries g)[i]? with | some e => reach g e f | none => false := by
  simp only [bits, List.getD_eq_getElem?_getD, List.getElem?_map]
  cases (entries g)[i]? <;> rfl

/-- entry-point bits only grow along a static import -/
theorem bits_mono {g : G} (h : wf g = true) {a b : Nat} (hab : (a, b) ∈ static g) (i : Nat)
    (hi : (bits g a).getD i false = true) : (bits g b).getD i false = true := by
  rw [bits_getD] at *
  cases he : (entries g)[i]? with
  | none => simp [he] at hi
  | some e =>
    simp only [he] at hi ⊢
    have hmem : e ∈ entries g := List.mem_of_getElem? he
    exact reach_mono h (wf_entries h e hmem) hab hi

theorem pop_bits_lt {g : G} (h : wf g = true) {a b : Nat} (hab : (a, b) ∈ static g)
    (hne : bits g a ≠ bits g b) : pop (bits g a) < pop (bits g b) := by
  unfold pop bits at *
  apply count_map_lt _ _ _ _ hne
  intro e he hr
  exact reach_mono h (wf_entries h e he) hab hr

theorem length_bits (g : G) (f : Nat) : (bits g f).length = (entries g).length := by simp [bits]
theorem length_single (g : G) (i : Nat) : (single g i).length = (entries g).length := by simp [single]

theorem length_chunkKey {g : G} {k : List Bool} (hk : k ∈ chunkKeys g) : k.length = (entries g).length := by
  simp only [chunkKeys] at hk
  rw [List.mem_eraseDups] at hk
  rcases List.mem_append.mp hk with h1 | h2
  · obtain ⟨i, _, rfl⟩ := List.mem_map.mp h1; exact length_single g i
  · obtain ⟨f, _, rfl⟩ := List.mem_map.mp h2; exact length_bits g f

theorem list_eq_map_range (k : List Bool) : k = (List.range k.length).map (fun j => k.getD j false) := by
  apply List.ext_getElem
  · simp
  · intro i h1 h2
    simp [List.getD_eq_getElem?_getD, List.getElem?_eq_getElem h1]

/-- a key that contains entry point i and is not i's own singleton key has more members than the singleton -/
theorem pop_single_lt {g : G} {k : List Bool} (i : Nat) (hlen : k.length = (entries g).length)
    (hi : k.getD i false = true) (hne : k ≠ single g i) : pop (single g i) < pop k := by
  have hk := list_eq_map_range k
  rw [hlen] at hk
  unfold pop
  rw [hk]
  unfold single
  apply count_map_lt
  · intro j _ hj
    have : j = i := by simpa using hj
    subst this; exact hi
  · intro heq
    apply hne
    rw [hk]; unfold single; exact heq.symm

theorem live_iff (g : G) (f : Nat) : live g f = true ↔ ∃ i, (bits g f).getD i false = true := by
  unfold live
  rw [List.contains_iff_mem]
  constructor
  · intro h
    obtain ⟨i, hi, heq⟩ := List.getElem_of_mem h
    exact ⟨i, by simp [List.getD_eq_getElem?_getD, List.getElem?_eq_getElem hi, heq]⟩
  · rintro ⟨i, hi⟩
    rw [List.getD_eq_getElem?_getD] at hi
    cases hv : (bits g f)[i]? with
    | none => simp [hv] at hi
    | some v =>
      simp [hv] at hi
      subst hi
      exact List.mem_of_getElem? hv

theorem live_mono {g : G} (h : wf g = true) {a b : Nat} (hab : (a, b) ∈ static g)
    (ha : live g a = true) : live g b = true := by
  rw [live_iff] at *
  obtain ⟨i, hi⟩ := ha
  exact ⟨i, bits_mono h hab i hi⟩

theorem mem_files {g : G} {f : Nat} (hf : f < g.n) (hl : live g f = true) : f ∈ files g := by
  simp only [files]
  exact List.mem_filter.mpr ⟨List.mem_range.mpr hf, hl⟩

theorem bits_mem_chunkKeys {g : G} {f : Nat} (hf : f < g.n) (hl : live g f = true) :
    bits g f ∈ chunkKeys g := by
  simp only [chunkKeys]
  rw [List.mem_eraseDups]
  exact List.mem_append_right _ (List.mem_map.mpr ⟨f, mem_files hf hl, rfl⟩)

theorem single_mem_chunkKeys {g : G} {i : Nat} (hi : i < (entries g).length) : single g i ∈ chunkKeys g := by
  simp only [chunkKeys]
  rw [List.mem_eraseDups]
  exact List.mem_append_left _ (List.mem_map.mpr ⟨i, List.mem_range.mpr hi, rfl⟩)

theorem reach_lt {n : Nat} {es : List (Nat × Nat)} (hes : EdgesLt n es) {r f : Nat} (hr : r < n)
    (h : Reach es r f) : f < n := by
  induction h with
  | refl => exact hr
  | tail _ he _ => exact (hes _ he).2

end EsbuildModel.Split
