import EsbuildModel.Lemmas.ScopesLinksInc
import EsbuildModel.Lemmas.ScopesErrThm
/-!
The lookup theorem for flat programs: the three passes put together.
-/
namespace EsbuildModel.Scopes
open JsScopes

-- trees that differ only in strict-mode flags -----------------------------------------------------------------------

mutual
def SameM : Sc → Sc → Prop
  | .node f kids, .node f' kids' => f'.kind = f.kind ∧ f'.members = f.members ∧ SameMs kids kids'
def SameMs : List Sc → List Sc → Prop
  | [], [] => True
  | k :: ks, k' :: ks' => SameM k k' ∧ SameMs ks ks'
  | _, _ => False
end

mutual
theorem setStrictRec_sameM (m : Strict) : ∀ (sc : Sc), SameM sc (setStrictRec m sc)
  | .node f kids => by
    simp only [setStrictRec]
    split
    · simp only [SameM, true_and]; exact setStrictRecList_sameM m kids
    · simp only [SameM, true_and]; exact sameMs_refl kids
theorem setStrictRecList_sameM (m : Strict) : ∀ (ks : List Sc), SameMs ks (setStrictRecList m ks)
  | [] => by simp [setStrictRecList, SameMs]
  | k :: ks => by simp only [setStrictRecList, SameMs]; exact ⟨setStrictRec_sameM m k, setStrictRecList_sameM m ks⟩
theorem sameM_refl : ∀ (sc : Sc), SameM sc sc
  | .node f kids => by simp only [SameM, true_and]; exact sameMs_refl kids
theorem sameMs_refl : ∀ (ks : List Sc), SameMs ks ks
  | [] => trivial
  | k :: ks => by simp only [SameMs]; exact ⟨sameM_refl k, sameMs_refl ks⟩
end

theorem sameMs_append : ∀ {a a' : List Sc} {b : List Sc}, SameMs (a ++ b) a' →
    ∃ a1 b1, a' = a1 ++ b1 ∧ SameMs a a1 ∧ SameMs b b1
  | [], a', b, h => ⟨[], a', rfl, trivial, h⟩
  | k :: a, [], b, h => by simp [SameMs] at h
  | k :: a, k' :: a', b, h => by
    simp only [List.cons_append, SameMs] at h
    obtain ⟨a1, b1, e, h1, h2⟩ := sameMs_append h.2
    exact ⟨k' :: a1, b1, by rw [e]; rfl, ⟨h.1, h1⟩, h2⟩

mutual
theorem factsItem_sameM {syms : Syms} : ∀ (i : Item) (mem : Members) (ds : List Nat) (ks ks' : List Sc),
    factsItem syms mem i ds ks → SameMs ks ks' → factsItem syms mem i ds ks'
  | .decl _ _, _, _, ks, ks', h, hs => by
    simp only [factsItem] at h ⊢
    obtain ⟨h1, h2⟩ := h; subst h1
    cases ks' with
    | nil => exact ⟨rfl, h2⟩
    | cons _ _ => simp [SameMs] at hs
  | .rawSym _, _, _, ks, ks', h, hs => by
    simp only [factsItem] at h ⊢
    obtain ⟨h1, h2⟩ := h; subst h1
    cases ks' with
    | nil => exact ⟨rfl, h2⟩
    | cons _ _ => simp [SameMs] at hs
  | .scope k _ _ body, mem, ds, ks, ks', h, hs => by
    simp only [factsItem] at h ⊢
    obtain ⟨f, kids, e, h1, h2, h3, h4⟩ := h
    subst e
    cases ks' with
    | nil => simp [SameMs] at hs
    | cons k' rest =>
      cases rest with
      | cons _ _ => simp [SameMs] at hs
      | nil =>
        cases k' with
        | node f' kids' =>
          simp only [SameMs, SameM, and_true] at hs
          obtain ⟨hk, hm, hkids⟩ := hs
          refine ⟨f', kids', rfl, hk.trans h1, ?_, ?_, ?_⟩
          · intro hf n m hn hl hkind
            rw [hm]; exact h2 (hk ▸ hf) n m hn hl hkind
          · unfold ScopeEqs at h3 ⊢; rw [hm]; exact h3
          · rw [hm]; exact factsItems_sameM body f.members ds kids kids' h4 hkids
  | .declArgs, _, _, ks, ks', h, hs => by
    simp only [factsItem] at h ⊢
    obtain ⟨h1, h2⟩ := h; subst h2
    cases ks' with
    | nil => exact ⟨h1, rfl⟩
    | cons _ _ => simp [SameMs] at hs
  | .genSym _, _, _, ks, ks', h, hs => by
    simp only [factsItem] at h ⊢
    obtain ⟨h1, h2⟩ := h; subst h2
    cases ks' with
    | nil => exact ⟨h1, rfl⟩
    | cons _ _ => simp [SameMs] at hs
  | .classInner _, _, _, ks, ks', h, hs => by
    simp only [factsItem] at h ⊢
    obtain ⟨h1, h2⟩ := h; subst h2
    cases ks' with
    | nil => exact ⟨h1, rfl⟩
    | cons _ _ => simp [SameMs] at hs
  | .ref _, _, _, ks, ks', h, hs => by
    simp only [factsItem] at h ⊢
    obtain ⟨h1, h2⟩ := h; subst h2
    cases ks' with
    | nil => exact ⟨h1, rfl⟩
    | cons _ _ => simp [SameMs] at hs
  | .eval, _, _, ks, ks', h, hs => by
    simp only [factsItem] at h ⊢
    obtain ⟨h1, h2⟩ := h; subst h2
    cases ks' with
    | nil => exact ⟨h1, rfl⟩
    | cons _ _ => simp [SameMs] at hs
  | .cut, _, _, ks, ks', h, hs => by
    simp only [factsItem] at h ⊢
    obtain ⟨h1, h2⟩ := h; subst h2
    cases ks' with
    | nil => exact ⟨h1, rfl⟩
    | cons _ _ => simp [SameMs] at hs
theorem factsItems_sameM {syms : Syms} : ∀ (is : List Item) (mem : Members) (ds : List Nat) (ks ks' : List Sc),
    factsItems syms mem is ds ks → SameMs ks ks' → factsItems syms mem is ds ks'
  | [], _, _, ks, ks', h, hs => by
    simp only [factsItems] at h ⊢
    obtain ⟨h1, h2⟩ := h; subst h2
    cases ks' with
    | nil => exact ⟨h1, rfl⟩
    | cons _ _ => simp [SameMs] at hs
  | i :: is, mem, ds, ks, ks', h, hs => by
    simp only [factsItems] at h ⊢
    obtain ⟨d1, d2, k1, k2, e1, e2, h1, h2⟩ := h
    subst e2
    obtain ⟨a1, b1, e, hs1, hs2⟩ := sameMs_append hs
    exact ⟨d1, d2, a1, b1, e1, e, factsItem_sameM i mem d1 k1 a1 h1 hs1, factsItems_sameM is mem d2 k2 b1 h2 hs2⟩
end

mutual
theorem noHoist_sameM {syms : Syms} : ∀ (sc sc' : Sc), SameM sc sc' → noHoistSc syms sc → noHoistSc syms sc'
  | .node f kids, .node f' kids', hs, h => by
    simp only [SameM] at hs
    simp only [noHoistSc] at h ⊢
    rw [hs.1, hs.2.1]
    exact ⟨h.1, noHoistKids_sameM kids kids' hs.2.2 h.2⟩
theorem noHoistKids_sameM {syms : Syms} : ∀ (ks ks' : List Sc), SameMs ks ks' → noHoistKids syms ks → noHoistKids syms ks'
  | [], [], _, _ => trivial
  | [], _ :: _, hs, _ => by simp [SameMs] at hs
  | _ :: _, [], hs, _ => by simp [SameMs] at hs
  | k :: ks, k' :: ks', hs, h => by
    simp only [SameMs] at hs
    simp only [noHoistKids] at h ⊢
    exact ⟨noHoist_sameM k k' hs.1 h.1, noHoistKids_sameM ks ks' hs.2 h.2⟩
end

-- the parse pass of a program without early error reports nothing ------------------------------------------------------

theorem parse_errs_nil (p : Program) (pc : PCtx)
    (hp : parseItems (listItems p.body) ⟨⟨.entry, if p.strict = true then 1 else 0, [], [], [], none, false⟩, [], ⟨[], [], []⟩⟩
      = some pc) (hne : p.earlyError = false) : pc.st.errs = [] := by
  obtain ⟨herr0, _⟩ := spec_ok_static p hne
  have hrel0 : RelC ⟨⟨.entry, if p.strict = true then 1 else 0, [], [], [], none, false⟩, [], ⟨[], [], []⟩⟩
      ⟨⟨.entry, if p.strict = true then 1 else 0, [], []⟩, [], []⟩ :=
    ⟨⟨rfl, rfl, rfl, rfl⟩, trivial, rfl⟩
  have habs := parseItems_abs (listItems p.body) _ _ (noPair_list p.body) hrel0
  rw [hp, aParse_list] at habs
  simp only [OptRelC, List.nil_append] at habs
  rw [habs.1.errs]; exact herr0

-- the names of the outermost environments ---------------------------------------------------------------------------------

theorem prog_names {body : List Stmt} (hfl : flatL true body = true) (isModule strict : Bool) (n : Name) :
    ((if isModule then lexNames body else topLexNames body).contains n ||
      (varNamesL body ++ (if isModule then [] else topFnNames body ++ (if strict then [] else annexBFn [] body))).contains n) =
      ((declKinds body).map (·.2)).contains n := by
  rw [Bool.eq_iff_iff]
  simp only [flat_varNames_top body hfl, flat_annexBFn [] body true hfl, Bool.or_eq_true, List.contains_iff_mem,
    List.mem_append, mem_declKinds_top]
  cases isModule <;> cases strict <;> simp [mem_lexNames, or_assoc, or_comm, or_left_comm]

/-- the symbols of the bindings of the two outermost environments -/
def rhoRoot (root : Frame) : Rho := fun id =>
  if id = ⟨[], .lexical⟩ ∨ id = ⟨[], .variable⟩ then (fun n => lookup n root.members) else fun _ => none

theorem rhoRoot_lex (root : Frame) : rhoRoot root ⟨[], .lexical⟩ = fun n => lookup n root.members := by simp [rhoRoot]
theorem rhoRoot_var (root : Frame) : rhoRoot root ⟨[], .variable⟩ = fun n => lookup n root.members := by simp [rhoRoot]

/-- the module scope against the two outermost environments -/
theorem root_ok {syms : Syms} {root : Frame} {lexN varN : List Name} (hk : root.kind ≠ .with_)
    (hhas : ∀ n, (lookup n root.members).isSome = (lexN.contains n || varN.contains n))
    (hkn : ∀ n m, lookup n root.members = some m → Known syms m) :
    RootOK (rhoRoot root) syms [⟨⟨[], .lexical⟩, lexN⟩, ⟨⟨[], .variable⟩, varN⟩] root := by
  refine ⟨hk, fun n => ?_⟩
  have hb := hhas n
  simp only [resolve]
  cases hcL : lexN.contains n with
  | true =>
    rw [hcL] at hb
    cases hl : lookup n root.members with
    | none => rw [hl] at hb; simp at hb
    | some m =>
      refine ⟨fun b hb' => ?_, fun hb' => by simp at hb'⟩
      simp only [if_true, Option.some.injEq] at hb'
      subst hb'
      exact ⟨m, m, rfl, by simp [rhoRoot_lex, hl], .refl _, hkn n m hl⟩
  | false =>
    cases hcV : varN.contains n with
    | true =>
      rw [hcL, hcV] at hb
      cases hl : lookup n root.members with
      | none => rw [hl] at hb; simp at hb
      | some m =>
        refine ⟨fun b hb' => ?_, fun hb' => by simp at hb'⟩
        simp only [Bool.false_eq_true, if_false, if_true, Option.some.injEq] at hb'
        subst hb'
        exact ⟨m, m, rfl, by simp [rhoRoot_var, hl], .refl _, hkn n m hl⟩
    | false =>
      rw [hcL, hcV] at hb
      refine ⟨fun b hb' => by simp at hb', fun _ m hm => ?_⟩
      rw [hm] at hb; simp at hb

/-- the context of the top-level statements (Program.walk) -/
def progCtx (p : Program) : Ctx :=
  ⟨p.module || p.strict,
    [⟨⟨[], .lexical⟩, if p.module then lexNames p.body else topLexNames p.body⟩,
     ⟨⟨[], .variable⟩, varNamesL p.body ++ (if p.module then [] else topFnNames p.body ++
        (if (p.module || p.strict) then [] else annexBFn [] p.body))⟩],
    ⟨[], .variable⟩, ⟨[], .lexical⟩, if p.module then lexNames p.body else topLexNames p.body, [], [], true, p.module⟩

theorem walk_eq (p : Program) : p.walk = walkList [] 0 (progCtx p) p.body := rfl

/-- **The lookup theorem on flat programs**, in terms of a symbol for every binding: every declaration occurrence is
joined to the symbol of the binding it declares, every reference to that of the binding it resolves to -/
theorem lookup_flat (p : Program) (r : Result) (h : runProgram p = some r) (hflat : p.flat = true)
    (hne : p.earlyError = false) :
    (∃ ρ : Rho, All2 (DeclOK ρ r.syms) r.declRefs p.walk.decls ∧ All2 (RefOK ρ r.syms) r.refs p.walk.refs) ∧
    LinksInc r.syms := by
  unfold runProgram run at h
  simp only at h
  split at h
  · cases h
  next pc hp =>
  -- the parse pass
  have hci0 : CInv ⟨⟨.entry, if p.strict = true then 1 else 0, [], [], [], none, false⟩, [], ⟨[], [], []⟩⟩ :=
    ⟨fun n r h => by simp [lookup] at h, by simp [keys], fun i s h => by simp at h, fun _ n m h => by simp [lookup] at h⟩
  obtain ⟨hfi, hok, _⟩ := list_flatItems p.body true hflat
  obtain ⟨hci, hpe, _, hme, ds, ks, hds, hks, hfacts⟩ := parseItems_conn _ _ pc hp hci0 (by simpa [hasBody] using hok)
  have herr := parse_errs_nil p pc hp hne
  have hinc0 : LinksInc pc.st.syms :=
    parseItems_inc _ _ pc hp hci0 (by simpa [hasBody] using hok) (fun i l hl => by simp [linkOf] at hl)
  have hfacts' := hfacts (by rw [herr])
  simp only [List.nil_append] at hds hks
  -- hoistSymbols
  split at h
  · cases h
  next anc2 tree2 hst hh =>
  have hnh0 : noHoistSc pc.st.syms (.node pc.cur pc.kids) := by
    simp only [noHoistSc]
    refine ⟨Or.inl ?_, ?_⟩
    · rw [hpe.kind]; rfl
    · rw [hks]; exact facts_noHoist_items _ _ _ _ true hfacts' hfi
  have hsm : SameM (.node pc.cur pc.kids)
      (if p.module = true then setStrictRec 3 (.node pc.cur pc.kids) else .node pc.cur pc.kids) := by
    split
    · exact setStrictRec_sameM _ _
    · exact sameM_refl _
  obtain ⟨_, htree, hsyms, hhmap⟩ := hoistSc_flat p.module _ [] _ _ _ _ hh (noHoist_sameM _ _ hsm hnh0)
  subst htree
  generalize (if p.module = true then setStrictRec 3 (Sc.node pc.cur pc.kids) else Sc.node pc.cur pc.kids) = tree1 at hsm h hh
  cases tree1 with
  | node f' kids' =>
  simp only [SameM] at hsm
  obtain ⟨hfk, hfm, hkids⟩ := hsm
  simp only [Sc.frame, Sc.children] at h
  simp only at hsyms hhmap
  -- the visit pass
  split at h
  · cases h
  next v hvis =>
  cases h
  simp only
  have hk3 := LinksKept.append pc.st.syms [⟨.unbound, nameRequire, none, false⟩, ⟨.hoisted, nameExports, none, false⟩,
    ⟨.hoisted, nameModule, none, false⟩]
  have he3 := SymsExt.append pc.st.syms [⟨.unbound, nameRequire, none, false⟩, ⟨.hoisted, nameExports, none, false⟩,
    ⟨.hoisted, nameModule, none, false⟩]
  rw [hsyms] at hvis
  have hroot_has : ∀ n, (lookup n f'.members).isSome =
      ((if p.module then lexNames p.body else topLexNames p.body).contains n ||
        (varNamesL p.body ++ (if p.module then [] else topFnNames p.body ++
          (if (p.module || p.strict) then [] else annexBFn [] p.body))).contains n) := by
    intro n
    rw [hfm, hme.has n, hasAfterL_eq, (list_declares n p.body true hflat).1, (list_declares n p.body true hflat).2,
      prog_names hflat]
    simp [lookup]
  have hkn := known_of_names hci.names hci.argsK he3
  have hrk : f'.kind = .entry := by rw [hfk, hpe.kind]
  have hroot := root_ok (syms := pc.st.syms ++ [⟨.unbound, nameRequire, none, false⟩, ⟨.hoisted, nameExports, none, false⟩,
    ⟨.hoisted, nameModule, none, false⟩]) (root := f') (by rw [hrk]; decide) hroot_has (by rw [hfm]; exact hkn)
  have hsome : ∀ n, (lookup n f'.members).isSome = true → ∃ m, lookup n f'.members = some m := by
    intro n hn
    cases hl : lookup n f'.members with
    | none => rw [hl] at hn; cases hn
    | some m => exact ⟨m, rfl⟩
  have hvr : VRel (rhoRoot f') []
      [⟨⟨[], .lexical⟩, if p.module then lexNames p.body else topLexNames p.body⟩,
       ⟨⟨[], .variable⟩, varNamesL p.body ++ (if p.module then [] else topFnNames p.body ++
          (if (p.module || p.strict) then [] else annexBFn [] p.body))⟩]
      f' (if p.module then lexNames p.body else topLexNames p.body)
      (varNamesL p.body ++ (if p.module then [] else topFnNames p.body ++
          (if (p.module || p.strict) then [] else annexBFn [] p.body)))
      ⟨f', kids', [], [], [], none, none, ⟨pc.st.syms ++ [⟨.unbound, nameRequire, none, false⟩,
        ⟨.hoisted, nameExports, none, false⟩, ⟨.hoisted, nameModule, none, false⟩], [], hst.hmap, pc.st.declRefs⟩⟩
      (progCtx p) := by
    refine ⟨rfl, rfl, ?_, hroot, rfl, rfl, ?_, ?_, ?_⟩
    · intro l hl; cases hl
    · intro _; show f'.kind.stopsHoisting = true; rw [hrk]; rfl
    · intro n hn
      obtain ⟨m, hm⟩ := hsome n (by
        rw [hroot_has, Bool.or_eq_true]; exact Or.inl (List.contains_iff_mem.mpr hn))
      exact ⟨m, m, hm, by simp [progCtx, rhoRoot_lex, hm], .refl _⟩
    · intro n hn
      obtain ⟨m, hm⟩ := hsome n (by
        rw [hroot_has, Bool.or_eq_true]; exact Or.inr (List.contains_iff_mem.mpr hn))
      exact ⟨m, m, hm, by simp [progCtx, rhoRoot_var, hm], .refl _⟩
  have hpk : POK (progCtx p) [] := by
    refine ⟨fun e he => ?_, List.prefix_refl _, List.prefix_refl _⟩
    simp only [progCtx, List.mem_cons, List.not_mem_nil, or_false] at he
    rcases he with he | he <;> rw [he] <;> exact List.prefix_refl _
  have hv0 := visitList_flat p.body [] 0 (progCtx p) _ v _ [] _ f' _ _ pc.st.syms pc.cur.members ds [] kids' [] hvis
    (show flatL true p.body = true from hflat) hvr hpk
    (factsItems_sameM _ _ _ _ _ (hks ▸ hfacts') hkids)
    ⟨hk3, he3, hci.argsK, hci.names, by rw [hfm]; exact .refl _⟩ (by simp [hds]) (by simp)
    (fun s hs => ⟨fun n hn => by
        simp only [progCtx] at hn
        cases hm : p.module
        · simp only [hm] at hn ⊢; exact lexDecl_topLex hs hn
        · simp only [hm] at hn ⊢; exact lexDecl_lexNames hs hn,
      fun n hn => by
        simp only [progCtx] at hn
        simp only [flat_varNames_top p.body hflat, List.mem_append]
        rcases varDecl_top hs hn with h1 | h1
        · exact Or.inl h1
        · right; simp [h1.1, h1.2]⟩)
  obtain ⟨ρ', root', rs, _, hv', _, _, _, _, _, _, hrefs, hfin⟩ := hv0
  have hpin := pinMembers_kept v.cur v.st.syms
  obtain ⟨hd, hr⟩ := hfin ρ' (pinMembers v.cur v.st.syms) (fun _ _ => rfl) hpin.1 hpin.2
  simp only [List.nil_append] at hrefs
  refine ⟨⟨ρ', ?_, ?_⟩, ?_⟩
  · rw [hds]; exact hd
  · rw [hrefs]; exact hr
  · have hq := visitItems_quiet _ _ v hvis (by
      show flatItems f'.kind.stopsHoisting (listItems p.body) = true
      rw [hrk]; exact hfi) rfl rfl
    have hinc3 : LinksInc (pc.st.syms ++ [⟨.unbound, nameRequire, none, false⟩, ⟨.hoisted, nameExports, none, false⟩,
        ⟨.hoisted, nameModule, none, false⟩]) := by
      have := ((hinc0.append .unbound nameRequire).append .hoisted nameExports).append .hoisted nameModule
      simpa using this
    have hpe := pinMembers_eq v.cur v.st.syms
    exact (hinc3.of_eq hq.links hq.len).of_eq hpe.1 (by rw [hpe.2]; exact Nat.le_refl _)

-- joined symbols and ast.FollowSymbols ------------------------------------------------------------------------------------

theorem follow_succ_link {syms : Syms} {a b : Nat} (h : linkOf syms a = some b) (f : Nat) :
    follow (f + 1) syms a = follow f syms b := by
  unfold linkOf at h
  simp only [follow]
  cases hs : syms[a]? with
  | none => rw [hs] at h; cases h
  | some s =>
    rw [hs] at h
    simp only [Option.bind_some] at h
    simp [h]

theorem follow_mono {syms : Syms} : ∀ (f : Nat) (a r : Nat), follow f syms a = some r → follow (f + 1) syms a = some r
  | 0, _, _, h => by simp [follow] at h
  | f + 1, a, r, h => by
    simp only [follow] at h ⊢
    cases hs : syms[a]? with
    | none => rw [hs] at h; cases h
    | some s =>
      rw [hs] at h
      simp only at h ⊢
      cases hl : s.link with
      | none => rw [hl] at h; exact h
      | some l =>
        rw [hl] at h
        simp only at h ⊢
        have := follow_mono f l r h
        simp only [follow] at this
        exact this

theorem follow_mono_le {syms : Syms} {f f' a r : Nat} (hle : f ≤ f') (h : follow f syms a = some r) :
    follow f' syms a = some r := by
  induction hle with
  | refl => exact h
  | step _ ih => exact follow_mono _ _ _ ih

/-- following links from `a` ends in `r` -/
def Root (syms : Syms) (a r : Nat) : Prop := ∃ f, follow f syms a = some r

theorem Root.unique {syms : Syms} {a r r' : Nat} (h : Root syms a r) (h' : Root syms a r') : r = r' := by
  obtain ⟨f, hf⟩ := h
  obtain ⟨f', hf'⟩ := h'
  have h1 := follow_mono_le (Nat.le_max_left f f') hf
  have h2 := follow_mono_le (Nat.le_max_right f f') hf'
  rw [h1] at h2; cases h2; rfl

theorem root_link {syms : Syms} {a b : Nat} (h : linkOf syms a = some b) (r : Nat) : Root syms a r ↔ Root syms b r := by
  constructor
  · rintro ⟨f, hf⟩
    cases f with
    | zero => simp [follow] at hf
    | succ f => rw [follow_succ_link h] at hf; exact ⟨f, hf⟩
  · rintro ⟨f, hf⟩
    exact ⟨f + 1, by rw [follow_succ_link h]; exact hf⟩

theorem Conn.root {syms : Syms} {a b : Nat} (h : Conn syms a b) : ∀ r, Root syms a r ↔ Root syms b r := by
  induction h with
  | refl _ => exact fun _ => Iff.rfl
  | link hl => exact root_link hl
  | symm _ ih => exact fun r => (ih r).symm
  | trans _ _ ih1 ih2 => exact fun r => (ih1 r).trans (ih2 r)

/-- joined symbols are the same symbol for ast.FollowSymbols -/
theorem Conn.followSym {syms : Syms} {a b ra rb : Nat} (h : Conn syms a b) (ha : followSym syms a = some ra)
    (hb : followSym syms b = some rb) : ra = rb :=
  Root.unique ((h.root ra).mp ⟨_, ha⟩) ⟨_, hb⟩

/-- when every link goes to a later symbol, ast.FollowSymbols terminates on every symbol of the table -/
theorem follow_total {syms : Syms} (h : LinksInc syms) : ∀ (d i : Nat), syms.length - i ≤ d → i < syms.length →
    ∃ r, follow (d + 1) syms i = some r
  | d, i, hd, hi => by
    simp only [follow]
    rw [List.getElem?_eq_getElem hi]
    simp only
    cases hl : syms[i].link with
    | none => exact ⟨i, rfl⟩
    | some l =>
      have hlk : linkOf syms i = some l := by simp [linkOf, List.getElem?_eq_getElem hi, hl]
      obtain ⟨h1, h2⟩ := h i l hlk
      simp only
      cases d with
      | zero => omega
      | succ d => exact follow_total h d l (by omega) h2

theorem followSym_total {syms : Syms} (h : LinksInc syms) {i : Nat} (hi : i < syms.length) :
    ∃ r, followSym syms i = some r := by
  obtain ⟨r, hr⟩ := follow_total h (syms.length - i) i (Nat.le_refl _) hi
  exact ⟨r, follow_mono_le (by omega) hr⟩

/-- joined symbols, one of which is in the table: ast.FollowSymbols maps both to the same symbol -/
theorem Conn.followSym_eq {syms : Syms} (h : LinksInc syms) {x s : Nat} (hc : Conn syms x s) (hs : s < syms.length) :
    ∃ rs, Scopes.followSym syms x = some rs ∧ Scopes.followSym syms s = some rs := by
  obtain ⟨rs, hrs⟩ := followSym_total h hs
  have hrx : Root syms x rs := (hc.root rs).mpr ⟨_, hrs⟩
  have hx : x < syms.length := by
    rcases Nat.lt_or_ge x syms.length with h1 | h1
    · exact h1
    · obtain ⟨f, hf⟩ := hrx
      cases f with
      | zero => simp [follow] at hf
      | succ f => simp [follow, List.getElem?_eq_none h1] at hf
  obtain ⟨rx, hrx'⟩ := followSym_total h hx
  have : rx = rs := Root.unique ⟨_, hrx'⟩ hrx
  subst this
  exact ⟨rx, hrx', hrs⟩

-- the statement of the lookup theorem for one reference ---------------------------------------------------------------

/-- what the theorem says about the symbol `s` of reference number `j` -/
def RefAgrees (r : Result) (w : Walk) (s : Nat) : Option (Option Binding) → Prop
  | some (some b) =>
    -- the spec resolves the reference to the binding `b`: the symbol is bound, and it is the symbol of every declaration
    -- occurrence of `b`
    Known r.syms s ∧
    ∀ (i d : Nat) (bs : List Binding) (k : Nat), r.declRefs[i]? = some d → w.decls[i]? = some bs → bs[k]? = some b →
      ∃ x, declSym r d k = some x ∧ Conn r.syms x s
  | some none => kindOf? r.syms s = some .unbound   -- unresolvable: a global
  | none => False

end EsbuildModel.Scopes
