import EsbuildModel.Lemmas.Lower3SimAsg
/-!
The final induction over source terms: the lowered term simulates the source term (same value, trace and
variables unless the source run leaves the model), writes only temporaries below the counter the lowering
returns, and is of the shape the enclosing lowering steps rely on.
-/
namespace EsbuildModel.Lower3

def EOK (w : World) (e : E) (n : Nat) : Prop :=
  SimB w (lowerE e n).1 e ∧ (lowerE e n).1.wr (ltB (lowerE e n).2) = true ∧ n ≤ (lowerE e n).2 ∧
  (lowerE e n).1.asId = e.asId ∧ ∀ j, (lowerE e n).1 ≠ .tmp j

def PLOK (w : World) (ps : PL) (n : Nat) : Prop :=
  (∀ af seg t s s', s.h = s'.h →
    RelR (evalPL w true (lowerPL ps n).1 af seg t s) (evalPL w true ps af seg t s')) ∧
  (lowerPL ps n).1.wr (ltB (lowerPL ps n).2) = true ∧ n ≤ (lowerPL ps n).2

def PatOKn (w : World) (p : Pat) (n : Nat) : Prop :=
  (∀ B, (lowerPat p n).2 ≤ B → PatOK w B (lowerPat p n).1 p) ∧ n ≤ (lowerPat p n).2 ∧
  (lowerPat p n).1.hasRest = p.hasRest

def PPLOK (w : World) (ps : PPL) (n : Nat) : Prop :=
  (∀ B, (lowerPPL ps n).2 ≤ B → PropsOK w B (lowerPPL ps n).1 ps) ∧ n ≤ (lowerPPL ps n).2 ∧
  (lowerPPL ps n).1.hasRest = ps.hasRest

theorem patOK_var (w : World) (B x : Nat) : PatOK w B (.var x) (.var x) := by
  refine ⟨rfl, fun v s s' hh => Or.inr ⟨rfl, by simp [bindPat, setVar, hh]⟩, ?_⟩
  intro n init' I s s' _ _ _ hI
  simp only [visitPat, runAL_one]
  refine RelR.bindQ hI (fun v s1 s1' _ _ hh1 => ?_)
  exact Or.inr ⟨rfl, by simp [bindPat, setVar, hh1], fun _ _ => trivial⟩

theorem wrE_up {e : E} {n m : Nat} (h : e.wr (ltB n) = true) (hm : n ≤ m) : e.wr (ltB m) = true :=
  E.wr_mono (ltB_mono n m hm) e h

mutual
theorem thmE (w : World) (hq : Quiet w) : ∀ (e : E), e.src = true → ∀ n, EOK w e n
  | .id x, _, n => ⟨fun s s' hh => Or.inr ⟨by simp [lowerE, evalE, hh], hh⟩, rfl, Nat.le_refl _, rfl, fun j h => by cases h⟩
  | .lit v, _, n => ⟨fun s s' hh => Or.inr ⟨rfl, hh⟩, rfl, Nat.le_refl _, rfl, fun j h => by cases h⟩
  | .call f a, hs, n => by
    simp only [E.src] at hs
    obtain ⟨h1, h2, h3, _, _⟩ := thmE w hq a hs n
    refine ⟨fun s s' hh => ?_, by simpa only [lowerE, E.wr] using h2, by simpa only [lowerE] using h3, rfl, fun j h => by cases h⟩
    simp only [lowerE, evalE]
    exact RelR.bind (h1 s s' hh) (fun v s1 s1' hh1 => RelR.liftH _ s1 s1' hh1)
  | .obj ps, hs, n => by
    simp only [E.src] at hs
    obtain ⟨h1, h2, h3⟩ := thmPL w hq ps hs n
    have hp := lowerSpread_plain (lowerPL ps n).1
    refine ⟨fun s s' hh => ?_, by simpa only [lowerE] using lowerSpread_wr _ _ h2, by simpa only [lowerE] using h3,
      by simpa only [lowerE, E.asId] using hp.1, by simpa only [lowerE] using hp.2⟩
    simp only [lowerE]
    refine (lowerSpread_ok w hq (lowerPL ps n).1 s).toR ?_
    simp only [evalE]
    exact RelR.bind (h1 false [] Rec.empty s s' hh) (fun r s1 s1' hh1 => Or.inr ⟨rfl, hh1⟩)
  | .asg p rhs, hs, n => by
    simp only [E.src, Bool.and_eq_true] at hs
    obtain ⟨p1, p2, p3⟩ := thmPat w hq p hs.1 n
    obtain ⟨r1, r2, r3, _, _⟩ := thmE w hq rhs hs.2 (lowerPat p n).2
    have hpat := p1 (lowerE rhs (lowerPat p n).2).2 r3
    have hw := lowerAsgUsed_wr (lowerPat p n).1 (lowerE rhs (lowerPat p n).2).1 (lowerE rhs (lowerPat p n).2).2 hpat.wr r2
    have hpl := lowerAsgUsed_plain (lowerPat p n).1 (lowerE rhs (lowerPat p n).2).1 (lowerE rhs (lowerPat p n).2).2
    refine ⟨?_, by simpa only [lowerE] using hw.2, by simp only [lowerE]; omega, by simpa only [lowerE, E.asId] using hpl.1,
      by simpa only [lowerE] using hpl.2⟩
    simp only [lowerE]
    by_cases hrest : (lowerPat p n).1.hasRest = true
    · exact asgUsed_ok w _ p _ rhs _ _ (Nat.le_refl _) hpat r1 r2 hrest
    · intro s s' hh
      simp only [lowerAsgUsed, hrest, if_false, Bool.false_eq_true, evalE]
      refine RelR.bind (r1 s s' hh) (fun v s1 s1' hh1 => ?_)
      exact RelR.bind (hpat.native v s1 s1' hh1) (fun _ s2 s2' hh2 => Or.inr ⟨rfl, hh2⟩)
  | .seq a b, hs, n => by
    simp only [E.src, Bool.and_eq_true] at hs
    obtain ⟨a1, a2, a3, _, _⟩ := thmE w hq a hs.1 n
    obtain ⟨b1, b2, b3, _, _⟩ := thmE w hq b hs.2 (lowerE a n).2
    refine ⟨fun s s' hh => ?_, by simp only [lowerE, E.wr, wrE_up a2 b3, b2, Bool.and_self], by simp only [lowerE]; omega, rfl,
      fun j h => by cases h⟩
    simp only [lowerE, evalE]
    exact RelR.bind (a1 s s' hh) (fun _ s1 s1' hh1 => b1 s1 s1' hh1)
  | .tmp _, hs, _ => by simp [E.src] at hs
  | .spreadValues _ _, hs, _ => by simp [E.src] at hs
  | .spreadProps _ _, hs, _ => by simp [E.src] at hs
  | .objRest _ _, hs, _ => by simp [E.src] at hs
theorem thmPL (w : World) (hq : Quiet w) : ∀ (ps : PL), ps.src = true → ∀ n, PLOK w ps n
  | .nil, _, n => ⟨fun af seg t s s' hh => Or.inr ⟨rfl, hh⟩, rfl, Nat.le_refl _⟩
  | .data k ke v rest, hs, n => by
    simp only [PL.src, Bool.and_eq_true] at hs
    obtain ⟨k1, k2, k3, _, _⟩ := thmE w hq ke hs.1.1 n
    obtain ⟨v1, v2, v3, _, _⟩ := thmE w hq v hs.1.2 (lowerE ke n).2
    obtain ⟨r1, r2, r3⟩ := thmPL w hq rest hs.2 (lowerE v (lowerE ke n).2).2
    refine ⟨fun af seg t s s' hh => ?_, by simp only [lowerPL, PL.wr, wrE_up k2 (Nat.le_trans v3 r3), wrE_up v2 r3, r2, Bool.and_self],
      by simp only [lowerPL]; omega⟩
    simp only [lowerPL, evalPL]
    refine RelR.bind (keyOf_sim w _ k _ _ s s' hh (k1 s s' hh)) (fun kv s1 s1' hh1 => ?_)
    exact RelR.bind (v1 s1 s1' hh1) (fun vv s2 s2' hh2 => r1 _ _ _ s2 s2' hh2)
  | .getter k ke g rest, hs, n => by
    simp only [PL.src, Bool.and_eq_true] at hs
    obtain ⟨k1, k2, k3, _, _⟩ := thmE w hq ke hs.1 n
    obtain ⟨r1, r2, r3⟩ := thmPL w hq rest hs.2 (lowerE ke n).2
    refine ⟨fun af seg t s s' hh => ?_, by simp only [lowerPL, PL.wr, wrE_up k2 r3, r2, Bool.and_self], by simp only [lowerPL]; omega⟩
    simp only [lowerPL, evalPL]
    refine RelR.bind (keyOf_sim w _ k _ _ s s' hh (k1 s s' hh)) (fun kv s1 s1' hh1 => ?_)
    split
    · exact Or.inl trivial
    · exact r1 _ _ _ s1 s1' hh1
  | .setter k ke f rest, hs, n => by
    simp only [PL.src, Bool.and_eq_true] at hs
    obtain ⟨k1, k2, k3, _, _⟩ := thmE w hq ke hs.1 n
    obtain ⟨r1, r2, r3⟩ := thmPL w hq rest hs.2 (lowerE ke n).2
    refine ⟨fun af seg t s s' hh => ?_, by simp only [lowerPL, PL.wr, wrE_up k2 r3, r2, Bool.and_self], by simp only [lowerPL]; omega⟩
    simp only [lowerPL, evalPL]
    refine RelR.bind (keyOf_sim w _ k _ _ s s' hh (k1 s s' hh)) (fun kv s1 s1' hh1 => ?_)
    split
    · exact Or.inl trivial
    · exact r1 _ _ _ s1 s1' hh1
  | .proto v rest, hs, n => by
    simp only [PL.src, Bool.and_eq_true] at hs
    obtain ⟨v1, v2, v3, _, _⟩ := thmE w hq v hs.1 n
    obtain ⟨r1, r2, r3⟩ := thmPL w hq rest hs.2 (lowerE v n).2
    refine ⟨fun af seg t s s' hh => ?_, by simp only [lowerPL, PL.wr, wrE_up v2 r3, r2, Bool.and_self], by simp only [lowerPL]; omega⟩
    simp only [lowerPL, evalPL]
    refine RelR.bind (v1 s s' hh) (fun pv s1 s1' hh1 => ?_)
    split
    · split
      · exact Or.inl trivial
      · exact r1 _ _ _ s1 s1' hh1
    · exact r1 _ _ _ s1 s1' hh1
  | .spread e rest, hs, n => by
    simp only [PL.src, Bool.and_eq_true] at hs
    obtain ⟨e1, e2, e3, _, _⟩ := thmE w hq e hs.1 n
    obtain ⟨r1, r2, r3⟩ := thmPL w hq rest hs.2 (lowerE e n).2
    refine ⟨fun af seg t s s' hh => ?_, by simp only [lowerPL, PL.wr, wrE_up e2 r3, r2, Bool.and_self], by simp only [lowerPL]; omega⟩
    simp only [lowerPL, evalPL]
    refine RelR.bind (e1 s s' hh) (fun sv s1 s1' hh1 => ?_)
    exact RelR.bind (RelR.liftH _ s1 s1' hh1) (fun t1 s2 s2' hh2 => r1 _ _ _ s2 s2' hh2)
theorem thmPat (w : World) (hq : Quiet w) : ∀ (p : Pat), p.src = true → ∀ n, PatOKn w p n
  | .var x, _, n => ⟨fun B _ => patOK_var w B x, Nat.le_refl _, rfl⟩
  | .tmp _, hs, _ => by simp [Pat.src] at hs
  | .obj ps rest, hs, n => by
    simp only [Pat.src] at hs
    obtain ⟨p1, p2, p3⟩ := thmPPL w hq ps hs n
    refine ⟨fun B hB => ?_, by simpa only [lowerPat] using p2, by simp only [lowerPat, Pat.hasRest, p3]⟩
    simp only [lowerPat] at hB ⊢
    have hp := p1 B hB
    exact ⟨by simpa only [Pat.wr] using hp.wr, fun v s s' hh => pat_native_obj w B rest hp v s s' hh, visitObj_ok w hq B rest hp⟩
theorem thmPPL (w : World) (hq : Quiet w) : ∀ (ps : PPL), ps.src = true → ∀ n, PPLOK w ps n
  | .nil, _, n => ⟨fun B _ => PropsOK.nil, Nat.le_refl _, rfl⟩
  | .prop k ke t hd d tl, hs, n => by
    simp only [PPL.src, Bool.and_eq_true] at hs
    obtain ⟨k1, k2, k3, k4, k5⟩ := thmE w hq ke hs.1.1.1 n
    obtain ⟨t1, t2, t3⟩ := thmPat w hq t hs.1.1.2 (lowerE ke n).2
    obtain ⟨d1, d2, d3, _, _⟩ := thmE w hq d hs.1.2 (lowerPat t (lowerE ke n).2).2
    obtain ⟨r1, r2, r3⟩ := thmPPL w hq tl hs.2 (lowerE d (lowerPat t (lowerE ke n).2).2).2
    refine ⟨fun B hB => ?_, by simp only [lowerPPL]; omega, by simp only [lowerPPL, PPL.hasRest, t3, r3]⟩
    simp only [lowerPPL] at hB ⊢
    exact PropsOK.cons k1 (wrE_up k2 (by omega)) k4 k5 d1 (wrE_up d2 (by omega)) (t1 B (by omega)) (r1 B hB)
end

end EsbuildModel.Lower3
