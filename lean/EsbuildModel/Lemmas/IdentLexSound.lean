import EsbuildModel.Lemmas.IdentLexNext
/-! Inversion of the two passes of `scanIdentifierWithEscapes`: what a token that `next` returns was made of. -/
namespace EsbuildModel.IdentLex
open EsbuildModel.Spec.JsIdentifier
open EsbuildModel.Spec.StrLit (isHexDigit digitsMV)
open EsbuildModel.StrLex

/-! ### first pass -/

theorem pass1_brace_inv (T : Tables) (l : List Nat) (i j : Nat) (h : pass1 T .brace l i = .ok j) :
    ∃ ds l', l = ds ++ 125 :: l' ∧ (∀ d ∈ ds, isHexDigit d = true) ∧ pass1 T .top l' (i + ds.length + 1) = .ok j := by
  induction l generalizing i with
  | nil => simp [pass1] at h
  | cons c r ih =>
    simp only [pass1] at h
    by_cases hc : c = 125
    · subst hc
      exact ⟨[], r, rfl, by simp, by simpa using h⟩
    · simp only [hc, if_false] at h
      by_cases hx : isHex c = true
      · simp only [hx, if_true] at h
        obtain ⟨ds, l', rfl, hds, hp⟩ := ih (i + 1) h
        refine ⟨c :: ds, l', rfl, ?_, ?_⟩
        · intro d hd
          rcases List.mem_cons.1 hd with rfl | hd
          · rw [← isHex_eq]; exact hx
          · exact hds d hd
        · rw [← hp]; congr 1; simp; omega
      · simp [hx] at h

theorem pass1_escape_inv (T : Tables) (l : List Nat) (i j : Nat) (h : pass1 T .afterBackslash l (i + 1) = .ok j) :
    ∃ e l', 92 :: l = e.text ++ l' ∧ Shape T e ∧ isCharElem e = false ∧ pass1 T .top l' (i + e.text.length) = .ok j := by
  cases l with
  | nil => simp [pass1] at h
  | cons u r =>
    simp only [pass1] at h
    by_cases hu : u = 117
    · subst hu
      simp only [if_true] at h
      cases r with
      | nil => simp [pass1] at h
      | cons a r1 =>
        simp only [pass1] at h
        by_cases ha : a = 123
        · subst ha
          simp only [if_true] at h
          obtain ⟨ds, l', rfl, hds, hp⟩ := pass1_brace_inv T r1 _ j h
          refine ⟨.escBrace ds, l', by simp [Elem.text], hds, rfl, ?_⟩
          rw [← hp]; congr 1; simp [Elem.text]; omega
        · simp only [ha, if_false] at h
          by_cases hxa : isHex a = true
          · simp only [hxa, if_true] at h
            cases r1 with
            | nil => simp [pass1] at h
            | cons b r2 =>
              simp only [pass1] at h
              by_cases hxb : isHex b = true
              · simp only [hxb, if_true] at h
                cases r2 with
                | nil => simp [pass1] at h
                | cons c r3 =>
                  simp only [pass1] at h
                  by_cases hxc : isHex c = true
                  · simp only [hxc, if_true] at h
                    cases r3 with
                    | nil => simp [pass1] at h
                    | cons d r4 =>
                      simp only [pass1] at h
                      by_cases hxd : isHex d = true
                      · simp only [hxd, if_true] at h
                        refine ⟨.esc4 a b c d, r4, by simp [Elem.text], ?_, rfl, ?_⟩
                        · simp only [Shape, ← isHex_eq]; exact ⟨hxa, hxb, hxc, hxd⟩
                        · rw [← h]; congr 1
                      · simp [hxd] at h
                  · simp [hxc] at h
              · simp [hxb] at h
          · simp [hxa] at h
    · simp [hu] at h

/-- the first pass walked over a sequence of elements and stopped in front of `l'` -/
theorem pass1_inv (T : Tables) (n : Nat) : ∀ (l : List Nat) (i j : Nat), l.length ≤ n → pass1 T .top l i = .ok j →
    ∃ es l', l = textOf es ++ l' ∧ (∀ e ∈ es, Shape T e) ∧ j = i + (textOf es).length := by
  induction n with
  | zero =>
    intro l i j hl h
    have : l = [] := by cases l with | nil => rfl | cons _ _ => simp at hl
    subst this
    simp only [pass1] at h; injection h with h
    exact ⟨[], [], rfl, by simp, by simp [textOf, h]⟩
  | succ n ih =>
    intro l i j hl h
    cases l with
    | nil =>
      simp only [pass1] at h; injection h with h
      exact ⟨[], [], rfl, by simp, by simp [textOf, h]⟩
    | cons c r =>
      simp only [pass1] at h
      by_cases hc : c = 92
      · subst hc
        simp only [if_true] at h
        obtain ⟨e, l', heq, hsh, hne, hp⟩ := pass1_escape_inv T r i j h
        have hlen : l'.length ≤ n := by
          have := congrArg List.length heq
          have hpos : 0 < e.text.length := by cases e <;> simp [Elem.text]
          simp only [List.length_cons, List.length_append] at this hl
          omega
        obtain ⟨es, l'', rfl, hes, hj⟩ := ih l' _ j hlen hp
        refine ⟨e :: es, l'', by rw [heq, textOf_cons, List.append_assoc], ?_, ?_⟩
        · intro x hx; rcases List.mem_cons.1 hx with rfl | hx
          · exact hsh
          · exact hes x hx
        · rw [hj, textOf_cons]; simp; omega
      · simp only [hc, if_false] at h
        by_cases hcont : isIdCont T c = true
        · simp only [hcont, if_true] at h
          obtain ⟨es, l', rfl, hes, hj⟩ := ih r (i + 1) j (by simp at hl; omega) h
          refine ⟨.char c :: es, l', by simp [textOf_cons, Elem.text], ?_, ?_⟩
          · intro x hx; rcases List.mem_cons.1 hx with rfl | hx
            · exact hcont
            · exact hes x hx
          · rw [hj, textOf_cons]; simp [Elem.text]; omega
        · simp only [hcont, Bool.false_eq_true, if_false] at h
          injection h with h
          exact ⟨[], c :: r, rfl, by simp, by simp [textOf, h]⟩

/-! ### second pass -/

/-- what the decoder is run on: plain characters other than `\` and CR, `\u` + four hex digits, `\u{` hex digits `}` -/
def DecShape : Elem → Prop
  | .char c => c ≠ 92 ∧ c ≠ 13
  | .esc4 a b c d => isHexDigit a = true ∧ isHexDigit b = true ∧ isHexDigit c = true ∧ isHexDigit d = true
  | .escBrace ds => ∀ d ∈ ds, isHexDigit d = true

theorem decShape_of_shape {T : Tables} {e : Elem} (h : Shape T e) : DecShape e := by
  cases e with
  | char c =>
    have h : isIdCont T c = true := h
    constructor <;> intro hc <;> rw [hc] at h <;> simp [isIdCont, asciiCont, asciiStart] at h
  | esc4 a b c d => exact h
  | escBrace ds => exact h

/-- an element of the right shape either has a code point, or makes the decoder stop -/
theorem step_elem_bad (e : Elem) (hs : DecShape e) (hv : e.cp = none) (l : List Nat) :
    ∃ c0 t', e.text = c0 :: t' ∧ ((∃ off, step true c0 (t' ++ l) = .fail off) ∨ (∃ n, step true c0 (t' ++ l) = .range n)) := by
  cases e with
  | char c => simp [Elem.cp, hs.1] at hv
  | esc4 a b c d =>
    obtain ⟨ha, hb, hc, hd⟩ := hs
    simp [Elem.cp, ha, hb, hc, hd] at hv
  | escBrace ds =>
    have hds : ∀ d ∈ ds, isHexDigit d = true := hs
    refine ⟨92, [117, 123] ++ ds ++ [125], by simp [Elem.text], ?_⟩
    have hbl := braceLoop_digits ds hds (125 :: l) 0 true false 3
    have hlist : [117, 123] ++ ds ++ [125] ++ l = 117 :: 123 :: (ds ++ 125 :: l) := by simp
    rw [hlist]
    cases ds with
    | nil => left; exact ⟨3, by simp [step, escape, isOct, unicode, braceLoop]⟩
    | cons d0 dr =>
      have hall : (d0 :: dr).all isHexDigit = true := by rw [List.all_eq_true]; exact hds
      have hbig : digitsMV 16 (d0 :: dr) > 1114111 := by
        simp only [Elem.cp, hall] at hv
        by_cases hle : digitsMV 16 (d0 :: dr) ≤ 1114111
        · simp [hle] at hv
        · omega
      rw [digitsMV_eq] at hbig
      have hoor := brace_out_of_range 0 false (d0 :: dr) (by omega) hbig
      right
      refine ⟨3 + (d0 :: dr).length + 1, ?_⟩
      simp only [step, escape, isOct, unicode, hbl, hoor, braceLoop]
      simp

theorem prepend_ok_inv {d : Dec} {units u : List Nat} {leg l : Option Nat} (h : d.prepend units leg = .ok u l) :
    ∃ more l', d = .ok more l' ∧ u = units ++ more := by
  cases d with
  | ok more l' => simp only [Dec.prepend] at h; injection h with h1 h2; exact ⟨more, l', rfl, h1.symm⟩
  | fail p l' => simp [Dec.prepend] at h
  | range p n => simp [Dec.prepend] at h

theorem decodeLoop_inv (es : List Elem) (hes : ∀ e ∈ es, DecShape e) (i : Nat) (units : List Nat) (leg : Option Nat)
    (h : decodeLoop true (textOf es) 0 i = .ok units leg) :
    ∃ cps : List Nat, es.map Elem.cp = cps.map some ∧ units = cps.flatMap encodeRune := by
  induction es generalizing i units leg with
  | nil =>
    simp only [textOf, List.flatMap_nil, decodeLoop] at h
    injection h with h1 _
    exact ⟨[], rfl, by simp [← h1]⟩
  | cons e r ih =>
    have hse := hes e (by simp)
    rw [textOf_cons] at h
    cases hv : e.cp with
    | none =>
      obtain ⟨c0, t', htext, hbad⟩ := step_elem_bad e hse hv (textOf r)
      rw [htext] at h
      rcases hbad with ⟨off, hoff⟩ | ⟨n, hn⟩
      · rw [List.cons_append, decodeLoop_fail true c0 _ off i hoff] at h; cases h
      · rw [List.cons_append, decodeLoop_range true c0 _ n i hn] at h; cases h
    | some v =>
      have he13 : e ≠ .char 13 := by
        intro hh; rw [hh] at hse; exact hse.2 rfl
      obtain ⟨c0, t', htext, hstep⟩ := step_elem e v hv he13 (textOf r)
      rw [htext] at h
      have := decodeLoop_emit true c0 t' (textOf r) (encodeRune v) false i hstep
      simp only [List.cons_append] at this h
      rw [this] at h
      obtain ⟨more, l', hd, hu⟩ := prepend_ok_inv h
      obtain ⟨cps, hc, hm⟩ := ih (fun x hx => hes x (by simp [hx])) _ more l' hd
      exact ⟨v :: cps, by simp [hc, hv], by simp [hu, hm]⟩

/-! ### the token -/

theorem textOf_chars_append (pre : List Nat) (es : List Elem) : textOf (pre.map Elem.char ++ es) = pre ++ textOf es := by
  rw [textOf_append, textOf_chars]

/-- what an escaped token (second pass succeeded) is made of; `pre` = the plain characters before the first escape -/
def EscapedTok (T : Tables) (isPriv : Bool) (pre : List Nat) (es : List Elem) (k : Kind) (name : List Nat) (inv : Bool) : Prop :=
  ∃ cps : List Nat, (pre.map Elem.char ++ es).map Elem.cp = cps.map some ∧ name = joinUnits (cps.flatMap encodeRune) ∧
    inv = !isIdentifierRunes T (rangeRunes (if isPriv then name.drop 1 else name)) ∧
    k = (if isPriv then .priv else if isKeyword name then .escapedKeyword else .ident)

theorem finishEscaped_inv (T : Tables) (isPriv : Bool) (src : List Nat) (len : Nat) (pre : List Nat) (es : List Elem)
    (hsplit : src.take len = pre ++ textOf es) (hpre : ∀ c ∈ pre, c ≠ 92 ∧ c ≠ 13) (hes : ∀ e ∈ es, Shape T e)
    {k : Kind} {n : Nat} {name : List Nat} {raw inv : Bool} (h : finishEscaped T isPriv src len = .tok k n name raw inv) :
    n = len ∧ raw = false ∧ EscapedTok T isPriv pre es k name inv := by
  unfold finishEscaped at h
  rw [hsplit, ← textOf_chars_append] at h
  cases hd : decode true (textOf (pre.map Elem.char ++ es)) with
  | fail p l => rw [hd] at h; cases h
  | range p m => rw [hd] at h; cases h
  | ok units leg =>
    rw [hd] at h
    have hshape : ∀ e ∈ pre.map Elem.char ++ es, DecShape e := by
      intro e he
      rcases List.mem_append.1 he with he | he
      · obtain ⟨c, hc, rfl⟩ := List.mem_map.1 he; exact hpre c hc
      · exact decShape_of_shape (hes e he)
    obtain ⟨cps, hcp, hu⟩ := decodeLoop_inv _ hshape 0 units leg hd
    subst hu
    simp only at h
    cases isPriv with
    | true =>
      simp only [if_true] at h
      injection h with h1 h2 h3 h4 h5
      exact ⟨h2.symm, h4.symm, cps, hcp, h3.symm, by simp [← h5, ← h3], by simp [← h1]⟩
    | false =>
      simp only [Bool.false_eq_true, if_false] at h
      split at h
      · rename_i hk
        injection h with h1 h2 h3 h4 h5
        exact ⟨h2.symm, h4.symm, cps, hcp, h3.symm, by simp [← h5, ← h3], by simp [← h1, ← h3, hk]⟩
      · rename_i hk
        injection h with h1 h2 h3 h4 h5
        exact ⟨h2.symm, h4.symm, cps, hcp, h3.symm, by simp [← h5, ← h3], by simp [← h1, ← h3, hk]⟩

theorem scanEscaped_inv (T : Tables) (isPriv : Bool) (src : List Nat) (pos : Nat)
    (hpre : ∀ c ∈ src.take pos, c ≠ 92 ∧ c ≠ 13)
    {k : Kind} {n : Nat} {name : List Nat} {raw inv : Bool} (h : scanEscaped T isPriv src pos = .tok k n name raw inv) :
    raw = false ∧ ∃ es, src.take n = src.take pos ++ textOf es ∧ (∀ e ∈ es, Shape T e) ∧
      EscapedTok T isPriv (src.take pos) es k name inv := by
  unfold scanEscaped at h
  cases hp : pass1 T .top (src.drop pos) pos with
  | «syntax» p => rw [hp] at h; cases h
  | ok len =>
    rw [hp] at h
    obtain ⟨es, l', hdrop, hes, hlen⟩ := pass1_inv T _ (src.drop pos) pos len (Nat.le_refl _) hp
    by_cases hpos : pos ≤ src.length
    · have hsplit : src.take len = src.take pos ++ textOf es := by
        have hsrc : src = src.take pos ++ (textOf es ++ l') := by rw [← hdrop]; simp
        have hl : (src.take pos).length = pos := by simp; omega
        conv => lhs; rw [hsrc, hlen]
        rw [← List.append_assoc, List.take_append_of_le_length (by simp; omega)]
        rw [List.take_of_length_le (by simp; omega)]
      obtain ⟨h1, h2, h3⟩ := finishEscaped_inv T isPriv src len _ es hsplit hpre hes h
      exact ⟨h2, es, by rw [h1]; exact hsplit, hes, h3⟩
    · -- the start position lies beyond the text: nothing is left to scan
      have hd : src.drop pos = [] := List.drop_of_length_le (by omega)
      have htk : src.take pos = src := List.take_of_length_le (by omega)
      have hes0 : textOf es = [] := by
        rw [hd] at hdrop
        exact (List.append_eq_nil_iff.1 hdrop.symm).1
      have hsplit : src.take len = src.take pos ++ textOf es := by
        rw [hes0, htk, List.append_nil]; exact List.take_of_length_le (by omega)
      obtain ⟨h1, h2, h3⟩ := finishEscaped_inv T isPriv src len _ es hsplit hpre hes h
      exact ⟨h2, es, by rw [h1]; exact hsplit, hes, h3⟩

theorem afterPlain_inv (T : Tables) (kf : List Nat → Kind) (isPriv : Bool) (src : List Nat) (len : Nat)
    (hpre : ∀ c ∈ src.take len, c ≠ 92 ∧ c ≠ 13)
    {k : Kind} {n : Nat} {name : List Nat} {raw inv : Bool} (h : afterPlain T kf isPriv src len = .tok k n name raw inv) :
    (raw = true ∧ n = len ∧ name = src.take len ∧ inv = false ∧ k = kf (src.take len)) ∨
    (raw = false ∧ ∃ es, src.take n = src.take len ++ textOf es ∧ (∀ e ∈ es, Shape T e) ∧
      EscapedTok T isPriv (src.take len) es k name inv) := by
  unfold afterPlain at h
  split at h
  · exact Or.inr (scanEscaped_inv T isPriv src len hpre h)
  · injection h with h1 h2 h3 h4 h5
    exact Or.inl ⟨h4.symm, h2.symm, h3.symm, h5.symm, h1.symm⟩

theorem spanLen_take (p : Nat → Bool) (l : List Nat) : ∀ c ∈ l.take (spanLen p l), p c = true := by
  induction l with
  | nil => intro c hc; simp [spanLen] at hc
  | cons x r ih =>
    intro c hc
    by_cases hx : p x = true
    · simp only [spanLen, hx, if_true, List.take_succ_cons] at hc
      rcases List.mem_cons.1 hc with rfl | hc
      · exact hx
      · exact ih c hc
    · simp [spanLen, hx] at hc

theorem finishEscaped_priv (T : Tables) (src : List Nat) (len : Nat) {k : Kind} {n : Nat} {name : List Nat} {raw inv : Bool}
    (h : finishEscaped T true src len = .tok k n name raw inv) : k = .priv := by
  unfold finishEscaped at h
  cases hd : decode true (src.take len) <;> rw [hd] at h <;> simp at h
  exact h.1.symm

theorem scanEscaped_priv (T : Tables) (src : List Nat) (pos : Nat) {k : Kind} {n : Nat} {name : List Nat} {raw inv : Bool}
    (h : scanEscaped T true src pos = .tok k n name raw inv) : k = .priv := by
  unfold scanEscaped at h
  cases hp : pass1 T .top (src.drop pos) pos with
  | «syntax» p => rw [hp] at h; cases h
  | ok len => rw [hp] at h; exact finishEscaped_priv T src len h

theorem afterPlain_priv (T : Tables) (src : List Nat) (len : Nat) {k : Kind} {n : Nat} {name : List Nat} {raw inv : Bool}
    (h : afterPlain T (fun _ => .priv) true src len = .tok k n name raw inv) : k = .priv := by
  unfold afterPlain at h
  split at h
  · exact scanEscaped_priv T src len h
  · injection h with h1; exact h1.symm

theorem not_92_13_of_start {T : Tables} {c : Nat} (h : isIdStart T c = true) : c ≠ 92 ∧ c ≠ 13 := by
  constructor <;> intro hc <;> rw [hc] at h <;> simp [isIdStart, asciiStart] at h

theorem not_92_13_of_cont {T : Tables} {c : Nat} (h : isIdCont T c = true) : c ≠ 92 ∧ c ≠ 13 := by
  constructor <;> intro hc <;> rw [hc] at h <;> simp [isIdCont, asciiCont, asciiStart] at h

/-- a plain beginning of a name: nothing (the name starts with an escape), or a start character and continue characters -/
def PlainOK (T : Tables) (pre : List Nat) : Prop :=
  pre = [] ∨ ∃ c r, pre = c :: r ∧ isIdStart T c = true ∧ ∀ d ∈ r, isIdCont T d = true

/-- the parts of a token: plain characters `pre`, then elements `es` beginning with an escape -/
def TokParts (T : Tables) (src : List Nat) (k : Kind) (n : Nat) (name : List Nat) (raw inv : Bool) : Prop :=
  ∃ pre es, src.take n = pre ++ textOf es ∧ (∀ e ∈ es, Shape T e) ∧ PlainOK T pre ∧
    ((raw = true ∧ es = [] ∧ pre ≠ [] ∧ name = pre ∧ inv = false ∧ k = (if isKeyword pre then .keyword else .ident)) ∨
     (raw = false ∧ EscapedTok T false pre es k name inv))

/-- every token of the three non-private identifier arms -/
theorem next_inv (T : Tables) (h127 : T.cont 127 = false) (a : Bool) (src : List Nat)
    {k : Kind} {n : Nat} {name : List Nat} {raw inv : Bool} (h : next T a src = .tok k n name raw inv) (hk : k ≠ .priv) :
    TokParts T src k n name raw inv := by
  cases src with
  | nil => simp [next] at h
  | cons c rest =>
    -- the shared end of the two arms that begin with a plain character
    have plain : ∀ kf : List Nat → Kind, isIdStart T c = true →
        (∀ l, kf (c :: l) = if isKeyword (c :: l) then .keyword else .ident) →
        afterPlain T kf false (c :: rest) (1 + spanLen (isIdCont T) rest) = .tok k n name raw inv →
        TokParts T (c :: rest) k n name raw inv := by
      intro kf hst hkf hap
      have htake : (c :: rest).take (1 + spanLen (isIdCont T) rest) = c :: rest.take (spanLen (isIdCont T) rest) := by
        rw [Nat.add_comm]; rfl
      have hpre : ∀ x ∈ (c :: rest).take (1 + spanLen (isIdCont T) rest), x ≠ 92 ∧ x ≠ 13 := by
        rw [htake]; intro x hx
        rcases List.mem_cons.1 hx with rfl | hx
        · exact not_92_13_of_start hst
        · exact not_92_13_of_cont (spanLen_take _ _ x hx)
      have hok : PlainOK T (c :: rest.take (spanLen (isIdCont T) rest)) :=
        Or.inr ⟨c, _, rfl, hst, spanLen_take _ _⟩
      rcases afterPlain_inv T kf false _ _ hpre hap with ⟨h1, h2, h3, h4, h5⟩ | ⟨h1, es, h2, h3, h4⟩
      · refine ⟨c :: rest.take (spanLen (isIdCont T) rest), [], ?_, by simp, hok, Or.inl ⟨h1, rfl, by simp, ?_, h4, ?_⟩⟩
        · rw [h2, htake]; simp [textOf]
        · rw [h3, htake]
        · rw [h5, htake, hkf]
      · rw [htake] at h2 h4
        exact ⟨_, es, h2, h3, hok, Or.inr ⟨h1, h4⟩⟩
    by_cases h35 : c = 35
    · -- the private arm only yields TPrivateIdentifier
      exfalso; apply hk
      subst h35
      simp only [next, if_true] at h
      split at h
      · cases h
      · cases rest with
        | nil => simp at h
        | cons d r =>
          simp only at h
          split at h
          · exact scanEscaped_priv T _ _ h
          · split at h
            · cases h
            · exact afterPlain_priv T _ _ h
    · by_cases hasc : asciiStart c = true
      · rw [next_ascii T h127 _ _ _ hasc] at h
        exact plain _ (by simp [isIdStart, hasc]) (fun l => rfl) h
      · have hasc' : asciiStart c = false := by simpa using hasc
        by_cases h92 : c = 92
        · subst h92
          rw [next_backslash] at h
          obtain ⟨h1, es, h2, h3, h4⟩ := scanEscaped_inv T false _ 0 (by simp) h
          simp only [List.take_zero, List.nil_append] at h2 h4
          exact ⟨[], es, by simpa using h2, h3, Or.inl rfl, Or.inr ⟨h1, h4⟩⟩
        · simp only [next, h35, if_false, hasc', Bool.false_eq_true, h92] at h
          split at h
          · cases h
          · split at h
            · cases h
            · split at h
              · rename_i hst
                have hnk : ∀ l, (fun _ : List Nat => Kind.ident) (c :: l) = if isKeyword (c :: l) then Kind.keyword else Kind.ident := by
                  intro l
                  have : asciiCont c = false := by
                    cases hc : asciiCont c with
                    | false => rfl
                    | true =>
                      have h1 := asciiCont_lt hc
                      simp [isIdStart, hasc', h1] at hst
                  rw [not_keyword_of_nonascii l this]; rfl
                exact plain _ hst hnk h
              · cases h
