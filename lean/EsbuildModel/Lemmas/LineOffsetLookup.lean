import EsbuildModel.Lemmas.LineOffsetTables
import EsbuildModel.Lemmas.LineOffsetSearch
/-!
The tables of the lines are sorted by start offset, and what the lookup reads from one of them.
-/
namespace EsbuildModel.LineOffset
open EsbuildModel.Spec.Unicode EsbuildModel.Spec.TextPosition

theorem lineTableAt_start (S b0 : Nat) (p : List Ch) (na : Bool) : (lineTableAt S b0 p na).start = S := by
  unfold lineTableAt; split <;> rfl

theorem Lines.head_start {S : Nat} {chs : List Ch} {ts : List Table} (h : Lines S chs ts) :
    ∃ T ts', ts = T :: ts' ∧ T.start = S := by
  cases h with
  | last _ _ _ => exact ⟨_, [], rfl, lineTableAt_start ..⟩
  | more _ _ _ _ ts' _ _ _ => exact ⟨_, ts', rfl, lineTableAt_start ..⟩

theorem Lines.all_ge {S : Nat} {chs : List Ch} {ts : List Table} (h : Lines S chs ts) :
    ∀ t ∈ ts, S ≤ t.start := by
  induction h with
  | last S p _ => intro t ht; simp at ht; rw [ht, lineTableAt_start]; exact Nat.le_refl _
  | more S p t rest ts _ _ _ ih =>
    intro x hx
    rcases List.mem_cons.mp hx with rfl | hx
    · rw [lineTableAt_start]; exact Nat.le_refl _
    · have := ih x hx; omega

/-- every table starts inside the text -/
theorem Lines.all_le {S : Nat} {chs : List Ch} {ts : List Table} (h : Lines S chs ts) :
    ∀ t ∈ ts, t.start ≤ S + bytes chs := by
  induction h with
  | last S p _ => intro t ht; simp at ht; rw [ht, lineTableAt_start]; omega
  | more S p t rest ts _ _ _ ih =>
    intro x hx
    rw [bytes_append, bytes_cons]
    rcases List.mem_cons.mp hx with rfl | hx
    · rw [lineTableAt_start]; omega
    · have := ih x hx; omega

theorem Lines.sorted {S : Nat} {chs : List Ch} {ts : List Table} (h : Lines S chs ts) (hv : Valid chs) :
    Sorted ts := by
  induction h with
  | last S p _ => exact List.pairwise_singleton _ _
  | more S p t rest ts _ _ hl ih =>
    have hw := (hv.append_right.head).1
    unfold Sorted
    rw [List.pairwise_cons]
    refine ⟨?_, ih hv.append_right.tail⟩
    intro x hx
    have := hl.all_ge x hx
    rw [lineTableAt_start]; omega

/-- number of tables = number of characters that end a line, plus one -/
def lineEnds : List Ch → Nat
  | [] => 0
  | c :: r => (if ends c r then 1 else 0) + lineEnds r

theorem lineEnds_noEnd (p tail : List Ch) (h : NoEnd p tail) : lineEnds (p ++ tail) = lineEnds tail := by
  induction p with
  | nil => rfl
  | cons c r ih =>
    obtain ⟨he, hr⟩ := h
    simp only [List.cons_append, lineEnds, he, Bool.false_eq_true, if_false, Nat.zero_add]
    exact ih hr

theorem Lines.length {S : Nat} {chs : List Ch} {ts : List Table} (h : Lines S chs ts) :
    ts.length = lineEnds chs + 1 := by
  induction h with
  | last S p hp => have := lineEnds_noEnd p [] hp; rw [List.append_nil] at this; rw [this]; rfl
  | more S p t rest ts hp ht _ ih =>
    rw [lineEnds_noEnd p (t :: rest) hp]
    simp only [List.length_cons, ih, lineEnds, ht, if_true]; omega

/-! ### the lookup on `T0 :: ts'` -/

theorem lookupN_cons_lt (T0 : Table) (ts' : List Table) (n : Nat) (h0 : T0.start ≤ n)
    (hlt : ∀ t ∈ ts', n < t.start) :
    lookupN (T0 :: ts') n = (colOf T0 (n - T0.start)).map (fun c => (0, c)) := by
  have hc : ts'.countP (fun t => decide (t.start ≤ n)) = 0 := by
    rw [List.countP_eq_zero]
    intro t ht
    have := hlt t ht
    simp only [decide_eq_true_eq]; omega
  unfold lookupN
  simp only [List.countP_cons, hc, h0, decide_true, if_true, Nat.zero_add, Nat.sub_self,
    List.getElem?_cons_zero, Nat.add_one_ne_zero, if_false]

theorem lookupN_cons_ge (T0 : Table) (ts' : List Table) (n : Nat) (h0 : T0.start ≤ n)
    (hge : ts'.countP (fun t => decide (t.start ≤ n)) ≠ 0) :
    lookupN (T0 :: ts') n = (lookupN ts' n).map (fun p => (p.1 + 1, p.2)) := by
  unfold lookupN
  simp only [List.countP_cons, h0, decide_true, if_true, Nat.add_sub_cancel, Nat.add_one_ne_zero, if_false, hge]
  generalize ts'.countP (fun t => decide (t.start ≤ n)) = cnt at hge
  obtain ⟨c, rfl⟩ : ∃ c, cnt = c + 1 := ⟨cnt - 1, by omega⟩
  simp only [Nat.add_sub_cancel, List.getElem?_cons_succ]
  cases ts'[c]? with
  | none => rfl
  | some t => simp only; cases colOf t (n - t.start) <;> rfl

/-! ### `Ucol` -/

/-- `0 < d ≤ width c`: before relative offset `bytes a + d` start exactly the characters of `a` and `c` -/
theorem Ucol_after (a : List Ch) (c : Ch) (b : List Ch) (hv : Valid a) (d : Nat) (hd : 0 < d) (hdw : d ≤ c.width) :
    Ucol (a ++ c :: b) (bytes a + d) = unitsOf a + colWidth c.cp := by
  induction a with
  | nil =>
    have e1 : d ≠ 0 := by omega
    have e2 : d - c.width = 0 := by omega
    simp [Ucol, e1, e2]
  | cons x a ih =>
    have hx := hv.head
    have e1 : bytes (x :: a) + d ≠ 0 := by rw [bytes_cons]; omega
    have e2 : bytes (x :: a) + d - x.width = bytes a + d := by rw [bytes_cons]; omega
    simp only [List.cons_append, Ucol, e1, if_false, e2, ih hv.tail, unitsOf_cons]
    omega

theorem Ucol_boundary (a b : List Ch) (hv : Valid a) : Ucol (a ++ b) (bytes a) = unitsOf a := by
  induction a with
  | nil => simp
  | cons x a ih =>
    have hx := hv.head
    have e1 : bytes (x :: a) ≠ 0 := by rw [bytes_cons]; omega
    have e2 : bytes (x :: a) - x.width = bytes a := by rw [bytes_cons]; omega
    simp only [List.cons_append, Ucol, e1, if_false, e2, ih hv.tail, unitsOf_cons]

theorem Ucol_ascii (p : List Ch) (hv : Valid p) : ∀ q, q ≤ asciiLen p → Ucol p q = q := by
  induction p with
  | nil => intro q hq; simp [asciiLen] at hq; simp [hq]
  | cons c r ih =>
    intro q hq
    by_cases h0 : q = 0
    · simp [h0]
    · have ha : c.cp ≤ 0x7F := by
        apply Classical.byContradiction
        intro hn
        simp only [asciiLen, hn, if_false] at hq
        omega
      have hw : c.width = 1 := hv.head.2 ha
      simp only [asciiLen, ha, if_true] at hq
      simp only [Ucol, h0, if_false, hw, colWidth_ascii _ ha]
      rw [ih hv.tail (q - 1) (by omega)]
      omega

theorem asciiLen_le_bytes (p : List Ch) (hv : Valid p) : asciiLen p ≤ bytes p := by
  induction p with
  | nil => simp [asciiLen]
  | cons c r ih =>
    simp only [asciiLen, bytes_cons]
    have := hv.head
    have := ih hv.tail
    split <;> omega

theorem asciiLen_allAscii (p : List Ch) (hv : Valid p) (h : allAscii p = true) : asciiLen p = bytes p := by
  induction p with
  | nil => simp [asciiLen]
  | cons c r ih =>
    simp only [allAscii, List.all_cons, Bool.and_eq_true, decide_eq_true_eq] at h
    simp only [asciiLen, bytes_cons, h.1, if_true]
    have := hv.head.2 h.1
    have := ih hv.tail (by simpa [allAscii] using h.2)
    omega

theorem lineTableAt_ascii (S : Nat) (p : List Ch) (na : Bool) (h : allAscii p = true ∧ na = false) :
    lineTableAt S 0 p na = ⟨none, 0, S⟩ := by
  unfold lineTableAt; rw [if_pos h]

theorem lineTableAt_cols (S : Nat) (p : List Ch) (na : Bool) (h : ¬ (allAscii p = true ∧ na = false)) :
    lineTableAt S 0 p na =
      ⟨some ((List.range' (asciiLen p) (bytes p + 1 - asciiLen p)).map (Ucol p)), asciiLen p, S⟩ := by
  unfold lineTableAt; rw [if_neg h]
  simp only [Nat.zero_add, Nat.sub_zero]

/-- the column the lookup reads from a line's table, for a relative offset up to the start of the line end -/
theorem colOf_lineTable (S : Nat) (p : List Ch) (na : Bool) (hv : Valid p) (q : Nat) (hq : q ≤ bytes p) :
    colOf (lineTableAt S 0 p na) q = some (Ucol p q) := by
  have hal := asciiLen_le_bytes p hv
  by_cases h : allAscii p = true ∧ na = false
  · rw [lineTableAt_ascii S p na h]
    unfold colOf
    simp only
    rw [Ucol_ascii p hv q (by rw [asciiLen_allAscii p hv h.1]; exact hq)]
  · rw [lineTableAt_cols S p na h]
    unfold colOf
    simp only
    by_cases hge : q ≥ asciiLen p
    · rw [if_pos hge]
      have hlt : q - asciiLen p < bytes p + 1 - asciiLen p := by omega
      rw [List.getElem?_map, List.getElem?_range' hlt]
      simp only [Option.map_some, Nat.one_mul]
      congr 2
      omega
    · rw [if_neg hge, Ucol_ascii p hv q (by omega)]

/-- … and beyond it (inside a multi-byte line end): index out of range -/
theorem colOf_lineTable_beyond (S : Nat) (p : List Ch) (hv : Valid p) (q : Nat) (hq : bytes p < q) :
    colOf (lineTableAt S 0 p true) q = none := by
  have hal := asciiLen_le_bytes p hv
  rw [lineTableAt_cols S p true (by simp)]
  unfold colOf
  simp only
  have hge : q ≥ asciiLen p := by omega
  rw [if_pos hge]
  rw [List.getElem?_eq_none]
  simp only [List.length_map, List.length_range']
  omega

end EsbuildModel.LineOffset
