import EsbuildModel.Lemmas.CjsWrapBase
/-! Step 1 of `scanImportsAndExports` (`CjsWrap.step1`): whatever the order of the files and of their import
records, the table it leaves is the one described by `Spec.Wrap.IsCommonJS` and `Step1Wrap`. -/
namespace EsbuildModel.CjsWrap
open EsbuildModel.Spec.Wrap

/-- the wrapper step 1 chooses for a file whose parser kind is `k` -/
def wrap0 (k : Kind) : Wrap := if k = .esm then .esm else .cjs

/-- the files step 1 wraps -/
def Step1Wrap (G : Graph) (i : Nat) : Prop :=
  (∃ j, G.lazyImports j i) ∨
  (G.kind0 i = .none ∧ ¬ G.lazyExport i ∧ ∃ j, G.nsImports j i) ∨
  (IsCommonJS G i ∧ ¬ G.implicitWrapper i)

theorem kind0_eq {o : Opts} {fs0 : Files} {i : Nat} {f0 : File} (h : fs0[i]? = some f0) :
    (graphOf o fs0).kind0 i = f0.kind.toSpec := by
  simp [graphOf, h]

theorem toSpec_inj {a b : Kind} : a.toSpec = b.toSpec ↔ a = b := by
  cases a <;> cases b <;> simp [Kind.toSpec]

/-- a file the parser called ESM is never CommonJS -/
theorem not_isCommonJS_of_esm {G : Graph} {i : Nat} (h : G.kind0 i = .esm) : ¬ IsCommonJS G i := by
  rintro (h1 | ⟨h1, _⟩ | ⟨h1, _⟩)
  · rw [h] at h1; cases h1
  · exact h1 h
  · rw [h] at h1; cases h1

/-- the invariant of step 1, file `i`: `f0` at the start, `f` now -/
def R1 (G : Graph) (i : Nat) (f0 f : File) : Prop :=
  f.static = f0.static ∧ f.didWrap = f0.didWrap ∧ f.force = f0.force ∧ f.needsExportsVar = f0.needsExportsVar ∧
  (f.kind = f0.kind ∨ (f.kind = .cjs ∧ IsCommonJS G i)) ∧
  (f.kind ≠ f0.kind → f.wrap = .cjs) ∧
  (f.wrap = .none ∨ (Step1Wrap G i ∧ f.wrap = wrap0 f0.kind))

/-- what later updates of step 1 cannot undo -/
def M1 (_ : Nat) (f f' : File) : Prop :=
  f'.static = f.static ∧ (f.kind = .cjs → f'.kind = .cjs) ∧ (f.wrap ≠ .none → f'.wrap = f.wrap)

theorem M1.rfl' (i : Nat) (f : File) : M1 i f f := ⟨rfl, id, fun _ => rfl⟩

theorem M1.trans' (i : Nat) (a b c : File) (h1 : M1 i a b) (h2 : M1 i b c) : M1 i a c := by
  refine ⟨h2.1.trans h1.1, fun h => h2.2.1 (h1.2.1 h), fun h => ?_⟩
  have hb := h1.2.2 h
  rw [← hb]
  exact h2.2.2 (by rw [hb]; exact h)

def S1 (o : Opts) (fs0 fs : Files) : Prop := PW (R1 (graphOf o fs0)) fs0 fs

theorem S1.init {o : Opts} {fs0 : Files} (h : Fresh fs0) : S1 o fs0 fs0 := by
  refine ⟨rfl, ?_⟩
  intro i f f' hf hf'
  rw [hf] at hf'; cases hf'
  exact ⟨rfl, rfl, rfl, rfl, Or.inl rfl, fun h => absurd rfl h, Or.inl (h i f hf).1⟩

/-- R1 with parser kind ESM: the kind is still ESM -/
theorem R1.esm_iff {o : Opts} {fs0 : Files} {i : Nat} {f0 f : File} (h0 : fs0[i]? = some f0)
    (h : R1 (graphOf o fs0) i f0 f) : f.kind = .esm ↔ f0.kind = .esm := by
  obtain ⟨_, _, _, _, hk, _, _⟩ := h
  constructor
  · intro he
    rcases hk with hk | ⟨hk, _⟩
    · rw [← hk]; exact he
    · rw [he] at hk; cases hk
  · intro he
    rcases hk with hk | ⟨_, hc⟩
    · rw [hk]; exact he
    · exact absurd hc (not_isCommonJS_of_esm (by rw [kind0_eq h0, he]; rfl))

/-- `require()` / `import()` without splitting, applied to the target -/
theorem lazyTarget_ok {o : Opts} {fs0 : Files} {t : Nat} {f0 f : File} (h0 : fs0[t]? = some f0)
    (h : R1 (graphOf o fs0) t f0 f) (hl : ∃ j, (graphOf o fs0).lazyImports j t) :
    R1 (graphOf o fs0) t f0 (lazyTarget f) ∧ M1 t f (lazyTarget f) ∧
      (lazyTarget f).wrap = wrap0 f0.kind ∧ (f0.kind ≠ .esm → (lazyTarget f).kind = .cjs) := by
  have hesm := R1.esm_iff h0 h
  obtain ⟨hs, hd, hf, hn, hk, hk2, hw⟩ := h
  have hstep : Step1Wrap (graphOf o fs0) t := Or.inl hl
  by_cases he : f.kind = .esm
  · have he0 : f0.kind = .esm := hesm.1 he
    have hw0 : wrap0 f0.kind = .esm := by simp [wrap0, he0]
    have e : lazyTarget f = { f with wrap := .esm } := by simp [lazyTarget, he]
    rw [e]
    refine ⟨⟨hs, hd, hf, hn, hk, ?_, Or.inr ⟨hstep, hw0.symm⟩⟩, ⟨rfl, id, ?_⟩, hw0.symm, fun hne => absurd he0 hne⟩
    · intro hne; exact absurd (by rw [he, he0]) hne
    · intro hne
      rcases hw with hw | ⟨_, hw⟩
      · exact absurd hw hne
      · show Wrap.esm = f.wrap
        rw [hw, hw0]
  · have he0 : f0.kind ≠ .esm := fun h' => he (hesm.2 h')
    have hw0 : wrap0 f0.kind = .cjs := by simp [wrap0, he0]
    have e : lazyTarget f = { f with wrap := .cjs, kind := .cjs } := by simp [lazyTarget, he]
    have hcjs : IsCommonJS (graphOf o fs0) t := by
      refine Or.inr (Or.inl ⟨?_, hl⟩)
      rw [kind0_eq h0]
      intro h'
      exact he0 (toSpec_inj.1 h')
    rw [e]
    refine ⟨⟨hs, hd, hf, hn, Or.inr ⟨rfl, hcjs⟩, fun _ => rfl, Or.inr ⟨hstep, hw0.symm⟩⟩, ⟨rfl, fun _ => rfl, ?_⟩,
      hw0.symm, fun _ => rfl⟩
    intro hne
    rcases hw with hw | ⟨_, hw⟩
    · exact absurd hw hne
    · show Wrap.cjs = f.wrap
      rw [hw, hw0]

/-- `import * as ns` / `import d from` of a file without exports -/
theorem nsTarget_ok {o : Opts} {fs0 : Files} {t : Nat} {f0 f : File} (h0 : fs0[t]? = some f0)
    (h : R1 (graphOf o fs0) t f0 f) (hl : ∃ j, (graphOf o fs0).nsImports j t)
    (hnone : f.kind = .none) (hlazy : f.lazyExport = false) :
    R1 (graphOf o fs0) t f0 { f with wrap := .cjs, kind := .cjs } ∧ M1 t f { f with wrap := .cjs, kind := .cjs } := by
  obtain ⟨hs, hd, hf, hn, hk, hk2, hw⟩ := h
  have hk0 : f0.kind = .none := by
    rcases hk with hk | ⟨hk, _⟩
    · rw [← hk]; exact hnone
    · rw [hnone] at hk; cases hk
  have hl0 : f0.lazyExport = false := by
    have : f.static.lazyExport = f0.static.lazyExport := by rw [hs]
    simpa [File.static, hlazy] using this.symm
  have hg0 : (graphOf o fs0).kind0 t = .none := by rw [kind0_eq h0, hk0]; rfl
  have hnl : ¬ (graphOf o fs0).lazyExport t := by
    rintro ⟨x, hx, hxl⟩
    rw [h0] at hx; cases hx
    rw [hl0] at hxl; cases hxl
  have hcjs : IsCommonJS (graphOf o fs0) t := Or.inr (Or.inr ⟨hg0, hnl, hl⟩)
  have hstep : Step1Wrap (graphOf o fs0) t := Or.inr (Or.inl ⟨hg0, hnl, hl⟩)
  have hw0 : wrap0 f0.kind = .cjs := by simp [wrap0, hk0]
  refine ⟨⟨hs, hd, hf, hn, Or.inr ⟨rfl, hcjs⟩, fun _ => rfl, Or.inr ⟨hstep, hw0.symm⟩⟩, ⟨rfl, fun _ => rfl, ?_⟩⟩
  intro hne
  rcases hw with hw | ⟨_, hw⟩
  · exact absurd hw hne
  · show Wrap.cjs = f.wrap
    rw [hw, hw0]

/-- what one import record does to its target -/
theorem step1Target_ok {o : Opts} {fs0 : Files} {t : Nat} {f0 f : File} {r : Rec} (h0 : fs0[t]? = some f0)
    (h : R1 (graphOf o fs0) t f0 f)
    (hl : lazyRec o r = true → ∃ j, (graphOf o fs0).lazyImports j t)
    (hn : nsRec r = true → ∃ j, (graphOf o fs0).nsImports j t) :
    R1 (graphOf o fs0) t f0 (step1Target o r f) ∧ M1 t f (step1Target o r f) ∧
      (lazyRec o r = true → (step1Target o r f).wrap = wrap0 f0.kind ∧ (f0.kind ≠ .esm → (step1Target o r f).kind = .cjs)) ∧
      (nsRec r = true → f0.kind = .none → f0.lazyExport = false →
        (step1Target o r f).kind = .cjs ∧ (step1Target o r f).wrap = .cjs) := by
  have hlz : f.lazyExport = f0.lazyExport := by
    have : f.static.lazyExport = f0.static.lazyExport := by rw [h.1]
    simpa [File.static] using this
  cases hrk : r.kind with
  | stmt =>
    have hlr : lazyRec o r = false := by simp [lazyRec, hrk]
    have hnr : nsRec r = (r.star || r.dflt) := by simp [nsRec, hrk]
    by_cases hc : ((r.star || r.dflt) && f.kind == .none && !f.lazyExport) = true
    · have e : step1Target o r f = { f with wrap := .cjs, kind := .cjs } := by simp [step1Target, hrk, hc]
      simp only [Bool.and_eq_true, Bool.not_eq_true', beq_iff_eq] at hc
      obtain ⟨⟨hsd, hkn⟩, hlf⟩ := hc
      have := nsTarget_ok h0 h (hn (by rw [hnr]; exact hsd)) hkn hlf
      rw [e]
      exact ⟨this.1, this.2, (fun h' => by rw [hlr] at h'; cases h'), fun _ _ _ => ⟨rfl, rfl⟩⟩
    · have e : step1Target o r f = f := by simp [step1Target, hrk, hc]
      rw [e]
      refine ⟨h, M1.rfl' _ _, (fun h' => by rw [hlr] at h'; cases h'), ?_⟩
      intro hns hk0 hl0
      rw [hnr] at hns
      have hkne : f.kind ≠ f0.kind := by
        intro heq
        apply hc
        simp [hns, heq, hk0, hlz, hl0]
      obtain ⟨_, _, _, _, hk, hk2, _⟩ := h
      refine ⟨?_, hk2 hkne⟩
      rcases hk with hk | ⟨hk, _⟩
      · exact absurd hk hkne
      · exact hk
  | require =>
    have hlr : lazyRec o r = true := by simp [lazyRec, hrk]
    have hnr : nsRec r = false := by simp [nsRec, hrk]
    have e : step1Target o r f = lazyTarget f := by simp [step1Target, hrk]
    rw [e]
    have := lazyTarget_ok h0 h (hl hlr)
    exact ⟨this.1, this.2.1, fun _ => this.2.2, (fun h' => by rw [hnr] at h'; cases h')⟩
  | dynamic =>
    have hnr : nsRec r = false := by simp [nsRec, hrk]
    by_cases hsp : o.splitting = true
    · have hlr : lazyRec o r = false := by simp [lazyRec, hrk, hsp]
      have e : step1Target o r f = f := by simp [step1Target, hrk, hsp]
      rw [e]
      exact ⟨h, M1.rfl' _ _, (fun h' => by rw [hlr] at h'; cases h'), (fun h' => by rw [hnr] at h'; cases h')⟩
    · have hlr : lazyRec o r = true := by simp [lazyRec, hrk, hsp]
      have e : step1Target o r f = lazyTarget f := by simp [step1Target, hrk, hsp]
      rw [e]
      have := lazyTarget_ok h0 h (hl hlr)
      exact ⟨this.1, this.2.1, fun _ => this.2.2, (fun h' => by rw [hnr] at h'; cases h')⟩
  | other =>
    have hlr : lazyRec o r = false := by simp [lazyRec, hrk]
    have hnr : nsRec r = false := by simp [nsRec, hrk]
    have e : step1Target o r f = f := by simp [step1Target, hrk]
    rw [e]
    exact ⟨h, M1.rfl' _ _, (fun h' => by rw [hlr] at h'; cases h'), (fun h' => by rw [hnr] at h'; cases h')⟩

/-- the effect of record `r` on its target is in the table -/
def DoneRec (o : Opts) (fs0 : Files) (r : Rec) (fs : Files) : Prop :=
  ∀ (t : Nat) (f0 f : File), r.target = some t → fs0[t]? = some f0 → fs[t]? = some f →
    (lazyRec o r = true → f.wrap = wrap0 f0.kind ∧ (f0.kind ≠ .esm → f.kind = .cjs)) ∧
    (nsRec r = true → f0.kind = .none → f0.lazyExport = false → f.kind = .cjs ∧ f.wrap = .cjs)

theorem wrap0_ne_none (k : Kind) : wrap0 k ≠ .none := by
  unfold wrap0; split <;> simp

theorem DoneRec.mono {o : Opts} {fs0 : Files} {r : Rec} {a b : Files} (hq : PW M1 a b) (h : DoneRec o fs0 r a) :
    DoneRec o fs0 r b := by
  intro t f0 f' ht h0 hf'
  obtain ⟨f, hf, hm⟩ := hq.get' hf'
  obtain ⟨h1, h2⟩ := h t f0 f ht h0 hf
  obtain ⟨_, hmk, hmw⟩ := hm
  refine ⟨fun hl => ?_, fun hn hk hz => ?_⟩
  · obtain ⟨hw, hk⟩ := h1 hl
    refine ⟨?_, fun hne => hmk (hk hne)⟩
    rw [hmw (by rw [hw]; exact wrap0_ne_none _), hw]
  · obtain ⟨hk', hw⟩ := h2 hn hk hz
    exact ⟨hmk hk', by rw [hmw (by rw [hw]; simp), hw]⟩

theorem S1.length {o : Opts} {fs0 fs : Files} (h : S1 o fs0 fs) : fs.length = fs0.length := h.1.symm

theorem S1.recs {o : Opts} {fs0 fs : Files} (h : S1 o fs0 fs) {j : Nat} {f0 f : File} (h0 : fs0[j]? = some f0)
    (hf : fs[j]? = some f) : f.recs = f0.recs ∧ f.entry = f0.entry := by
  have := (h.2 j f0 f h0 hf).1
  have h1 : f.static.recs = f0.static.recs := by rw [this]
  have h2 : f.static.entry = f0.static.entry := by rw [this]
  exact ⟨h1, h2⟩

theorem step1Rec_ok {o : Opts} {fs0 fs fs' : Files} {r : Rec} {j : Nat} {fj0 : File}
    (hj : fs0[j]? = some fj0) (hr : r ∈ fj0.recs) (hS : S1 o fs0 fs) (h : step1Rec o fs r = some fs') :
    S1 o fs0 fs' ∧ PW M1 fs fs' ∧ DoneRec o fs0 r fs' := by
  unfold step1Rec at h
  cases ht : r.target with
  | none =>
    rw [ht] at h
    injection h with h; subst h
    exact ⟨hS, PW.rfl' M1.rfl' _, fun t _ _ h' => by rw [ht] at h'; cases h'⟩
  | some t =>
    rw [ht] at h
    simp only at h
    cases htf : fs[t]? with
    | none => rw [htf] at h; cases h
    | some tf =>
      rw [htf] at h
      injection h with h; subst h
      obtain ⟨f0, h0, hR⟩ := PW.get' hS htf
      have hok := step1Target_ok (r := r) h0 hR (fun hl => ⟨j, fj0, r, hj, hr, ht, hl⟩) (fun hn => ⟨j, fj0, r, hj, hr, ht, hn⟩)
      refine ⟨PW.set_right hS (fun f0' h0' => ?_), PW.set M1.rfl' htf hok.2.1, ?_⟩
      · rw [h0] at h0'; injection h0' with h0'; subst h0'; exact hok.1
      · intro t' f0' f'' ht' h0' hf''
        rw [ht] at ht'; injection ht' with ht'; subst ht'
        rw [h0] at h0'; injection h0' with h0'; subst h0'
        rw [get_set_self (lt_of_get htf)] at hf''
        injection hf'' with hf''; subst hf''
        exact hok.2.2

theorem step1Rec_some {o : Opts} {fs0 fs : Files} {r : Rec} {j : Nat} {fj0 : File} (hwf : WF fs0)
    (hj : fs0[j]? = some fj0) (hr : r ∈ fj0.recs) (hS : S1 o fs0 fs) : ∃ fs', step1Rec o fs r = some fs' := by
  unfold step1Rec
  cases ht : r.target with
  | none => exact ⟨fs, rfl⟩
  | some t =>
    have hlt : t < fs.length := by rw [hS.length]; exact (hwf j fj0 hj).1 r hr t ht
    obtain ⟨tf, htf⟩ := get_of_lt hlt
    simp only [htf]
    exact ⟨_, rfl⟩

/-- the CommonJS-features rule at the end of the loop body -/
theorem step1Own_ok {o : Opts} {fs0 : Files} {j : Nat} {f0 f : File} (h0 : fs0[j]? = some f0)
    (h : R1 (graphOf o fs0) j f0 f) :
    R1 (graphOf o fs0) j f0 (step1Own o f) ∧ M1 j f (step1Own o f) ∧
      (f0.kind = .cjs → ¬ (graphOf o fs0).implicitWrapper j → (step1Own o f).wrap = .cjs) := by
  have hesm := R1.esm_iff h0 h
  have hent : f.entry = f0.entry := by
    have : f.static.entry = f0.static.entry := by rw [h.1]
    exact this
  obtain ⟨hs, hd, hf, hn, hk, hk2, hw⟩ := h
  by_cases hc : (f.kind == .cjs && (!f.entry || o.format == .iife || o.format == .esm)) = true
  · have e : step1Own o f = { f with wrap := .cjs } := by simp only [step1Own, hc, if_true]
    rw [e]
    simp only [Bool.and_eq_true, Bool.or_eq_true, Bool.not_eq_true', beq_iff_eq] at hc
    obtain ⟨hkc, hfmt⟩ := hc
    have hcjs : IsCommonJS (graphOf o fs0) j := by
      rcases hk with hk | ⟨_, hk⟩
      · left; rw [kind0_eq h0, ← hk, hkc]; rfl
      · exact hk
    have hni : ¬ (graphOf o fs0).implicitWrapper j := by
      rintro ⟨x, hx, hxe, hxf⟩
      rw [h0] at hx; injection hx with hx; subst hx
      rw [hent] at hfmt
      rcases hfmt with (hfmt | hfmt) | hfmt
      · rw [hxe] at hfmt; cases hfmt
      · rcases hxf with hxf | hxf <;> rw [hxf] at hfmt <;> cases hfmt
      · rcases hxf with hxf | hxf <;> rw [hxf] at hfmt <;> cases hfmt
    have hne : f0.kind ≠ .esm := by
      intro h'
      have := hesm.2 h'
      rw [hkc] at this; cases this
    have hw0 : wrap0 f0.kind = .cjs := by simp [wrap0, hne]
    refine ⟨⟨hs, hd, hf, hn, hk, fun _ => rfl, Or.inr ⟨Or.inr (Or.inr ⟨hcjs, hni⟩), hw0.symm⟩⟩, ⟨rfl, id, ?_⟩, fun _ _ => rfl⟩
    intro hne'
    rcases hw with hw | ⟨_, hw⟩
    · exact absurd hw hne'
    · show Wrap.cjs = f.wrap
      rw [hw, hw0]
  · have e : step1Own o f = f := by simp only [step1Own, hc]; rfl
    rw [e]
    refine ⟨⟨hs, hd, hf, hn, hk, hk2, hw⟩, M1.rfl' _ _, ?_⟩
    intro hk0 hni
    exfalso
    apply hc
    have hkc : f.kind = .cjs := by
      rcases hk with hk | ⟨hk, _⟩
      · rw [hk, hk0]
      · exact hk
    simp only [Bool.and_eq_true, Bool.or_eq_true, Bool.not_eq_true', beq_iff_eq]
    refine ⟨hkc, ?_⟩
    cases hfe : f.entry with
    | false => exact Or.inl (Or.inl rfl)
    | true =>
      cases hfm : o.format with
      | iife => exact Or.inl (Or.inr rfl)
      | esm => exact Or.inr rfl
      | preserve => exact absurd ⟨f0, h0, by rw [← hent, hfe], Or.inl hfm⟩ hni
      | cjs => exact absurd ⟨f0, h0, by rw [← hent, hfe], Or.inr hfm⟩ hni

/-- the loop body for file `j` has had its effect -/
def DoneFile (o : Opts) (fs0 : Files) (j : Nat) (fs : Files) : Prop :=
  ∀ fj0 : File, fs0[j]? = some fj0 →
    (∀ r ∈ fj0.recs, DoneRec o fs0 r fs) ∧
    (∀ f : File, fs[j]? = some f → fj0.kind = .cjs → ¬ (graphOf o fs0).implicitWrapper j → f.wrap = .cjs)

theorem DoneFile.mono {o : Opts} {fs0 : Files} (j : Nat) (a b : Files) (hq : PW M1 a b) (h : DoneFile o fs0 j a) :
    DoneFile o fs0 j b := by
  intro fj0 hj
  obtain ⟨h1, h2⟩ := h fj0 hj
  refine ⟨fun r hr => (h1 r hr).mono hq, ?_⟩
  intro f' hf' hk hni
  obtain ⟨f, hf, hm⟩ := hq.get' hf'
  have hw := h2 f hf hk hni
  rw [hm.2.2 (by rw [hw]; simp), hw]

theorem PW_M1_trans {a b c : Files} (h1 : PW M1 a b) (h2 : PW M1 b c) : PW M1 a c := PW.trans M1.trans' h1 h2

theorem step1File_ok {o : Opts} {fs0 fs fs' : Files} {j : Nat} (hS : S1 o fs0 fs)
    (h : step1File o fs j = some fs') : S1 o fs0 fs' ∧ PW M1 fs fs' ∧ DoneFile o fs0 j fs' := by
  unfold step1File at h
  cases hfj : fs[j]? with
  | none => rw [hfj] at h; cases h
  | some f =>
    rw [hfj] at h
    simp only at h
    obtain ⟨fj0, hj0, _⟩ := PW.get' hS hfj
    have hrecs : f.recs = fj0.recs := (hS.recs hj0 hfj).1
    cases hloop : forM (step1Rec o) f.recs fs with
    | none => rw [hloop] at h; cases h
    | some fs1 =>
      rw [hloop] at h
      simp only at h
      have hstep : ∀ a r b, r ∈ f.recs → S1 o fs0 a → step1Rec o a r = some b →
          S1 o fs0 b ∧ PW M1 a b ∧ DoneRec o fs0 r b :=
        fun a r b hr hSa hab => step1Rec_ok hj0 (hrecs ▸ hr) hSa hab
      have hinv := forM_inv (P := S1 o fs0) (Q := PW M1) (PW.rfl' M1.rfl') (fun _ _ _ => PW_M1_trans) f.recs
        (fun a r b hr hSa hab => ⟨(hstep a r b hr hSa hab).1, (hstep a r b hr hSa hab).2.1⟩) fs fs1 hS hloop
      have hdone := forM_done (P := S1 o fs0) (Q := PW M1) (D := DoneRec o fs0) (PW.rfl' M1.rfl')
        (fun _ _ _ => PW_M1_trans) (fun _ _ _ hq hd => hd.mono hq) f.recs hstep fs fs1 hS hloop
      cases hf1 : fs1[j]? with
      | none => rw [hf1] at h; cases h
      | some f' =>
        rw [hf1] at h
        injection h with h; subst h
        obtain ⟨f0', h0', hR'⟩ := PW.get' hinv.1 hf1
        rw [hj0] at h0'; injection h0' with h0'; subst h0'
        have hown := step1Own_ok hj0 hR'
        have hq2 : PW M1 fs1 (fs1.set j (step1Own o f')) := PW.set M1.rfl' hf1 hown.2.1
        refine ⟨PW.set_right hinv.1 (fun f0'' h0'' => ?_), PW_M1_trans hinv.2 hq2, ?_⟩
        · rw [hj0] at h0''; injection h0'' with h0''; subst h0''; exact hown.1
        · intro fj0' hj0'
          rw [hj0] at hj0'; injection hj0' with hj0'; subst hj0'
          refine ⟨fun r hr => (hdone r (hrecs ▸ hr)).mono hq2, ?_⟩
          intro x hx hk hni
          rw [get_set_self (lt_of_get hf1)] at hx
          injection hx with hx; subst hx
          exact hown.2.2 hk hni

theorem step1File_some {o : Opts} {fs0 fs : Files} {j : Nat} (hwf : WF fs0) (hj : j < fs0.length) (hS : S1 o fs0 fs) :
    ∃ fs', step1File o fs j = some fs' := by
  unfold step1File
  obtain ⟨f, hfj⟩ := get_of_lt (fs := fs) (i := j) (by rw [hS.length]; exact hj)
  obtain ⟨fj0, hj0, _⟩ := PW.get' hS hfj
  have hrecs : f.recs = fj0.recs := (hS.recs hj0 hfj).1
  obtain ⟨fs1, hloop⟩ := forM_some (f := step1Rec o) (P := S1 o fs0) f.recs (fun a r hr hSa => by
    obtain ⟨b, hb⟩ := step1Rec_some hwf hj0 (hrecs ▸ hr) hSa
    exact ⟨b, hb, (step1Rec_ok hj0 (hrecs ▸ hr) hSa hb).1⟩) fs hS
  have hinv := forM_inv (P := S1 o fs0) (Q := PW M1) (PW.rfl' M1.rfl') (fun _ _ _ => PW_M1_trans) f.recs
    (fun a r b hr hSa hab => ⟨(step1Rec_ok hj0 (hrecs ▸ hr) hSa hab).1, (step1Rec_ok hj0 (hrecs ▸ hr) hSa hab).2.1⟩)
    fs fs1 hS hloop
  obtain ⟨f', hf1⟩ := get_of_lt (fs := fs1) (i := j) (by rw [hinv.1.length]; exact hj)
  simp only [hfj, hloop, hf1]
  exact ⟨_, rfl⟩

theorem step1_ok {o : Opts} {fs0 fs1 : Files} {order : List Nat} (hfr : Fresh fs0)
    (h : step1 o order fs0 = some fs1) : S1 o fs0 fs1 ∧ ∀ j ∈ order, DoneFile o fs0 j fs1 := by
  have hstep : ∀ a j b, j ∈ order → S1 o fs0 a → step1File o a j = some b →
      S1 o fs0 b ∧ PW M1 a b ∧ DoneFile o fs0 j b := fun a j b _ hSa hab => step1File_ok hSa hab
  have hinv := forM_inv (P := S1 o fs0) (Q := PW M1) (PW.rfl' M1.rfl') (fun _ _ _ => PW_M1_trans) order
    (fun a j b hj hSa hab => ⟨(hstep a j b hj hSa hab).1, (hstep a j b hj hSa hab).2.1⟩) fs0 fs1 (S1.init hfr) h
  exact ⟨hinv.1, forM_done (P := S1 o fs0) (Q := PW M1) (D := DoneFile o fs0) (PW.rfl' M1.rfl')
    (fun _ _ _ => PW_M1_trans) DoneFile.mono order hstep fs0 fs1 (S1.init hfr) h⟩

theorem step1_some {o : Opts} {fs0 : Files} {order : List Nat} (hwf : WF fs0) (hfr : Fresh fs0)
    (hord : ∀ j ∈ order, j < fs0.length) : ∃ fs1, step1 o order fs0 = some fs1 :=
  forM_some (f := step1File o) (P := S1 o fs0) order (fun a j hj hSa => by
    obtain ⟨b, hb⟩ := step1File_some hwf (hord j hj) hSa
    exact ⟨b, hb, (step1File_ok hSa hb).1⟩) fs0 (S1.init hfr)

/-- **What step 1 computes**, for every order of the files and of the import records. -/
theorem step1_spec {o : Opts} {fs0 fs1 : Files} {order : List Nat} (hfr : Fresh fs0) (hcov : Covers order fs0)
    (h : step1 o order fs0 = some fs1) :
    fs1.length = fs0.length ∧ ∀ (i : Nat) (f0 f : File), fs0[i]? = some f0 → fs1[i]? = some f →
      f.static = f0.static ∧ f.didWrap = f0.didWrap ∧ f.force = f0.force ∧ f.needsExportsVar = f0.needsExportsVar ∧
      (IsCommonJS (graphOf o fs0) i → f.kind = .cjs) ∧ (¬ IsCommonJS (graphOf o fs0) i → f.kind = f0.kind) ∧
      (Step1Wrap (graphOf o fs0) i → f.wrap = wrap0 f0.kind) ∧ (¬ Step1Wrap (graphOf o fs0) i → f.wrap = .none) := by
  obtain ⟨hS, hdone⟩ := step1_ok hfr h
  refine ⟨hS.length, ?_⟩
  intro i f0 f h0 hf
  obtain ⟨hs, hd, hfo, hn, hk, hk2, hw⟩ := hS.2 i f0 f h0 hf
  have hdone' : ∀ j fj0, fs0[j]? = some fj0 → DoneFile o fs0 j fs1 :=
    fun j fj0 hj => hdone j (hcov.2 j (lt_of_get hj))
  -- effects of lazy and namespace imports on `i`
  have hlazy : (∃ j, (graphOf o fs0).lazyImports j i) → f.wrap = wrap0 f0.kind ∧ (f0.kind ≠ .esm → f.kind = .cjs) := by
    rintro ⟨j, fj0, r, hj, hr, ht, hl⟩
    exact ((((hdone' j fj0 hj) fj0 hj).1 r hr) i f0 f ht h0 hf).1 hl
  have hns : (∃ j, (graphOf o fs0).nsImports j i) → f0.kind = .none → f0.lazyExport = false →
      f.kind = .cjs ∧ f.wrap = .cjs := by
    rintro ⟨j, fj0, r, hj, hr, ht, hl⟩
    exact ((((hdone' j fj0 hj) fj0 hj).1 r hr) i f0 f ht h0 hf).2 hl
  have hkind0 : (graphOf o fs0).kind0 i = f0.kind.toSpec := kind0_eq h0
  have hnlz : ¬ (graphOf o fs0).lazyExport i → f0.lazyExport = false := by
    intro hnl
    cases hz : f0.lazyExport with
    | false => rfl
    | true => exact absurd ⟨f0, h0, hz⟩ hnl
  have hcjs : IsCommonJS (graphOf o fs0) i → f.kind = .cjs ∧ (¬ (graphOf o fs0).implicitWrapper i → f.wrap = wrap0 f0.kind) := by
    rintro (hc | ⟨hne, hl⟩ | ⟨hk0, hnl, hl⟩)
    · have hk0 : f0.kind = .cjs := by
        rw [hkind0] at hc
        exact toSpec_inj.1 hc
      refine ⟨?_, fun hni => ?_⟩
      · rcases hk with hk | ⟨hk, _⟩
        · rw [hk, hk0]
        · exact hk
      · rw [((hdone' i f0 h0) f0 h0).2 f hf hk0 hni]
        simp [wrap0, hk0]
    · have hne0 : f0.kind ≠ .esm := by
        intro h'
        apply hne
        rw [hkind0, h']; rfl
      exact ⟨(hlazy hl).2 hne0, fun _ => (hlazy hl).1⟩
    · have hk00 : f0.kind = .none := by
        rw [hkind0] at hk0
        exact toSpec_inj.1 hk0
      have := hns hl hk00 (hnlz hnl)
      exact ⟨this.1, fun _ => by rw [this.2]; simp [wrap0, hk00]⟩
  refine ⟨hs, hd, hfo, hn, fun hc => (hcjs hc).1, ?_, ?_, ?_⟩
  · intro hnc
    rcases hk with hk | ⟨_, hc⟩
    · exact hk
    · exact absurd hc hnc
  · rintro (hl | ⟨hk0, hnl, hl⟩ | ⟨hc, hni⟩)
    · exact (hlazy hl).1
    · have hk00 : f0.kind = .none := by
        rw [hkind0] at hk0
        exact toSpec_inj.1 hk0
      rw [(hns hl hk00 (hnlz hnl)).2]
      simp [wrap0, hk00]
    · exact (hcjs hc).2 hni
  · intro hnw
    rcases hw with hw | ⟨hw, _⟩
    · exact hw
    · exact absurd hw hnw

end EsbuildModel.CjsWrap
