import EsbuildModel.Lemmas.JsonSoundTok2
/-
Soundness for numbers (strict JSON flavour): a valid NumericLiteral that passes the JSON check at the end of
`parseNumericLiteralOrDot` has the digits of an RFC 8259 number (or the `08` deviation).
-/
namespace EsbuildModel.Json
open EsbuildModel.Spec.Json EsbuildModel.Spec.NumLit EsbuildModel.Spec.Num EsbuildModel.LexNum

theorem sepTail_no_us {l : List Char} (h : sepTail Spec.Num.isDigit l = true) (hn : ∀ c ∈ l, c ≠ '_') :
    AllDigits l := by
  induction l with
  | nil => exact allDigits_nil
  | cons c t ih =>
    have hc : c ≠ '_' := hn c (by simp)
    cases t with
    | nil =>
      simp only [sepTail, hc, if_false, Bool.and_true] at h
      intro x hx; simp at hx; subst hx; exact h
    | cons d t' =>
      rw [sepTail] at h
      simp only [hc, if_false, Bool.and_eq_true] at h
      intro x hx
      rcases List.mem_cons.1 hx with rfl | hx
      · exact h.1
      · exact ih h.2 (fun y hy => hn y (List.mem_cons_of_mem _ hy)) x hx

theorem sepDigits_no_us {l : List Char} (h : sepDigits Spec.Num.isDigit l = true) (hn : ∀ c ∈ l, c ≠ '_') :
    AllDigits l ∧ l ≠ [] := by
  cases l with
  | nil => simp [sepDigits] at h
  | cons c t =>
    simp only [sepDigits, Bool.and_eq_true] at h
    refine ⟨?_, by simp⟩
    intro x hx
    rcases List.mem_cons.1 hx with rfl | hx
    · exact h.1
    · exact sepTail_no_us h.2 (fun y hy => hn y (List.mem_cons_of_mem _ hy)) x hx

theorem any_us_false {l : List Char} (h : l.any (· == '_') = false) : ∀ c ∈ l, c ≠ '_' := by
  intro c hc heq
  simp only [List.any_eq_false, beq_iff_eq] at h
  exact h c hc heq

theorem digit_not_oct {b : Char} (hd : Spec.Num.isDigit b = true) (ho : isOct b = false) : b = '8' ∨ b = '9' := by
  simp only [Spec.Num.isDigit, Bool.and_eq_true, decide_eq_true_eq] at hd
  simp only [isOct, Bool.and_eq_false_iff, decide_eq_false_iff_not, Nat.not_le] at ho
  have : b.toNat = 56 ∨ b.toNat = 57 := by omega
  rcases this with h | h
  · left; exact Char.toNat_inj.mp (by simpa using h)
  · right; exact Char.toNat_inj.mp (by simpa using h)

theorem expSText_no_us {e : Option ExpS} (h : (expSText e).any (· == '_') = false) (hv : expSOk e = true) :
    rfcExp e = true := by
  cases e with
  | none => rfl
  | some x =>
    have hd : ∀ c ∈ x.digits, c ≠ '_' := by
      intro c hc
      apply any_us_false h
      simp only [expSText]
      exact List.mem_cons_of_mem _ (List.mem_append_right _ hc)
    obtain ⟨h1, h2⟩ := sepDigits_no_us hv hd
    simp only [rfcExp, Bool.and_eq_true, Bool.not_eq_true', List.isEmpty_eq_false_iff]
    exact ⟨h2, (allDigits_iff _).2 h1⟩

theorem expSText_head (e : Option ExpS) : ∀ c t, expSText e = c :: t → c = 'e' ∨ c = 'E' := by
  intro c t h
  cases e with
  | none => cases h
  | some x =>
    simp only [expSText, List.cons.injEq] at h
    rw [← h.1]
    cases x.upper <;> simp

/-- **the JSON check characterises the RFC 8259 digits** (with the `08` deviation) -/
theorem rfcLit_of_notBad {l : Lit} (hv : l.valid = true) (hb : l.isBig = false)
    (hbad : jsonNumBad l.render = false) : rfcLit esbuildStrict l = true := by
  cases l with
  | legacyOctal ds =>
    exfalso
    simp only [Lit.valid, Bool.and_eq_true, Bool.not_eq_true', List.isEmpty_eq_false_iff, List.all_eq_true] at hv
    cases ds with
    | nil => exact hv.1 rfl
    | cons d t =>
      have hd := hv.2 d (by simp)
      have : isOct d = true := hd
      simp [Lit.render, jsonNumBad, this] at hbad
  | nonDec r u ds =>
    exfalso
    cases r <;> cases u <;> simp [Lit.render, jsonNumBad, Radix.letter] at hbad
  | bigDec ds => cases hb
  | bigNonDec r u ds => cases hb
  | dec i f e =>
    cases i with
    | nil =>
      cases f with
      | none => simp [Lit.valid] at hv
      | some g => simp [Lit.render, Spec.Num.fracText, jsonNumBad] at hbad
    | cons a t =>
      simp only [Lit.render, List.cons_append, jsonNumBad, Bool.or_eq_false_iff, beq_eq_false_iff_ne, ne_eq] at hbad
      obtain ⟨⟨⟨hA, hB⟩, hC⟩, hD⟩ := hbad
      have hCi : ∀ c ∈ a :: t, c ≠ '_' := by
        intro c hc
        apply any_us_false hC
        rcases List.mem_cons.1 hc with rfl | hc
        · simp
        · exact List.mem_cons_of_mem _ (List.mem_append_left _ hc)
      have hCf : (fracText f ++ expSText e).any (· == '_') = false := by
        simp only [List.any_cons, List.any_append, Bool.or_eq_false_iff] at hC
        simpa using hC.2.2
      have hCe : (expSText e).any (· == '_') = false := by
        simp only [List.any_append, Bool.or_eq_false_iff] at hCf; exact hCf.2
      -- the pieces of validity
      have hval : decIntOk (a :: t) = true ∧ (∀ g, f = some g → (g.isEmpty || sepDigits Spec.Num.isDigit g) = true) ∧
          expSOk e = true := by
        cases f with
        | none => simp only [Lit.valid, Bool.and_eq_true] at hv; exact ⟨hv.1, by simp, hv.2⟩
        | some g =>
          simp only [Lit.valid, Bool.and_eq_true] at hv
          exact ⟨hv.1.1, by intro g' hg; cases hg; exact hv.1.2, hv.2⟩
      obtain ⟨hint, hfr, hex⟩ := hval
      -- the integer part consists of digits
      have hid : AllDigits (a :: t) := by
        simp only [decIntOk, Bool.or_eq_true] at hint
        rcases hint with hint | hint
        · simp only [plainDecInt] at hint
          split at hint
          · rename_i h0
            have : t = [] := by simpa using hint
            subst this h0
            intro x hx; simp at hx; subst hx; decide
          · exact (sepDigits_no_us hint hCi).1
        · exact (nonOctalDec_allDigits hint).1
      have hint' : rfcInt (a :: t) = true ∨ zero89Int (a :: t) = true := by
        have ha := hid a (by simp)
        have htd : Spec.Json.allDigits t = true := (allDigits_iff _).2 (fun x hx => hid x (List.mem_cons_of_mem _ hx))
        by_cases h0 : a = '0'
        · subst h0
          cases t with
          | nil => left; rfl
          | cons b t' =>
            right
            have hbdig := hid b (by simp)
            have hbo : isOct b = false := by
              simp only [beq_self_eq_true, Bool.true_and, List.cons_append, Bool.or_eq_false_iff] at hB
              exact hB.1.2
            have htd' : Spec.Json.allDigits t' = true :=
              (allDigits_iff _).2 (fun x hx => hid x (List.mem_cons_of_mem _ (List.mem_cons_of_mem _ hx)))
            rcases digit_not_oct hbdig hbo with rfl | rfl <;> simp [zero89Int, htd']
        · left
          cases t with
          | nil => exact ha
          | cons b t' => simp [rfcInt, ha, h0, htd]
      -- fraction
      have hdrop := dropWhile_digits hid (fracText f ++ expSText e)
      simp only [List.cons_append] at hdrop
      rw [hdrop] at hD
      have hfrac : rfcFrac f = true := by
        cases f with
        | none => rfl
        | some g =>
          have hg := hfr g rfl
          cases g with
          | nil =>
            exfalso
            simp only [fracText, List.nil_append, List.cons_append] at hD
            cases hx : expSText e with
            | nil => rw [hx] at hD; simp at hD
            | cons c x =>
              rw [hx] at hD
              rcases expSText_head e c x hx with rfl | rfl <;> simp [isDigit] at hD
          | cons d g' =>
            simp only [List.isEmpty_cons, Bool.false_or] at hg
            have hgn : ∀ c ∈ d :: g', c ≠ '_' := by
              intro c hc
              apply any_us_false hCf
              simp only [fracText]
              exact List.mem_append_left _ (List.mem_cons_of_mem _ hc)
            obtain ⟨h1, h2⟩ := sepDigits_no_us hg hgn
            simp only [rfcFrac, Bool.and_eq_true, Bool.not_eq_true', List.isEmpty_eq_false_iff]
            exact ⟨h2, (allDigits_iff _).2 h1⟩
      simp only [rfcLit, Bool.and_eq_true, Bool.or_eq_true]
      refine ⟨⟨?_, hfrac⟩, expSText_no_us hCe hex⟩
      rcases hint' with h | h
      · exact Or.inl h
      · exact Or.inr ⟨rfl, h⟩

end EsbuildModel.Json
