import EsbuildModel.Lemmas.OutPathsSplit
/-
Path templates: `SubstituteTemplate` + `TemplateToString` against "write the value where the placeholder
is" (`renderWith`), and what the parser `validatePathTemplate` keeps of its input.
-/
namespace EsbuildModel.OutPaths

/-- the text of one part when the placeholders in `phs` are known -/
def partText (phs : Placeholders) (p : Part) : Str :=
  p.data ++ (match phs.get p.ph with | some v => v | none => phText p.ph)

/-- the text of a template when the placeholders in `phs` are replaced by their values (the others stay) -/
def renderWith (phs : Placeholders) (t : List Part) : Str := (t.map (partText phs)).flatten

/-- values of `a`, and of `b` where `a` has none -/
def Placeholders.orElse (a b : Placeholders) : Placeholders :=
  { dir := a.dir <|> b.dir, name := a.name <|> b.name, hash := a.hash <|> b.hash, ext := a.ext <|> b.ext }

theorem Placeholders.get_none (p : Placeholders) : p.get .none = none := rfl

theorem Placeholders.get_empty (ph : Placeholder) : ({} : Placeholders).get ph = none := by
  cases ph <;> rfl

theorem Placeholders.get_orElse (a b : Placeholders) (ph : Placeholder) :
    (a.orElse b).get ph = (a.get ph <|> b.get ph) := by
  cases ph <;> simp [Placeholders.orElse, Placeholders.get]

theorem renderWith_empty (t : List Part) : renderWith {} t = templateToString t := by
  unfold renderWith templateToString partText
  congr 1
  apply List.map_congr_left
  intro p _
  cases h : p.ph <;> simp [Placeholders.get]

theorem renderWith_nil (phs : Placeholders) : renderWith phs [] = [] := rfl

theorem renderWith_cons (phs : Placeholders) (p : Part) (t : List Part) :
    renderWith phs (p :: t) = partText phs p ++ renderWith phs t := by
  simp [renderWith]

theorem renderWith_append (phs : Placeholders) (a b : List Part) :
    renderWith phs (a ++ b) = renderWith phs a ++ renderWith phs b := by
  simp [renderWith]

/-- the part the second loop of `SubstituteTemplate` works with -/
def substPart (phs : Placeholders) (part : Part) : Part :=
  match phs.get part.ph with
  | some sub => ⟨part.data ++ sub, .none⟩
  | none => part

theorem partText_substPart (p1 p2 : Placeholders) (part : Part) :
    partText p2 (substPart p1 part) = partText (p1.orElse p2) part := by
  unfold substPart partText
  rw [Placeholders.get_orElse]
  cases h : p1.get part.ph with
  | some v => simp [Placeholders.get_none, phText]
  | none => simp

theorem substituteLoop_cons (phs : Placeholders) (part : Part) (rest res : List Part) :
    substituteLoop phs (part :: rest) res =
      match res with
      | last :: before =>
        if last.ph = .none then
          substituteLoop phs rest (⟨last.data ++ (substPart phs part).data, (substPart phs part).ph⟩ :: before)
        else substituteLoop phs rest (substPart phs part :: res)
      | [] => substituteLoop phs rest [substPart phs part] := by
  cases res <;> rfl

theorem renderWith_substituteLoop (p1 p2 : Placeholders) (t res : List Part) :
    renderWith p2 (substituteLoop p1 t res).reverse =
      renderWith p2 res.reverse ++ renderWith (p1.orElse p2) t := by
  induction t generalizing res with
  | nil => simp [substituteLoop, renderWith_nil]
  | cons part rest ih =>
    rw [substituteLoop_cons, renderWith_cons, ← partText_substPart]
    cases res with
    | nil => simp only; rw [ih]; simp [renderWith_cons, renderWith_nil]
    | cons last before =>
      simp only
      by_cases hl : last.ph = .none
      · simp only [hl, if_true]
        rw [ih]
        simp only [List.reverse_cons, renderWith_append, renderWith_cons, renderWith_nil, List.append_nil,
          List.append_assoc]
        congr 1
        simp only [partText, hl, Placeholders.get_none, phText, List.append_nil, List.append_assoc]
      · simp only [hl, if_false]
        rw [ih]
        simp only [List.reverse_cons, renderWith_append, renderWith_cons, renderWith_nil, List.append_nil,
          List.append_assoc]

theorem shouldSubstitute_false {phs : Placeholders} {t : List Part} (h : shouldSubstitute phs t = false) :
    ∀ p ∈ t, phs.get p.ph = none := by
  induction t with
  | nil => simp
  | cons p rest ih =>
    simp only [shouldSubstitute, Bool.or_eq_false_iff] at h
    intro q hq
    rcases List.mem_cons.mp hq with rfl | hq
    · simpa using h.1.1
    · exact ih h.2 q hq

theorem renderWith_congr {p1 p2 : Placeholders} {t : List Part}
    (h : ∀ p ∈ t, p1.get p.ph = p2.get p.ph) : renderWith p1 t = renderWith p2 t := by
  unfold renderWith
  congr 1
  apply List.map_congr_left
  intro p hp
  simp [partText, h p hp]

/-- substituting first `p1` and then reading with `p2` = reading with both -/
theorem renderWith_substituteTemplate (p1 p2 : Placeholders) (t : List Part) :
    renderWith p2 (substituteTemplate t p1) = renderWith (p1.orElse p2) t := by
  unfold substituteTemplate
  by_cases h : shouldSubstitute p1 t = true
  · simp only [h, if_true]
    rw [renderWith_substituteLoop]
    simp [renderWith_nil]
  · have h' : shouldSubstitute p1 t = false := by simpa using h
    rw [h']
    simp only [Bool.false_eq_true, if_false]
    apply renderWith_congr
    intro p hp
    rw [Placeholders.get_orElse, shouldSubstitute_false h' p hp]
    simp

/-- `TemplateToString ∘ SubstituteTemplate` writes every known value where its placeholder is -/
theorem templateToString_substituteTemplate (phs : Placeholders) (t : List Part) :
    templateToString (substituteTemplate t phs) = renderWith phs t := by
  rw [← renderWith_empty, renderWith_substituteTemplate]
  apply renderWith_congr
  intro p _
  rw [Placeholders.get_orElse, Placeholders.get_empty]
  cases phs.get p.ph <;> simp

end EsbuildModel.OutPaths
