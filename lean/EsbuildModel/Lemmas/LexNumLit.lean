import EsbuildModel.Lemmas.LexNumInt
/-
Facts on derivations (`Spec.NumLit.Lit`) used by both directions: the separator-free text of a valid DecimalLiteral
is a well-formed `DecParts` text with the same MV (so the ParseFloat contract applies), the uint32 fast path.
-/
namespace EsbuildModel.LexNum
open EsbuildModel.Spec.Num EsbuildModel.Spec.NumLit

theorem isDigit_us : Spec.Num.isDigit '_' = false := by decide

/-- the trusted contract of the parameters, for an abstract rounding function `R` (IEEE-754 roundTiesToEven of a
real to binary64, the `𝔽(MV)` of ECMA-262 §12.9.3): `rnd` is `R` on integers, and it is exact below 2^53 and at
least 2^53 from there on (`RndOK`, proved for the driver's instance in `Lemmas/F64RoundNat.lean`);
`strconv.ParseFloat` returns `R` of the decimal value of a text `digits* [. digits*] [(e|E) [+-] digits+]` that has
at least one mantissa digit. -/
structure ParamsOK (P : Params) (R : Rat → F64) : Prop where
  rnd : ∀ n : Nat, P.rnd n = R (n : Rat)
  rndOK : RndOK P.rnd
  pf : ∀ p : DecParts, p.WF → (p.int ≠ [] ∨ ∃ f, p.frac = some f ∧ f ≠ []) → P.pf p.render = R p.mv

theorem strip_fracText (f : Option (List Char)) : strip (fracText f) = fracText (f.map strip) := by
  cases f with
  | none => rfl
  | some f => simp only [fracText, Option.map]; rw [strip_cons_ne (by decide)]

theorem strip_signText (s : Sign) : strip s.text = s.text := by cases s <;> decide

theorem strip_expSText (e : Option ExpS) : strip (expSText e) = expText (stripExp e) := by
  cases e with
  | none => rfl
  | some x =>
    simp only [expSText, stripExp, expText]
    have : (if x.upper = true then 'E' else 'e') ≠ '_' := by split <;> decide
    rw [strip_cons_ne this, strip_append, strip_signText]

/-- the stripped pieces of a decimal derivation -/
def decParts (i : List Char) (f : Option (List Char)) (e : Option ExpS) : DecParts :=
  ⟨strip i, f.map strip, stripExp e⟩

theorem strip_render_dec (i : List Char) (f : Option (List Char)) (e : Option ExpS) :
    strip (Lit.dec i f e).render = (decParts i f e).render := by
  simp only [Lit.render, DecParts.render, decParts, strip_append, strip_fracText, strip_expSText]

theorem nonOctalDec_allDigits {i : List Char} (h : nonOctalDec i = true) : AllDigits i ∧ i ≠ [] := by
  cases i with
  | nil => simp [nonOctalDec] at h
  | cons c r =>
    simp only [nonOctalDec, Bool.and_eq_true, beq_iff_eq, List.all_eq_true] at h
    refine ⟨?_, by simp⟩
    intro x hx
    rcases List.mem_cons.1 hx with rfl | hx
    · rw [h.1.1.1]; decide
    · exact h.1.2 x hx

theorem decIntOk_strip {i : List Char} (h : decIntOk i = true) : AllDigits (strip i) ∧ strip i ≠ [] := by
  simp only [decIntOk, Bool.or_eq_true] at h
  rcases h with h | h
  · cases i with
    | nil => simp [plainDecInt] at h
    | cons c r =>
      simp only [plainDecInt] at h
      split at h
      · rename_i hc
        subst hc
        have : r = [] := by simpa using h
        subst this
        exact ⟨by intro x hx; simp [strip] at hx; subst hx; decide, by decide⟩
      · obtain ⟨_, h2, h3⟩ := sepDigits_strip _ isDigit_us h
        exact ⟨h2, h3⟩
  · obtain ⟨h1, h2⟩ := nonOctalDec_allDigits h
    rw [strip_of_allDigits h1]
    exact ⟨h1, h2⟩

theorem dec_valid_wf {i : List Char} {f : Option (List Char)} {e : Option ExpS} (h : (Lit.dec i f e).valid = true) :
    (decParts i f e).WF ∧ ((decParts i f e).int ≠ [] ∨ ∃ g, (decParts i f e).frac = some g ∧ g ≠ []) := by
  simp only [Lit.valid, Bool.and_eq_true] at h
  obtain ⟨h1, h2⟩ := h
  have hexp : ∀ x, (decParts i f e).exp = some x → AllDigits x.digits ∧ x.digits ≠ [] := by
    intro x hx
    cases e with
    | none => cases hx
    | some y =>
      simp only [decParts, stripExp, Option.some.injEq] at hx
      subst hx
      obtain ⟨_, h3, h4⟩ := sepDigits_strip _ isDigit_us (by simpa [expSOk] using h2)
      exact ⟨h3, h4⟩
  cases i with
  | nil =>
    cases f with
    | none => simp at h1
    | some g =>
      simp only at h1
      obtain ⟨_, h3, h4⟩ := sepDigits_strip _ isDigit_us h1
      refine ⟨⟨by intro x hx; simp [decParts, strip] at hx, ?_, hexp⟩, Or.inr ⟨strip g, rfl, h4⟩⟩
      intro g' hg'
      simp only [decParts, Option.map, Option.some.injEq] at hg'
      subst hg'
      exact h3
  | cons c r =>
    cases f with
    | none =>
      simp only at h1
      obtain ⟨h3, h4⟩ := decIntOk_strip h1
      exact ⟨⟨h3, (by intro g hg; cases hg), hexp⟩, Or.inl h4⟩
    | some g =>
      simp only [Bool.and_eq_true, Bool.or_eq_true] at h1
      obtain ⟨h3, h4⟩ := decIntOk_strip h1.1
      refine ⟨⟨h3, ?_, hexp⟩, Or.inl h4⟩
      intro g' hg'
      simp only [decParts, Option.map, Option.some.injEq] at hg'
      subst hg'
      rcases h1.2 with h5 | h5
      · have : g = [] := by simpa using h5
        subst this
        intro x hx; simp [strip] at hx
      · exact (sepDigits_strip _ isDigit_us h5).2.1

/-- ParseFloat on the separator-free text of a valid DecimalLiteral gives the rounded MV -/
theorem dec_pf {P : Params} {R : Rat → F64} (hP : ParamsOK P R) {i : List Char} {f : Option (List Char)}
    {e : Option ExpS} (h : (Lit.dec i f e).valid = true) :
    P.pf (strip (Lit.dec i f e).render) = R (Lit.dec i f e).mv := by
  obtain ⟨h1, h2⟩ := dec_valid_wf h
  rw [strip_render_dec, hP.pf _ h1 h2]
  rfl

/-! ### the uint32 fast path -/

theorem u32Loop_go (t : List Char) (ht : AllDigits t) (a : Nat) (ha : a * 10 ^ t.length + digitsMV t < 4294967296) :
    t.foldl (fun n c => (n * 10 + (c.toNat + 4294967296 - 48)) % 4294967296) a = a * 10 ^ t.length + digitsMV t := by
  induction t generalizing a with
  | nil => simp [digitsMV]
  | cons c t ih =>
    have hc := isDigit_range (ht c List.mem_cons_self)
    have ht' : AllDigits t := fun x hx => ht x (List.mem_cons_of_mem _ hx)
    rw [digitsMV_cons] at ha ⊢
    simp only [List.foldl_cons, List.length_cons, Nat.pow_succ] at ha ⊢
    have hdv : digitVal c = c.toNat - 48 := rfl
    have hpos : 0 < 10 ^ t.length := Nat.pow_pos (by decide)
    have e1 : a * (10 ^ t.length * 10) = (a * 10) * 10 ^ t.length := by
      rw [Nat.mul_comm (10 ^ t.length) 10, Nat.mul_assoc]
    have hexp : (a * 10 + digitVal c) * 10 ^ t.length = a * (10 ^ t.length * 10) + digitVal c * 10 ^ t.length := by
      rw [Nat.add_mul, e1]
    have hle : a * 10 + digitVal c ≤ (a * 10 + digitVal c) * 10 ^ t.length := Nat.le_mul_of_pos_right _ hpos
    have hstep : (a * 10 + (c.toNat + 4294967296 - 48)) % 4294967296 = a * 10 + digitVal c := by omega
    rw [hstep, ih ht']
    · omega
    · omega

theorem u32Loop_eq {t : List Char} (ht : AllDigits t) (hlen : t.length ≤ 9) : u32Loop t = digitsMV t := by
  have h1 := digitsMV_lt ht
  have h2 : 10 ^ t.length ≤ 10 ^ 9 := Nat.pow_le_pow_right (by decide) hlen
  unfold u32Loop
  rw [u32Loop_go t ht 0 (by omega)]
  simp

theorem mv_int_only (i : List Char) : (DecParts.mk i none none).mv = (digitsMV i : Rat) := by
  rw [mv_eq_dec]
  simp [expVal, dec_zero_exp]

end EsbuildModel.LexNum
