import EsbuildModel.Lemmas.JsonSoundParse2
import EsbuildModel.Lemmas.JsonTotal2
/-
Soundness of the parser (either flavour): values that are one token or a sign and a token; member keys.
-/
namespace EsbuildModel.Json
open EsbuildModel.Spec.Json EsbuildModel.Spec.NumLit

theorem nonempty_of_chars {l : List Cp} {c : Char} {t : List Char} (h : chars l = c :: t) : l.isEmpty = false := by
  cases l with
  | nil => cases h
  | cons _ _ => rfl

/-- what soundness says for one value -/
def ValSound (fl : Flavor) (Rd : Rat → F64) (o : Opts) (P : Params) (inp : List Cp) (a : Ast) (L' : Lx) : Prop :=
  ∃ v rest, chars inp = v.render ++ chars rest ∧ v.ok (dialectOf fl) = true ∧ RepV Rd o.objExt v a ∧ After fl P rest L'

section
variable {P : Params} {Rd : Rat → F64} (hP : ParamsOK P Rd) (o : Opts) {fl : Flavor}

theorem word_sound {L L' : Lx} {inp : List Cp} (hat : AtTok fl Rd L inp) (hn : next fl P L = .ok L')
    (v : Val) (a : Ast) (ht : (L.tok = .tTrue ∧ v = .tt ∧ a = .bool true) ∨ (L.tok = .tFalse ∧ v = .ff ∧ a = .bool false) ∨
      (L.tok = .tNull ∧ v = .null ∧ a = .null)) : ValSound fl Rd o P inp a L' := by
  have hf := hat.1
  rcases ht with ⟨t, rfl, rfl⟩ | ⟨t, rfl, rfl⟩ | ⟨t, rfl, rfl⟩
  · simp only [TokFacts, t] at hf
    exact ⟨.tt, L.rest, hf, rfl, rfl, after_of_tok hat hn (by rw [t]; simp) (by rw [t]; simp)⟩
  · simp only [TokFacts, t] at hf
    exact ⟨.ff, L.rest, hf, rfl, rfl, after_of_tok hat hn (by rw [t]; simp) (by rw [t]; simp)⟩
  · simp only [TokFacts, t] at hf
    exact ⟨.null, L.rest, hf, rfl, rfl, after_of_tok hat hn (by rw [t]; simp) (by rw [t]; simp)⟩

theorem num_sound {L L' : Lx} {inp : List Cp} (hat : AtTok fl Rd L inp) (hn : next fl P L = .ok L') (ht : L.tok = .num) :
    ValSound fl Rd o P inp (.num L.number) L' := by
  have hf := hat.1
  simp only [TokFacts, ht] at hf
  obtain ⟨lit, l1, l2, l3⟩ := hf
  refine ⟨.num ⟨false, [], lit⟩, L.rest, ?_, ?_, ?_, after_of_tok hat hn (by rw [ht]; simp) (by rw [ht]; simp)⟩
  · simpa [Val.render, JNum.render] using l2
  · exact l1
  · simp [RepV, JNum.value, l3]

theorem str_sound {L L1 L' : Lx} {inp : List Cp} {u : List Nat} (hat : AtTok fl Rd L inp)
    (hs : stringLiteral fl L = .ok (u, L1)) (hn : next fl P L1 = .ok L') (ht : L.tok = .str) :
    ValSound fl Rd o P inp (.str u) L' := by
  have hf := hat.1
  simp only [TokFacts, ht] at hf
  obtain ⟨cs, c1, c2, c3, c4⟩ := hf u L1 hs
  obtain ⟨a1, a2, a3⟩ := hat.2.2 (by rw [ht]; simp)
  refine ⟨.str cs, L.rest, c2, c1, by simp [RepV, c3], L1, hn, Lx.view_rest c4, ?_, ?_, hat.2.1.suf a2⟩
  · rw [Lx.view_log c4]; exact a1
  · rw [Lx.view_end c4]; exact a3 (by rw [ht]; simp)

theorem jnum_neg_ok (fl : Flavor) (lit : Lit) (gap : List SepItem)
    (h : JNum.ok (dialectOf fl) ⟨false, [], lit⟩ = true)
    (hg : gap = [] ∨ (fl = .tsconfig ∧ Sep.ok (dialectOf fl) false false gap = true)) :
    JNum.ok (dialectOf fl) ⟨true, gap, lit⟩ = true := by
  rcases hg with rfl | ⟨rfl, hg⟩
  · simpa [JNum.ok] using h
  · obtain ⟨a1, a2, a3, _⟩ := jnum_facts .tsconfig ⟨false, [], lit⟩ h
    simp only at a1 a2 a3
    simp [JNum.ok, dialectOf, esbuildTsconfig, a1, a2, a3]
    right; right; exact hg

include hP in
theorem minus_sound {L L1 L' : Lx} {inp : List Cp} (hat : AtTok fl Rd L inp) (hn1 : next fl P L = .ok L1)
    (hnum : L1.tok = .num) (hn : next fl P L1 = .ok L') (ht : L.tok = .minus) (hne : L'.log.hasErrors = false) :
    ValSound fl Rd o P inp (.num (F64.neg L1.number)) L' := by
  have hf := hat.1
  simp only [TokFacts, ht] at hf
  obtain ⟨f1, f2⟩ := hf
  have hne1 := noErr_of_le (next_log_le fl P L1 L' hn) hne
  obtain ⟨s, inp2, k1, k2, k3⟩ := after_tok hP (after_of_tok hat hn1 (by rw [ht]; simp) (by rw [ht]; simp)) hne1
  have hf2 := k3.1
  simp only [TokFacts, hnum] at hf2
  obtain ⟨lit, l1, l2, l3⟩ := hf2
  have hlne : lit.render ≠ [] := lit_render_ne_nil (jnum_facts fl ⟨false, [], lit⟩ l1).1
  have hinp2 : inp2.isEmpty = false := by
    cases hr : lit.render with
    | nil => exact absurd hr hlne
    | cons c x => rw [hr] at l2; exact nonempty_of_chars l2
  have hs : s = [] ∨ (fl = .tsconfig ∧ Sep.ok (dialectOf fl) false false s = true) := by
    cases fl with
    | tsconfig => exact Or.inr ⟨rfl, sepok_final k2 hinp2⟩
    | json =>
      left
      cases hsr : Sep.render s with
      | nil =>
        cases s with
        | nil => rfl
        | cons it t => cases it <;> simp [SepItem.render] at hsr
      | cons c t =>
        exfalso
        have := sep_not_digit k2 (dialect_extraWs .json) hsr
        rw [hsr] at k1
        have f2' := f2 rfl
        cases hr : L.rest with
        | nil => rw [hr] at k1; simp at k1
        | cons x xs =>
          rw [hr] at k1 f2'
          simp only [chars_cons, List.cons_append, List.cons.injEq] at k1
          simp only [headIs] at f2'
          rw [k1.1, this] at f2'
          cases f2'
  refine ⟨.num ⟨true, s, lit⟩, L1.rest, ?_, jnum_neg_ok fl lit s l1 hs, ?_,
    after_of_tok k3 hn (by rw [hnum]; simp) (by rw [hnum]; simp)⟩
  · simp only [Val.render, JNum.render, if_true, List.cons_append, List.nil_append, List.append_assoc]
    rw [f1, k1, l2]
  · simp [RepV, JNum.value, l3]

end
end EsbuildModel.Json
