import EsbuildModel.Lemmas.CssLexName
/-!
Escapes as units: the runes an escape consists of (`escChars`), and `decodeEscapesInToken` on a text that starts with
such a unit (`decCps_escape`): it decodes the unit to the code point `consumeEscape` returned and goes on behind it.
Likewise for whole names (`nameChars`, `decCps_name`).
-/
namespace EsbuildModel.CssLex

/-- the hex digits `hexLoop k` passes over -/
def hexTake : Nat → List Ch → List Ch
  | 0, _ => []
  | _ + 1, [] => []
  | k + 1, c :: t => match isHex c.cp with | some _ => c :: hexTake k t | none => []

theorem hexTake_append (k acc : Nat) (s : List Ch) : hexTake k s ++ (hexLoop k acc s).2 = s := by
  induction k generalizing acc s with
  | zero => simp [hexTake, hexLoop]
  | succ k ih =>
    cases s with
    | nil => simp [hexTake, hexLoop]
    | cons c t =>
      simp only [hexTake, hexLoop]
      cases h : isHex c.cp with
      | none => simp
      | some d => simp [ih]

theorem hexTake_length (k : Nat) (s : List Ch) : (hexTake k s).length ≤ k := by
  induction k generalizing s with
  | zero => simp [hexTake]
  | succ k ih =>
    cases s with
    | nil => simp [hexTake]
    | cons c t =>
      simp only [hexTake]
      cases h : isHex c.cp with
      | none => simp
      | some d => simp only [List.length_cons]; have := ih t; omega

/-- where `hexLoop` stops before using up its `k` rounds, no hex digit follows -/
theorem hexLoop_stop (k acc : Nat) (s : List Ch) (h : (hexTake k s).length < k) :
    headIs (fun c => (isHex c).isSome) (hexLoop k acc s).2 = false := by
  induction k generalizing acc s with
  | zero => omega
  | succ k ih =>
    cases s with
    | nil => simp [hexLoop, headIs]
    | cons c t =>
      simp only [hexTake, hexLoop] at h ⊢
      cases hh : isHex c.cp with
      | none => simp [headIs, hh]
      | some d =>
        simp only [hh] at h ⊢
        exact ih _ t (by simp only [List.length_cons] at h; omega)

/-- `hexLoop` on its own digits followed by any text that does not go on with a hex digit -/
theorem hexLoop_truncate (k acc : Nat) (s m : List Ch)
    (hm : (hexTake k s).length < k → headIs (fun c => (isHex c).isSome) m = false) :
    hexLoop k acc (hexTake k s ++ m) = ((hexLoop k acc s).1, m) := by
  induction k generalizing acc s with
  | zero => simp [hexTake, hexLoop]
  | succ k ih =>
    cases s with
    | nil =>
      simp only [hexTake, List.nil_append, hexLoop]
      have := hm (by simp [hexTake])
      cases m with
      | nil => simp [hexLoop]
      | cons x xs =>
        simp only [headIs] at this
        simp only [hexLoop]
        cases hx : isHex x.cp with
        | none => rfl
        | some d => simp [hx] at this
    | cons c t =>
      simp only [hexTake, hexLoop]
      cases hh : isHex c.cp with
      | none =>
        simp only [List.nil_append]
        have := hm (by simp [hexTake, hh])
        cases m with
        | nil => simp [hexLoop]
        | cons x xs =>
          simp only [headIs] at this
          simp only [hexLoop]
          cases hx : isHex x.cp with
          | none => rfl
          | some d => simp [hx] at this
      | some d =>
        simp only [List.cons_append, hexLoop, hh]
        exact ih _ t (fun hl => hm (by simp only [hexTake, hh, List.length_cons]; omega))

/-- the whitespace rune `skipOneWs` passes over -/
def wsTake1 : List Ch → List Ch
  | [] => []
  | c :: _ => if isWhitespace c.cp then [c] else []

theorem wsTake1_append (s : List Ch) : wsTake1 s ++ skipOneWs s = s := by
  cases s with
  | nil => rfl
  | cons c t => simp only [wsTake1, skipOneWs]; split <;> simp

/-- the runes of the escape at the start of `s` -/
def escChars : List Ch → List Ch
  | [] => []
  | [b] => [b]
  | b :: c :: u =>
    match isHex c.cp with
    | some h => b :: c :: (hexTake 5 u ++ wsTake1 (hexLoop 5 h u).2)
    | none => [b, c]

theorem escChars_append (s : List Ch) : escChars s ++ (consumeEscape s).2 = s := by
  match s with
  | [] => rfl
  | [b] => simp [escChars, consumeEscape]
  | b :: c :: u =>
    simp only [escChars, consumeEscape]
    cases h : isHex c.cp with
    | none => simp
    | some d =>
      simp only [List.cons_append, List.append_assoc, wsTake1_append, hexTake_append]

theorem headIs_prefix (p : Nat → Bool) (m r : List Ch) (hm : m <+: r) (h : headIs p r = false) : headIs p m = false := by
  cases m with
  | nil => rfl
  | cons x xs =>
    obtain ⟨z, hz⟩ := hm
    rw [← hz]at h
    simpa [headIs] using h

/-- (★) `decodeEscapesInToken` on an escape followed by (a prefix of) what followed it in the source -/
theorem decCps_escape (c : Ch) (t : List Ch) (hv : isValidEscape (c :: t) = true) (m : List Ch)
    (hm : m <+: (consumeEscape (c :: t)).2) :
    decCps (escChars (c :: t) ++ m) = (consumeEscape (c :: t)).1 :: decCps m := by
  simp only [isValidEscape, Bool.and_eq_true, beq_iff_eq, Bool.not_eq_true'] at hv
  obtain ⟨hc, hnl⟩ := hv
  match t with
  | [] =>
    simp only [consumeEscape] at hm ⊢
    have : m = [] := by obtain ⟨z, hz⟩ := hm; simpa using (List.append_eq_nil_iff.mp hz).1
    subst this
    simp only [escChars, List.append_nil]
    rw [decCps.eq_def]; simp [hc, decCps]
  | d :: u =>
    simp only [headIs] at hnl
    simp only [consumeEscape, escChars] at hm ⊢
    cases hh : isHex d.cp with
    | none =>
      simp only [hh] at hm ⊢
      have hd : ¬ (d.cp = 10 ∨ d.cp = 12) ∧ d.cp ≠ 13 := by
        simp only [isNewline, Bool.or_eq_false_iff, beq_eq_false_iff_ne, ne_eq] at hnl; omega
      rw [List.cons_append, List.cons_append, List.nil_append, decCps.eq_def]
      simp [hc, hh, hd.1, hd.2]
    | some h =>
      simp only [hh] at hm ⊢
      rw [List.cons_append, List.cons_append, decCps.eq_def]
      simp only [hc, bne_self_eq_false, Bool.false_eq_true, if_false, hh, List.append_assoc]
      -- the hex loop over the unit stops where it stopped in the source
      have hstop := hexLoop_stop 5 h u
      have htr := hexLoop_truncate 5 h u (wsTake1 (hexLoop 5 h u).2 ++ m) (by
        intro hl
        have h1 := hstop hl
        cases hr : (hexLoop 5 h u).2 with
        | nil =>
          rw [hr] at hm; simp only [skipOneWs] at hm
          have : m = [] := by obtain ⟨z, hz⟩ := hm; simpa using (List.append_eq_nil_iff.mp hz).1
          simp [wsTake1, this, headIs]
        | cons w ws =>
          rw [hr] at h1 hm
          simp only [wsTake1, skipOneWs] at hm ⊢
          by_cases hw : isWhitespace w.cp = true
          · simp only [hw, if_true, List.cons_append, List.nil_append, headIs]
            simpa [headIs] using h1
          · simp only [hw, Bool.false_eq_true, if_false, List.nil_append] at hm ⊢
            exact headIs_prefix _ _ _ hm h1)
      rw [htr]
      simp only
      congr 1
      -- the optional whitespace
      cases hr : (hexLoop 5 h u).2 with
      | nil =>
        rw [hr] at hm; simp only [skipOneWs] at hm
        have : m = [] := by obtain ⟨z, hz⟩ := hm; simpa using (List.append_eq_nil_iff.mp hz).1
        simp [wsTake1, this, skipOneWs]
      | cons w ws =>
        rw [hr] at hm
        simp only [wsTake1, skipOneWs] at hm ⊢
        by_cases hw : isWhitespace w.cp = true
        · simp [hw, skipOneWs]
        · simp only [hw, Bool.false_eq_true, if_false, List.nil_append] at hm ⊢
          cases m with
          | nil => rfl
          | cons x xs =>
            obtain ⟨z, hz⟩ := hm
            simp only [List.cons_append, List.cons.injEq] at hz
            simp only [skipOneWs, hz.1, hw, Bool.false_eq_true, if_false]

/-- the runes of the name at the start of `s` -/
def nameChars (s : List Ch) : List Ch :=
  match s with
  | [] => []
  | c :: t =>
    if isNameContinue c.cp then c :: nameChars t
    else if isValidEscape (c :: t) then escChars (c :: t) ++ nameChars (consumeEscape (c :: t)).2
    else []
termination_by s.length
decreasing_by
  · simp
  · have := consumeEscape_length c t; simp only [List.length_cons]; omega

theorem nameChars_append (s : List Ch) : nameChars s ++ (nameCps s).2 = s := by
  fun_induction nameCps s with
  | case1 => simp [nameChars]
  | case2 c t h ih => rw [nameChars]; simp [h, ih]
  | case3 c t h1 h2 ih =>
    rw [nameChars]; simp only [h1, h2, Bool.false_eq_true, if_false, if_true, List.append_assoc, ih]
    exact escChars_append _
  | case4 c t h1 h2 => rw [nameChars]; simp [h1, h2]

theorem isNameContinue_ne_backslash (c : Nat) (h : isNameContinue c = true) : c ≠ 92 := by
  intro hc; subst hc; simp [isNameContinue, isNameStart, isDigit] at h

/-- (N3) `decodeEscapesInToken` on a name followed by (a prefix of) what followed it in the source: the code points
`consumeName` read, as long as the name has no NUL rune in it -/
theorem decCps_name (s : List Ch) (m : List Ch) (hm : m <+: (nameCps s).2) (hnul : ∀ c ∈ nameChars s, c.cp ≠ 0) :
    decCps (nameChars s ++ m) = (nameCps s).1 ++ decCps m := by
  fun_induction nameCps s with
  | case1 => simp [nameChars]
  | case2 c t h ih =>
    rw [nameChars] at hnul ⊢
    simp only [h, if_true] at hnul ⊢
    have h0 := hnul c (by simp)
    have h92 := isNameContinue_ne_backslash _ h
    rw [List.cons_append, decCps.eq_def]
    simp only [bne_iff_ne, ne_eq, h92, not_false_eq_true, if_true, beq_iff_eq, h0, if_false, List.cons_append,
      List.cons.injEq, true_and]
    exact ih hm (fun x hx => hnul x (List.mem_cons_of_mem _ hx))
  | case3 c t h1 h2 ih =>
    rw [nameChars] at hnul ⊢
    simp only [h1, h2, Bool.false_eq_true, if_false, if_true] at hnul ⊢
    rw [List.append_assoc]
    have hpre : nameChars (consumeEscape (c :: t)).2 ++ m <+: (consumeEscape (c :: t)).2 := by
      obtain ⟨z, hz⟩ := hm
      refine ⟨z, ?_⟩
      rw [List.append_assoc, hz]; exact nameChars_append _
    rw [decCps_escape c t h2 _ hpre]
    rw [ih hm (fun x hx => hnul x (by simp [hx]))]
    simp
  | case4 c t h1 h2 => rw [nameChars]; simp [h1, h2]

end EsbuildModel.CssLex
