import EsbuildModel.Lemmas.OutPathsSplit
/-
`clean` / `join` of the model against POSIX pathname resolution (`Spec.OutPath.resolve` / `denote`).
-/
namespace EsbuildModel.OutPaths
open EsbuildModel.Spec.OutPath

theorem render_eq (P : AbsPath) : render P = '/' :: joinSlash P := by
  cases P with
  | nil => rfl
  | cons a P =>
    show ((a :: P).map fun n => '/' :: n).flatten = _
    induction P generalizing a with
    | nil => simp [joinSlash_singleton]
    | cons b P ih =>
      rw [joinSlash_cons_cons, List.map_cons, List.flatten_cons, ih b]
      simp

/-- one step of `clean` on a rooted path is one step of pathname resolution -/
theorem cleanStep_rooted {stack : List Str} (hs : ∀ x ∈ stack, x ≠ ['.', '.']) (e : Str) :
    (cleanStep true stack e).reverse = step stack.reverse e ∧
    ∀ x ∈ cleanStep true stack e, x ≠ ['.', '.'] := by
  unfold cleanStep step
  by_cases h1 : e = []
  · simp only [h1, if_true, true_or]; exact ⟨trivial, hs⟩
  · by_cases h2 : e = ['.']
    · simp only [h2, if_true, or_true]
      refine ⟨by simp, ?_⟩
      simpa using hs
    · by_cases h3 : e = ['.', '.']
      · subst h3
        cases stack with
        | nil => simp
        | cons top below =>
          have ht : top ≠ ['.', '.'] := hs top (by simp)
          refine ⟨?_, ?_⟩
          · simp [ht]
          · intro x hx
            simp [ht] at hx
            exact hs x (by simp [hx])
      · simp only [h1, h2, h3, if_false, or_self]
        refine ⟨by simp, ?_⟩
        intro x hx
        rcases List.mem_cons.mp hx with rfl | hx
        · exact h3
        · exact hs x hx

theorem foldl_cleanStep_rooted (segs : List Str) {stack : List Str} (hs : ∀ x ∈ stack, x ≠ ['.', '.']) :
    (segs.foldl (cleanStep true) stack).reverse = resolve stack.reverse segs := by
  induction segs generalizing stack with
  | nil => rfl
  | cons e segs ih =>
    have := cleanStep_rooted hs e
    simp only [List.foldl_cons, resolve]
    rw [ih this.2, this.1]
    rfl

/-- `clean` of a rooted path is the text of the directory it denotes -/
theorem clean_rooted (r : Str) : clean ('/' :: r) = render (denote ('/' :: r)) := by
  rw [render_eq]
  simp only [clean, decide_true, if_true]
  rw [foldl_cleanStep_rooted _ (by simp)]
  simp [denote, components_eq_splitSlash]

theorem isAbs_iff {p : Str} : isAbs p = true ↔ ∃ r, p = '/' :: r := by
  cases p with
  | nil => simp [isAbs]
  | cons c r =>
    by_cases h : c = '/'
    · subst h; simp [isAbs]
    · have : isAbs (c :: r) = false := by
        unfold isAbs
        split
        · rename_i heq; injection heq with h1 h2; exact absurd h1 h
        · rfl
      simp [this, h]

theorem clean_abs {p : Str} (h : isAbs p = true) : clean p = render (denote p) := by
  obtain ⟨r, rfl⟩ := isAbs_iff.mp h
  exact clean_rooted r

theorem step_valid {cur : AbsPath} (hc : ∀ x ∈ cur, ValidName x) {e : Str} (he : '/' ∉ e) :
    ∀ x ∈ step cur e, ValidName x := by
  unfold step
  by_cases h1 : e = [] ∨ e = ['.']
  · simp only [h1, if_true]; exact hc
  · simp only [h1, if_false]
    by_cases h3 : e = ['.', '.']
    · simp only [h3, if_true]
      intro x hx
      exact hc x (List.dropLast_subset _ hx)
    · simp only [h3, if_false]
      intro x hx
      rcases List.mem_append.mp hx with hx | hx
      · exact hc x hx
      · simp only [List.mem_singleton] at hx
        subst hx
        simp only [not_or] at h1
        exact ⟨h1.1, he, h1.2, h3⟩

theorem resolve_valid (comps : List Str) {cur : AbsPath} (hc : ∀ x ∈ cur, ValidName x)
    (he : ∀ e ∈ comps, '/' ∉ e) : ∀ x ∈ resolve cur comps, ValidName x := by
  induction comps generalizing cur with
  | nil => exact hc
  | cons e comps ih =>
    simp only [resolve, List.foldl_cons]
    exact ih (step_valid hc (he e (by simp))) (fun e' h' => he e' (by simp [h']))

theorem denote_valid (p : Str) : ∀ x ∈ denote p, ValidName x := by
  unfold denote
  apply resolve_valid _ (by simp)
  intro e he
  rw [components_eq_splitSlash] at he
  exact noslash_of_mem_splitSlash he

theorem resolve_append (cur : AbsPath) (a b : List Str) :
    resolve cur (a ++ b) = resolve (resolve cur a) b := by
  simp [resolve, List.foldl_append]

/-- resolving names that are already valid just appends them -/
theorem resolve_validNames (cur : AbsPath) {names : List Str} (h : ∀ x ∈ names, ValidName x) :
    resolve cur names = cur ++ names := by
  induction names generalizing cur with
  | nil => simp [resolve]
  | cons n names ih =>
    have hn := h n (by simp)
    simp only [resolve, List.foldl_cons]
    have : step cur n = cur ++ [n] := by
      unfold step
      simp [hn.1, hn.2.2.1, hn.2.2.2]
    rw [this]
    have := ih (cur ++ [n]) (fun x hx => h x (by simp [hx]))
    simp only [resolve] at this
    rw [this]
    simp

theorem denote_render {P : AbsPath} (h : ∀ x ∈ P, ValidName x) : denote (render P) = P := by
  rw [render_eq]
  unfold denote
  rw [components_eq_splitSlash, splitSlash_slash]
  cases P with
  | nil => simp [joinSlash_nil, splitSlash, resolve, step]
  | cons a P =>
    rw [splitSlash_joinSlash (by simp) (fun x hx => (h x hx).2.1)]
    have : resolve [] ([] :: a :: P) = resolve [] (a :: P) := by simp [resolve, step]
    rw [this, resolve_validNames [] h]
    rfl

/-- `clean` is idempotent on absolute paths -/
theorem clean_render {P : AbsPath} (h : ∀ x ∈ P, ValidName x) : clean (render P) = render P := by
  have : render P = '/' :: joinSlash P := render_eq P
  rw [this, clean_rooted, ← this, denote_render h]

theorem denote_append_slash (a b : Str) :
    denote (a ++ '/' :: b) = resolve (denote a) (components b) := by
  simp only [denote, components_eq_splitSlash, splitSlash_append_slash, resolve_append]

/-- `Join(a, b)` for an absolute `a`: resolve the components of `b` starting from the directory `a` -/
theorem join_abs {a : Str} (ha : isAbs a = true) (b : Str) :
    join [a, b] = render (resolve (denote a) (components b)) := by
  obtain ⟨r, rfl⟩ := isAbs_iff.mp ha
  have h1 : joinRaw ['/' :: r, b] = clean (('/' :: r) ++ '/' :: b) := by
    simp [joinRaw, List.dropWhile, joinSlash_cons_cons, joinSlash_singleton]
  unfold join
  rw [h1]
  simp only [List.cons_append]
  rw [clean_rooted, clean_render (denote_valid _)]
  have := denote_append_slash ('/' :: r) b
  simp only [List.cons_append] at this
  rw [this]

/-- components none of which is ".." never leave the starting directory -/
theorem resolve_noDotDot_prefix (comps : List Str) (cur : AbsPath)
    (h : ∀ c ∈ comps, c ≠ ['.', '.']) : cur <+: resolve cur comps := by
  induction comps generalizing cur with
  | nil => exact List.prefix_refl _
  | cons e comps ih =>
    simp only [resolve, List.foldl_cons]
    have hstep : cur <+: step cur e := by
      unfold step
      have he := h e (by simp)
      by_cases h1 : e = [] ∨ e = ['.']
      · simp [h1]
      · simp only [h1, he, if_false]
        exact List.prefix_append _ _
    exact List.IsPrefix.trans hstep (ih (step cur e) (fun c hc => h c (by simp [hc])))

end EsbuildModel.OutPaths
