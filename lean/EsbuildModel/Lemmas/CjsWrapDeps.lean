import EsbuildModel.Lemmas.CjsWrapBase
/-! `recursivelyWrapDependencies` (`CjsWrap.wrapDeps`): it terminates on every graph (cycles included) within
`#files + 1` levels of recursion, marks exactly nodes reachable from its argument through non-runtime files,
leaves the newly marked non-runtime files with all their dependencies marked, and changes nothing else. -/
namespace EsbuildModel.CjsWrap

/-- the static part agrees with the base table `b` -/
def RS (_ : Nat) (f0 f : File) : Prop := f.static = f0.static
def St (b fs : Files) : Prop := PW RS b fs

theorem St.refl (b : Files) : St b b := PW.rfl' (R := RS) (fun _ _ => rfl) b

def Edge (b : Files) (j i : Nat) : Prop := ∃ (f : File) (r : Rec), b[j]? = some f ∧ r ∈ f.recs ∧ r.target = some i
def Rt (b : Files) (x : Nat) : Prop := ∃ f : File, b[x]? = some f ∧ f.isRuntime = true
def Did (fs : Files) (x : Nat) : Prop := ∃ f : File, fs[x]? = some f ∧ f.didWrap = true

/-- `x` is reached from `i` along import records, never continuing through a runtime file -/
inductive Reach (b : Files) (i : Nat) : Nat → Prop
  | refl : Reach b i i
  | step {y x : Nat} : Reach b i y → ¬ Rt b y → Edge b y x → Reach b i x

theorem Reach.head {b : Files} {i t x : Nat} (he : Edge b i t) (hr : ¬ Rt b i) (h : Reach b t x) : Reach b i x := by
  induction h with
  | refl => exact .step .refl hr he
  | step _ hr' he' ih => exact .step ih hr' he'

/-- the wrapper `recursivelyWrapDependencies` leaves on a file it marks -/
def wrapOf (f : File) : Wrap := (markWrapped f).wrap

/-- what steps 2 may do to one file: mark it (once), and turn a non-CommonJS, non-dynamic kind into dynamic -/
def RC (_ : Nat) (f f' : File) : Prop :=
  f'.static = f.static ∧ f'.force = f.force ∧ f'.needsExportsVar = f.needsExportsVar ∧
  (f'.kind = f.kind ∨ (f.kind ≠ .cjs ∧ f.kind ≠ .dyn ∧ f'.kind = .dyn)) ∧
  ((f'.didWrap = f.didWrap ∧ f'.wrap = f.wrap) ∨ (f.didWrap = false ∧ f'.didWrap = true ∧ f'.wrap = wrapOf f))

theorem RC.rfl' (i : Nat) (f : File) : RC i f f := ⟨rfl, rfl, rfl, Or.inl rfl, Or.inl ⟨rfl, rfl⟩⟩

theorem RC.cjs_iff {i : Nat} {f f' : File} (h : RC i f f') : f'.kind = .cjs ↔ f.kind = .cjs := by
  obtain ⟨_, _, _, hk, _⟩ := h
  rcases hk with hk | ⟨h1, _, h3⟩
  · rw [hk]
  · constructor
    · intro h'; rw [h3] at h'; cases h'
    · intro h'; exact absurd h' h1

theorem wrapOf_eq (f : File) :
    wrapOf f = if f.isRuntime = true then f.wrap else if f.wrap = .none then (if f.kind = .cjs then .cjs else .esm) else f.wrap := by
  unfold wrapOf markWrapped
  by_cases hr : f.isRuntime = true
  · simp [hr]
  · by_cases hw : f.wrap = .none
    · by_cases hk : f.kind = .cjs <;> simp [hr, hw, hk]
    · simp [hr, hw]

theorem wrapOf_congr {f f' : File} (hs : f'.static = f.static) (hw : f'.wrap = f.wrap)
    (hk : f'.kind = .cjs ↔ f.kind = .cjs) : wrapOf f' = wrapOf f := by
  have hr : f'.isRuntime = f.isRuntime := by
    have : f'.static.isRuntime = f.static.isRuntime := by rw [hs]
    exact this
  rw [wrapOf_eq, wrapOf_eq, hr, hw]
  by_cases hkc : f.kind = .cjs
  · have := hk.2 hkc
    simp [hkc, this]
  · have : ¬ f'.kind = .cjs := fun h => hkc (hk.1 h)
    simp [hkc, this]

theorem RC.trans' (i : Nat) (a b c : File) (h1 : RC i a b) (h2 : RC i b c) : RC i a c := by
  have hc1 := h1.cjs_iff
  obtain ⟨s1, f1, n1, k1, w1⟩ := h1
  obtain ⟨s2, f2, n2, k2, w2⟩ := h2
  refine ⟨s2.trans s1, f2.trans f1, n2.trans n1, ?_, ?_⟩
  · rcases k1 with k1 | ⟨a1, a2, a3⟩
    · rcases k2 with k2 | ⟨b1, b2, b3⟩
      · exact Or.inl (k2.trans k1)
      · exact Or.inr ⟨k1 ▸ b1, k1 ▸ b2, b3⟩
    · rcases k2 with k2 | ⟨_, b2, _⟩
      · exact Or.inr ⟨a1, a2, k2.trans a3⟩
      · exact absurd a3 b2
  · rcases w1 with ⟨d1, w1⟩ | ⟨d1, d1', w1⟩
    · rcases w2 with ⟨d2, w2⟩ | ⟨d2, d2', w2⟩
      · exact Or.inl ⟨d2.trans d1, w2.trans w1⟩
      · exact Or.inr ⟨d1 ▸ d2, d2', by rw [w2]; exact wrapOf_congr s1 w1 hc1⟩
    · rcases w2 with ⟨d2, w2⟩ | ⟨d2, _, _⟩
      · exact Or.inr ⟨d1, d2.trans d1', w2.trans w1⟩
      · rw [d1'] at d2; cases d2

/-- `wrapDeps` does not touch kinds; `hasDyn` does not touch marks and wrappers -/
def R2 (i : Nat) (f f' : File) : Prop := RC i f f' ∧ f'.kind = f.kind
def RD (i : Nat) (f f' : File) : Prop := RC i f f' ∧ f'.didWrap = f.didWrap ∧ f'.wrap = f.wrap

theorem R2.rfl' (i : Nat) (f : File) : R2 i f f := ⟨RC.rfl' i f, rfl⟩
theorem R2.trans' (i : Nat) (a b c : File) (h1 : R2 i a b) (h2 : R2 i b c) : R2 i a c :=
  ⟨RC.trans' i a b c h1.1 h2.1, h2.2.trans h1.2⟩
theorem RD.rfl' (i : Nat) (f : File) : RD i f f := ⟨RC.rfl' i f, rfl, rfl⟩
theorem RD.trans' (i : Nat) (a b c : File) (h1 : RD i a b) (h2 : RD i b c) : RD i a c :=
  ⟨RC.trans' i a b c h1.1 h2.1, h2.2.1.trans h1.2.1, h2.2.2.trans h1.2.2⟩

theorem markWrapped_static (f : File) : (markWrapped f).static = f.static := by
  unfold markWrapped
  split
  · rfl
  · split
    · split <;> rfl
    · rfl

theorem markWrapped_did (f : File) : (markWrapped f).didWrap = true := by
  unfold markWrapped
  split
  · rfl
  · split
    · split <;> rfl
    · rfl

theorem markWrapped_kind (f : File) : (markWrapped f).kind = f.kind := by
  unfold markWrapped
  split
  · rfl
  · split
    · split <;> rfl
    · rfl

theorem markWrapped_force (f : File) :
    (markWrapped f).force = f.force ∧ (markWrapped f).needsExportsVar = f.needsExportsVar := by
  unfold markWrapped
  split
  · exact ⟨rfl, rfl⟩
  · split
    · split <;> exact ⟨rfl, rfl⟩
    · exact ⟨rfl, rfl⟩

theorem R2_mark {i : Nat} {f : File} (h : f.didWrap = false) : R2 i f (markWrapped f) :=
  ⟨⟨markWrapped_static f, (markWrapped_force f).1, (markWrapped_force f).2, Or.inl (markWrapped_kind f),
    Or.inr ⟨h, markWrapped_did f, rfl⟩⟩, markWrapped_kind f⟩

theorem St.step {R : Nat → File → File → Prop} (hR : ∀ i a c, R i a c → c.static = a.static) {b fs fs' : Files}
    (h : St b fs) (h' : PW R fs fs') : St b fs' :=
  PW.trans (R := RS) (fun _ _ _ _ h1 h2 => h2.trans h1) h (h'.mono (fun i a c hac => hR i a c hac))

theorem St.step2 {b fs fs' : Files} (h : St b fs) (h' : PW R2 fs fs') : St b fs' := h.step (fun _ _ _ hr => hr.1.1) h'

theorem St.get {b fs : Files} (h : St b fs) {i : Nat} {f : File} (hf : fs[i]? = some f) :
    ∃ f0 : File, b[i]? = some f0 ∧ f.static = f0.static := PW.get' h hf

theorem St.recs {b fs : Files} (h : St b fs) {i : Nat} {f0 f : File} (h0 : b[i]? = some f0) (hf : fs[i]? = some f) :
    f.recs = f0.recs ∧ f.isRuntime = f0.isRuntime ∧ f.stars = f0.stars ∧ f.entry = f0.entry := by
  have hs := h.2 i f0 f h0 hf
  have h1 : f.static.recs = f0.static.recs := by rw [hs]
  have h2 : f.static.isRuntime = f0.static.isRuntime := by rw [hs]
  have h3 : f.static.stars = f0.static.stars := by rw [hs]
  have h4 : f.static.entry = f0.static.entry := by rw [hs]
  exact ⟨h1, h2, h3, h4⟩

theorem Did.mono {fs fs' : Files} (h : PW RC fs fs') {x : Nat} (hd : Did fs x) : Did fs' x := by
  obtain ⟨f, hf, hdf⟩ := hd
  obtain ⟨f', hf', hr⟩ := h.get hf
  refine ⟨f', hf', ?_⟩
  rcases hr.2.2.2.2 with ⟨d, _⟩ | ⟨d, _, _⟩
  · rw [d, hdf]
  · rw [hdf] at d; cases d

theorem PW_R2_RC {fs fs' : Files} (h : PW R2 fs fs') : PW RC fs fs' := h.mono (fun _ _ _ hr => hr.1)

/-! ### counting the files that are not marked yet -/

def undone (fs : Files) : Nat := fs.countP (fun f => !f.didWrap)

theorem countP_le_of_pw (p : File → Bool) : ∀ (l l' : Files), l.length = l'.length →
    (∀ (i : Nat) (a c : File), l[i]? = some a → l'[i]? = some c → p c = true → p a = true) →
    l'.countP p ≤ l.countP p := by
  intro l
  induction l with
  | nil => intro l' hl _; cases l' with | nil => simp | cons _ _ => simp at hl
  | cons a l ih =>
    intro l' hl h
    cases l' with
    | nil => simp at hl
    | cons c l' =>
      have hrec := ih l' (by simpa using hl) (fun i x y hx hy => h (i + 1) x y (by simpa using hx) (by simpa using hy))
      have h0 := h 0 a c (by simp) (by simp)
      simp only [List.countP_cons]
      by_cases hc : p c = true
      · simp [hc, h0 hc]; exact hrec
      · simp [hc]; omega

theorem undone_mono {fs fs' : Files} (h : PW RC fs fs') : undone fs' ≤ undone fs := by
  apply countP_le_of_pw _ fs fs' h.1
  intro i a c ha hc hp
  have hr := h.2 i a c ha hc
  rcases hr.2.2.2.2 with ⟨d, _⟩ | ⟨d, _, _⟩
  · simpa [d] using hp
  · simp [d]

theorem undone_set {fs : Files} {i : Nat} {f f' : File} (hf : fs[i]? = some f) (hd : f.didWrap = false)
    (hd' : f'.didWrap = true) : undone (fs.set i f') + 1 = undone fs := by
  have hlt := lt_of_get hf
  have hfi : fs[i] = f := by
    have := List.getElem?_eq_getElem hlt
    rw [hf] at this
    injection this with this
    exact this.symm
  have hpos : 0 < fs.countP (fun f => !f.didWrap) := by
    rw [List.countP_pos_iff]
    exact ⟨f, by rw [← hfi]; exact List.getElem_mem hlt, by simp [hd]⟩
  unfold undone
  rw [List.countP_set hlt, hfi]
  simp [hd, hd']
  omega

/-! ### the traversal -/

structure WPost (b fs fs' : Files) (i : Nat) : Prop where
  rel : PW R2 fs fs'
  did : Did fs' i
  closed : ∀ x, Did fs' x → ¬ Did fs x → ¬ Rt b x → ∀ t, Edge b x t → Did fs' t
  sound : ∀ x, Did fs' x → ¬ Did fs x → Reach b i x

theorem did_set_cases {fs : Files} {i x : Nat} {f' : File} (h : Did (fs.set i f') x) : x = i ∨ Did fs x := by
  by_cases hxi : i = x
  · exact Or.inl hxi.symm
  · obtain ⟨g, hg, hgd⟩ := h
    rw [get_set_ne _ hxi] at hg
    exact Or.inr ⟨g, hg, hgd⟩

theorem mem_targets {rs : List Rec} {t : Nat} : t ∈ targets rs ↔ ∃ r ∈ rs, r.target = some t := by
  simp [targets, List.mem_filterMap]

/-- the loop over the dependencies, given the traversal for the remaining fuel -/
theorem wrapLoop_post {b : Files} {fuel : Nat}
    (ih : ∀ i fs, St b fs → i < fs.length → undone fs < fuel → ∃ fs', wrapDeps fuel fs i = some fs' ∧ WPost b fs fs' i) :
    ∀ (ts : List Nat) (fs : Files), St b fs → (∀ t ∈ ts, t < fs.length) → undone fs < fuel →
      ∃ fs', forM (wrapDeps fuel) ts fs = some fs' ∧ PW R2 fs fs' ∧ (∀ t ∈ ts, Did fs' t) ∧
        (∀ x, Did fs' x → ¬ Did fs x → ¬ Rt b x → ∀ t, Edge b x t → Did fs' t) ∧
        (∀ x, Did fs' x → ¬ Did fs x → ∃ t ∈ ts, Reach b t x) := by
  intro ts
  induction ts with
  | nil =>
    intro fs _ _ _
    exact ⟨fs, rfl, PW.rfl' R2.rfl' _, by simp, fun x h hn => absurd h hn, fun x h hn => absurd h hn⟩
  | cons t ts iht =>
    intro fs hst hts hfuel
    obtain ⟨fs1, e1, p1⟩ := ih t fs hst (hts t (by simp)) hfuel
    have hst1 := hst.step2 p1.rel
    have hlen : fs1.length = fs.length := p1.rel.1.symm
    have hu1 : undone fs1 < fuel := Nat.lt_of_le_of_lt (undone_mono (PW_R2_RC p1.rel)) hfuel
    obtain ⟨fs2, e2, r2, d2, c2, s2⟩ := iht fs1 hst1 (fun x hx => by rw [hlen]; exact hts x (by simp [hx])) hu1
    refine ⟨fs2, by simp [forM, e1, e2], PW.trans R2.trans' p1.rel r2, ?_, ?_, ?_⟩
    · intro x hx
      rcases List.mem_cons.1 hx with rfl | hx
      · exact Did.mono (PW_R2_RC r2) p1.did
      · exact d2 x hx
    · intro x hx2 hx0 hrt y hy
      by_cases hx1 : Did fs1 x
      · exact Did.mono (PW_R2_RC r2) (p1.closed x hx1 hx0 hrt y hy)
      · exact c2 x hx2 hx1 hrt y hy
    · intro x hx2 hx0
      by_cases hx1 : Did fs1 x
      · exact ⟨t, by simp, p1.sound x hx1 hx0⟩
      · obtain ⟨t', ht', hr⟩ := s2 x hx2 hx1
        exact ⟨t', by simp [ht'], hr⟩

/-- **`recursivelyWrapDependencies` terminates and does what it should**, on every graph: with fuel above the
number of unmarked files it returns, having marked `i`; every file it marked is reachable from `i`; every
non-runtime file it marked has all its dependencies marked. -/
theorem wrapDeps_post {b : Files} (hwf : WF b) :
    ∀ (fuel i : Nat) (fs : Files), St b fs → i < fs.length → undone fs < fuel →
      ∃ fs', wrapDeps fuel fs i = some fs' ∧ WPost b fs fs' i := by
  intro fuel
  induction fuel with
  | zero => intro i fs _ _ h; omega
  | succ fuel ih =>
    intro i fs hst hi hfuel
    obtain ⟨f, hf⟩ := get_of_lt hi
    obtain ⟨f0, h0, _⟩ := hst.get hf
    obtain ⟨hrecs, hrt, _, _⟩ := hst.recs h0 hf
    unfold wrapDeps
    simp only [hf]
    by_cases hd : f.didWrap = true
    · simp only [hd, if_true]
      exact ⟨fs, rfl, PW.rfl' R2.rfl' _, ⟨f, hf, hd⟩, fun x h hn => absurd h hn, fun x h hn => absurd h hn⟩
    · have hdf : f.didWrap = false := by simpa using hd
      simp only [hd]
      have hrel : PW R2 fs (fs.set i (markWrapped f)) := PW.set R2.rfl' hf (R2_mark hdf)
      have hdidi : Did (fs.set i (markWrapped f)) i := ⟨_, get_set_self hi _, markWrapped_did f⟩
      have hndi : ¬ Did fs i := by
        rintro ⟨g, hg, hgd⟩
        rw [hf] at hg; injection hg with hg; subst hg
        exact hd hgd
      by_cases hr : f.isRuntime = true
      · simp only [hr, if_true]
        refine ⟨_, rfl, hrel, hdidi, ?_, ?_⟩
        · intro x hx hnx hrtx
          rcases did_set_cases hx with rfl | hx
          · exact absurd ⟨f0, h0, by rw [← hrt]; exact hr⟩ hrtx
          · exact absurd hx hnx
        · intro x hx hnx
          rcases did_set_cases hx with rfl | hx
          · exact .refl
          · exact absurd hx hnx
      · simp only [hr]
        have hnrt : ¬ Rt b i := by
          rintro ⟨g, hg, hgr⟩
          rw [h0] at hg; injection hg with hg; subst hg
          rw [hrt] at hr
          exact hr hgr
        have hstA := hst.step2 hrel
        have huA : undone (fs.set i (markWrapped f)) < fuel := by
          have := undone_set (f' := markWrapped f) hf hdf (markWrapped_did f)
          omega
        have hts : ∀ t ∈ targets f.recs, t < (fs.set i (markWrapped f)).length := by
          intro t ht
          obtain ⟨r, hr', ht'⟩ := mem_targets.1 ht
          have := (hwf i f0 h0).1 r (hrecs ▸ hr') t ht'
          rw [List.length_set, ← hst.1]
          exact this
        obtain ⟨fs', e', r', d', c', s'⟩ := wrapLoop_post ih (targets f.recs) _ hstA hts huA
        refine ⟨fs', e', PW.trans R2.trans' hrel r', Did.mono (PW_R2_RC r') hdidi, ?_, ?_⟩
        · intro x hx hnx hrtx y hy
          by_cases hxA : Did (fs.set i (markWrapped f)) x
          · rcases did_set_cases hxA with rfl | hxA
            · obtain ⟨g, r, hg, hr', ht'⟩ := hy
              rw [h0] at hg; injection hg with hg; subst hg
              exact d' y (mem_targets.2 ⟨r, hrecs ▸ hr', ht'⟩)
            · exact absurd hxA hnx
          · exact c' x hx hxA hrtx y hy
        · intro x hx hnx
          by_cases hxA : Did (fs.set i (markWrapped f)) x
          · rcases did_set_cases hxA with rfl | hxA
            · exact .refl
            · exact absurd hxA hnx
          · obtain ⟨t, ht, hreach⟩ := s' x hx hxA
            obtain ⟨r, hr', ht'⟩ := mem_targets.1 ht
            exact Reach.head ⟨f0, r, h0, hrecs ▸ hr', ht'⟩ hnrt hreach

end EsbuildModel.CjsWrap
