import EsbuildModel.Impl.RealPath
/-
Lemmas for Props/C11RealPath.lean: the tree table, POSIX resolution (`Resolves`: determinism, composition, results are
link-free positions), esbuild's `evalSymlinks` loop (`walk`) is sound and complete for it, `DirEntries.Get`, the
cache-free directory information and its agreement with the cached computation.
-/
namespace EsbuildModel.RealPath
open EsbuildModel.PosixFS

/-! ## splitLast, raw, children -/

theorem splitLast_append (d : Path) (b : Name) : splitLast (d ++ [b]) = some (d, b) := by
  induction d with
  | nil => rfl
  | cons a d ih =>
    cases d with
    | nil => rfl
    | cons a' d' =>
      show splitLast (a :: ((a' :: d') ++ [b])) = _
      have : splitLast (a :: ((a' :: d') ++ [b])) =
          (match splitLast ((a' :: d') ++ [b]) with | some (d, b) => some (a :: d, b) | none => none) := rfl
      rw [this, ih]

theorem splitLast_eq_some {p d : Path} {b : Name} (h : splitLast p = some (d, b)) : p = d ++ [b] := by
  induction p generalizing d with
  | nil => simp [splitLast] at h
  | cons a p ih =>
    cases p with
    | nil => simp [splitLast] at h; obtain ⟨rfl, rfl⟩ := h; rfl
    | cons a' p' =>
      have e : splitLast (a :: a' :: p') =
          (match splitLast (a' :: p') with | some (d, b) => some (a :: d, b) | none => none) := rfl
      rw [e] at h
      cases hs : splitLast (a' :: p') with
      | none => simp [hs] at h
      | some db =>
        obtain ⟨d', b'⟩ := db
        simp [hs] at h
        obtain ⟨rfl, rfl⟩ := h
        rw [ih hs]; rfl

theorem splitLast_eq_none {p : Path} (h : splitLast p = none) : p = [] := by
  cases p with
  | nil => rfl
  | cons a p =>
    have : (a :: p) = (a :: p).dropLast ++ [(a :: p).getLast (by simp)] := (List.dropLast_concat_getLast (by simp)).symm
    rw [this, splitLast_append] at h; cases h

theorem raw_nil (t : Tree) : t.raw [] = some .dir := rfl

theorem raw_snoc (t : Tree) (d : Path) (b : Name) :
    t.raw (d ++ [b]) = (t.entries.find? (fun e => e.dir = d ∧ e.name = b)).map (·.node) := by
  simp [Tree.raw, splitLast_append]

theorem mem_children {t : Tree} {d : Path} {b : Name} :
    b ∈ t.children d ↔ ∃ e ∈ t.entries, e.dir = d ∧ e.name = b := by
  simp [Tree.children, and_assoc]

theorem raw_snoc_some {t : Tree} {d : Path} {b : Name} {n : Node} (h : t.raw (d ++ [b]) = some n) :
    ∃ e ∈ t.entries, e.dir = d ∧ e.name = b ∧ e.node = n := by
  rw [raw_snoc] at h
  cases hf : t.entries.find? (fun e => e.dir = d ∧ e.name = b) with
  | none => rw [hf] at h; cases h
  | some e =>
    rw [hf] at h
    have hm := List.mem_of_find?_eq_some hf
    have hp := List.find?_some hf
    simp at hp
    exact ⟨e, hm, hp.1, hp.2, by simpa using h⟩

theorem raw_snoc_mem_children {t : Tree} {d : Path} {b : Name} {n : Node} (h : t.raw (d ++ [b]) = some n) :
    b ∈ t.children d := by
  obtain ⟨e, hm, hd, hb, _⟩ := raw_snoc_some h
  exact mem_children.2 ⟨e, hm, hd, hb⟩

theorem raw_snoc_of_mem_children {t : Tree} {d : Path} {b : Name} (h : b ∈ t.children d) :
    ∃ n, t.raw (d ++ [b]) = some n := by
  obtain ⟨e, hm, hd, hb⟩ := mem_children.1 h
  rw [raw_snoc]
  cases hf : t.entries.find? (fun e => e.dir = d ∧ e.name = b) with
  | none =>
    have := List.find?_eq_none.1 hf e hm
    simp [hd, hb] at this
  | some e' => exact ⟨e'.node, rfl⟩

theorem wf_parent_dir {t : Tree} (hwf : t.WF) {d : Path} {b : Name} {n : Node} (h : t.raw (d ++ [b]) = some n) :
    t.raw d = some .dir := by
  obtain ⟨e, hm, hd, _, _⟩ := raw_snoc_some h
  have := (hwf e hm).1
  rwa [hd] at this

theorem wf_name_clean {t : Tree} (hwf : t.WF) {d : Path} {b : Name} {n : Node} (h : t.raw (d ++ [b]) = some n) :
    b ≠ dotN ∧ b ≠ dotdotN := by
  obtain ⟨e, hm, _, hb, _⟩ := raw_snoc_some h
  have := (hwf e hm).2
  rwa [hb] at this

theorem wf_dropLast_dir {t : Tree} (hwf : t.WF) {p : Path} (h : t.raw p = some .dir) :
    t.raw p.dropLast = some .dir := by
  cases hs : splitLast p with
  | none => rw [splitLast_eq_none hs]; rfl
  | some db =>
    obtain ⟨d, b⟩ := db
    have hp := splitLast_eq_some hs
    subst hp
    rw [List.dropLast_concat]
    exact wf_parent_dir hwf h

/-! ## POSIX resolution: determinism, composition, results are link-free positions -/

theorem _root_.EsbuildModel.PosixFS.Resolves.det {t : Tree} {cur : Path} {rest : List Name} {r r' : Path} {n n' : Nat}
    (h : Resolves t cur rest r n) (h' : Resolves t cur rest r' n') : r = r' ∧ n = n' := by
  induction h generalizing r' n' with
  | done cur => cases h'; exact ⟨rfl, rfl⟩
  | dot hd _ ih =>
    cases h' with
    | dot _ h2 => exact ih h2
    | step hc => exact absurd rfl hc
    | link hc => exact absurd rfl hc
  | dotdot hd _ ih =>
    cases h' with
    | dotdot _ h2 => exact ih h2
    | step _ hc => exact absurd rfl hc
    | link _ hc => exact absurd rfl hc
  | step hc1 hc2 hd hr hl _ ih =>
    cases h' with
    | dot _ _ => exact absurd rfl hc1
    | dotdot _ _ => exact absurd rfl hc2
    | step _ _ _ hr' _ h2 => exact ih h2
    | link _ _ _ hr' _ => rw [hr] at hr'; cases hr'; simp [Node.isLink] at hl
  | link hc1 hc2 hd hr _ ih =>
    cases h' with
    | dot _ _ => exact absurd rfl hc1
    | dotdot _ _ => exact absurd rfl hc2
    | step _ _ _ hr' hl _ => rw [hr] at hr'; cases hr'; simp [Node.isLink] at hl
    | link _ _ _ hr' h2 =>
      rw [hr] at hr'; cases hr'
      obtain ⟨h1, h2⟩ := ih h2
      exact ⟨h1, by omega⟩

/-- resolution of `a ++ b` = resolution of `a`, then of `b` from where `a` ended -/
theorem _root_.EsbuildModel.PosixFS.Resolves.split {t : Tree} {cur : Path} {x : List Name} {r : Path} {n : Nat}
    (h : Resolves t cur x r n) : ∀ a b, x = a ++ b →
      ∃ m n1 n2, Resolves t cur a m n1 ∧ Resolves t m b r n2 ∧ n = n1 + n2 := by
  induction h with
  | done cur =>
    intro a b hab
    have : a = [] ∧ b = [] := by simpa using hab.symm
    obtain ⟨rfl, rfl⟩ := this
    exact ⟨cur, 0, 0, .done _, .done _, rfl⟩
  | @dot cur rest r n hd hres ih =>
    intro a b hab
    cases a with
    | nil => exact ⟨cur, 0, n, .done _, by simp at hab; rw [← hab]; exact .dot hd hres, by omega⟩
    | cons c a' =>
      simp at hab
      obtain ⟨rfl, hab⟩ := hab
      obtain ⟨m, n1, n2, h1, h2, he⟩ := ih a' b hab
      exact ⟨m, n1, n2, .dot hd h1, h2, he⟩
  | @dotdot cur rest r n hd hres ih =>
    intro a b hab
    cases a with
    | nil => exact ⟨cur, 0, n, .done _, by simp at hab; rw [← hab]; exact .dotdot hd hres, by omega⟩
    | cons c a' =>
      simp at hab
      obtain ⟨rfl, hab⟩ := hab
      obtain ⟨m, n1, n2, h1, h2, he⟩ := ih a' b hab
      exact ⟨m, n1, n2, .dotdot hd h1, h2, he⟩
  | @step cur c rest r n nd hc1 hc2 hd hr hl hres ih =>
    intro a b hab
    cases a with
    | nil => exact ⟨cur, 0, n, .done _, by simp at hab; rw [← hab]; exact .step hc1 hc2 hd hr hl hres, by omega⟩
    | cons c' a' =>
      simp at hab
      obtain ⟨rfl, hab⟩ := hab
      obtain ⟨m, n1, n2, h1, h2, he⟩ := ih a' b hab
      exact ⟨m, n1, n2, .step hc1 hc2 hd hr hl h1, h2, he⟩
  | @link cur c rest r n abs tgt hc1 hc2 hd hr hres ih =>
    intro a b hab
    cases a with
    | nil => exact ⟨cur, 0, n + 1, .done _, by simp at hab; rw [← hab]; exact .link hc1 hc2 hd hr hres, by omega⟩
    | cons c' a' =>
      simp at hab
      obtain ⟨rfl, hab⟩ := hab
      obtain ⟨m, n1, n2, h1, h2, he⟩ := ih (tgt ++ a') b (by rw [hab, List.append_assoc])
      exact ⟨m, n1 + 1, n2, .link hc1 hc2 hd hr h1, h2, by omega⟩

theorem _root_.EsbuildModel.PosixFS.Resolves.append {t : Tree} {cur m : Path} {a : List Name} {n1 : Nat}
    (h1 : Resolves t cur a m n1) : ∀ {b r n2}, Resolves t m b r n2 → Resolves t cur (a ++ b) r (n1 + n2) := by
  induction h1 with
  | done cur => intro b r n2 h2; simpa using h2
  | dot hd _ ih => intro b r n2 h2; exact .dot hd (ih h2)
  | dotdot hd _ ih => intro b r n2 h2; exact .dotdot hd (ih h2)
  | step hc1 hc2 hd hr hl _ ih => intro b r n2 h2; exact .step hc1 hc2 hd hr hl (ih h2)
  | @link cur c rest r n abs tgt hc1 hc2 hd hr _ ih =>
    intro b r n2 h2
    have := ih h2
    rw [List.append_assoc] at this
    have h3 := Resolves.link hc1 hc2 hd hr this
    have e : n + n2 + 1 = n + 1 + n2 := by omega
    rw [e] at h3
    exact h3

/-- a position reached without expanding a link: every proper prefix is a directory, no component is a link, "." or ".." -/
def RealPos (t : Tree) (p : Path) : Prop :=
  ∀ q c, (q ++ [c]) <+: p →
    t.raw q = some .dir ∧ c ≠ dotN ∧ c ≠ dotdotN ∧ ∃ nd, t.raw (q ++ [c]) = some nd ∧ nd.isLink = false

theorem RealPos.nil (t : Tree) : RealPos t [] := by
  intro q c h
  have := List.IsPrefix.length_le h
  simp at this

theorem RealPos.dropLast {t : Tree} {p : Path} (h : RealPos t p) : RealPos t p.dropLast :=
  fun q c hq => h q c (List.IsPrefix.trans hq (List.dropLast_prefix p))

theorem RealPos.prefix {t : Tree} {p q : Path} (h : RealPos t p) (hq : q <+: p) : RealPos t q :=
  fun q' c hq' => h q' c (List.IsPrefix.trans hq' hq)

theorem RealPos.snoc {t : Tree} {p : Path} {c : Name} {nd : Node} (h : RealPos t p) (hd : t.raw p = some .dir)
    (hc1 : c ≠ dotN) (hc2 : c ≠ dotdotN) (hr : t.raw (p ++ [c]) = some nd) (hl : nd.isLink = false) :
    RealPos t (p ++ [c]) := by
  intro q c' hq
  rcases List.prefix_concat_iff.1 hq with heq | hpre
  · have := List.append_inj' heq rfl
    obtain ⟨rfl, hc⟩ := this
    simp at hc; subst hc
    exact ⟨hd, hc1, hc2, nd, hr, hl⟩
  · exact h q c' hpre

theorem RealPos.resolves {t : Tree} : ∀ (rest : List Name) (cur : Path), RealPos t (cur ++ rest) →
    Resolves t cur rest (cur ++ rest) 0 := by
  intro rest
  induction rest with
  | nil => intro cur _; simpa using Resolves.done cur
  | cons c rest ih =>
    intro cur h
    have hp : (cur ++ [c]) <+: (cur ++ c :: rest) := ⟨rest, by simp⟩
    obtain ⟨hd, hc1, hc2, nd, hr, hl⟩ := h cur c hp
    have h' : RealPos t ((cur ++ [c]) ++ rest) := by simpa using h
    have := ih (cur ++ [c]) h'
    have e : cur ++ [c] ++ rest = cur ++ c :: rest := by simp
    rw [e] at this
    exact .step hc1 hc2 hd hr hl this

/-- the result of a resolution that starts at a link-free position is a link-free position -/
theorem _root_.EsbuildModel.PosixFS.Resolves.realPos {t : Tree} {cur : Path} {rest : List Name} {r : Path} {n : Nat}
    (h : Resolves t cur rest r n) : RealPos t cur → RealPos t r := by
  induction h with
  | done cur => exact id
  | dot _ _ ih => exact ih
  | dotdot _ _ ih => exact fun hc => ih hc.dropLast
  | step hc1 hc2 hd hr hl _ ih => exact fun hc => ih (hc.snoc hd hc1 hc2 hr hl)
  | @link cur c rest r n abs tgt _ _ _ _ _ ih =>
    intro hc
    apply ih
    cases abs
    · simpa using hc
    · simpa using RealPos.nil t

/-- a link-free position exists and is not a link; its directory part is a directory -/
theorem RealPos.raw_not_link {t : Tree} {r : Path} (h : RealPos t r) :
    ∃ nd, t.raw r = some nd ∧ nd.isLink = false := by
  cases hs : splitLast r with
  | none => rw [splitLast_eq_none hs]; exact ⟨.dir, rfl, rfl⟩
  | some db =>
    obtain ⟨d, b⟩ := db
    have := splitLast_eq_some hs
    subst this
    exact (h d b (List.prefix_refl _)).2.2.2

theorem RealPos.parent_dir {t : Tree} {d : Path} {b : Name} (h : RealPos t (d ++ [b])) :
    t.raw d = some .dir ∧ RealPos t d :=
  ⟨(h d b (List.prefix_refl _)).1, h.prefix ⟨[b], rfl⟩⟩

end EsbuildModel.RealPath
