import EsbuildModel.Lemmas.JsonSoundParse6
/-
Soundness of the parser (either flavour): the induction on the fuel, objects and the induction itself.
-/
namespace EsbuildModel.Json
open EsbuildModel.Spec.Json EsbuildModel.Spec.NumLit

section
variable {P : Params} {Rd : Rat → F64} (hP : ParamsOK P Rd) (o : Opts) {fl : Flavor} (hfl : o.flavor = fl)
include hP hfl

/-- one more member: key, colon, value, and on with the loop -/
theorem obj_member_sound (n : Nat) (ih : SoundAt fl Rd o P n) {L1 : Lx} {inp1 : List Cp}
    {props : List (List Nat × Bool × Ast)} {seen : List (List Nat)} {s : Bool} {a : Ast} {L' : Lx} (hat : AtTok fl Rd L1 inp1)
    (h : (keyStep o P L1 seen).bind (fun ks => (parseExpr o P n ks.2.2).bind fun p =>
        objLoop o P n p.2 (props ++ [(ks.1, decide (ks.1 = protoKey) && o.objExt, p.1)]) ks.2.1 s) = .ok (a, L'))
    (hne : L'.log.hasErrors = false) :
    ∃ (k : List SChar) (s2 s3 : List SepItem) (v : Val) (s4 : List SepItem) (t : MTail) (av : Ast)
        (asts : List (List Nat × Bool × Ast)) (rest : List Cp) (s' : Bool),
      chars inp1 = strTok k ++ (Sep.render s2 ++ (':' :: (Sep.render s3 ++ (v.render ++ (Sep.render s4 ++
        (t.render ++ '}' :: chars rest)))))) ∧ strOk (dialectOf fl) k = true ∧ Sep.ok (dialectOf fl) false false s2 = true ∧
      Sep.ok (dialectOf fl) false false s3 = true ∧ v.ok (dialectOf fl) = true ∧ Sep.ok (dialectOf fl) false false s4 = true ∧
      t.ok (dialectOf fl) = true ∧ a = .obj (props ++ (propOf o.objExt k av :: asts)) s' ∧ RepV Rd o.objExt v av ∧
      RepMT Rd o.objExt t asts ∧ After fl P rest L' := by
  obtain ⟨⟨key, seen', L4⟩, hk, h⟩ := R.bind_eq_ok h
  simp only at h
  obtain ⟨⟨av, L5⟩, hp, hl⟩ := R.bind_eq_ok h
  simp only at hl
  have hne5 : L5.log.hasErrors = false := noErr_of_le ((mono_step o P n).2.2 L5 _ _ _ _ hl) hne
  have hne4 : L4.log.hasErrors = false := noErr_of_le ((mono_step o P n).1 L4 _ hp) hne5
  obtain ⟨k, s2, s3, inpv, q1, q2, q3, q4, q5, q6⟩ := keyStep_sound hP o hfl hat hk hne4
  obtain ⟨v, restv, v1, v2, v3, v4⟩ := ih.1 L4 inpv av L5 q6 hp hne5
  obtain ⟨s4, inp2, k1, k2, k3⟩ := after_tok hP v4 hne5
  obtain ⟨t, asts, rest, s', t1, t2, t3, t4, t5⟩ := ih.2.2.1 L5 inp2 _ seen' s a L' (by simp) k3 hl hne
  refine ⟨k, s2, s3, v, s4, t, av, asts, rest, s', ?_, q2, q4, ?_, v2, ?_, t2, ?_, v3, t4, t5⟩
  · rw [q1, v1, k1, t1]
  · apply sepok_final q5
    have := val_render_ne v v2
    cases hvr : v.render with
    | nil => exact absurd hvr this
    | cons c x => rw [hvr] at v1; exact nonempty_of_chars v1
  · apply sepok_final k2
    cases htr : t.render with
    | nil => rw [htr] at t1; exact nonempty_of_chars t1
    | cons c x => rw [htr] at t1; exact nonempty_of_chars t1
  · rw [t3, q3]; simp [propOf]

theorem obj_tail_sound (n : Nat) (ih : SoundAt fl Rd o P n) {L : Lx} {inp : List Cp} {props : List (List Nat × Bool × Ast)}
    {seen : List (List Nat)} {single : Bool} {a : Ast} {L' : Lx} (hi : props ≠ []) (hat : AtTok fl Rd L inp)
    (h : objLoop o P (n + 1) L props seen single = .ok (a, L')) (hne : L'.log.hasErrors = false) :
    ObjTailSound fl Rd o P inp props a L' := by
  rw [objLoop_succ] at h
  split at h
  · rename_i hc
    obtain ⟨⟨s', L1⟩, hcs, h⟩ := R.bind_eq_ok h
    simp only [R.ok.injEq, Prod.mk.injEq] at h
    obtain ⟨rfl, rfl⟩ := h
    obtain ⟨_, hn⟩ := closeStep_ok hP o hfl hcs
    have hf := hat.1
    simp only [TokFacts, hc] at hf
    exact ⟨.done none, [], L.rest, s', by simpa [MTail.render, trailingRender] using hf, rfl, by simp, rfl,
      after_of_tok hat hn (by rw [hc]; simp) (by rw [hc]; simp)⟩
  · obtain ⟨r, hs, h⟩ := R.bind_eq_ok h
    have hie : (!props.isEmpty) = true := by cases props <;> simp_all
    rw [hie] at hs
    obtain ⟨htc, L1, s, hn, hr⟩ := sepStep_comma hP o hfl hs
    rcases hr with ⟨rfl, hnc⟩ | ⟨L1', rfl, hc1, hcase⟩
    · simp only at h
      have hf := hat.1
      simp only [TokFacts, htc] at hf
      have hne1 : L1.log.hasErrors = false := by
        obtain ⟨⟨key, seen', L4⟩, hk, h2⟩ := R.bind_eq_ok h
        obtain ⟨⟨av, L5⟩, hp, hl⟩ := R.bind_eq_ok h2
        exact noErr_of_le (Log.le_trans (keyStep_mono o P L1 seen _ hk)
          (Log.le_trans ((mono_step o P n).1 L4 _ hp) ((mono_step o P n).2.2 L5 _ _ _ _ hl))) hne
      obtain ⟨s1, inp1, k1, k2, k3⟩ := after_tok hP (after_of_tok hat hn (by rw [htc]; simp) (by rw [htc]; simp)) hne1
      obtain ⟨k, s2, s3, v, s4, t, av, asts, rest, s', e1, e2, e3, e4, e5, e6, e7, e8, e9, e10, e11⟩ :=
        obj_member_sound hP o hfl n ih k3 h hne
      refine ⟨.more s1 k s2 s3 v s4 t, propOf o.objExt k av :: asts, rest, s', ?_, ?_, e8, ⟨av, asts, rfl, e9, e10⟩, e11⟩
      · simp only [MTail.render, List.cons_append, List.append_assoc]
        rw [hf, k1, e1]
      · simp only [MTail.ok, e2, e3, e4, e5, e6, e7, Bool.and_true]
        apply sepok_final k2
        simp only [strTok, List.cons_append] at e1
        exact nonempty_of_chars e1
    · simp only at h
      obtain ⟨⟨s', L2⟩, hcs, h⟩ := R.bind_eq_ok h
      simp only [R.ok.injEq, Prod.mk.injEq] at h
      obtain ⟨rfl, rfl⟩ := h
      obtain ⟨_, hn2⟩ := closeStep_ok hP o hfl hcs
      rcases hcase with ⟨hj, herr⟩ | ⟨hts, rfl⟩
      · exfalso
        have := next_log_le fl P L1' L2 hn2 herr
        rw [this] at hne; cases hne
      · -- a trailing comma (tsconfig flavour)
        have hf := hat.1
        simp only [TokFacts, htc] at hf
        have hne1 : L1'.log.hasErrors = false := noErr_of_le (next_log_le fl P L1' L2 hn2) hne
        obtain ⟨s1, inp1, k1, k2, k3⟩ := after_tok hP (after_of_tok hat hn (by rw [htc]; simp) (by rw [htc]; simp)) hne1
        have hf1 := k3.1
        simp only [TokFacts, hc1] at hf1
        refine ⟨.done (some s1), [], L1'.rest, s', ?_, ?_, by simp, rfl,
          after_of_tok k3 hn2 (by rw [hc1]; simp) (by rw [hc1]; simp)⟩
        · simp only [MTail.render, trailingRender, List.cons_append, List.append_assoc]
          rw [hf, k1, hf1]
        · subst hts
          simp only [MTail.ok, trailingOk, Bool.and_eq_true]
          exact ⟨rfl, sepok_final k2 (nonempty_of_chars hf1)⟩

theorem obj_first_sound (n : Nat) (ih : SoundAt fl Rd o P n) {L : Lx} {inp : List Cp} {seen : List (List Nat)} {single : Bool}
    {a : Ast} {L' : Lx} (hat : AtTok fl Rd L inp) (h : objLoop o P (n + 1) L [] seen single = .ok (a, L'))
    (hne : L'.log.hasErrors = false) : ObjFirstSound fl Rd o P inp a L' := by
  rw [objLoop_succ] at h
  split at h
  · rename_i hc
    obtain ⟨⟨s', L1⟩, hcs, h⟩ := R.bind_eq_ok h
    simp only [R.ok.injEq, Prod.mk.injEq] at h
    obtain ⟨rfl, rfl⟩ := h
    obtain ⟨_, hn⟩ := closeStep_ok hP o hfl hcs
    have hf := hat.1
    simp only [TokFacts, hc] at hf
    exact Or.inl ⟨L.rest, s', hf, rfl, after_of_tok hat hn (by rw [hc]; simp) (by rw [hc]; simp)⟩
  · simp only [sepStep, List.isEmpty_nil, Bool.not_true, Bool.not_false, if_true, R.bind_ok] at h
    obtain ⟨k, s2, s3, v, s4, t, av, asts, rest, s', e1, e2, e3, e4, e5, e6, e7, e8, e9, e10, e11⟩ :=
      obj_member_sound hP o hfl n ih hat h hne
    exact Or.inr ⟨k, s2, s3, v, s4, t, av, asts, rest, s', e1, e2, e3, e4, e5, e6, e7, by simpa using e8, e9, e10, e11⟩

end
end EsbuildModel.Json
