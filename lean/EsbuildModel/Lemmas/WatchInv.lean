import EsbuildModel.Lemmas.Watch
/-! The invariant `Inv fs st`: everything the recording state holds is true of the file system `fs` it was
recorded on (H2: one file system during the whole build). Every recording primitive preserves it; with it the
answers the code gives from its caches are the answers of a fresh look at `fs`. -/
namespace EsbuildModel.Watch

structure CacheOK (fs : FS) (d : Path) (c : DirCache) : Prop where
  err : c.err = fs.dirErr d
  names : c.names = fs.names d
  statd : ∀ b r, aget c.statd b = some r → r = fs.kind (join d b)
  wp : ∀ k b, aget c.acc.wasPresent k = some b → b = (lookupLast (fs.names d) k).isSome
  all : ∀ l, c.acc.allEntries = some l → l = sortedKeysOf (fs.names d)

/-- what a recorded state claims about the path on `fs` -/
def Sound (fs : FS) (p : Path) (data : PWD) : Prop :=
  match data.state with
  | .dirEntries => fs.isDir p = true
  | .dirUnreadable => fs.isDir p = false
  | .hasModKey => ∀ k, data.modKey = some k → fs.modKey p = .ok k
  | .needModKey => fs.readFile p = .ok data.contents
  | .missing => fs.isFile p = false
  | .unusable => fs.modKey p = .unusable

structure Inv (fs : FS) (st : St) : Prop where
  cache : ∀ d c, aget st.cache d = some c → CacheOK fs d c
  watch : ∀ p data, aget st.watch p = some data → Sound fs p data
  dirc : ∀ p data, aget st.watch p = some data → data.state = .dirUnreadable → (aget st.cache p).isSome
  kinds : ∀ p r, aget st.kinds p = some r → r = fs.kind p
  statk : ∀ d c b r, aget st.cache d = some c → aget c.statd b = some r → (aget st.kinds (join d b)).isSome
  fcache : ∀ p e, aget st.fcache p = some e → e.usable = true → ∀ k, e.modKey = some k → fs.modKey p = .ok k →
    fs.readFile p = .ok e.contents

theorem inv_empty (fs : FS) : Inv fs {} :=
  ⟨by simp, by simp, by simp, by simp, by simp, by simp⟩

/-! ### facts about the abstract file system -/
theorem dirErr_none_iff (fs : FS) (p : Path) : fs.dirErr p = none ↔ fs.isDir p = true := by
  unfold FS.dirErr FS.isDir; cases fs.node p <;> simp

theorem readFile_ok_isFile {fs : FS} {p : Path} {c : String} (h : fs.readFile p = .ok c) : fs.isFile p = true := by
  unfold FS.readFile at h; unfold FS.isFile; cases hn : fs.node p <;> simp [hn] at h ⊢

theorem readFile_error_not_isFile {fs : FS} {p : Path} {e : Err} (h : fs.readFile p = .error e) : fs.isFile p = false := by
  unfold FS.readFile at h; unfold FS.isFile; cases hn : fs.node p <;> simp [hn] at h ⊢

theorem isFile_not_isDir {fs : FS} {p : Path} (h : fs.isFile p = true) : fs.isDir p = false := by
  unfold FS.isFile at h; unfold FS.isDir; cases hn : fs.node p <;> simp [hn] at h ⊢

theorem modKey_err_not_isFile {fs : FS} {p : Path} (h : fs.modKey p = .err) : fs.isFile p = false := by
  unfold FS.modKey at h; unfold FS.isFile; cases hn : fs.node p <;> simp [hn] at h ⊢
  all_goals (rename_i a b; cases b <;> simp at h)

/-! ### the three updates of `watchData[path]` keep `Sound` -/
theorem sound_tReadDir {fs : FS} {p : Path} {old : Option PWD} {data : PWD}
    (h : tReadDir (fs.dirErr p) old = some data) : Sound fs p data := by
  have key : ∀ (x : PWD), x = { acc := true, state := (if (fs.dirErr p).isSome then WState.dirUnreadable else WState.dirEntries) } →
      Sound fs p x := by
    intro x hx
    subst hx
    cases he : fs.dirErr p with
    | none => simp [Sound]; exact (dirErr_none_iff fs p).mp he
    | some e =>
      simp [Sound]
      cases hd : fs.isDir p with
      | false => rfl
      | true => rw [(dirErr_none_iff fs p).mpr hd] at he; cases he
  unfold tReadDir at h
  cases old with
  | none => simp only at h; exact key _ (Option.some.inj h).symm
  | some d =>
    simp only at h
    split at h
    · cases h
    · exact key _ (Option.some.inj h).symm

theorem sound_tReadFile {fs : FS} {p : Path} {old : Option PWD}
    (hold : ∀ d, old = some d → Sound fs p d) : Sound fs p (tReadFile (fs.readFile p) old) := by
  unfold tReadFile
  cases hr : fs.readFile p with
  | error e => simp [Sound]; exact readFile_error_not_isFile hr
  | ok c =>
    cases old with
    | none => simp [Sound]; exact hr
    | some d =>
      have hs := hold d rfl
      simp only [Option.isNone_some, Bool.false_or, beq_iff_eq]
      unfold Sound at hs ⊢
      cases hst : d.state <;> simp only [hst] at hs ⊢ <;> simp <;> first | exact hs | exact hr

theorem stored_some {r : KeyRes} {k : Nat} (h : r.stored = some k) : r = .ok k := by
  cases r <;> simp [KeyRes.stored] at h; exact congrArg _ h

/-- a fresh state taken from the result of `modKey` is sound -/
theorem sound_fromResult {fs : FS} {p : Path} (acc : Bool) (contents : String) :
    Sound fs p { acc := acc, contents := contents, modKey := (fs.modKey p).stored, state := (fs.modKey p).toState } := by
  cases hk : fs.modKey p with
  | ok k => simp only [Sound, KeyRes.toState]; intro k' hk'; rw [hk]; exact stored_some hk'
  | unusable => simp only [Sound, KeyRes.toState]; exact hk
  | err => simp only [Sound, KeyRes.toState]; exact modKey_err_not_isFile hk

theorem sound_tModKey {fs : FS} {p : Path} {old : Option PWD}
    (hold : ∀ d, old = some d → Sound fs p d) : Sound fs p (tModKey (fs.modKey p) old) := by
  unfold tModKey
  cases old with
  | none => exact sound_fromResult false ""
  | some d =>
    have hs := hold d rfl
    simp only [beq_iff_eq]
    split
    · exact sound_fromResult d.acc d.contents
    · split
      · simp only [Sound]
        intro k hk
        exact stored_some hk
      · rename_i hnd hne
        unfold Sound at hs ⊢
        cases hst : d.state <;> simp only [hst] at hs hne hnd ⊢
        · exact hs
        · exact absurd trivial hnd
        · intro k hk; exact stored_some hk
        · exact absurd trivial hne
        · exact hs
        · exact hs

/-! ### setters -/
theorem inv_setCache {fs : FS} {st : St} (h : Inv fs st) {d : Path} {c : DirCache} (hc : CacheOK fs d c)
    (hk : ∀ b r, aget c.statd b = some r → (aget st.kinds (join d b)).isSome) :
    Inv fs { st with cache := aset st.cache d c } := by
  refine ⟨?_, h.watch, ?_, h.kinds, ?_, h.fcache⟩
  rotate_left 2
  · intro d' c' b r hg hb
    simp only [aget_aset] at hg
    split at hg
    · rename_i hd; cases hg; subst hd; exact hk b r hb
    · exact h.statk d' c' b r hg hb
  · intro d' c' hg
    simp only [aget_aset] at hg
    split at hg
    · rename_i hd; cases hg; exact hd ▸ hc
    · exact h.cache d' c' hg
  · intro p data hg hs
    have := h.dirc p data hg hs
    simp only [aget_aset]
    split
    · rfl
    · exact this

theorem inv_setWatch {fs : FS} {st : St} (h : Inv fs st) {p : Path} {data : PWD} (hs : Sound fs p data)
    (hd : data.state = .dirUnreadable → (aget st.cache p).isSome) :
    Inv fs { st with watch := aset st.watch p data } := by
  refine ⟨h.cache, ?_, ?_, h.kinds, h.statk, h.fcache⟩
  · intro p' data' hg
    simp only [aget_aset] at hg
    split at hg
    · rename_i hp; cases hg; exact hp ▸ hs
    · exact h.watch p' data' hg
  · intro p' data' hg hst
    simp only [aget_aset] at hg
    split at hg
    · rename_i hp; cases hg; exact hp ▸ hd hst
    · exact h.dirc p' data' hg hst

theorem inv_setKinds {fs : FS} {st : St} (h : Inv fs st) (p : Path) :
    Inv fs { st with kinds := aset st.kinds p (fs.kind p) } := by
  refine ⟨h.cache, h.watch, h.dirc, ?_, ?_, h.fcache⟩
  · intro p' r hg
    simp only [aget_aset] at hg
    split at hg
    · rename_i hp; cases hg; rw [hp]
    · exact h.kinds p' r hg
  · intro d c b r hg hb
    have := h.statk d c b r hg hb
    simp only [aget_aset]
    split
    · rfl
    · exact this

theorem inv_setFcache {fs : FS} {st : St} (h : Inv fs st) {p : Path} {e : FCEntry}
    (he : e.usable = true → ∀ k, e.modKey = some k → fs.modKey p = .ok k → fs.readFile p = .ok e.contents) :
    Inv fs { st with fcache := aset st.fcache p e } := by
  refine ⟨h.cache, h.watch, h.dirc, h.kinds, h.statk, ?_⟩
  intro p' e' hg
  simp only [aget_aset] at hg
  split at hg
  · rename_i hp; cases hg; exact hp ▸ he
  · exact h.fcache p' e' hg

/-! ### the recording primitives keep the invariant -/
theorem doReadDir_spec {fs : FS} {st : St} (h : Inv fs st) (d : Path) :
    Inv fs (doReadDir fs st d).1 ∧ aget (doReadDir fs st d).1.cache d = some (doReadDir fs st d).2 := by
  unfold doReadDir
  cases hc : aget st.cache d with
  | some c => exact ⟨h, hc⟩
  | none =>
    simp only
    have hok : CacheOK fs d { err := fs.dirErr d, names := fs.names d } :=
      ⟨rfl, rfl, by simp, by simp, by simp⟩
    have h1 := inv_setCache h hok (by simp)
    refine ⟨?_, by simp⟩
    cases ht : tReadDir (fs.dirErr d) (aget st.watch d) with
    | none => exact h1
    | some data =>
      exact inv_setWatch h1 (sound_tReadDir ht) (fun _ => by simp)

theorem doGet_spec {fs : FS} {st : St} (h : Inv fs st) {d : Path} {c : DirCache} (hc : aget st.cache d = some c) (q : String) :
    Inv fs (doGet st d c q).1 ∧ aget (doGet st d c q).1.cache d = some (doGet st d c q).2.1 ∧
      (doGet st d c q).2.2 = (if c.err.isSome then none else lookupLast c.names (lower q)) := by
  unfold doGet
  split
  · exact ⟨h, hc, rfl⟩
  · refine ⟨?_, by simp, rfl⟩
    have ok := h.cache d c hc
    refine inv_setCache h ?_ (fun b r hb => h.statk d c b r hc hb)
    refine ⟨ok.err, ok.names, ok.statd, ?_, ok.all⟩
    intro k b hg
    simp only [aget_aset] at hg
    split at hg
    · rename_i hk; cases hg; rw [← hk, ok.names]
    · exact ok.wp k b hg

theorem doSortedKeys_spec {fs : FS} {st : St} (h : Inv fs st) {d : Path} {c : DirCache} (hc : aget st.cache d = some c) :
    Inv fs (doSortedKeys st d c).1 := by
  unfold doSortedKeys
  split
  · exact h
  · have ok := h.cache d c hc
    refine inv_setCache h ?_ (fun b r hb => h.statk d c b r hc hb)
    refine ⟨ok.err, ok.names, ok.statd, ok.wp, ?_⟩
    intro l hl
    simp only [Option.some.injEq] at hl
    rw [← hl, ok.names]

theorem doStat_spec {fs : FS} {st : St} (h : Inv fs st) {d : Path} {c : DirCache} (hc : aget st.cache d = some c) (b : String) :
    Inv fs (doStat fs st d c b).1 ∧ (doStat fs st d c b).2 = fs.kind (join d b) := by
  unfold doStat
  have ok := h.cache d c hc
  cases hs : aget c.statd b with
  | some r => exact ⟨h, ok.statd b r hs⟩
  | none =>
    refine ⟨?_, rfl⟩
    have h1 := inv_setKinds h (join d b)
    have h2 : Inv fs { ({ st with kinds := aset st.kinds (join d b) (fs.kind (join d b)) } : St) with
        cache := aset st.cache d { c with statd := aset c.statd b (fs.kind (join d b)) } } := by
      apply inv_setCache h1
      · refine ⟨ok.err, ok.names, ?_, ok.wp, ok.all⟩
        intro b' r hg
        simp only [aget_aset] at hg
        split at hg
        · rename_i hb; cases hg; rw [hb]
        · exact ok.statd b' r hg
      · intro b' r hg
        simp only [aget_aset] at hg ⊢
        split at hg
        · rename_i hb; simp [hb]
        · exact h1.statk d c b' r hc hg
    exact h2

theorem doReadFile_spec {fs : FS} {st : St} (h : Inv fs st) (p : Path) : Inv fs (doReadFile fs st p).1 := by
  unfold doReadFile
  apply inv_setWatch h (sound_tReadFile (fun d hd => h.watch p d hd))
  intro hst
  unfold tReadFile at hst
  cases hr : fs.readFile p with
  | error e => simp [hr] at hst
  | ok c =>
    cases ho : aget st.watch p with
    | none => simp [hr, ho] at hst
    | some d =>
      simp only [hr, ho, Option.isNone_some, Bool.false_or, beq_iff_eq] at hst
      split at hst
      · cases hst
      · rename_i hne
        exact absurd hst hne

theorem tModKey_not_dirUnreadable (r : KeyRes) (old : Option PWD) : (tModKey r old).state ≠ .dirUnreadable := by
  unfold tModKey
  cases old with
  | none => cases r <;> simp [KeyRes.toState]
  | some d =>
    simp only [beq_iff_eq]
    split
    · cases r <;> simp [KeyRes.toState]
    · split
      · simp
      · rename_i hnd _; exact hnd

theorem doModKey_spec {fs : FS} {st : St} (h : Inv fs st) (p : Path) : Inv fs (doModKey fs st p).1 := by
  unfold doModKey
  apply inv_setWatch h (sound_tModKey (fun d hd => h.watch p d hd))
  intro hst
  exact absurd hst (tModKey_not_dirUnreadable _ _)

theorem doReadFile_ans (fs : FS) (st : St) (p : Path) : (doReadFile fs st p).2 = fs.readFile p := rfl
theorem doModKey_ans (fs : FS) (st : St) (p : Path) : (doModKey fs st p).2 = fs.modKey p := rfl
theorem doModKey_fcache (fs : FS) (st : St) (p : Path) : (doModKey fs st p).1.fcache = st.fcache := rfl

theorem fcStore_spec {fs : FS} {st : St} (h : Inv fs st) (p : Path) (k : KeyRes) :
    Inv fs (fcStore st p k (fs.readFile p)).1 ∧ (fcStore st p k (fs.readFile p)).2 = fs.readFile p := by
  unfold fcStore
  cases hr : fs.readFile p with
  | error e => exact ⟨h, rfl⟩
  | ok c =>
    refine ⟨?_, rfl⟩
    apply inv_setFcache h
    intro _ _ _ _
    exact hr

/-- `FSCache.ReadFile` is transparent: it keeps the invariant and answers what `ReadFile` would -/
theorem doCachedRead_spec {fs : FS} {st : St} (h : Inv fs st) (p : Path) :
    Inv fs (doCachedRead fs st p).1 ∧ (doCachedRead fs st p).2 = fs.readFile p := by
  have h1 := doModKey_spec h p
  have h2 := doReadFile_spec h1 p
  unfold doCachedRead
  simp only [doModKey_ans, doReadFile_ans]
  cases hh : fcHit (aget st.fcache p) (fs.modKey p) with
  | none => exact fcStore_spec h2 p _
  | some c =>
    refine ⟨h1, ?_⟩
    unfold fcHit at hh
    split at hh
    · rename_i e key he hk
      split at hh
      · rename_i hcond
        simp only [Bool.and_eq_true, beq_iff_eq] at hcond
        cases hh
        exact (h.fcache p e he hcond.1 key hcond.2 hk).symm
      · cases hh
    · cases hh

end EsbuildModel.Watch
