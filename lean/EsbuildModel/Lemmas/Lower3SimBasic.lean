import EsbuildModel.Lemmas.Lower3Spread
import EsbuildModel.Lemmas.Lower3RestMain
/-!
Pieces for the final induction: congruence of native patterns, the comma chain of assignments, the initialiser is
evaluated once and first by what `visit` emits, and syntactic facts about `lowerSpread`.
-/
namespace EsbuildModel.Lower3

theorem RelH.toR {α : Type} {a b c : R α × TState} (h1 : RelH a b) (h2 : RelR b c) : RelR a c := by
  cases h1 with
  | inr h => subst h; exact h2
  | inl h =>
    cases h2 with
    | inl h2 => exact Or.inl h2
    | inr h2 => exact Or.inl (h2.1 ▸ h)

theorem keyOf_sim (w : World) (b : Bool) (k : KK) (ev ev₀ : TState → Res × TState) (s s' : TState) (hh : s.h = s'.h)
    (h : RelR (ev s) (ev₀ s')) : RelR (keyOf w b k ev s) (keyOf w b k ev₀ s') := by
  cases k with
  | str t => exact Or.inr ⟨rfl, hh⟩
  | num n => exact Or.inr ⟨rfl, hh⟩
  | comp =>
    simp only [keyOf]
    refine RelR.bind h (fun raw s1 s1' hh1 => ?_)
    split
    · exact Or.inl trivial
    · exact RelR.bind (RelR.liftH _ s1 s1' hh1) (fun key s2 s2' hh2 => Or.inr ⟨rfl, hh2⟩)

theorem restStep_rel (w : World) (g : Bool) (r : Nat) (v : Val) (ex : List Ex) (s s' : TState) (hh : s.h = s'.h) :
    RelR (restStep w g r v ex s) (restStep w g r v ex s') := by
  simp only [restStep, hh]
  split
  · exact Or.inr ⟨rfl, hh⟩
  · refine RelR.bind (RelR.liftH _ s s' hh) (fun ro s1 s1' hh1 => Or.inr ⟨rfl, ?_⟩)
    simp [setVar, hh1]

/-- a native pattern (no lowering took place at this level) with lowered children behaves like the source pattern -/
theorem props_native (w : World) (B : Nat) {ps' ps₀ : PPL} (hp : PropsOK w B ps' ps₀) :
    ∀ (hr : Bool) (v : Val) (ex : List Ex) (s s' : TState), s.h = s'.h →
      RelR (bindPPL w true ps' hr v ex s) (bindPPL w true ps₀ hr v ex s') := by
  induction hp with
  | nil => intro hr v ex s s' hh; exact Or.inr ⟨rfl, hh⟩
  | @cons k ke' ke₀ t' t₀ hd d' d₀ tl' tl₀ hke _ hasid _ hsd _ hpat _ ih =>
    intro hr v ex s s' hh
    simp only [bindPPL, hasid]
    refine RelR.bind (keyOf_sim w _ k _ _ s s' hh (hke s s' hh)) (fun kv s1 s1' hh1 => ?_)
    refine RelR.bind (RelR.liftH _ s1 s1' hh1) (fun pv s2 s2' hh2 => ?_)
    have hdef : RelR (if (hd && pv == .undef) = true then evalE w true d' s2 else (.ok pv, s2))
        (if (hd && pv == .undef) = true then evalE w true d₀ s2' else (.ok pv, s2')) := by
      split
      · exact hsd s2 s2' hh2
      · exact Or.inr ⟨rfl, hh2⟩
    refine RelR.bind hdef (fun pv' s3 s3' hh3 => ?_)
    exact RelR.bind (hpat.native pv' s3 s3' hh3) (fun _ s4 s4' hh4 => ih hr v _ s4 s4' hh4)

theorem pat_native_obj (w : World) (B : Nat) {ps' ps₀ : PPL} (rest : Option Nat) (hp : PropsOK w B ps' ps₀)
    (v : Val) (s s' : TState) (hh : s.h = s'.h) :
    RelR (bindPat w true (.obj ps' rest) v s) (bindPat w true (.obj ps₀ rest) v s') := by
  simp only [bindPat, hp.isNil]
  split
  · split <;> exact Or.inr ⟨rfl, hh⟩
  · refine RelR.bind (props_native w B hp _ v [] s s' hh) (fun ex s1 s1' hh1 => ?_)
    cases rest with
    | none => exact Or.inr ⟨rfl, hh1⟩
    | some r => exact restStep_rel w true r v ex s1 s1' hh1

-- ---------------------------------------------------------------- the comma chain

theorem seqAll_fold (w : World) (g : Bool) {γ : Type} (F : TState → R γ × TState) :
    ∀ (r : List (Pat × E)) (acc : E) (s : TState),
      (bindR (evalE w g (r.foldl (fun a pe => E.seq a (.asg pe.1 pe.2)) acc) s) fun _ s1 => F s1) =
      bindR (evalE w g acc s) fun _ s1 => bindR (runAL w g r s1) fun _ s2 => F s2 := by
  intro r
  induction r with
  | nil => intro acc s; simp only [List.foldl_nil, runAL, bindR_ok]
  | cons pe r ih =>
    intro acc s
    obtain ⟨p, e⟩ := pe
    simp only [List.foldl_cons, ih, evalE, runAL, bindR_assoc, bindR_ok]

/-- `a1, a2, …` (JoinWithComma) runs the assignments in order; its own value is not used -/
theorem seqAll_run (w : World) (g : Bool) {γ : Type} (F : TState → R γ × TState) (al : List (Pat × E)) (hne : al ≠ [])
    (s : TState) :
    (bindR (evalE w g (seqAll al) s) fun _ s1 => F s1) = bindR (runAL w g al s) fun _ s1 => F s1 := by
  cases al with
  | nil => exact absurd rfl hne
  | cons pe r =>
    obtain ⟨p, e⟩ := pe
    simp only [seqAll, seqAll_fold, evalE, runAL, bindR_assoc, bindR_ok]

-- ---------------------------------------------------------------- the initialiser is evaluated first, and once

theorem restPattern_uniform (w : World) (g : Bool) (before : PPL) (r : Nat) (cap : List CK) (n : Nat) :
    ∃ K : Val → TState → Res × TState, ∀ (init : E) (s : TState),
      runAL w g (restPattern before r init cap n).1 s = bindR (evalE w g init s) K := by
  unfold restPattern
  split
  · exact ⟨_, fun init s => by simp only [runAL, evalE, bindR_assoc]; rfl⟩
  · exact ⟨_, fun init s => by simp only [runAL]; rfl⟩

theorem visitPPL_uniform (w : World) (g : Bool) : ∀ (todo done : PPL) (rest : Option Nat) (cap : List CK) (n : Nat),
    ∃ K : Val → TState → Res × TState, ∀ (init : E) (s : TState),
      runAL w g (visitPPL done todo rest init cap n).1 s = bindR (evalE w g init s) K := by
  intro todo
  induction todo using PPL.ind with
  | nil =>
    intro done rest cap n
    cases rest with
    | none => exact ⟨_, fun init s => by simp only [visitPPL, runAL]; rfl⟩
    | some r => simpa only [visitPPL] using restPattern_uniform w g done r cap n
  | prop k ke t hd d tl ih =>
    intro done rest cap n
    by_cases ht : t.hasRest = true
    · by_cases hm : (!tl.isNil || rest.isSome) = true
      · exact ⟨_, fun init s => by
          rw [visitPPL_split_more done k ke t hd d tl rest init cap n ht hm]
          simp only [List.cons_append, List.nil_append, runAL_cons]
          rfl⟩
      · have hm' : (!tl.isNil || rest.isSome) = false := by simpa using hm
        exact ⟨_, fun init s => by
          rw [visitPPL_split_last done k ke t hd d tl rest init cap n ht hm']
          simp only [List.cons_append, List.nil_append, runAL_cons]
          rfl⟩
    · have ht' : t.hasRest = false := by simpa using ht
      obtain ⟨K, hK⟩ := ih (done.append (.prop k (keyCap rest.isSome k ke n).1 t hd d .nil)) rest
        (if rest.isSome = true then cap ++ [(keyCap rest.isSome k ke n).2.1] else cap) (keyCap rest.isSome k ke n).2.2
      exact ⟨K, fun init s => by rw [visitPPL_pass done k ke t hd d tl rest init cap n ht']; exact hK init s⟩

theorem visitPat_uniform (w : World) (g : Bool) (p : Pat) (cap : List CK) (n : Nat) :
    ∃ K : Val → TState → Res × TState, ∀ (init : E) (s : TState),
      runAL w g (visitPat p init cap n).1 s = bindR (evalE w g init s) K := by
  cases p with
  | var x => exact ⟨_, fun init s => by simp only [visitPat, runAL]; rfl⟩
  | tmp k => exact ⟨_, fun init s => by simp only [visitPat, runAL]; rfl⟩
  | obj ps rest => simpa only [visitPat] using visitPPL_uniform w g ps .nil rest cap n

/-- `visit` with the initialiser `_a = e`: `e` is evaluated and stored, then everything goes as with the
initialiser `_a` -/
theorem visitPat_capture (w : World) (g : Bool) (p : Pat) (cap : List CK) (n j : Nat) (e : E) (s : TState) :
    runAL w g (visitPat p (.asg (.tmp j) e) cap n).1 s =
      bindR (evalE w g e s) fun v s1 => runAL w g (visitPat p (.tmp j) cap n).1 (setTmp j v s1) := by
  obtain ⟨K, hK⟩ := visitPat_uniform w g p cap n
  rw [hK]
  simp only [evalE, bindPat, bindR_assoc, bindR_ok]
  congr 1
  funext v s1
  rw [hK]
  simp [evalE, setTmp, upd]

theorem visit_nonempty : ∀ (p : Pat) (init : E) (cap : List CK) (n : Nat), (visitPat p init cap n).1 ≠ [] := by
  intro p init cap n
  have : ∀ (todo done : PPL) (rest : Option Nat) (init : E) (cap : List CK) (n : Nat), (visitPPL done todo rest init cap n).1 ≠ [] := by
    intro todo
    induction todo using PPL.ind with
    | nil =>
      intro done rest init cap n
      cases rest with
      | none => simp [visitPPL]
      | some r => simp only [visitPPL, restPattern]; split <;> simp
    | prop k ke t hd d tl ih =>
      intro done rest init cap n
      by_cases ht : t.hasRest = true
      · by_cases hm : (!tl.isNil || rest.isSome) = true
        · rw [visitPPL_split_more done k ke t hd d tl rest init cap n ht hm]; simp
        · rw [visitPPL_split_last done k ke t hd d tl rest init cap n ht (by simpa using hm)]; simp
      · rw [visitPPL_pass done k ke t hd d tl rest init cap n (by simpa using ht)]
        exact ih _ _ _ _ _
  cases p with
  | var x => simp [visitPat]
  | tmp k => simp [visitPat]
  | obj ps rest => simpa only [visitPat] using this ps .nil rest init cap n

end EsbuildModel.Lower3
