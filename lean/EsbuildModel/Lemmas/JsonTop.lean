import EsbuildModel.Lemmas.JsonParseC9
import EsbuildModel.Lemmas.JsonTotal5
import EsbuildModel.Spec.JsonText
/-
`ParseJSON` on the UTF-8 of a text: the decoder yields the code points of the text; every text of the flavour's
dialect is accepted (completeness at the top level); the parser never crashes.
-/
namespace EsbuildModel.Json
open EsbuildModel.Spec.Json EsbuildModel.Spec.Unicode

theorem char_scalar (c : Char) : IsScalar c.toNat := by
  have := c.valid
  simp only [Char.toNat, UInt32.isValidChar, Nat.isValidChar, IsScalar] at *
  omega

/-- Go's sequential UTF-8 decoding of the UTF-8 of a text gives back its code points, with their widths -/
theorem decodeRunes_utf8 (t : List Char) : decodeRunes (utf8Text t) = cps t := by
  induction t with
  | nil => simp [utf8Text, decodeRunes]
  | cons c t ih =>
    obtain ⟨a, r, hat, hdec, hdrop⟩ := Wtf8.goDecode_enc c.toNat (char_scalar c) (utf8Text t)
    have he : utf8Text (c :: t) = Wtf8.encA c.toNat ++ utf8Text t := by
      simp [utf8Text, Wtf8.encA_eq_utf8]
    rw [he, hat, decodeRunes]
    simp only [hdec, hdrop, ih, cps_cons, cpOf]
    congr 1
    simp [Char.ofNat_toNat, Wtf8.encA_eq_utf8]

theorem decodeRunes_length_le : ∀ (n : Nat) (b : List Nat), b.length ≤ n → (decodeRunes b).length ≤ b.length := by
  intro n
  induction n with
  | zero =>
    intro b hb
    cases b with
    | nil => simp [decodeRunes]
    | cons _ _ => simp at hb
  | succ n ih =>
    intro b hb
    cases b with
    | nil => simp [decodeRunes]
    | cons s0 rest =>
      rw [decodeRunes]
      simp only [List.length_cons] at hb ⊢
      have := ih (rest.drop ((Wtf8.goDecodeRune s0 rest).2 - 1)) (by simp only [List.length_drop]; omega)
      simp only [List.length_drop] at this
      omega

section
variable {P : Params} {Rd : Rat → F64} (hP : ParamsOK P Rd) (o : Opts)
include hP

/-- the lexer state `NewLexerJSON` starts `Next` from -/
def initLx (bytes : List Nat) : Lx := ⟨decodeRunes bytes, 0, 0, .eof, false, .fin false 0 0, ⟨[], none⟩, none, 0, []⟩

omit hP in
theorem newLexer_eq (fl : Flavor) (bytes : List Nat) : newLexer fl P bytes = next fl P (initLx bytes) := rfl

/-- **`ParseJSON` never crashes**: no Go run-time panic, and the fuel `2·len + 3` is never used up -/
theorem parseJSON_ne_crash (bytes : List Nat) : parseJSON o P bytes ≠ .crash := by
  unfold parseJSON
  rw [newLexer_eq]
  obtain ⟨h1, h2⟩ := next_total hP o.flavor (initLx bytes)
  cases hn : next o.flavor P (initLx bytes) with
  | crash => exact absurd hn h1
  | panic l => simp
  | ok L =>
    have hmu : mu L ≤ bytes.length := by
      have := h2 L hn
      have hl := decodeRunes_length_le bytes.length bytes (Nat.le_refl _)
      simp only [initLx] at this
      omega
    obtain ⟨t1, t2⟩ := (total_step hP o (fuelFor bytes)).1 L (by simp only [fuelFor]; omega)
    simp only
    cases hp : parseExpr o P (fuelFor bytes) L with
    | crash => exact absurd hp t1
    | panic l => simp
    | ok p =>
      obtain ⟨a, L1⟩ := p
      simp only
      obtain ⟨e1, _⟩ := expect_safe hP o L1 .num (by simp)
      cases he : expect o.flavor P L1 .eof with
      | crash =>
        unfold expect at he
        split at he
        · cases he
        · exact absurd he (next_total hP o.flavor L1).1
      | panic l => simp
      | ok L2 => simp

omit hP in
theorem clean_no_errors {l : Log} (h : l.Clean) : l.msgs.reverse.any (·.err) = false := by
  have := h.1
  simp only [Log.hasErrors] at this
  simpa using this

/-- **completeness**: every derivation of the flavour's dialect is accepted, with the expression that represents it -/
theorem doc_complete (t : Doc) (hok : t.ok (dialectOf o.flavor) = true) :
    ∃ ast, (parseJSON o P (utf8Text t.render)).accepted = some ast ∧ RepV Rd o.objExt t.v ast := by
  simp only [Doc.ok, Bool.and_eq_true] at hok
  obtain ⟨⟨hs1, hv⟩, hs2⟩ := hok
  obtain ⟨n0, ih⟩ := val_complete hP o t.v hv
  have hdec : decodeRunes (utf8Text t.render) = cps (Sep.render t.s1) ++ (cps t.v.render ++ cps (Sep.render t.s2)) := by
    rw [decodeRunes_utf8]; simp [Doc.render]
  -- the first token
  obtain ⟨log1, c1, n1⟩ := next_at o.flavor P (initLx (utf8Text t.render)) t.s1 (cps t.v.render ++ cps (Sep.render t.s2)) false
    (by simp only [initLx]; exact hdec) (by simpa [initLx] using hs1) ⟨rfl, rfl⟩ (by simp)
    (val_head_stop o.flavor t.v hv _)
  have hfol : Follow (cps (Sep.render t.s2)) := by
    have := follow_sep o.flavor hs2 follow_nil
    simpa using this
  obtain ⟨L, ast, L1, h1, h2, h3, h4, h5, h6, h7, h8, h9⟩ :=
    ih (max n0 (fuelFor (utf8Text t.render))) (Nat.le_max_left _ _) (initLx (utf8Text t.render))
      ⟨(initLx (utf8Text t.render)).end_ + widths (cps (Sep.render t.s1)),
        ((initLx (utf8Text t.render)).end_ == 0) || sepNl t.s1, log1⟩ _ hfol c1
  -- the end of the file
  have he : (L1.end_ == 0) = false := by simp; omega
  obtain ⟨log2, c2, n2⟩ := next_at o.flavor P L1 t.s2 [] true (by rw [h6]; simp) (by rw [he]; exact hs2) h7
    (fun _ => rfl) (by intro c r h; cases h)
  rw [lexAt_eof] at n2
  obtain ⟨Le, e1, e2, e3, e4⟩ : ∃ Le : Lx, next o.flavor P L1 = .ok Le ∧ Le.rest = [] ∧ Le.log.Clean ∧ Le.tok = .eof :=
    ⟨_, n2, rfl, c2, rfl⟩
  -- fuel
  have hpN : parseExpr o P (max n0 (fuelFor (utf8Text t.render))) L = .ok (ast, Le) := by
    rw [h5, e1]; rfl
  have hcr := parseJSON_ne_crash hP o (utf8Text t.render)
  unfold parseJSON at hcr ⊢
  rw [newLexer_eq] at hcr ⊢
  rw [n1, h1] at hcr ⊢
  simp only at hcr ⊢
  have hpf : parseExpr o P (fuelFor (utf8Text t.render)) L = .ok (ast, Le) := by
    have hne : parseExpr o P (fuelFor (utf8Text t.render)) L ≠ .crash := by
      intro hc; rw [hc] at hcr; exact hcr rfl
    rw [← parseExpr_fuel o P L _ _ hne (Nat.le_max_right n0 _)]
    exact hpN
  rw [hpf]
  simp only
  -- `Expect(TEndOfFile)`
  obtain ⟨log3, c3, n3⟩ := next_at o.flavor P Le [] [] true (by rw [e2]; rfl) (by simp [Sep.ok]) e3 (fun _ => rfl)
    (by intro c r h; cases h)
  rw [lexAt_eof] at n3
  simp only [expect, e4, ne_eq, not_true_eq_false, if_false, n3]
  refine ⟨ast, ?_, h9⟩
  simp only [Out.accepted, Lx.at, clean_no_errors c3, Bool.false_eq_true, if_false]

end
end EsbuildModel.Json
