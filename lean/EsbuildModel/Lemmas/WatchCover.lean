import EsbuildModel.Lemmas.WatchStep
/-! Coverage: which facts about the recording state make the final `WatchData()` protect the answer of an
operation, how later operations keep those facts, and which pairs of operations destroy them (`conflict`). -/
set_option linter.unusedSimpArgs false
namespace EsbuildModel.Watch

/-- the recorded state of a path that was read as a DIRECTORY protects the answer of `ReadDirectory` -/
def okD (fs : FS) (p : Path) (data : PWD) : Prop :=
  if fs.isDir p = true then data.state = .dirEntries ∧ data.acc = true
  else data.state = .dirUnreadable ∨ data.state = .hasModKey ∨ data.state = .needModKey ∨ data.state = .unusable

/-- the recorded state of a path that was read as a FILE protects the answer of `ReadFile` -/
def okF (fs : FS) (p : Path) (data : PWD) : Prop :=
  match fs.node p with
  | .file c _ => data.state = .needModKey ∨ data.state = .hasModKey ∨ (data.state = .unusable ∧ data.contents = c)
  | .dir _ _ => data.state = .missing ∨ data.state = .dirEntries
  | .missing => data.state = .missing

def HasCache (st : St) (d : Path) : Prop := (aget st.cache d).isSome
def HasWP (st : St) (d : Path) (k : String) : Prop := ∃ c, aget st.cache d = some c ∧ (aget c.acc.wasPresent k).isSome
def HasAll (st : St) (d : Path) : Prop := ∃ c, aget st.cache d = some c ∧ c.acc.allEntries.isSome
def HasKind (st : St) (p : Path) : Prop := (aget st.kinds p).isSome
def WatchD (fs : FS) (st : St) (d : Path) : Prop := ∃ data, aget st.watch d = some data ∧ okD fs d data
def WatchF (fs : FS) (st : St) (p : Path) : Prop := ∃ data, aget st.watch p = some data ∧ okF fs p data

/-- the final record still protects the answer of this (earlier) operation -/
def Covers (fs : FS) (st : St) : Op → Prop
  | .readDir d => HasCache st d ∧ WatchD fs st d
  | .get d q => HasCache st d ∧ WatchD fs st d ∧ (fs.isDir d = true → HasWP st d (lower q))
  | .sortedKeys d => HasCache st d ∧ WatchD fs st d ∧ (fs.isDir d = true → HasAll st d)
  | .kind d q => HasCache st d ∧ WatchD fs st d ∧ (fs.isDir d = true → HasWP st d (lower q)) ∧
      (∀ b, lookupLast (fs.names d) (lower q) = some b → HasKind st (join d b))
  | .readFile p => WatchF fs st p
  | .modKey _ => True
  | .cachedRead p => WatchF fs st p

/-! ### pure facts about the three updates -/
theorem okD_tReadDir {fs : FS} {p : Path} {old : Option PWD} :
    match tReadDir (fs.dirErr p) old with
    | some data => okD fs p data
    | none => ∃ d, old = some d ∧ okD fs p d := by
  cases old with
  | none => cases he : (fs.dirErr p) <;> simp [tReadDir, okD, isDir_iff_dirErr, he]
  | some d =>
    cases he : (fs.dirErr p) <;> cases hst : d.state <;> simp [tReadDir, okD, isDir_iff_dirErr, he, hst]

theorem okD_tReadFile {fs : FS} {p : Path} {data : PWD} (h : okD fs p data) (hf : fs.isFile p = true) :
    okD fs p (tReadFile (fs.readFile p) (some data)) := by
  have hnd := isFile_not_isDir hf
  unfold okD at h ⊢
  simp only [hnd, Bool.false_eq_true, if_false] at h ⊢
  unfold FS.isFile at hf
  unfold tReadFile FS.readFile
  cases hn : fs.node p with
  | missing => simp [hn] at hf
  | dir a b => simp [hn] at hf
  | file c k =>
    simp only [Option.isNone_some, Bool.false_or, beq_iff_eq]
    rcases h with h | h | h | h <;> simp [h]

theorem modKey_ne_err_of_not_missing {fs : FS} {p : Path} (h : fs.isMissing p = false) : fs.modKey p ≠ .err := by
  unfold FS.isMissing at h; unfold FS.modKey
  cases hn : fs.node p with
  | missing => simp [hn] at h
  | file c k => cases k <;> simp
  | dir a k => cases k <;> simp

/-- `ModKey` keeps the protection of a directory read, unless the path does not exist (then `stateDirUnreadable`
becomes `stateFileMissing`) -/
theorem okD_tModKey {fs : FS} {p : Path} {data : PWD} (h : okD fs p data) (hm : fs.isMissing p = false) :
    okD fs p (tModKey (fs.modKey p) (some data)) := by
  have hne := modKey_ne_err_of_not_missing hm
  unfold okD at h ⊢
  cases hd : fs.isDir p <;> simp only [hd, if_true, if_false, Bool.false_eq_true] at h ⊢
  · rcases h with h | h | h | h
    · cases hk : fs.modKey p <;> simp [tModKey, h, KeyRes.toState]
      exact hne hk
    · simp [tModKey, h]
    · simp [tModKey, h]
    · simp [tModKey, h]
  · simp [tModKey, h.1, h.2]

theorem okF_tReadFile {fs : FS} {p : Path} {data : PWD} (h : okF fs p data) :
    okF fs p (tReadFile (fs.readFile p) (some data)) := by
  unfold okF at h ⊢
  unfold tReadFile FS.readFile
  cases hn : fs.node p with
  | missing => simp
  | dir a b => simp
  | file c k =>
    simp only [hn] at h
    simp only [Option.isNone_some, Bool.false_or, beq_iff_eq]
    rcases h with h | h | h
    · simp [h]
    · simp [h]
    · simp [h.1]

theorem okF_tModKey {fs : FS} {p : Path} {data : PWD} (h : okF fs p data) (r : KeyRes) :
    okF fs p (tModKey r (some data)) := by
  unfold okF at h ⊢
  unfold tModKey
  simp only [beq_iff_eq]
  cases hn : fs.node p with
  | missing => simp only [hn] at h; simp [h]
  | dir a b => simp only [hn] at h; rcases h with h | h <;> simp [h]
  | file c k =>
    simp only [hn] at h
    rcases h with h | h | h
    · simp [h]
    · simp [h]
    · simp [h.1, h.2]

theorem okF_tReadDir {fs : FS} {p : Path} {data : PWD} (h : okF fs p data) (hm : fs.node p ≠ .missing) :
    match tReadDir (fs.dirErr p) (some data) with
    | some d' => okF fs p d'
    | none => True := by
  unfold okF at h ⊢
  unfold tReadDir FS.dirErr
  cases hn : fs.node p with
  | missing => exact absurd hn hm
  | dir a b => simp
  | file c k =>
    simp only [hn] at h
    rcases h with h | h | h
    · simp [h]
    · simp [h]
    · simp [h.1]

/-- a fresh `ReadFile` always leaves a state that protects its own answer -/
theorem okF_tReadFile_new {fs : FS} {p : Path} {old : Option PWD} (hold : ∀ d, old = some d → Sound fs p d) :
    okF fs p (tReadFile (fs.readFile p) old) := by
  cases old with
  | none =>
    unfold okF tReadFile FS.readFile
    cases hn : fs.node p <;> simp
  | some d =>
    have hs := hold d rfl
    unfold okF tReadFile
    unfold Sound at hs
    unfold FS.readFile
    cases hn : fs.node p with
    | missing => simp
    | dir a b => simp
    | file c k =>
      simp only [Option.isNone_some, Bool.false_or, beq_iff_eq]
      cases hst : d.state <;> simp only [hst] at hs <;> simp [hst]
      · simp [FS.isDir, hn] at hs
      · simp [FS.isFile, hn] at hs

/-- a cache hit records only `ModKey`: that is enough to protect the content of a file with a usable key -/
theorem okF_tModKey_hit {fs : FS} {p : Path} {old : Option PWD} {c : String} {k : Nat}
    (hn : fs.node p = .file c (some k)) (hold : ∀ d, old = some d → Sound fs p d) :
    okF fs p (tModKey (.ok k) old) := by
  cases old with
  | none => unfold okF tModKey; simp [hn, KeyRes.toState]
  | some d =>
    have hs := hold d rfl
    unfold okF tModKey
    unfold Sound at hs
    simp only [hn, beq_iff_eq]
    cases hst : d.state <;> simp only [hst] at hs <;> simp [hst, KeyRes.toState]
    · simp [FS.isDir, hn] at hs
    · simp [FS.isFile, hn] at hs
    · simp [FS.modKey, hn] at hs

end EsbuildModel.Watch
