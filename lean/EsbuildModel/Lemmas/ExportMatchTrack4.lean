import EsbuildModel.Lemmas.ExportMatchTrack3
/-! `matchImportWithExport` on an ESM-only table under the hypotheses of the main theorems (`matchLoop_spec`). -/
namespace EsbuildModel.ExportMatch
open EsbuildModel.Spec EsbuildModel.Spec.EsModules

structure Hyps (t : Table) (rs : List Resolved) : Prop where
  wf : WF t
  esm : EsmOnly t
  rs : allResolved t = some rs
  nocycle : NoReexportCycle (toSpec t)
  link : ReexportsLink (toSpec t)

theorem advance_esm {t : Table} {rs : List Resolved} (H : Hyps t rs) (k : Bool) {tr : Tracker} {f : File}
    {ni : NamedImport} (hf : t[tr.src]? = some f) (hi : findImport f tr.ref = some ni) :
    ∃ o other res, ni.target = some o ∧ o < t.length ∧ t[o]? = some other ∧ resolvedExports t o = some res ∧
      advance ⟨t, rs, k⟩ tr =
        if ni.isStar then some (⟨o, 0, other.exportsRef⟩, .found, [])
        else
          match res.lookup ni.alias with
          | some ex => some (⟨ex.src, ex.loc, ex.ref⟩, .found, ex.ambs)
          | none => some (⟨o, 0, 0⟩, .noMatch, []) := by
  have hfm := List.mem_of_getElem? hf
  have hnim := (findImport_mem hi).1
  cases htg : ni.target with
  | none => exact absurd htg (H.esm.targets f hfm ni hnim)
  | some o =>
    have ho : o < t.length := H.wf.targets f hfm ni hnim o htg
    have hother : t[o]? = some t[o] := List.getElem?_eq_getElem ho
    obtain ⟨res, hres1, hres2⟩ := allResolved_get H.rs ho
    have hom := List.getElem_mem ho
    refine ⟨o, t[o], res, rfl, ho, hother, hres2, ?_⟩
    unfold advance
    simp only [hf, hi, htg, hother, hres1, H.esm.noExports _ hom, H.esm.kind _ hom, H.esm.notTS _ hfm]
    by_cases hs : ni.isStar = true
    · simp [hs]
    · have hs' : ni.isStar = false := by simpa using hs
      simp only [hs']
      cases res.lookup ni.alias <;> simp

def IndReach (T : EsModules.Table) (u v : Node) : Prop :=
  ∃ y z, Reach T u y ∧ node T y.1 y.2 = .ind z.1 z.2 ∧ Reach T z v

/-- every tracker on the cycle detector is a named import whose target leads, through at least one named re-export,
to the target of the current import -/
def Chain (t : Table) (cd : List Tracker) (ni : NamedImport) : Prop :=
  ∀ q ∈ cd, ∃ fq niq oq, t[q.src]? = some fq ∧ findImport fq q.ref = some niq ∧ niq.isStar = false ∧
    niq.target = some oq ∧
    (ni.isStar = false → ∀ o, ni.target = some o → IndReach (toSpec t) (oq, niq.alias) (o, ni.alias))

theorem not_on_chain {t : Table} (hnc : NoReexportCycle (toSpec t)) {cd : List Tracker} {tr : Tracker} {f : File}
    {ni : NamedImport} (hf : t[tr.src]? = some f) (hi : findImport f tr.ref = some ni) (hch : Chain t cd ni) :
    tr ∉ cd := by
  intro hmem
  obtain ⟨fq, niq, oq, hfq, hiq, hsq, htq, hreach⟩ := hch tr hmem
  rw [hf] at hfq; cases hfq
  rw [hi] at hiq; cases hiq
  obtain ⟨y, z, h1, h2, h3⟩ := hreach hsq oq htq
  exact hnc y.1 y.2 z.1 z.2 h2 (h3.trans h1)

/-- extending the chain by the current tracker, for the import re-exported by a holder of the current target -/
theorem chain_extend {t : Table} {cd : List Tracker} {tr : Tracker} {f : File} {ni : NamedImport} {o : Nat}
    (hf : t[tr.src]? = some f) (hi : findImport f tr.ref = some ni) (hs : ni.isStar = false)
    (htg : ni.target = some o) (hch : Chain t cd ni) {d : ImportData} (hreach : Reach (toSpec t) (o, ni.alias) (d.src, ni.alias))
    {nid : NamedImport}
    (hind : nid.isStar = false → ∀ tg, nid.target = some tg → node (toSpec t) d.src ni.alias = .ind tg nid.alias) :
    Chain t (cd ++ [tr]) nid := by
  intro q hq
  rcases List.mem_append.1 hq with hq | hq
  · obtain ⟨fq, niq, oq, hfq, hiq, hsq, htq, hr⟩ := hch q hq
    refine ⟨fq, niq, oq, hfq, hiq, hsq, htq, ?_⟩
    intro hsd od htd
    obtain ⟨y, z, h1, h2, h3⟩ := hr hs o htg
    have hstep : z ∈ succ (toSpec t) y := by
      obtain ⟨y1, y2⟩ := y
      obtain ⟨z1, z2⟩ := z
      simp only at h2
      simp [succ, h2]
    exact ⟨(d.src, ni.alias), (od, nid.alias), ((h1.step hstep).trans h3).trans hreach, hind hsd od htd, .refl _⟩
  · simp at hq; subst hq
    refine ⟨f, ni, o, hf, hi, hs, htg, ?_⟩
    intro hsd od htd
    exact ⟨(d.src, ni.alias), (od, nid.alias), hreach, hind hsd od htd, .refl _⟩

/-- what `matchImportWithExport` returns for an import `ni`, given the `result` and `ambiguousResults` so far:
the pending comparison of a Normal result `R0` naming one reachable binding against results naming the others
(all up to the `nameLoc`, which the comparison ignores) -/
def Out (t : Table) (ni : NamedImport) (result : MResult) (ambs : List MResult) (R : MResult) : Prop :=
  ((∀ b, ¬ Pointed t ni b) ∧ R = finish result ambs) ∨
  ∃ b0 R0 rs, Pointed t ni b0 ∧ noLoc R0 = normalOf t b0 ∧
    (∀ r ∈ rs, ∃ b, Pointed t ni b ∧ noLoc r = normalOf t b) ∧
    (∀ b, Pointed t ni b → b = b0 ∨ ∃ r ∈ rs, noLoc r = normalOf t b) ∧ R = finish R0 (ambs ++ rs)

/-- if the import points to exactly one binding, the loop returns the pending comparison against that binding -/
theorem Out.unique {t : Table} {ni : NamedImport} {result : MResult} {ambs : List MResult} {R : MResult}
    (h : Out t ni result ambs R) {b : ResolvedBinding} (hb : Pointed t ni b) (hu : ∀ b', Pointed t ni b' → b' = b) :
    ∃ R0, noLoc R0 = normalOf t b ∧ R = finish R0 ambs := by
  rcases h with ⟨hnone, _⟩ | ⟨b0, R0, rs, hb0, hR0, hrs, _, hR⟩
  · exact absurd hb (hnone b)
  · have : b0 = b := hu b0 hb0
    subst this
    refine ⟨R0, hR0, ?_⟩
    rw [hR]
    apply finish_append_eq
    intro r hr
    obtain ⟨b', hb', hr'⟩ := hrs r hr
    rw [hr', hR0, hu b' hb']

end EsbuildModel.ExportMatch
