import EsbuildModel.Lemmas.LineOffsetMain
/-!
Byte offsets versus character indices (every offset is a boundary or strictly inside exactly one character),
`Spec.TextPosition.indexOfOffset`, and monotonicity of the specified position.
-/
namespace EsbuildModel.LineOffset
open EsbuildModel.Spec.Unicode EsbuildModel.Spec.TextPosition

theorem offsetOfIndex_eq (chs : List Ch) (k : Nat) : offsetOfIndex chs k = bytes (chs.take k) := rfl

theorem bytes_take_succ (chs : List Ch) (k : Nat) (hk : k < chs.length) :
    bytes (chs.take (k + 1)) = bytes (chs.take k) + chs[k].width := by
  rw [take_succ_getElem chs k hk, bytes_append, bytes_cons, bytes_nil]; omega

theorem bytes_take_mono (chs : List Ch) (k k' : Nat) (h : k ≤ k') : bytes (chs.take k) ≤ bytes (chs.take k') := by
  have : chs.take k = (chs.take k').take k := by rw [List.take_take, Nat.min_eq_left h]
  rw [this]; exact bytes_take_le _ k

theorem bytes_take_lt (chs : List Ch) (hv : Valid chs) (k k' : Nat) (h : k < k') (hk' : k' ≤ chs.length) :
    bytes (chs.take k) < bytes (chs.take k') := by
  have hk : k < chs.length := by omega
  have h1 := bytes_take_succ chs k hk
  have h2 := bytes_take_mono chs (k + 1) k' h
  have := (hv chs[k] (List.getElem_mem hk)).1
  omega

theorem bytes_take_all (chs : List Ch) : bytes (chs.take chs.length) = bytes chs := by rw [List.take_length]

/-- offsets of distinct boundaries differ -/
theorem bytes_take_inj (chs : List Ch) (hv : Valid chs) (k k' : Nat) (hk : k ≤ chs.length) (hk' : k' ≤ chs.length)
    (h : bytes (chs.take k) = bytes (chs.take k')) : k = k' := by
  rcases Nat.lt_trichotomy k k' with hlt | heq | hgt
  · have := bytes_take_lt chs hv k k' hlt hk'; omega
  · exact heq
  · have := bytes_take_lt chs hv k' k hgt hk; omega

theorem indexOfOffset_boundary (chs : List Ch) (hv : Valid chs) (k : Nat) (hk : k ≤ chs.length) :
    indexOfOffset chs (bytes (chs.take k)) = some k := by
  unfold indexOfOffset
  rw [List.find?_eq_some_iff_append]
  refine ⟨by simp [offsetOfIndex_eq], List.range k, List.range' (k + 1) (chs.length - k), ?_, ?_⟩
  · rw [List.range_eq_range', List.range_eq_range']
    have e : chs.length + 1 = k + (1 + (chs.length - k)) := by omega
    rw [e, ← List.range'_append_1, Nat.zero_add]
    congr 1
    rw [Nat.add_comm 1, List.range'_succ]
  · intro a ha
    rw [List.mem_range] at ha
    have := bytes_take_lt chs hv a k ha hk
    simp only [offsetOfIndex_eq, Bool.not_eq_eq_eq_not, Bool.not_true, beq_eq_false_iff_ne, ne_eq]
    omega

theorem indexOfOffset_some (chs : List Ch) (i k : Nat) (h : indexOfOffset chs i = some k) :
    k ≤ chs.length ∧ bytes (chs.take k) = i := by
  unfold indexOfOffset at h
  have hm := List.mem_of_find?_eq_some h
  have hp := List.find?_some h
  rw [List.mem_range] at hm
  simp only [offsetOfIndex_eq, beq_iff_eq] at hp
  exact ⟨by omega, hp⟩

theorem indexOfOffset_none (chs : List Ch) (i : Nat) (h : indexOfOffset chs i = none) :
    ∀ k, k ≤ chs.length → bytes (chs.take k) ≠ i := by
  unfold indexOfOffset at h
  rw [List.find?_eq_none] at h
  intro k hk
  have := h k (by rw [List.mem_range]; omega)
  simpa [offsetOfIndex_eq] using this

/-- every offset inside the text is a character boundary or strictly inside one character -/
theorem offset_cases (chs : List Ch) (hv : Valid chs) : ∀ i, i ≤ bytes chs →
    (∃ k, k ≤ chs.length ∧ bytes (chs.take k) = i) ∨
    (∃ k, ∃ hk : k < chs.length, ∃ d, 0 < d ∧ d < chs[k].width ∧ i = bytes (chs.take k) + d) := by
  induction chs with
  | nil => intro i hi; left; exact ⟨0, by simp, by simp at hi; simp [hi]⟩
  | cons c r ih =>
    intro i hi
    by_cases h0 : i = 0
    · left; exact ⟨0, by simp, by simp [h0]⟩
    · by_cases hw : i < c.width
      · right; exact ⟨0, by simp, i, by omega, by simpa using hw, by simp⟩
      · rw [bytes_cons] at hi
        rcases ih hv.tail (i - c.width) (by omega) with ⟨k, hk, e⟩ | ⟨k, hk, d, hd, hdw, e⟩
        · left; exact ⟨k + 1, by simpa using hk, by simp [e]; omega⟩
        · right
          refine ⟨k + 1, by simpa using hk, d, hd, by simpa using hdw, ?_⟩
          simp only [List.take_succ_cons, bytes_cons]; omega

/-! ### the specified position never goes backwards -/

theorem Pos.le_refl (a : Pos) : Pos.le a a := Or.inr ⟨rfl, Nat.le_refl _⟩

theorem Pos.le_trans {a b c : Pos} (h1 : Pos.le a b) (h2 : Pos.le b c) : Pos.le a c := by
  unfold Pos.le at *; omega

theorem posOfIndex_step (cps : List Nat) (k : Nat) : Pos.le (posOfIndex cps k) (posOfIndex cps (k + 1)) := by
  unfold posOfIndex
  simp only
  by_cases hk : k < (marks cps).length
  · rw [List.take_add_one, List.getElem?_eq_getElem hk]
    simp only [Option.toList_some, List.countP_append, List.reverse_append, List.reverse_cons, List.reverse_nil,
      List.nil_append, List.singleton_append, List.takeWhile_cons]
    cases hm : ((marks cps)[k]).2
    · right
      simp [hm]
    · left
      simp [hm]
  · rw [List.take_of_length_le (by omega), List.take_of_length_le (by omega)]
    exact Pos.le_refl _

theorem posOfIndex_mono (cps : List Nat) (k k' : Nat) (h : k ≤ k') : Pos.le (posOfIndex cps k) (posOfIndex cps k') := by
  induction k' with
  | zero => have : k = 0 := by omega
            subst this; exact Pos.le_refl _
  | succ n ih =>
    by_cases hk : k = n + 1
    · subst hk; exact Pos.le_refl _
    · exact Pos.le_trans (ih (by omega)) (posOfIndex_step cps n)

theorem pos_mono (chs : List Ch) (k k' : Nat) (h : k ≤ k') : Pos.le (pos chs k) (pos chs k') :=
  posOfIndex_mono _ k k' h

end EsbuildModel.LineOffset
