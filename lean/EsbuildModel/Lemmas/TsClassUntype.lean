/-
A base class with parameter properties against the same class with the assignments written out.
-/
import EsbuildModel.Lemmas.TsClassCtx
import EsbuildModel.Lemmas.TsClassParamProps
namespace EsbuildModel.TsClass

/-- no instance field that does anything (`declare` fields are allowed) -/
def Members.noInstFields : Members → Bool
  | .nil => true
  | .field _ _ _ declare r => declare && r.noInstFields
  | .sfield _ _ _ r => r.noInstFields
  | .sblock _ r => r.noInstFields
  | .sassign _ _ r => r.noInstFields

def Params.noDefaults : Params → Bool
  | .nil => true
  | .cons _ hasD _ r => !hasD && r.noDefaults

theorem fieldsInit_none (m : Mode) (d : Bool) (S : List Nat) (id : Nat) : ∀ (ms : Members) (s : St),
    ms.noInstFields = true → fieldsInit m d ms S id s = .ok () s
  | .nil, _, _ => by simp [fieldsInit]
  | .field _ _ _ declare r, s, h => by
    simp only [Members.noInstFields, Bool.and_eq_true] at h
    simp [fieldsInit, h.1, fieldsInit_none m d S id r s h.2]
  | .sfield _ _ _ r, s, h => by simpa [fieldsInit] using fieldsInit_none m d S id r s (by simpa [Members.noInstFields] using h)
  | .sblock _ r, s, h => by simpa [fieldsInit] using fieldsInit_none m d S id r s (by simpa [Members.noInstFields] using h)
  | .sassign _ _ r, s, h => by simpa [fieldsInit] using fieldsInit_none m d S id r s (by simpa [Members.noInstFields] using h)

theorem ppDeclare_strip (id : Nat) : ∀ (ps : Params) (i : Nat) (s : St), ppDeclare ps.strip i id s = s
  | .nil, _, _ => by simp [Params.strip, ppDeclare]
  | .cons _ _ _ r, i, s => by simp [Params.strip, ppDeclare, ppDeclare_strip id r (i + 1) s]

theorem ppInit_strip (d : Bool) (S : List Nat) (vals : List Val) (id : Nat) : ∀ (ps : Params) (i : Nat) (s : St),
    ppInit d S vals ps.strip i id s = .ok () s
  | .nil, _, _ => by simp [Params.strip, ppInit]
  | .cons _ _ _ r, i, s => by simp [Params.strip, ppInit, ppInit_strip d S vals id r (i + 1) s]

theorem fieldsInit_ppFields (m o : Mode) (ho : o.useDefine = true ∧ o.native = true) (S : List Nat) (id : Nat) (ms : Members)
    (hms : ms.noInstFields = true) : ∀ (ps : Params) (i : Nat) (s : St),
    fieldsInit m true (ppFields o ps i ms) S id s = .ok () (ppDeclare ps i id s)
  | .nil, _, s => by simp [ppFields, ppDeclare, fieldsInit_none m true S id ms s hms]
  | .cons isProp _ _ r, i, s => by
    cases isProp <;> simp [ppFields, ppDeclare, ho.1, ho.2, fieldsInit, fieldsInit_ppFields m o ho S id ms hms r (i + 1)]

theorem ppFields_not_native (o : Mode) (ho : (o.useDefine && o.native) = false) (ms : Members) : ∀ (ps : Params) (i : Nat),
    ppFields o ps i ms = ms
  | .nil, _ => by simp [ppFields]
  | .cons isProp _ _ r, i => by
    have : (isProp && o.useDefine && o.native) = false := by
      cases isProp <;> simp_all
    simp [ppFields, this, ppFields_not_native o ho ms r (i + 1)]

theorem evalParams_strip (m : Mode) (C : Ctx) : ∀ (ps : Params) (i : Nat) (env : Env) (t : Option Nat) (s : St),
    evalParams m ps.strip i C env t s = evalParams m ps i C env t s
  | .nil, _, _, _, _ => by simp [Params.strip, evalParams]
  | .cons _ hasD d r, i, env, t, s => by
    simp only [Params.strip, evalParams]
    generalize (if (i == 0) = true then env.rawArg else Val.undef) = v0
    by_cases hc : (hasD && v0 == Val.undef) = true
    · simp only [hc, if_true]
      exact Res.bind_congr _ _ _ fun r1 s1 => evalParams_strip m C r (i + 1) _ r1.2 s1
    · simp only [hc, if_false]
      exact evalParams_strip m C r (i + 1) _ t s

theorem evalParams_noDefaults (m : Mode) : ∀ (ps : Params) (i : Nat) (env : Env) (t : Option Nat) (s : St),
    ps.noDefaults = true → ∃ vals, ∀ C : Ctx, evalParams m ps i C env t s = .ok (vals, t) s
  | .nil, _, env, t, s, _ => ⟨env.params, fun C => by simp [evalParams]⟩
  | .cons _ hasD d r, i, env, t, s, h => by
    simp only [Params.noDefaults, Bool.and_eq_true, Bool.not_eq_true'] at h
    obtain ⟨vals, hv⟩ := evalParams_noDefaults m r (i + 1)
      { env with params := env.params ++ [if (i == 0) = true then env.rawArg else Val.undef] } t s h.2
    exact ⟨vals, fun C => by simp only [evalParams, h.1, Bool.false_and, Bool.false_eq_true, if_false]; exact hv C⟩

end EsbuildModel.TsClass

namespace EsbuildModel.TsClass

/-- a class WITHOUT heritage, parameters without defaults, no instance fields: the class with parameter properties
means the same as the class with plain parameters whose body starts with the statements esbuild generates (and, when the
fields are native, with the `x;` declarations in front of the members) -/
theorem root_typed_eq_untyped (m : Mode) (ss : List Nat) (ps : Params) (body : Stmts) (ms : Members) (after : Afters)
    (hps : ps.noDefaults = true) (hms : ms.noInstFields = true) (S : List Nat) (arg : Val) (s : St) :
    construct m (.mk .none ss (.some ps body) ms after) S arg s
      = construct m (.mk .none ss (.some ps.strip ((ppStmts m ps 0).append body)) (ppFields m ps 0 ms) after) S arg s := by
  simp only [construct, superOpOf, Ctor.params]
  cases hn : m.nat with
  | true =>
    have ho : m.useDefine = true ∧ m.native = true := by simpa [Mode.nat] using hn
    simp only [if_true, fieldsInit_none m true S _ ms _ hms, fieldsInit_ppFields m m ho S _ ms hms, ppDeclare_strip,
      Res.bind, evalParams_strip]
    obtain ⟨vals, hv⟩ := evalParams_noDefaults m ps 0 ⟨arg, [], []⟩ (some s.alloc.1) (ppDeclare ps 0 s.alloc.1 s.alloc.2) hps
    simp only [hv, Res.bind, ppInit_strip]
    rw [ppStmts_sem]
    simp only [ho.1, ho.2, Bool.not_true, Bool.and_false]
    cases ppInit false S vals ps 0 s.alloc.1 (ppDeclare ps 0 s.alloc.1 s.alloc.2) with
    | threw s1 => rfl
    | ok a s1 =>
      simp only [Res.bind]
      rw [evalStmts_root m _ _ S body _ _ s1]
  | false =>
    have ho : (m.useDefine && m.native) = false := by simpa [Mode.nat] using hn
    simp only [Bool.false_eq_true, if_false, fieldsInit_none m _ S _ ms _ hms, ppFields_not_native m ho ms, Res.bind,
      evalParams_strip]
    obtain ⟨vals, hv⟩ := evalParams_noDefaults m ps 0 ⟨arg, [], []⟩ (some s.alloc.1) s.alloc.2 hps
    simp only [hv, Res.bind, ppInit_strip]
    rw [ppStmts_sem]
    have hd : (m.useDefine && !m.native) = m.useDefine := by
      cases h1 : m.useDefine <;> cases h2 : m.native <;> simp_all
    rw [hd]
    cases ppInit m.useDefine S vals ps 0 s.alloc.1 s.alloc.2 with
    | threw s1 => rfl
    | ok a s1 =>
      simp only [Res.bind]
      rw [evalStmts_root m _ _ S body _ _ s1]

end EsbuildModel.TsClass
