import EsbuildModel.Lemmas.IdentLexBasic
/-! The two passes of `scanIdentifierWithEscapes` over a sequence of grammar elements (`Spec.JsIdentifier.Elem`). -/
namespace EsbuildModel.IdentLex
open EsbuildModel.Spec.JsIdentifier
open EsbuildModel.Spec.StrLit (isHexDigit digitsMV)
open EsbuildModel.StrLex

/-- what the FIRST pass walks over: a character IsIdentifierContinue accepts, `\u` + four hex digits, `\u{` hex digits `}`
(the digits may be missing or too large: the second pass decides) -/
def Shape (T : Tables) : Elem → Prop
  | .char c => isIdCont T c = true
  | .esc4 a b c d => isHexDigit a = true ∧ isHexDigit b = true ∧ isHexDigit c = true ∧ isHexDigit d = true
  | .escBrace ds => ∀ d ∈ ds, isHexDigit d = true

def textOf (elems : List Elem) : List Nat := elems.flatMap Elem.text

theorem textOf_cons (e : Elem) (es : List Elem) : textOf (e :: es) = e.text ++ textOf es := by
  simp [textOf]

theorem isIdCont_backslash (T : Tables) : isIdCont T 92 = false := by
  simp [isIdCont, asciiCont, asciiStart]

theorem isHexDigit_range {c : Nat} (h : isHexDigit c = true) : 48 ≤ c ∧ c ≤ 102 := by
  obtain ⟨d, hd, _⟩ := (isHexDigit_iff c).1 h
  exact hexVal_range hd

theorem pass1_brace (T : Tables) (ds : List Nat) (hds : ∀ d ∈ ds, isHexDigit d = true) (l : List Nat) (i : Nat) :
    pass1 T .brace (ds ++ 125 :: l) i = pass1 T .top l (i + ds.length + 1) := by
  induction ds generalizing i with
  | nil => simp [pass1]
  | cons d r ih =>
    have hd := hds d (by simp)
    have hr := isHexDigit_range hd
    have h125 : d ≠ 125 := by omega
    simp only [List.cons_append, pass1, h125, if_false, isHex_eq, hd, if_true]
    rw [ih (fun x hx => hds x (by simp [hx]))]
    congr 1; simp; omega

theorem pass1_elem (T : Tables) (e : Elem) (he : Shape T e) (l : List Nat) (i : Nat) :
    pass1 T .top (e.text ++ l) i = pass1 T .top l (i + e.text.length) := by
  cases e with
  | char c =>
    have h92 : c ≠ 92 := by
      intro h; rw [h] at he; simp [Shape, isIdCont_backslash] at he
    simp only [Shape] at he
    simp [Elem.text, pass1, h92, he]
  | esc4 a b c d =>
    obtain ⟨ha, hb, hc, hd⟩ := he
    have ra := isHexDigit_range ha
    have h123 : a ≠ 123 := by omega
    simp [Elem.text, pass1, h123, isHex_eq, ha, hb, hc, hd]
  | escBrace ds =>
    have he : ∀ d ∈ ds, isHexDigit d = true := he
    simp only [Elem.text, List.cons_append, List.nil_append, List.append_assoc, pass1, if_true]
    have := pass1_brace T ds he l (i + 1 + 1 + 1)
    rw [this]; congr 1; simp; omega

theorem pass1_elems (T : Tables) (es : List Elem) (hes : ∀ e ∈ es, Shape T e) (l : List Nat) (i : Nat) :
    pass1 T .top (textOf es ++ l) i = pass1 T .top l (i + (textOf es).length) := by
  induction es generalizing i with
  | nil => simp [textOf]
  | cons e r ih =>
    rw [textOf_cons, List.append_assoc, pass1_elem T e (hes e (by simp)), ih (fun x hx => hes x (by simp [hx]))]
    congr 1; simp; omega

/-- the first pass stops in front of the end of the text or of a character that is neither `\` nor IsIdentifierContinue -/
def Stops (T : Tables) (l : List Nat) : Prop := ∀ c, l.head? = some c → c ≠ 92 ∧ isIdCont T c = false

theorem pass1_stop (T : Tables) (l : List Nat) (h : Stops T l) (i : Nat) : pass1 T .top l i = .ok i := by
  cases l with
  | nil => simp [pass1]
  | cons c r =>
    obtain ⟨h1, h2⟩ := h c rfl
    simp [pass1, h1, h2]

theorem spanLen_elems (T : Tables) (cs : List Nat) (hcs : ∀ c ∈ cs, isIdCont T c = true) (l : List Nat)
    (hl : ∀ c, l.head? = some c → isIdCont T c = false) : spanLen (isIdCont T) (cs ++ l) = cs.length := by
  induction cs with
  | nil =>
    cases l with
    | nil => rfl
    | cons c r => simp [spanLen, hl c rfl]
  | cons c r ih =>
    simp only [List.cons_append, spanLen, hcs c (by simp), if_true, List.length_cons]
    rw [ih (fun x hx => hcs x (by simp [hx]))]

/-! ### the second pass -/

theorem prepend_ok_none (units more : List Nat) : (Dec.ok more none).prepend units none = .ok (units ++ more) none := rfl

theorem hexVal?_of_isHexDigit {c : Nat} (h : isHexDigit c = true) : ∃ d, hexVal c = some d ∧ (Spec.JsString.hexVal? c).getD 0 = d ∧ d < 16 := by
  obtain ⟨d, hd, hlt⟩ := (isHexDigit_iff c).1 h
  refine ⟨d, hd, ?_, hlt⟩
  rw [← hexVal_eq, hd]; rfl

theorem encodeRune_small {v : Nat} (h : v ≤ 65535) : encodeRune v = [v] := by
  simp only [encodeRune]
  have : v % 65536 = v := by omega
  simp [h, this]

theorem unicode_not_brace (rep : Bool) (a : Nat) (r : List Nat) (h : a ≠ 123) : unicode rep (a :: r) = hex4 (a :: r) := by
  unfold unicode
  split
  · rename_i heq; cases heq; exact absurd rfl h
  · rfl

/-- one round of the decoder on a grammar element with IdentifierCodePoint `v` -/
theorem step_elem (e : Elem) (v : Nat) (hv : e.cp = some v) (h13 : e ≠ .char 13) (l : List Nat) :
    ∃ c0 t', e.text = c0 :: t' ∧ step true c0 (t' ++ l) = .emit (encodeRune v) (t'.length + 1) false := by
  cases e with
  | char c =>
    simp only [Elem.cp] at hv
    split at hv
    · cases hv
    · injection hv with hv; subst hv
      rename_i h92
      have h13' : c ≠ 13 := by intro h; exact h13 (by rw [h])
      exact ⟨c, [], rfl, by simp [step, h13', h92]⟩
  | esc4 a b c d =>
    simp only [Elem.cp] at hv
    split at hv
    · injection hv with hv
      rename_i hall
      simp only [List.all_cons, List.all_nil, Bool.and_true, Bool.and_eq_true] at hall
      obtain ⟨ha, hb, hc, hd⟩ := hall
      obtain ⟨w, hw, gw, lw⟩ := hexVal?_of_isHexDigit ha
      obtain ⟨x, hx, gx, lx⟩ := hexVal?_of_isHexDigit hb
      obtain ⟨y, hy, gy, ly⟩ := hexVal?_of_isHexDigit hc
      obtain ⟨z, hz, gz, lz⟩ := hexVal?_of_isHexDigit hd
      have hval : v = ((w * 16 + x) * 16 + y) * 16 + z := by
        rw [← hv]; simp [digitsMV, gw, gx, gy, gz]
      have ra := isHexDigit_range ha
      have h123 : a ≠ 123 := by omega
      refine ⟨92, [117, a, b, c, d], rfl, ?_⟩
      have hsmall : v ≤ 65535 := by omega
      rw [encodeRune_small hsmall]
      simp [step, escape, isOct, unicode_not_brace _ _ _ h123, hex4, hw, hx, hy, hz, hval]
    · cases hv
  | escBrace ds =>
    simp only [Elem.cp] at hv
    split at hv
    · injection hv with hv
      rename_i hcond
      obtain ⟨hne, hall, hle⟩ := hcond
      have hds : ∀ c ∈ ds, isHexDigit c = true := by simpa [List.all_eq_true] using hall
      refine ⟨92, [117, 123] ++ ds ++ [125], by simp [Elem.text], ?_⟩
      have hbl := braceLoop_digits ds hds (125 :: l) 0 true false 3
      rw [digitsMV_eq] at hv hle
      obtain ⟨hw, ho⟩ := brace_in_range 0 false ds hle
      have hemp : ds.isEmpty = false := by cases ds with | nil => exact absurd rfl hne | cons _ _ => rfl
      have hstep : step true 92 ([117, 123] ++ ds ++ [125] ++ l) = .emit (encodeRune v) (3 + ds.length + 1) false := by
        have : [117, 123] ++ ds ++ [125] ++ l = 117 :: 123 :: (ds ++ 125 :: l) := by simp
        rw [this]
        simp only [step, escape, isOct, unicode, hbl, hw, ho, hemp, braceLoop, hv]
        simp
      rw [hstep]; congr 1; simp; omega
    · cases hv
