/-
Lemmas that connect the model Impl/CssRules.lean with the specification through the reading
Impl/CssRulesDenote.lean: rules the code calls `Equal` read the same; each step of `mangleRules`, the back-to-front
duplicate removal and the bottom-up application by the parser keep the sheet observationally equivalent
(`EquivOn`, Lemmas/RuleCascade.lean).
-/
import EsbuildModel.Impl.CssRulesDenote
import EsbuildModel.Lemmas.RuleCascade

namespace EsbuildModel.CssRules

open EsbuildModel.Spec.RuleCascade

variable {Elem Env Pr Val : Type}

/-! ### rules that are `Equal` read the same and declare no layer -/

theorem sels_eq_of_complexesEq (R : Reading Elem Env Pr Val) (hR : R.Sound) (parent : Option (List (Selector Elem))) :
    ∀ (s s' : List Complex), complexesEq s s' = true → R.sels parent s = R.sels parent s'
  | [], [], _ => rfl
  | [], _ :: _, h => by simp [complexesEq] at h
  | _ :: _, [], h => by simp [complexesEq] at h
  | a :: as, b :: bs, h => by
    simp only [complexesEq, Bool.and_eq_true] at h
    have ih := sels_eq_of_complexesEq R hR parent as bs h.2
    cases parent with
    | none =>
      simp only [Reading.sels, List.map_cons] at ih ⊢
      rw [hR.sel_eq a b h.1, ih]
    | some S =>
      simp only [Reading.sels, List.map_cons] at ih ⊢
      rw [hR.nest_eq S a b h.1, ih]

mutual
theorem denoteRule_eq_of_ruleEq (R : Reading Elem Env Pr Val) (hR : R.Sound) :
    ∀ (r r' : Rule) (parent : Option (List (Selector Elem))), ruleEq r r' = true →
      denoteRule R parent r = denoteRule R parent r' := by
  intro r r' parent h
  cases r with
  | sel s b =>
    cases r' with
    | sel s' b' =>
      simp only [ruleEq, Bool.and_eq_true] at h
      simp only [denoteRule]
      rw [sels_eq_of_complexesEq R hR parent s s' h.1]
      exact denoteRules_eq_of_rulesEq R hR b b' _ h.2
    | _ => simp [ruleEq] at h
  | decl k v i =>
    cases r' with
    | decl k' v' i' =>
      simp only [ruleEq, Bool.and_eq_true, beq_iff_eq] at h
      obtain ⟨⟨rfl, rfl⟩, rfl⟩ := h
      rfl
    | _ => simp [ruleEq] at h
  | media q b =>
    cases r' with
    | media q' b' =>
      simp only [ruleEq, Bool.and_eq_true, beq_iff_eq] at h
      obtain ⟨rfl, hb⟩ := h
      simp only [denoteRule]
      rw [denoteRules_eq_of_rulesEq R hR b b' _ hb]
    | _ => simp [ruleEq] at h
  | layerStmt n => simp [ruleEq] at h
  | layerBlock n a b => simp [ruleEq] at h
  | known t p b =>
    cases r' with
    | known t' p' b' =>
      simp only [ruleEq, Bool.and_eq_true, beq_iff_eq] at h
      obtain ⟨⟨⟨_, ht⟩, rfl⟩, hb⟩ := h
      simp only [denoteRule]
      rw [hR.group_eq t t' p ht, denoteRules_eq_of_rulesEq R hR b b' _ hb]
    | _ => simp [ruleEq] at h
  | other k p b =>
    cases r' with
    | other k' p' b' => rfl
    | _ => simp [ruleEq] at h
  | keyframes t =>
    cases r' with
    | keyframes t' => rfl
    | _ => simp [ruleEq] at h
  | badDecl t =>
    cases r' with
    | badDecl t' => rfl
    | _ => simp [ruleEq] at h
  | atom t =>
    cases r' with
    | atom t' => rfl
    | _ => simp [ruleEq] at h
  | comment t =>
    cases r' with
    | comment t' => rfl
    | _ => simp [ruleEq] at h
  | atImport t => simp [ruleEq] at h
theorem denoteRules_eq_of_rulesEq (R : Reading Elem Env Pr Val) (hR : R.Sound) :
    ∀ (b b' : List Rule) (parent : Option (List (Selector Elem))), rulesEq b b' = true →
      denoteRules R parent b = denoteRules R parent b' := by
  intro b b' parent h
  cases b with
  | nil =>
    cases b' with
    | nil => rfl
    | cons _ _ => simp [rulesEq] at h
  | cons x xs =>
    cases b' with
    | nil => simp [rulesEq] at h
    | cons y ys =>
      simp only [rulesEq, Bool.and_eq_true] at h
      simp only [denoteRules]
      rw [denoteRule_eq_of_ruleEq R hR x y parent h.1, denoteRules_eq_of_rulesEq R hR xs ys parent h.2]
end

mutual
theorem declared_nil_of_ruleEq (R : Reading Elem Env Pr Val) :
    ∀ (r r' : Rule) (parent : Option (List (Selector Elem))) (env : Env) (ctx : LayerPath), ruleEq r r' = true →
      declaredRules env ctx (denoteRule R parent r) = [] := by
  intro r r' parent env ctx h
  cases r with
  | sel s b =>
    cases r' with
    | sel s' b' =>
      simp only [ruleEq, Bool.and_eq_true] at h
      simp only [denoteRule]
      exact declared_nil_of_rulesEq R b b' _ env ctx h.2
    | _ => simp [ruleEq] at h
  | decl k v i =>
    cases parent <;> simp [denoteRule, declaredRule]
  | media q b =>
    cases r' with
    | media q' b' =>
      simp only [ruleEq, Bool.and_eq_true] at h
      simp only [denoteRule, declaredRules_singleton, declaredRule]
      split
      · exact declared_nil_of_rulesEq R b b' _ env ctx h.2
      · rfl
    | _ => simp [ruleEq] at h
  | layerStmt n => simp [ruleEq] at h
  | layerBlock n a b => simp [ruleEq] at h
  | known t p b =>
    cases r' with
    | known t' p' b' =>
      simp only [ruleEq, Bool.and_eq_true] at h
      simp only [denoteRule]
      split
      · simp only [declaredRules_singleton, declaredRule]
        split
        · exact declared_nil_of_rulesEq R b b' _ env ctx h.2
        · rfl
      · simp [declaredRule]
    | _ => simp [ruleEq] at h
  | other k p b => simp [denoteRule, declaredRule]
  | keyframes t => simp [denoteRule, declaredRule]
  | badDecl t => simp [denoteRule, declaredRule]
  | atom t => simp [denoteRule, declaredRule]
  | comment t => simp [denoteRule, declaredRule]
  | atImport t => simp [ruleEq] at h
theorem declared_nil_of_rulesEq (R : Reading Elem Env Pr Val) :
    ∀ (b b' : List Rule) (parent : Option (List (Selector Elem))) (env : Env) (ctx : LayerPath), rulesEq b b' = true →
      declaredRules env ctx (denoteRules R parent b) = [] := by
  intro b b' parent env ctx h
  cases b with
  | nil => simp [denoteRules, declaredRules]
  | cons x xs =>
    cases b' with
    | nil => simp [rulesEq] at h
    | cons y ys =>
      simp only [rulesEq, Bool.and_eq_true] at h
      simp only [denoteRules, declaredRules_append]
      rw [declared_nil_of_ruleEq R x y parent env ctx h.1, declared_nil_of_rulesEq R xs ys parent env ctx h.2]
      rfl
end

/-! ### bodies that consist of declarations only -/

/-- the declarations of a body, read -/
def declsOf (R : Reading Elem Env Pr Val) : List Rule → List (Decl Pr Val)
  | [] => []
  | .decl k v i :: rest => ⟨R.decl k v, i⟩ :: declsOf R rest
  | _ :: rest => declsOf R rest

/-- a body of declarations under the selector list `S` is one style rule -/
theorem equiv_flat_body (R : Reading Elem Env Pr Val) (P : Env → Prop) (S : List (Selector Elem)) :
    ∀ (body : List Rule), body.all Rule.isPlain = true →
      EquivOn P (denoteRules R (some S) body) [.style S (declsOf R body)] := by
  intro body hb
  induction body with
  | nil =>
    simp only [denoteRules, declsOf]
    exact (silent_style_nil P S).equiv_nil.symm
  | cons r rest ih =>
    simp only [List.all_cons, Bool.and_eq_true] at hb
    have ih := ih hb.2
    cases r with
    | decl k v i =>
      simp only [denoteRules, denoteRule, declsOf]
      refine EquivOn.trans (EquivOn.append (EquivOn.refl P _) ih) ?_
      intro env _ ctx
      refine ⟨by simp [declaredRules, declaredRule], fun strength e p => ?_⟩
      simp only [List.singleton_append, candsRules, List.append_nil, candsRule]
      split
      · split
        · rw [← List.filterMap_append]; rfl
        · rfl
      · simp
    | comment t =>
      simp only [denoteRules, denoteRule, declsOf]
      exact EquivOn.trans (EquivOn.append (silent_inert P).equiv_nil (EquivOn.refl P _)) ih
    | badDecl t =>
      simp only [denoteRules, denoteRule, declsOf]
      exact EquivOn.trans (EquivOn.append (silent_inert P).equiv_nil (EquivOn.refl P _)) ih
    | _ => simp [Rule.isPlain] at hb

theorem isPlain_of_rulesEq : ∀ (b b' : List Rule), rulesEq b b' = true →
    b.all Rule.isPlain = true → b'.all Rule.isPlain = true
  | [], [], _, _ => rfl
  | [], _ :: _, h, _ => by simp [rulesEq] at h
  | _ :: _, [], h, _ => by simp [rulesEq] at h
  | x :: xs, y :: ys, h, hb => by
    simp only [rulesEq, Bool.and_eq_true] at h
    simp only [List.all_cons, Bool.and_eq_true] at hb ⊢
    refine ⟨?_, isPlain_of_rulesEq xs ys h.2 hb.2⟩
    cases x <;> cases y <;> simp [ruleEq, Rule.isPlain] at h hb ⊢

theorem declsOf_eq_of_rulesEq (R : Reading Elem Env Pr Val) : ∀ (b b' : List Rule), rulesEq b b' = true →
    b.all Rule.isPlain = true → declsOf R b = declsOf R b'
  | [], [], _, _ => rfl
  | [], _ :: _, h, _ => by simp [rulesEq] at h
  | _ :: _, [], h, _ => by simp [rulesEq] at h
  | x :: xs, y :: ys, h, hb => by
    simp only [rulesEq, Bool.and_eq_true] at h
    simp only [List.all_cons, Bool.and_eq_true] at hb
    have ih := declsOf_eq_of_rulesEq R xs ys h.2 hb.2
    cases x <;> cases y <;> simp [ruleEq, Rule.isPlain] at h hb <;> simp [declsOf, ih]
    simp [h]

/-! ### `RemoveDeadRulesInPlace` -/

/-- the rules `t` that follow make the (layer-free) rule `s` redundant -/
def Absorbs (R : Reading Elem Env Pr Val) (P : Env → Prop) (parent : Option (List (Selector Elem)))
    (t : List (SRule Elem Env Pr Val)) (s : Rule) : Prop :=
  ∀ env, P env → ∀ ctx, declaredRules env ctx (denoteRule R parent s) = [] ∧
    ∀ strength e p, Dominates (best strength (candsRules env e p ctx t))
      (best strength (candsRules env e p ctx (denoteRule R parent s)))

theorem Absorbs.append_left {R : Reading Elem Env Pr Val} {P : Env → Prop} {parent : Option (List (Selector Elem))}
    {t : List (SRule Elem Env Pr Val)} {s : Rule} (h : Absorbs R P parent t s) (a : List (SRule Elem Env Pr Val)) :
    Absorbs R P parent (a ++ t) s :=
  fun env hp ctx => ⟨(h env hp ctx).1, fun st e p => dominates_append_left env e p ctx st a t ((h env hp ctx).2 st e p)⟩

theorem absorbs_head (R : Reading Elem Env Pr Val) (P : Env → Prop) (parent : Option (List (Selector Elem)))
    (t : List (SRule Elem Env Pr Val)) (s : Rule)
    (hd : ∀ env ctx, declaredRules env ctx (denoteRule R parent s) = []) :
    Absorbs R P parent (denoteRule R parent s ++ t) s :=
  fun env _ ctx => ⟨hd env ctx, fun st e p => dominates_prefix env e p ctx st _ t⟩

theorem Absorbs.equiv {R : Reading Elem Env Pr Val} {P : Env → Prop} {parent : Option (List (Selector Elem))}
    {t : List (SRule Elem Env Pr Val)} {s : Rule} (h : Absorbs R P parent t s) :
    EquivOn P (denoteRule R parent s ++ t) t :=
  equiv_drop_dominated_list _ t (fun env hp ctx => (h env hp ctx).1) (fun env hp ctx st e p => (h env hp ctx).2 st e p)

/-- the selectors of a dead list match nothing -/
theorem sels_dead (R : Reading Elem Env Pr Val) (hR : R.Sound) (parent : Option (List (Selector Elem)))
    (sels : List Complex) (hdead : allSelectorsAreDead sels = true) :
    ∀ s ∈ R.sels parent sels, ∀ e, s.applies e = false := by
  intro s hs e
  unfold allSelectorsAreDead at hdead
  rw [List.all_eq_true] at hdead
  cases parent with
  | none =>
    simp only [Reading.sels, List.mem_map] at hs
    obtain ⟨c, hc, rfl⟩ := hs
    exact hR.dead_sel c e (hdead c hc)
  | some S =>
    simp only [Reading.sels, List.mem_map] at hs
    obtain ⟨c, hc, rfl⟩ := hs
    exact hR.dead_nest S c e (hdead c hc)

theorem plain_of_not_nested {body : List Rule} (h : containsNestedRules body = false) :
    body.all Rule.isPlain = true := by
  unfold containsNestedRules at h
  rw [List.all_eq_true]
  intro r hr
  cases hp : r.isPlain
  · have : (body.any fun r => !r.isPlain) = true := List.any_eq_true.mpr ⟨r, hr, by simp [hp]⟩
    rw [h] at this; exact absurd this (by simp)
  · rfl

/-- a rule that `RemoveDeadRulesInPlace` drops for its dead selectors (it has no nested rules) reads like nothing -/
theorem equiv_dead_rule (R : Reading Elem Env Pr Val) (hR : R.Sound) (P : Env → Prop)
    (parent : Option (List (Selector Elem))) (r : Rule) (hdead : r.isDeadSelectorRule = true) :
    EquivOn P (denoteRule R parent r) [] := by
  cases r with
  | sel sels body =>
    simp only [Rule.isDeadSelectorRule, Bool.and_eq_true, Bool.not_eq_true'] at hdead
    simp only [denoteRule]
    exact EquivOn.trans (equiv_flat_body R P _ body (plain_of_not_nested hdead.2))
      (silent_style_dead P _ _ (sels_dead R hR parent sels hdead.1)).equiv_nil
  | _ => simp [Rule.isDeadSelectorRule] at hdead

/-- The back-to-front pass keeps the sheet equivalent in front of any tail `t` that absorbs what was seen so far,
and what it has seen afterwards is absorbed by its own output followed by `t` (only entries that can be `Equal` to
something matter: an `@layer` rule is remembered but never found). -/
theorem removeDeadAux_spec (R : Reading Elem Env Pr Val) (hR : R.Sound) (P : Env → Prop)
    (parent : Option (List (Selector Elem))) (t : List (SRule Elem Env Pr Val)) :
    ∀ (rules seen : List Rule),
      (∀ s ∈ seen, ∀ r', ruleEq r' s = true → Absorbs R P parent t s) →
      EquivOn P (denoteRules R parent (removeDeadAux rules seen).1 ++ t) (denoteRules R parent rules ++ t) ∧
      ∀ s ∈ (removeDeadAux rules seen).2, ∀ r', ruleEq r' s = true →
        Absorbs R P parent (denoteRules R parent (removeDeadAux rules seen).1 ++ t) s := by
  intro rules
  induction rules with
  | nil =>
    intro seen hs
    simp only [removeDeadAux, denoteRules, List.nil_append]
    exact ⟨EquivOn.refl P t, hs⟩
  | cons r rest ih =>
    intro seen hs
    have ih := ih seen hs
    obtain ⟨ih1, ih2⟩ := ih
    simp only [removeDeadAux]
    generalize removeDeadAux rest seen = res at ih1 ih2 ⊢
    obtain ⟨kept, seen'⟩ := res
    simp only at ih1 ih2 ⊢
    have hcons : EquivOn P (denoteRule R parent r ++ (denoteRules R parent kept ++ t))
        (denoteRule R parent r ++ (denoteRules R parent rest ++ t)) :=
      EquivOn.append (EquivOn.refl P _) ih1
    split
    · -- dead selector rule
      rename_i hdead
      refine ⟨?_, ih2⟩
      simp only [denoteRules, List.append_assoc]
      refine EquivOn.trans ?_ hcons
      have := EquivOn.append (equiv_dead_rule R hR P parent r hdead)
        (EquivOn.refl P (denoteRules R parent kept ++ t))
      simpa using this.symm
    · split
      · split
        · -- a rule that is `Equal` was seen
          rename_i _ _ hany
          refine ⟨?_, ih2⟩
          rw [List.any_eq_true] at hany
          obtain ⟨s, hsmem, heq⟩ := hany
          have habs := (ih2 s hsmem r heq).equiv
          rw [← denoteRule_eq_of_ruleEq R hR r s parent heq] at habs
          simp only [denoteRules, List.append_assoc]
          exact EquivOn.trans habs.symm hcons
        · -- kept and remembered
          simp only [denoteRules, List.append_assoc]
          refine ⟨hcons, fun s hsmem r' heq => ?_⟩
          rcases List.mem_append.mp hsmem with h | h
          · exact (ih2 s h r' heq).append_left _
          · simp only [List.mem_singleton] at h
            subst h
            apply absorbs_head
            intro env ctx
            rw [← denoteRule_eq_of_ruleEq R hR r' s parent heq]
            exact declared_nil_of_ruleEq R r' s parent env ctx heq
      · -- no hash: kept, not remembered
        simp only [denoteRules, List.append_assoc]
        exact ⟨hcons, fun s hsmem r' heq => (ih2 s hsmem r' heq).append_left _⟩

theorem removeDead_equiv (R : Reading Elem Env Pr Val) (hR : R.Sound) (P : Env → Prop)
    (parent : Option (List (Selector Elem))) (rules : List Rule) :
    EquivOn P (denoteRules R parent (removeDead rules)) (denoteRules R parent rules) := by
  have := (removeDeadAux_spec R hR P parent [] rules [] (by simp)).1
  simpa [removeDead] using this

theorem denoteRules_append (R : Reading Elem Env Pr Val) (parent : Option (List (Selector Elem))) (a b : List Rule) :
    denoteRules R parent (a ++ b) = denoteRules R parent a ++ denoteRules R parent b := by
  induction a with
  | nil => simp [denoteRules]
  | cons r a ih => simp [denoteRules, ih]

/-- the linker's pass over the files of a chunk, last file first, with one remover -/
theorem linkFilesAux_spec (R : Reading Elem Env Pr Val) (hR : R.Sound) (P : Env → Prop)
    (t : List (SRule Elem Env Pr Val)) :
    ∀ (files : List (List Rule)) (seen : List Rule),
      (∀ s ∈ seen, ∀ r', ruleEq r' s = true → Absorbs R P none t s) →
      EquivOn P (denoteRules R none (linkFilesAux files seen).1.flatten ++ t) (denoteRules R none files.flatten ++ t) ∧
      ∀ s ∈ (linkFilesAux files seen).2, ∀ r', ruleEq r' s = true →
        Absorbs R P none (denoteRules R none (linkFilesAux files seen).1.flatten ++ t) s := by
  intro files
  induction files with
  | nil =>
    intro seen hs
    simp only [linkFilesAux, List.flatten_nil, denoteRules, List.nil_append]
    exact ⟨EquivOn.refl P t, hs⟩
  | cons f fs ih =>
    intro seen hs
    obtain ⟨ih1, ih2⟩ := ih seen hs
    simp only [linkFilesAux]
    generalize linkFilesAux fs seen = res at ih1 ih2 ⊢
    obtain ⟨outs, seen'⟩ := res
    simp only at ih1 ih2 ⊢
    obtain ⟨h1, h2⟩ := removeDeadAux_spec R hR P none (denoteRules R none outs.flatten ++ t) f seen' ih2
    generalize removeDeadAux f seen' = res2 at h1 h2 ⊢
    obtain ⟨kept, seen''⟩ := res2
    simp only [List.flatten_cons, denoteRules_append, List.append_assoc] at h1 h2 ⊢
    exact ⟨EquivOn.trans h1 (EquivOn.append (EquivOn.refl P _) ih1), h2⟩

theorem linkFiles_equiv (R : Reading Elem Env Pr Val) (hR : R.Sound) (P : Env → Prop) (files : List (List Rule)) :
    EquivOn P (denoteSheet R (linkFiles files)) (denoteSheet R files) := by
  have := (linkFilesAux_spec R hR P [] files [] (by simp)).1
  simpa [linkFiles, denoteSheet] using this

/-! ### `mangleRules`: the state -/

theorem MState.out_push (s : MState) (r : Rule) : (s.push r).out = s.out ++ [r] := by
  unfold MState.push MState.out
  split <;> simp

theorem MState.trail_push (s : MState) (r : Rule) (h : s.trail.all Rule.isComment = true) :
    (s.push r).trail.all Rule.isComment = true := by
  unfold MState.push
  split
  · rename_i hc; simp [h, hc]
  · simp

theorem MState.foldl_push (body : List Rule) : ∀ (s : MState), s.trail.all Rule.isComment = true →
    (body.foldl MState.push s).out = s.out ++ body ∧ (body.foldl MState.push s).trail.all Rule.isComment = true := by
  induction body with
  | nil => intro s h; simp [h]
  | cons r rest ih =>
    intro s h
    simp only [List.foldl_cons]
    obtain ⟨h1, h2⟩ := ih (s.push r) (s.trail_push r h)
    rw [h1, MState.out_push]
    exact ⟨by simp, h2⟩

theorem equiv_comments (R : Reading Elem Env Pr Val) (P : Env → Prop) (parent : Option (List (Selector Elem))) :
    ∀ (l : List Rule), l.all Rule.isComment = true → EquivOn P (denoteRules R parent l) [] := by
  intro l h
  induction l with
  | nil => exact EquivOn.refl P _
  | cons r rest ih =>
    simp only [List.all_cons, Bool.and_eq_true] at h
    cases r with
    | comment t =>
      simp only [denoteRules, denoteRule]
      exact EquivOn.append (silent_inert P).equiv_nil (ih h.2)
    | _ => simp [Rule.isComment] at h

/-! ### merging selector lists -/

theorem mem_map_mergeSelectors {α : Type} (f : Complex → α) (hf : ∀ c c', complexEq c c' = true → f c = f c') :
    ∀ (b a : List Complex) (x : α), x ∈ (mergeSelectors a b).map f ↔ x ∈ a.map f ∨ x ∈ b.map f := by
  intro b
  induction b with
  | nil => intro a x; simp [mergeSelectors]
  | cons s rest ih =>
    intro a x
    simp only [mergeSelectors]
    split
    · rename_i hany
      rw [List.any_eq_true] at hany
      obtain ⟨c, hc, heq⟩ := hany
      rw [ih a x]
      simp only [List.map_cons, List.mem_cons]
      constructor
      · rintro (h | h)
        · exact Or.inl h
        · exact Or.inr (Or.inr h)
      · rintro (h | h | h)
        · exact Or.inl h
        · left; rw [h, hf s c heq]; exact List.mem_map_of_mem hc
        · exact Or.inr h
    · rw [ih (a ++ [s]) x]
      simp only [List.map_append, List.map_cons, List.map_nil, List.mem_append, List.mem_cons, List.not_mem_nil,
        or_false]
      constructor
      · rintro ((h | h) | h)
        · exact Or.inl h
        · exact Or.inr (Or.inl h)
        · exact Or.inr (Or.inr h)
      · rintro (h | h | h)
        · exact Or.inl (Or.inl h)
        · exact Or.inl (Or.inr h)
        · exact Or.inr h

theorem dedupSelectorsAux_eq_mergeSelectors : ∀ (sels kept : List Complex),
    dedupSelectorsAux kept sels = mergeSelectors kept sels := by
  intro sels
  induction sels with
  | nil => intro kept; rfl
  | cons s rest ih =>
    intro kept
    simp only [dedupSelectorsAux, mergeSelectors, ih]

theorem mem_sels_mergeSelectors (R : Reading Elem Env Pr Val) (hR : R.Sound) (parent : Option (List (Selector Elem)))
    (a b : List Complex) (x : Selector Elem) :
    x ∈ R.sels parent (mergeSelectors a b) ↔ x ∈ R.sels parent a ∨ x ∈ R.sels parent b := by
  cases parent with
  | none => exact mem_map_mergeSelectors R.sel hR.sel_eq b a x
  | some S => exact mem_map_mergeSelectors (R.nest S) (hR.nest_eq S) b a x

theorem mem_sels_dedupSelectors (R : Reading Elem Env Pr Val) (hR : R.Sound) (parent : Option (List (Selector Elem)))
    (sels : List Complex) (x : Selector Elem) :
    x ∈ R.sels parent (dedupSelectors sels) ↔ x ∈ R.sels parent sels := by
  unfold dedupSelectors
  rw [dedupSelectorsAux_eq_mergeSelectors, mem_sels_mergeSelectors R hR]
  cases parent <;> simp [Reading.sels]

/-- safe selector lists are understood, or – below a parent list that is not understood – uniformly not -/
theorem sels_uniform (R : Reading Elem Env Pr Val) (hR : R.Sound) (parent : Option (List (Selector Elem)))
    (a b : List Complex) (ha : isSafeSelectors a = true) (hb : isSafeSelectors b = true) :
    (∀ x ∈ R.sels parent a ++ R.sels parent b, x.understood = true) ∨
      (∀ x ∈ R.sels parent a ++ R.sels parent b, x.understood = false) := by
  unfold isSafeSelectors at ha hb
  rw [List.all_eq_true] at ha hb
  cases parent with
  | none =>
    left
    intro x hx
    simp only [Reading.sels, List.mem_append, List.mem_map] at hx
    rcases hx with ⟨c, hc, rfl⟩ | ⟨c, hc, rfl⟩
    · exact hR.safe_sel c (ha c hc)
    · exact hR.safe_sel c (hb c hc)
  | some S =>
    cases hS : S.all (·.understood)
    · right
      intro x hx
      simp only [Reading.sels, List.mem_append, List.mem_map] at hx
      rcases hx with ⟨c, hc, rfl⟩ | ⟨c, hc, rfl⟩
      · rw [hR.safe_nest S c (ha c hc), hS]
      · rw [hR.safe_nest S c (hb c hc), hS]
    · left
      intro x hx
      simp only [Reading.sels, List.mem_append, List.mem_map] at hx
      rcases hx with ⟨c, hc, rfl⟩ | ⟨c, hc, rfl⟩
      · rw [hR.safe_nest S c (ha c hc), hS]
      · rw [hR.safe_nest S c (hb c hc), hS]

/-- `a{B} b{B'}` (bodies `RulesEqual`, declarations only, both lists safe) reads like `a,b{B}` -/
theorem equiv_merge_rules (R : Reading Elem Env Pr Val) (hR : R.Sound) (P : Env → Prop)
    (parent : Option (List (Selector Elem))) (prevSels sels : List Complex) (prevBody body : List Rule)
    (heq : rulesEq body prevBody = true) (hflat : body.all Rule.isPlain = true)
    (h1 : isSafeSelectors sels = true) (h2 : isSafeSelectors prevSels = true) :
    EquivOn P (denoteRule R parent (.sel prevSels prevBody) ++ denoteRule R parent (.sel sels body))
      (denoteRule R parent (.sel (mergeSelectors prevSels sels) prevBody)) := by
  have hflat' := isPlain_of_rulesEq body prevBody heq hflat
  have hdecls := declsOf_eq_of_rulesEq R body prevBody heq hflat
  simp only [denoteRule]
  refine EquivOn.trans (EquivOn.append (equiv_flat_body R P _ prevBody hflat') (equiv_flat_body R P _ body hflat)) ?_
  refine EquivOn.trans ?_ (equiv_flat_body R P _ prevBody hflat').symm
  rw [hdecls]
  exact equiv_merge P _ _ _ _ (sels_uniform R hR parent prevSels sels h2 h1)
    (fun x => mem_sels_mergeSelectors R hR parent prevSels sels x)

/-! ### one iteration of `mangleRules` -/

theorem layerName_append (a b : List String) : layerName (a ++ b) = layerName a ++ layerName b := by
  simp [layerName]

/-- pushing a rule that reads like `r` -/
theorem push_spec (R : Reading Elem Env Pr Val) (P : Env → Prop) (parent : Option (List (Selector Elem)))
    (s : MState) (hwf : s.trail.all Rule.isComment = true) (r r' : Rule)
    (h : EquivOn P (denoteRule R parent r') (denoteRule R parent r)) :
    (s.push r').trail.all Rule.isComment = true ∧
      EquivOn P (denoteRules R parent (s.push r').out) (denoteRules R parent s.out ++ denoteRule R parent r) := by
  refine ⟨s.trail_push r' hwf, ?_⟩
  rw [MState.out_push, denoteRules_append]
  refine EquivOn.append (EquivOn.refl P _) ?_
  simpa [denoteRules] using h

/-- dropping a rule that reads like nothing -/
theorem drop_spec (R : Reading Elem Env Pr Val) (P : Env → Prop) (parent : Option (List (Selector Elem)))
    (s : MState) (r : Rule) (h : EquivOn P (denoteRule R parent r) []) :
    EquivOn P (denoteRules R parent s.out) (denoteRules R parent s.out ++ denoteRule R parent r) := by
  have := EquivOn.append (EquivOn.refl P (denoteRules R parent s.out)) h.symm
  simpa using this

theorem mangleStep_spec (R : Reading Elem Env Pr Val) (hR : R.Sound) (P : Env → Prop)
    (parent : Option (List (Selector Elem))) (enc : List String)
    (hP : ∀ env, P env → ∀ q ∈ enc, R.media q env = true)
    (s : MState) (hwf : s.trail.all Rule.isComment = true) (r : Rule) :
    (mangleStep enc s r).trail.all Rule.isComment = true ∧
      EquivOn P (denoteRules R parent (mangleStep enc s r).out)
        (denoteRules R parent s.out ++ denoteRule R parent r) := by
  cases r with
  | layerBlock names anon body =>
    simp only [mangleStep]
    split
    · -- empty named layer block → statement
      rename_i hc
      simp only [Bool.and_eq_true, List.isEmpty_iff, Bool.not_eq_true'] at hc
      obtain ⟨rfl, hn⟩ := hc
      apply push_spec R P parent s hwf
      simp only [denoteRule]
      match names, hn with
      | [n], _ => exact (equiv_layer_empty P (layerName n)).symm
      | _ :: _ :: _, _ => exact EquivOn.refl P _
    · split
      · -- `@layer a { @layer b { … } }` → `@layer a.b { … }`
        apply push_spec R P parent s hwf
        simp only [denoteRule, denoteRules, List.append_nil, layerName_append]
        exact (equiv_layer_collapse P _ _ _).symm
      · -- `@layer a { @layer b; }` → `@layer a.b;`
        apply push_spec R P parent s hwf
        simp only [denoteRule, denoteRules, List.append_nil, layerName_append, List.map_cons, List.map_nil]
        exact (equiv_layer_collapse_stmt P _ _).symm
      · exact push_spec R P parent s hwf _ _ (EquivOn.refl P _)
  | layerStmt names => exact push_spec R P parent s hwf _ _ (EquivOn.refl P _)
  | known tok prelude body =>
    simp only [mangleStep]
    split
    · rename_i hc
      simp only [Bool.and_eq_true, List.isEmpty_iff] at hc
      obtain ⟨rfl, _⟩ := hc
      refine ⟨hwf, drop_spec R P parent s _ ?_⟩
      simp only [denoteRule, denoteRules]
      split
      · exact (silent_group_nil P _).equiv_nil
      · exact (silent_inert P).equiv_nil
    · exact push_spec R P parent s hwf _ _ (EquivOn.refl P _)
  | media q body =>
    simp only [mangleStep]
    split
    · rename_i hc
      simp only [List.isEmpty_iff] at hc
      subst hc
      refine ⟨hwf, drop_spec R P parent s _ ?_⟩
      simp only [denoteRule, denoteRules]
      exact (silent_group_nil P _).equiv_nil
    · split
      · -- the same queries as an enclosing @media: unwrap
        rename_i _ hany
        rw [List.any_eq_true] at hany
        obtain ⟨q', hq', heq⟩ := hany
        have : q = q' := by simpa using heq
        subst this
        obtain ⟨h1, h2⟩ := MState.foldl_push body s hwf
        refine ⟨h2, ?_⟩
        rw [h1, denoteRules_append]
        refine EquivOn.append (EquivOn.refl P _) ?_
        simp only [denoteRule]
        exact (equiv_unwrap (R.media q) _ (fun env hp => hP env hp q hq')).symm
      · exact push_spec R P parent s hwf _ _ (EquivOn.refl P _)
  | sel sels body =>
    simp only [mangleStep]
    split
    · rename_i hc
      simp only [List.isEmpty_iff] at hc
      subst hc
      refine ⟨hwf, drop_spec R P parent s _ ?_⟩
      simp only [denoteRule, denoteRules]
      exact EquivOn.refl P _
    · split
      · rename_i prevSels prevBody hprev
        split
        · -- merge into the previous rule
          rename_i hc
          simp only [Bool.and_eq_true, Bool.not_eq_true'] at hc
          obtain ⟨⟨⟨heq, hs1⟩, hs2⟩, hnn⟩ := hc
          have hb : body.all Rule.isPlain = true := plain_of_not_nested hnn
          refine ⟨hwf, ?_⟩
          simp only [MState.out, hprev, Option.toList_some, denoteRules_append, List.append_assoc]
          refine EquivOn.append (EquivOn.refl P _) ?_
          have hm := equiv_merge_rules R hR P parent prevSels sels prevBody body heq hb hs1 hs2
          have htrail := equiv_comments R P parent s.trail hwf
          -- prev ++ trail ++ r  ≈  prev ++ r  ≈  merged  ≈  merged ++ trail
          have e1 : EquivOn P (denoteRules R parent [Rule.sel prevSels prevBody] ++
              (denoteRules R parent s.trail ++ denoteRule R parent (.sel sels body)))
              (denoteRule R parent (.sel prevSels prevBody) ++ denoteRule R parent (.sel sels body)) := by
            have := EquivOn.append (EquivOn.refl P (denoteRules R parent [Rule.sel prevSels prevBody]))
              (EquivOn.append htrail (EquivOn.refl P (denoteRule R parent (.sel sels body))))
            simpa [denoteRules] using this
          have e2 : EquivOn P (denoteRules R parent [Rule.sel (mergeSelectors prevSels sels) prevBody] ++
              denoteRules R parent s.trail)
              (denoteRule R parent (.sel (mergeSelectors prevSels sels) prevBody)) := by
            have := EquivOn.append
              (EquivOn.refl P (denoteRules R parent [Rule.sel (mergeSelectors prevSels sels) prevBody])) htrail
            simpa [denoteRules] using this
          exact EquivOn.trans e2 (EquivOn.trans hm.symm e1.symm)
        · exact push_spec R P parent s hwf _ _ (EquivOn.refl P _)
      · exact push_spec R P parent s hwf _ _ (EquivOn.refl P _)
  | decl k v i => exact push_spec R P parent s hwf _ _ (EquivOn.refl P _)
  | other k p b => exact push_spec R P parent s hwf _ _ (EquivOn.refl P _)
  | keyframes t => exact push_spec R P parent s hwf _ _ (EquivOn.refl P _)
  | badDecl t => exact push_spec R P parent s hwf _ _ (EquivOn.refl P _)
  | atom t => exact push_spec R P parent s hwf _ _ (EquivOn.refl P _)
  | comment t => exact push_spec R P parent s hwf _ _ (EquivOn.refl P _)
  | atImport t => exact push_spec R P parent s hwf _ _ (EquivOn.refl P _)

/-! ### `mangleRules` as a whole -/

theorem foldl_mangleStep_spec (R : Reading Elem Env Pr Val) (hR : R.Sound) (P : Env → Prop)
    (parent : Option (List (Selector Elem))) (enc : List String)
    (hP : ∀ env, P env → ∀ q ∈ enc, R.media q env = true) :
    ∀ (rules : List Rule) (s : MState), s.trail.all Rule.isComment = true →
      (rules.foldl (mangleStep enc) s).trail.all Rule.isComment = true ∧
      EquivOn P (denoteRules R parent (rules.foldl (mangleStep enc) s).out)
        (denoteRules R parent s.out ++ denoteRules R parent rules) := by
  intro rules
  induction rules with
  | nil =>
    intro s hwf
    simp only [List.foldl_nil, denoteRules, List.append_nil]
    exact ⟨hwf, EquivOn.refl P _⟩
  | cons r rest ih =>
    intro s hwf
    obtain ⟨h1, h2⟩ := mangleStep_spec R hR P parent enc hP s hwf r
    obtain ⟨i1, i3⟩ := ih (mangleStep enc s r) h1
    simp only [List.foldl_cons]
    refine ⟨i1, EquivOn.trans i3 ?_⟩
    simp only [denoteRules, ← List.append_assoc]
    exact EquivOn.append h2 (EquivOn.refl P _)

/-- `mangleRules` keeps the rule list observationally equivalent in every environment in which the enclosing
`@media` queries hold – for EVERY rule list, with no side condition -/
theorem mangleRules_spec (R : Reading Elem Env Pr Val) (hR : R.Sound) (P : Env → Prop)
    (parent : Option (List (Selector Elem))) (enc : List String)
    (hP : ∀ env, P env → ∀ q ∈ enc, R.media q env = true) (isTopLevel : Bool) (rules : List Rule) :
    EquivOn P (denoteRules R parent (mangleRules enc isTopLevel rules)) (denoteRules R parent rules) := by
  obtain ⟨_, h3⟩ := foldl_mangleStep_spec R hR P parent enc hP rules {} (by simp)
  have h3' : EquivOn P (denoteRules R parent (rules.foldl (mangleStep enc) {}).out) (denoteRules R parent rules) := by
    simpa [MState.out, denoteRules] using h3
  unfold mangleRules
  cases isTopLevel
  · simp only [Bool.false_eq_true, if_false]
    exact EquivOn.trans (removeDead_equiv R hR P parent _) h3'
  · simp only [if_true]
    exact h3'

/-! ### the parent selector list only matters as a set -/

theorem sels_parent_congr (R : Reading Elem Env Pr Val) (hR : R.Sound) (S S' : List (Selector Elem))
    (h : ∀ x, x ∈ S ↔ x ∈ S') (cs : List Complex) : R.sels (some S) cs = R.sels (some S') cs := by
  simp only [Reading.sels]
  exact List.map_congr_left (fun c _ => hR.nest_parent S S' c h)

mutual
theorem denoteRule_parent_congr (R : Reading Elem Env Pr Val) (hR : R.Sound) :
    ∀ (r : Rule) (P : Env → Prop) (S S' : List (Selector Elem)), (∀ x, x ∈ S ↔ x ∈ S') →
      EquivOn P (denoteRule R (some S) r) (denoteRule R (some S') r) := by
  intro r P S S' h
  cases r with
  | sel cs b =>
    simp only [denoteRule]
    rw [sels_parent_congr R hR S S' h]
    exact EquivOn.refl P _
  | decl k v i =>
    simp only [denoteRule]
    exact equiv_style_congr P S S' _ h
  | media q b =>
    simp only [denoteRule]
    exact EquivOn.group _ (denoteRules_parent_congr R hR b _ S S' h)
  | layerStmt n => exact EquivOn.refl P _
  | layerBlock names a b =>
    simp only [denoteRule]
    split
    · exact EquivOn.layerBlock _ (denoteRules_parent_congr R hR b _ S S' h)
    · exact EquivOn.layerBlock _ (denoteRules_parent_congr R hR b _ S S' h)
    · exact EquivOn.refl P _
  | known t p b =>
    simp only [denoteRule]
    split
    · exact EquivOn.group _ (denoteRules_parent_congr R hR b _ S S' h)
    · exact EquivOn.refl P _
  | other k p b => exact EquivOn.refl P _
  | keyframes t => exact EquivOn.refl P _
  | badDecl t => exact EquivOn.refl P _
  | atom t => exact EquivOn.refl P _
  | comment t => exact EquivOn.refl P _
  | atImport t => exact EquivOn.refl P _
theorem denoteRules_parent_congr (R : Reading Elem Env Pr Val) (hR : R.Sound) :
    ∀ (b : List Rule) (P : Env → Prop) (S S' : List (Selector Elem)), (∀ x, x ∈ S ↔ x ∈ S') →
      EquivOn P (denoteRules R (some S) b) (denoteRules R (some S') b) := by
  intro b P S S' h
  cases b with
  | nil => exact EquivOn.refl P _
  | cons x xs =>
    simp only [denoteRules]
    exact EquivOn.append (denoteRule_parent_congr R hR x P S S' h) (denoteRules_parent_congr R hR xs P S S' h)
end

/-! ### the parser applies `mangleRules` bottom-up -/

mutual
theorem mangleChild_spec (R : Reading Elem Env Pr Val) (hR : R.Sound) :
    ∀ (r : Rule) (P : Env → Prop) (parent : Option (List (Selector Elem))) (enc : List String),
      (∀ env, P env → ∀ q ∈ enc, R.media q env = true) →
      EquivOn P (denoteRule R parent (mangleChild enc r)) (denoteRule R parent r) := by
  intro r P parent enc hP
  cases r with
  | sel sels body =>
    have c2 := mangleChildren_spec R hR body P (some (R.sels parent (dedupSelectors sels))) enc hP
    have m2 := mangleRules_spec R hR P (some (R.sels parent (dedupSelectors sels))) enc hP false
      (mangleChildren enc body)
    simp only [mangleChild, denoteRule]
    exact EquivOn.trans (EquivOn.trans m2 c2) (denoteRules_parent_congr R hR body P _ _
      (fun x => mem_sels_dedupSelectors R hR parent sels x))
  | media q body =>
    have hP' : ∀ env, (P env ∧ R.media q env = true) → ∀ q' ∈ enc ++ [q], R.media q' env = true := by
      intro env hp q' hq'
      rcases List.mem_append.mp hq' with h | h
      · exact hP env hp.1 q' h
      · simp at h; subst h; exact hp.2
    have c2 := mangleChildren_spec R hR body _ parent (enc ++ [q]) hP'
    have m2 := mangleRules_spec R hR _ parent (enc ++ [q]) hP' false (mangleChildren (enc ++ [q]) body)
    simp only [mangleChild, denoteRule]
    exact EquivOn.group _ (EquivOn.trans m2 c2)
  | layerBlock names anon body =>
    have c2 := mangleChildren_spec R hR body P parent enc hP
    have m2 := mangleRules_spec R hR P parent enc hP false (mangleChildren enc body)
    simp only [mangleChild, denoteRule]
    split
    · exact EquivOn.layerBlock _ (EquivOn.trans m2 c2)
    · exact EquivOn.layerBlock _ (EquivOn.trans m2 c2)
    · exact EquivOn.refl P _
  | known tok prelude body =>
    simp only [mangleChild, denoteRule]
    split
    · rename_i cond _
      have hP' : ∀ env, (P env ∧ cond env = true) → ∀ q' ∈ enc, R.media q' env = true :=
        fun env hp q' hq' => hP env hp.1 q' hq'
      have c2 := mangleChildren_spec R hR body _ parent enc hP'
      have m2 := mangleRules_spec R hR _ parent enc hP' false (mangleChildren enc body)
      exact EquivOn.group _ (EquivOn.trans m2 c2)
    · exact EquivOn.refl P _
  | other kind prelude body =>
    simp only [mangleChild, denoteRule]
    exact EquivOn.refl P _
  | layerStmt n => exact EquivOn.refl P _
  | decl k v i => exact EquivOn.refl P _
  | keyframes t => exact EquivOn.refl P _
  | badDecl t => exact EquivOn.refl P _
  | atom t => exact EquivOn.refl P _
  | comment t => exact EquivOn.refl P _
  | atImport t => exact EquivOn.refl P _
theorem mangleChildren_spec (R : Reading Elem Env Pr Val) (hR : R.Sound) :
    ∀ (rs : List Rule) (P : Env → Prop) (parent : Option (List (Selector Elem))) (enc : List String),
      (∀ env, P env → ∀ q ∈ enc, R.media q env = true) →
      EquivOn P (denoteRules R parent (mangleChildren enc rs)) (denoteRules R parent rs) := by
  intro rs P parent enc hP
  cases rs with
  | nil => exact EquivOn.refl P _
  | cons x xs =>
    simp only [mangleChildren, denoteRules]
    exact EquivOn.append (mangleChild_spec R hR x P parent enc hP) (mangleChildren_spec R hR xs P parent enc hP)
end

end EsbuildModel.CssRules
