/-
Lemmas that connect the model Impl/CssRules.lean with the specification through the reading
Impl/CssRulesDenote.lean: rules the code calls `Equal` read the same; each step of `mangleRules`, the back-to-front
duplicate removal and the bottom-up application by the parser keep the sheet observationally equivalent
(`EquivOn`, Lemmas/RuleCascade.lean).
-/
import EsbuildModel.Impl.CssRulesDenote
import EsbuildModel.Lemmas.RuleCascade

namespace EsbuildModel.CssRules

open EsbuildModel.Spec.RuleCascade

variable {Elem Env Pr Val : Type}

/-! ### rules that are `Equal` read the same and declare no layer -/

theorem sels_eq_of_complexesEq (R : Reading Elem Env Pr Val) (hR : R.Sound) (parent : Option (List (Selector Elem))) :
    ∀ (s s' : List Complex), complexesEq s s' = true → R.sels parent s = R.sels parent s'
  | [], [], _ => rfl
  | [], _ :: _, h => by simp [complexesEq] at h
  | _ :: _, [], h => by simp [complexesEq] at h
  | a :: as, b :: bs, h => by
    simp only [complexesEq, Bool.and_eq_true] at h
    have ih := sels_eq_of_complexesEq R hR parent as bs h.2
    cases parent with
    | none =>
      simp only [Reading.sels, List.map_cons] at ih ⊢
      rw [hR.sel_eq a b h.1, ih]
    | some S =>
      simp only [Reading.sels, List.map_cons] at ih ⊢
      rw [hR.nest_eq S a b h.1, ih]

mutual
theorem denoteRule_eq_of_ruleEq (R : Reading Elem Env Pr Val) (hR : R.Sound) :
    ∀ (r r' : Rule) (parent : Option (List (Selector Elem))), ruleEq r r' = true →
      denoteRule R parent r = denoteRule R parent r' := by
  intro r r' parent h
  cases r with
  | sel s b =>
    cases r' with
    | sel s' b' =>
      simp only [ruleEq, Bool.and_eq_true] at h
      simp only [denoteRule]
      rw [sels_eq_of_complexesEq R hR parent s s' h.1]
      exact denoteRules_eq_of_rulesEq R hR b b' _ h.2
    | _ => simp [ruleEq] at h
  | decl k v i =>
    cases r' with
    | decl k' v' i' =>
      simp only [ruleEq, Bool.and_eq_true, beq_iff_eq] at h
      obtain ⟨⟨rfl, rfl⟩, rfl⟩ := h
      rfl
    | _ => simp [ruleEq] at h
  | media q b =>
    cases r' with
    | media q' b' =>
      simp only [ruleEq, Bool.and_eq_true, beq_iff_eq] at h
      obtain ⟨rfl, hb⟩ := h
      simp only [denoteRule]
      rw [denoteRules_eq_of_rulesEq R hR b b' _ hb]
    | _ => simp [ruleEq] at h
  | layerStmt n => simp [ruleEq] at h
  | layerBlock n a b => simp [ruleEq] at h
  | known t p b =>
    cases r' with
    | known t' p' b' =>
      simp only [ruleEq, Bool.and_eq_true, beq_iff_eq] at h
      obtain ⟨⟨⟨_, ht⟩, rfl⟩, hb⟩ := h
      simp only [denoteRule]
      rw [hR.group_eq t t' p ht, denoteRules_eq_of_rulesEq R hR b b' _ hb]
    | _ => simp [ruleEq] at h
  | other k p b =>
    cases r' with
    | other k' p' b' => rfl
    | _ => simp [ruleEq] at h
  | keyframes t =>
    cases r' with
    | keyframes t' => rfl
    | _ => simp [ruleEq] at h
  | atom t =>
    cases r' with
    | atom t' => rfl
    | _ => simp [ruleEq] at h
  | comment t =>
    cases r' with
    | comment t' => rfl
    | _ => simp [ruleEq] at h
  | atImport t => simp [ruleEq] at h
theorem denoteRules_eq_of_rulesEq (R : Reading Elem Env Pr Val) (hR : R.Sound) :
    ∀ (b b' : List Rule) (parent : Option (List (Selector Elem))), rulesEq b b' = true →
      denoteRules R parent b = denoteRules R parent b' := by
  intro b b' parent h
  cases b with
  | nil =>
    cases b' with
    | nil => rfl
    | cons _ _ => simp [rulesEq] at h
  | cons x xs =>
    cases b' with
    | nil => simp [rulesEq] at h
    | cons y ys =>
      simp only [rulesEq, Bool.and_eq_true] at h
      simp only [denoteRules]
      rw [denoteRule_eq_of_ruleEq R hR x y parent h.1, denoteRules_eq_of_rulesEq R hR xs ys parent h.2]
end

mutual
theorem declared_nil_of_ruleEq (R : Reading Elem Env Pr Val) :
    ∀ (r r' : Rule) (parent : Option (List (Selector Elem))) (env : Env) (ctx : LayerPath), ruleEq r r' = true →
      declaredRules env ctx (denoteRule R parent r) = [] := by
  intro r r' parent env ctx h
  cases r with
  | sel s b =>
    cases r' with
    | sel s' b' =>
      simp only [ruleEq, Bool.and_eq_true] at h
      simp only [denoteRule]
      exact declared_nil_of_rulesEq R b b' _ env ctx h.2
    | _ => simp [ruleEq] at h
  | decl k v i =>
    cases parent <;> simp [denoteRule, declaredRule]
  | media q b =>
    cases r' with
    | media q' b' =>
      simp only [ruleEq, Bool.and_eq_true] at h
      simp only [denoteRule, declaredRules_singleton, declaredRule]
      split
      · exact declared_nil_of_rulesEq R b b' _ env ctx h.2
      · rfl
    | _ => simp [ruleEq] at h
  | layerStmt n => simp [ruleEq] at h
  | layerBlock n a b => simp [ruleEq] at h
  | known t p b =>
    cases r' with
    | known t' p' b' =>
      simp only [ruleEq, Bool.and_eq_true] at h
      simp only [denoteRule]
      split
      · simp only [declaredRules_singleton, declaredRule]
        split
        · exact declared_nil_of_rulesEq R b b' _ env ctx h.2
        · rfl
      · simp [declaredRule]
    | _ => simp [ruleEq] at h
  | other k p b => simp [denoteRule, declaredRule]
  | keyframes t => simp [denoteRule, declaredRule]
  | atom t => simp [denoteRule, declaredRule]
  | comment t => simp [denoteRule, declaredRule]
  | atImport t => simp [ruleEq] at h
theorem declared_nil_of_rulesEq (R : Reading Elem Env Pr Val) :
    ∀ (b b' : List Rule) (parent : Option (List (Selector Elem))) (env : Env) (ctx : LayerPath), rulesEq b b' = true →
      declaredRules env ctx (denoteRules R parent b) = [] := by
  intro b b' parent env ctx h
  cases b with
  | nil => simp [denoteRules, declaredRules]
  | cons x xs =>
    cases b' with
    | nil => simp [rulesEq] at h
    | cons y ys =>
      simp only [rulesEq, Bool.and_eq_true] at h
      simp only [denoteRules, declaredRules_append]
      rw [declared_nil_of_ruleEq R x y parent env ctx h.1, declared_nil_of_rulesEq R xs ys parent env ctx h.2]
      rfl
end

/-! ### bodies that consist of declarations only -/

/-- the declarations of a body, read -/
def declsOf (R : Reading Elem Env Pr Val) : List Rule → List (Decl Pr Val)
  | [] => []
  | .decl k v i :: rest => ⟨R.decl k v, i⟩ :: declsOf R rest
  | _ :: rest => declsOf R rest

/-- a body of declarations under the selector list `S` is one style rule -/
theorem equiv_flat_body (R : Reading Elem Env Pr Val) (P : Env → Prop) (S : List (Selector Elem)) :
    ∀ (body : List Rule), body.all Rule.isDeclOrComment = true →
      EquivOn P (denoteRules R (some S) body) [.style S (declsOf R body)] := by
  intro body hb
  induction body with
  | nil =>
    simp only [denoteRules, declsOf]
    exact (silent_style_nil P S).equiv_nil.symm
  | cons r rest ih =>
    simp only [List.all_cons, Bool.and_eq_true] at hb
    have ih := ih hb.2
    cases r with
    | decl k v i =>
      simp only [denoteRules, denoteRule, declsOf]
      refine EquivOn.trans (EquivOn.append (EquivOn.refl P _) ih) ?_
      intro env _ ctx
      refine ⟨by simp [declaredRules, declaredRule], fun strength e p => ?_⟩
      simp only [List.singleton_append, candsRules, List.append_nil, candsRule]
      split
      · split
        · rw [← List.filterMap_append]; rfl
        · rfl
      · simp
    | comment t =>
      simp only [denoteRules, denoteRule, declsOf]
      exact EquivOn.trans (EquivOn.append (silent_inert P).equiv_nil (EquivOn.refl P _)) ih
    | _ => simp [Rule.isDeclOrComment] at hb

theorem isDeclOrComment_of_rulesEq : ∀ (b b' : List Rule), rulesEq b b' = true →
    b.all Rule.isDeclOrComment = true → b'.all Rule.isDeclOrComment = true
  | [], [], _, _ => rfl
  | [], _ :: _, h, _ => by simp [rulesEq] at h
  | _ :: _, [], h, _ => by simp [rulesEq] at h
  | x :: xs, y :: ys, h, hb => by
    simp only [rulesEq, Bool.and_eq_true] at h
    simp only [List.all_cons, Bool.and_eq_true] at hb ⊢
    refine ⟨?_, isDeclOrComment_of_rulesEq xs ys h.2 hb.2⟩
    cases x <;> cases y <;> simp [ruleEq, Rule.isDeclOrComment] at h hb ⊢

theorem declsOf_eq_of_rulesEq (R : Reading Elem Env Pr Val) : ∀ (b b' : List Rule), rulesEq b b' = true →
    b.all Rule.isDeclOrComment = true → declsOf R b = declsOf R b'
  | [], [], _, _ => rfl
  | [], _ :: _, h, _ => by simp [rulesEq] at h
  | _ :: _, [], h, _ => by simp [rulesEq] at h
  | x :: xs, y :: ys, h, hb => by
    simp only [rulesEq, Bool.and_eq_true] at h
    simp only [List.all_cons, Bool.and_eq_true] at hb
    have ih := declsOf_eq_of_rulesEq R xs ys h.2 hb.2
    cases x <;> cases y <;> simp [ruleEq, Rule.isDeclOrComment] at h hb <;> simp [declsOf, ih]
    simp [h]

/-! ### `RemoveDeadRulesInPlace` -/

/-- the rules `t` that follow make the (layer-free) rule `s` redundant -/
def Absorbs (R : Reading Elem Env Pr Val) (P : Env → Prop) (parent : Option (List (Selector Elem)))
    (t : List (SRule Elem Env Pr Val)) (s : Rule) : Prop :=
  ∀ env, P env → ∀ ctx, declaredRules env ctx (denoteRule R parent s) = [] ∧
    ∀ strength e p, Dominates (best strength (candsRules env e p ctx t))
      (best strength (candsRules env e p ctx (denoteRule R parent s)))

theorem Absorbs.append_left {R : Reading Elem Env Pr Val} {P : Env → Prop} {parent : Option (List (Selector Elem))}
    {t : List (SRule Elem Env Pr Val)} {s : Rule} (h : Absorbs R P parent t s) (a : List (SRule Elem Env Pr Val)) :
    Absorbs R P parent (a ++ t) s :=
  fun env hp ctx => ⟨(h env hp ctx).1, fun st e p => dominates_append_left env e p ctx st a t ((h env hp ctx).2 st e p)⟩

theorem absorbs_head (R : Reading Elem Env Pr Val) (P : Env → Prop) (parent : Option (List (Selector Elem)))
    (t : List (SRule Elem Env Pr Val)) (s : Rule)
    (hd : ∀ env ctx, declaredRules env ctx (denoteRule R parent s) = []) :
    Absorbs R P parent (denoteRule R parent s ++ t) s :=
  fun env _ ctx => ⟨hd env ctx, fun st e p => dominates_prefix env e p ctx st _ t⟩

theorem Absorbs.equiv {R : Reading Elem Env Pr Val} {P : Env → Prop} {parent : Option (List (Selector Elem))}
    {t : List (SRule Elem Env Pr Val)} {s : Rule} (h : Absorbs R P parent t s) :
    EquivOn P (denoteRule R parent s ++ t) t :=
  equiv_drop_dominated_list _ t (fun env hp ctx => (h env hp ctx).1) (fun env hp ctx st e p => (h env hp ctx).2 st e p)

/-- the selectors of a dead list match nothing -/
theorem sels_dead (R : Reading Elem Env Pr Val) (hR : R.Sound) (parent : Option (List (Selector Elem)))
    (sels : List Complex) (hdead : allSelectorsAreDead sels = true) :
    ∀ s ∈ R.sels parent sels, ∀ e, s.applies e = false := by
  intro s hs e
  unfold allSelectorsAreDead at hdead
  rw [List.all_eq_true] at hdead
  cases parent with
  | none =>
    simp only [Reading.sels, List.mem_map] at hs
    obtain ⟨c, hc, rfl⟩ := hs
    exact hR.dead_sel c e (hdead c hc)
  | some S =>
    simp only [Reading.sels, List.mem_map] at hs
    obtain ⟨c, hc, rfl⟩ := hs
    exact hR.dead_nest S c e (hdead c hc)

def Rule.deadFlat : Rule → Bool
  | .sel sels body => !allSelectorsAreDead sels || body.all Rule.isDeclOrComment
  | _ => true

theorem equiv_dead_rule (R : Reading Elem Env Pr Val) (hR : R.Sound) (P : Env → Prop)
    (parent : Option (List (Selector Elem))) (r : Rule) (hdead : r.isDeadSelectorRule = true)
    (hflat : r.deadFlat = true) : EquivOn P (denoteRule R parent r) [] := by
  cases r with
  | sel sels body =>
    simp only [Rule.isDeadSelectorRule] at hdead
    simp only [Rule.deadFlat, hdead, Bool.not_true, Bool.false_or] at hflat
    simp only [denoteRule]
    exact EquivOn.trans (equiv_flat_body R P _ body hflat)
      (silent_style_dead P _ _ (sels_dead R hR parent sels hdead)).equiv_nil
  | _ => simp [Rule.isDeadSelectorRule] at hdead

/-- The back-to-front pass keeps the sheet equivalent in front of any tail `t` that absorbs what was seen so far,
and what it has seen afterwards is absorbed by its own output followed by `t` (only entries that can be `Equal` to
something matter: an `@layer` rule is remembered but never found). -/
theorem removeDeadAux_spec (R : Reading Elem Env Pr Val) (hR : R.Sound) (P : Env → Prop)
    (parent : Option (List (Selector Elem))) (t : List (SRule Elem Env Pr Val)) :
    ∀ (rules seen : List Rule), (∀ r ∈ rules, r.deadFlat = true) →
      (∀ s ∈ seen, ∀ r', ruleEq r' s = true → Absorbs R P parent t s) →
      EquivOn P (denoteRules R parent (removeDeadAux rules seen).1 ++ t) (denoteRules R parent rules ++ t) ∧
      ∀ s ∈ (removeDeadAux rules seen).2, ∀ r', ruleEq r' s = true →
        Absorbs R P parent (denoteRules R parent (removeDeadAux rules seen).1 ++ t) s := by
  intro rules
  induction rules with
  | nil =>
    intro seen _ hs
    simp only [removeDeadAux, denoteRules, List.nil_append]
    exact ⟨EquivOn.refl P t, hs⟩
  | cons r rest ih =>
    intro seen hflat hs
    have ih := ih seen (fun x hx => hflat x (by simp [hx])) hs
    obtain ⟨ih1, ih2⟩ := ih
    simp only [removeDeadAux]
    generalize removeDeadAux rest seen = res at ih1 ih2 ⊢
    obtain ⟨kept, seen'⟩ := res
    simp only at ih1 ih2 ⊢
    have hcons : EquivOn P (denoteRule R parent r ++ (denoteRules R parent kept ++ t))
        (denoteRule R parent r ++ (denoteRules R parent rest ++ t)) :=
      EquivOn.append (EquivOn.refl P _) ih1
    split
    · -- dead selector rule
      rename_i hdead
      refine ⟨?_, ih2⟩
      simp only [denoteRules, List.append_assoc]
      refine EquivOn.trans ?_ hcons
      have := EquivOn.append (equiv_dead_rule R hR P parent r hdead (hflat r (by simp)))
        (EquivOn.refl P (denoteRules R parent kept ++ t))
      simpa using this.symm
    · split
      · split
        · -- a rule that is `Equal` was seen
          rename_i _ _ hany
          refine ⟨?_, ih2⟩
          rw [List.any_eq_true] at hany
          obtain ⟨s, hsmem, heq⟩ := hany
          have habs := (ih2 s hsmem r heq).equiv
          rw [← denoteRule_eq_of_ruleEq R hR r s parent heq] at habs
          simp only [denoteRules, List.append_assoc]
          exact EquivOn.trans habs.symm hcons
        · -- kept and remembered
          simp only [denoteRules, List.append_assoc]
          refine ⟨hcons, fun s hsmem r' heq => ?_⟩
          rcases List.mem_append.mp hsmem with h | h
          · exact (ih2 s h r' heq).append_left _
          · simp only [List.mem_singleton] at h
            subst h
            apply absorbs_head
            intro env ctx
            rw [← denoteRule_eq_of_ruleEq R hR r' s parent heq]
            exact declared_nil_of_ruleEq R r' s parent env ctx heq
      · -- no hash: kept, not remembered
        simp only [denoteRules, List.append_assoc]
        exact ⟨hcons, fun s hsmem r' heq => (ih2 s hsmem r' heq).append_left _⟩

theorem removeDead_equiv (R : Reading Elem Env Pr Val) (hR : R.Sound) (P : Env → Prop)
    (parent : Option (List (Selector Elem))) (rules : List Rule) (hflat : ∀ r ∈ rules, r.deadFlat = true) :
    EquivOn P (denoteRules R parent (removeDead rules)) (denoteRules R parent rules) := by
  have := (removeDeadAux_spec R hR P parent [] rules [] hflat (by simp)).1
  simpa [removeDead] using this

theorem denoteRules_append (R : Reading Elem Env Pr Val) (parent : Option (List (Selector Elem))) (a b : List Rule) :
    denoteRules R parent (a ++ b) = denoteRules R parent a ++ denoteRules R parent b := by
  induction a with
  | nil => simp [denoteRules]
  | cons r a ih => simp [denoteRules, ih]

/-- the linker's pass over the files of a chunk, last file first, with one remover -/
theorem linkFilesAux_spec (R : Reading Elem Env Pr Val) (hR : R.Sound) (P : Env → Prop)
    (t : List (SRule Elem Env Pr Val)) :
    ∀ (files : List (List Rule)) (seen : List Rule), (∀ f ∈ files, ∀ r ∈ f, r.deadFlat = true) →
      (∀ s ∈ seen, ∀ r', ruleEq r' s = true → Absorbs R P none t s) →
      EquivOn P (denoteRules R none (linkFilesAux files seen).1.flatten ++ t) (denoteRules R none files.flatten ++ t) ∧
      ∀ s ∈ (linkFilesAux files seen).2, ∀ r', ruleEq r' s = true →
        Absorbs R P none (denoteRules R none (linkFilesAux files seen).1.flatten ++ t) s := by
  intro files
  induction files with
  | nil =>
    intro seen _ hs
    simp only [linkFilesAux, List.flatten_nil, denoteRules, List.nil_append]
    exact ⟨EquivOn.refl P t, hs⟩
  | cons f fs ih =>
    intro seen hflat hs
    obtain ⟨ih1, ih2⟩ := ih seen (fun g hg => hflat g (by simp [hg])) hs
    simp only [linkFilesAux]
    generalize linkFilesAux fs seen = res at ih1 ih2 ⊢
    obtain ⟨outs, seen'⟩ := res
    simp only at ih1 ih2 ⊢
    obtain ⟨h1, h2⟩ := removeDeadAux_spec R hR P none (denoteRules R none outs.flatten ++ t) f seen'
      (hflat f (by simp)) ih2
    generalize removeDeadAux f seen' = res2 at h1 h2 ⊢
    obtain ⟨kept, seen''⟩ := res2
    simp only [List.flatten_cons, denoteRules_append, List.append_assoc] at h1 h2 ⊢
    exact ⟨EquivOn.trans h1 (EquivOn.append (EquivOn.refl P _) ih1), h2⟩

theorem linkFiles_equiv (R : Reading Elem Env Pr Val) (hR : R.Sound) (P : Env → Prop) (files : List (List Rule))
    (hflat : ∀ f ∈ files, ∀ r ∈ f, r.deadFlat = true) :
    EquivOn P (denoteSheet R (linkFiles files)) (denoteSheet R files) := by
  have := (linkFilesAux_spec R hR P [] files [] hflat (by simp)).1
  simpa [linkFiles, denoteSheet] using this

/-! ### `mangleRules`: the state -/

theorem MState.out_push (s : MState) (r : Rule) : (s.push r).out = s.out ++ [r] := by
  unfold MState.push MState.out
  split <;> simp

theorem MState.trail_push (s : MState) (r : Rule) (h : s.trail.all Rule.isComment = true) :
    (s.push r).trail.all Rule.isComment = true := by
  unfold MState.push
  split
  · rename_i hc; simp [h, hc]
  · simp

theorem MState.foldl_push (body : List Rule) : ∀ (s : MState), s.trail.all Rule.isComment = true →
    (body.foldl MState.push s).out = s.out ++ body ∧ (body.foldl MState.push s).trail.all Rule.isComment = true := by
  induction body with
  | nil => intro s h; simp [h]
  | cons r rest ih =>
    intro s h
    simp only [List.foldl_cons]
    obtain ⟨h1, h2⟩ := ih (s.push r) (s.trail_push r h)
    rw [h1, MState.out_push]
    exact ⟨by simp, h2⟩

theorem equiv_comments (R : Reading Elem Env Pr Val) (P : Env → Prop) (parent : Option (List (Selector Elem))) :
    ∀ (l : List Rule), l.all Rule.isComment = true → EquivOn P (denoteRules R parent l) [] := by
  intro l h
  induction l with
  | nil => exact EquivOn.refl P _
  | cons r rest ih =>
    simp only [List.all_cons, Bool.and_eq_true] at h
    cases r with
    | comment t =>
      simp only [denoteRules, denoteRule]
      exact EquivOn.append (silent_inert P).equiv_nil (ih h.2)
    | _ => simp [Rule.isComment] at h

/-! ### merging selector lists -/

theorem mem_map_mergeSelectors {α : Type} (f : Complex → α) (hf : ∀ c c', complexEq c c' = true → f c = f c') :
    ∀ (b a : List Complex) (x : α), x ∈ (mergeSelectors a b).map f ↔ x ∈ a.map f ∨ x ∈ b.map f := by
  intro b
  induction b with
  | nil => intro a x; simp [mergeSelectors]
  | cons s rest ih =>
    intro a x
    simp only [mergeSelectors]
    split
    · rename_i hany
      rw [List.any_eq_true] at hany
      obtain ⟨c, hc, heq⟩ := hany
      rw [ih a x]
      simp only [List.map_cons, List.mem_cons]
      constructor
      · rintro (h | h)
        · exact Or.inl h
        · exact Or.inr (Or.inr h)
      · rintro (h | h | h)
        · exact Or.inl h
        · left; rw [h, hf s c heq]; exact List.mem_map_of_mem hc
        · exact Or.inr h
    · rw [ih (a ++ [s]) x]
      simp only [List.map_append, List.map_cons, List.map_nil, List.mem_append, List.mem_cons, List.not_mem_nil,
        or_false]
      constructor
      · rintro ((h | h) | h)
        · exact Or.inl h
        · exact Or.inr (Or.inl h)
        · exact Or.inr (Or.inr h)
      · rintro (h | h | h)
        · exact Or.inl (Or.inl h)
        · exact Or.inl (Or.inr h)
        · exact Or.inr h

theorem dedupSelectorsAux_eq_mergeSelectors : ∀ (sels kept : List Complex),
    dedupSelectorsAux kept sels = mergeSelectors kept sels := by
  intro sels
  induction sels with
  | nil => intro kept; rfl
  | cons s rest ih =>
    intro kept
    simp only [dedupSelectorsAux, mergeSelectors, ih]

theorem mem_sels_mergeSelectors (R : Reading Elem Env Pr Val) (hR : R.Sound) (parent : Option (List (Selector Elem)))
    (a b : List Complex) (x : Selector Elem) :
    x ∈ R.sels parent (mergeSelectors a b) ↔ x ∈ R.sels parent a ∨ x ∈ R.sels parent b := by
  cases parent with
  | none => exact mem_map_mergeSelectors R.sel hR.sel_eq b a x
  | some S => exact mem_map_mergeSelectors (R.nest S) (hR.nest_eq S) b a x

theorem mem_sels_dedupSelectors (R : Reading Elem Env Pr Val) (hR : R.Sound) (parent : Option (List (Selector Elem)))
    (sels : List Complex) (x : Selector Elem) :
    x ∈ R.sels parent (dedupSelectors sels) ↔ x ∈ R.sels parent sels := by
  unfold dedupSelectors
  rw [dedupSelectorsAux_eq_mergeSelectors, mem_sels_mergeSelectors R hR]
  cases parent <;> simp [Reading.sels]

/-- safe selector lists are understood, or – below a parent list that is not understood – uniformly not -/
theorem sels_uniform (R : Reading Elem Env Pr Val) (hR : R.Sound) (parent : Option (List (Selector Elem)))
    (a b : List Complex) (ha : isSafeSelectors a = true) (hb : isSafeSelectors b = true) :
    (∀ x ∈ R.sels parent a ++ R.sels parent b, x.understood = true) ∨
      (∀ x ∈ R.sels parent a ++ R.sels parent b, x.understood = false) := by
  unfold isSafeSelectors at ha hb
  rw [List.all_eq_true] at ha hb
  cases parent with
  | none =>
    left
    intro x hx
    simp only [Reading.sels, List.mem_append, List.mem_map] at hx
    rcases hx with ⟨c, hc, rfl⟩ | ⟨c, hc, rfl⟩
    · exact hR.safe_sel c (ha c hc)
    · exact hR.safe_sel c (hb c hc)
  | some S =>
    cases hS : S.all (·.understood)
    · right
      intro x hx
      simp only [Reading.sels, List.mem_append, List.mem_map] at hx
      rcases hx with ⟨c, hc, rfl⟩ | ⟨c, hc, rfl⟩
      · rw [hR.safe_nest S c (ha c hc), hS]
      · rw [hR.safe_nest S c (hb c hc), hS]
    · left
      intro x hx
      simp only [Reading.sels, List.mem_append, List.mem_map] at hx
      rcases hx with ⟨c, hc, rfl⟩ | ⟨c, hc, rfl⟩
      · rw [hR.safe_nest S c (ha c hc), hS]
      · rw [hR.safe_nest S c (hb c hc), hS]

/-- `a{B} b{B'}` (bodies `RulesEqual`, declarations only, both lists safe) reads like `a,b{B}` -/
theorem equiv_merge_rules (R : Reading Elem Env Pr Val) (hR : R.Sound) (P : Env → Prop)
    (parent : Option (List (Selector Elem))) (prevSels sels : List Complex) (prevBody body : List Rule)
    (heq : rulesEq body prevBody = true) (hflat : body.all Rule.isDeclOrComment = true)
    (h1 : isSafeSelectors sels = true) (h2 : isSafeSelectors prevSels = true) :
    EquivOn P (denoteRule R parent (.sel prevSels prevBody) ++ denoteRule R parent (.sel sels body))
      (denoteRule R parent (.sel (mergeSelectors prevSels sels) prevBody)) := by
  have hflat' := isDeclOrComment_of_rulesEq body prevBody heq hflat
  have hdecls := declsOf_eq_of_rulesEq R body prevBody heq hflat
  simp only [denoteRule]
  refine EquivOn.trans (EquivOn.append (equiv_flat_body R P _ prevBody hflat') (equiv_flat_body R P _ body hflat)) ?_
  refine EquivOn.trans ?_ (equiv_flat_body R P _ prevBody hflat').symm
  rw [hdecls]
  exact equiv_merge P _ _ _ _ (sels_uniform R hR parent prevSels sels h2 h1)
    (fun x => mem_sels_mergeSelectors R hR parent prevSels sels x)

/-! ### one iteration of `mangleRules` -/

def Rule.mergeFlat : Rule → Bool
  | .sel sels body => !isSafeSelectors sels || body.all Rule.isDeclOrComment
  | _ => true

theorem layerName_append (a b : List String) : layerName (a ++ b) = layerName a ++ layerName b := by
  simp [layerName]

/-- pushing a rule that reads like `r` -/
theorem push_spec (R : Reading Elem Env Pr Val) (P : Env → Prop) (parent : Option (List (Selector Elem)))
    (s : MState) (hwf : s.trail.all Rule.isComment = true) (r r' : Rule)
    (h : EquivOn P (denoteRule R parent r') (denoteRule R parent r)) :
    (s.push r').trail.all Rule.isComment = true ∧
      EquivOn P (denoteRules R parent (s.push r').out) (denoteRules R parent s.out ++ denoteRule R parent r) := by
  refine ⟨s.trail_push r' hwf, ?_⟩
  rw [MState.out_push, denoteRules_append]
  refine EquivOn.append (EquivOn.refl P _) ?_
  simpa [denoteRules] using h

/-- dropping a rule that reads like nothing -/
theorem drop_spec (R : Reading Elem Env Pr Val) (P : Env → Prop) (parent : Option (List (Selector Elem)))
    (s : MState) (r : Rule) (h : EquivOn P (denoteRule R parent r) []) :
    EquivOn P (denoteRules R parent s.out) (denoteRules R parent s.out ++ denoteRule R parent r) := by
  have := EquivOn.append (EquivOn.refl P (denoteRules R parent s.out)) h.symm
  simpa using this

theorem mangleStep_spec (R : Reading Elem Env Pr Val) (hR : R.Sound) (P : Env → Prop)
    (parent : Option (List (Selector Elem))) (enc : List String)
    (hP : ∀ env, P env → ∀ q ∈ enc, R.media q env = true)
    (s : MState) (hwf : s.trail.all Rule.isComment = true) (r : Rule) (hflat : r.mergeFlat = true) :
    (mangleStep enc s r).trail.all Rule.isComment = true ∧
      EquivOn P (denoteRules R parent (mangleStep enc s r).out)
        (denoteRules R parent s.out ++ denoteRule R parent r) := by
  cases r with
  | layerBlock names anon body =>
    simp only [mangleStep]
    split
    · -- empty named layer block → statement
      rename_i hc
      simp only [Bool.and_eq_true, List.isEmpty_iff, Bool.not_eq_true'] at hc
      obtain ⟨rfl, hn⟩ := hc
      apply push_spec R P parent s hwf
      simp only [denoteRule]
      match names, hn with
      | [n], _ => exact (equiv_layer_empty P (layerName n)).symm
      | _ :: _ :: _, _ => exact EquivOn.refl P _
    · split
      · -- `@layer a { @layer b { … } }` → `@layer a.b { … }`
        apply push_spec R P parent s hwf
        simp only [denoteRule, denoteRules, List.append_nil, layerName_append]
        exact (equiv_layer_collapse P _ _ _).symm
      · -- `@layer a { @layer b; }` → `@layer a.b;`
        apply push_spec R P parent s hwf
        simp only [denoteRule, denoteRules, List.append_nil, layerName_append, List.map_cons, List.map_nil]
        exact (equiv_layer_collapse_stmt P _ _).symm
      · exact push_spec R P parent s hwf _ _ (EquivOn.refl P _)
  | layerStmt names => exact push_spec R P parent s hwf _ _ (EquivOn.refl P _)
  | known tok prelude body =>
    simp only [mangleStep]
    split
    · rename_i hc
      simp only [Bool.and_eq_true, List.isEmpty_iff] at hc
      obtain ⟨rfl, _⟩ := hc
      refine ⟨hwf, drop_spec R P parent s _ ?_⟩
      simp only [denoteRule, denoteRules]
      split
      · exact (silent_group_nil P _).equiv_nil
      · exact (silent_inert P).equiv_nil
    · exact push_spec R P parent s hwf _ _ (EquivOn.refl P _)
  | media q body =>
    simp only [mangleStep]
    split
    · rename_i hc
      simp only [List.isEmpty_iff] at hc
      subst hc
      refine ⟨hwf, drop_spec R P parent s _ ?_⟩
      simp only [denoteRule, denoteRules]
      exact (silent_group_nil P _).equiv_nil
    · split
      · -- the same queries as an enclosing @media: unwrap
        rename_i _ hany
        rw [List.any_eq_true] at hany
        obtain ⟨q', hq', heq⟩ := hany
        have : q = q' := by simpa using heq
        subst this
        obtain ⟨h1, h2⟩ := MState.foldl_push body s hwf
        refine ⟨h2, ?_⟩
        rw [h1, denoteRules_append]
        refine EquivOn.append (EquivOn.refl P _) ?_
        simp only [denoteRule]
        exact (equiv_unwrap (R.media q) _ (fun env hp => hP env hp q hq')).symm
      · exact push_spec R P parent s hwf _ _ (EquivOn.refl P _)
  | sel sels body =>
    simp only [mangleStep]
    split
    · rename_i hc
      simp only [List.isEmpty_iff] at hc
      subst hc
      refine ⟨hwf, drop_spec R P parent s _ ?_⟩
      simp only [denoteRule, denoteRules]
      exact EquivOn.refl P _
    · split
      · rename_i prevSels prevBody hprev
        split
        · -- merge into the previous rule
          rename_i hc
          simp only [Bool.and_eq_true] at hc
          obtain ⟨⟨heq, hs1⟩, hs2⟩ := hc
          have hb : body.all Rule.isDeclOrComment = true := by
            simpa [Rule.mergeFlat, hs1] using hflat
          refine ⟨hwf, ?_⟩
          simp only [MState.out, hprev, Option.toList_some, denoteRules_append, List.append_assoc]
          refine EquivOn.append (EquivOn.refl P _) ?_
          have hm := equiv_merge_rules R hR P parent prevSels sels prevBody body heq hb hs1 hs2
          have htrail := equiv_comments R P parent s.trail hwf
          -- prev ++ trail ++ r  ≈  prev ++ r  ≈  merged  ≈  merged ++ trail
          have e1 : EquivOn P (denoteRules R parent [Rule.sel prevSels prevBody] ++
              (denoteRules R parent s.trail ++ denoteRule R parent (.sel sels body)))
              (denoteRule R parent (.sel prevSels prevBody) ++ denoteRule R parent (.sel sels body)) := by
            have := EquivOn.append (EquivOn.refl P (denoteRules R parent [Rule.sel prevSels prevBody]))
              (EquivOn.append htrail (EquivOn.refl P (denoteRule R parent (.sel sels body))))
            simpa [denoteRules] using this
          have e2 : EquivOn P (denoteRules R parent [Rule.sel (mergeSelectors prevSels sels) prevBody] ++
              denoteRules R parent s.trail)
              (denoteRule R parent (.sel (mergeSelectors prevSels sels) prevBody)) := by
            have := EquivOn.append
              (EquivOn.refl P (denoteRules R parent [Rule.sel (mergeSelectors prevSels sels) prevBody])) htrail
            simpa [denoteRules] using this
          exact EquivOn.trans e2 (EquivOn.trans hm.symm e1.symm)
        · exact push_spec R P parent s hwf _ _ (EquivOn.refl P _)
      · exact push_spec R P parent s hwf _ _ (EquivOn.refl P _)
  | decl k v i => exact push_spec R P parent s hwf _ _ (EquivOn.refl P _)
  | other k p b => exact push_spec R P parent s hwf _ _ (EquivOn.refl P _)
  | keyframes t => exact push_spec R P parent s hwf _ _ (EquivOn.refl P _)
  | atom t => exact push_spec R P parent s hwf _ _ (EquivOn.refl P _)
  | comment t => exact push_spec R P parent s hwf _ _ (EquivOn.refl P _)
  | atImport t => exact push_spec R P parent s hwf _ _ (EquivOn.refl P _)

/-! ### tameness is preserved -/

theorem tameRules_iff (l : List Rule) : tameRules l = true ↔ ∀ r ∈ l, tameRule r = true := by
  induction l with
  | nil => simp [tameRules]
  | cons x xs ih => simp [tameRules, ih]

theorem tameRules_append (a b : List Rule) : tameRules (a ++ b) = true ↔ tameRules a = true ∧ tameRules b = true := by
  simp only [tameRules_iff, List.mem_append]
  constructor
  · intro h; exact ⟨fun r hr => h r (Or.inl hr), fun r hr => h r (Or.inr hr)⟩
  · rintro ⟨h1, h2⟩ r (hr | hr)
    · exact h1 r hr
    · exact h2 r hr

theorem mayRewrite_of_safe {sels : List Complex} (h : isSafeSelectors sels = true) : mayRewrite sels = true := by
  cases sels with
  | nil => simp [mayRewrite]
  | cons c cs =>
    simp only [isSafeSelectors, List.all_cons, Bool.and_eq_true] at h
    simp [mayRewrite, h.1]

theorem mayRewrite_of_dead {sels : List Complex} (h : allSelectorsAreDead sels = true) : mayRewrite sels = true := by
  cases sels with
  | nil => simp [mayRewrite]
  | cons c cs =>
    simp only [allSelectorsAreDead, List.all_cons, Bool.and_eq_true] at h
    simp [mayRewrite, h.1]

theorem tameRule.mergeFlat {r : Rule} (h : tameRule r = true) : r.mergeFlat = true := by
  cases r with
  | sel sels body =>
    simp only [tameRule, Bool.and_eq_true, Bool.or_eq_true, Bool.not_eq_true'] at h
    simp only [Rule.mergeFlat, Bool.or_eq_true, Bool.not_eq_true']
    rcases h.1 with h1 | h1
    · left
      cases hs : isSafeSelectors sels
      · rfl
      · rw [mayRewrite_of_safe hs] at h1; simp at h1
    · exact Or.inr h1
  | _ => rfl

theorem tameRule.deadFlat {r : Rule} (h : tameRule r = true) : r.deadFlat = true := by
  cases r with
  | sel sels body =>
    simp only [tameRule, Bool.and_eq_true, Bool.or_eq_true, Bool.not_eq_true'] at h
    simp only [Rule.deadFlat, Bool.or_eq_true, Bool.not_eq_true']
    rcases h.1 with h1 | h1
    · left
      cases hs : allSelectorsAreDead sels
      · rfl
      · rw [mayRewrite_of_dead hs] at h1; simp at h1
    · exact Or.inr h1
  | _ => rfl

theorem tame_push (s : MState) (r : Rule) (hs : tameRules s.out = true) (hr : tameRule r = true) :
    tameRules (s.push r).out = true := by
  rw [MState.out_push, tameRules_append]
  exact ⟨hs, by simp [tameRules, hr]⟩

theorem mangleStep_tame (enc : List String) (s : MState) (r : Rule) (hs : tameRules s.out = true)
    (hr : tameRule r = true) : tameRules (mangleStep enc s r).out = true := by
  cases r with
  | layerBlock names anon body =>
    simp only [mangleStep]
    split
    · exact tame_push s _ hs (by simp [tameRule])
    · split
      · apply tame_push s _ hs
        simpa [tameRule, tameRules] using hr
      · exact tame_push s _ hs (by simp [tameRule])
      · exact tame_push s _ hs hr
  | known tok prelude body =>
    simp only [mangleStep]
    split
    · exact hs
    · exact tame_push s _ hs hr
  | media q body =>
    simp only [mangleStep]
    split
    · exact hs
    · split
      · have : ∀ (body : List Rule) (s : MState), tameRules s.out = true → tameRules body = true →
            tameRules (body.foldl MState.push s).out = true := by
          intro body
          induction body with
          | nil => intro s hs _; exact hs
          | cons x xs ih =>
            intro s hs hb
            simp only [tameRules, Bool.and_eq_true] at hb
            exact ih (s.push x) (tame_push s x hs hb.1) hb.2
        exact this body s hs (by simpa [tameRule] using hr)
      · exact tame_push s _ hs hr
  | sel sels body =>
    simp only [mangleStep]
    split
    · exact hs
    · split
      · rename_i prevSels prevBody hprev
        split
        · rename_i hc
          simp only [Bool.and_eq_true] at hc
          obtain ⟨⟨heq, hs1⟩, _⟩ := hc
          have hb : body.all Rule.isDeclOrComment = true := by
            simpa [Rule.mergeFlat, hs1] using tameRule.mergeFlat hr
          have hpb := isDeclOrComment_of_rulesEq body prevBody heq hb
          simp only [MState.out, hprev, Option.toList_some] at hs ⊢
          rw [tameRules_append, tameRules_append] at hs ⊢
          refine ⟨⟨hs.1.1, ?_⟩, hs.2⟩
          have hp := hs.1.2
          simp only [tameRules, tameRule, Bool.and_eq_true] at hp ⊢
          exact ⟨⟨by simp [hpb], hp.1.2⟩, trivial⟩
        · exact tame_push s _ hs hr
      · exact tame_push s _ hs hr
  | layerStmt n => exact tame_push s _ hs hr
  | decl k v i => exact tame_push s _ hs hr
  | other k p b => exact tame_push s _ hs hr
  | keyframes t => exact tame_push s _ hs hr
  | atom t => exact tame_push s _ hs hr
  | comment t => exact tame_push s _ hs hr
  | atImport t => exact tame_push s _ hs hr

/-- everything `RemoveDeadRulesInPlace` keeps was there before -/
theorem removeDeadAux_subset : ∀ (rules seen : List Rule), ∀ x ∈ (removeDeadAux rules seen).1, x ∈ rules := by
  intro rules
  induction rules with
  | nil => intro seen x hx; simp [removeDeadAux] at hx
  | cons r rest ih =>
    intro seen x hx
    simp only [removeDeadAux] at hx
    have ih := ih seen
    generalize removeDeadAux rest seen = res at ih hx
    obtain ⟨kept, seen'⟩ := res
    simp only at ih hx
    split at hx
    · exact List.mem_cons_of_mem _ (ih x hx)
    · split at hx
      · split at hx
        · exact List.mem_cons_of_mem _ (ih x hx)
        · rcases List.mem_cons.mp hx with rfl | h
          · simp
          · exact List.mem_cons_of_mem _ (ih x h)
      · rcases List.mem_cons.mp hx with rfl | h
        · simp
        · exact List.mem_cons_of_mem _ (ih x h)

theorem removeDead_tame (rules : List Rule) (h : tameRules rules = true) : tameRules (removeDead rules) = true := by
  rw [tameRules_iff] at h ⊢
  exact fun r hr => h r (removeDeadAux_subset rules [] r hr)

/-! ### `mangleRules` as a whole -/

theorem foldl_mangleStep_spec (R : Reading Elem Env Pr Val) (hR : R.Sound) (P : Env → Prop)
    (parent : Option (List (Selector Elem))) (enc : List String)
    (hP : ∀ env, P env → ∀ q ∈ enc, R.media q env = true) :
    ∀ (rules : List Rule) (s : MState), s.trail.all Rule.isComment = true → tameRules s.out = true →
      tameRules rules = true →
      (rules.foldl (mangleStep enc) s).trail.all Rule.isComment = true ∧
      tameRules (rules.foldl (mangleStep enc) s).out = true ∧
      EquivOn P (denoteRules R parent (rules.foldl (mangleStep enc) s).out)
        (denoteRules R parent s.out ++ denoteRules R parent rules) := by
  intro rules
  induction rules with
  | nil =>
    intro s hwf ht _
    simp only [List.foldl_nil, denoteRules, List.append_nil]
    exact ⟨hwf, ht, EquivOn.refl P _⟩
  | cons r rest ih =>
    intro s hwf ht hr
    simp only [tameRules, Bool.and_eq_true] at hr
    obtain ⟨h1, h2⟩ := mangleStep_spec R hR P parent enc hP s hwf r (tameRule.mergeFlat hr.1)
    obtain ⟨i1, i2, i3⟩ := ih (mangleStep enc s r) h1 (mangleStep_tame enc s r ht hr.1) hr.2
    simp only [List.foldl_cons]
    refine ⟨i1, i2, EquivOn.trans i3 ?_⟩
    simp only [denoteRules, ← List.append_assoc]
    exact EquivOn.append h2 (EquivOn.refl P _)

theorem mangleRules_spec (R : Reading Elem Env Pr Val) (hR : R.Sound) (P : Env → Prop)
    (parent : Option (List (Selector Elem))) (enc : List String)
    (hP : ∀ env, P env → ∀ q ∈ enc, R.media q env = true) (isTopLevel : Bool) (rules : List Rule)
    (ht : tameRules rules = true) :
    tameRules (mangleRules enc isTopLevel rules) = true ∧
      EquivOn P (denoteRules R parent (mangleRules enc isTopLevel rules)) (denoteRules R parent rules) := by
  obtain ⟨_, h2, h3⟩ := foldl_mangleStep_spec R hR P parent enc hP rules {} (by simp) (by simp [MState.out, tameRules]) ht
  have h3' : EquivOn P (denoteRules R parent (rules.foldl (mangleStep enc) {}).out) (denoteRules R parent rules) := by
    simpa [MState.out, denoteRules] using h3
  unfold mangleRules
  cases isTopLevel
  · simp only [Bool.false_eq_true, if_false]
    refine ⟨removeDead_tame _ h2, EquivOn.trans (removeDead_equiv R hR P parent _ ?_) h3'⟩
    rw [tameRules_iff] at h2
    exact fun r hr => tameRule.deadFlat (h2 r hr)
  · simp only [if_true]
    exact ⟨h2, h3'⟩

/-! ### the parent selector list only matters as a set -/

theorem sels_parent_congr (R : Reading Elem Env Pr Val) (hR : R.Sound) (S S' : List (Selector Elem))
    (h : ∀ x, x ∈ S ↔ x ∈ S') (cs : List Complex) : R.sels (some S) cs = R.sels (some S') cs := by
  simp only [Reading.sels]
  exact List.map_congr_left (fun c _ => hR.nest_parent S S' c h)

mutual
theorem denoteRule_parent_congr (R : Reading Elem Env Pr Val) (hR : R.Sound) :
    ∀ (r : Rule) (P : Env → Prop) (S S' : List (Selector Elem)), (∀ x, x ∈ S ↔ x ∈ S') →
      EquivOn P (denoteRule R (some S) r) (denoteRule R (some S') r) := by
  intro r P S S' h
  cases r with
  | sel cs b =>
    simp only [denoteRule]
    rw [sels_parent_congr R hR S S' h]
    exact EquivOn.refl P _
  | decl k v i =>
    simp only [denoteRule]
    exact equiv_style_congr P S S' _ h
  | media q b =>
    simp only [denoteRule]
    exact EquivOn.group _ (denoteRules_parent_congr R hR b _ S S' h)
  | layerStmt n => exact EquivOn.refl P _
  | layerBlock names a b =>
    simp only [denoteRule]
    split
    · exact EquivOn.layerBlock _ (denoteRules_parent_congr R hR b _ S S' h)
    · exact EquivOn.layerBlock _ (denoteRules_parent_congr R hR b _ S S' h)
    · exact EquivOn.refl P _
  | known t p b =>
    simp only [denoteRule]
    split
    · exact EquivOn.group _ (denoteRules_parent_congr R hR b _ S S' h)
    · exact EquivOn.refl P _
  | other k p b => exact EquivOn.refl P _
  | keyframes t => exact EquivOn.refl P _
  | atom t => exact EquivOn.refl P _
  | comment t => exact EquivOn.refl P _
  | atImport t => exact EquivOn.refl P _
theorem denoteRules_parent_congr (R : Reading Elem Env Pr Val) (hR : R.Sound) :
    ∀ (b : List Rule) (P : Env → Prop) (S S' : List (Selector Elem)), (∀ x, x ∈ S ↔ x ∈ S') →
      EquivOn P (denoteRules R (some S) b) (denoteRules R (some S') b) := by
  intro b P S S' h
  cases b with
  | nil => exact EquivOn.refl P _
  | cons x xs =>
    simp only [denoteRules]
    exact EquivOn.append (denoteRule_parent_congr R hR x P S S' h) (denoteRules_parent_congr R hR xs P S S' h)
end

/-! ### bodies of declarations stay bodies of declarations -/

theorem mangleChildren_flat (enc : List String) : ∀ (body : List Rule), body.all Rule.isDeclOrComment = true →
    mangleChildren enc body = body := by
  intro body h
  induction body with
  | nil => rfl
  | cons r rest ih =>
    simp only [List.all_cons, Bool.and_eq_true] at h
    simp only [mangleChildren, ih h.2]
    cases r <;> simp [Rule.isDeclOrComment] at h <;> simp [mangleChild]

theorem foldl_mangleStep_flat (enc : List String) : ∀ (body : List Rule), body.all Rule.isDeclOrComment = true →
    ∀ (s : MState), (body.foldl (mangleStep enc) s).out = s.out ++ body := by
  intro body h
  induction body with
  | nil => intro s; simp
  | cons r rest ih =>
    intro s
    simp only [List.all_cons, Bool.and_eq_true] at h
    simp only [List.foldl_cons]
    rw [ih h.2]
    cases r <;> simp [Rule.isDeclOrComment] at h <;> simp [mangleStep, MState.out_push]

theorem mangleRules_flat (enc : List String) (isTopLevel : Bool) (body : List Rule)
    (h : body.all Rule.isDeclOrComment = true) : (mangleRules enc isTopLevel body).all Rule.isDeclOrComment = true := by
  unfold mangleRules
  rw [foldl_mangleStep_flat enc body h]
  simp only [MState.out, List.nil_append, Option.toList_none]
  cases isTopLevel
  · simp only [Bool.false_eq_true, if_false]
    rw [List.all_eq_true] at h ⊢
    exact fun x hx => h x (removeDeadAux_subset body [] x hx)
  · simpa using h

theorem mayRewrite_dedupSelectors {sels : List Complex} (h : mayRewrite (dedupSelectors sels) = true) :
    mayRewrite sels = true := by
  have hsub : ∀ (sels kept : List Complex), ∀ c ∈ dedupSelectorsAux kept sels, c ∈ kept ∨ c ∈ sels := by
    intro sels
    induction sels with
    | nil => intro kept c hc; exact Or.inl (by simpa [dedupSelectorsAux] using hc)
    | cons s rest ih =>
      intro kept c hc
      simp only [dedupSelectorsAux] at hc
      split at hc
      · rcases ih kept c hc with h | h
        · exact Or.inl h
        · exact Or.inr (List.mem_cons_of_mem _ h)
      · rcases ih (kept ++ [s]) c hc with h | h
        · rcases List.mem_append.mp h with h | h
          · exact Or.inl h
          · exact Or.inr (by simp at h; simp [h])
        · exact Or.inr (List.mem_cons_of_mem _ h)
  have hsub' : ∀ c ∈ dedupSelectors sels, c ∈ sels := by
    intro c hc
    rcases hsub sels [] c hc with h | h
    · simp at h
    · exact h
  cases sels with
  | nil => simp [mayRewrite]
  | cons s rest =>
    simp only [mayRewrite, Bool.or_eq_true, List.any_eq_true] at h ⊢
    rcases h with (h | ⟨c, hc, h⟩) | ⟨c, hc, h⟩
    · exfalso
      simp only [dedupSelectors, dedupSelectorsAux, List.any_nil, Bool.false_eq_true, if_false, List.nil_append] at h
      have : ∀ (rest kept : List Complex), kept ≠ [] → dedupSelectorsAux kept rest ≠ [] := by
        intro rest
        induction rest with
        | nil => intro kept hk; simpa [dedupSelectorsAux] using hk
        | cons x xs ih =>
          intro kept hk
          simp only [dedupSelectorsAux]
          split
          · exact ih kept hk
          · exact ih _ (by simp)
      exact this rest [s] (by simp) (by simpa using h)
    · exact Or.inl (Or.inr ⟨c, hsub' c hc, h⟩)
    · exact Or.inr ⟨c, hsub' c hc, h⟩

/-! ### the parser applies `mangleRules` bottom-up -/

mutual
theorem mangleChild_spec (R : Reading Elem Env Pr Val) (hR : R.Sound) :
    ∀ (r : Rule) (P : Env → Prop) (parent : Option (List (Selector Elem))) (enc : List String),
      (∀ env, P env → ∀ q ∈ enc, R.media q env = true) → tameRule r = true →
      tameRule (mangleChild enc r) = true ∧
        EquivOn P (denoteRule R parent (mangleChild enc r)) (denoteRule R parent r) := by
  intro r P parent enc hP ht
  cases r with
  | sel sels body =>
    simp only [tameRule, Bool.and_eq_true] at ht
    obtain ⟨c1, c2⟩ := mangleChildren_spec R hR body P (some (R.sels parent (dedupSelectors sels))) enc hP ht.2
    obtain ⟨m1, m2⟩ := mangleRules_spec R hR P (some (R.sels parent (dedupSelectors sels))) enc hP false _ c1
    simp only [mangleChild, denoteRule]
    refine ⟨?_, EquivOn.trans (EquivOn.trans m2 c2) (denoteRules_parent_congr R hR body P _ _
      (fun x => mem_sels_dedupSelectors R hR parent sels x))⟩
    simp only [tameRule, Bool.and_eq_true, m1, and_true, Bool.or_eq_true, Bool.not_eq_true']
    cases hm : mayRewrite (dedupSelectors sels)
    · exact Or.inl rfl
    · right
      have hb : body.all Rule.isDeclOrComment = true := by
        simpa [mayRewrite_dedupSelectors hm] using ht.1
      rw [mangleChildren_flat enc body hb]
      exact mangleRules_flat enc false body hb
  | media q body =>
    simp only [tameRule] at ht
    have hP' : ∀ env, (P env ∧ R.media q env = true) → ∀ q' ∈ enc ++ [q], R.media q' env = true := by
      intro env hp q' hq'
      rcases List.mem_append.mp hq' with h | h
      · exact hP env hp.1 q' h
      · simp at h; subst h; exact hp.2
    obtain ⟨c1, c2⟩ := mangleChildren_spec R hR body _ parent (enc ++ [q]) hP' ht
    obtain ⟨m1, m2⟩ := mangleRules_spec R hR _ parent (enc ++ [q]) hP' false _ c1
    simp only [mangleChild, denoteRule, tameRule]
    exact ⟨m1, EquivOn.group _ (EquivOn.trans m2 c2)⟩
  | layerBlock names anon body =>
    simp only [tameRule] at ht
    obtain ⟨c1, c2⟩ := mangleChildren_spec R hR body P parent enc hP ht
    obtain ⟨m1, m2⟩ := mangleRules_spec R hR P parent enc hP false _ c1
    simp only [mangleChild, denoteRule, tameRule]
    refine ⟨m1, ?_⟩
    split
    · exact EquivOn.layerBlock _ (EquivOn.trans m2 c2)
    · exact EquivOn.layerBlock _ (EquivOn.trans m2 c2)
    · exact EquivOn.refl P _
  | known tok prelude body =>
    simp only [tameRule] at ht
    obtain ⟨c1, c2⟩ := mangleChildren_spec R hR body P parent enc hP ht
    simp only [mangleChild, denoteRule, tameRule]
    split
    · rename_i cond _
      have hP' : ∀ env, (P env ∧ cond env = true) → ∀ q' ∈ enc, R.media q' env = true :=
        fun env hp q' hq' => hP env hp.1 q' hq'
      obtain ⟨c1', c2'⟩ := mangleChildren_spec R hR body _ parent enc hP' ht
      obtain ⟨m1, m2⟩ := mangleRules_spec R hR _ parent enc hP' false _ c1'
      exact ⟨m1, EquivOn.group _ (EquivOn.trans m2 c2')⟩
    · obtain ⟨m1, _⟩ := mangleRules_spec R hR P parent enc hP false _ c1
      exact ⟨m1, EquivOn.refl P _⟩
  | other kind prelude body =>
    simp only [tameRule] at ht
    obtain ⟨c1, _⟩ := mangleChildren_spec R hR body P parent enc hP ht
    obtain ⟨m1, _⟩ := mangleRules_spec R hR P parent enc hP false _ c1
    simp only [mangleChild, denoteRule, tameRule]
    exact ⟨m1, EquivOn.refl P _⟩
  | layerStmt n => exact ⟨ht, EquivOn.refl P _⟩
  | decl k v i => exact ⟨ht, EquivOn.refl P _⟩
  | keyframes t => exact ⟨ht, EquivOn.refl P _⟩
  | atom t => exact ⟨ht, EquivOn.refl P _⟩
  | comment t => exact ⟨ht, EquivOn.refl P _⟩
  | atImport t => exact ⟨ht, EquivOn.refl P _⟩
theorem mangleChildren_spec (R : Reading Elem Env Pr Val) (hR : R.Sound) :
    ∀ (rs : List Rule) (P : Env → Prop) (parent : Option (List (Selector Elem))) (enc : List String),
      (∀ env, P env → ∀ q ∈ enc, R.media q env = true) → tameRules rs = true →
      tameRules (mangleChildren enc rs) = true ∧
        EquivOn P (denoteRules R parent (mangleChildren enc rs)) (denoteRules R parent rs) := by
  intro rs P parent enc hP ht
  cases rs with
  | nil => exact ⟨rfl, EquivOn.refl P _⟩
  | cons x xs =>
    simp only [tameRules, Bool.and_eq_true] at ht
    obtain ⟨a1, a2⟩ := mangleChild_spec R hR x P parent enc hP ht.1
    obtain ⟨b1, b2⟩ := mangleChildren_spec R hR xs P parent enc hP ht.2
    simp only [mangleChildren, denoteRules, tameRules, Bool.and_eq_true]
    exact ⟨⟨a1, b1⟩, EquivOn.append a2 b2⟩
end

end EsbuildModel.CssRules
