import EsbuildModel.Lemmas.JsonSoundStr2
import EsbuildModel.Lemmas.JsonNum2
/-
Soundness for tokens: which branch of `lexAt` produced a token the parser accepts.
-/
namespace EsbuildModel.Json
open EsbuildModel.Spec.Json

/-- the branches of `lexAt` that can produce a token other than `Tok.other` -/
inductive LexCase (fl : Flavor) (P : Params) (L0 : Lx) (sk : Sk) (c : Cp) (r : List Cp) (L : Lx) : Prop
  | punct (t : Tok) (h : (c.c = '[' ∧ t = .openBracket) ∨ (c.c = ']' ∧ t = .closeBracket) ∨ (c.c = '{' ∧ t = .openBrace) ∨
      (c.c = '}' ∧ t = .closeBrace) ∨ (c.c = ',' ∧ t = .comma) ∨ (c.c = ':' ∧ t = .colon))
      (hL : L = L0.at sk t r (sk.pos + c.w))
  | minus (hc : c.c = '-') (hL : L = L0.at sk .minus r (sk.pos + c.w))
      (hj : fl = .json → headIs r (fun d => d == '.' || isDigit d) = true)
  | str (hc : c.c = '"' ∨ c.c = '\'' ∨ c.c = '`') (h : lexString fl L0 sk c r = .ok L)
  | num (hc : c.c = '.' ∨ isDigit c.c = true) (h : lexNumber fl P L0 sk (c :: r) = .ok L)
  | word (hc : isAsciiIdStart c.c = true) (h : lexIdent fl P L0 sk false [c] r = .ok L)
  | other (h : L.tok = .other)

theorem idEscFinish_other {fl : Flavor} {P : Params} {L0 : Lx} {sk : Sk} {ip : Bool} {raw rest : List Cp} {e : Nat} {L : Lx}
    (h : idEscFinish fl P L0 sk ip raw rest e = .ok L) : L.tok = .other := by
  unfold idEscFinish at h
  split at h
  · cases h
  · cases h
  · split at h
    · cases h
    · simp only at h
      split at h
      · cases h
      · cases h; rfl

theorem idEsc_other {fl : Flavor} {P : Params} {L0 : Lx} {sk : Sk} {ip : Bool} {pre r : List Cp} {L : Lx}
    (h : idEsc fl P L0 sk ip pre r = .ok L) : L.tok = .other := by
  unfold idEsc at h
  split at h
  · cases h
  · exact idEscFinish_other h

theorem keywordTok_other {l : List Char} (h : ∀ c t, l = c :: t → c ≠ 't' ∧ c ≠ 'f' ∧ c ≠ 'n') : keywordTok l = .other := by
  unfold keywordTok
  split
  · rename_i h1; exact absurd rfl (h _ _ h1).1
  · split
    · rename_i h1; exact absurd rfl (h _ _ h1).2.1
    · split
      · rename_i h1; exact absurd rfl (h _ _ h1).2.2
      · rfl

theorem lexIdent_other {fl : Flavor} {P : Params} {L0 : Lx} {sk : Sk} {ip : Bool} {pre r : List Cp} {L : Lx}
    (h : lexIdent fl P L0 sk ip pre r = .ok L)
    (hp : ip = true ∨ ∃ c t, pre = c :: t ∧ c.c ≠ 't' ∧ c.c ≠ 'f' ∧ c.c ≠ 'n') : L.tok = .other := by
  unfold lexIdent at h
  simp only at h
  split at h
  · exact idEsc_other h
  · cases h
    simp only [Lx.at]
    rcases hp with hp | ⟨c, t, rfl, hc⟩
    · simp [hp]
    · split
      · rfl
      · apply keywordTok_other
        intro c' t' heq
        simp only [List.cons_append, chars_cons, List.cons.injEq] at heq
        rw [← heq.1]; exact hc

theorem lexAt_cases (fl : Flavor) (P : Params) (L0 : Lx) (sk : Sk) (c : Cp) (r : List Cp) (L : Lx)
    (h : lexAt fl P L0 sk (c :: r) = .ok L) : LexCase fl P L0 sk c r L := by
  rw [lexAt_cons] at h
  have hother : ∀ {x : R Lx}, x = .ok (L0.at sk .other r (sk.pos + c.w)) → x = .ok L → LexCase fl P L0 sk c r L := by
    intro x hx hx'; rw [hx] at hx'; cases hx'; exact .other rfl
  by_cases hc : c.c = '['
  · rw [if_pos hc] at h
    cases h
    exact .punct .openBracket (Or.inl ⟨hc, rfl⟩) rfl
  rw [if_neg hc] at h
  clear hc
  by_cases hc : c.c = ']'
  · rw [if_pos hc] at h
    cases h
    exact .punct .closeBracket (Or.inr (Or.inl ⟨hc, rfl⟩)) rfl
  rw [if_neg hc] at h
  clear hc
  by_cases hc : c.c = '{'
  · rw [if_pos hc] at h
    cases h
    exact .punct .openBrace (Or.inr (Or.inr (Or.inl ⟨hc, rfl⟩))) rfl
  rw [if_neg hc] at h
  clear hc
  by_cases hc : c.c = '}'
  · rw [if_pos hc] at h
    cases h
    exact .punct .closeBrace (Or.inr (Or.inr (Or.inr (Or.inl ⟨hc, rfl⟩)))) rfl
  rw [if_neg hc] at h
  clear hc
  by_cases hc : c.c = ','
  · rw [if_pos hc] at h
    cases h
    exact .punct .comma (Or.inr (Or.inr (Or.inr (Or.inr (Or.inl ⟨hc, rfl⟩))))) rfl
  rw [if_neg hc] at h
  clear hc
  by_cases hc : c.c = ':'
  · rw [if_pos hc] at h
    cases h
    exact .punct .colon (Or.inr (Or.inr (Or.inr (Or.inr (Or.inr (⟨hc, rfl⟩)))))) rfl
  rw [if_neg hc] at h
  clear hc
  by_cases hc : c.c = '-'
  · rw [if_pos hc] at h
    by_cases h1 : headIs r (fun d => d == '=' || d == '-') = true
    · rw [if_pos h1] at h; exact hother rfl h
    · rw [if_neg h1] at h
      by_cases h2 : fl = .json ∧ (!headIs r (fun d => d == '.' || isDigit d)) = true
      · rw [if_pos h2] at h; cases h
      · rw [if_neg h2] at h
        cases h
        refine .minus hc rfl (fun hj => ?_)
        cases hh : headIs r (fun d => d == '.' || isDigit d) with
        | true => rfl
        | false => exact absurd ⟨hj, by simp [hh]⟩ h2
  rw [if_neg hc] at h
  clear hc
  by_cases hc : c.c = '"' ∨ c.c = '\'' ∨ c.c = '`'
  · rw [if_pos hc] at h
    exact .str hc h
  rw [if_neg hc] at h
  clear hc
  by_cases hc : c.c = '.' ∨ isDigit c.c = true
  · rw [if_pos hc] at h
    exact .num hc h
  rw [if_neg hc] at h
  clear hc
  by_cases hhash : c.c = '#'
  · rw [if_pos hhash] at h
    by_cases h1 : sk.pos = 0 ∧ headIs r (· == '!') = true
    · rw [if_pos h1] at h; exact hother rfl h
    · rw [if_neg h1] at h
      by_cases h2 : headIs r (· == '\\') = true
      · rw [if_pos h2] at h
        exact .other (idEsc_other h)
      · rw [if_neg h2] at h
        cases r with
        | nil => cases h
        | cons d r' =>
          simp only at h
          by_cases h3 : (!isIdStart P d.c) = true
          · rw [if_pos h3] at h; cases h
          · rw [if_neg h3] at h
            exact .other (lexIdent_other h (Or.inl rfl))
  rw [if_neg hhash] at h
  by_cases hc : c.c = '\\'
  · rw [if_pos hc] at h
    exact .other (idEsc_other h)
  rw [if_neg hc] at h
  clear hc
  by_cases hc : isAsciiIdStart c.c = true
  · rw [if_pos hc] at h
    exact .word hc h
  rw [if_neg hc] at h
  clear hc
  by_cases hlt : c.c.toNat < 0x7F
  · rw [if_pos hlt] at h
    exact hother rfl h
  rw [if_neg hlt] at h
  by_cases hc : isIdStart P c.c = true
  · rw [if_pos hc] at h
    refine .other (lexIdent_other h (Or.inr ⟨c, [], rfl, ?_, ?_, ?_⟩)) <;> (intro heq; rw [heq] at hlt; exact hlt (by decide))
  · rw [if_neg hc] at h; exact hother rfl h

end EsbuildModel.Json
