import EsbuildModel.Lemmas.CjsWrapStep1
import EsbuildModel.Lemmas.CjsWrapStep2
/-! Steps 1 and 2 together (`CjsWrap.scan`), expressed in the graph `graphOf o fs0` of the table the linker starts from. -/
namespace EsbuildModel.CjsWrap
open EsbuildModel.Spec.Wrap

/-- the files `recursivelyWrapDependencies` reaches, in terms of the initial graph -/
inductive TouchedG (G : Graph) : Nat → Prop
  | wrapped {x : Nat} : Step1Wrap G x → TouchedG G x
  | cjs {x j : Nat} : IsCommonJS G x → G.imports j x → TouchedG G x
  | step {y x : Nat} : TouchedG G y → ¬ G.runtime y → G.imports y x → TouchedG G x

theorem WF.of_st {a c : Files} (h : St a c) (hwf : WF a) : WF c := by
  intro i f hf
  obtain ⟨f0, h0, _⟩ := h.get hf
  obtain ⟨hr, _, hs, _⟩ := h.recs h0 hf
  rw [hr, hs, ← h.1]
  exact hwf i f0 h0

theorem Edge.of_st {a c : Files} (h : St a c) {j i : Nat} : Edge c j i ↔ Edge a j i := by
  constructor
  · rintro ⟨f, r, hf, hr, ht⟩
    obtain ⟨f0, h0, _⟩ := h.get hf
    exact ⟨f0, r, h0, (h.recs h0 hf).1 ▸ hr, ht⟩
  · rintro ⟨f0, r, h0, hr, ht⟩
    obtain ⟨f, hf, _⟩ := PW.get h h0
    exact ⟨f, r, hf, (h.recs h0 hf).1 ▸ hr, ht⟩

theorem Rt.of_st {a c : Files} (h : St a c) {x : Nat} : Rt c x ↔ Rt a x := by
  constructor
  · rintro ⟨f, hf, hr⟩
    obtain ⟨f0, h0, _⟩ := h.get hf
    exact ⟨f0, h0, (h.recs h0 hf).2.1 ▸ hr⟩
  · rintro ⟨f0, h0, hr⟩
    obtain ⟨f, hf, _⟩ := PW.get h h0
    exact ⟨f, hf, (h.recs h0 hf).2.1 ▸ hr⟩

theorem StarE.of_st {a c : Files} (h : St a c) {i j : Nat} : StarE c i j ↔ StarE a i j := by
  constructor
  · rintro ⟨f, s, r, hf, hs, hr, ht⟩
    obtain ⟨f0, h0, _⟩ := h.get hf
    obtain ⟨e1, _, e3, _⟩ := h.recs h0 hf
    exact ⟨f0, s, r, h0, e3 ▸ hs, e1 ▸ hr, ht⟩
  · rintro ⟨f0, s, r, h0, hs, hr, ht⟩
    obtain ⟨f, hf, _⟩ := PW.get h h0
    obtain ⟨e1, _, e3, _⟩ := h.recs h0 hf
    exact ⟨f, s, r, hf, e3 ▸ hs, e1 ▸ hr, ht⟩

theorem ExtStar.of_st {o : Opts} {a c : Files} (h : St a c) {i : Nat} : ExtStar o c i ↔ ExtStar o a i := by
  constructor
  · rintro ⟨f, s, r, hf, hs, hr, ht, hc⟩
    obtain ⟨f0, h0, _⟩ := h.get hf
    obtain ⟨e1, _, e3, e4⟩ := h.recs h0 hf
    exact ⟨f0, s, r, h0, e3 ▸ hs, e1 ▸ hr, ht, e4 ▸ hc⟩
  · rintro ⟨f0, s, r, h0, hs, hr, ht, hc⟩
    obtain ⟨f, hf, _⟩ := PW.get h h0
    obtain ⟨e1, _, e3, e4⟩ := h.recs h0 hf
    exact ⟨f, s, r, hf, e3 ▸ hs, e1 ▸ hr, ht, e4 ▸ hc⟩

/-- the result of step 1, as the lemmas about step 2 need it -/
structure After1 (o : Opts) (fs0 fs1 : Files) : Prop where
  st : St fs0 fs1
  nodid : NoDid fs1
  same : ∀ (i : Nat) (f0 f : File), fs0[i]? = some f0 → fs1[i]? = some f →
    f.force = f0.force ∧ f.needsExportsVar = f0.needsExportsVar
  kind : ∀ (i : Nat) (f0 f : File), fs0[i]? = some f0 → fs1[i]? = some f →
    (IsCommonJS (graphOf o fs0) i → f.kind = .cjs) ∧ (¬ IsCommonJS (graphOf o fs0) i → f.kind = f0.kind)
  wrap : ∀ (i : Nat) (f0 f : File), fs0[i]? = some f0 → fs1[i]? = some f →
    (Step1Wrap (graphOf o fs0) i → f.wrap = wrap0 f0.kind) ∧ (¬ Step1Wrap (graphOf o fs0) i → f.wrap = .none)

theorem after1 {o : Opts} {fs0 fs1 : Files} {order : List Nat} (hfr : Fresh fs0) (hcov : Covers order fs0)
    (h : step1 o order fs0 = some fs1) : After1 o fs0 fs1 := by
  obtain ⟨hlen, hp⟩ := step1_spec hfr hcov h
  refine ⟨⟨hlen.symm, fun i f0 f h0 hf => (hp i f0 f h0 hf).1⟩, ?_, ?_, ?_, ?_⟩
  · intro i f hf
    obtain ⟨f0, h0⟩ := get_of_lt (fs := fs0) (i := i) (hlen ▸ lt_of_get hf)
    rw [(hp i f0 f h0 hf).2.1]
    exact (hfr i f0 h0).2
  · intro i f0 f h0 hf
    exact ⟨(hp i f0 f h0 hf).2.2.1, (hp i f0 f h0 hf).2.2.2.1⟩
  · intro i f0 f h0 hf
    exact ⟨(hp i f0 f h0 hf).2.2.2.2.1, (hp i f0 f h0 hf).2.2.2.2.2.1⟩
  · intro i f0 f h0 hf
    exact ⟨(hp i f0 f h0 hf).2.2.2.2.2.2.1, (hp i f0 f h0 hf).2.2.2.2.2.2.2⟩

/-- kind CommonJS after step 1 = `IsCommonJS` -/
theorem After1.cjs_iff {o : Opts} {fs0 fs1 : Files} (a : After1 o fs0 fs1) {i : Nat} {f0 f : File}
    (h0 : fs0[i]? = some f0) (hf : fs1[i]? = some f) : f.kind = .cjs ↔ IsCommonJS (graphOf o fs0) i := by
  constructor
  · intro hk
    apply Classical.byContradiction
    intro hn
    have := (a.kind i f0 f h0 hf).2 hn
    apply hn
    left
    rw [kind0_eq h0, ← this, hk]; rfl
  · exact (a.kind i f0 f h0 hf).1

theorem After1.wrap_iff {o : Opts} {fs0 fs1 : Files} (a : After1 o fs0 fs1) {i : Nat} {f0 f : File}
    (h0 : fs0[i]? = some f0) (hf : fs1[i]? = some f) : f.wrap ≠ .none ↔ Step1Wrap (graphOf o fs0) i := by
  constructor
  · intro hw
    apply Classical.byContradiction
    intro hn
    exact hw ((a.wrap i f0 f h0 hf).2 hn)
  · intro hs
    rw [(a.wrap i f0 f h0 hf).1 hs]
    exact wrap0_ne_none _

theorem inrange_of_imports {o : Opts} {fs0 : Files} (hwf : WF fs0) {j i : Nat}
    (h : (graphOf o fs0).imports j i) : i < fs0.length := by
  obtain ⟨f, r, hf, hr, ht⟩ := h
  exact (hwf j f hf).1 r hr i ht

theorem imports_of_lazy {o : Opts} {fs0 : Files} {j i : Nat} (h : (graphOf o fs0).lazyImports j i) :
    (graphOf o fs0).imports j i := by
  obtain ⟨f, r, hf, hr, ht, _⟩ := h
  exact ⟨f, r, hf, hr, ht⟩

theorem imports_of_ns {o : Opts} {fs0 : Files} {j i : Nat} (h : (graphOf o fs0).nsImports j i) :
    (graphOf o fs0).imports j i := by
  obtain ⟨f, r, hf, hr, ht, _⟩ := h
  exact ⟨f, r, hf, hr, ht⟩

theorem inrange_of_isCommonJS {o : Opts} {fs0 : Files} (hwf : WF fs0) {i : Nat}
    (h : IsCommonJS (graphOf o fs0) i) : i < fs0.length := by
  rcases h with hk | ⟨_, j, hl⟩ | ⟨_, _, j, hl⟩
  · rcases Nat.lt_or_ge i fs0.length with h' | h'
    · exact h'
    · have : (graphOf o fs0).kind0 i = .none := by simp [graphOf, List.getElem?_eq_none h']
      rw [this] at hk; cases hk
  · exact inrange_of_imports hwf (imports_of_lazy hl)
  · exact inrange_of_imports hwf (imports_of_ns hl)

theorem inrange_of_step1Wrap {o : Opts} {fs0 : Files} (hwf : WF fs0) {i : Nat}
    (h : Step1Wrap (graphOf o fs0) i) : i < fs0.length := by
  rcases h with ⟨j, hl⟩ | ⟨_, _, j, hl⟩ | ⟨hc, _⟩
  · exact inrange_of_imports hwf (imports_of_lazy hl)
  · exact inrange_of_imports hwf (imports_of_ns hl)
  · exact inrange_of_isCommonJS hwf hc

theorem After1.touched_iff {o : Opts} {fs0 fs1 : Files} (hwf : WF fs0) (a : After1 o fs0 fs1) (x : Nat) :
    Touched fs1 x ↔ TouchedG (graphOf o fs0) x := by
  constructor
  · intro h
    induction h with
    | wrapped hb hw =>
      obtain ⟨f0, h0, _⟩ := a.st.get hb
      exact .wrapped ((a.wrap_iff h0 hb).1 hw)
    | cjs hb hk he =>
      obtain ⟨f0, h0, _⟩ := a.st.get hb
      exact .cjs ((a.cjs_iff h0 hb).1 hk) ((Edge.of_st a.st).1 he)
    | step _ hr he ih => exact .step ih (fun h' => hr ((Rt.of_st a.st).2 h')) ((Edge.of_st a.st).1 he)
  · intro h
    induction h with
    | wrapped hs =>
      rename_i x
      obtain ⟨f0, h0⟩ := get_of_lt (inrange_of_step1Wrap hwf hs)
      obtain ⟨f, hf, _⟩ := PW.get a.st h0
      exact .wrapped hf ((a.wrap_iff h0 hf).2 hs)
    | cjs hc he =>
      rename_i x j
      obtain ⟨f0, h0⟩ := get_of_lt (inrange_of_isCommonJS hwf hc)
      obtain ⟨f, hf, _⟩ := PW.get a.st h0
      exact .cjs hf ((a.cjs_iff h0 hf).2 hc) ((Edge.of_st a.st).2 he)
    | step _ hr he ih => exact .step ih (fun h' => hr ((Rt.of_st a.st).1 h')) ((Edge.of_st a.st).2 he)

theorem After1.dy_iff {o : Opts} {fs0 fs1 : Files} (hwf : WF fs0) (a : After1 o fs0 fs1) (j : Nat) :
    Dy fs1 j ↔ Opaque (graphOf o fs0) j := by
  constructor
  · rintro ⟨f, hf, hk⟩
    obtain ⟨f0, h0, _⟩ := a.st.get hf
    rcases hk with hk | hk
    · exact Or.inl ((a.cjs_iff h0 hf).1 hk)
    · by_cases hc : IsCommonJS (graphOf o fs0) j
      · exact Or.inl hc
      · right
        rw [kind0_eq h0, ← (a.kind j f0 f h0 hf).2 hc, hk]; rfl
  · intro h
    have hj : j < fs0.length := by
      rcases h with h | h
      · exact inrange_of_isCommonJS hwf h
      · rcases Nat.lt_or_ge j fs0.length with h' | h'
        · exact h'
        · have : (graphOf o fs0).kind0 j = .none := by simp [graphOf, List.getElem?_eq_none h']
          rw [this] at h; cases h
    obtain ⟨f0, h0⟩ := get_of_lt hj
    obtain ⟨f, hf, _⟩ := PW.get a.st h0
    refine ⟨f, hf, ?_⟩
    by_cases hc : IsCommonJS (graphOf o fs0) j
    · exact Or.inl ((a.kind j f0 f h0 hf).1 hc)
    · rcases h with h | h
      · exact absurd h hc
      · right
        rw [(a.kind j f0 f h0 hf).2 hc]
        rw [kind0_eq h0] at h
        exact toSpec_inj.1 h

theorem After1.ds_iff {o : Opts} {fs0 fs1 : Files} (hwf : WF fs0) (a : After1 o fs0 fs1) (i : Nat) :
    DS o fs1 fs1 i ↔ DynStar (graphOf o fs0) i := by
  constructor
  · intro h
    induction h with
    | ext he => exact .ext ((ExtStar.of_st a.st).1 he)
    | base hs hd => exact .base ((StarE.of_st a.st).1 hs) ((a.dy_iff hwf _).1 hd)
    | step hs _ ih => exact .step ((StarE.of_st a.st).1 hs) ih
  · intro h
    induction h with
    | ext he => exact .ext ((ExtStar.of_st a.st).2 he)
    | base hs hd => exact .base ((StarE.of_st a.st).2 hs) ((a.dy_iff hwf _).2 hd)
    | step hs _ ih => exact .step ((StarE.of_st a.st).2 hs) ih

/-- **Steps 1 and 2 never panic and always terminate** on a well-formed table, cyclic or not. -/
theorem scan_total {o : Opts} {fs0 : Files} {order : List Nat} (hwf : WF fs0) (hfr : Fresh fs0)
    (hcov : Covers order fs0) : ∃ fs2, scan o order fs0 = some fs2 := by
  obtain ⟨fs1, e1⟩ := step1_some (o := o) hwf hfr hcov.1
  have a := after1 hfr hcov e1
  obtain ⟨fs2, e2, _⟩ := step2_ok (o := o) (order := order) (WF.of_st a.st hwf) a.nodid
    (fun i hi => by rw [← a.st.1]; exact hcov.1 i hi)
  exact ⟨fs2, by simp [scan, e1, e2]⟩

/-- **What steps 1 and 2 compute**, for every order of the files, in terms of the initial graph. -/
theorem scan_spec {o : Opts} {fs0 fs2 : Files} {order : List Nat} (hwf : WF fs0) (hfr : Fresh fs0)
    (hcov : Covers order fs0) (h : scan o order fs0 = some fs2) :
    fs2.length = fs0.length ∧ ∀ (i : Nat) (f0 f2 : File), fs0[i]? = some f0 → fs2[i]? = some f2 →
      f2.static = f0.static ∧ f2.force = f0.force ∧ f2.needsExportsVar = f0.needsExportsVar ∧
      (f2.didWrap = true ↔ TouchedG (graphOf o fs0) i) ∧
      (Step1Wrap (graphOf o fs0) i → f2.wrap = wrap0 f0.kind) ∧
      (¬ Step1Wrap (graphOf o fs0) i → TouchedG (graphOf o fs0) i → ¬ (graphOf o fs0).runtime i →
        (IsCommonJS (graphOf o fs0) i → f2.wrap = .cjs) ∧ (¬ IsCommonJS (graphOf o fs0) i → f2.wrap = .esm)) ∧
      (¬ Step1Wrap (graphOf o fs0) i → (¬ TouchedG (graphOf o fs0) i ∨ (graphOf o fs0).runtime i) → f2.wrap = .none) ∧
      (IsCommonJS (graphOf o fs0) i → f2.kind = .cjs) ∧
      (¬ IsCommonJS (graphOf o fs0) i → DynStar (graphOf o fs0) i → f2.kind = .dyn) ∧
      (¬ IsCommonJS (graphOf o fs0) i → ¬ DynStar (graphOf o fs0) i → f2.kind = f0.kind) := by
  unfold scan at h
  cases e1 : step1 o order fs0 with
  | none => rw [e1] at h; cases h
  | some fs1 =>
    rw [e1] at h
    simp only [Option.bind_some] at h
    have a := after1 hfr hcov e1
    have hcov1 : Covers order fs1 := by rw [Covers, ← a.st.1]; exact hcov
    obtain ⟨hlen, hp⟩ := step2_spec (WF.of_st a.st hwf) a.nodid hcov1 h
    refine ⟨hlen.trans a.st.1.symm, ?_⟩
    intro i f0 f2 h0 h2
    obtain ⟨f1, h1, hs1⟩ := PW.get a.st h0
    obtain ⟨hs, hf, hn, hd, hw1, hw2, hk1, hk2, hk3⟩ := hp i f1 f2 h1 h2
    have hrt : f1.isRuntime = f0.isRuntime := (a.st.recs h0 h1).2.1
    have htch := a.touched_iff hwf i
    have hcjs := a.cjs_iff h0 h1
    refine ⟨hs.trans hs1, hf.trans (a.same i f0 f1 h0 h1).1, hn.trans (a.same i f0 f1 h0 h1).2, hd.trans htch, ?_, ?_, ?_, ?_, ?_, ?_⟩
    · intro hst
      have hw : f1.wrap = wrap0 f0.kind := (a.wrap i f0 f1 h0 h1).1 hst
      by_cases ht : Touched fs1 i
      · rw [hw1 ht, wrapOf_eq, hw]
        have := wrap0_ne_none f0.kind
        simp [this]
      · rw [hw2 ht, hw]
    · intro hnst ht hnrt
      have hw : f1.wrap = .none := (a.wrap i f0 f1 h0 h1).2 hnst
      have hr : f1.isRuntime = false := by
        cases hr : f1.isRuntime with
        | false => rfl
        | true => exact absurd ⟨f0, h0, hrt ▸ hr⟩ hnrt
      have := hw1 (htch.2 ht)
      rw [wrapOf_eq, hr, hw] at this
      constructor
      · intro hc
        rw [this]; simp [hcjs.2 hc]
      · intro hc
        have : ¬ f1.kind = .cjs := fun h' => hc (hcjs.1 h')
        rw [‹f2.wrap = _›]; simp [this]
    · intro hnst hor
      have hw : f1.wrap = .none := (a.wrap i f0 f1 h0 h1).2 hnst
      rcases hor with hnt | hr
      · rw [hw2 (fun h' => hnt (htch.1 h')), hw]
      · by_cases ht : Touched fs1 i
        · obtain ⟨g, hg, hgr⟩ := hr
          rw [h0] at hg; injection hg with hg; subst hg
          rw [hw1 ht, wrapOf_eq, hrt, hgr, hw]; simp
        · rw [hw2 ht, hw]
    · intro hc
      have hk : f1.kind = .cjs := hcjs.2 hc
      rw [hk1 ⟨f1, h1, Or.inl hk⟩, hk]
    · intro hc hds
      have hds1 : DS o fs1 fs1 i := (a.ds_iff hwf i).2 hds
      by_cases hdy : Dy fs1 i
      · obtain ⟨g, hg, hgk⟩ := hdy
        rw [h1] at hg; injection hg with hg; subst hg
        rcases hgk with hgk | hgk
        · exact absurd (hcjs.1 hgk) hc
        · rw [hk1 ⟨f1, h1, Or.inr hgk⟩, hgk]
      · exact hk2 hdy hds1
    · intro hc hnds
      have hnds1 : ¬ DS o fs1 fs1 i := fun h' => hnds ((a.ds_iff hwf i).1 h')
      have hk01 : f1.kind = f0.kind := (a.kind i f0 f1 h0 h1).2 hc
      by_cases hdy : Dy fs1 i
      · rw [hk1 hdy, hk01]
      · rw [hk3 hdy hnds1, hk01]

end EsbuildModel.CjsWrap
