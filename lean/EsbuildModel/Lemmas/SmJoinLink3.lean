import EsbuildModel.Lemmas.SmJoinLink2
/-!
# Helper lemmas for `Props/C07Join.lean` — part 8: the whole loop, and the segments of the joined file
-/
namespace EsbuildModel.SmJoin
open Vlq
open Spec.SourceMapV3 (Ev Orig Seg segsOf LineCol place)

theorem link_step (P : List Ev) (E : LineCol) (names : Int) (s : LinkState) (hinv : LinkInv P E names s)
    (p : Piece) (hok : p.ok) :
    ∃ s', linkStep s p.toLinkIn = some s' ∧
      LinkInv (P ++ pieceEvs E names p) (pieceEnd E p) (names + p.names) s' := by
  cases p with
  | chunk cover bevs off si q =>
    obtain ⟨hig, hlines⟩ := hok
    rw [buildChunk_eq] at hig
    simp only at hig
    have := link_step_chunk_evs P E names s hinv (lower cover bevs) off si q (lowerEnd cover {} bevs).gc hig
      (allSrc_lower cover bevs) hlines
    rw [Piece.toLinkIn, buildChunk_eq]
    exact this
  | null si =>
    obtain ⟨s', h1, h2⟩ := link_step_null P E names s hinv si
    refine ⟨s', h1, ?_⟩
    have e1 : pieceEvs E names (Piece.null si) = [Ev.seg E.columns none] := by
      simp [pieceEvs, Piece.offsetLC, Piece.evs, shiftEvs, LineCol.add]
    have e2 : pieceEnd E (Piece.null si) = E := by
      cases E; simp [pieceEnd, Piece.offsetLC, Piece.extent, LineCol.add]
    rw [e1, e2]
    simpa [Piece.names] using h2

theorem link_loop (ps : List Piece) (hok : ∀ p ∈ ps, p.ok) (P : List Ev) (E : LineCol) (names : Int)
    (s : LinkState) (hinv : LinkInv P E names s) :
    ∃ s' E' names', linkLoop s (ps.map Piece.toLinkIn) = some s' ∧
      LinkInv (P ++ joinedEvs E names ps) E' names' s' := by
  induction ps generalizing P E names s with
  | nil => exact ⟨s, E, names, rfl, by simpa [joinedEvs] using hinv⟩
  | cons p ps ih =>
    obtain ⟨s1, h1, h2⟩ := link_step P E names s hinv p (hok p (by simp))
    obtain ⟨s', E', n', h3, h4⟩ := ih (fun q hq => hok q (by simp [hq])) _ _ _ s1 h2
    refine ⟨s', E', n', ?_, ?_⟩
    · simp only [List.map_cons, linkLoop, h1, h3]
    · simpa [joinedEvs, List.append_assoc] using h4

/-- **Joining is sequential encoding**: the bytes the linker's loop writes between the quotes of `"mappings"` are
what one sequential encoder writes, from the zero state, for the line breaks and segments of all pieces laid out
one after the other. -/
theorem linkJoin_eq (ps : List Piece) (hok : ∀ p ∈ ps, p.ok) :
    linkJoin (ps.map Piece.toLinkIn) = some (encEvs {} 34 (joinedEvs {} 0 ps)).bytes := by
  have hinit : LinkInv [] {} 0 { j := ⟨[], 34⟩ } := by
    constructor <;> simp [encEvs, nlCount]
  obtain ⟨s', E', n', h1, h2⟩ := link_loop ps hok [] {} 0 _ hinit
  unfold linkJoin
  rw [h1]
  simp only [List.nil_append] at h2
  simp only [h2.data]

/-! ## the segments of the joined file -/

theorem segsOf_nls (L K : Nat) (evs : List Ev) :
    segsOf L (List.replicate K Ev.nl ++ evs) = segsOf (L + K) evs := by
  induction K generalizing L with
  | zero => simp
  | succ n ih => simp only [List.replicate_succ, List.cons_append, segsOf, ih]; congr 1; omega

theorem segsOf_shift (evs : List Ev) (m L : Nat) (δ : Shift) (hdl : δ.dl = 0) (hdc : δ.dc = 0) :
    segsOf (L + m) (shiftEvs (if m = 0 then δ else δ.noCol) evs) =
      (segsOf m evs).map (place L δ.c δ.a δ.b) := by
  induction evs generalizing m with
  | nil => simp [shiftEvs, segsOf]
  | cons e es ih =>
    cases e with
    | nl =>
      simp only [shiftEvs, segsOf]
      have h1 : (if m = 0 then δ else δ.noCol).noCol = (if m + 1 = 0 then δ else δ.noCol) := by
        by_cases hm : m = 0 <;> simp [hm, Shift.noCol_noCol]
      rw [h1, ← ih (m + 1)]
      congr 1
    | seg c o =>
      simp only [shiftEvs, segsOf, List.map_cons, ih m]
      congr 1
      by_cases hm : m = 0
      · subst hm
        cases o with
        | none => simp [place]
        | some o => simp [place, shiftOrig, hdl, hdc]
      · cases o with
        | none => simp [place, hm, Shift.noCol]; omega
        | some o => simp [place, shiftOrig, hm, Shift.noCol, hdl, hdc]; omega

/-- the segments of every piece, moved to the piece's place in the joined file -/
def placedFrom (E : LineCol) (names : Int) : List Piece → List Seg
  | [] => []
  | p :: ps =>
    (segsOf 0 p.evs).map (place (E.add p.offsetLC).lines.toNat (E.add p.offsetLC).columns p.src names) ++
      placedFrom (pieceEnd E p) (names + p.names) ps

theorem Piece.ok_lines {p : Piece} (h : p.ok) : 0 ≤ p.offsetLC.lines := by
  cases p with
  | chunk cover bevs off si q => exact h.2
  | null si => simp [Piece.offsetLC]

theorem Piece.extent_lines (p : Piece) : p.extent.lines = nlCount p.evs := by
  cases p <;> simp [Piece.extent, Piece.evs, nlCount]

theorem add_lines (a b : LineCol) : (a.add b).lines = a.lines + b.lines := by
  unfold LineCol.add; split <;> simp_all

theorem nlCount_pieceEvs (E : LineCol) (names : Int) (p : Piece) :
    nlCount (pieceEvs E names p) = p.offsetLC.lines.toNat + nlCount p.evs := by
  unfold pieceEvs; rw [nlCount_append, nlCount_replicate, nlCount_shiftEvs]

theorem segsOf_joined (ps : List Piece) (hok : ∀ p ∈ ps, p.ok) (E : LineCol) (hE : 0 ≤ E.lines) (names : Int) :
    segsOf E.lines.toNat (joinedEvs E names ps) = placedFrom E names ps := by
  induction ps generalizing E names with
  | nil => rfl
  | cons p ps ih =>
    have hp := Piece.ok_lines (hok p (by simp))
    have hS : (E.add p.offsetLC).lines.toNat = E.lines.toNat + p.offsetLC.lines.toNat := by
      rw [add_lines]; omega
    have hend : (pieceEnd E p).lines = E.lines + p.offsetLC.lines + nlCount p.evs := by
      unfold pieceEnd; rw [add_lines, add_lines, Piece.extent_lines]
    have hend' : E.lines.toNat + nlCount (pieceEvs E names p) = (pieceEnd E p).lines.toNat := by
      rw [nlCount_pieceEvs, hend]; omega
    simp only [joinedEvs, placedFrom]
    rw [segsOf_append, hend', ih (fun q hq => hok q (by simp [hq])) _ (by rw [hend]; omega)]
    congr 1
    unfold pieceEvs
    rw [segsOf_nls, hS]
    have := segsOf_shift p.evs 0 (E.lines.toNat + p.offsetLC.lines.toNat)
      ⟨(E.add p.offsetLC).columns, p.src, 0, 0, names⟩ rfl rfl
    simpa using this

end EsbuildModel.SmJoin
