import EsbuildModel.Lemmas.CssLexView
import EsbuildModel.Lemmas.CssLexEscape
/-!
Foundation of the comparison model ↔ CSS Syntax 3: preprocessing seen from the front of the stream, the character
classes, and the hypotheses (`Tame`) under which the comparison is proved.
-/
namespace EsbuildModel.CssLex
open EsbuildModel.Spec
open EsbuildModel.Spec.Unicode (IsScalar)

/-- the preprocessed code points of a state of the lexer -/
def ppS (s : List Ch) : List Nat := CssSyntax.preprocess (cpsOf s)

/-- CR immediately followed by LF -/
def crlfAt (c : Ch) (t : List Ch) : Bool := c.cp == 13 && headIs (· == 10) t

theorem ppS_nil : ppS [] = [] := rfl

/-- a CR in front of an LF disappears in preprocessing -/
theorem ppS_crlf (c : Ch) (t : List Ch) (h : crlfAt c t = true) : ppS (c :: t) = ppS t := by
  simp only [crlfAt, Bool.and_eq_true, beq_iff_eq] at h
  cases t with
  | nil => simp [headIs] at h
  | cons d u =>
    simp only [headIs, beq_iff_eq] at h
    simp only [ppS, cpsOf, List.map_cons, h.1, h.2]
    cases hu : u.map (·.cp) with
    | nil => simp [CssSyntax.preprocess, CssSyntax.preprocessOne, CssSyntax.isSurrogate]
    | cons e v =>
      simp only [CssSyntax.preprocess, and_self, if_true]
      have : ¬ ((10 : Nat) = 13 ∧ e = 10) := by omega
      simp [this, CssSyntax.preprocessOne, CssSyntax.isSurrogate]

/-- every other rune is preprocessed on its own -/
theorem ppS_cons (c : Ch) (t : List Ch) (h : crlfAt c t = false) :
    ppS (c :: t) = CssSyntax.preprocessOne c.cp :: ppS t := by
  cases t with
  | nil => simp [ppS, cpsOf, CssSyntax.preprocess]
  | cons d u =>
    simp only [crlfAt, headIs, Bool.and_eq_false_imp, beq_iff_eq, beq_eq_false_iff_ne] at h
    simp only [ppS, cpsOf, List.map_cons, CssSyntax.preprocess]
    have : ¬ (c.cp = 13 ∧ d.cp = 10) := fun hh => h hh.1 hh.2
    simp [this]

/-- the first preprocessed code point is always the preprocessed first rune -/
theorem ppS_head (c : Ch) (t : List Ch) : ∃ r, ppS (c :: t) = CssSyntax.preprocessOne c.cp :: r := by
  by_cases h : crlfAt c t = true
  · have h' := h
    simp only [crlfAt, Bool.and_eq_true, beq_iff_eq] at h'
    cases t with
    | nil => simp [headIs] at h'
    | cons d u =>
      simp only [headIs, beq_iff_eq] at h'
      rw [ppS_crlf c _ h]
      have hd : crlfAt d u = false := by simp [crlfAt, h'.2]
      rw [ppS_cons d u hd]
      exact ⟨ppS u, by simp [CssSyntax.preprocessOne, h'.1, h'.2, CssSyntax.isSurrogate]⟩
  · exact ⟨ppS t, ppS_cons c t (by simpa using h)⟩

/-- what preprocessing does to a single rune of a tame input (no NUL; the decoder never returns a surrogate) -/
def ppc (c : Nat) : Nat := if c = 13 ∨ c = 12 then 10 else c

theorem preprocessOne_eq (c : Nat) (hs : IsScalar c) (h0 : c ≠ 0) : CssSyntax.preprocessOne c = ppc c := by
  unfold IsScalar at hs
  unfold CssSyntax.preprocessOne ppc CssSyntax.isSurrogate
  split
  · rfl
  · have : ¬ (c = 0 ∨ (decide (0xD800 ≤ c) && decide (c ≤ 0xDFFF)) = true) := by
      simp only [Bool.and_eq_true, decide_eq_true_eq, not_or, not_and]; omega
    rw [if_neg this]

/-! ### character classes -/

/-- turn an equation between Boolean class tests into linear arithmetic -/
macro "bool_omega" : tactic =>
  `(tactic| (rw [Bool.eq_iff_iff] <;>
             (try simp only [Bool.or_eq_true, Bool.and_eq_true, decide_eq_true_eq, beq_iff_eq, ge_iff_le]) <;>
             first | omega | (constructor <;> intro _ <;> omega) | (simp; omega) | (simp <;> omega)))

theorem cls_newline (c : Nat) : CssSyntax.isNewline (ppc c) = isNewline c := by
  unfold CssSyntax.isNewline ppc isNewline
  split <;> bool_omega

theorem cls_whitespace (c : Nat) : CssSyntax.isWhitespace (ppc c) = isWhitespace c := by
  unfold CssSyntax.isWhitespace CssSyntax.isNewline isWhitespace ppc
  split <;> bool_omega

theorem cls_digit (c : Nat) : CssSyntax.isDigit (ppc c) = isDigit c := by
  unfold CssSyntax.isDigit isDigit ppc
  split <;> bool_omega

theorem cls_identStart (c : Nat) (h0 : c ≠ 0) : CssSyntax.isIdentStart (ppc c) = isNameStart c := by
  unfold CssSyntax.isIdentStart CssSyntax.isLetter CssSyntax.isNonAscii isNameStart ppc
  split <;> bool_omega

theorem cls_identCode (c : Nat) (h0 : c ≠ 0) : CssSyntax.isIdentCode (ppc c) = isNameContinue c := by
  unfold CssSyntax.isIdentCode CssSyntax.isIdentStart CssSyntax.isLetter CssSyntax.isNonAscii CssSyntax.isDigit
    isNameContinue isNameStart isDigit ppc
  split <;> bool_omega

theorem cls_hex (c : Nat) : CssSyntax.isHexDigit (ppc c) = (isHex c).isSome ∧
    ∀ d, isHex c = some d → CssSyntax.hexValue (ppc c) = d := by
  unfold ppc
  split
  · next h => rcases h with h | h <;> subst h <;> decide
  · unfold CssSyntax.isHexDigit CssSyntax.hexValue CssSyntax.isDigit isHex
    constructor
    · split
      · next h => simp [h.1, h.2]
      · split
        · next h1 h2 =>
          have : ¬ (48 ≤ c ∧ c ≤ 57) := h1
          have h3 : ¬ (65 ≤ c ∧ c ≤ 70) := by omega
          simp [h2.1, h2.2]
        · split
          · next h1 h2 h3 => simp [h3.1, h3.2]
          · next h1 h2 h3 =>
            simp only [Option.isSome_none, Bool.or_eq_false_iff, Bool.and_eq_false_imp, decide_eq_true_eq,
              decide_eq_false_iff_not]
            omega
    · intro d hd
      split at hd
      · next h => simp only [Option.some.injEq] at hd; simp [h.1, h.2, hd]
      · split at hd
        · next h1 h2 =>
          simp only [Option.some.injEq] at hd
          have : ¬ (48 ≤ c ∧ c ≤ 57) := h1
          have h4 : ¬ c ≤ 70 := by omega
          have h5 : (decide (48 ≤ c) && decide (c ≤ 57)) = false := by simp; omega
          simp only [h5, Bool.false_eq_true, if_false, h4]; omega
        · split at hd
          · next h1 h2 h3 =>
            simp only [Option.some.injEq] at hd
            have h5 : (decide (48 ≤ c) && decide (c ≤ 57)) = false := by simp; omega
            simp only [h5, Bool.false_eq_true, if_false, h3.2, if_true]; omega
          · simp at hd

theorem cls_nonPrintable (c : Nat) (h0 : c ≠ 0) : CssSyntax.isNonPrintable (ppc c) = isNonPrintable c := by
  unfold CssSyntax.isNonPrintable isNonPrintable ppc
  split <;> bool_omega

end EsbuildModel.CssLex
