import EsbuildModel.Lemmas.OutPathsClean
/-
`rel` (Go's filepath.Rel as copied into esbuild) on absolute paths, at the level of names:
strip the common prefix, go up once per remaining name of the base, then down the remaining names of
the target.
-/
namespace EsbuildModel.OutPaths
open EsbuildModel.Spec.OutPath

/-- names that can be the elements of a cleaned path: no separator inside, not empty -/
def Elem (x : Str) : Prop := x ≠ [] ∧ '/' ∉ x

theorem ValidName.elem {x : Str} (h : ValidName x) : Elem x := ⟨h.1, h.2.1⟩

theorem tw_cons_ne {c : Char} (hc : c ≠ '/') (x : List Char) :
    (c :: x).takeWhile (fun c => decide (c ≠ '/')) = c :: x.takeWhile (fun c => decide (c ≠ '/')) ∧
    (c :: x).dropWhile (fun c => decide (c ≠ '/')) = x.dropWhile (fun c => decide (c ≠ '/')) := by
  have : decide (c ≠ '/') = true := decide_eq_true hc
  constructor
  · rw [List.takeWhile_cons, this]; rfl
  · rw [List.dropWhile_cons, this]; rfl

theorem tw_slash (x : List Char) :
    ('/' :: x).takeWhile (fun c => decide (c ≠ '/')) = [] ∧
    ('/' :: x).dropWhile (fun c => decide (c ≠ '/')) = '/' :: x := by
  constructor
  · rw [List.takeWhile_cons]; rfl
  · rw [List.dropWhile_cons]; rfl

theorem takeWhile_noslash_append {x : Str} (h : '/' ∉ x) (r : Str) :
    (x ++ '/' :: r).takeWhile (fun c => decide (c ≠ '/')) = x ∧
    (x ++ '/' :: r).dropWhile (fun c => decide (c ≠ '/')) = '/' :: r := by
  induction x with
  | nil => exact tw_slash r
  | cons c x ih =>
    have hc : c ≠ '/' := fun e => h (by simp [e])
    have := ih (fun e => h (by simp [e]))
    have h2 := tw_cons_ne hc (x ++ '/' :: r)
    rw [List.cons_append, h2.1, h2.2, this.1, this.2]
    exact ⟨rfl, rfl⟩

theorem takeWhile_noslash {x : Str} (h : '/' ∉ x) :
    x.takeWhile (fun c => decide (c ≠ '/')) = x ∧ x.dropWhile (fun c => decide (c ≠ '/')) = [] := by
  induction x with
  | nil => exact ⟨rfl, rfl⟩
  | cons c x ih =>
    have hc : c ≠ '/' := fun e => h (by simp [e])
    have := ih (fun e => h (by simp [e]))
    have h2 := tw_cons_ne hc x
    rw [h2.1, h2.2, this.1, this.2]
    exact ⟨rfl, rfl⟩

/-- first element of a joined list and what follows it -/
theorem joinSlash_first {x : Str} (hx : '/' ∉ x) (X : List Str) :
    (joinSlash (x :: X)).takeWhile (fun c => decide (c ≠ '/')) = x ∧
    ((joinSlash (x :: X)).dropWhile (fun c => decide (c ≠ '/'))).drop 1 = joinSlash X := by
  cases X with
  | nil =>
    rw [joinSlash_singleton]
    have := takeWhile_noslash hx
    rw [this.1, this.2, joinSlash_nil]
    exact ⟨rfl, rfl⟩
  | cons y X =>
    rw [joinSlash_cons_cons]
    have := takeWhile_noslash_append hx (joinSlash (y :: X))
    rw [this.1, this.2]
    exact ⟨rfl, rfl⟩

/-- strip the common leading names of two name lists -/
def stripCommon : List Str → List Str → List Str × List Str
  | b :: bs, t :: ts => if b = t then stripCommon bs ts else (b :: bs, t :: ts)
  | bs, ts => (bs, ts)

theorem stripCommon_eq (B T : List Str) :
    ∃ C, B = C ++ (stripCommon B T).1 ∧ T = C ++ (stripCommon B T).2 := by
  induction B generalizing T with
  | nil => exact ⟨[], by simp [stripCommon]⟩
  | cons b B ih =>
    cases T with
    | nil => exact ⟨[], by simp [stripCommon]⟩
    | cons t T =>
      unfold stripCommon
      by_cases h : b = t
      · subst h
        obtain ⟨C, h1, h2⟩ := ih T
        refine ⟨b :: C, ?_, ?_⟩
        · simp only [if_true, List.cons_append]; rw [← h1]
        · simp only [if_true, List.cons_append]; rw [← h2]
      · exact ⟨[], by simp [h]⟩

theorem stripCommon_nil_nil {B T : List Str} (h : stripCommon B T = ([], [])) : B = T := by
  obtain ⟨C, h1, h2⟩ := stripCommon_eq B T
  rw [h] at h1 h2
  rw [h1, h2]

theorem joinSlash_eq_nil {X : List Str} (hX : ∀ x ∈ X, Elem x) : joinSlash X = [] ↔ X = [] := by
  cases X with
  | nil => simp [joinSlash_nil]
  | cons x X =>
    have hx := (hX x (by simp)).1
    cases X with
    | nil => simp [joinSlash_singleton, hx]
    | cons y X => simp [joinSlash_cons_cons, hx]

/-- the positioning loop of `rel` on two joined name lists -/
theorem relLoop_join (B T : List Str) (hB : ∀ x ∈ B, Elem x) (hT : ∀ x ∈ T, Elem x) :
    relLoop (joinSlash B) (joinSlash T) =
      if stripCommon B T = ([], []) then none
      else some (joinSlash (stripCommon B T).1, joinSlash (stripCommon B T).2,
                 ((stripCommon B T).1.head?).getD []) := by
  induction B generalizing T with
  | nil =>
    cases T with
    | nil => rw [relLoop]; simp [stripCommon, joinSlash_nil]
    | cons t T =>
      have ht := hT t (by simp)
      rw [relLoop]
      have := (joinSlash_first ht.2 T).1
      simp only [joinSlash_nil, List.takeWhile_nil, this]
      have hne : ([] : Str) ≠ t := fun e => ht.1 e.symm
      simp [hne, stripCommon, joinSlash_nil]
  | cons b B ih =>
    have hb := hB b (by simp)
    cases T with
    | nil =>
      rw [relLoop]
      have := (joinSlash_first hb.2 B).1
      simp only [joinSlash_nil, List.takeWhile_nil, this]
      simp [hb.1, stripCommon, joinSlash_nil]
    | cons t T =>
      have ht := hT t (by simp)
      rw [relLoop]
      have h1 := joinSlash_first hb.2 B
      have h2 := joinSlash_first ht.2 T
      simp only [h1.1, h2.1, h1.2, h2.2]
      by_cases hbt : b = t
      · subst hbt
        have hnn : ¬ (joinSlash (b :: B) = [] ∧ joinSlash (b :: T) = []) := by
          intro hh
          exact absurd ((joinSlash_eq_nil hB).mp hh.1) (by simp)
        simp only [ne_eq, not_true_eq_false, if_false, hnn, dite_false]
        rw [ih T (fun x hx => hB x (by simp [hx])) (fun x hx => hT x (by simp [hx]))]
        simp [stripCommon]
      · simp [hbt, stripCommon]

end EsbuildModel.OutPaths
