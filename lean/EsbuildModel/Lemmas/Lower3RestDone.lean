import EsbuildModel.Lemmas.Lower3RestBasic
/-!
The properties `visit` has passed and will emit in one native pattern (`done`): how they relate to the source
properties, and that evaluating them natively does what the source pattern does for these properties, leaving
the captured keys in their temporaries.
-/
namespace EsbuildModel.Lower3

/-- lowered expression against source expression: same value, same user-visible state, from states with the same
user-visible state (whatever the temporaries hold) -/
def SimB (w : World) (e' e₀ : E) : Prop := ∀ s s', s.h = s'.h → RelR (evalE w true e' s) (evalE w true e₀ s')

def ltB (B : Nat) : Nat → Bool := fun k => decide (k < B)

/-- same value, and a fact about the final state of the lowered run -/
def RelP {α : Type} (Q : α → TState → Prop) (a b : R α × TState) : Prop :=
  Outside b.1 ∨ (a.1 = b.1 ∧ a.2.h = b.2.h ∧ ∀ y, b.1 = .ok y → Q y a.2)

theorem RelP.bindQ {α γ δ : Type} {Q : α → TState → Prop} {Q' : δ → TState → Prop}
    {a b : R α × TState} {F : α → TState → R γ × TState} {G : α → TState → R δ × TState}
    (h : RelP Q a b)
    (hk : ∀ v s s', a = (.ok v, s) → b = (.ok v, s') → s.h = s'.h → Q v s → RelQ Q' (F v s) (G v s')) :
    RelQ Q' (bindR a F) (bindR b G) := by
  cases h with
  | inl h => exact Or.inl (outside_bind _ _ h)
  | inr h =>
    obtain ⟨ra, sa⟩ := a
    obtain ⟨rb, sb⟩ := b
    obtain ⟨h1, h2, h3⟩ := h
    simp only at h1 h2 h3
    subst h1
    cases ra with
    | ok x => exact hk x sa sb rfl rfl h2 (h3 x rfl)
    | err e => exact Or.inr ⟨rfl, h2, fun y hy => by simp at hy⟩

/-- the key expression left in the pattern, the captured key, the next free temporary (as in `visit`) -/
def keyCap (hr : Bool) (k : KK) (ke' : E) (m : Nat) : E × CK × Nat :=
  if hr then captureKey k ke' m else (ke', .str "", m)

/-- either nothing is allocated and the key expression stays (the captured key names a temporary only if the
key expression is that temporary), or the key expression is stored in the new temporary m -/
theorem keyCap_next (hr : Bool) (k : KK) (ke' : E) (m : Nat) :
    ((keyCap hr k ke' m).2.2 = m ∧ (keyCap hr k ke' m).1 = ke' ∧ ∀ j, (keyCap hr k ke' m).2.1 = .temp j → ke' = .tmp j) ∨
    ((keyCap hr k ke' m).2.2 = m + 1 ∧ (keyCap hr k ke' m).1 = .asg (.tmp m) ke' ∧ (keyCap hr k ke' m).2.1 = .temp m) := by
  unfold keyCap
  cases hr with
  | false => exact Or.inl ⟨rfl, rfl, fun j h => by simp at h⟩
  | true =>
    simp only [if_true, captureKey]
    cases k with
    | str t => exact Or.inl ⟨rfl, rfl, fun j h => by simp at h⟩
    | num n => exact Or.inl ⟨rfl, rfl, fun j h => by simp at h⟩
    | comp =>
      simp only
      split
      · exact Or.inl ⟨rfl, rfl, fun j h => by simp at h⟩
      · exact Or.inl ⟨rfl, rfl, fun j h => by simp at h⟩
      · exact Or.inl ⟨rfl, rfl, fun j h => by simp at h⟩
      · exact Or.inl ⟨rfl, rfl, fun j h => by simp only [CK.temp.injEq] at h; rw [h]⟩
      · exact Or.inr ⟨rfl, rfl, rfl⟩

theorem keyCap_le (hr : Bool) (k : KK) (ke' : E) (m : Nat) : m ≤ (keyCap hr k ke' m).2.2 := by
  rcases keyCap_next hr k ke' m with h | h
  · omega
  · omega

/-- the key expression left in the pattern writes what the original one writes, and the new temporary -/
theorem keyCap_wr (hr : Bool) (k : KK) (ke' : E) (m B : Nat) (hw : ke'.wr (ltB B) = true) :
    (keyCap hr k ke' m).1.wr (fun j => decide (j < B) || (decide (m ≤ j) && decide (j < (keyCap hr k ke' m).2.2))) = true := by
  have hmono : ke'.wr (fun j => decide (j < B) || (decide (m ≤ j) && decide (j < (keyCap hr k ke' m).2.2))) = true :=
    E.wr_mono (fun j hj => by simp only [ltB] at hj; simp [hj]) ke' hw
  rcases keyCap_next hr k ke' m with ⟨_, h, _⟩ | ⟨h1, h2, _⟩
  · rw [h]; exact hmono
  · rw [h2]
    simp only [E.wr, Pat.wr, Bool.and_eq_true]
    refine ⟨?_, hmono⟩
    rw [h1]
    simp

/-- the passed properties `done'` (lowered children, keys in capturing form) against the source properties;
the captured keys; the temporaries used are m … m'-1 in order -/
inductive DoneRel (w : World) (B : Nat) (hr : Bool) : PPL → PPL → List CK → Nat → Nat → Prop where
  | nil (m : Nat) : DoneRel w B hr .nil .nil [] m m
  | cons {k : KK} {ke' ke₀ : E} {t' t₀ : Pat} {hd : Bool} {d' d₀ : E} {tl' tl₀ : PPL} {cs : List CK} {m m' : Nat} :
      SimB w ke' ke₀ → ke'.wr (ltB B) = true → (∀ x, ke' = .id x → ke₀.asId = some x) → (∀ j, ke' ≠ .tmp j) →
      SimB w d' d₀ → d'.wr (ltB B) = true →
      t'.wr (ltB B) = true → (∀ v s s', s.h = s'.h → RelR (bindPat w true t' v s) (bindPat w true t₀ v s')) →
      B ≤ m →
      DoneRel w B hr tl' tl₀ cs (keyCap hr k ke' m).2.2 m' →
      DoneRel w B hr (.prop k (keyCap hr k ke' m).1 t' hd d' tl') (.prop k ke₀ t₀ hd d₀ tl₀)
        ((keyCap hr k ke' m).2.1 :: cs) m m'

theorem DoneRel.le {w : World} {B : Nat} {hr : Bool} {a b : PPL} {cs : List CK} {m m' : Nat}
    (h : DoneRel w B hr a b cs m m') : m ≤ m' := by
  induction h with
  | nil m => exact Nat.le_refl _
  | cons _ _ _ _ _ _ _ _ _ _ ih => exact Nat.le_trans (keyCap_le _ _ _ _) ih

theorem DoneRel.isNil {w : World} {B : Nat} {hr : Bool} {a b : PPL} {cs : List CK} {m m' : Nat}
    (h : DoneRel w B hr a b cs m m') : a.isNil = b.isNil := by
  cases h <;> rfl

/-- `done'` writes temporaries ltB B (its children) and m … m'-1 (the captured keys) -/
theorem DoneRel.wr {w : World} {B : Nat} {hr : Bool} {a b : PPL} {cs : List CK} {m m' : Nat}
    (h : DoneRel w B hr a b cs m m') : a.wr (fun j => decide (j < B) || (decide (m ≤ j) && decide (j < m'))) = true := by
  induction h with
  | nil m => rfl
  | @cons k ke' ke₀ t' t₀ hd d' d₀ tl' tl₀ cs m m' _ hke _ _ _ hd' ht' _ _ htl ih =>
    have hle := keyCap_le hr k ke' m
    have hle2 := htl.le
    simp only [PPL.wr, Bool.and_eq_true]
    refine ⟨⟨⟨?_, ?_⟩, ?_⟩, ?_⟩
    · refine E.wr_mono (fun j hj => ?_) _ (keyCap_wr hr k ke' m B hke)
      simp only [Bool.or_eq_true, Bool.and_eq_true, decide_eq_true_eq] at hj ⊢
      omega
    · exact Pat.wr_mono (fun j hj => by simp only [ltB] at hj; simp [hj]) _ ht'
    · exact E.wr_mono (fun j hj => by simp only [ltB] at hj; simp [hj]) _ hd'
    · refine PPL.wr_mono (fun j hj => ?_) _ ih
      simp only [Bool.or_eq_true, Bool.and_eq_true, decide_eq_true_eq] at hj ⊢
      omega

/-- the temporaries named by the captured keys are m … m'-1 -/
theorem DoneRel.temps {w : World} {B : Nat} {hr : Bool} {a b : PPL} {cs : List CK} {m m' : Nat}
    (h : DoneRel w B hr a b cs m m') : ∀ j, CK.temp j ∈ cs → m ≤ j ∧ j < m' := by
  induction h with
  | nil m => intro j hj; simp at hj
  | @cons k ke' ke₀ t' t₀ hd d' d₀ tl' tl₀ cs m m' _ _ _ htmp _ _ _ _ _ htl ih =>
    intro j hj
    have hle := keyCap_le hr k ke' m
    have hle2 := htl.le
    simp only [List.mem_cons] at hj
    cases hj with
    | inr hj => have := ih j hj; omega
    | inl hj =>
      rcases keyCap_next hr k ke' m with ⟨_, _, h⟩ | ⟨h1, _, h3⟩
      · exact absurd (h j hj.symm) (htmp j)
      · rw [h3] at hj
        cases hj
        omega

theorem DoneRel.snoc {w : World} {B : Nat} {hr : Bool} {a b : PPL} {cs : List CK} {m m' : Nat}
    (h : DoneRel w B hr a b cs m m') {k : KK} {ke' ke₀ : E} {t' t₀ : Pat} {hd : Bool} {d' d₀ : E}
    (h1 : SimB w ke' ke₀) (h2 : ke'.wr (ltB B) = true) (h3 : ∀ x, ke' = .id x → ke₀.asId = some x) (h4 : ∀ j, ke' ≠ .tmp j)
    (h5 : SimB w d' d₀) (h6 : d'.wr (ltB B) = true) (h7 : t'.wr (ltB B) = true)
    (h8 : ∀ v s s', s.h = s'.h → RelR (bindPat w true t' v s) (bindPat w true t₀ v s')) (h9 : B ≤ m) :
    DoneRel w B hr (a.append (.prop k (keyCap hr k ke' m').1 t' hd d' .nil)) (b.append (.prop k ke₀ t₀ hd d₀ .nil))
      (cs ++ [(keyCap hr k ke' m').2.1]) m (keyCap hr k ke' m').2.2 := by
  induction h with
  | nil m => exact DoneRel.cons h1 h2 h3 h4 h5 h6 h7 h8 h9 (DoneRel.nil _)
  | cons g1 g2 g3 g4 g5 g6 g7 g8 g9 _ ih =>
    exact DoneRel.cons g1 g2 g3 g4 g5 g6 g7 g8 g9 (ih (Nat.le_trans g9 (keyCap_le _ _ _ _)))

-- ---------------------------------------------------------------- one key

theorem toPropertyKey_prim (w : World) (raw : Val) (h : H) (hp : raw.isObject = false) :
    toPropertyKey w raw h = (.ok (primKey raw), h) := by
  cases raw <;> simp [Val.isObject] at hp <;> rfl

theorem natToString_int (n : Nat) : toString (n : Int) = toString n := rfl

/-- how the captured key is tied to the value of the key expression -/
def RawRel (c : CK) (raw : Val) (isId : Option Nat) (tm : Nat → Val) : Prop :=
  match c with
  | .str t => raw = .str t
  | .num m => raw = .num m
  | .ident x => isId = some x
  | .temp j => tm j = raw

theorem RelR.toP {α : Type} {a b : R α × TState} (h : RelR a b) : RelP (fun _ _ => True) a b := by
  cases h with
  | inl h => exact Or.inl h
  | inr h => exact Or.inr ⟨h.1, h.2, fun _ _ => trivial⟩

/-- evaluating the key expression in its capturing form: same value as the source key expression, and the captured
key is tied to it -/
theorem capEval (w : World) (m : Nat) (ke' ke₀ : E) (hs : SimB w ke' ke₀)
    (hid : ∀ x, ke' = .id x → ke₀.asId = some x) (htmp : ∀ j, ke' ≠ .tmp j)
    (s s' : TState) (hh : s.h = s'.h) :
    RelP (fun raw sF => RawRel (captureKey .comp ke' m).2.1 raw ke₀.asId sF.tm)
      (evalE w true (captureKey .comp ke' m).1 s) (evalE w true ke₀ s') := by
  have h0 := hs s s' hh
  simp only [captureKey]
  split
  · rename_i t
    cases h0 with
    | inl h => exact Or.inl h
    | inr h =>
      refine Or.inr ⟨h.1, h.2, fun y hy => ?_⟩
      simp only [evalE] at h
      rw [hy] at h
      simp only [RawRel]
      exact (R.ok.inj h.1).symm
  · rename_i n
    cases h0 with
    | inl h => exact Or.inl h
    | inr h =>
      refine Or.inr ⟨h.1, h.2, fun y hy => ?_⟩
      simp only [evalE] at h
      rw [hy] at h
      simp only [RawRel]
      exact (R.ok.inj h.1).symm
  · rename_i x
    cases h0 with
    | inl h => exact Or.inl h
    | inr h => exact Or.inr ⟨h.1, h.2, fun y _ => hid x rfl⟩
  · rename_i j
    exact absurd rfl (htmp j)
  · cases h0 with
    | inl h => exact Or.inl h
    | inr h =>
      simp only [evalE, bindPat]
      rcases he : evalE w true ke' s with ⟨r, s1⟩
      rw [he] at h
      cases r with
      | err x => exact Or.inr ⟨h.1, h.2, fun y hy => by rw [hy] at h; simp at h⟩
      | ok v =>
        refine Or.inr ⟨h.1, h.2, fun y hy => ?_⟩
        rw [hy] at h
        simp only [bindR_ok, RawRel, setTmp, upd, if_true]
        exact R.ok.inj h.1

/-- PropertyName evaluation of the key in capturing form against the source key -/
theorem key_sim (w : World) (m : Nat) (hr : Bool) (k : KK) (ke' ke₀ : E) (hs : SimB w ke' ke₀)
    (hid : ∀ x, ke' = .id x → ke₀.asId = some x) (htmp : ∀ j, ke' ≠ .tmp j)
    (s s' : TState) (hh : s.h = s'.h) :
    RelP (fun kv sF => hr = true →
        CKRel (keyCap hr k ke' m).2.1 ⟨kv.1, kv.2, if k = .comp then ke₀.asId else none⟩ sF.tm ∧
        Ex.ok ⟨kv.1, kv.2, if k = .comp then ke₀.asId else none⟩)
      (keyOf w (true && false) k (evalE w true (keyCap hr k ke' m).1) s)
      (keyOf w (true && hr) k (evalE w true ke₀) s') := by
  cases k with
  | str t =>
    refine Or.inr ⟨rfl, hh, fun y hy hhr => ?_⟩
    simp only [keyOf, R.ok.injEq] at hy
    subst hhr
    rw [← hy]
    exact ⟨rfl, rfl, rfl⟩
  | num n =>
    refine Or.inr ⟨rfl, hh, fun y hy hhr => ?_⟩
    simp only [keyOf, R.ok.injEq] at hy
    subst hhr
    rw [← hy]
    exact ⟨rfl, rfl, by simp only [primKey, primStr, natToString_int]⟩
  | comp =>
    simp only [keyOf, Bool.and_false, Bool.false_and, Bool.false_eq_true, if_false, Bool.true_and]
    have hc : RelP (fun raw sF => hr = true → RawRel (keyCap hr .comp ke' m).2.1 raw ke₀.asId sF.tm)
        (evalE w true (keyCap hr .comp ke' m).1 s) (evalE w true ke₀ s') := by
      cases hr with
      | false =>
        simp only [keyCap, Bool.false_eq_true, if_false]
        cases hs s s' hh with
        | inl h => exact Or.inl h
        | inr h => exact Or.inr ⟨h.1, h.2, fun _ _ h' => by simp at h'⟩
      | true =>
        simp only [keyCap, if_true]
        cases capEval w m ke' ke₀ hs hid htmp s s' hh with
        | inl h => exact Or.inl h
        | inr h => exact Or.inr ⟨h.1, h.2.1, fun y hy _ => h.2.2 y hy⟩
    cases hc with
    | inl h => exact Or.inl (outside_bind _ _ h)
    | inr hc =>
      obtain ⟨c1, c2, c3⟩ := hc
      rcases ha : evalE w true (keyCap hr .comp ke' m).1 s with ⟨ra, sa⟩
      rcases hb : evalE w true ke₀ s' with ⟨rb, sb⟩
      rw [ha, hb] at c1 c2
      rw [ha] at c3
      rw [hb] at c3
      simp only at c1 c2 c3
      subst c1
      cases ra with
      | err x => exact Or.inr ⟨rfl, c2, fun y hy => by simp at hy⟩
      | ok raw =>
        simp only [bindR_ok]
        by_cases hstop : (hr && raw.isObject) = true
        · simp only [hstop, if_true]
          exact Or.inl trivial
        · simp only [hstop, if_false, Bool.false_eq_true]
          have hl : (liftH (toPropertyKey w raw) sa).1 = (liftH (toPropertyKey w raw) sb).1 ∧
              (liftH (toPropertyKey w raw) sa).2.h = (liftH (toPropertyKey w raw) sb).2.h := by
            simp only [liftH, c2, and_self]
          rcases hka : liftH (toPropertyKey w raw) sa with ⟨rk, sa2⟩
          rcases hkb : liftH (toPropertyKey w raw) sb with ⟨rk', sb2⟩
          rw [hka, hkb] at hl
          simp only at hl
          obtain ⟨hl1, hl2⟩ := hl
          subst hl1
          cases rk with
          | err x => exact Or.inr ⟨rfl, hl2, fun y hy => by simp at hy⟩
          | ok key =>
            refine Or.inr ⟨rfl, hl2, fun y hy hhr => ?_⟩
            simp only [bindR_ok, R.ok.injEq] at hy
            subst hhr
            have hraw : raw.isObject = false := by simpa using hstop
            have htm : sa2.tm = sa.tm := by
              have := congrArg (fun r => r.2.tm) hka
              simpa using this.symm
            have hkey : key = primKey raw := by
              have := congrArg (fun r => r.1) hka
              simp only [liftH, toPropertyKey_prim w raw sa.h hraw, R.ok.injEq] at this
              exact this.symm
            rw [← hy]
            simp only [if_true]
            refine ⟨?_, hraw, hkey⟩
            have hrr := c3 raw rfl rfl
            generalize (keyCap true KK.comp ke' m).2.1 = ck at hrr ⊢
            cases ck <;> simpa only [CKRel, RawRel, htm, bindR_ok] using hrr

-- ---------------------------------------------------------------- the passed properties, natively

/-- evaluating `done'` natively (no rest element) does what the source pattern does for these properties; the
source's new excluded names are tied to the captured keys -/
theorem done_sim (w : World) (B : Nat) (hr : Bool) {done' done₀ : PPL} {cs : List CK} {m m' : Nat}
    (h : DoneRel w B hr done' done₀ cs m m') :
    ∀ (v : Val) (exL ex : List Ex) (s s' : TState), s.h = s'.h →
      RelQ (fun exOut sF => ∃ exNew, exOut = ex ++ exNew ∧ (hr = true → CapT sF.tm cs exNew))
        (bindPPL w true done' false v exL s) (bindPPL w true done₀ hr v ex s') := by
  induction h with
  | nil m =>
    intro v exL ex s s' hh
    exact Or.inr ⟨rfl, hh, fun y hy => ⟨[], by simp only [bindPPL, R.ok.injEq] at hy; simp [← hy], fun _ => CapT.nil⟩⟩
  | @cons k ke' ke₀ t' t₀ hd d' d₀ tl' tl₀ cs m m' hke hkw hid htmp hsd hdw htw hnat hBm htl ih =>
    intro v exL ex s s' hh
    simp only [bindPPL]
    have hnext := keyCap_next hr k ke' m
    have hwtl := htl.wr
    refine RelP.bindQ (key_sim w m hr k ke' ke₀ hke hid htmp s s' hh) (fun kv s1 s1' e1 _ hh1 q1 => ?_)
    refine RelR.bindQ (RelR.liftH (getV w v kv.1) s1 s1' hh1) (fun pv s2 s2' e2 _ hh2 => ?_)
    have t2 : s2.tm = s1.tm := by
      have := congrArg (fun r => r.2.tm) e2
      simpa using this.symm
    have hdef : RelR (if (hd && pv == .undef) = true then evalE w true d' s2 else (.ok pv, s2))
        (if (hd && pv == .undef) = true then evalE w true d₀ s2' else (.ok pv, s2')) := by
      split
      · exact hsd s2 s2' hh2
      · exact Or.inr ⟨rfl, hh2⟩
    refine RelR.bindQ hdef (fun pv' s3 s3' e3 _ hh3 => ?_)
    have t3 : ∀ j, B ≤ j → s3.tm j = s2.tm j := by
      intro j hj
      have hf : (if (hd && pv == .undef) = true then evalE w true d' s2 else (.ok pv, s2)).2.tm j = s2.tm j := by
        split
        · exact evalE_frame w true (ltB B) j (by simp [ltB]; omega) d' s2 hdw
        · rfl
      rw [e3] at hf
      exact hf
    refine RelR.bindQ (hnat pv' s3 s3' hh3) (fun _ s4 s4' e4 _ hh4 => ?_)
    have t4 : ∀ j, B ≤ j → s4.tm j = s3.tm j := by
      intro j hj
      have hf := bindPat_frame w true (ltB B) j (by simp [ltB]; omega) t' pv' s3 htw
      rw [e4] at hf
      exact hf
    refine RelQ.mono (ih v _ (ex ++ [⟨kv.1, kv.2, if k = .comp then ke₀.asId else none⟩]) s4 s4' hh4) (fun exOut _ hq => ?_)
    obtain ⟨exNew, hex, hcap⟩ := hq
    refine ⟨(⟨kv.1, kv.2, if k = .comp then ke₀.asId else none⟩ : Ex) :: exNew, by rw [hex]; simp, fun hhr => ?_⟩
    obtain ⟨q1a, q1b⟩ := q1 hhr
    refine CapT.cons ?_ q1b (hcap hhr)
    -- the captured key is still in its temporary
    generalize hck : (keyCap hr k ke' m).2.1 = ck at q1a ⊢
    cases ck with
    | temp j =>
      simp only [CKRel] at q1a ⊢
      rcases hnext with ⟨_, _, h3⟩ | ⟨h1, _, h3⟩
      · exact absurd (h3 j hck) (htmp j)
      · have hjm : j = m := by
          rw [hck] at h3
          injection h3
        subst hjm
        have hf := bindPPL_frame w true _ j (by simp; omega) tl' false v
          (exL ++ [⟨kv.1, kv.2, if k = .comp then (keyCap hr k ke' j).1.asId else none⟩]) s4 hwtl
        rw [hf, t4 j hBm, t3 j hBm, t2]
        exact q1a
    | str t => exact q1a
    | num n => exact q1a
    | ident x => exact q1a

end EsbuildModel.Lower3
