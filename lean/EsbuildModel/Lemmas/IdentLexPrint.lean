import EsbuildModel.Lemmas.IdentLexNext
/-! What `QuoteIdentifier` prints, as a sequence of grammar elements. -/
namespace EsbuildModel.IdentLex
open EsbuildModel.Spec.JsIdentifier
open EsbuildModel.Spec.StrLit (isHexDigit digitsMV)
open EsbuildModel.StrLex

theorem hexUpper_facts : ∀ d, d < 16 → isHexDigit (hexUpper d) = true ∧ (Spec.JsString.hexVal? (hexUpper d)).getD 0 = d := by
  decide

/-- the digits `%X` prints for a code point above the BMP -/
def bigDigits (c : Nat) : List Nat :=
  if c < 1048576 then [hexUpper (c / 65536), hexUpper (c / 4096 % 16), hexUpper (c / 256 % 16), hexUpper (c / 16 % 16), hexUpper (c % 16)]
  else [hexUpper (c / 1048576), hexUpper (c / 65536 % 16), hexUpper (c / 4096 % 16), hexUpper (c / 256 % 16), hexUpper (c / 16 % 16), hexUpper (c % 16)]

theorem upperDigits_big {c : Nat} (h1 : 65535 < c) (h2 : c ≤ 1114111) : upperDigits 8 c [] = bigDigits c := by
  unfold bigDigits
  have a1 : ¬ c < 16 := by omega
  have a2 : ¬ c / 16 < 16 := by omega
  have a3 : ¬ c / 16 / 16 < 16 := by omega
  have a4 : ¬ c / 16 / 16 / 16 < 16 := by omega
  have e2 : c / 16 / 16 = c / 256 := by omega
  have e3 : c / 256 / 16 = c / 4096 := by omega
  have e4 : c / 4096 / 16 = c / 65536 := by omega
  have e5 : c / 65536 / 16 = c / 1048576 := by omega
  have b3 : ¬ c / 256 < 16 := by omega
  have b4 : ¬ c / 4096 < 16 := by omega
  by_cases h : c < 1048576
  · have a5 : c / 65536 < 16 := by omega
    simp [upperDigits, a1, a2, a3, a4, e2, e3, e4, a5, h, b3, b4]
  · have a5 : ¬ c / 65536 < 16 := by omega
    have a6 : c / 1048576 < 16 := by omega
    simp [upperDigits, a1, a2, a3, a4, e2, e3, e4, e5, a5, a6, h, b3, b4]

/-- the element QuoteIdentifier writes for the character `c` -/
def quoteElem (c : Nat) : Elem :=
  if 0x20 ≤ c ∧ c ≤ 0x7E then .char c
  else if c ≤ 0xFFFF then .esc4 (hexUpper (c / 4096)) (hexUpper (c / 256 % 16)) (hexUpper (c / 16 % 16)) (hexUpper (c % 16))
  else .escBrace (upperDigits 8 c [])

theorem quoteElem_cp {c : Nat} (h92 : c ≠ 92) (hc : c ≤ 0x10FFFF) : (quoteElem c).cp = some c := by
  unfold quoteElem
  split
  · simp [Elem.cp, h92]
  · split
    · rename_i hs
      obtain ⟨p1, q1⟩ := hexUpper_facts (c / 4096) (by omega)
      obtain ⟨p2, q2⟩ := hexUpper_facts (c / 256 % 16) (by omega)
      obtain ⟨p3, q3⟩ := hexUpper_facts (c / 16 % 16) (by omega)
      obtain ⟨p4, q4⟩ := hexUpper_facts (c % 16) (by omega)
      simp only [Elem.cp, List.all_cons, List.all_nil, p1, p2, p3, p4, Bool.and_self, if_true, digitsMV, List.foldl_cons,
        List.foldl_nil, q1, q2, q3, q4]
      congr 1; omega
    · rename_i hs
      rw [upperDigits_big (by omega) hc]
      unfold bigDigits
      split
      · obtain ⟨p0, q0⟩ := hexUpper_facts (c / 65536) (by omega)
        obtain ⟨p1, q1⟩ := hexUpper_facts (c / 4096 % 16) (by omega)
        obtain ⟨p2, q2⟩ := hexUpper_facts (c / 256 % 16) (by omega)
        obtain ⟨p3, q3⟩ := hexUpper_facts (c / 16 % 16) (by omega)
        obtain ⟨p4, q4⟩ := hexUpper_facts (c % 16) (by omega)
        have hmv : digitsMV 16 [hexUpper (c / 65536), hexUpper (c / 4096 % 16), hexUpper (c / 256 % 16), hexUpper (c / 16 % 16), hexUpper (c % 16)] = c := by
          simp only [digitsMV, List.foldl_cons, List.foldl_nil, q0, q1, q2, q3, q4]; omega
        simp only [Elem.cp, hmv]
        simp [p0, p1, p2, p3, p4, hc]
      · obtain ⟨p5, q5⟩ := hexUpper_facts (c / 1048576) (by omega)
        obtain ⟨p0, q0⟩ := hexUpper_facts (c / 65536 % 16) (by omega)
        obtain ⟨p1, q1⟩ := hexUpper_facts (c / 4096 % 16) (by omega)
        obtain ⟨p2, q2⟩ := hexUpper_facts (c / 256 % 16) (by omega)
        obtain ⟨p3, q3⟩ := hexUpper_facts (c / 16 % 16) (by omega)
        obtain ⟨p4, q4⟩ := hexUpper_facts (c % 16) (by omega)
        have hmv : digitsMV 16 [hexUpper (c / 1048576), hexUpper (c / 65536 % 16), hexUpper (c / 4096 % 16), hexUpper (c / 256 % 16), hexUpper (c / 16 % 16), hexUpper (c % 16)] = c := by
          simp only [digitsMV, List.foldl_cons, List.foldl_nil, q5, q0, q1, q2, q3, q4]; omega
        simp only [Elem.cp, hmv]
        simp [p5, p0, p1, p2, p3, p4, hc]

theorem quoteIdentifier_eq (noUE : Bool) (name : List Nat) (h : noUE = false ∨ containsNonBMP name = false) :
    quoteIdentifier noUE name = some (textOf (name.map quoteElem)) := by
  induction name with
  | nil => rfl
  | cons c r ih =>
    have hr : noUE = false ∨ containsNonBMP r = false := by
      rcases h with h | h
      · exact Or.inl h
      · right; simp only [containsNonBMP, List.any_cons, Bool.or_eq_false_iff] at h; exact h.2
    simp only [quoteIdentifier, ih hr, List.map_cons, textOf_cons]
    by_cases h1 : 0x20 ≤ c ∧ c ≤ 0x7E
    · simp [quoteElem, h1, Elem.text]
    · by_cases h2 : c ≤ 0xFFFF
      · simp [quoteElem, h1, h2, escapeChar, escape4, Elem.text]
      · have hn : noUE = false := by
          rcases h with h | h
          · exact h
          · simp only [containsNonBMP, List.any_cons, Bool.or_eq_false_iff, decide_eq_false_iff_not] at h; omega
        simp [quoteElem, h1, h2, escapeChar, escapeBrace, Elem.text, hn]

/-- helpers.ContainsNonBMPCodePointUTF16 = ContainsNonBMPCodePoint of UTF16ToString, on 16-bit units -/
theorem containsNonBMPUTF16_eq (units : List Nat) (h : ∀ u ∈ units, u < 65536) :
    containsNonBMPUTF16 units = containsNonBMP (joinUnits units) := by
  induction units using joinUnits.induct with
  | case1 => rfl
  | case2 u =>
    have := h u (by simp)
    have h' : ¬ u > 65535 := by omega
    simp [containsNonBMPUTF16, joinUnits, containsNonBMP, h']
  | case3 u v r hp ih =>
    have hu : isHigh u = true ∧ isLow v = true := by simpa using hp
    have hbig : (u - 55296) * 1024 + (v - 56320) + 65536 > 65535 := by omega
    simp [containsNonBMPUTF16, joinUnits, containsNonBMP, hu.1, hu.2, hbig]
  | case4 u v r hp ih =>
    have hu := h u (by simp)
    have hp' : (isHigh u && isLow v) = false := by simpa using hp
    rw [containsNonBMPUTF16, joinUnits]
    simp only [hp', Bool.false_or, Bool.false_eq_true, if_false]
    rw [ih (fun x hx => h x (by simp [hx]))]
    have : ¬ u > 65535 := by omega
    simp [containsNonBMP, this]

theorem joinUnits_le (units : List Nat) (h : ∀ u ∈ units, u < 65536) : ∀ c ∈ joinUnits units, c ≤ 0x10FFFF := by
  induction units using joinUnits.induct with
  | case1 => intro c hc; cases hc
  | case2 u =>
    intro c hc
    have := h u (by simp)
    simp only [joinUnits, List.mem_singleton] at hc; omega
  | case3 u v r hp ih =>
    have hu : isHigh u = true ∧ isLow v = true := by simpa using hp
    have h1 := hu.1; have h2 := hu.2
    simp only [isHigh, isLow, Bool.and_eq_true, decide_eq_true_eq] at h1 h2
    intro c hc
    rw [joinUnits] at hc
    simp only [hu.1, hu.2, Bool.and_self, if_true] at hc
    rcases List.mem_cons.1 hc with rfl | hc
    · omega
    · exact ih (fun x hx => h x (by simp [hx])) c hc
  | case4 u v r hp ih =>
    have hp' : (isHigh u && isLow v) = false := by simpa using hp
    intro c hc
    rw [joinUnits] at hc
    simp only [hp', Bool.false_eq_true, if_false] at hc
    rcases List.mem_cons.1 hc with rfl | hc
    · have := h c (by simp); omega
    · exact ih (fun x hx => h x (by simp [hx])) c hc

end EsbuildModel.IdentLex
