import EsbuildModel.Lemmas.JsonBasics
import EsbuildModel.Lemmas.Wtf8Round
/-
Totality of the lexer model, part 1: the scanning loops consume input (or stop), never crash; the decoder produces
UTF-16 code units.
-/
namespace EsbuildModel.Json

theorem skipSep_le (fl : Flavor) (m : SMode) (l : List Cp) (sk : Sk) :
    ∀ sk' l', skipSep fl m l sk = .ok (sk', l') → l'.length ≤ l.length := by
  fun_induction skipSep fl m l sk <;> intro sk' l' h
  all_goals first
    | (cases h; simp)
    | (cases h)
    | (rename_i ih; have := ih sk' l' h; simp only [List.length_cons]; omega)

theorem skipSep_ne_crash (fl : Flavor) (m : SMode) (l : List Cp) (sk : Sk) : skipSep fl m l sk ≠ .crash := by
  fun_induction skipSep fl m l sk <;> first | (intro h; cases h) | assumption

theorem StrScan.cons_done {pre : List Cp} {s : Bool} {x : StrScan} {t r : List Cp} {e : Nat} {sl : Bool}
    (h : x.cons pre s = .done t r e sl) : ∃ t' sl', x = .done t' r e sl' := by
  cases x with
  | done t' r' e' s' => simp only [StrScan.cons, StrScan.done.injEq] at h; obtain ⟨_, rfl, rfl, _⟩ := h; exact ⟨_, _, rfl⟩
  | unterminated a => cases h
  | ctrl a => cases h

theorem scanStr_lt (fl : Flavor) (q : Char) (l : List Cp) (pos : Nat) :
    ∀ t r e s, scanStr fl q l pos = .done t r e s → r.length + 1 ≤ l.length := by
  fun_induction scanStr fl q l pos <;> intro t r e s h
  all_goals first
    | (cases h; done)
    | (cases h; simp; done)
    | (rename_i ih; obtain ⟨t', s', h'⟩ := StrScan.cons_done h; have := ih _ _ _ _ h'; simp only [List.length_cons]; omega)

theorem IdScan.cons_ok {c : Cp} {x : IdScan} {t r : List Cp} {e : Nat} (h : x.cons c = .ok t r e) :
    ∃ t', x = .ok t' r e := by
  cases x with
  | ok t' r' e' => simp only [IdScan.cons, IdScan.ok.injEq] at h; obtain ⟨_, rfl, rfl⟩ := h; exact ⟨_, rfl⟩
  | err a => cases h

theorem idScan_le (P : Params) (m : IdMode) (l : List Cp) (pos : Nat) :
    ∀ t r e, idScan P m l pos = .ok t r e → r.length ≤ l.length := by
  fun_induction idScan P m l pos <;> intro t r e h
  all_goals first
    | (cases h; done)
    | (cases h; simp; done)
    | (rename_i ih; obtain ⟨t', h'⟩ := IdScan.cons_ok h; have := ih _ _ _ h'; simp only [List.length_cons]; omega)

/-- every unit `tryToDecodeEscapeSequences` produces fits in a `uint16` -/
def UnitsOK (d : Dec) : Prop := ∀ us, d = .ok us → ∀ x ∈ us, x < 65536

theorem pushUTF16_lt (c : Nat) (h : c ≤ 0x10FFFF) : ∀ x ∈ unitsOf c, x < 65536 := by
  intro x hx
  simp only [unitsOf, Wtf8.pushUTF16] at hx
  split at hx
  · simp at hx; omega
  · simp only [List.mem_cons, List.not_mem_nil, or_false] at hx
    rcases hx with rfl | rfl <;> exact Nat.mod_lt _ (by decide)

theorem unitsOK_cons {us : List Nat} {d : Dec} (h1 : ∀ x ∈ us, x < 65536) (h2 : UnitsOK d) : UnitsOK (d.cons us) := by
  intro vs hv x hx
  cases d with
  | ok t =>
    simp only [Dec.cons, Dec.ok.injEq] at hv
    subst hv
    rcases List.mem_append.1 hx with hx | hx
    · exact h1 x hx
    · exact h2 t rfl x hx
  | fail e => cases hv
  | oor a => cases hv

theorem unitsOf_lt (c : Nat) : ∀ x ∈ unitsOf c, x < 65536 := by
  intro x hx
  simp only [unitsOf, Wtf8.pushUTF16] at hx
  split at hx
  · simp at hx; omega
  · simp only [List.mem_cons, List.not_mem_nil, or_false] at hx
    rcases hx with rfl | rfl <;> exact Nat.mod_lt _ (by decide)

theorem unitsOK_ok_nil : UnitsOK (.ok []) := by intro us h x hx; cases h; cases hx
theorem unitsOK_fail (e : Nat) : UnitsOK (.fail e) := by intro us h; cases h
theorem unitsOK_oor (e : Nat) : UnitsOK (.oor e) := by intro us h; cases h
theorem unitsOK_ok {us : List Nat} (h : ∀ x ∈ us, x < 65536) : UnitsOK (.ok us) := by
  intro vs hv x hx; cases hv; exact h x hx
theorem small_lt {u : Nat} (h : u < 65536) : ∀ x ∈ [u], x < 65536 := by
  intro x hx; simp at hx; omega

theorem decodeEsc_unitsOK (fl : Flavor) (m : DMode) (l : List Cp) (pos : Nat) : UnitsOK (decodeEsc fl m l pos) := by
  fun_induction decodeEsc fl m l pos
  all_goals first
    | exact unitsOK_ok_nil
    | exact unitsOK_fail _
    | exact unitsOK_oor _
    | assumption
    | exact unitsOK_ok (unitsOf_lt _)
    | exact unitsOK_ok (small_lt (by decide))
    | (apply unitsOK_cons (unitsOf_lt _); assumption)
    | (apply unitsOK_cons (small_lt (by decide)); assumption)
    | (rename_i h89 _
       refine unitsOK_cons (small_lt ?_) (by assumption)
       rcases h89 with h | h <;> rw [h] <;> decide)

end EsbuildModel.Json
