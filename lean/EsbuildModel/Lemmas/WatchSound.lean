import EsbuildModel.Lemmas.WatchMain
/-! Soundness of coverage: if the final record covers an operation and no predicate of `WatchData()` fires on
`fs'`, the operation has the same observable answer on `fs'`. -/
set_option linter.unusedSimpArgs false
namespace EsbuildModel.Watch

/-! ### what "the predicate returns the empty string" means, state by state -/
theorem verdict_clean_iff {wd : WD} {fs' : FS} {p : Path} :
    verdict wd fs' p = .clean ↔
      (∀ it, wd.item p = some it → itemVerdict fs' p it = .clean) ∧ (∀ o, wd.kind p = some o → fs'.kind p = o) := by
  unfold verdict
  cases hi : wd.item p with
  | none =>
    cases hk : wd.kind p with
    | none => simp
    | some o => by_cases he : fs'.kind p = o <;> simp [he]
  | some it =>
    cases hk : wd.kind p with
    | none => simp
    | some o =>
      by_cases hb : itemVerdict fs' p it = .clean
      · by_cases he : fs'.kind p = o <;> simp [he, hb]
      · simp [hb]

theorem itemVerdict_has {fs' : FS} {p : Path} {it : WDItem} (h : it.state = .hasModKey) :
    itemVerdict fs' p it = .clean ↔ ∃ k, fs'.modKey p = .ok k ∧ it.modKey = some k := by
  unfold itemVerdict
  rw [h]
  simp only
  cases hk : fs'.modKey p with
  | ok k => by_cases he : some k = it.modKey <;> simp [he] ; exact fun h' => he h'.symm
  | unusable => simp
  | err => simp

theorem itemVerdict_unusable {fs' : FS} {p : Path} {it : WDItem} (h : it.state = .unusable) :
    itemVerdict fs' p it = .clean ↔ fs'.readFile p = .ok it.contents := by
  unfold itemVerdict
  rw [h]
  simp only
  cases hr : fs'.readFile p with
  | error e => simp
  | ok c => by_cases he : c = it.contents <;> simp [he]

theorem itemVerdict_missing {fs' : FS} {p : Path} {it : WDItem} (h : it.state = .missing) :
    itemVerdict fs' p it = .clean ↔ fs'.isFile p = false := by
  unfold itemVerdict
  rw [h]
  simp only
  cases fs'.isFile p <;> simp

theorem itemVerdict_dirUnreadable {fs' : FS} {p : Path} {it : WDItem} (h : it.state = .dirUnreadable) :
    itemVerdict fs' p it = .clean ↔ fs'.isDir p = false := by
  unfold itemVerdict
  rw [h]
  simp only
  rw [isDir_iff_dirErr]
  cases fs'.dirErr p <;> simp

/-- the directory predicate: still a directory, and either the whole sorted listing is unchanged or every
recorded key is present exactly when it was -/
theorem itemVerdict_dirEntries {fs' : FS} {p : Path} {it : WDItem} (h : it.state = .dirEntries)
    (hv : itemVerdict fs' p it = .clean) :
    fs'.isDir p = true ∧ ∃ acc, it.acc = some acc ∧
      (match acc.allEntries with
       | some all => sortStrings (fs'.names p) = all
       | none => ∀ k b, aget acc.wasPresent k = some b → b = (lookupLast (fs'.names p) k).isSome) := by
  unfold itemVerdict at hv
  rw [h] at hv
  simp only at hv
  rw [isDir_iff_dirErr]
  cases he : fs'.dirErr p with
  | some e => simp [he] at hv
  | none =>
    simp only [he, ne_eq, not_true_eq_false, if_false] at hv
    refine ⟨rfl, ?_⟩
    cases ha : it.acc with
    | none => simp [ha] at hv
    | some acc =>
      refine ⟨acc, rfl, ?_⟩
      simp only [ha] at hv
      cases hall : acc.allEntries with
      | some all =>
        simp only [hall] at hv
        by_cases hs : sortStrings (fs'.names p) = all
        · exact hs
        · simp [hs] at hv
      | none =>
        simp only [hall] at hv
        split at hv
        · rename_i hcond
          intro k b hk
          rw [List.all_eq_true] at hcond
          have := hcond k (aget_mem_keys hk)
          simp only [hk, beq_iff_eq, Option.some.injEq] at this
          exact this
        · cases hv

/-! ### `finItem` -/
theorem finItem_of_ne {fsW : FS} {st : St} {p : Path} {data : PWD} (h : data.state ≠ .needModKey) :
    finItem fsW st p data = { state := data.state, contents := data.contents, modKey := data.modKey, acc := (if data.acc then (aget st.cache p).map (·.acc) else none) } := by
  unfold finItem
  simp [h]

theorem finItem_need {fsW : FS} {st : St} {p : Path} {data : PWD} (h : data.state = .needModKey) :
    (finItem fsW st p data).contents = data.contents ∧
    (match fsW.modKey p with
     | .ok k => (finItem fsW st p data).state = .hasModKey ∧ (finItem fsW st p data).modKey = some k
     | .unusable => (finItem fsW st p data).state = .unusable
     | .err => (finItem fsW st p data).state = .missing) := by
  unfold finItem
  simp only [h, beq_self_eq_true, if_true]
  cases fsW.modKey p <;> simp

theorem finalize_item (fsW : FS) (st : St) {p : Path} {data : PWD} (h : aget st.watch p = some data) :
    (finalize fsW st).item p = some (finItem fsW st p data) := by
  simp [finalize, h]

/-! ### files -/
theorem not_isFile_readFile {fs : FS} {p : Path} (h : fs.isFile p = false) : ∃ e, fs.readFile p = .error e := by
  unfold FS.isFile at h; unfold FS.readFile
  cases hn : fs.node p <;> simp [hn] at h ⊢

theorem isDir_not_isFile {fs : FS} {p : Path} (h : fs.isDir p = true) : fs.isFile p = false := by
  unfold FS.isDir at h; unfold FS.isFile
  cases hn : fs.node p <;> simp [hn] at h ⊢

theorem readFile_of_node {fs : FS} {p : Path} {c : String} {k : Option Nat} (h : fs.node p = .file c k) :
    fs.readFile p = .ok c := by
  unfold FS.readFile; rw [h]

theorem modKey_of_node_some {fs : FS} {p : Path} {c : String} {k : Nat} (h : fs.node p = .file c (some k)) :
    fs.modKey p = .ok k := by unfold FS.modKey; rw [h]
theorem modKey_of_node_none {fs : FS} {p : Path} {c : String} (h : fs.node p = .file c none) :
    fs.modKey p = .unusable := by unfold FS.modKey; rw [h]

/-- a `hasModKey` item on a path that is a file on `fs`, with a key that is the file's key on `fs` -/
theorem has_item_sound {fs fs' : FS} {p : Path} {it : WDItem} {c : String} {key : Option Nat}
    (hn : fs.node p = .file c key) (h1 : H1 fs fs') (hst : it.state = .hasModKey)
    (hk : ∀ k, it.modKey = some k → fs.modKey p = .ok k) (hv : itemVerdict fs' p it = .clean) :
    fs'.readFile p = .ok c := by
  obtain ⟨k, hk', hik⟩ := (itemVerdict_has hst).mp hv
  have := hk k hik
  cases key with
  | none => rw [modKey_of_node_none hn] at this; cases this
  | some k0 =>
    rw [modKey_of_node_some hn] at this
    simp only [KeyRes.ok.injEq] at this
    subst this
    exact readFile_of_node (h1 p c k0 hn hk')

/-- the predicates of the three file states, for a path that is a file on `fs` -/
theorem file_item_sound {fs fsW fs' : FS} {st : St} {p : Path} {data : PWD} {c : String} {key : Option Nat}
    (hn : fs.node p = .file c key) (hs : Sound fs p data) (h1 : H1 fs fs') (h2 : H2 fs fsW)
    (hv : itemVerdict fs' p (finItem fsW st p data) = .clean)
    (hst : data.state = .needModKey ∨ data.state = .hasModKey ∨ (data.state = .unusable ∧ data.contents = c)) :
    fs'.readFile p = .ok c := by
  unfold Sound at hs
  rcases hst with hst | hst | ⟨hst, hcon⟩
  · -- needModKey: resolved by `WatchData()`
    simp only [hst] at hs
    have hc : data.contents = c := by
      rw [readFile_of_node hn] at hs; exact (Except.ok.inj hs).symm
    obtain ⟨hcont, hfin⟩ := finItem_need (fsW := fsW) (st := st) (p := p) hst
    rw [h2 p] at hfin
    cases key with
    | some k =>
      rw [modKey_of_node_some hn] at hfin
      refine has_item_sound hn h1 hfin.1 ?_ hv
      intro k' hk'
      rw [hfin.2] at hk'
      cases hk'
      exact modKey_of_node_some hn
    | none =>
      rw [modKey_of_node_none hn] at hfin
      have := (itemVerdict_unusable hfin).mp hv
      rw [this, hcont, hc]
  · simp only [hst] at hs
    have hne : data.state ≠ .needModKey := by rw [hst]; intro h; cases h
    rw [finItem_of_ne hne] at hv
    exact has_item_sound hn h1 hst hs hv
  · have hne : data.state ≠ .needModKey := by rw [hst]; intro h; cases h
    rw [finItem_of_ne hne] at hv
    have := (itemVerdict_unusable (it := { state := data.state, contents := data.contents, modKey := data.modKey, acc := (if data.acc then (aget st.cache p).map (·.acc) else none) }) hst).mp hv
    rw [this]
    exact congrArg _ hcon

theorem readFile_ok_not_isDir {fs : FS} {p : Path} {c : String} (h : fs.readFile p = .ok c) : fs.isDir p = false :=
  isFile_not_isDir (readFile_ok_isFile h)

/-- a covered directory read: the path is a directory on `fs'` iff it was one, and if it was, the recorded
`accessedEntries` passed the comparison -/
theorem watchD_sound {fs fsW fs' : FS} {st : St} {d : Path} (h : Inv fs st) (h1 : H1 fs fs') (h2 : H2 fs fsW)
    (hc : HasCache st d) (hw : WatchD fs st d) (hv : verdict (finalize fsW st) fs' d = .clean) :
    fs'.isDir d = fs.isDir d ∧ (fs.isDir d = true → ∃ c, aget st.cache d = some c ∧
      (match c.acc.allEntries with
       | some all => sortStrings (fs'.names d) = all
       | none => ∀ k b, aget c.acc.wasPresent k = some b → b = (lookupLast (fs'.names d) k).isSome)) := by
  obtain ⟨data, hdata, hok⟩ := hw
  have hitem := (verdict_clean_iff.mp hv).1 _ (finalize_item fsW st hdata)
  have hs := h.watch d data hdata
  unfold okD at hok
  cases hd : fs.isDir d with
  | true =>
    simp only [hd, if_true] at hok
    have hne : data.state ≠ .needModKey := by rw [hok.1]; intro h; cases h
    rw [finItem_of_ne hne] at hitem
    obtain ⟨hd', acc, hacc, hcmp⟩ := itemVerdict_dirEntries hok.1 hitem
    refine ⟨hd', fun _ => ?_⟩
    unfold HasCache at hc
    cases hcc : aget st.cache d with
    | none => rw [hcc] at hc; cases hc
    | some c =>
      simp only [hok.2, if_true, hcc, Option.map_some, Option.some.injEq] at hacc
      subst hacc
      exact ⟨c, rfl, hcmp⟩
  | false =>
    simp only [hd, Bool.false_eq_true, if_false] at hok
    refine ⟨?_, fun h => by cases h⟩
    rcases hok with hst | hst | hst | hst
    · have hne : data.state ≠ .needModKey := by rw [hst]; intro h; cases h
      rw [finItem_of_ne hne] at hitem
      exact (itemVerdict_dirUnreadable hst).mp hitem
    · have hne : data.state ≠ .needModKey := by rw [hst]; intro h; cases h
      unfold Sound at hs
      simp only [hst] at hs
      rw [finItem_of_ne hne] at hitem
      cases hn : fs.node d with
      | missing =>
        obtain ⟨k, _, hik⟩ := (itemVerdict_has hst).mp hitem
        have := hs k hik
        simp [FS.modKey, hn] at this
      | dir a b => simp [FS.isDir, hn] at hd
      | file c key => exact readFile_ok_not_isDir (has_item_sound hn h1 hst hs hitem)
    · unfold Sound at hs
      have hs' := hs
      simp only [hst] at hs'
      cases hn : fs.node d with
      | missing => simp [FS.readFile, hn] at hs'
      | dir a b => simp [FS.isDir, hn] at hd
      | file c key => exact readFile_ok_not_isDir (file_item_sound hn hs h1 h2 hitem (Or.inl hst))
    · have hne : data.state ≠ .needModKey := by rw [hst]; intro h; cases h
      rw [finItem_of_ne hne] at hitem
      exact readFile_ok_not_isDir ((itemVerdict_unusable hst).mp hitem)

/-- a covered content read has the same observable answer on `fs'` -/
theorem watchF_sound {fs fsW fs' : FS} {st : St} {p : Path} (h : Inv fs st) (h1 : H1 fs fs') (h2 : H2 fs fsW)
    (hw : WatchF fs st p) (hv : verdict (finalize fsW st) fs' p = .clean) :
    obs (.file (fs'.readFile p)) = obs (.file (fs.readFile p)) := by
  obtain ⟨data, hdata, hok⟩ := hw
  have hitem := (verdict_clean_iff.mp hv).1 _ (finalize_item fsW st hdata)
  have hs := h.watch p data hdata
  have herr : ∀ e, fs.readFile p = .error e → fs'.isFile p = false →
      obs (.file (fs'.readFile p)) = obs (.file (fs.readFile p)) := by
    intro e he hf
    obtain ⟨e', he'⟩ := not_isFile_readFile hf
    rw [he, he']; rfl
  unfold okF at hok
  cases hn : fs.node p with
  | file c key =>
    simp only [hn] at hok
    rw [file_item_sound hn hs h1 h2 hitem hok, readFile_of_node hn]
  | missing =>
    simp only [hn] at hok
    have hne : data.state ≠ .needModKey := by rw [hok]; intro h; cases h
    rw [finItem_of_ne hne] at hitem
    exact herr .notFound (by simp [FS.readFile, hn]) ((itemVerdict_missing hok).mp hitem)
  | dir a b =>
    simp only [hn] at hok
    have hr : fs.readFile p = .error .isDir := by simp [FS.readFile, hn]
    rcases hok with hst | hst
    · have hne : data.state ≠ .needModKey := by rw [hst]; intro h; cases h
      rw [finItem_of_ne hne] at hitem
      exact herr _ hr ((itemVerdict_missing hst).mp hitem)
    · have hne : data.state ≠ .needModKey := by rw [hst]; intro h; cases h
      rw [finItem_of_ne hne] at hitem
      exact herr _ hr (isDir_not_isFile (itemVerdict_dirEntries hst hitem).1)

theorem obsErr_dirErr_eq {fs fs' : FS} {d : Path} (h : fs'.isDir d = fs.isDir d) :
    obsErr (fs'.dirErr d) = obsErr (fs.dirErr d) := by
  rw [isDir_iff_dirErr, isDir_iff_dirErr] at h
  cases h1 : fs'.dirErr d <;> cases h2 : fs.dirErr d <;> simp [h1, h2] at h <;> rfl

theorem names_nil_of_not_isDir {fs : FS} {d : Path} (h : fs.isDir d = false) : fs.names d = [] := by
  unfold FS.isDir at h; unfold FS.names; cases hn : fs.node d <;> simp [hn] at h ⊢

theorem lookup_eq_of_presence {fs fs' : FS} (h3 : H3 fs fs') {d : Path} {k : String}
    (h : (lookupLast (fs'.names d) k).isSome = (lookupLast (fs.names d) k).isSome) :
    lookupLast (fs'.names d) k = lookupLast (fs.names d) k := by
  cases h1 : lookupLast (fs'.names d) k with
  | none => cases h2 : lookupLast (fs.names d) k with
    | none => rfl
    | some n => simp [h1, h2] at h
  | some n' => cases h2 : lookupLast (fs.names d) k with
    | none => simp [h1, h2] at h
    | some n => rw [h3 d k n n' h2 h1]

/-- the lower-cased map of a covered, compared directory answers `Get(q)` as before -/
theorem lookup_sound {fs fs' : FS} {st : St} {d : Path} {q : String} (h : Inv fs st) (h3 : H3 fs fs')
    (hdir : fs'.isDir d = fs.isDir d)
    (hcmp : fs.isDir d = true → ∃ c, aget st.cache d = some c ∧
      (match c.acc.allEntries with
       | some all => sortStrings (fs'.names d) = all
       | none => ∀ k b, aget c.acc.wasPresent k = some b → b = (lookupLast (fs'.names d) k).isSome))
    (hwp : fs.isDir d = true → HasWP st d (lower q)) :
    lookupLast (fs'.names d) (lower q) = lookupLast (fs.names d) (lower q) := by
  cases hd : fs.isDir d with
  | false =>
    rw [names_nil_of_not_isDir hd, names_nil_of_not_isDir (hdir.trans hd)]
  | true =>
    obtain ⟨c, hc, hm⟩ := hcmp hd
    have ok := h.cache d c hc
    cases hall : c.acc.allEntries with
    | some all =>
      simp only [hall] at hm
      rw [ok.all all hall] at hm
      exact (allEntries_sound hm).1 _
    | none =>
      simp only [hall] at hm
      obtain ⟨c', hc', hk⟩ := hwp hd
      rw [hc] at hc'; cases hc'
      cases hb : aget c.acc.wasPresent (lower q) with
      | none => rw [hb] at hk; cases hk
      | some b =>
        apply lookup_eq_of_presence h3
        rw [← hm _ b hb, ← ok.wp _ b hb]

/-- Coverage is sound: a covered operation has the same observable answer on every `fs'` on which no predicate
of the finalized record fires. -/
theorem covers_sound {fs fsW fs' : FS} {st : St} (h : Inv fs st) (h1 : H1 fs fs') (h2 : H2 fs fsW) (h3 : H3 fs fs')
    (hclean : ∀ p ∈ (finalize fsW st).keys, verdict (finalize fsW st) fs' p = .clean)
    {op : Op} (hc : Covers fs st op) : obs (answer fs' op) = obs (answer fs op) := by
  have hwatch : ∀ p data, aget st.watch p = some data → verdict (finalize fsW st) fs' p = .clean := by
    intro p data hd
    apply hclean
    simp only [finalize, List.mem_append]
    exact Or.inl (aget_mem_keys hd)
  have hD : ∀ d, HasCache st d → WatchD fs st d → _ := fun d hcache hw =>
    watchD_sound h h1 h2 hcache hw (by obtain ⟨data, hd, _⟩ := hw; exact hwatch d data hd)
  cases op with
  | readDir d =>
    obtain ⟨hdir, _⟩ := hD d hc.1 hc.2
    simp only [answer, obs, obsErr_dirErr_eq hdir]
  | get d q =>
    obtain ⟨hdir, hcmp⟩ := hD d hc.1 hc.2.1
    simp only [answer, obs, obsErr_dirErr_eq hdir, lookup_sound h h3 hdir hcmp hc.2.2]
  | sortedKeys d =>
    obtain ⟨hdir, hcmp⟩ := hD d hc.1 hc.2.1
    simp only [answer, obs, obsErr_dirErr_eq hdir, hdir]
    cases hd : fs.isDir d with
    | false => rfl
    | true =>
      obtain ⟨c, hcc, hm⟩ := hcmp hd
      obtain ⟨c', hc', hall⟩ := hc.2.2 hd
      rw [hcc] at hc'; cases hc'
      have ok := h.cache d c hcc
      cases hal : c.acc.allEntries with
      | none => rw [hal] at hall; cases hall
      | some all =>
        simp only [hal] at hm
        rw [ok.all all hal] at hm
        simp only [if_true, (allEntries_sound hm).2]
  | kind d q =>
    obtain ⟨hdir, hcmp⟩ := hD d hc.1 hc.2.1
    have hl := lookup_sound h h3 hdir hcmp hc.2.2.1
    simp only [answer, obs, obsErr_dirErr_eq hdir, hl]
    cases hb : lookupLast (fs.names d) (lower q) with
    | none => rfl
    | some b =>
      have hk := hc.2.2.2 b hb
      unfold HasKind at hk
      cases hkk : aget st.kinds (join d b) with
      | none => rw [hkk] at hk; cases hk
      | some r =>
        have hv : verdict (finalize fsW st) fs' (join d b) = .clean := by
          apply hclean
          simp only [finalize, List.mem_append]
          exact Or.inr (aget_mem_keys hkk)
        have := (verdict_clean_iff.mp hv).2 r (by simp [finalize, hkk])
        simp only [Option.map_some, this, h.kinds _ r hkk]
  | readFile p =>
    obtain ⟨data, hd, hok⟩ := hc
    exact watchF_sound h h1 h2 ⟨data, hd, hok⟩ (hwatch p data hd)
  | modKey p => rfl
  | cachedRead p =>
    obtain ⟨data, hd, hok⟩ := hc
    exact watchF_sound h h1 h2 ⟨data, hd, hok⟩ (hwatch p data hd)

end EsbuildModel.Watch
