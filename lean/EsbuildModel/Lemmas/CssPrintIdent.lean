import EsbuildModel.Lemmas.CssPrintHex
/-!
`printIdent` followed by `consumeName` / `decodeEscapesInToken`: the escapes written are sound and sufficient.
-/
namespace EsbuildModel.CssLex
open EsbuildModel.Spec.Unicode (IsScalar)

/-- a scalar value as the decoder returns it for its own UTF-8 -/
def mk (c : Nat) : Ch := ⟨c, encRune c⟩

theorem encRune_ne_nil (c : Nat) : encRune c ≠ [] := by
  unfold encRune; simp only
  repeat' split
  all_goals simp

theorem encRune_ascii (c : Nat) (h : c < 128) : encRune c = [c] := by
  unfold encRune
  have : ¬ (c > 0x10FFFF ∨ (0xD800 ≤ c ∧ c ≤ 0xDFFF)) := by omega
  simp only [this, if_false]
  have : c ≤ 127 := by omega
  simp [this]

theorem encRune_head_ge (c : Nat) (hs : IsScalar c) (h : 128 ≤ c) : ∀ b, (encRune c).head? = some b → 192 ≤ b := by
  intro b hb
  rw [encRune_scalar c hs] at hb
  unfold Wtf8.encA at hb
  have : ¬ c ≤ 127 := by omega
  simp only [this, if_false] at hb
  split at hb
  · simp at hb; omega
  · split at hb <;> (simp at hb; omega)

theorem runeLen_scalar (c : Nat) (hs : IsScalar c) : runeLen c = ((encRune c).length : Int) := by
  rw [encRune_scalar c hs]
  unfold IsScalar at hs
  unfold runeLen Wtf8.encA
  by_cases h1 : c ≤ 127
  · simp [h1]
  · by_cases h2 : c ≤ 2047
    · simp [h1, h2]
    · have h3 : ¬ (0xD800 ≤ c ∧ c ≤ 0xDFFF) := hs.2
      by_cases h4 : c ≤ 65535
      · simp [h1, h2, h3, h4]
      · have : c ≤ 0x10FFFF := hs.1
        simp [h1, h2, h3, h4, this]

theorem decodeAll_map_mk (l : List Nat) (h : ∀ c ∈ l, IsScalar c) (rest : List Nat) :
    decodeAll (l.flatMap encRune ++ rest) = l.map mk ++ decodeAll rest := decodeAll_flatMap_enc l h rest

theorem rawOf_map_mk (l : List Nat) : rawOf (l.map mk) = l.flatMap encRune := by
  induction l with
  | nil => rfl
  | cons c t ih => simp [rawOf_cons, mk, ih]

/-- `consumeEscape` reads back a hexadecimal escape as written by `printWithEscape` -/
theorem consumeEscape_printed_hex (c : Nat) (hs : IsScalar c) (h0 : c ≠ 0) (sp : Bool) (m : List Ch)
    (hws : sp = false → headIs isWhitespace m = false)
    (hhex : sp = false → (hexDigitsOf c).length < 6 → headIs (fun x => (isHex x).isSome) m = false) :
    consumeEscape (chOf 92 :: ((hexDigitsOf c).map chOf ++ ((if sp then [chOf 32] else []) ++ m))) = (c, m) := by
  rw [hexDigitsOf_eq, List.map_map]
  have hlen : (digitVals c).length ≤ 6 := digitVals_length c 6 (by omega) (by unfold IsScalar at hs; omega)
  have hdl := digitVals_lt c
  have hfold := digitVals_foldl c 0
  rw [hexDigitsOf_eq, List.length_map] at hhex
  cases hd : digitVals c with
  | nil => exact absurd hd (digitVals_ne_nil c)
  | cons d0 ds =>
    rw [hd] at hlen hdl hfold hhex
    simp only [List.map_cons, List.cons_append, consumeEscape, Function.comp_apply, chOf,
      isHex_hexChar d0 (hdl d0 (by simp))]
    have hl := hexLoop_digits ds (fun x hx => hdl x (List.mem_cons_of_mem _ hx)) 5 d0
      ((if sp then [chOf 32] else []) ++ m) (by simp only [List.length_cons] at hlen; omega) (by
        intro hl
        cases sp with
        | true => simp [headIs, chOf, isHex]
        | false => simpa using hhex rfl (by simp only [List.length_cons]; omega))
    have hmap : List.map (chOf ∘ hexChar) ds = List.map (fun d => chOf (hexChar d)) ds := by
      simp [Function.comp_def]
    have hsp : (if sp = true then [({ cp := 32, raw := [32] } : Ch)] else []) = (if sp = true then [chOf 32] else []) := rfl
    rw [hmap, hsp, hl]
    simp only [List.foldl_cons, Nat.zero_mul, Nat.zero_add] at hfold
    simp only [hfold]
    have hfix : fixHex c = c := by
      unfold fixHex; unfold IsScalar at hs
      have : ¬ (c = 0 ∨ (0xD800 ≤ c ∧ c ≤ 0xDFFF) ∨ c > 0x10FFFF) := by omega
      simp [this]
    rw [hfix]
    cases sp with
    | true => simp [skipOneWs, chOf, isWhitespace]
    | false =>
      have := hws rfl
      cases m with
      | nil => rfl
      | cons x xs =>
        simp only [headIs] at this
        simp [skipOneWs, this]

/-- the escape kind the slow loop of `printIdent` chooses for a rune -/
def escOf (asciiOnly : Bool) (init : Esc) (first : Bool) (c : Nat) : Esc :=
  if asciiOnly && decide (c ≥ 0x80) then .hex
  else if c == 13 || c == 10 || c == 12 || c == 0xFEFF then .hex
  else if first && init != .none then init
  else if !isNameContinue c then .backslash else .none

theorem identLoop_cons (asciiOnly mw : Bool) (init : Esc) (first : Bool) (c : Ch) (t : List Ch) :
    identLoop asciiOnly init mw first (c :: t) =
      printWithEscape c.cp (escOf asciiOnly init first c.cp) (rawOf (c :: t))
        (mw && escOf asciiOnly init first c.cp != .none && decide (runeLen c.cp = (rawLen (c :: t) : Int)))
      ++ identLoop asciiOnly init mw false t := by
  simp only [identLoop, escOf]

/-- the space that `printWithEscape` puts after a hexadecimal escape -/
def hexSpace (c : Nat) (rem : List Nat) (last : Bool) : List Nat :=
  if runeLen c < (rem.length : Int) then
    match rem[(runeLen c).toNat]? with
    | some b => if b == 32 || b == 9 || (decide ((92 :: hexDigitsOf c).length < 1 + 6) && isHexDigitCp b) then [32] else []
    | none => []
  else if last then [32] else []

theorem printWithEscape_none (c : Nat) (rem : List Nat) (last : Bool) : printWithEscape c .none rem last = encRune c := by
  simp [printWithEscape]

theorem printWithEscape_hex (c : Nat) (rem : List Nat) (last : Bool) :
    printWithEscape c .hex rem last = 92 :: hexDigitsOf c ++ hexSpace c rem last := by
  unfold printWithEscape hexSpace
  have : ¬ (Esc.hex = Esc.backslash ∧ isHexDigitCp c = true) := by simp
  simp only [this, if_false]
  rfl

theorem printWithEscape_backslash (c : Nat) (rem : List Nat) (last : Bool) :
    printWithEscape c .backslash rem last =
      if isHexDigitCp c then 92 :: hexDigitsOf c ++ hexSpace c rem last else 92 :: encRune c := by
  by_cases h : isHexDigitCp c = true
  · unfold printWithEscape hexSpace
    have : (Esc.backslash = Esc.backslash ∧ isHexDigitCp c = true) := ⟨rfl, h⟩
    simp only [this, and_self, if_true, h]
    rfl
  · simp [printWithEscape, h]

theorem hexDigitsOf_ascii (c : Nat) : ∀ b ∈ hexDigitsOf c, b < 128 := by
  rw [hexDigitsOf_eq]
  intro b hb
  simp only [List.mem_map] at hb
  obtain ⟨d, hd, rfl⟩ := hb
  exact hexChar_lt d (digitVals_lt c d hd)

theorem hexSpace_cases (c : Nat) (rem : List Nat) (last : Bool) : hexSpace c rem last = [32] ∨ hexSpace c rem last = [] := by
  unfold hexSpace
  repeat' split
  all_goals simp

theorem escOf_none (a : Bool) (init : Esc) (first : Bool) (c : Nat) (h : escOf a init first c = .none) :
    isNameContinue c = true ∧ isNewline c = false := by
  unfold escOf at h
  split at h
  · simp at h
  · split at h
    · simp at h
    · next hn =>
      have hnl : isNewline c = false := by
        simp only [Bool.or_eq_true, beq_iff_eq, not_or] at hn
        simp [isNewline, hn.1.1.1, hn.1.1.2, hn.1.2]
      split at h
      · next hi => simp only [Bool.and_eq_true, bne_iff_ne, ne_eq] at hi; exact absurd h hi.2
      · split at h
        · simp at h
        · next hc => simp only [Bool.not_eq_true', Bool.not_eq_false] at hc; exact ⟨hc, hnl⟩

theorem escOf_not_hex_newline (a : Bool) (init : Esc) (first : Bool) (c : Nat) (h : escOf a init first c ≠ .hex)
    (hi : init ≠ .hex) : isNewline c = false := by
  unfold escOf at h
  split at h
  · simp at h
  · split at h
    · simp at h
    · next hn =>
      simp only [Bool.or_eq_true, beq_iff_eq, not_or] at hn
      simp [isNewline, hn.1.1.1, hn.1.1.2, hn.1.2]

theorem nameCps_cons_name (c : Ch) (t : List Ch) (h : isNameContinue c.cp = true) :
    nameCps (c :: t) = (c.cp :: (nameCps t).1, (nameCps t).2) := by
  rw [nameCps]; simp [h]

theorem nameCps_cons_escape (c : Ch) (t : List Ch) (h1 : isNameContinue c.cp = false) (h2 : isValidEscape (c :: t) = true) :
    nameCps (c :: t) = ((consumeEscape (c :: t)).1 :: (nameCps (consumeEscape (c :: t)).2).1, (nameCps (consumeEscape (c :: t)).2).2) := by
  rw [nameCps]; simp [h1, h2]

theorem nameCps_stop (s : List Ch) (h1 : headIs isNameContinue s = false) (h2 : isValidEscape s = false) : nameCps s = ([], s) := by
  cases s with
  | nil => simp [nameCps]
  | cons c t => simp only [headIs] at h1; rw [nameCps]; simp [h1, h2]

theorem isHexDigitCp_ascii (c : Nat) (h : isHexDigitCp c = true) : c < 128 := by
  unfold isHexDigitCp isHex at h
  split at h
  · omega
  · split at h
    · omega
    · split at h
      · omega
      · simp at h

theorem chOf_eq_mk (c : Nat) (h : c < 128) : mk c = chOf c := by simp [mk, chOf, encRune_ascii c h]

/-- `printWithEscape` writes the hexadecimal form -/
def usesHex (c : Nat) (esc : Esc) : Bool := esc == .hex || (esc == .backslash && isHexDigitCp c)

/-- what one round of the slow loop of `printIdent` writes, read back by the name loop of the lexer: exactly the
rune it was written for -/
theorem nameCps_piece (c : Nat) (hs : IsScalar c) (h0 : c ≠ 0) (esc : Esc) (hesc : esc = .none → isNameContinue c = true)
    (hnl : esc ≠ .hex → isNewline c = false) (rem : List Nat) (last : Bool) (R : List Nat)
    (hws : usesHex c esc = true → hexSpace c rem last = [] → headIs isWhitespace (decodeAll R) = false)
    (hhex : usesHex c esc = true → hexSpace c rem last = [] → (hexDigitsOf c).length < 6 →
      headIs (fun x => (isHex x).isSome) (decodeAll R) = false) :
    nameCps (decodeAll (printWithEscape c esc rem last ++ R)) = (c :: (nameCps (decodeAll R)).1, (nameCps (decodeAll R)).2) := by
  -- the hexadecimal form
  have hexform : usesHex c esc = true → nameCps (decodeAll ((92 :: hexDigitsOf c ++ hexSpace c rem last) ++ R)) =
      (c :: (nameCps (decodeAll R)).1, (nameCps (decodeAll R)).2) := by
    intro hu
    have hws := hws hu
    have hhex := hhex hu
    have hasc : ∀ b ∈ (92 :: hexDigitsOf c ++ hexSpace c rem last), b < 128 := by
      intro b hb
      simp only [List.cons_append, List.mem_cons, List.mem_append] at hb
      rcases hb with rfl | hb | hb
      · omega
      · exact hexDigitsOf_ascii c b hb
      · rcases hexSpace_cases c rem last with e | e <;> rw [e] at hb <;> simp at hb; omega
    rw [decodeAll_asciis _ hasc]
    simp only [List.cons_append, List.map_cons, List.map_append, List.append_assoc]
    have hsp : (hexSpace c rem last).map chOf = if (hexSpace c rem last == [32]) then [chOf 32] else [] := by
      rcases hexSpace_cases c rem last with e | e <;> simp [e]
    rw [hsp]
    have hv : isValidEscape (chOf 92 :: (List.map chOf (hexDigitsOf c) ++
        ((if (hexSpace c rem last == [32]) = true then [chOf 32] else []) ++ decodeAll R))) = true := by
      rw [hexDigitsOf_eq]
      cases hd : digitVals c with
      | nil => exact absurd hd (digitVals_ne_nil c)
      | cons d0 ds =>
        have := hexChar_lt d0 (digitVals_lt c d0 (by rw [hd]; simp))
        have hh := isHex_hexChar d0 (digitVals_lt c d0 (by rw [hd]; simp))
        simp only [List.map_cons, List.cons_append, isValidEscape, chOf, headIs, beq_self_eq_true, Bool.true_and,
          Bool.not_eq_true']
        unfold isNewline
        unfold isHex at hh
        unfold hexChar at hh ⊢
        split at hh <;> split <;> simp <;> omega
    rw [nameCps_cons_escape _ _ (by simp [chOf, isNameContinue, isNameStart, isDigit]) hv]
    have hce := consumeEscape_printed_hex c hs h0 (hexSpace c rem last == [32]) (decodeAll R)
      (by
        intro hsp0
        apply hws
        rcases hexSpace_cases c rem last with e | e
        · rw [e] at hsp0; simp at hsp0
        · exact e)
      (by
        intro hsp0 hl
        apply hhex _ hl
        rcases hexSpace_cases c rem last with e | e
        · rw [e] at hsp0; simp at hsp0
        · exact e)
    rw [hce]
  cases esc with
  | none =>
    rw [printWithEscape_none, decodeAll_enc c hs]
    exact nameCps_cons_name _ _ (hesc rfl)
  | hex => rw [printWithEscape_hex]; exact hexform (by simp [usesHex])
  | backslash =>
    rw [printWithEscape_backslash]
    split
    · next hh => exact hexform (by simp [usesHex, hh])
    · next hnh =>
      have hnl' := hnl (by simp)
      rw [List.cons_append, decodeAll_ascii 92 _ (by omega), decodeAll_enc c hs]
      have hv : isValidEscape (⟨92, [92]⟩ :: ⟨c, encRune c⟩ :: decodeAll R) = true := by
        simp [isValidEscape, headIs, hnl']
      rw [nameCps_cons_escape _ _ (by simp [isNameContinue, isNameStart, isDigit]) hv]
      have : isHex c = none := by
        simp only [isHexDigitCp, Bool.not_eq_true, Option.isSome_eq_false_iff, Option.isNone_iff_eq_none] at hnh
        exact hnh
      simp [consumeEscape, this]

/-- the first rune of what the slow loop writes for a non-empty rest: never whitespace, and a hex digit only if the
text itself goes on with that hex digit -/
theorem identLoop_head (a mw : Bool) (init : Esc) (c : Nat) (hs : IsScalar c) (t : List Ch) (R : List Nat) :
    headIs isWhitespace (decodeAll (identLoop a init mw false (mk c :: t) ++ R)) = false ∧
    (headIs (fun x => (isHex x).isSome) (decodeAll (identLoop a init mw false (mk c :: t) ++ R)) = true →
      (isHex c).isSome = true) := by
  rw [identLoop_cons]
  simp only [mk, List.append_assoc]
  have hb : ∀ X : List Nat, headIs isWhitespace (decodeAll (92 :: X)) = false ∧
      (headIs (fun x => (isHex x).isSome) (decodeAll (92 :: X)) = true → (isHex c).isSome = true) := by
    intro X
    rw [decodeAll_ascii 92 _ (by omega)]
    simp [headIs, isWhitespace, isHex]
  generalize hE : escOf a init false c = esc
  cases esc with
  | none =>
    have := (escOf_none a init false c hE).1
    rw [printWithEscape_none, decodeAll_enc c hs]
    simp only [headIs]
    refine ⟨?_, fun h => h⟩
    unfold isNameContinue isNameStart isDigit at this
    unfold isWhitespace
    simp only [Bool.or_eq_true, Bool.and_eq_true, decide_eq_true_eq, beq_iff_eq] at this
    simp only [Bool.or_eq_false_iff, beq_eq_false_iff_ne, ne_eq]
    omega
  | hex => rw [printWithEscape_hex]; exact hb _
  | backslash =>
    rw [printWithEscape_backslash]
    split
    · exact hb _
    · exact hb _

/-- (T4a) the name loop of the lexer reads what the slow loop of `printIdent` wrote: the same code points, and it
stops exactly where the identifier ends -/
theorem identLoop_nameCps (a mw : Bool) (init : Esc) (hinit : init ≠ .hex) (follow : List Nat)
    (hf1 : headIs isNameContinue (decodeAll follow) = false) (hf2 : isValidEscape (decodeAll follow) = false)
    (l : List Nat) (hs : ∀ c ∈ l, IsScalar c ∧ c ≠ 0)
    (hf3 : headIs isWhitespace (decodeAll follow) = true → mw = true)
    (first : Bool) :
    nameCps (decodeAll (identLoop a init mw first (l.map mk) ++ follow)) = (l, decodeAll follow) := by
  induction l generalizing first with
  | nil => simp only [List.map_nil, identLoop, List.nil_append]; exact nameCps_stop _ hf1 hf2
  | cons c t ih =>
    have hc := hs c (by simp)
    have hst : ∀ x ∈ t, IsScalar x ∧ x ≠ 0 := fun x hx => hs x (List.mem_cons_of_mem _ hx)
    have ih' := ih hst false
    rw [List.map_cons, identLoop_cons, List.append_assoc]
    simp only [mk]
    have hnl : escOf a init first c ≠ .hex → isNewline c = false := fun h => escOf_not_hex_newline a init first c h hinit
    have hnone : escOf a init first c = .none → isNameContinue c = true := fun h => (escOf_none a init first c h).1
    have key := nameCps_piece c hc.1 hc.2 (escOf a init first c) hnone hnl (rawOf (({ cp := c, raw := encRune c } : Ch) :: t.map mk))
      (mw && escOf a init first c != .none && decide (runeLen c = (rawLen (({ cp := c, raw := encRune c } : Ch) :: t.map mk) : Int)))
      (identLoop a init mw false (t.map mk) ++ follow)
    have hraw : rawOf (({ cp := c, raw := encRune c } : Ch) :: t.map mk) = encRune c ++ t.flatMap encRune := by
      rw [rawOf_cons, rawOf_map_mk]
    have hrl := runeLen_scalar c hc.1
    cases t with
    | nil =>
      -- last rune: what follows is `follow`
      simp only [List.map_nil, identLoop, List.nil_append] at key ih' ⊢
      have hnh : headIs (fun x => (isHex x).isSome) (decodeAll follow) = false := by
        cases hd : decodeAll follow with
        | nil => rfl
        | cons x xs =>
          rw [hd] at hf1
          simp only [headIs] at hf1 ⊢
          cases hx : isHex x.cp with
          | none => rfl
          | some d =>
            exfalso
            unfold isHex at hx
            unfold isNameContinue isNameStart isDigit at hf1
            simp only [Bool.or_eq_false_iff, Bool.and_eq_false_imp, decide_eq_true_eq, decide_eq_false_iff_not,
              beq_eq_false_iff_ne] at hf1
            split at hx
            · omega
            · split at hx
              · omega
              · split at hx
                · omega
                · simp at hx
      rw [key ?_ (fun _ _ _ => hnh), ih']
      intro hu hsp
      -- no space was written although this is the last rune
      cases hw : headIs isWhitespace (decodeAll follow) with
      | false => rfl
      | true =>
        exfalso
        have hmw := hf3 hw
        have hne : escOf a init first c ≠ .none := by
          intro h0; rw [h0] at hu; simp [usesHex] at hu
        unfold hexSpace at hsp
        have hlen : ((rawOf [({ cp := c, raw := encRune c } : Ch)]).length : Int) = ((encRune c).length : Int) := by
          simp [rawOf]
        have h2 : ¬ (runeLen c < ((rawOf [({ cp := c, raw := encRune c } : Ch)]).length : Int)) := by
          rw [hrl, hlen]; omega
        simp only [h2, if_false] at hsp
        have h3 : (mw && escOf a init first c != Esc.none &&
            decide (runeLen c = (rawLen [({ cp := c, raw := encRune c } : Ch)] : Int))) = true := by
          have : runeLen c = (rawLen [({ cp := c, raw := encRune c } : Ch)] : Int) := by
            rw [hrl]; simp [rawLen, rawOf]
          simp [hmw, hne, this]
        rw [h3] at hsp
        simp at hsp
    | cons c' t' =>
      have hc' := hst c' (by simp)
      have hh := identLoop_head a mw init c' hc'.1 (t'.map mk) follow
      simp only [List.map_cons] at key ih' hh ⊢
      rw [key (fun _ _ => hh.1) ?_, ih']
      intro hu hsp hl
      cases hx : headIs (fun x => (isHex x).isSome) (decodeAll (identLoop a init mw false (mk c' :: t'.map mk) ++ follow)) with
      | false => rfl
      | true =>
        exfalso
        have hhc' := hh.2 hx
        have hasc : c' < 128 := isHexDigitCp_ascii c' hhc'
        unfold hexSpace at hsp
        have h1 : (92 :: hexDigitsOf c).length < 1 + 6 := by simp only [List.length_cons]; omega
        simp only [h1, if_true] at hsp
        have hrawlen : rawOf (({ cp := c, raw := encRune c } : Ch) :: mk c' :: t'.map mk) = encRune c ++ (c' :: t'.flatMap encRune) := by
          rw [rawOf_cons, rawOf_cons, rawOf_map_mk]; simp [mk, encRune_ascii c' hasc]
        rw [hrawlen] at hsp
        have h2 : runeLen c < ((encRune c ++ (c' :: t'.flatMap encRune)).length : Int) := by
          rw [hrl]; simp only [List.length_append, List.length_cons]; omega
        simp only [h2, if_true] at hsp
        have h3 : (encRune c ++ (c' :: t'.flatMap encRune))[(runeLen c).toNat]? = some c' := by
          rw [hrl]; simp
        rw [h3] at hsp
        have : isHexDigitCp c' = true := hhc'
        simp [this] at hsp

theorem hexChar_pos (d : Nat) : 0 < hexChar d := by unfold hexChar; split <;> omega

/-- what `printWithEscape` writes decodes to well-formed, non-NUL runes, whatever follows -/
theorem printWithEscape_decode (c : Nat) (hs : IsScalar c) (h0 : c ≠ 0) (esc : Esc) (rem : List Nat) (last : Bool)
    (R : List Nat) :
    ∃ P, decodeAll (printWithEscape c esc rem last ++ R) = P ++ decodeAll R ∧ WellEnc P ∧ ∀ x ∈ P, x.cp ≠ 0 := by
  have hexform : ∃ P, decodeAll ((92 :: hexDigitsOf c ++ hexSpace c rem last) ++ R) = P ++ decodeAll R ∧ WellEnc P ∧
      ∀ x ∈ P, x.cp ≠ 0 := by
    have hasc : ∀ b ∈ (92 :: hexDigitsOf c ++ hexSpace c rem last), b < 128 ∧ b ≠ 0 := by
      intro b hb
      simp only [List.cons_append, List.mem_cons, List.mem_append] at hb
      rcases hb with rfl | hb | hb
      · omega
      · refine ⟨hexDigitsOf_ascii c b hb, ?_⟩
        rw [hexDigitsOf_eq] at hb
        simp only [List.mem_map] at hb
        obtain ⟨d, _, rfl⟩ := hb
        have := hexChar_pos d; omega
      · rcases hexSpace_cases c rem last with e | e <;> rw [e] at hb <;> simp at hb; omega
    refine ⟨_, decodeAll_asciis _ (fun b hb => (hasc b hb).1) R, ?_, ?_⟩
    · intro x hx
      simp only [List.mem_map] at hx
      obtain ⟨b, hb, rfl⟩ := hx
      simp [chOf, encRune_ascii b (hasc b hb).1]
    · intro x hx
      simp only [List.mem_map] at hx
      obtain ⟨b, hb, rfl⟩ := hx
      exact (hasc b hb).2
  cases esc with
  | none =>
    rw [printWithEscape_none]
    exact ⟨[mk c], by rw [decodeAll_enc c hs]; rfl, by intro x hx; simp at hx; rw [hx]; rfl, by intro x hx; simp at hx; rw [hx]; exact h0⟩
  | hex => rw [printWithEscape_hex]; exact hexform
  | backslash =>
    rw [printWithEscape_backslash]
    split
    · exact hexform
    · refine ⟨[chOf 92, mk c], ?_, ?_, ?_⟩
      · rw [List.cons_append, decodeAll_ascii 92 _ (by omega), decodeAll_enc c hs]; rfl
      · intro x hx
        simp only [List.mem_cons, List.mem_singleton, List.not_mem_nil, or_false] at hx
        rcases hx with rfl | rfl
        · simp [chOf, encRune_ascii 92 (by omega)]
        · rfl
      · intro x hx
        simp only [List.mem_cons, List.mem_singleton, List.not_mem_nil, or_false] at hx
        rcases hx with rfl | rfl
        · simp [chOf]
        · exact h0

theorem identLoop_decode (a mw : Bool) (init : Esc) (l : List Nat) (hs : ∀ c ∈ l, IsScalar c ∧ c ≠ 0) (first : Bool)
    (R : List Nat) :
    ∃ P, decodeAll (identLoop a init mw first (l.map mk) ++ R) = P ++ decodeAll R ∧ WellEnc P ∧ ∀ x ∈ P, x.cp ≠ 0 := by
  induction l generalizing first with
  | nil => exact ⟨[], by simp [identLoop], by intro x hx; simp at hx, by intro x hx; simp at hx⟩
  | cons c t ih =>
    obtain ⟨P2, h2, hw2, hn2⟩ := ih (fun x hx => hs x (List.mem_cons_of_mem _ hx)) false
    rw [List.map_cons, identLoop_cons, List.append_assoc]
    obtain ⟨P1, h1, hw1, hn1⟩ := printWithEscape_decode c (hs c (by simp)).1 (hs c (by simp)).2
      (escOf a init first (mk c).cp) (rawOf (mk c :: t.map mk))
      (mw && escOf a init first (mk c).cp != .none && decide (runeLen (mk c).cp = (rawLen (mk c :: t.map mk) : Int)))
      (identLoop a init mw false (t.map mk) ++ R)
    refine ⟨P1 ++ P2, ?_, hw1.append hw2, ?_⟩
    · simp only [mk] at h1 ⊢; rw [h1, h2, List.append_assoc]
    · intro x hx; simp only [List.mem_append] at hx; rcases hx with h | h; exact hn1 x h; exact hn2 x h

/-- the fast path of `printIdent` writes what the slow loop would write -/
theorem printIdent_eq_identLoop (a mw : Bool) (mode : IdentMode) (l : List Nat) (hs : ∀ c ∈ l, IsScalar c) :
    printIdent a (l.flatMap encRune) mode mw =
      identLoop a (initialEscape mode (l.flatMap encRune)) mw true (l.map mk) := by
  unfold printIdent
  have hdec : decodeAll (l.flatMap encRune) = l.map mk := by
    have := decodeAll_map_mk l hs []; simpa [decodeAll_nil] using this
  simp only [hdec]
  split
  · next hfast =>
    obtain ⟨hi, hall⟩ := hfast
    rw [hi]
    -- every rune is an ASCII name character: it is written as it is
    have : ∀ (l : List Nat) (first : Bool), (∀ c ∈ l, IsScalar c) →
        (l.flatMap encRune).all (fun b => decide (b < 0x80) && isNameContinue b) = true →
        identLoop a .none mw first (l.map mk) = l.flatMap encRune := by
      intro l
      induction l with
      | nil => intro _ _ _; simp [identLoop]
      | cons c t ih =>
        intro first hs hall
        simp only [List.flatMap_cons, List.all_append, Bool.and_eq_true] at hall
        have hc := hs c (by simp)
        have hcasc : c < 128 := by
          by_cases h : c < 128
          · exact h
          · exfalso
            have hne := encRune_ne_nil c
            cases he : encRune c with
            | nil => exact hne he
            | cons x xs =>
              have := encRune_head_ge c hc (by omega) x (by rw [he]; rfl)
              have h1 := hall.1
              rw [he] at h1
              simp only [List.all_cons, Bool.and_eq_true, decide_eq_true_eq] at h1
              omega
        have henc := encRune_ascii c hcasc
        have hname : isNameContinue c = true := by
          have h1 := hall.1; rw [henc] at h1; simp at h1; exact h1.2
        rw [List.map_cons, identLoop_cons]
        have hesc : escOf a .none first (mk c).cp = .none := by
          simp only [mk, escOf]
          have h1 : ¬ (c ≥ 0x80) := by omega
          have h2 : ¬ (c = 13 ∨ c = 10 ∨ c = 12 ∨ c = 0xFEFF) := by
            unfold isNameContinue isNameStart isDigit at hname
            simp only [Bool.or_eq_true, Bool.and_eq_true, decide_eq_true_eq, beq_iff_eq] at hname
            omega
          simp [h1, h2, hname]
          omega
        rw [hesc, printWithEscape_none, ih false (fun x hx => hs x (List.mem_cons_of_mem _ hx)) hall.2]
        simp [mk]
    exact (this l true hs hall).symm
  · rfl

end EsbuildModel.CssLex
