import EsbuildModel.Lemmas.ScopesParse
import EsbuildModel.Lemmas.ScopesVisit
import EsbuildModel.Lemmas.Slots
/-!
From the parser model to the trees of Spec/ScopeTree.lean: the scope tree a file ends with has disjoint sibling
scopes, hence satisfies `WFList` for every notion of "declared" contained in members + generated + label.
-/
namespace EsbuildModel.Scopes

mutual
/-- the scope tree as the renamers read it -/
def toSlots : Sc → Slots.Scope
  | .node f kids => ⟨refsOf f.members, f.generated, f.label, toSlotsList kids⟩
def toSlotsList : List Sc → List Slots.Scope
  | [] => []
  | k :: ks => toSlots k :: toSlotsList ks
end

/-- ast.Symbol.SlotNamespace -/
def slotNs (s : Sym) : Nat :=
  if s.kind = .unbound ∨ s.pinned then 4
  else if s.kind.code ≥ 8 ∧ s.kind.code ≤ 17 then 2
  else if s.kind = .label then 1
  else if s.kind = .mangledProp then 3
  else 0

/-- the symbols as renamer.AssignNestedScopeSlots sees them (no slot assigned yet) -/
def toSlotSyms (syms : Syms) : List Slots.Sym := syms.map (fun s => ⟨slotNs s, none⟩)

mutual
theorem all_toSlots : ∀ (sc : Sc), (toSlots sc).all Slots.declA = sc.all
  | .node f kids => by
    simp only [toSlots, Slots.Scope.all, Sc.all, Slots.declA, Frame.decls, allList_toSlots kids]
theorem allList_toSlots : ∀ (ks : List Sc), Slots.allList Slots.declA (toSlotsList ks) = allKids ks
  | [] => rfl
  | k :: ks => by simp only [toSlotsList, Slots.allList, allKids, all_toSlots k, allList_toSlots ks]
end

mutual
theorem all_sub_declA {d : Slots.Scope → List Nat} (hd : ∀ sc s, s ∈ d sc → s ∈ Slots.declA sc) {s : Nat} :
    ∀ (sc : Slots.Scope), s ∈ sc.all d → s ∈ sc.all Slots.declA
  | ⟨m, g, l, ch⟩, h => by
    simp only [Slots.Scope.all, List.mem_append] at h ⊢
    rcases h with h | h
    · exact Or.inl (hd _ s h)
    · exact Or.inr (allList_sub_declA hd ch h)
theorem allList_sub_declA {d : Slots.Scope → List Nat} (hd : ∀ sc s, s ∈ d sc → s ∈ Slots.declA sc) {s : Nat} :
    ∀ (ch : List Slots.Scope), s ∈ Slots.allList d ch → s ∈ Slots.allList Slots.declA ch
  | [], h => by simp [Slots.allList] at h
  | c :: cs, h => by
    simp only [Slots.allList, List.mem_append] at h ⊢
    rcases h with h | h
    · exact Or.inl (all_sub_declA hd c h)
    · exact Or.inr (allList_sub_declA hd cs h)
end

mutual
theorem wf_of_sibDisj {d : Slots.Scope → List Nat} (hd : ∀ sc s, s ∈ d sc → s ∈ Slots.declA sc) :
    ∀ (sc : Sc) (ctx : List Nat), sc.SibDisj → (toSlots sc).WF d ctx
  | .node f kids, ctx, h => by
    simp only [toSlots, Slots.Scope.WF]
    exact wfList_of_kidsDisj hd kids _ h
theorem wfList_of_kidsDisj {d : Slots.Scope → List Nat} (hd : ∀ sc s, s ∈ d sc → s ∈ Slots.declA sc) :
    ∀ (ks : List Sc) (ctx : List Nat), KidsDisj ks → Slots.WFList d ctx (toSlotsList ks)
  | [], _, _ => by simp [toSlotsList, Slots.WFList]
  | k :: ks, ctx, h => by
    simp only [KidsDisj] at h
    simp only [toSlotsList, Slots.WFList]
    refine ⟨wf_of_sibDisj hd k ctx h.1, wfList_of_kidsDisj hd ks ctx h.2.1, ?_⟩
    intro s hs hs2
    have h1 := all_sub_declA hd _ hs
    have h2 := allList_sub_declA hd _ hs2
    rw [all_toSlots] at h1
    rw [allList_toSlots] at h2
    exact absurd h2 (h.2.2 s h1)
end

/-- `KidsDisj` as a computation (for examples) -/
def disjB (a b : List Nat) : Bool := a.all (fun s => !b.contains s)
mutual
def Sc.sibDisjB : Sc → Bool
  | .node _ kids => kidsDisjB kids
def kidsDisjB : List Sc → Bool
  | [] => true
  | k :: ks => k.sibDisjB && kidsDisjB ks && disjB k.all (allKids ks)
end

mutual
theorem sibDisjB_of : ∀ (sc : Sc), sc.SibDisj → sc.sibDisjB = true
  | .node _ kids, h => by simp only [Sc.sibDisjB]; exact kidsDisjB_of kids h
theorem kidsDisjB_of : ∀ (ks : List Sc), KidsDisj ks → kidsDisjB ks = true
  | [], _ => rfl
  | k :: ks, h => by
    simp only [KidsDisj] at h
    simp only [kidsDisjB, Bool.and_eq_true, sibDisjB_of k h.1, kidsDisjB_of ks h.2.1, true_and]
    simp only [disjB, List.all_eq_true, Bool.not_eq_true', List.contains_eq_mem, decide_eq_false_iff_not]
    exact h.2.2
end

theorem toSlots_children (sc : Sc) : (toSlots sc).children = toSlotsList sc.children := by
  cases sc; simp [toSlots, Sc.children]

/-- the scope tree of a file has disjoint sibling scopes -/
theorem run_sibDisj {full esm us : Bool} {items : List Item} {r : Result}
    (h : run full esm us items = some r) (hws : wsItems false items = true) : r.tree.SibDisj := by
  unfold run at h
  simp only at h
  split at h
  · cases h
  · next p hp =>
    have hp0 : PInv ⟨⟨.entry, if us = true then 1 else 0, [], [], [], none, false⟩, [], ⟨[], [], []⟩⟩ :=
      ⟨by intro s hs; simp [Frame.decls, refsOf] at hs, by intro s hs; simp [allKids] at hs, by simp [KidsDisj],
        by intro _ s _ hk; simp [allKids] at hk⟩
    obtain ⟨hpi, _⟩ := parseItems_inv items _ p hp hp0 (by simpa [hasBody] using hws)
    -- the tree the parse pass built
    have ht0d : (Sc.node p.cur p.kids).SibDisj := by simp only [Sc.SibDisj]; exact hpi.disj
    have ht0b : (Sc.node p.cur p.kids).Below p.st.syms.length := by
      intro s hs
      simp only [Sc.all, List.mem_append] at hs
      rcases hs with hs | hs
      · exact hpi.bnd s hs
      · exact hpi.kbnd s hs
    have ht1d : (if esm = true then setStrictRec 3 (Sc.node p.cur p.kids) else Sc.node p.cur p.kids).SibDisj := by
      split
      · exact setStrictRec_disj _ _ ht0d
      · exact ht0d
    have ht1b : (if esm = true then setStrictRec 3 (Sc.node p.cur p.kids) else Sc.node p.cur p.kids).Below
        p.st.syms.length := by
      split
      · intro s hs; rw [setStrictRec_all] at hs; exact ht0b s hs
      · exact ht0b
    split at h
    · cases h
    · next anc2 tree2 hst hh =>
      obtain ⟨hl, _, hall, hd⟩ := hoistSc_spec esm _ _ _ _ _ _ hh
      have ht2d := hd ht1d ht1b
      have ht2b : ∀ s, s ∈ tree2.all → s < hst.syms.length := by
        intro s hs
        rcases hall s hs with h1 | h1
        · exact Nat.lt_of_lt_of_le (ht1b s h1) hl
        · exact h1.2
      split at h
      · cases h
      · next v hv =>
        cases h
        have hv0 : VInv ⟨tree2.frame, tree2.children, [], [], [], none, none,
            ⟨hst.syms ++ [⟨.unbound, nameRequire, none, false⟩, ⟨.hoisted, nameExports, none, false⟩,
              ⟨.hoisted, nameModule, none, false⟩], [], hst.hmap, p.st.declRefs⟩⟩ := by
          cases tree2 with
          | node f2 kids2 =>
            refine ⟨?_, ?_, ?_, ?_⟩
            · intro s hs
              have := ht2b s (by simp only [Sc.all, List.mem_append]; exact Or.inl hs)
              simp only [List.length_append]; omega
            · intro s hs
              have := ht2b s (by simp only [Sc.all, List.mem_append]; exact Or.inr hs)
              simp only [List.length_append]; omega
            · intro s hs; simp [allKids] at hs
            · simp only [List.nil_append, Sc.children]
              simpa [Sc.SibDisj] using ht2d
        obtain ⟨hvi, _⟩ := visitItems_inv full items _ v hv hv0
        simp only [Sc.SibDisj]
        have := hvi.disj
        rw [kidsDisj_append_iff] at this
        exact this.1

end EsbuildModel.Scopes
