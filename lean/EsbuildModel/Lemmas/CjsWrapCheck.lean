import EsbuildModel.Impl.CjsWrapDriver
import EsbuildModel.Lemmas.CjsWrapBase
/-! The executable hypothesis checks of `Impl/CjsWrapDriver.lean` imply the hypotheses of the theorems. -/
namespace EsbuildModel.CjsWrap

theorem mem_of_get {fs : Files} {i : Nat} {f : File} (h : fs[i]? = some f) : f ∈ fs := List.mem_of_getElem? h

theorem wf_of_wfB {fs : Files} (h : wfB fs = true) : WF fs := by
  intro i f hf
  have := List.all_eq_true.1 h f (mem_of_get hf)
  simp only [Bool.and_eq_true, List.all_eq_true] at this
  refine ⟨?_, ?_⟩
  · intro r hr t ht
    have h' := this.1 r hr
    rw [ht] at h'
    simpa using h'
  · intro s hs
    simpa using this.2 s hs

theorem fresh_of_freshB {fs : Files} (h : freshB fs = true) : Fresh fs := by
  intro i f hf
  have := List.all_eq_true.1 h f (mem_of_get hf)
  simpa using this

theorem covers_of_coversB {order : List Nat} {fs : Files} (h : coversB order fs = true) : Covers order fs := by
  simp only [coversB, Bool.and_eq_true, List.all_eq_true, decide_eq_true_eq, List.mem_range,
    List.contains_iff_mem] at h
  exact ⟨h.1, h.2⟩

end EsbuildModel.CjsWrap
