import EsbuildModel.Impl.Quote
import EsbuildModel.Spec.JsString
namespace EsbuildModel.Quote
open Spec.JsString

def DecodesTo (q : Nat) (s t : List Nat) : Prop := ∃ f, decode q f s = some t

theorem decodesTo_nil (q : Nat) : DecodesTo q [] [] := ⟨0, rfl⟩

theorem decodesTo_step {q : Nat} {s u r t : List Nat} (hs : s ≠ [])
    (h : step q s = some (u, r)) (hr : DecodesTo q r t) : DecodesTo q s (u ++ t) := by
  obtain ⟨f, hf⟩ := hr
  refine ⟨f + 1, ?_⟩
  cases s with
  | nil => exact absurd rfl hs
  | cons c cs => simp only [decode, h, hf]

theorem hexVal_hexChar (d : Nat) (h : d < 16) : hexVal? (hexChar d) = some d := by
  unfold hexChar hexVal?
  split <;> simp <;> (repeat' split) <;> simp_all <;> omega

theorem hexChar_ne_123 (d : Nat) (h : d < 16) : hexChar d ≠ 123 := by
  unfold hexChar; split <;> omega

theorem step_hex4 (q c : Nat) (hc : c < 65536) (tail : List Nat) :
    step q (hex4 c ++ tail) = some ([c], tail) := by
  have h1 : c / 4096 % 16 < 16 := Nat.mod_lt _ (by decide)
  have h2 : c / 256 % 16 < 16 := Nat.mod_lt _ (by decide)
  have h3 : c / 16 % 16 < 16 := Nat.mod_lt _ (by decide)
  have h4 : c % 16 < 16 := Nat.mod_lt _ (by decide)
  have hne := hexChar_ne_123 _ h1
  simp only [hex4, List.cons_append, List.nil_append, step]
  simp [isLineTerminator, hexVal_hexChar, h1, h2, h3, h4]
  omega


theorem step_hex2 (q c : Nat) (hc : c < 256) (tail : List Nat) :
    step q (hex2 c ++ tail) = some ([c], tail) := by
  have h3 : c / 16 % 16 < 16 := Nat.mod_lt _ (by decide)
  have h4 : c % 16 < 16 := Nat.mod_lt _ (by decide)
  simp only [hex2, List.cons_append, List.nil_append, step]
  simp [isLineTerminator, hexVal_hexChar, h3, h4]
  omega

/-- a raw (unescaped) character that is not special decodes to itself -/
theorem step_raw (q c : Nat) (hq : q = 34 ∨ q = 39 ∨ q = 96) (h92 : c ≠ 92) (hcq : c ≠ q)
    (h10 : c = 10 → q = 96) (h13 : c ≠ 13) (h36 : c = 36 → q ≠ 96) (hc : c < 65536) (tail : List Nat) :
    step q (c :: tail) = some ([c], tail) := by
  unfold step
  split
  · rename_i heq; simp at heq
  · rename_i heq; simp at heq; omega
  · rename_i c' rest heq hne
    simp only [List.cons.injEq] at hne
    obtain ⟨rfl, rfl⟩ := hne
    have e1 : ¬ (q ≠ 96 ∧ (c = 10 ∨ c = 13)) := by
      rintro ⟨a, b | b⟩
      · exact a (h10 b)
      · exact h13 b
    have e2 : ¬ (q = 96 ∧ c = 13) := fun ⟨_, b⟩ => h13 b
    have e3 : ¬ (q = 96 ∧ c = 36) := fun ⟨a, b⟩ => h36 b a
    simp only [hcq, e1, e2, e3, ↓reduceIte, utf16, hc]


def TailOK (rest tail : List Nat) : Prop :=
  ∀ x, tail.head? = some x → x = 92 ∨ rest.head? = some x ∨ x ≥ 65536

theorem step_nul (q : Nat) (tail : List Nat) (h : ∀ x, tail.head? = some x → ¬ (48 ≤ x ∧ x ≤ 57)) :
    step q ([92, 48] ++ tail) = some ([0], tail) := by
  cases tail with
  | nil => simp [step, isLineTerminator]
  | cons x xs =>
    have := h x rfl
    simp [step, isLineTerminator, this]

theorem step_dollar (q : Nat) (tail : List Nat) (hq : q = 34 ∨ q = 39 ∨ q = 96)
    (h : q = 96 → tail.head? ≠ some 123) :
    step q ([36] ++ tail) = some ([36], tail) := by
  by_cases h96 : q = 96
  · subst h96
    have := h rfl
    cases tail with
    | nil => simp [step]
    | cons x xs =>
      have hx : x ≠ 123 := by simpa using this
      simp only [List.cons_append, List.nil_append, step]
      simp
      split
      · rename_i heq; simp at heq; exact absurd heq.1 hx
      · rfl
  · exact step_raw q 36 hq (by decide) (by omega) (fun h => absurd h (by decide)) (by decide) (fun _ => h96) (by decide) tail

theorem unit_step (o : Opts) (q : Nat) (prev : Option Nat) (c : Nat) (rest tail : List Nat)
    (hq : q = 34 ∨ q = 39 ∨ q = 96) (hc : c < 65536) (ht : TailOK rest tail) :
    step q (unitChunk o q prev c rest ++ tail) = some ([c], tail) := by
  by_cases h0 : c = 0
  · subst h0
    simp only [unitChunk, ↓reduceIte]
    cases rest with
    | nil =>
      apply step_nul
      intro x hx
      rcases ht x hx with h | h | h
      · omega
      · simp at h
      · omega
    | cons d ds =>
      simp only
      split
      · simp [step, isLineTerminator, hexVal?]
      · rename_i hd
        apply step_nul
        intro x hx
        rcases ht x hx with h | h | h
        · omega
        · simp at h; subst h; exact hd
        · omega
  by_cases h7 : c = 7
  · subst h7; simp [unitChunk, step, isLineTerminator, hexVal?]
  by_cases h8 : c = 8
  · subst h8; simp [unitChunk, step, isLineTerminator]
  by_cases h12 : c = 12
  · subst h12; simp [unitChunk, step, isLineTerminator]
  by_cases h10 : c = 10
  · subst h10
    simp only [unitChunk]
    simp only [show ¬ ((10:Nat) = 0) by decide, show ¬ ((10:Nat) = 7) by decide, show ¬ ((10:Nat) = 8) by decide, show ¬ ((10:Nat) = 12) by decide, ↓reduceIte]
    split
    · rename_i h96; subst h96
      exact step_raw 96 10 hq (by decide) (by decide) (fun _ => rfl) (by decide) (by decide) (by decide) tail
    · simp [step, isLineTerminator]
  by_cases h13 : c = 13
  · subst h13; simp [unitChunk, step, isLineTerminator]
  by_cases h11 : c = 11
  · subst h11; simp [unitChunk, step, isLineTerminator]
  by_cases h27 : c = 27
  · subst h27; simp [unitChunk, step, isLineTerminator, hexVal?]
  by_cases h92 : c = 92
  · subst h92; simp [unitChunk, step, isLineTerminator, utf16]
  by_cases h47 : c = 47
  · subst h47
    simp only [unitChunk, show ¬ ((47:Nat) = 0) by decide, show ¬ ((47:Nat) = 7) by decide, show ¬ ((47:Nat) = 8) by decide,
      show ¬ ((47:Nat) = 12) by decide, show ¬ ((47:Nat) = 10) by decide, show ¬ ((47:Nat) = 13) by decide, show ¬ ((47:Nat) = 11) by decide,
      show ¬ ((47:Nat) = 27) by decide, show ¬ ((47:Nat) = 92) by decide, ↓reduceIte]
    split
    · simp [step, isLineTerminator, utf16]
    · exact step_raw q 47 hq (by decide) (by omega) (fun h => absurd h (by decide)) (by decide) (fun h => absurd h (by decide)) (by decide) tail
  have hpre : ∀ k, k ≠ c → ¬ (c = k) := fun k h e => h e.symm
  by_cases h39 : c = 39
  · subst h39
    simp only [unitChunk, show ¬ ((39:Nat) = 0) by decide, show ¬ ((39:Nat) = 7) by decide, show ¬ ((39:Nat) = 8) by decide,
      show ¬ ((39:Nat) = 12) by decide, show ¬ ((39:Nat) = 10) by decide, show ¬ ((39:Nat) = 13) by decide, show ¬ ((39:Nat) = 11) by decide,
      show ¬ ((39:Nat) = 27) by decide, show ¬ ((39:Nat) = 92) by decide, show ¬ ((39:Nat) = 47) by decide, ↓reduceIte]
    split
    · simp [step, isLineTerminator, utf16]
    · rename_i hne
      exact step_raw q 39 hq (by decide) (fun h => hne h.symm) (fun h => absurd h (by decide)) (by decide) (fun h => absurd h (by decide)) (by decide) tail
  by_cases h34 : c = 34
  · subst h34
    simp only [unitChunk, show ¬ ((34:Nat) = 0) by decide, show ¬ ((34:Nat) = 7) by decide, show ¬ ((34:Nat) = 8) by decide,
      show ¬ ((34:Nat) = 12) by decide, show ¬ ((34:Nat) = 10) by decide, show ¬ ((34:Nat) = 13) by decide, show ¬ ((34:Nat) = 11) by decide,
      show ¬ ((34:Nat) = 27) by decide, show ¬ ((34:Nat) = 92) by decide, show ¬ ((34:Nat) = 47) by decide, show ¬ ((34:Nat) = 39) by decide, ↓reduceIte]
    split
    · simp [step, isLineTerminator, utf16]
    · rename_i hne
      exact step_raw q 34 hq (by decide) (fun h => hne h.symm) (fun h => absurd h (by decide)) (by decide) (fun h => absurd h (by decide)) (by decide) tail
  by_cases h96 : c = 96
  · subst h96
    simp only [unitChunk, show ¬ ((96:Nat) = 0) by decide, show ¬ ((96:Nat) = 7) by decide, show ¬ ((96:Nat) = 8) by decide,
      show ¬ ((96:Nat) = 12) by decide, show ¬ ((96:Nat) = 10) by decide, show ¬ ((96:Nat) = 13) by decide, show ¬ ((96:Nat) = 11) by decide,
      show ¬ ((96:Nat) = 27) by decide, show ¬ ((96:Nat) = 92) by decide, show ¬ ((96:Nat) = 47) by decide, show ¬ ((96:Nat) = 39) by decide,
      show ¬ ((96:Nat) = 34) by decide, ↓reduceIte]
    split
    · simp [step, isLineTerminator, utf16]
    · rename_i hne
      exact step_raw q 96 hq (by decide) (fun h => hne h.symm) (fun h => absurd h (by decide)) (by decide) (fun h => absurd h (by decide)) (by decide) tail
  by_cases h36 : c = 36
  · subst h36
    simp only [unitChunk, show ¬ ((36:Nat) = 0) by decide, show ¬ ((36:Nat) = 7) by decide, show ¬ ((36:Nat) = 8) by decide,
      show ¬ ((36:Nat) = 12) by decide, show ¬ ((36:Nat) = 10) by decide, show ¬ ((36:Nat) = 13) by decide, show ¬ ((36:Nat) = 11) by decide,
      show ¬ ((36:Nat) = 27) by decide, show ¬ ((36:Nat) = 92) by decide, show ¬ ((36:Nat) = 47) by decide, show ¬ ((36:Nat) = 39) by decide,
      show ¬ ((36:Nat) = 34) by decide, show ¬ ((36:Nat) = 96) by decide, ↓reduceIte]
    split
    · -- next unit is `{`
      split
      · simp [step, isLineTerminator, utf16]
      · rename_i hne
        exact step_dollar q tail hq (fun h => absurd h hne)
    · rename_i hnb
      apply step_dollar q tail hq
      intro _ hh
      rcases ht 123 hh with h | h | h
      · omega
      · cases rest with
        | nil => simp at h
        | cons d ds => simp at h; subst h; exact hnb ds rfl
      · omega
  by_cases h8232 : c = 8232
  · subst h8232; simp [unitChunk, step, isLineTerminator, hexVal?]
  by_cases h8233 : c = 8233
  · subst h8233; simp [unitChunk, step, isLineTerminator, hexVal?]
  by_cases h65279 : c = 65279
  · subst h65279; simp [unitChunk, step, isLineTerminator, hexVal?]
  simp only [unitChunk, h0, h7, h8, h12, h10, h13, h11, h27, h92, h47, h39, h34, h96, h36, h8232, h8233, h65279, ↓reduceIte]
  have hcq : c ≠ q := by rcases hq with h | h | h <;> omega
  unfold plainUnit
  split
  · exact step_raw q c hq h92 hcq (fun h => absurd h h10) h13 (fun h => absurd h h36) hc tail
  · split
    · exact step_hex4 q c hc tail
    · split
      · exact step_hex4 q c hc tail
      · rename_i hlow
        split
        · rename_i hascii
          apply step_hex2 q c _ tail
          simp [hascii] at hlow
          omega
        · exact step_raw q c hq h92 hcq (fun h => absurd h h10) h13 (fun h => absurd h h36) hc tail


theorem step_raw_astral (q r : Nat) (hq : q = 34 ∨ q = 39 ∨ q = 96) (hr : r ≥ 65536) (tail : List Nat) :
    step q (r :: tail) = some ([55296 + (r - 65536) / 1024, 56320 + (r - 65536) % 1024], tail) := by
  unfold step
  split
  · rename_i heq; simp at heq
  · rename_i heq; simp at heq; omega
  · rename_i c' rest heq hne
    simp only [List.cons.injEq] at hne
    obtain ⟨rfl, rfl⟩ := hne
    have e0 : ¬ (r = q) := by rcases hq with h | h | h <;> omega
    have e1 : ¬ (q ≠ 96 ∧ (r = 10 ∨ r = 13)) := by rintro ⟨_, b | b⟩ <;> omega
    have e2 : ¬ (q = 96 ∧ r = 13) := by rintro ⟨_, b⟩; omega
    have e3 : ¬ (q = 96 ∧ r = 36) := by rintro ⟨_, b⟩; omega
    have e4 : ¬ (r < 65536) := by omega
    simp only [e0, e1, e2, e3, e4, ↓reduceIte, utf16]

theorem hexChar_ne_125 (d : Nat) (h : d < 16) : hexChar d ≠ 125 := by
  unfold hexChar; split <;> omega

theorem step_hexBrace (q r : Nat) (h1 : r ≥ 65536) (h2 : r ≤ 1114111) (tail : List Nat) :
    step q (hexBrace r ++ tail) = some (utf16 r, tail) := by
  have d (k : Nat) : r / k % 16 < 16 := Nat.mod_lt _ (by decide)
  have d0 : r % 16 < 16 := Nat.mod_lt _ (by decide)
  have n (k : Nat) : hexChar (r / k % 16) ≠ 125 := hexChar_ne_125 _ (d k)
  have n0 : hexChar (r % 16) ≠ 125 := hexChar_ne_125 _ d0
  unfold hexBrace
  split
  · rename_i hlt
    have hv : (((r / 65536 % 16 * 16 + r / 4096 % 16) * 16 + r / 256 % 16) * 16 + r / 16 % 16) * 16 + r % 16 = r := by omega
    have b1 : ¬ (1114111 < r / 65536 % 16) := by omega
    have b2 : ¬ (1114111 < r / 65536 % 16 * 16 + r / 4096 % 16) := by omega
    have b3 : ¬ (1114111 < (r / 65536 % 16 * 16 + r / 4096 % 16) * 16 + r / 256 % 16) := by omega
    have b4 : ¬ (1114111 < ((r / 65536 % 16 * 16 + r / 4096 % 16) * 16 + r / 256 % 16) * 16 + r / 16 % 16) := by omega
    simp only [List.cons_append, List.nil_append, step]
    have b5 : ¬ (1114111 < r) := by omega
    simp [isLineTerminator, braceHex, hexVal_hexChar, d, d0, n, n0, hv, b1, b2, b3, b4, b5, h2]
  · rename_i hge
    have hv : ((((r / 1048576 % 16 * 16 + r / 65536 % 16) * 16 + r / 4096 % 16) * 16 + r / 256 % 16) * 16 + r / 16 % 16) * 16 + r % 16 = r := by omega
    have b0 : ¬ (1114111 < r / 1048576 % 16) := by omega
    have b1 : ¬ (1114111 < r / 1048576 % 16 * 16 + r / 65536 % 16) := by omega
    have b2 : ¬ (1114111 < (r / 1048576 % 16 * 16 + r / 65536 % 16) * 16 + r / 4096 % 16) := by omega
    have b3 : ¬ (1114111 < ((r / 1048576 % 16 * 16 + r / 65536 % 16) * 16 + r / 4096 % 16) * 16 + r / 256 % 16) := by omega
    have b4 : ¬ (1114111 < (((r / 1048576 % 16 * 16 + r / 65536 % 16) * 16 + r / 4096 % 16) * 16 + r / 256 % 16) * 16 + r / 16 % 16) := by omega
    simp only [List.cons_append, List.nil_append, step]
    have b5 : ¬ (1114111 < r) := by omega
    simp [isLineTerminator, braceHex, hexVal_hexChar, d, d0, n, n0, hv, b0, b1, b2, b3, b4, b5, h2]


theorem hex4_head (c : Nat) : ∃ ys, hex4 c = 92 :: ys := ⟨_, rfl⟩
theorem hex2_head (c : Nat) : ∃ ys, hex2 c = 92 :: ys := ⟨_, rfl⟩

theorem unitChunk_head (o : Opts) (q : Nat) (prev : Option Nat) (c : Nat) (rest : List Nat) :
    ∃ y ys, unitChunk o q prev c rest = y :: ys ∧ (y = 92 ∨ y = c) := by
  by_cases h0 : c = 0
  · subst h0
    simp [unitChunk]
    try ((repeat' split) <;> simp)
  by_cases h7 : c = 7
  · subst h7
    simp [unitChunk]
    try ((repeat' split) <;> simp)
  by_cases h8 : c = 8
  · subst h8
    simp [unitChunk]
    try ((repeat' split) <;> simp)
  by_cases h12 : c = 12
  · subst h12
    simp [unitChunk]
    try ((repeat' split) <;> simp)
  by_cases h10 : c = 10
  · subst h10
    simp [unitChunk]
    try ((repeat' split) <;> simp)
  by_cases h13 : c = 13
  · subst h13
    simp [unitChunk]
    try ((repeat' split) <;> simp)
  by_cases h11 : c = 11
  · subst h11
    simp [unitChunk]
    try ((repeat' split) <;> simp)
  by_cases h27 : c = 27
  · subst h27
    simp [unitChunk]
    try ((repeat' split) <;> simp)
  by_cases h92 : c = 92
  · subst h92
    simp [unitChunk]
    try ((repeat' split) <;> simp)
  by_cases h47 : c = 47
  · subst h47
    simp [unitChunk]
    try ((repeat' split) <;> simp)
  by_cases h39 : c = 39
  · subst h39
    simp [unitChunk]
    try ((repeat' split) <;> simp)
  by_cases h34 : c = 34
  · subst h34
    simp [unitChunk]
    try ((repeat' split) <;> simp)
  by_cases h96 : c = 96
  · subst h96
    simp [unitChunk]
    try ((repeat' split) <;> simp)
  by_cases h36 : c = 36
  · subst h36
    simp [unitChunk]
    try ((repeat' split) <;> simp)
  by_cases h8232 : c = 8232
  · subst h8232
    simp [unitChunk]
    try ((repeat' split) <;> simp)
  by_cases h8233 : c = 8233
  · subst h8233
    simp [unitChunk]
    try ((repeat' split) <;> simp)
  by_cases h65279 : c = 65279
  · subst h65279
    simp [unitChunk]
    try ((repeat' split) <;> simp)
  have e : unitChunk o q prev c rest = plainUnit o c := by
    simp only [unitChunk, h0, h7, h8, h12, h10, h13, h11, h27, h92, h47, h39, h34, h96, h36, h8232, h8233, h65279, ↓reduceIte]
  rw [e]
  unfold plainUnit hex4 hex2
  (repeat' split) <;> simp


theorem pair_r_ge (c c2 : Nat) (h1 : 55296 ≤ c) (h2 : 56320 ≤ c2) : (c - 55296) * 1024 + (c2 - 56320) + 65536 ≥ 65536 := by omega

theorem pair_e1 (c c2 : Nat) (h1 : 55296 ≤ c ∧ c ≤ 56319) (h2 : 56320 ≤ c2 ∧ c2 ≤ 57343) :
    55296 + ((c - 55296) * 1024 + (c2 - 56320) + 65536 - 65536) / 1024 = c := by omega
theorem pair_e2 (c c2 : Nat) (h1 : 55296 ≤ c ∧ c ≤ 56319) (h2 : 56320 ≤ c2 ∧ c2 ≤ 57343) :
    56320 + ((c - 55296) * 1024 + (c2 - 56320) + 65536 - 65536) % 1024 = c2 := by omega
theorem pair_le (c c2 : Nat) (h1 : 55296 ≤ c ∧ c ≤ 56319) (h2 : 56320 ≤ c2 ∧ c2 ≤ 57343) :
    (c - 55296) * 1024 + (c2 - 56320) + 65536 ≤ 1114111 := by omega

theorem pairChunk_head (o : Opts) (c c2 : Nat) (h1 : isHigh c = true) (h2 : isLow c2 = true) :
    ∃ y ys, pairChunk o c c2 = y :: ys ∧ (y = 92 ∨ y ≥ 65536) := by
  simp only [isHigh, isLow, Bool.and_eq_true, decide_eq_true_eq] at h1 h2
  have hr := pair_r_ge c c2 h1.1 h2.1
  unfold pairChunk
  simp only
  split
  · split
    · exact ⟨92, _, rfl, Or.inl rfl⟩
    · exact ⟨92, _, rfl, Or.inl rfl⟩
  · exact ⟨(c - 55296) * 1024 + (c2 - 56320) + 65536, [], rfl, Or.inr hr⟩

theorem go_shape (o : Opts) (q : Nat) (wrap : Bool) (sll : Int) (i : Nat) (prev : Option Nat) (c : Nat) (rest : List Nat) :
    ∃ pre sll', (pre = [] ∨ pre = [92, 10]) ∧
      ((go o q wrap sll i prev (c :: rest) = pre ++ unitChunk o q prev c rest ++ go o q wrap sll' (i + 1) (some c) rest) ∨
       (∃ c2 rest2, rest = c2 :: rest2 ∧ isHigh c = true ∧ isLow c2 = true ∧
          go o q wrap sll i prev (c :: rest) = pre ++ pairChunk o c c2 ++ go o q wrap sll' (i + 2) (some c2) rest2)) := by
  have hpre : (if (wrap && decide (sll + (i : Int) ≥ (o.lineLimit : Int))) = true then [92, 10] else ([] : List Nat)) = [] ∨
      (if (wrap && decide (sll + (i : Int) ≥ (o.lineLimit : Int))) = true then [92, 10] else ([] : List Nat)) = [92, 10] := by
    split <;> simp
  cases rest with
  | nil =>
    rw [go.eq_3]
    split
    · exact ⟨_, _, hpre, Or.inl rfl⟩
    · exact ⟨_, _, hpre, Or.inl rfl⟩
  | cons d tl =>
    rw [go.eq_2]
    split
    · rename_i hh
      split
      · rename_i hl
        exact ⟨_, _, hpre, Or.inr ⟨d, tl, rfl, hh, hl, rfl⟩⟩
      · exact ⟨_, _, hpre, Or.inl rfl⟩
    · exact ⟨_, _, hpre, Or.inl rfl⟩

theorem go_head (o : Opts) (q : Nat) (wrap : Bool) (sll : Int) (i : Nat) (prev : Option Nat) (c : Nat) (rest : List Nat) :
    TailOK (c :: rest) (go o q wrap sll i prev (c :: rest)) := by
  intro x hx
  obtain ⟨pre, sll', hpre, hshape⟩ := go_shape o q wrap sll i prev c rest
  rcases hpre with rfl | rfl
  · rcases hshape with h | ⟨c2, rest2, _, hh, hl, h⟩
    · obtain ⟨y, ys, hy, hyc⟩ := unitChunk_head o q prev c rest
      rw [h, hy] at hx
      simp at hx
      rcases hyc with e | e
      · left; omega
      · right; left; simp; omega
    · obtain ⟨y, ys, hy, hyc⟩ := pairChunk_head o c c2 hh hl
      rw [h, hy] at hx
      simp at hx
      rcases hyc with e | e
      · left; omega
      · right; right; omega
  · left
    rcases hshape with h | ⟨c2, rest2, _, hh, hl, h⟩ <;> (rw [h] at hx; simp at hx; omega)


theorem hex4_ne_nil (c : Nat) : hex4 c ≠ [] := by simp [hex4]

theorem hexBrace_append_ne_nil (r : Nat) (tail : List Nat) : hexBrace r ++ tail ≠ [] := by simp [hexBrace]

theorem utf16_astral (r : Nat) (h : r ≥ 65536) : utf16 r = [55296 + (r - 65536) / 1024, 56320 + (r - 65536) % 1024] := by
  unfold utf16; rw [if_neg (Nat.not_lt.mpr h)]

theorem pair_decodes_brace (q c c2 : Nat) (h1 : 55296 ≤ c ∧ c ≤ 56319) (h2 : 56320 ≤ c2 ∧ c2 ≤ 57343)
    (tail t : List Nat) (ht : DecodesTo q tail t) :
    DecodesTo q (hexBrace ((c - 55296) * 1024 + (c2 - 56320) + 65536) ++ tail) (c :: c2 :: t) := by
  have hr := pair_r_ge c c2 h1.1 h2.1
  have hr2 := pair_le c c2 h1 h2
  have e1 := pair_e1 c c2 h1 h2
  have e2 := pair_e2 c c2 h1 h2
  have hs := step_hexBrace q ((c - 55296) * 1024 + (c2 - 56320) + 65536) hr hr2 tail
  rw [utf16_astral _ hr, e1, e2] at hs
  exact decodesTo_step (hexBrace_append_ne_nil _ _) hs ht

theorem pair_decodes_hex4 (q c c2 : Nat) (h1 : c < 65536) (h2 : c2 < 65536)
    (tail t : List Nat) (ht : DecodesTo q tail t) :
    DecodesTo q (hex4 c ++ hex4 c2 ++ tail) (c :: c2 :: t) := by
  have s2 := step_hex4 q c2 h2 tail
  have d2 : DecodesTo q (hex4 c2 ++ tail) ([c2] ++ t) := decodesTo_step (by simp [hex4]) s2 ht
  have s1 := step_hex4 q c h1 (hex4 c2 ++ tail)
  have := decodesTo_step (by simp [hex4]) s1 d2
  simpa [List.append_assoc] using this

theorem pair_decodes_raw (q c c2 : Nat) (hq : q = 34 ∨ q = 39 ∨ q = 96) (h1 : 55296 ≤ c ∧ c ≤ 56319) (h2 : 56320 ≤ c2 ∧ c2 ≤ 57343)
    (tail t : List Nat) (ht : DecodesTo q tail t) :
    DecodesTo q ([(c - 55296) * 1024 + (c2 - 56320) + 65536] ++ tail) (c :: c2 :: t) := by
  have hr := pair_r_ge c c2 h1.1 h2.1
  have hs := step_raw_astral q ((c - 55296) * 1024 + (c2 - 56320) + 65536) hq hr tail
  rw [pair_e1 c c2 h1 h2, pair_e2 c c2 h1 h2] at hs
  exact decodesTo_step (by simp) hs ht

theorem pair_decodes (o : Opts) (q c c2 : Nat) (hq : q = 34 ∨ q = 39 ∨ q = 96)
    (h1 : isHigh c = true) (h2 : isLow c2 = true) (tail t : List Nat) (ht : DecodesTo q tail t) :
    DecodesTo q (pairChunk o c c2 ++ tail) (c :: c2 :: t) := by
  simp only [isHigh, isLow, Bool.and_eq_true, decide_eq_true_eq] at h1 h2
  unfold pairChunk
  simp only
  split
  · split
    · exact pair_decodes_brace q c c2 h1 h2 tail t ht
    · exact pair_decodes_hex4 q c c2 (by omega) (by omega) tail t ht
  · exact pair_decodes_raw q c c2 hq h1 h2 tail t ht

/-- main lemma: the loop output decodes to the input units -/
theorem go_decodes (o : Opts) (q : Nat) (wrap : Bool) (hq : q = 34 ∨ q = 39 ∨ q = 96) :
    ∀ (n : Nat) (text : List Nat), text.length = n → (∀ u ∈ text, u < 65536) →
      ∀ (sll : Int) (i : Nat) (prev : Option Nat), DecodesTo q (go o q wrap sll i prev text) text := by
  intro n
  induction n using Nat.strongRecOn with
  | _ n ih =>
    intro text hlen hu sll i prev
    cases text with
    | nil => rw [go.eq_1]; exact decodesTo_nil q
    | cons c rest =>
      have hc : c < 65536 := hu c (by simp)
      have hrest : ∀ u ∈ rest, u < 65536 := fun u hm => hu u (by simp [hm])
      obtain ⟨pre, sll', hpre, hshape⟩ := go_shape o q wrap sll i prev c rest
      have finish : ∀ body, DecodesTo q body (c :: rest) → DecodesTo q (pre ++ body) (c :: rest) := by
        intro body hb
        rcases hpre with rfl | rfl
        · simpa using hb
        · have : step q ([92, 10] ++ body) = some ([], body) := by simp [step, isLineTerminator]
          simpa using decodesTo_step (by simp) this hb
      rcases hshape with h | ⟨c2, rest2, hr, hh, hl, h⟩
      · rw [h, List.append_assoc]
        apply finish
        have hrec := ih rest.length (by simp at hlen; omega) rest rfl hrest sll' (i + 1) (some c)
        have htail : TailOK rest (go o q wrap sll' (i + 1) (some c) rest) := by
          cases rest with
          | nil => rw [go.eq_1]; intro x hx; simp at hx
          | cons d ds => exact go_head o q wrap sll' (i + 1) (some c) d ds
        have hs := unit_step o q prev c rest _ hq hc htail
        obtain ⟨y, ys, hy, _⟩ := unitChunk_head o q prev c rest
        exact decodesTo_step (by simp [hy]) hs hrec
      · subst hr
        rw [h, List.append_assoc]
        apply finish
        have hrest2 : ∀ u ∈ rest2, u < 65536 := fun u hm => hrest u (by simp [hm])
        have hrec := ih rest2.length (by simp at hlen; omega) rest2 rfl hrest2 sll' (i + 2) (some c2)
        exact pair_decodes o q c c2 hq hh hl _ _ hrec

/-- C01 `Quote.decode_print`: for every option set, quote character, current line length and EVERY
sequence of UTF-16 code units, the escaped body `printUnquotedUTF16` emits is a valid body of a string
literal with that quote (or template literal) and its String Value is exactly the input sequence. -/
theorem decode_print (o : Opts) (q : Nat) (hq : q = 34 ∨ q = 39 ∨ q = 96) (cur : Nat) (text : List Nat)
    (hu : ∀ u ∈ text, u < 65536) :
    ∃ fuel, decode q fuel (printUnquoted o q cur text) = some text := by
  unfold printUnquoted
  exact go_decodes o q _ hq text.length text rfl hu _ 0 none

end EsbuildModel.Quote
