import EsbuildModel.Lemmas.CssImportSem
/-!
Hoisting of external imports (`hoist`): a stable partition — the relative order of the internal entries and the
relative order of the external entries are kept, nothing but `@layer` entries and external imports precedes an
external import — and the cascade is unchanged for every element/property that the external style sheets leave alone,
provided the external imports neither carry nor declare layers.
-/
namespace EsbuildModel.CssImport
open EsbuildModel.Spec.CssCascade

def isExt (e : Entry) : Bool := e.kind == .ext

def notExt (e : Entry) : Bool := !isExt e

theorem pass1_layers {e : Entry} (hk : e.kind = .layers) (p : Bool) (es : List Entry) :
    pass1 p (e :: es) = if p then e :: pass1 p es else pass1 p es := by
  cases p <;> simp [pass1, hk]

theorem pass1_ext {e : Entry} (hk : e.kind = .ext) (p : Bool) (es : List Entry) :
    pass1 p (e :: es) = e :: pass1 false es := by
  cases p <;> simp [pass1, hk]

theorem pass1_file {e : Entry} (hk : e.kind = .file) (p : Bool) (es : List Entry) :
    pass1 p (e :: es) = pass1 false es := by
  cases p <;> simp [pass1, hk]

theorem pass2_layers {e : Entry} (hk : e.kind = .layers) (p : Bool) (es : List Entry) :
    pass2 p (e :: es) = if p then pass2 p es else e :: pass2 p es := by
  cases p <;> simp [pass2, hk]

theorem pass2_ext {e : Entry} (hk : e.kind = .ext) (p : Bool) (es : List Entry) :
    pass2 p (e :: es) = pass2 false es := by
  cases p <;> simp [pass2, hk]

theorem pass2_file {e : Entry} (hk : e.kind = .file) (p : Bool) (es : List Entry) :
    pass2 p (e :: es) = e :: pass2 false es := by
  cases p <;> simp [pass2, hk]

theorem pass1_false_filter (es : List Entry) : (pass1 false es).filter notExt = [] := by
  induction es with
  | nil => rfl
  | cons e es ih =>
    cases hk : e.kind with
    | layers => rw [pass1_layers hk]; exact ih
    | ext =>
      rw [pass1_ext hk, List.filter_cons_of_neg (by simp [notExt, isExt, hk])]; exact ih
    | file => rw [pass1_file hk]; exact ih

theorem pass2_no_ext (p : Bool) (es : List Entry) : ∀ e ∈ pass2 p es, e.kind ≠ .ext := by
  induction es generalizing p with
  | nil => intro e he; cases he
  | cons x xs ih =>
    intro e he
    simp only [pass2] at he
    split at he
    · rename_i hkeep
      rcases List.mem_cons.1 he with rfl | he
      · intro hx; simp [hx] at hkeep
      · exact ih _ e he
    · exact ih _ e he

theorem pass1_kinds (p : Bool) (es : List Entry) : ∀ e ∈ pass1 p es, e.kind = .ext ∨ e.kind = .layers := by
  induction es generalizing p with
  | nil => intro e he; cases he
  | cons x xs ih =>
    intro e he
    simp only [pass1] at he
    split at he
    · rename_i hkeep
      rcases List.mem_cons.1 he with rfl | he
      · simp only [Bool.or_eq_true, Bool.and_eq_true, beq_iff_eq] at hkeep
        rcases hkeep with h | h
        · exact Or.inr h.1
        · exact Or.inl h
      · exact ih _ e he
    · exact ih _ e he

theorem pass12_filter (p : Bool) (es : List Entry) :
    (pass1 p es).filter notExt ++ pass2 p es = es.filter notExt := by
  induction es generalizing p with
  | nil => rfl
  | cons e es ih =>
    have ihf := ih false
    rw [pass1_false_filter, List.nil_append] at ihf
    cases hk : e.kind with
    | layers =>
      have hne : notExt e = true := by simp [notExt, isExt, hk]
      rw [pass1_layers hk, pass2_layers hk, List.filter_cons_of_pos hne]
      cases p with
      | true =>
        simp only [↓reduceIte]
        rw [List.filter_cons_of_pos hne, List.cons_append, ih true]
      | false =>
        simp only [Bool.false_eq_true, ↓reduceIte]
        rw [pass1_false_filter, List.nil_append, ihf]
    | ext =>
      have hne : ¬ notExt e = true := by simp [notExt, isExt, hk]
      rw [pass1_ext hk, pass2_ext hk, List.filter_cons_of_neg hne, List.filter_cons_of_neg hne,
        pass1_false_filter, List.nil_append, ihf]
    | file =>
      have hne : notExt e = true := by simp [notExt, isExt, hk]
      rw [pass1_file hk, pass2_file hk, List.filter_cons_of_pos hne, pass1_false_filter, List.nil_append, ihf]

theorem filter_eq_self_of_all {α : Type} (p : α → Bool) (l : List α) (h : ∀ x ∈ l, p x = true) : l.filter p = l :=
  List.filter_eq_self.2 h

theorem pass1_filter_ext (p : Bool) (es : List Entry) : (pass1 p es).filter isExt = es.filter isExt := by
  induction es generalizing p with
  | nil => rfl
  | cons e es ih =>
    cases hk : e.kind with
    | layers =>
      have hne : ¬ isExt e = true := by simp [isExt, hk]
      rw [pass1_layers hk, List.filter_cons_of_neg hne]
      cases p with
      | true => simp only [↓reduceIte]; rw [List.filter_cons_of_neg hne]; exact ih true
      | false => simp only [Bool.false_eq_true, ↓reduceIte]; exact ih false
    | ext =>
      have he : isExt e = true := by simp [isExt, hk]
      rw [pass1_ext hk, List.filter_cons_of_pos he, List.filter_cons_of_pos he, ih false]
    | file =>
      have hne : ¬ isExt e = true := by simp [isExt, hk]
      rw [pass1_file hk, List.filter_cons_of_neg hne]; exact ih false

theorem hoist_eq_of_no_ext {es : List Entry} (h : es.any (fun e => e.kind == .ext) = false) : hoist es = es := by
  simp [hoist, h]

theorem filter_isExt_eq_nil {es : List Entry} (h : es.any (fun e => e.kind == .ext) = false) :
    es.filter isExt = [] := by
  rw [List.filter_eq_nil_iff]
  intro e he
  rw [List.any_eq_false] at h
  simpa [isExt] using h e he

/-- the internal entries keep their relative order -/
theorem hoist_internal_order (es : List Entry) :
    (hoist es).filter notExt = es.filter notExt := by
  unfold hoist
  split
  · rw [List.filter_append, ← pass12_filter true es]
    congr 1
    apply filter_eq_self_of_all
    intro e he
    have := pass2_no_ext true es e he
    simp [notExt, isExt, this]
  · rfl

/-- the external entries keep their relative order -/
theorem hoist_external_order (es : List Entry) : (hoist es).filter isExt = es.filter isExt := by
  unfold hoist
  split
  · rw [List.filter_append, pass1_filter_ext]
    have : (pass2 true es).filter isExt = [] := by
      rw [List.filter_eq_nil_iff]
      intro e he
      have := pass2_no_ext true es e he
      simp [isExt, this]
    rw [this, List.append_nil]
  · rfl

/-- CSS syntax: `@import` must come before all rules except `@layer` statements -/
theorem hoist_externals_first (es : List Entry) :
    ∃ h r, hoist es = h ++ r ∧ (∀ e ∈ h, e.kind = .ext ∨ e.kind = .layers) ∧ (∀ e ∈ r, e.kind ≠ .ext) := by
  unfold hoist
  split
  · exact ⟨pass1 true es, pass2 true es, rfl, pass1_kinds true es, pass2_no_ext true es⟩
  · rename_i h
    refine ⟨[], es, rfl, ?_, ?_⟩
    · intro e he; cases he
    intro e he hk
    apply h
    rw [List.any_eq_true]
    exact ⟨e, he, by simp [hk]⟩

theorem mem_pass1 (p : Bool) (es : List Entry) : ∀ e ∈ pass1 p es, e ∈ es := by
  induction es generalizing p with
  | nil => intro e he; cases he
  | cons x xs ih =>
    intro e he
    simp only [pass1] at he
    split at he
    · rcases List.mem_cons.1 he with rfl | he
      · exact List.mem_cons_self ..
      · exact List.mem_cons_of_mem _ (ih _ e he)
    · exact List.mem_cons_of_mem _ (ih _ e he)

theorem mem_pass2 (p : Bool) (es : List Entry) : ∀ e ∈ pass2 p es, e ∈ es := by
  induction es generalizing p with
  | nil => intro e he; cases he
  | cons x xs ih =>
    intro e he
    simp only [pass2] at he
    split at he
    · rcases List.mem_cons.1 he with rfl | he
      · exact List.mem_cons_self ..
      · exact List.mem_cons_of_mem _ (ih _ e he)
    · exact List.mem_cons_of_mem _ (ih _ e he)

theorem mem_hoist (es : List Entry) : ∀ e ∈ hoist es, e ∈ es := by
  intro e he
  unfold hoist at he
  split at he
  · rcases List.mem_append.1 he with h | h
    · exact mem_pass1 _ _ e h
    · exact mem_pass2 _ _ e h
  · exact he

-- ------------------------------------------------------------------ the cascade

/-- a piece of a style sheet that declares no layer and has no declaration for the element/property in question -/
def Inert (env : Env) (m : Matcher) (prop : Nat) (items : List Item) : Prop :=
  (∀ acc, layerOrderFrom env acc items = acc) ∧ ∀ order, cands env m prop order items = []

theorem winner_inert {env : Env} {m : Matcher} {prop : Nat} {n : List Item} (h : Inert env m prop n)
    (p t : List Item) : winner env m prop (p ++ n ++ t) = winner env m prop (p ++ t) := by
  unfold winner layerOrder
  simp only [layerOrderFrom_append, cands_append, h.1, h.2, List.append_nil]

theorem winner_filter_inert (g : Graph) (decl : Nat → Decl) (ext : Nat → List Item) {env : Env} {m : Matcher}
    {prop : Nat} (es : List Entry)
    (h : ∀ e ∈ es, isExt e = true → Inert env m prop (semEntryN g decl ext e)) (p : List Item) :
    winner env m prop (p ++ semN g decl ext es) =
      winner env m prop (p ++ semN g decl ext (es.filter notExt)) := by
  induction es generalizing p with
  | nil => rfl
  | cons e es ih =>
    have ih' := ih (fun x hx => h x (List.mem_cons_of_mem _ hx))
    by_cases he : isExt e = true
    · rw [List.filter_cons_of_neg (by simp [notExt, he]), semN_cons, ← List.append_assoc,
        winner_inert (h e (List.mem_cons_self ..) he)]
      exact ih' p
    · rw [List.filter_cons_of_pos (by simpa [notExt] using he), semN_cons, semN_cons, ← List.append_assoc, ← List.append_assoc]
      exact ih' _

-- ------------------------------------------------------------------ when an external import is inert

/-- the external style sheets have no declaration of `prop` that applies to the element (and no `@layer`) -/
def ExtSilent (ext : Nat → List Item) (m : Matcher) (prop : Nat) : Prop :=
  ∀ p, ∀ it ∈ ext p, ∃ cs l d, it = Item.rule cs l d ∧ (m d.sel = none ∨ d.prop ≠ prop)

/-- the external imports carry no `layer` condition (neither their own nor inherited from an importing file) -/
def ExtCondsNoLayer (es : List Entry) : Prop := ∀ e ∈ es, e.kind = .ext → ∀ c ∈ e.conds, c.layer = none

theorem filter_isDeclare_wrapN_noLayer {cs : List Cond} (hcs : ∀ c ∈ cs, c.layer = none) {items : List Item}
    (h : items.filter Item.isDeclare = []) : (wrapN cs items).filter Item.isDeclare = [] := by
  induction cs with
  | nil => exact h
  | cons c cs ih =>
    show (wrap c [] (wrapN cs items)).filter Item.isDeclare = []
    rw [filter_isDeclare_wrap, ih (fun x hx => hcs x (List.mem_cons_of_mem _ hx))]
    simp [wrap, condLayer, hcs c (List.mem_cons_self ..)]

theorem inert_of_silent (g : Graph) (decl : Nat → Decl) {ext : Nat → List Item} {m : Matcher} {prop : Nat}
    (hs : ExtSilent ext m prop) (env : Env) {e : Entry} (hk : e.kind = .ext) (hc : ∀ c ∈ e.conds, c.layer = none) :
    Inert env m prop (semEntryN g decl ext e) := by
  have hcontent : entryContent g decl ext e = ext e.ext := by simp [entryContent, hk]
  have hnodecl : (semEntryN g decl ext e).filter Item.isDeclare = [] := by
    unfold semEntryN
    apply filter_isDeclare_wrapN_noLayer hc
    rw [hcontent, List.filter_eq_nil_iff]
    intro it hit
    obtain ⟨cs, l, d, rfl, _⟩ := hs e.ext it hit
    simp [Item.isDeclare]
  constructor
  · intro acc
    unfold layerOrderFrom
    rw [← filterMap_declares_filter, hnodecl]
    rfl
  · intro order
    cases hcs : cands env m prop order (semEntryN g decl ext e) with
    | nil => rfl
    | cons c rest =>
      exfalso
      have hmem : c ∈ cands env m prop order (semEntryN g decl ext e) := by rw [hcs]; exact List.mem_cons_self ..
      obtain ⟨cs, l, d, spec, hit, _, hp, hsel, _⟩ := mem_cands hmem
      unfold semEntryN at hit
      obtain ⟨a0, l0, h0, _, _⟩ := mem_wrapN_rule.1 hit
      rw [hcontent] at h0
      obtain ⟨cs', l', d', he, hd⟩ := hs e.ext _ h0
      cases he
      rcases hd with hd | hd
      · rw [hd] at hsel; cases hsel
      · exact hd hp

end EsbuildModel.CssImport
