import EsbuildModel.Impl.Targets
import EsbuildModel.Spec.VersionLine
import EsbuildModel.Lemmas.Compat
/-! Lemmas for `Props/C14Targets.lean`: the version comparison against the version line, ranges, unions over constraints. -/
namespace EsbuildModel.Targets
open EsbuildModel.Compat (V Range compareVersions isVersionSupported featureUnsupported)
open EsbuildModel.Spec.VersionLine

/-- a version of the TABLE is a release -/
def ofTable (a : V) : Pt := { major := a.1, minor := a.2.1, patch := a.2.2, rel := true }

/-- a version the USER wrote: missing components are 0, a pre-release text makes it a pre-release -/
def ofUser (b : Compat.Semver) : Pt :=
  { major := b.parts.getD 0 0, minor := b.parts.getD 1 0, patch := b.parts.getD 2 0, rel := !b.pre }

theorem compareVersions_lt (a : V) (b : Compat.Semver) : compareVersions a b < 0 ↔ (ofTable a).lt (ofUser b) := by
  obtain ⟨a1, a2, a3⟩ := a
  simp only [compareVersions, ofTable, ofUser, Pt.lt]
  generalize b.parts.getD 0 0 = b1
  generalize b.parts.getD 1 0 = b2
  generalize b.parts.getD 2 0 = b3
  cases b.pre <;> simp <;> (repeat' split) <;> omega

theorem compareVersions_gt (a : V) (b : Compat.Semver) : compareVersions a b > 0 ↔ (ofUser b).lt (ofTable a) := by
  obtain ⟨a1, a2, a3⟩ := a
  simp only [compareVersions, ofTable, ofUser, Pt.lt]
  generalize b.parts.getD 0 0 = b1
  generalize b.parts.getD 1 0 = b2
  generalize b.parts.getD 2 0 = b3
  cases b.pre <;> simp <;> (repeat' split) <;> omega

theorem compareVersions_eq (a : V) (b : Compat.Semver) : compareVersions a b = 0 ↔ ofTable a = ofUser b := by
  obtain ⟨a1, a2, a3⟩ := a
  simp only [compareVersions, ofTable, ofUser, Pt.mk.injEq]
  generalize b.parts.getD 0 0 = b1
  generalize b.parts.getD 1 0 = b2
  generalize b.parts.getD 2 0 = b3
  cases b.pre <;> simp <;> (repeat' split) <;> omega

theorem compareVersions_le (a : V) (b : Compat.Semver) : compareVersions a b ≤ 0 ↔ (ofTable a).le (ofUser b) := by
  have h1 := compareVersions_lt a b
  have h2 := compareVersions_eq a b
  unfold Pt.le
  constructor
  · intro h
    by_cases h0 : compareVersions a b = 0
    · exact Or.inr (h2.mp h0)
    · exact Or.inl (h1.mp (by omega))
  · rintro (h | h)
    · have := h1.mpr h; omega
    · have := h2.mpr h; omega

/-! ### the version line is a strict total order -/

theorem Pt.lt_irrefl (p : Pt) : ¬ p.lt p := by
  unfold Pt.lt; cases p.rel <;> simp

theorem Pt.lt_trans {p q r : Pt} (h1 : p.lt q) (h2 : q.lt r) : p.lt r := by
  unfold Pt.lt at *
  cases hp : p.rel <;> cases hq : q.rel <;> cases hr : r.rel <;> simp [hp, hq, hr] at * <;> omega

theorem Pt.trichotomy (p q : Pt) : p.lt q ∨ p = q ∨ q.lt p := by
  obtain ⟨a, b, c, d⟩ := p
  obtain ⟨a', b', c', d'⟩ := q
  simp only [Pt.lt, Pt.mk.injEq]
  cases d <;> cases d' <;> simp <;> omega

theorem Pt.lt_asymm {p q : Pt} (h : p.lt q) : ¬ q.lt p := fun h' => Pt.lt_irrefl p (Pt.lt_trans h h')

theorem Pt.le_trans {p q r : Pt} (h1 : p.le q) (h2 : q.le r) : p.le r := by
  rcases h1 with h1 | h1 <;> rcases h2 with h2 | h2
  · exact Or.inl (Pt.lt_trans h1 h2)
  · subst h2; exact Or.inl h1
  · subst h1; exact Or.inl h2
  · subst h1; exact Or.inr h2

theorem Pt.lt_of_lt_of_le {p q r : Pt} (h1 : p.lt q) (h2 : q.le r) : p.lt r := by
  rcases h2 with h2 | h2
  · exact Pt.lt_trans h1 h2
  · subst h2; exact h1

theorem Pt.le_total (p q : Pt) : p.le q ∨ q.le p := by
  rcases Pt.trichotomy p q with h | h | h
  · exact Or.inl (Or.inl h)
  · exact Or.inl (Or.inr h)
  · exact Or.inr (Or.inl h)

/-! ### ranges -/

/-- how a table row's range reads on the version line -/
def stopOf (e : V) : Option Pt := if e = (0, 0, 0) then none else some (ofTable e)

def rangeHolds (r : Range) (p : Pt) : Prop := inRange (ofTable r.1) (stopOf r.2) p

theorem range_step (r : Range) (v : Compat.Semver) :
    (compareVersions r.1 v ≤ 0 && (r.2 == (0, 0, 0) || compareVersions r.2 v > 0)) = true ↔ rangeHolds r (ofUser v) := by
  simp only [Bool.and_eq_true, Bool.or_eq_true, decide_eq_true_eq, beq_iff_eq, rangeHolds, inRange, stopOf,
    compareVersions_le, compareVersions_gt]
  by_cases he : r.2 = (0, 0, 0)
  · simp [he]
  · simp [he]

theorem isVersionSupported_iff (ranges : List Range) (v : Compat.Semver) :
    isVersionSupported ranges v = true ↔ ∃ r ∈ ranges, rangeHolds r (ofUser v) := by
  simp only [isVersionSupported, List.any_eq_true]
  constructor
  · rintro ⟨r, hr, h⟩; exact ⟨r, hr, (range_step r v).mp h⟩
  · rintro ⟨r, hr, h⟩; exact ⟨r, hr, (range_step r v).mpr h⟩

/-- one open-ended range -/
def isOpenSingle (rs : List Range) : Bool :=
  match rs with
  | [(_, e)] => e == (0, 0, 0)
  | _ => false

theorem open_single_mono (rs : List Range) (ho : isOpenSingle rs = true) (v v' : Compat.Semver)
    (hle : (ofUser v).le (ofUser v')) (hs : isVersionSupported rs v = true) : isVersionSupported rs v' = true := by
  match rs, ho with
  | [(s, e)], ho =>
    have he : e = (0, 0, 0) := by simpa [isOpenSingle] using ho
    subst he
    rw [isVersionSupported_iff] at hs ⊢
    obtain ⟨r, hr, h⟩ := hs
    refine ⟨r, hr, ?_⟩
    have hr' : r = (s, (0, 0, 0)) := by simpa using hr
    subst hr'
    simp only [rangeHolds, inRange, stopOf, if_true] at h ⊢
    exact ⟨Pt.le_trans h.1 hle, trivial⟩

/-- the rows (feature, engine) of a table that are NOT one open-ended range -/
def closedRows (t : Compat.Table) : List (String × String) :=
  t.flatMap fun fe => (fe.2.filter fun er => !isOpenSingle er.2).map fun er => (fe.1, er.1)

theorem open_of_not_closed (t : Compat.Table) (f e : String) (es : List (String × List Range)) (rs : List Range)
    (hf : (f, es) ∈ t) (he : (e, rs) ∈ es) (hx : (f, e) ∉ closedRows t) : isOpenSingle rs = true := by
  cases h : isOpenSingle rs with
  | true => rfl
  | false =>
    exfalso; apply hx
    simp only [closedRows, List.mem_flatMap, List.mem_map, List.mem_filter]
    exact ⟨(f, es), hf, (e, rs), ⟨he, by simp [h]⟩, rfl⟩

/-! ### several constraints -/

theorem featureUnsupported_append (engines : List (String × List Range)) (c1 c2 : List (String × Compat.Semver)) :
    featureUnsupported engines (c1 ++ c2) = (featureUnsupported engines c1 || featureUnsupported engines c2) := by
  simp [featureUnsupported, List.any_append]

theorem featureUnsupported_iff (engines : List (String × List Range)) (cs : List (String × Compat.Semver)) :
    featureUnsupported engines cs = true ↔ ∃ c ∈ cs, featureUnsupported engines [c] = true := by
  simp only [featureUnsupported, List.any_eq_true, List.any_cons, List.any_nil, Bool.or_false]

/-! ### CompareSemver against the version line -/

/-- the point of a constraint -/
def Sv.pt (s : Sv) : Pt := ofUser s.toC

theorem cmpParts_lt (a b : List Nat) (ha : a.length ≤ 3) (hb : b.length ≤ 3) (h : cmpParts a b < 0) (ra rb : Bool) :
    (Pt.mk (a.getD 0 0) (a.getD 1 0) (a.getD 2 0) ra).lt (Pt.mk (b.getD 0 0) (b.getD 1 0) (b.getD 2 0) rb) := by
  match a, ha with
  | [], _ | [x], _ | [x, y], _ | [x, y, z], _ =>
    match b, hb with
    | [], _ | [u], _ | [u, v], _ | [u, v, w], _ =>
      simp [cmpParts, Pt.lt] at h ⊢ <;> (repeat' split at h) <;> omega

theorem cmpParts_gt (a b : List Nat) (ha : a.length ≤ 3) (hb : b.length ≤ 3) (h : cmpParts a b > 0) (ra rb : Bool) :
    (Pt.mk (b.getD 0 0) (b.getD 1 0) (b.getD 2 0) rb).lt (Pt.mk (a.getD 0 0) (a.getD 1 0) (a.getD 2 0) ra) := by
  match a, ha with
  | [], _ | [x], _ | [x, y], _ | [x, y, z], _ =>
    match b, hb with
    | [], _ | [u], _ | [u, v], _ | [u, v, w], _ =>
      simp [cmpParts, Pt.lt] at h ⊢ <;> (repeat' split at h) <;> omega

theorem cmpParts_eq (a b : List Nat) (ha : a.length ≤ 3) (hb : b.length ≤ 3) (h : cmpParts a b = 0) :
    a.getD 0 0 = b.getD 0 0 ∧ a.getD 1 0 = b.getD 1 0 ∧ a.getD 2 0 = b.getD 2 0 := by
  match a, ha with
  | [], _ | [x], _ | [x, y], _ | [x, y, z], _ =>
    match b, hb with
    | [], _ | [u], _ | [u, v], _ | [u, v, w], _ =>
      simp [cmpParts] at h ⊢ <;> (repeat' split at h) <;> omega

theorem compareSemver_lt (a b : Sv) (ha : a.parts.length ≤ 3) (hb : b.parts.length ≤ 3) (h : compareSemver a b < 0) :
    a.pt.le b.pt := by
  unfold compareSemver at h
  simp only [Sv.pt, ofUser, Sv.toC, Bool.not_not]
  by_cases hc : cmpParts a.parts b.parts = 0
  · obtain ⟨h0, h1, h2⟩ := cmpParts_eq a.parts b.parts ha hb hc
    simp only [hc, ne_eq, not_true_eq_false, if_false] at h
    rw [h0, h1, h2]
    cases hap : a.pre.isEmpty <;> cases hbp : b.pre.isEmpty
    · exact Or.inr rfl
    · exact Or.inl (by simp [Pt.lt])
    · exfalso
      have hne : ((!true) != (!false)) = true := by decide
      simp only [hap, hbp, hne, if_true] at h
      have : a.pre.length = 0 := by simpa using hap
      omega
    · exact Or.inr rfl
  · simp only [ne_eq, hc, not_false_eq_true, if_true] at h
    exact Or.inl (cmpParts_lt a.parts b.parts ha hb h _ _)

theorem compareSemver_ge (a b : Sv) (ha : a.parts.length ≤ 3) (hb : b.parts.length ≤ 3) (h : ¬ compareSemver a b < 0) :
    b.pt.le a.pt := by
  unfold compareSemver at h
  simp only [Sv.pt, ofUser, Sv.toC, Bool.not_not]
  by_cases hc : cmpParts a.parts b.parts = 0
  · obtain ⟨h0, h1, h2⟩ := cmpParts_eq a.parts b.parts ha hb hc
    simp only [hc, ne_eq, not_true_eq_false, if_false] at h
    rw [h0, h1, h2]
    cases hap : a.pre.isEmpty <;> cases hbp : b.pre.isEmpty
    · exact Or.inr rfl
    · exfalso
      have hne : ((!false) != (!true)) = true := by decide
      simp only [hap, hbp, hne, if_true] at h
      have h1 : b.pre.length = 0 := by simpa using hbp
      have h2 : a.pre.length ≠ 0 := by
        intro h3; have : a.pre = [] := List.eq_nil_of_length_eq_zero h3; simp [this] at hap
      apply h; rw [h1]; omega
    · exact Or.inl (by simp [Pt.lt])
    · exact Or.inr rfl
  · simp only [ne_eq, hc, not_false_eq_true, if_true] at h
    exact Or.inl (cmpParts_gt a.parts b.parts ha hb (by omega) _ _)

/-! ### the constraint map -/

theorem lookup_setC_same (cs : Constraints) (n : String) (v : Sv) : (setC cs n v).lookup n = some v := by
  induction cs with
  | nil => simp [setC, List.lookup]
  | cons x xs ih =>
    obtain ⟨k, o⟩ := x
    simp only [setC]
    split
    · rename_i h; subst h; simp [List.lookup]
    · rename_i h
      have : (n == k) = false := by simpa using fun h' => h h'.symm
      simp [List.lookup, this, ih]

theorem lookup_setC_other (cs : Constraints) (n m : String) (v : Sv) (h : m ≠ n) : (setC cs n v).lookup m = cs.lookup m := by
  induction cs with
  | nil =>
    have : (m == n) = false := by simpa using h
    simp [setC, List.lookup, this]
  | cons x xs ih =>
    obtain ⟨k, o⟩ := x
    simp only [setC]
    split
    · rename_i hk; subst hk
      have : (m == k) = false := by simpa using h
      simp [List.lookup, this]
    · by_cases hm : m = k
      · subst hm; simp [List.lookup]
      · have : (m == k) = false := by simpa using hm
        simp [List.lookup, this, ih]

theorem lookup_addConstraint_other (cs : Constraints) (n m : String) (v : Sv) (h : m ≠ n) :
    (addConstraint cs n v).lookup m = cs.lookup m := by
  unfold addConstraint
  split
  · split
    · rfl
    · exact lookup_setC_other cs n m v h
  · exact lookup_setC_other cs n m v h

theorem parseVersion_len (t : Text) (v : Sv) (h : parseVersion t = some v) : 1 ≤ v.parts.length ∧ v.parts.length ≤ 3 := by
  unfold parseVersion at h
  split at h
  · simp at h
  · split at h
    · simp at h
    · simp only [Option.some.injEq] at h
      subst h
      dsimp only
      split
      · simp
      · split <;> simp

/-- the versions that compete for engine `n`: what the map already holds, and every well-formed entry of the list -/
def Cand (cs : Constraints) (engines : List (Nat × Text)) (n : String) (w : Sv) : Prop :=
  cs.lookup n = some w ∨ ∃ e vt, (e, vt) ∈ engines ∧ parseVersion vt = some w ∧ convertEngineName e = some n

def ShortParts (cs : Constraints) : Prop := ∀ n v, cs.lookup n = some v → v.parts.length ≤ 3

theorem shortParts_add (cs : Constraints) (hs : ShortParts cs) (name : String) (new : Sv) (hn : new.parts.length ≤ 3) :
    ShortParts (addConstraint cs name new) := by
  intro n v hv
  by_cases hnn : n = name
  · subst hnn
    unfold addConstraint at hv
    split at hv
    · split at hv
      · exact hs _ _ hv
      · rw [lookup_setC_same] at hv; simp at hv; subst hv; exact hn
    · rw [lookup_setC_same] at hv; simp at hv; subst hv; exact hn
  · rw [lookup_addConstraint_other _ _ _ _ hnn] at hv; exact hs _ _ hv

theorem cand_step (cs : Constraints) (e : Nat) (vt : Text) (rest : List (Nat × Text)) (name n : String) (new v : Sv)
    (hp : parseVersion vt = some new) (hc : convertEngineName e = some name)
    (h : Cand (addConstraint cs name new) rest n v) : Cand cs ((e, vt) :: rest) n v := by
  rcases h with h | ⟨e', vt', hm, hp', hc'⟩
  · by_cases hnn : n = name
    · subst hnn
      unfold addConstraint at h
      split at h
      · split at h
        · exact Or.inl h
        · rw [lookup_setC_same] at h; simp at h; subst h
          exact Or.inr ⟨e, vt, List.mem_cons_self, hp, hc⟩
      · rw [lookup_setC_same] at h; simp at h; subst h
        exact Or.inr ⟨e, vt, List.mem_cons_self, hp, hc⟩
    · rw [lookup_addConstraint_other _ _ _ _ hnn] at h; exact Or.inl h
  · exact Or.inr ⟨e', vt', List.mem_cons_of_mem _ hm, hp', hc'⟩

theorem Pt.le_refl (p : Pt) : p.le p := Or.inr rfl

theorem cand_step' (cs : Constraints) (hs : ShortParts cs) (e : Nat) (vt : Text) (rest : List (Nat × Text)) (name n : String)
    (new w : Sv) (hp : parseVersion vt = some new) (hc : convertEngineName e = some name)
    (h : Cand cs ((e, vt) :: rest) n w) : ∃ m, Cand (addConstraint cs name new) rest n m ∧ m.pt.le w.pt := by
  have hnew := (parseVersion_len vt new hp).2
  rcases h with h | ⟨e', vt', hm, hp', hc'⟩
  · by_cases hnn : n = name
    · subst hnn
      by_cases hlt : compareSemver w new < 0
      · refine ⟨w, Or.inl ?_, Pt.le_refl _⟩
        simp [addConstraint, h, hlt]
      · refine ⟨new, Or.inl ?_, compareSemver_ge w new (hs _ _ h) hnew hlt⟩
        simp [addConstraint, h, hlt, lookup_setC_same]
    · exact ⟨w, Or.inl (by rw [lookup_addConstraint_other _ _ _ _ hnn]; exact h), Pt.le_refl _⟩
  · rcases List.mem_cons.mp hm with heq | hm'
    · have h1 : e' = e := (Prod.mk.inj heq).1
      have h2 : vt' = vt := (Prod.mk.inj heq).2
      subst h1; subst h2
      rw [hp] at hp'; simp at hp'; subst hp'
      rw [hc] at hc'; simp at hc'; subst hc'
      cases hl : cs.lookup name with
      | none => exact ⟨new, Or.inl (by simp [addConstraint, hl, lookup_setC_same]), Pt.le_refl _⟩
      | some old =>
        by_cases hlt : compareSemver old new < 0
        · exact ⟨old, Or.inl (by simp [addConstraint, hl, hlt]), compareSemver_lt old new (hs _ _ hl) hnew hlt⟩
        · exact ⟨new, Or.inl (by simp [addConstraint, hl, hlt, lookup_setC_same]), Pt.le_refl _⟩
    · exact ⟨w, Or.inr ⟨e', vt', hm', hp', hc'⟩, Pt.le_refl _⟩

/-- the engine loop keeps, for every engine, a LOWEST of the competing versions (on the version line) -/
theorem engineLoop_min (engines : List (Nat × Text)) (cs : Constraints) (errs : List Text) (cs' : Constraints) (errs' : List Text)
    (hs : ShortParts cs) (h : engineLoop engines cs errs = .ok cs' errs') (n : String) :
    (∀ w, Cand cs engines n w → ∃ v, cs'.lookup n = some v ∧ Cand cs engines n v ∧ v.pt.le w.pt) ∧
    (∀ v, cs'.lookup n = some v → Cand cs engines n v) := by
  induction engines generalizing cs errs with
  | nil =>
    simp only [engineLoop, LoopRes.ok.injEq] at h
    obtain ⟨h1, _⟩ := h; subst h1
    constructor
    · intro w hw
      rcases hw with hw | ⟨_, _, hm, _⟩
      · exact ⟨w, hw, Or.inl hw, Pt.le_refl _⟩
      · simp at hm
    · intro v hv; exact Or.inl hv
  | cons x rest ih =>
    obtain ⟨e, vt⟩ := x
    simp only [engineLoop] at h
    cases hp : parseVersion vt with
    | none =>
      rw [hp] at h
      have ih' := ih cs _ hs h
      have conv : ∀ w, Cand cs ((e, vt) :: rest) n w ↔ Cand cs rest n w := by
        intro w
        constructor
        · rintro (hw | ⟨e', vt', hm, hp', hc'⟩)
          · exact Or.inl hw
          · rcases List.mem_cons.mp hm with heq | hm'
            · have h2 : vt' = vt := (Prod.mk.inj heq).2
              subst h2; rw [hp] at hp'; simp at hp'
            · exact Or.inr ⟨e', vt', hm', hp', hc'⟩
        · rintro (hw | ⟨e', vt', hm, hp', hc'⟩)
          · exact Or.inl hw
          · exact Or.inr ⟨e', vt', List.mem_cons_of_mem _ hm, hp', hc'⟩
      constructor
      · intro w hw
        obtain ⟨v, h1, h2, h3⟩ := ih'.1 w ((conv w).mp hw)
        exact ⟨v, h1, (conv v).mpr h2, h3⟩
      · intro v hv; exact (conv v).mpr (ih'.2 v hv)
    | some new =>
      rw [hp] at h
      cases hc : convertEngineName e with
      | none => rw [hc] at h; simp at h
      | some name =>
        rw [hc] at h
        have hs1 := shortParts_add cs hs name new (parseVersion_len vt new hp).2
        have ih' := ih _ _ hs1 h
        constructor
        · intro w hw
          obtain ⟨m, hm, hmw⟩ := cand_step' cs hs e vt rest name n new w hp hc hw
          obtain ⟨v, h1, h2, h3⟩ := ih'.1 m hm
          exact ⟨v, h1, cand_step cs e vt rest name n new v hp hc h2, Pt.le_trans h3 hmw⟩
        · intro v hv; exact cand_step cs e vt rest name n new v hp hc (ih'.2 v hv)

/-! ### feature sets over constraint lists -/

theorem mem_toCompat (cs : Constraints) (x : String × Compat.Semver) : x ∈ toCompat cs ↔ ∃ c ∈ cs, x = (c.1, c.2.toC) := by
  simp only [toCompat, List.mem_map]
  constructor
  · rintro ⟨c, hc, rfl⟩; exact ⟨c, hc, rfl⟩
  · rintro ⟨c, hc, rfl⟩; exact ⟨c, hc, rfl⟩

theorem featureUnsupported_toCompat (engines : List (String × List Range)) (cs : Constraints) :
    featureUnsupported engines (toCompat cs) = true ↔ ∃ c ∈ cs, featureUnsupported engines (toCompat [c]) = true := by
  rw [featureUnsupported_iff]
  constructor
  · rintro ⟨x, hx, h⟩
    obtain ⟨c, hc, rfl⟩ := (mem_toCompat cs x).mp hx
    exact ⟨c, hc, by simpa [toCompat] using h⟩
  · rintro ⟨c, hc, h⟩
    exact ⟨(c.1, c.2.toC), (mem_toCompat cs _).mpr ⟨c, hc, rfl⟩, by simpa [toCompat] using h⟩

theorem jsUnsupported_iff (cs : Constraints) (f : String) : f ∈ jsUnsupported cs ↔ ∃ c ∈ cs, f ∈ jsUnsupported [c] := by
  simp only [jsUnsupported, Compat.unsupported, List.mem_filter, Bool.and_eq_true]
  cases hl : Gen.compatTable.lookup f with
  | none => simp
  | some engines =>
    simp only [featureUnsupported_toCompat engines cs]
    constructor
    · rintro ⟨h1, h2, c, hc, h3⟩; exact ⟨c, hc, h1, h2, h3⟩
    · rintro ⟨c, hc, h1, h2, h3⟩; exact ⟨h1, h2, c, hc, h3⟩

theorem filter_browser_toCompat (cs : Constraints) :
    (toCompat cs).filter (fun c => isBrowser c.1) = toCompat (cs.filter fun c => isBrowser c.1) := by
  induction cs with
  | nil => rfl
  | cons c r ih =>
    simp only [toCompat, List.map_cons, List.filter_cons] at ih ⊢
    split <;> simp [ih]

theorem cssUnsupported_iff (cs : Constraints) (f : String) : f ∈ cssUnsupported cs ↔ ∃ c ∈ cs, f ∈ cssUnsupported [c] := by
  simp only [cssUnsupported, List.mem_filter, Bool.and_eq_true, filter_browser_toCompat]
  cases hl : Gen.cssTable.lookup f with
  | none => simp
  | some engines =>
    rw [featureUnsupported_toCompat engines (cs.filter _)]
    constructor
    · rintro ⟨h1, h2, c, hc, h3⟩
      have hb := (List.mem_filter.mp hc).2
      refine ⟨c, (List.mem_filter.mp hc).1, h1, h2, ?_⟩
      simpa [hb] using h3
    · rintro ⟨c, hc, h1, h2, h3⟩
      cases hb : isBrowser c.1 with
      | false => simp [hb, toCompat, featureUnsupported] at h3
      | true =>
        refine ⟨h1, h2, c, List.mem_filter.mpr ⟨hc, hb⟩, ?_⟩
        simpa [hb] using h3

/-- `--target=es2020` (or node, deno, hermes, rhino) does not affect CSS -/
theorem cssUnsupported_skip (c : String × Sv) (cs : Constraints) (h : isBrowser c.1 = false) :
    cssUnsupported (c :: cs) = cssUnsupported cs := by
  simp only [cssUnsupported, toCompat, List.map_cons, List.filter_cons, h, Bool.false_eq_true, if_false]

theorem unsupported_single (engines : List (String × List Range)) (e : String) (v : Sv) :
    featureUnsupported engines (toCompat [(e, v)]) =
      match engines.lookup e with
      | none => true
      | some rs => !isVersionSupported rs v.toC := by
  simp only [featureUnsupported, toCompat, List.map_cons, List.map_nil, List.any_cons, List.any_nil, Bool.or_false]
  cases engines.lookup e <;> rfl

/-- lowering the version of an engine never makes a feature of an open-ended row supported -/
theorem unsupported_antitone (t : Compat.Table) (f e : String) (es : List (String × List Range))
    (hf : t.lookup f = some es) (hx : (f, e) ∉ closedRows t) (v v' : Sv) (hle : v.pt.le v'.pt)
    (h : featureUnsupported es (toCompat [(e, v')]) = true) : featureUnsupported es (toCompat [(e, v)]) = true := by
  rw [unsupported_single] at h ⊢
  cases hl : es.lookup e with
  | none => rfl
  | some rs =>
    rw [hl] at h
    simp only [Bool.not_eq_true'] at h ⊢
    have ho := open_of_not_closed t f e es rs (Compat.lookup_mem f es t hf) (Compat.lookup_mem e rs es hl) hx
    cases hs : isVersionSupported rs v.toC with
    | false => rfl
    | true => rw [open_single_mono rs ho v.toC v'.toC hle hs] at h; exact absurd h (by simp)

/-! ### prefixes -/

theorem itemNeeds_iff (item : String × String × V) (c : String × Compat.Semver) :
    itemNeeds item c = true ↔ item.1 = c.1 ∧ (item.2.2 = (0, 0, 0) ∨ (ofUser c.2).lt (ofTable item.2.2)) := by
  simp [itemNeeds, compareVersions_gt]

theorem mem_prefixesOf (items : List (String × String × V)) (cs : Constraints) (p : String) :
    p ∈ prefixesOf items cs ↔ p ∈ Gen.cssPrefixBits ∧ ∃ c ∈ cs, isBrowser c.1 = true ∧
      ∃ it ∈ items, it.2.1 = p ∧ it.1 = c.1 ∧ (it.2.2 = (0, 0, 0) ∨ c.2.pt.lt (ofTable it.2.2)) := by
  simp only [prefixesOf, List.mem_filter, List.any_eq_true, Bool.and_eq_true, beq_iff_eq, itemNeeds_iff]
  constructor
  · rintro ⟨hp, x, hx, hb, it, hit, h1, h2, h3⟩
    obtain ⟨c, hc, rfl⟩ := (mem_toCompat cs x).mp hx
    exact ⟨hp, c, hc, hb, it, hit, h1, h2, h3⟩
  · rintro ⟨hp, c, hc, hb, it, hit, h1, h2, h3⟩
    exact ⟨hp, (c.1, c.2.toC), (mem_toCompat cs _).mpr ⟨c, hc, rfl⟩, hb, it, hit, h1, h2, h3⟩

/-! ### the outer loop of parseTargets -/

def lastTarget (items : List Text) (init : String) : String :=
  items.foldl (fun t v => match parseItem v with | .target n => n | _ => t) init

def enginesOf (items : List Text) : List (String × Text) :=
  items.filterMap fun v => match parseItem v with | .engine n ver => some (n, ver) | _ => none

def itemOk (v : Text) : Bool := match parseItem v with | .target _ => true | .engine _ _ => true | _ => false

theorem parseTargetsFrom_ok (items : List Text) (idx : Nat) (t : String) (es : List (String × Text))
    (h : ∀ v ∈ items, itemOk v = true) : parseTargetsFrom idx items t es = .ok (lastTarget items t) (es ++ enginesOf items) := by
  induction items generalizing idx t es with
  | nil => simp [parseTargetsFrom, lastTarget, enginesOf]
  | cons v rest ih =>
    have hv := h v List.mem_cons_self
    have hr := fun w hw => h w (List.mem_cons_of_mem _ hw)
    simp only [parseTargetsFrom]
    unfold itemOk at hv
    cases hp : parseItem v with
    | target n => simp only [ih _ _ _ hr, lastTarget, enginesOf, List.foldl_cons, List.filterMap_cons, hp]
    | engine n ver => simp only [ih _ _ _ hr, lastTarget, enginesOf, List.foldl_cons, List.filterMap_cons, hp, List.append_assoc, List.singleton_append]
    | missingVersion => rw [hp] at hv; simp at hv
    | invalid => rw [hp] at hv; simp at hv

/-- the first refused item stops the parse and is the one reported -/
theorem parseTargetsFrom_bad (pre : List Text) (bad : Text) (post : List Text) (idx : Nat) (t : String) (es : List (String × Text))
    (h : ∀ v ∈ pre, itemOk v = true) (hb : itemOk bad = false) :
    parseTargetsFrom idx (pre ++ bad :: post) t es =
      if parseItem bad = .missingVersion then .missingVersion (idx + pre.length) else .invalid (idx + pre.length) := by
  induction pre generalizing idx t es with
  | nil =>
    simp only [List.nil_append, parseTargetsFrom, List.length_nil, Nat.add_zero]
    unfold itemOk at hb
    cases hp : parseItem bad with
    | target n => rw [hp] at hb; simp at hb
    | engine n ver => rw [hp] at hb; simp at hb
    | missingVersion => simp
    | invalid => simp
  | cons v rest ih =>
    have hv := h v List.mem_cons_self
    have hr := fun w hw => h w (List.mem_cons_of_mem _ hw)
    simp only [List.cons_append, parseTargetsFrom, List.length_cons]
    unfold itemOk at hv
    cases hp : parseItem v with
    | target n => simp only [ih _ _ _ hr]; congr 2 <;> omega
    | engine n ver => simp only [ih _ _ _ hr]; congr 2 <;> omega
    | missingVersion => rw [hp] at hv; simp at hv
    | invalid => rw [hp] at hv; simp at hv

/-! ### the constraint map of validateFeatures -/

theorem targetES_short : Gen.targetES.all (fun p => decide (p.2.length ≤ 3)) = true := by decide

theorem constraintsOf_min (target : Nat) (engines : List (Nat × Text)) (tname : String) (cs : Constraints) (errs : List Text)
    (h : constraintsOf target engines = some (tname, .ok cs errs)) (n : String) :
    ∃ cs0 : Constraints,
      (cs0 = [] ∨ ∃ parts, Gen.targetES.lookup tname = some parts ∧ parts ≠ [] ∧ cs0 = [("ES", { parts := parts, pre := [] })]) ∧
      (∀ w, Cand cs0 engines n w → ∃ v, cs.lookup n = some v ∧ Cand cs0 engines n v ∧ v.pt.le w.pt) ∧
      (∀ v, cs.lookup n = some v → Cand cs0 engines n v) := by
  unfold constraintsOf at h
  split at h
  · simp at h
  · rename_i tn htn
    split at h
    · simp at h
    · rename_i parts hparts
      simp only [Option.some.injEq, Prod.mk.injEq] at h
      obtain ⟨h1, h2⟩ := h
      subst h1
      have hshort : parts.length ≤ 3 := by
        have := List.all_eq_true.mp targetES_short _ (Compat.lookup_mem _ _ _ hparts)
        simpa using this
      refine ⟨if parts.isEmpty then [] else [("ES", { parts := parts, pre := [] })], ?_, ?_⟩
      · cases parts with
        | nil => exact Or.inl rfl
        | cons a b => exact Or.inr ⟨a :: b, hparts, by simp, rfl⟩
      · refine engineLoop_min engines _ [] cs errs ?_ h2 n
        intro m v hv
        cases parts with
        | nil => simp [List.lookup] at hv
        | cons a b =>
          simp only [List.isEmpty_cons, Bool.false_eq_true, if_false, List.lookup] at hv
          split at hv
          · simp at hv; subst hv; exact hshort
          · simp at hv
