import EsbuildModel.Lemmas.WatchRun
/-! Coverage is kept by later non-conflicting steps and established by the step itself. -/
namespace EsbuildModel.Watch

theorem isFile_not_isMissing {fs : FS} {p : Path} (h : fs.isFile p = true) : fs.isMissing p = false := by
  unfold FS.isFile at h; unfold FS.isMissing; cases hn : fs.node p <;> simp [hn] at h ⊢

theorem watchD_step {fs : FS} {st : St} {d : Path} (hc : HasCache st d) (hw : WatchD fs st d) (op : Op)
    (hno : readOf op = some d → fs.isFile d = true) (hnm : op = .modKey d → fs.isMissing d = false) :
    WatchD fs (step fs st op).1 d := by
  obtain ⟨data, hdata, hok⟩ := hw
  by_cases hD : dirOf op = some d
  · rw [WatchD, step_watch_D hD]
    unfold HasCache at hc
    cases hcc : aget st.cache d with
    | none => rw [hcc] at hc; cases hc
    | some c => rw [doReadDir_hit hcc]; exact ⟨data, hdata, hok⟩
  · by_cases hR : readOf op = some d
    · have hf := hno hR
      cases op <;> simp only [readOf, Option.some.injEq, reduceCtorEq] at hR <;> subst hR
      · refine ⟨_, ?_, okD_tReadFile hok hf⟩
        rw [step_readFile, doReadFile_watch, hdata]; simp
      · unfold WatchD
        rw [step_cachedRead, doCachedRead_watch, hdata]
        simp only [if_true]
        split
        · exact ⟨_, rfl, okD_tModKey hok (isFile_not_isMissing hf)⟩
        · exact ⟨_, rfl, okD_tReadFile (okD_tModKey hok (isFile_not_isMissing hf)) hf⟩
    · by_cases hM : op = .modKey d
      · subst hM
        refine ⟨_, ?_, okD_tModKey hok (hnm rfl)⟩
        rw [step_modKey, doModKey_watch, hdata]; simp
      · exact ⟨data, by rw [step_watch_other hD hR hM]; exact hdata, hok⟩

theorem watchF_step {fs : FS} {st : St} {p : Path} (hw : WatchF fs st p) (op : Op)
    (hno : dirOf op = some p → fs.node p ≠ .missing) : WatchF fs (step fs st op).1 p := by
  obtain ⟨data, hdata, hok⟩ := hw
  by_cases hD : dirOf op = some p
  · rw [WatchF, step_watch_D hD]
    cases hcc : aget st.cache p with
    | some c => rw [doReadDir_hit hcc]; exact ⟨data, hdata, hok⟩
    | none =>
      rw [doReadDir_watch_miss hcc, hdata]
      have := okF_tReadDir hok (hno hD)
      split
      · rename_i d' hd'; rw [hd'] at this; exact ⟨d', by simp, this⟩
      · exact ⟨data, rfl, hok⟩
  · by_cases hR : readOf op = some p
    · cases op <;> simp only [readOf, Option.some.injEq, reduceCtorEq] at hR <;> subst hR
      · refine ⟨_, ?_, okF_tReadFile hok⟩
        rw [step_readFile, doReadFile_watch, hdata]; simp
      · unfold WatchF
        rw [step_cachedRead, doCachedRead_watch, hdata]
        simp only [if_true]
        split
        · exact ⟨_, rfl, okF_tModKey hok _⟩
        · exact ⟨_, rfl, okF_tReadFile (okF_tModKey hok _)⟩
    · by_cases hM : op = .modKey p
      · subst hM
        refine ⟨_, ?_, okF_tModKey hok (fs.modKey p)⟩
        rw [step_modKey, doModKey_watch, hdata]; simp
      · exact ⟨data, by rw [step_watch_other hD hR hM]; exact hdata, hok⟩

/-! ### what `conflict = false` gives -/
theorem noconf_DR {fs : FS} {a b : Op} {d : Path} (h : conflict fs a b = false) (ha : dirOf a = some d)
    (hb : readOf b = some d) : fs.isFile d = true := by
  unfold conflict at h
  simp only [Bool.or_eq_false_iff] at h
  have h1 := h.1.1
  simp only [ha, hb, beq_self_eq_true, Bool.true_and, Bool.not_eq_false'] at h1
  exact h1

theorem noconf_DM {fs : FS} {a : Op} {d : Path} (h : conflict fs a (.modKey d) = false) (ha : dirOf a = some d) :
    fs.isMissing d = false := by
  unfold conflict at h
  simp only [Bool.or_eq_false_iff] at h
  have h1 := h.1.2
  simp only [ha, beq_self_eq_true, Bool.true_and] at h1
  exact h1

theorem noconf_RD {fs : FS} {a b : Op} {p : Path} (h : conflict fs a b = false) (ha : readOf a = some p)
    (hb : dirOf b = some p) : fs.node p ≠ .missing := by
  unfold conflict at h
  simp only [Bool.or_eq_false_iff] at h
  have h2 := h.2
  simp only [ha, hb, beq_self_eq_true, Bool.true_and] at h2
  intro hn
  simp [FS.isMissing, hn] at h2

theorem covers_watchD {fs : FS} {st : St} {a : Op} {d : Path} (ha : dirOf a = some d) (hc : Covers fs st a) :
    HasCache st d ∧ WatchD fs st d := by
  cases a <;> simp only [dirOf, Option.some.injEq, reduceCtorEq] at ha <;> subst ha
  · exact hc
  · exact ⟨hc.1, hc.2.1⟩
  · exact ⟨hc.1, hc.2.1⟩
  · exact ⟨hc.1, hc.2.1⟩

/-- a later operation that does not conflict keeps the coverage of an earlier one -/
theorem covers_step {fs : FS} {st : St} (h : Inv fs st) {a : Op} (hc : Covers fs st a) (op : Op)
    (hno : conflict fs a op = false) : Covers fs (step fs st op).1 a := by
  have g := grow_step h op
  have hD : ∀ d, dirOf a = some d → HasCache st d → WatchD fs st d → WatchD fs (step fs st op).1 d :=
    fun d ha hcache hw => watchD_step hcache hw op (fun hr => noconf_DR hno ha hr)
      (fun hm => noconf_DM (hm ▸ hno) ha)
  have hF : ∀ p, readOf a = some p → WatchF fs st p → WatchF fs (step fs st op).1 p :=
    fun p ha hw => watchF_step hw op (fun hd => noconf_RD hno ha hd)
  cases a with
  | readDir d => exact ⟨hc.1.grow g, hD d rfl hc.1 hc.2⟩
  | get d q => exact ⟨hc.1.grow g, hD d rfl hc.1 hc.2.1, fun hd => (hc.2.2 hd).grow g⟩
  | sortedKeys d => exact ⟨hc.1.grow g, hD d rfl hc.1 hc.2.1, fun hd => (hc.2.2 hd).grow g⟩
  | kind d q =>
    exact ⟨hc.1.grow g, hD d rfl hc.1 hc.2.1, fun hd => (hc.2.2.1 hd).grow g, fun b hb => (hc.2.2.2 b hb).grow g⟩
  | readFile p => exact hF p rfl hc
  | modKey p => trivial
  | cachedRead p => exact hF p rfl hc

/-! ### the directory cache changes only at the directory the operation names -/
theorem doReadDir_cache_ne {fs : FS} {st : St} {d p : Path} (h : d ≠ p) :
    aget (doReadDir fs st d).1.cache p = aget st.cache p := by
  unfold doReadDir
  cases hc : aget st.cache d with
  | some c => rfl
  | none => simp [aget_aset, h]

theorem doGet_cache_ne {st : St} {d p : Path} (c : DirCache) (q : String) (h : d ≠ p) :
    aget (doGet st d c q).1.cache p = aget st.cache p := by
  unfold doGet; split
  · rfl
  · simp [aget_aset, h]

theorem doSortedKeys_cache_ne {st : St} {d p : Path} (c : DirCache) (h : d ≠ p) :
    aget (doSortedKeys st d c).1.cache p = aget st.cache p := by
  unfold doSortedKeys; split
  · rfl
  · simp [aget_aset, h]

theorem doStat_cache_ne {fs : FS} {st : St} {d p : Path} (c : DirCache) (b : String) (h : d ≠ p) :
    aget (doStat fs st d c b).1.cache p = aget st.cache p := by
  unfold doStat; split
  · rfl
  · simp [aget_aset, h]

theorem fcStore_cache (st : St) (p : Path) (k : KeyRes) (r : Except Err String) : (fcStore st p k r).1.cache = st.cache := by
  unfold fcStore; split <;> rfl

theorem doCachedRead_cache (fs : FS) (st : St) (p : Path) : (doCachedRead fs st p).1.cache = st.cache := by
  unfold doCachedRead
  simp only
  split
  · rfl
  · rw [fcStore_cache]; rfl

theorem step_cache_other {fs : FS} {st : St} {op : Op} {p : Path} (hd : dirOf op ≠ some p) :
    aget (step fs st op).1.cache p = aget st.cache p := by
  cases op with
  | readDir d =>
    have : d ≠ p := by intro h; subst h; exact hd rfl
    rw [step_readDir]; exact doReadDir_cache_ne this
  | get d q =>
    have : d ≠ p := by intro h; subst h; exact hd rfl
    rw [step_get]; simp only; rw [doGet_cache_ne _ _ this, doReadDir_cache_ne this]
  | sortedKeys d =>
    have : d ≠ p := by intro h; subst h; exact hd rfl
    rw [step_sortedKeys]; simp only; rw [doSortedKeys_cache_ne _ this, doReadDir_cache_ne this]
  | kind d q =>
    have : d ≠ p := by intro h; subst h; exact hd rfl
    have hm : aget (kindMid fs st d q).1.cache p = aget st.cache p := by
      unfold kindMid; rw [doGet_cache_ne _ _ this, doReadDir_cache_ne this]
    rw [step_kind]
    split
    · exact hm
    · simp only; rw [doStat_cache_ne _ _ this]; exact hm
  | readFile p' => rfl
  | modKey p' => rfl
  | cachedRead p' => rw [step_cachedRead]; simp only; rw [doCachedRead_cache]

/-- every cached directory was read by an operation of the history -/
def Hist (st : St) (done : List Op) : Prop := ∀ p, HasCache st p → ∃ a ∈ done, dirOf a = some p

theorem hist_step {fs : FS} {st : St} {done : List Op} (hh : Hist st done) (op : Op) :
    Hist (step fs st op).1 (done ++ [op]) := by
  intro p hp
  by_cases hd : dirOf op = some p
  · exact ⟨op, by simp, hd⟩
  · unfold HasCache at hp
    rw [step_cache_other hd] at hp
    obtain ⟨a, ha, hda⟩ := hh p hp
    exact ⟨a, by simp [ha], hda⟩

theorem step_hasCache {fs : FS} {st : St} (h : Inv fs st) {op : Op} {d : Path} (hD : dirOf op = some d) :
    HasCache (step fs st op).1 d := by
  have h0 : HasCache (doReadDir fs st d).1 d := by
    unfold HasCache; rw [(doReadDir_spec h d).2]; rfl
  obtain ⟨h1, hc⟩ := doReadDir_spec h d
  cases op <;> simp only [dirOf, Option.some.injEq, reduceCtorEq] at hD <;> subst hD
  · exact h0
  · rename_i q; rw [step_get]; exact h0.grow (grow_doGet hc q)
  · rw [step_sortedKeys]; exact h0.grow (grow_doSortedKeys hc)
  · rename_i d' q
    obtain ⟨_, hc2, _⟩ := doGet_spec h1 hc q
    have hm : HasCache (kindMid fs st d' q).1 d' := h0.grow (grow_doGet hc q)
    rw [step_kind]
    split
    · exact hm
    · exact hm.grow (grow_doStat fs hc2 _)

theorem watchD_new {fs : FS} {st : St} {op : Op} {d : Path} (hD : dirOf op = some d)
    (hold : HasCache st d → WatchD fs st d) : WatchD fs (step fs st op).1 d := by
  rw [WatchD, step_watch_D hD]
  cases hcc : aget st.cache d with
  | some c =>
    rw [doReadDir_hit hcc]
    exact hold (by unfold HasCache; rw [hcc]; rfl)
  | none =>
    rw [doReadDir_watch_miss hcc]
    have := okD_tReadDir (fs := fs) (p := d) (old := aget st.watch d)
    split
    · rename_i data hdata; rw [hdata] at this; exact ⟨data, by simp, this⟩
    · rename_i hnone; rw [hnone] at this
      obtain ⟨d0, hd0, hok⟩ := this
      exact ⟨d0, hd0, hok⟩

theorem doGet_hasWP {st : St} {d : Path} {c : DirCache} (q : String) (he : c.err = none) :
    HasWP (doGet st d c q).1 d (lower q) := by
  unfold doGet
  simp only [he, Option.isSome_none, Bool.false_eq_true, if_false]
  exact ⟨_, aget_aset_self _ _ _, by simp⟩

theorem doSortedKeys_hasAll {st : St} {d : Path} {c : DirCache} (he : c.err = none) :
    HasAll (doSortedKeys st d c).1 d := by
  unfold doSortedKeys
  simp only [he, Option.isSome_none, Bool.false_eq_true, if_false]
  exact ⟨_, aget_aset_self _ _ _, by simp⟩

theorem kindMid_ans {fs : FS} {st : St} (h : Inv fs st) (d : Path) (q : String) :
    (kindMid fs st d q).2.2 = lookupLast (fs.names d) (lower q) := by
  obtain ⟨h1, hc⟩ := doReadDir_spec h d
  obtain ⟨_, _, he⟩ := doGet_spec h1 hc q
  have ok := h1.cache d _ hc
  unfold kindMid
  rw [he, ok.err, ok.names]
  split
  · rename_i herr; rw [names_nil_of_dirErr herr]; rfl
  · rfl

theorem fcHit_some {entry : Option FCEntry} {k : KeyRes} {c : String} (h : fcHit entry k = some c) :
    ∃ e key, entry = some e ∧ k = .ok key ∧ e.usable = true ∧ e.modKey = some key ∧ e.contents = c := by
  unfold fcHit at h
  split at h
  · rename_i e key
    split at h
    · rename_i hcond
      simp only [Bool.and_eq_true, beq_iff_eq] at hcond
      cases h
      exact ⟨e, key, rfl, rfl, hcond.1, hcond.2, rfl⟩
    · cases h
  · cases h

theorem node_of_readFile_modKey {fs : FS} {p : Path} {c : String} {k : Nat}
    (hr : fs.readFile p = .ok c) (hk : fs.modKey p = .ok k) : fs.node p = .file c (some k) := by
  unfold FS.readFile at hr; unfold FS.modKey at hk
  cases hn : fs.node p with
  | missing => simp [hn] at hr
  | dir a b => simp [hn] at hr
  | file c' k' =>
    simp only [hn, Except.ok.injEq] at hr
    cases k' with
    | none => simp [hn] at hk
    | some k'' => simp only [hn, KeyRes.ok.injEq] at hk; rw [hr, hk]

/-- the step establishes the coverage of its own operation -/
theorem covers_new {fs : FS} {st : St} {done : List Op} (h : Inv fs st) (hh : Hist st done)
    (hcov : ∀ a ∈ done, Covers fs st a) (op : Op) (hno : ∀ a ∈ done, conflict fs a op = false) :
    Covers fs (step fs st op).1 op := by
  have hold : ∀ d, HasCache st d → WatchD fs st d := by
    intro d hd
    obtain ⟨a, ha, hda⟩ := hh d hd
    exact (covers_watchD hda (hcov a ha)).2
  cases op with
  | readDir d => exact ⟨step_hasCache h rfl, watchD_new rfl (hold d)⟩
  | get d q =>
    refine ⟨step_hasCache h rfl, watchD_new rfl (hold d), ?_⟩
    intro hd
    obtain ⟨h1, hc⟩ := doReadDir_spec h d
    rw [step_get]
    apply doGet_hasWP
    rw [(h1.cache d _ hc).err]; exact (dirErr_none_iff fs d).mpr hd
  | sortedKeys d =>
    refine ⟨step_hasCache h rfl, watchD_new rfl (hold d), ?_⟩
    intro hd
    obtain ⟨h1, hc⟩ := doReadDir_spec h d
    rw [step_sortedKeys]
    apply doSortedKeys_hasAll
    rw [(h1.cache d _ hc).err]; exact (dirErr_none_iff fs d).mpr hd
  | kind d q =>
    obtain ⟨h1, hc⟩ := doReadDir_spec h d
    obtain ⟨h2, hc2, _⟩ := doGet_spec h1 hc q
    refine ⟨step_hasCache h rfl, watchD_new rfl (hold d), ?_, ?_⟩
    · intro hd
      have hm : HasWP (kindMid fs st d q).1 d (lower q) := by
        apply doGet_hasWP
        rw [(h1.cache d _ hc).err]; exact (dirErr_none_iff fs d).mpr hd
      rw [step_kind]
      split
      · exact hm
      · exact hm.grow (grow_doStat fs hc2 _)
    · intro b hb
      rw [← kindMid_ans h d q] at hb
      rw [step_kind]
      simp only [hb]
      unfold doStat
      cases hs : aget (kindMid fs st d q).2.1.statd b with
      | some r => exact h2.statk d _ b r hc2 hs
      | none => simp [HasKind]
  | readFile p =>
    refine ⟨_, ?_, okF_tReadFile_new (fs := fs) (p := p) (fun d hd => h.watch p d hd)⟩
    rw [step_readFile, doReadFile_watch]; simp
  | modKey p => trivial
  | cachedRead p =>
    show WatchF fs (step fs st (.cachedRead p)).1 p
    unfold WatchF
    rw [step_cachedRead]
    simp only
    rw [doCachedRead_watch]
    simp only [if_true]
    cases hh' : fcHit (aget st.fcache p) (fs.modKey p) with
    | none =>
      refine ⟨_, rfl, okF_tReadFile_new ?_⟩
      intro d hd
      cases hd
      exact sound_tModKey (fun d hd => h.watch p d hd)
    | some c =>
      obtain ⟨e, key, he, hk, hus, hmk, hct⟩ := fcHit_some hh'
      have hr := h.fcache p e he hus key hmk hk
      have hn := node_of_readFile_modKey hr hk
      refine ⟨_, rfl, ?_⟩
      rw [hk]
      exact okF_tModKey_hit hn (fun d hd => h.watch p d hd)

/-- all operations of a run without conflicts are covered by the final record -/
theorem run_covers {fs : FS} : ∀ (ops : List Op) (st : St) (done : List Op), Inv fs st → Hist st done →
    (∀ a ∈ done, Covers fs st a) → (done ++ ops).Pairwise (fun a b => conflict fs a b = false) →
    ∀ a ∈ done ++ ops, Covers fs (recordAll fs st ops) a := by
  intro ops
  induction ops with
  | nil => intro st done _ _ hcov _ a ha; simp at ha; exact hcov a ha
  | cons op ops ih =>
    intro st done h hh hcov hp a ha
    have hp' := List.pairwise_append.mp hp
    have hno : ∀ a ∈ done, conflict fs a op = false := fun a ha => hp'.2.2 a ha op List.mem_cons_self
    have := ih (step fs st op).1 (done ++ [op]) (step_spec h op).1 (hist_step hh op)
      (by
        intro a ha
        rcases List.mem_append.mp ha with ha | ha
        · exact covers_step h (hcov a ha) op (hno a ha)
        · simp only [List.mem_singleton] at ha; subst ha; exact covers_new h hh hcov _ hno)
      (by simpa using hp)
    simp only [recordAll, List.foldl_cons]
    exact this a (by simpa using ha)

end EsbuildModel.Watch
