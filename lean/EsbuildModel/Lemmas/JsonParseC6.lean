import EsbuildModel.Lemmas.JsonParseC5
/-
Completeness of the parser: every derivation of the flavour's dialect is parsed to the expression that represents
it, without an error message (by recursion on the derivation).
-/
namespace EsbuildModel.Json
open EsbuildModel.Spec.Json EsbuildModel.Spec.NumLit

/-- what completeness says for `elements`, from the first token of an element on -/
def ElemsDone (Rd : Rat → F64) (o : Opts) (P : Params) (n : Nat) (es : Elems) (L0 : Lx) (sk : Sk) (rest : List Cp)
    (items : List Ast) (single : Bool) : Prop :=
  ∃ L asts s' L1, lexAt o.flavor P L0 sk (cps (elemsTail es) ++ cpOf ']' :: rest) = .ok L ∧ L.tok ≠ .closeBracket ∧
    L.nl = sk.nl ∧
    (parseExpr o P n L).bind (fun p => arrLoop o P n p.2 (items ++ [p.1]) single) =
      (next o.flavor P L1).bind (fun L' => .ok (.arr (items ++ asts) s', L')) ∧
    L1.rest = rest ∧ L1.log.Clean ∧ 0 < L1.end_ ∧ RepE Rd o.objExt es asts

/-- what completeness says for `members`, from the key token on -/
def MembersDone (Rd : Rat → F64) (o : Opts) (P : Params) (n : Nat) (ms : Members) (L0 : Lx) (sk : Sk) (rest : List Cp)
    (props : List (List Nat × Bool × Ast)) (seen : List (List Nat)) (single : Bool) : Prop :=
  ∃ L asts s' L1, lexAt o.flavor P L0 sk (cps (membersTail ms) ++ cpOf '}' :: rest) = .ok L ∧ L.tok ≠ .closeBrace ∧
    L.nl = sk.nl ∧
    (keyStep o P L seen).bind (fun ks => (parseExpr o P n ks.2.2).bind fun p =>
        objLoop o P n p.2 (props ++ [(ks.1, decide (ks.1 = protoKey) && o.objExt, p.1)]) ks.2.1 single) =
      (next o.flavor P L1).bind (fun L' => .ok (.obj (props ++ asts) s', L')) ∧
    L1.rest = rest ∧ L1.log.Clean ∧ 0 < L1.end_ ∧ RepM Rd o.objExt ms asts

section
variable {P : Params} {Rd : Rat → F64} (hP : ParamsOK P Rd) (o : Opts)

theorem trailing_fl {tr : Option (List SepItem)} (h : trailingOk (dialectOf o.flavor) tr = true) :
    ∀ s, tr = some s → o.flavor = .tsconfig ∧ Sep.ok (dialectOf o.flavor) false false s = true := by
  intro s hs
  subst hs
  simp only [trailingOk, Bool.and_eq_true] at h
  refine ⟨?_, h.2⟩
  cases hf : o.flavor
  · rw [hf] at h; cases h.1
  · rfl

/-- after the last value of an array: `s2`, an optional trailing comma, the closing bracket -/
theorem arr_tail_done (n : Nat) (L1v : Lx) (s2 : List SepItem) (tr : Option (List SepItem)) (rest : List Cp)
    (items : List Ast) (single : Bool)
    (hrest : L1v.rest = cps (Sep.render s2) ++ (cps (trailingRender tr) ++ cpOf ']' :: rest))
    (hcl : L1v.log.Clean) (hend : 0 < L1v.end_) (hs2 : Sep.ok (dialectOf o.flavor) false false s2 = true)
    (htr : trailingOk (dialectOf o.flavor) tr = true) (hne : items ≠ []) :
    ∃ s' L1, (next o.flavor P L1v).bind (fun L' => arrLoop o P (n + 2) L' items single) =
        (next o.flavor P L1).bind (fun L' => .ok (.arr items s', L')) ∧
      L1.rest = rest ∧ L1.log.Clean ∧ 0 < L1.end_ := by
  cases tr with
  | none =>
    obtain ⟨Lc, h1, h2, h3, h4, h5⟩ := punct_next o.flavor P L1v s2 ']' .closeBracket rest
      (by simpa [trailingRender] using hrest) hcl hend hs2 (by simp)
    refine ⟨if Lc.nl then false else single, Lc, ?_, h3, h4, h5⟩
    rw [h1, R.bind_ok, arr_close o P _ Lc items single h2]
  | some s =>
    obtain ⟨hts, hs⟩ := trailing_fl o htr s rfl
    obtain ⟨Lm, h1, h2, h3, h4, h5⟩ := punct_next o.flavor P L1v s2 ',' .comma (cps (Sep.render s) ++ cpOf ']' :: rest)
      (by simpa [trailingRender] using hrest) hcl hend hs2 (by simp)
    obtain ⟨Lc, g1, g2, g3, g4, g5⟩ := punct_next o.flavor P Lm s ']' .closeBracket rest h3 h4 h5 hs (by simp)
    refine ⟨if Lc.nl then false else (if Lm.nl then false else single), Lc, ?_, g3, g4, g5⟩
    rw [h1, R.bind_ok, arrLoop_succ, if_neg (by rw [h2]; simp)]
    have hie : items.isEmpty = false := by cases items <;> simp_all
    have hnj : ¬ (o.flavor = .json) := by rw [hts]; simp
    simp only [sepStep, hie, Bool.not_false, Bool.not_true, Bool.false_eq_true, if_false, maybeTrailingComma, expect, h2,
      ne_eq, not_true_eq_false, g1, R.bind_ok, g2, if_true, hnj, closeStep, R.bind_assoc]

/-- after the last value of an object: `s2`, an optional trailing comma, the closing brace -/
theorem obj_tail_done (n : Nat) (L1v : Lx) (s2 : List SepItem) (tr : Option (List SepItem)) (rest : List Cp)
    (items : List (List Nat × Bool × Ast)) (seen : List (List Nat)) (single : Bool)
    (hrest : L1v.rest = cps (Sep.render s2) ++ (cps (trailingRender tr) ++ cpOf '}' :: rest))
    (hcl : L1v.log.Clean) (hend : 0 < L1v.end_) (hs2 : Sep.ok (dialectOf o.flavor) false false s2 = true)
    (htr : trailingOk (dialectOf o.flavor) tr = true) (hne : items ≠ []) :
    ∃ s' L1, (next o.flavor P L1v).bind (fun L' => objLoop o P (n + 2) L' items seen single) =
        (next o.flavor P L1).bind (fun L' => .ok ((Ast.obj items) s', L')) ∧
      L1.rest = rest ∧ L1.log.Clean ∧ 0 < L1.end_ := by
  cases tr with
  | none =>
    obtain ⟨Lc, h1, h2, h3, h4, h5⟩ := punct_next o.flavor P L1v s2 '}' .closeBrace rest
      (by simpa [trailingRender] using hrest) hcl hend hs2 (by simp)
    refine ⟨if Lc.nl then false else single, Lc, ?_, h3, h4, h5⟩
    rw [h1, R.bind_ok, obj_close o P _ Lc items seen single h2]
  | some s =>
    obtain ⟨hts, hs⟩ := trailing_fl o htr s rfl
    obtain ⟨Lm, h1, h2, h3, h4, h5⟩ := punct_next o.flavor P L1v s2 ',' .comma (cps (Sep.render s) ++ cpOf '}' :: rest)
      (by simpa [trailingRender] using hrest) hcl hend hs2 (by simp)
    obtain ⟨Lc, g1, g2, g3, g4, g5⟩ := punct_next o.flavor P Lm s '}' .closeBrace rest h3 h4 h5 hs (by simp)
    refine ⟨if Lc.nl then false else (if Lm.nl then false else single), Lc, ?_, g3, g4, g5⟩
    rw [h1, R.bind_ok, objLoop_succ, if_neg (by rw [h2]; simp)]
    have hie : items.isEmpty = false := by cases items <;> simp_all
    have hnj : ¬ (o.flavor = .json) := by rw [hts]; simp
    simp only [sepStep, hie, Bool.not_false, Bool.not_true, Bool.false_eq_true, if_false, maybeTrailingComma, expect, h2,
      ne_eq, not_true_eq_false, g1, R.bind_ok, g2, if_true, hnj, closeStep, R.bind_assoc]

end
end EsbuildModel.Json
