import EsbuildModel.Impl.CjsWrap
import EsbuildModel.Spec.Wrap
/-! Shared machinery for the proofs about `Impl/CjsWrap.lean`: the read-only part of a file, the module graph
(`Spec.Wrap.Graph`) a table denotes, well-formedness, pointwise relations between tables, and the loop `forM`. -/
namespace EsbuildModel.CjsWrap
open EsbuildModel.Spec.Wrap

/-- the fields the linker only reads -/
structure Static where
  isRuntime : Bool
  entry : Bool
  lazyExport : Bool
  exportKw : Bool
  recs : List Rec
  stars : List Nat
deriving DecidableEq

def File.static (f : File) : Static := ⟨f.isRuntime, f.entry, f.lazyExport, f.exportKw, f.recs, f.stars⟩

def Kind.toSpec : Kind → ExportsKind
  | .none => .none | .cjs => .commonJS | .esm => .esm | .dyn => .esmDynamic

/-- `require()`, or `import()` without code splitting -/
def lazyRec (o : Opts) (r : Rec) : Bool := r.kind == .require || (r.kind == .dynamic && !o.splitting)
/-- an import statement with `* as ns` or a default alias -/
def nsRec (r : Rec) : Bool := r.kind == .stmt && (r.star || r.dflt)

/-- the graph a table denotes (only the read-only fields and the parser's ExportsKind are used) -/
def graphOf (o : Opts) (fs : Files) : Graph where
  imports j i := ∃ f r, fs[j]? = some f ∧ r ∈ f.recs ∧ r.target = some i
  lazyImports j i := ∃ f r, fs[j]? = some f ∧ r ∈ f.recs ∧ r.target = some i ∧ lazyRec o r = true
  nsImports j i := ∃ f r, fs[j]? = some f ∧ r ∈ f.recs ∧ r.target = some i ∧ nsRec r = true
  star i j := ∃ f s r, fs[i]? = some f ∧ s ∈ f.stars ∧ f.recs[s]? = some r ∧ r.target = some j ∧ j ≠ i
  starExternal i := ∃ f s r, fs[i]? = some f ∧ s ∈ f.stars ∧ f.recs[s]? = some r ∧ r.target = none ∧
    (f.entry = false ∨ o.keepESM = false)
  kind0 i := match fs[i]? with | some f => f.kind.toSpec | none => .none
  lazyExport i := ∃ f, fs[i]? = some f ∧ f.lazyExport = true
  implicitWrapper i := ∃ f, fs[i]? = some f ∧ f.entry = true ∧ (o.format = .preserve ∨ o.format = .cjs)
  runtime i := ∃ f, fs[i]? = some f ∧ f.isRuntime = true

/-- no index of the table points outside it (otherwise the Go code panics) -/
def WF (fs : Files) : Prop :=
  ∀ (i : Nat) (f : File), fs[i]? = some f →
    (∀ r ∈ f.recs, ∀ t, r.target = some t → t < fs.length) ∧ (∀ s ∈ f.stars, s < f.recs.length)

/-- what `CloneLinkerGraph` hands to the linker: no wrapping decision yet -/
def Fresh (fs : Files) : Prop :=
  ∀ (i : Nat) (f : File), fs[i]? = some f → f.wrap = Wrap.none ∧ f.didWrap = false

/-- `ReachableFiles` lists every file of the table (and nothing else) -/
def Covers (order : List Nat) (fs : Files) : Prop :=
  (∀ i ∈ order, i < fs.length) ∧ (∀ i, i < fs.length → i ∈ order)

theorem lt_of_get {fs : Files} {i : Nat} {f : File} (h : fs[i]? = some f) : i < fs.length := by
  rcases Nat.lt_or_ge i fs.length with h' | h'
  · exact h'
  · rw [List.getElem?_eq_none h'] at h; cases h

theorem get_of_lt {fs : Files} {i : Nat} (h : i < fs.length) : ∃ f : File, fs[i]? = some f :=
  ⟨fs[i], List.getElem?_eq_getElem h⟩

theorem get_set_self {fs : Files} {t : Nat} (h : t < fs.length) (f' : File) :
    (fs.set t f')[t]? = some f' := by
  simp [h]

theorem get_set_ne {fs : Files} {t i : Nat} (f' : File) (h : t ≠ i) : (fs.set t f')[i]? = fs[i]? := by
  simp [h]

/-- a pointwise (index-aware) relation between two tables of the same length -/
def PW (R : Nat → File → File → Prop) (fs fs' : Files) : Prop :=
  fs.length = fs'.length ∧ ∀ i f f', fs[i]? = some f → fs'[i]? = some f' → R i f f'

theorem PW.rfl' {R : Nat → File → File → Prop} (hR : ∀ i f, R i f f) (fs : Files) : PW R fs fs :=
  ⟨rfl, fun i f f' h h' => by rw [h] at h'; cases h'; exact hR i f⟩

theorem PW.trans {R : Nat → File → File → Prop} (hR : ∀ i a b c, R i a b → R i b c → R i a c)
    {a b c : Files} (h1 : PW R a b) (h2 : PW R b c) : PW R a c := by
  refine ⟨h1.1.trans h2.1, ?_⟩
  intro i f f'' hf hf''
  obtain ⟨f', hf'⟩ := get_of_lt (fs := b) (i := i) (h1.1 ▸ lt_of_get hf)
  exact hR i f f' f'' (h1.2 i f f' hf hf') (h2.2 i f' f'' hf' hf'')

theorem PW.set {R : Nat → File → File → Prop} (hR : ∀ i f, R i f f) {fs : Files} {t : Nat} {f f' : File}
    (h : fs[t]? = some f) (hr : R t f f') : PW R fs (fs.set t f') := by
  refine ⟨by simp, ?_⟩
  intro i x x' hx hx'
  by_cases hti : t = i
  · subst hti
    rw [get_set_self (lt_of_get h) f'] at hx'
    rw [h] at hx
    injection hx with hx; injection hx' with hx'
    subst hx; subst hx'; exact hr
  · rw [get_set_ne _ hti, hx] at hx'
    cases hx'; exact hR i x

/-- updating the right-hand table -/
theorem PW.set_right {R : Nat → File → File → Prop} {fs0 fs : Files} (h : PW R fs0 fs) {t : Nat} {f' : File}
    (hr : ∀ f0, fs0[t]? = some f0 → R t f0 f') : PW R fs0 (fs.set t f') := by
  refine ⟨by simpa using h.1, ?_⟩
  intro i x x' hx hx'
  by_cases hti : t = i
  · subst hti
    rw [get_set_self (h.1 ▸ lt_of_get hx) f'] at hx'
    injection hx' with hx'
    subst hx'; exact hr x hx
  · rw [get_set_ne _ hti] at hx'
    exact h.2 i x x' hx hx'

theorem PW.get {R : Nat → File → File → Prop} {fs fs' : Files} (h : PW R fs fs') {i : Nat} {f : File}
    (hf : fs[i]? = some f) : ∃ f', fs'[i]? = some f' ∧ R i f f' := by
  obtain ⟨f', hf'⟩ := get_of_lt (fs := fs') (i := i) (h.1 ▸ lt_of_get hf)
  exact ⟨f', hf', h.2 i f f' hf hf'⟩

theorem PW.get' {R : Nat → File → File → Prop} {fs fs' : Files} (h : PW R fs fs') {i : Nat} {f' : File}
    (hf' : fs'[i]? = some f') : ∃ f, fs[i]? = some f ∧ R i f f' := by
  obtain ⟨f, hf⟩ := get_of_lt (fs := fs) (i := i) (h.1 ▸ lt_of_get hf')
  exact ⟨f, hf, h.2 i f f' hf hf'⟩

theorem PW.mono {R R' : Nat → File → File → Prop} (hRR : ∀ i a b, R i a b → R' i a b) {fs fs' : Files}
    (h : PW R fs fs') : PW R' fs fs' :=
  ⟨h.1, fun i f f' hf hf' => hRR i f f' (h.2 i f f' hf hf')⟩

/-! ### the loop -/

/-- an invariant `P` and a transitive step relation `Q` go through `forM` -/
theorem forM_inv {α : Type} {f : Files → α → Option Files} {P : Files → Prop} {Q : Files → Files → Prop}
    (hQr : ∀ a, Q a a) (hQt : ∀ a b c, Q a b → Q b c → Q a c) :
    ∀ (xs : List α), (∀ fs x fs', x ∈ xs → P fs → f fs x = some fs' → P fs' ∧ Q fs fs') →
    ∀ fs fs', P fs → forM f xs fs = some fs' → P fs' ∧ Q fs fs' := by
  intro xs
  induction xs with
  | nil => intro _ fs fs' hP h; simp [forM] at h; subst h; exact ⟨hP, hQr _⟩
  | cons x xs ih =>
    intro hstep fs fs' hP h
    simp only [forM] at h
    split at h
    · cases h
    · rename_i fs1 h1
      obtain ⟨hP1, hQ1⟩ := hstep fs x fs1 (by simp) hP h1
      obtain ⟨hP', hQ'⟩ := ih (fun a y b hy => hstep a y b (by simp [hy])) fs1 fs' hP1 h
      exact ⟨hP', hQt _ _ _ hQ1 hQ'⟩

/-- the loop does not panic when no step does -/
theorem forM_some {α : Type} {f : Files → α → Option Files} {P : Files → Prop} :
    ∀ (xs : List α), (∀ fs x, x ∈ xs → P fs → ∃ fs', f fs x = some fs' ∧ P fs') →
    ∀ fs, P fs → ∃ fs', forM f xs fs = some fs' := by
  intro xs
  induction xs with
  | nil => intro _ fs _; exact ⟨fs, rfl⟩
  | cons x xs ih =>
    intro hstep fs hP
    obtain ⟨fs1, h1, hP1⟩ := hstep fs x (by simp) hP
    obtain ⟨fs', h'⟩ := ih (fun a y hy => hstep a y (by simp [hy])) fs1 hP1
    exact ⟨fs', by simp [forM, h1, h']⟩

/-- what the step for `x` establishes (`D x`) still holds at the end when `Q` preserves it -/
theorem forM_done {α : Type} {f : Files → α → Option Files} {P : Files → Prop} {Q : Files → Files → Prop}
    {D : α → Files → Prop} (hQr : ∀ a, Q a a) (hQt : ∀ a b c, Q a b → Q b c → Q a c)
    (hD : ∀ x a b, Q a b → D x a → D x b) :
    ∀ (xs : List α), (∀ fs x fs', x ∈ xs → P fs → f fs x = some fs' → P fs' ∧ Q fs fs' ∧ D x fs') →
    ∀ fs fs', P fs → forM f xs fs = some fs' → ∀ x ∈ xs, D x fs' := by
  intro xs
  induction xs with
  | nil => intro _ _ _ _ _ x hx; cases hx
  | cons x xs ih =>
    intro hstep fs fs' hP h y hy
    simp only [forM] at h
    split at h
    · cases h
    · rename_i fs1 h1
      obtain ⟨hP1, _, hD1⟩ := hstep fs x fs1 (by simp) hP h1
      have hrest := fun a y b hy (hPa : P a) hf => hstep a y b (List.mem_cons_of_mem x hy) hPa hf
      rcases List.mem_cons.1 hy with rfl | hy
      · have := forM_inv (P := P) (Q := Q) hQr hQt xs
          (fun a y b hy hPa hf => ⟨(hrest a y b hy hPa hf).1, (hrest a y b hy hPa hf).2.1⟩) fs1 fs' hP1 h
        exact hD _ _ _ this.2 hD1
      · exact ih hrest fs1 fs' hP1 h y hy

/-- the three facts at once, from steps given in existential form -/
theorem forM_all {α : Type} {f : Files → α → Option Files} {P : Files → Prop} {Q : Files → Files → Prop}
    {D : α → Files → Prop} (hQr : ∀ a, Q a a) (hQt : ∀ a b c, Q a b → Q b c → Q a c)
    (hD : ∀ x a b, Q a b → D x a → D x b) (xs : List α)
    (hstep : ∀ fs x, x ∈ xs → P fs → ∃ fs', f fs x = some fs' ∧ P fs' ∧ Q fs fs' ∧ D x fs') :
    ∀ fs, P fs → ∃ fs', forM f xs fs = some fs' ∧ P fs' ∧ Q fs fs' ∧ ∀ x ∈ xs, D x fs' := by
  intro fs hP
  have himp : ∀ a x c, x ∈ xs → P a → f a x = some c → P c ∧ Q a c ∧ D x c := by
    intro a x c hx hPa hac
    obtain ⟨c', e, h⟩ := hstep a x hx hPa
    rw [hac] at e; injection e with e; subst e
    exact h
  obtain ⟨fs', e⟩ := forM_some (f := f) (P := P) xs (fun a x hx hPa => by
    obtain ⟨c, e, h, _⟩ := hstep a x hx hPa
    exact ⟨c, e, h⟩) fs hP
  have h1 := forM_inv (P := P) (Q := Q) hQr hQt xs
    (fun a x c hx hPa hac => ⟨(himp a x c hx hPa hac).1, (himp a x c hx hPa hac).2.1⟩) fs fs' hP e
  exact ⟨fs', e, h1.1, h1.2, forM_done (P := P) (Q := Q) (D := D) hQr hQt hD xs himp fs fs' hP e⟩

end EsbuildModel.CjsWrap
