import EsbuildModel.Util.F64Arith
/-
Rounding a natural number to float64 (`roundNat n = round false n 0`): exact below 2^53, at least 2^53 above.
-/
namespace EsbuildModel
namespace F64

/-- round-to-nearest-even of a natural number into float64 -/
def roundNat (n : Nat) : F64 := round false n 0

private theorem p52 : (2:Nat) ^ 52 = 4503599627370496 := by decide
private theorem p53 : (2:Nat) ^ 53 = 9007199254740992 := by decide
private theorem p63 : (2:Nat) ^ 63 = 9223372036854775808 := by decide

-- ---------------------------------------------------------------- decoding

theorem ofBits_normal (ex f : Nat) (h1 : 1 ≤ ex) (h2 : ex < 2047) (hf : f < 2 ^ 52) :
    ofBits (ex * 2 ^ 52 + f) = .fin false (f + 2 ^ 52) ((ex : Int) - 1075) := by
  rw [p52] at hf
  have hd : (ex * 4503599627370496 + f) / 4503599627370496 = ex := by omega
  have hm : (ex * 4503599627370496 + f) % 4503599627370496 = f := by omega
  have hs : (ex * 4503599627370496 + f) / 9223372036854775808 = 0 := by omega
  have hx : ex % 2048 = ex := by omega
  unfold ofBits
  simp only [p52, p63, hd, hm, hs, hx]
  have : ¬ ex = 2047 := by omega
  have : ¬ ex = 0 := by omega
  simp [*]

theorem ofBits_inf : ofBits (2047 * 2 ^ 52) = .inf false := by
  decide

theorem ofBits_subnormal (q : Nat) (h : q < 2 ^ 52) : ofBits q = .fin false q (-1074) := by
  rw [p52] at h
  have hd : q / 4503599627370496 = 0 := by omega
  have hm : q % 4503599627370496 = q := by omega
  have hs : q / 9223372036854775808 = 0 := by omega
  unfold ofBits
  simp [p52, p63, hd, hm, hs]

-- ---------------------------------------------------------------- bounds on the bit length

theorem log2_bounds (n : Nat) (hn : n ≠ 0) : 2 ^ Nat.log2 n ≤ n ∧ n < 2 ^ (Nat.log2 n + 1) :=
  ⟨Nat.log2_self_le hn, Nat.lt_log2_self⟩

theorem len_le_of_lt (n k : Nat) (hn : n ≠ 0) (h : n < 2 ^ k) : Nat.log2 n + 1 ≤ k := by
  have := (Nat.log2_lt hn).2 h
  omega

theorem len_gt_of_ge (n k : Nat) (hn : n ≠ 0) (h : 2 ^ k ≤ n) : k < Nat.log2 n + 1 := by
  have h1 : ¬ Nat.log2 n < k := fun hc => by
    have := (Nat.log2_lt hn).1 hc
    omega
  omega

/-- scaling up to 53 bits -/
theorem scale_up_bounds (n L : Nat) (hL : L + 1 ≤ 53) (h1 : 2 ^ L ≤ n) (h2 : n < 2 ^ (L + 1)) :
    2 ^ 52 ≤ n * 2 ^ (53 - (L + 1)) ∧ n * 2 ^ (53 - (L + 1)) < 2 ^ 53 := by
  have hp : 0 < 2 ^ (53 - (L + 1)) := Nat.two_pow_pos _
  have e1 : 2 ^ L * 2 ^ (53 - (L + 1)) = 2 ^ 52 := by
    rw [← Nat.pow_add]; congr 1; omega
  have e2 : 2 ^ (L + 1) * 2 ^ (53 - (L + 1)) = 2 ^ 53 := by
    rw [← Nat.pow_add]; congr 1; omega
  constructor
  · rw [← e1]; exact Nat.mul_le_mul_right _ h1
  · rw [← e2]; exact Nat.mul_lt_mul_of_pos_right h2 hp

-- ---------------------------------------------------------------- `roundBits` in two stages

/-- the rounded significand (before renormalisation) -/
def rbQ (m : Nat) (e e' : Int) : Nat :=
  if e' ≤ e then m * 2 ^ (e - e').toNat
  else
    let sh := (e' - e).toNat
    let q := m / 2 ^ sh
    let r := m % 2 ^ sh
    let half := 2 ^ (sh - 1)
    if r < half then q else if r = half then (if q % 2 = 0 then q else q + 1) else q + 1

/-- renormalisation and packing (positive sign) -/
def rbPack (q : Nat) (e' : Int) : Nat :=
  let (q, e') : Nat × Int := if q = 2 ^ 53 then (2 ^ 52, e' + 1) else (q, e')
  if q < 2 ^ 52 then 0 + q
  else
    let ex : Int := e' + 1075
    if ex ≥ 2047 then 0 + 2047 * 2 ^ 52 else 0 + ex.toNat * 2 ^ 52 + (q - 2 ^ 52)

theorem roundBits_eq (n : Nat) (hn : n ≠ 0) :
    roundBits false n 0
      = rbPack (rbQ n 0 (max (0 + ((Nat.log2 n + 1 : Nat) : Int) - 53) (-1074)))
          (max (0 + ((Nat.log2 n + 1 : Nat) : Int) - 53) (-1074)) := by
  unfold roundBits
  simp only [hn, if_false]
  rfl

theorem rbPack_normal (q : Nat) (e' : Int) (h1 : 2 ^ 52 ≤ q) (h2 : q < 2 ^ 53) (h3 : e' + 1075 < 2047) :
    rbPack q e' = (e' + 1075).toNat * 2 ^ 52 + (q - 2 ^ 52) := by
  unfold rbPack
  have a : ¬ q = 2 ^ 53 := by omega
  have b : ¬ q < 2 ^ 52 := by omega
  have c : ¬ e' + 1075 ≥ 2047 := by omega
  simp only [a, b, c, if_false, Nat.zero_add]

theorem roundBits_small (n : Nat) (hn : n ≠ 0) (h : n < 2 ^ 53) :
    roundBits false n 0
      = (Nat.log2 n + 1 + 1022) * 2 ^ 52 + (n * 2 ^ (53 - (Nat.log2 n + 1)) - 2 ^ 52) := by
  have hL := len_le_of_lt n 53 hn h
  obtain ⟨b1, b2⟩ := log2_bounds n hn
  obtain ⟨q1, q2⟩ := scale_up_bounds n (Nat.log2 n) hL b1 b2
  rw [roundBits_eq n hn]
  have he : max ((0:Int) + ((Nat.log2 n + 1 : Nat) : Int) - 53) (-1074)
      = ((Nat.log2 n + 1 : Nat) : Int) - 53 := by omega
  rw [he]
  have hq : rbQ n 0 (((Nat.log2 n + 1 : Nat) : Int) - 53) = n * 2 ^ (53 - (Nat.log2 n + 1)) := by
    unfold rbQ
    rw [if_pos (by omega)]
    congr 2
    omega
  rw [hq, rbPack_normal _ _ q1 q2 (by omega)]
  congr 2
  omega

-- ---------------------------------------------------------------- below 2^53: exact

theorem roundNat_zero : roundNat 0 = .fin false 0 (-1074) := by
  have h : roundBits false 0 0 = 0 := by simp [roundBits]
  unfold roundNat round
  rw [h]
  exact ofBits_subnormal 0 (Nat.two_pow_pos _)

theorem truncAbs_zero (e : Int) : truncAbs 0 e = 0 := by
  unfold truncAbs
  split
  · exact Nat.zero_mul _
  · exact Nat.zero_div _

theorem truncAbs_scaled (n k : Nat) (e : Int) (hk : k ≤ 53) (he : e = -(k : Int)) :
    truncAbs (n * 2 ^ k) e = n := by
  subst he
  unfold truncAbs
  by_cases h0 : k = 0
  · subst h0; simp
  · rw [if_neg (by omega)]
    have : (- -(k : Int)).toNat = k := by omega
    rw [this]
    exact Nat.mul_div_cancel _ (Nat.two_pow_pos _)

theorem roundNat_small_spec (n : Nat) (h : n < 2 ^ 53) :
    ∃ m e, roundNat n = .fin false m e ∧ e ≤ 0 ∧ m < 2 ^ 53 ∧ truncAbs m e = n := by
  by_cases hn : n = 0
  · subst hn
    exact ⟨0, -1074, roundNat_zero, by omega, Nat.two_pow_pos _, truncAbs_zero _⟩
  · have hL := len_le_of_lt n 53 hn h
    obtain ⟨b1, b2⟩ := log2_bounds n hn
    obtain ⟨q1, q2⟩ := scale_up_bounds n (Nat.log2 n) hL b1 b2
    generalize hk : 53 - (Nat.log2 n + 1) = k at q1 q2
    have hk53 : k ≤ 53 := by omega
    have ht : truncAbs (n * 2 ^ k) (-(k : Int)) = n := truncAbs_scaled n k _ hk53 rfl
    have hle : -(k : Int) ≤ 0 := by omega
    refine ⟨n * 2 ^ k, -(k : Int), ?_, hle, q2, ht⟩
    unfold roundNat round
    rw [roundBits_small n hn h, hk, ofBits_normal _ _ (by omega) (by omega) (by omega)]
    have a : n * 2 ^ k - 2 ^ 52 + 2 ^ 52 = n * 2 ^ k := by omega
    have b : ((Nat.log2 n + 1 + 1022 : Nat) : Int) - 1075 = -(k : Int) := by omega
    rw [a, b]

-- ---------------------------------------------------------------- comparison with a positive integer double

theorem ieeeGe_fin_nonpos (m c : Nat) (e : Int) (he : e ≤ 0) :
    ieeeGe (.fin false m e) (.fin false c 0) = decide (c * 2 ^ (-e).toNat ≤ m) := by
  have hmin1 : min 0 e = e := by omega
  have hmin2 : min e 0 = e := by omega
  have h1 : (e - e).toNat = 0 := by omega
  have h2 : (0 - e).toNat = (-e).toNat := by omega
  simp only [ieeeGe, ieeeLt, ieeeEq, finLt, finEq, scaled, hmin1, hmin2, h1, h2]
  generalize c * 2 ^ (-e).toNat = x
  simp only [Nat.pow_zero, Nat.mul_one, Bool.false_eq_true, if_false]
  by_cases hx : x ≤ m
  · simp only [hx, decide_true, Bool.or_eq_true, decide_eq_true_eq]
    omega
  · simp only [hx, decide_false, Bool.or_eq_false_iff, decide_eq_false_iff_not]
    omega

theorem ieeeGe_fin_nonneg (m c : Nat) (e : Int) (he : 0 ≤ e) :
    ieeeGe (.fin false m e) (.fin false c 0) = decide (c ≤ m * 2 ^ e.toNat) := by
  have hmin1 : min 0 e = 0 := by omega
  have hmin2 : min e 0 = 0 := by omega
  have h1 : (e - 0).toNat = e.toNat := by omega
  have h2 : ((0:Int) - 0).toNat = 0 := by omega
  simp only [ieeeGe, ieeeLt, ieeeEq, finLt, finEq, scaled, hmin1, hmin2, h1, h2]
  generalize m * 2 ^ e.toNat = x
  simp only [Nat.pow_zero, Nat.mul_one, Bool.false_eq_true, if_false]
  by_cases hx : c ≤ x
  · simp only [hx, decide_true, Bool.or_eq_true, decide_eq_true_eq]
    omega
  · simp only [hx, decide_false, Bool.or_eq_false_iff, decide_eq_false_iff_not]
    omega

-- ---------------------------------------------------------------- from 2^53 on

theorem rbQ_down (m : Nat) (e e' : Int) (h : ¬ e' ≤ e) :
    rbQ m e e' = m / 2 ^ (e' - e).toNat ∨ rbQ m e e' = m / 2 ^ (e' - e).toNat + 1 := by
  unfold rbQ
  rw [if_neg h]
  simp only []
  split
  · exact Or.inl rfl
  · split
    · split
      · exact Or.inl rfl
      · exact Or.inr rfl
    · exact Or.inr rfl

theorem rbPack_large (q : Nat) (e' : Int) (h1 : 2 ^ 52 ≤ q) (h2 : q ≤ 2 ^ 53) (h3 : 1 ≤ e') :
    rbPack q e' = 2047 * 2 ^ 52 ∨
      ∃ ex f, rbPack q e' = ex * 2 ^ 52 + f ∧ 1076 ≤ ex ∧ ex < 2047 ∧ f < 2 ^ 52 := by
  unfold rbPack
  by_cases hq : q = 2 ^ 53
  · simp only [hq, if_true]
    have b : ¬ (2:Nat) ^ 52 < 2 ^ 52 := by omega
    simp only [b, if_false, Nat.zero_add]
    by_cases hex : e' + 1 + 1075 ≥ 2047
    · simp only [hex, if_true]; exact Or.inl trivial
    · simp only [hex, if_false]
      exact Or.inr ⟨(e' + 1 + 1075).toNat, 2 ^ 52 - 2 ^ 52, rfl, by omega, by omega, by omega⟩
  · simp only [hq, if_false]
    have b : ¬ q < 2 ^ 52 := by omega
    simp only [b, if_false, Nat.zero_add]
    by_cases hex : e' + 1075 ≥ 2047
    · simp only [hex, if_true]; exact Or.inl trivial
    · simp only [hex, if_false]
      exact Or.inr ⟨(e' + 1075).toNat, q - 2 ^ 52, rfl, by omega, by omega, by omega⟩

theorem div_bounds (n L : Nat) (hL : 53 ≤ L) (h1 : 2 ^ L ≤ n) (h2 : n < 2 ^ (L + 1)) :
    2 ^ 52 ≤ n / 2 ^ (L - 52) ∧ n / 2 ^ (L - 52) < 2 ^ 53 := by
  have hp : 0 < 2 ^ (L - 52) := Nat.two_pow_pos _
  have e1 : 2 ^ 52 * 2 ^ (L - 52) = 2 ^ L := by
    rw [← Nat.pow_add]; congr 1; omega
  have e2 : 2 ^ 53 * 2 ^ (L - 52) = 2 ^ (L + 1) := by
    rw [← Nat.pow_add]; congr 1; omega
  constructor
  · rw [Nat.le_div_iff_mul_le hp, e1]; exact h1
  · rw [Nat.div_lt_iff_lt_mul hp, e2]; exact h2

theorem roundNat_large_spec (n : Nat) (h : 2 ^ 53 ≤ n) :
    roundNat n = .inf false ∨ ∃ m e, roundNat n = .fin false m e ∧ 2 ^ 52 ≤ m ∧ 1 ≤ e := by
  have hn : n ≠ 0 := by
    have := Nat.two_pow_pos 53
    omega
  have hL := len_gt_of_ge n 53 hn h
  obtain ⟨b1, b2⟩ := log2_bounds n hn
  obtain ⟨d1, d2⟩ := div_bounds n (Nat.log2 n) (by omega) b1 b2
  unfold roundNat round
  rw [roundBits_eq n hn]
  have he : max ((0:Int) + ((Nat.log2 n + 1 : Nat) : Int) - 53) (-1074)
      = ((Nat.log2 n : Nat) : Int) - 52 := by omega
  rw [he]
  have hsh : (((Nat.log2 n : Nat) : Int) - 52 - 0).toNat = Nat.log2 n - 52 := by omega
  have hq := rbQ_down n 0 (((Nat.log2 n : Nat) : Int) - 52) (by omega)
  rw [hsh] at hq
  generalize rbQ n 0 (((Nat.log2 n : Nat) : Int) - 52) = q at hq ⊢
  generalize n / 2 ^ (Nat.log2 n - 52) = q0 at hq d1 d2
  have q1 : 2 ^ 52 ≤ q := by omega
  have q2 : q ≤ 2 ^ 53 := by omega
  have e1 : (1:Int) ≤ ((Nat.log2 n : Nat) : Int) - 52 := by omega
  rcases rbPack_large q _ q1 q2 e1 with hp | ⟨ex, f, hp, x1, x2, x3⟩
  · rw [hp, ofBits_inf]
    exact Or.inl rfl
  · rw [hp, ofBits_normal ex f (by omega) x2 x3]
    exact Or.inr ⟨_, _, rfl, by omega, by omega⟩

theorem scaled_ge (m : Nat) (e : Int) (h1 : 2 ^ 52 ≤ m) (h2 : 1 ≤ e) : 2 ^ 53 ≤ m * 2 ^ e.toNat := by
  have hp : 2 ^ 1 ≤ 2 ^ e.toNat := Nat.pow_le_pow_right (by decide) (by omega)
  have h3 : 2 ^ 52 * 2 ^ 1 ≤ m * 2 ^ e.toNat := Nat.mul_le_mul h1 hp
  have h4 : (2:Nat) ^ 52 * 2 ^ 1 = 2 ^ 53 := by rw [← Nat.pow_add]
  omega

-- ---------------------------------------------------------------- the four statements

theorem roundNat_small (n : Nat) (h : n < 2 ^ 53) :
    ∃ m e, roundNat n = .fin false m e ∧ truncAbs m e = n := by
  obtain ⟨m, e, h1, _, _, h4⟩ := roundNat_small_spec n h
  exact ⟨m, e, h1, h4⟩

theorem roundNat_small_not_ge (n : Nat) (h : n < 2 ^ 53) :
    ieeeGe (roundNat n) (.fin false (2 ^ 53) 0) = false := by
  obtain ⟨m, e, h1, h2, h3, _⟩ := roundNat_small_spec n h
  rw [h1, ieeeGe_fin_nonpos m (2 ^ 53) e h2, decide_eq_false_iff_not]
  have hp : 0 < 2 ^ (-e).toNat := Nat.two_pow_pos _
  have := Nat.le_mul_of_pos_right (2 ^ 53) hp
  omega

theorem roundNat_large_ge (n : Nat) (h : 2 ^ 53 ≤ n) :
    ieeeGe (roundNat n) (.fin false (2 ^ 53) 0) = true := by
  rcases roundNat_large_spec n h with hi | ⟨m, e, h1, h2, h3⟩
  · rw [hi]; rfl
  · rw [h1, ieeeGe_fin_nonneg m (2 ^ 53) e (by omega), decide_eq_true_eq]
    exact scaled_ge m e h2 h3

theorem roundNat_large_trunc (n : Nat) (h : 2 ^ 53 ≤ n) :
    ∀ s m e, roundNat n = .fin s m e → 2 ^ 53 ≤ truncAbs m e := by
  intro s m e hr
  rcases roundNat_large_spec n h with hi | ⟨m', e', h1, h2, h3⟩
  · rw [hi] at hr; cases hr
  · rw [h1] at hr
    cases hr
    unfold truncAbs
    rw [if_pos (by omega)]
    exact scaled_ge m e h2 h3

end F64
end EsbuildModel

#print axioms EsbuildModel.F64.roundNat_small
#print axioms EsbuildModel.F64.roundNat_small_not_ge
#print axioms EsbuildModel.F64.roundNat_large_ge
#print axioms EsbuildModel.F64.roundNat_large_trunc
