import EsbuildModel.Lemmas.JsonStrings
import EsbuildModel.Lemmas.LexNumComplete5
/-
`lexAt` (the token switch of `Lexer.Next`) on the first token of a value: punctuation, `true` / `false` / `null`,
strings.  Completeness direction.
-/
namespace EsbuildModel.Json
open EsbuildModel.Spec.Json

/-- the trusted contract of the parameters: the one of `LexNum`, and no white space code point is an identifier
character (true of the Unicode tables: ID_Start / ID_Continue contain no Zs, Cc or Cf white space) -/
structure ParamsOK (P : Params) (R : Rat → F64) : Prop where
  num : LexNum.ParamsOK P.num R
  ws_idStart : ∀ c, jsExtraWs c = true → P.num.idStartNA c = false
  ws_idCont : ∀ c, jsExtraWs c = true → P.idContNA c = false

/-- characters that can follow a value in a text of one of the dialects -/
def isDelim (c : Char) : Bool :=
  c == ',' || c == ']' || c == '}' || c == ':' || c == '/' || c == '<' || isRfcWs c || jsExtraWs c

def Follow (rest : List Cp) : Prop := ∀ c r, rest = c :: r → isDelim c.c = true

theorem jsExtraWs_ge (c : Char) (h : jsExtraWs c = true) : c.toNat = 0x0B ∨ c.toNat = 0x0C ∨ c.toNat ≥ 0x7F := by
  simp only [jsExtraWs, Bool.or_eq_true, beq_iff_eq, Bool.and_eq_true, decide_eq_true_eq] at h
  omega

theorem delim_not_idCont {P : Params} {R : Rat → F64} (hP : ParamsOK P R) {c : Char} (h : isDelim c = true) :
    isIdCont P c = false ∧ isIdStart P c = false ∧ c ≠ '\\' ∧ isDigit c = false ∧ c ≠ '.' := by
  simp only [isDelim, Bool.or_eq_true, beq_iff_eq] at h
  rcases h with ((((((h | h) | h) | h) | h) | h) | h) | h
  any_goals (subst h; refine ⟨?_, ?_, by decide, by decide, by decide⟩ <;>
    simp [isIdCont, isIdStart, LexNum.isIdStart, isAsciiIdCont])
  · simp only [isRfcWs, Bool.or_eq_true, beq_iff_eq] at h
    rcases h with ((h | h) | h) | h <;>
    (subst h; refine ⟨?_, ?_, by decide, by decide, by decide⟩ <;>
      simp [isIdCont, isIdStart, LexNum.isIdStart, isAsciiIdCont])
  · have h1 := hP.ws_idStart c h
    have h2 := hP.ws_idCont c h
    have h3 := jsExtraWs_ge c h
    have hz : c.toNat ≠ 0x200C ∧ c.toNat ≠ 0x200D := by
      simp only [jsExtraWs, Bool.or_eq_true, beq_iff_eq, Bool.and_eq_true, decide_eq_true_eq] at h
      omega
    refine ⟨?_, ?_, ?_, ?_, ?_⟩
    · simp only [isIdCont, isAsciiIdCont, h2, Bool.or_false, Bool.or_eq_false_iff, Bool.and_eq_false_iff,
        beq_eq_false_iff_ne, ne_eq, decide_eq_false_iff_not, Nat.not_le]
      refine ⟨⟨⟨⟨⟨?_, ?_⟩, ?_⟩, ?_⟩, ?_⟩, ?_⟩
      · rintro rfl; revert h; decide
      · rintro rfl; revert h; decide
      · omega
      · omega
      · omega
      · right; exact ⟨hz.1, hz.2⟩
    · simp only [isIdStart, LexNum.isIdStart, h1, Bool.and_false, Bool.or_false, Bool.or_eq_false_iff,
        Bool.and_eq_false_iff, beq_eq_false_iff_ne, ne_eq, decide_eq_false_iff_not, Nat.not_le]
      refine ⟨⟨⟨?_, ?_⟩, ?_⟩, ?_⟩
      · rintro rfl; revert h; decide
      · rintro rfl; revert h; decide
      · omega
      · omega
    · rintro rfl; revert h; decide
    · simp only [isDigit, Bool.and_eq_false_iff, decide_eq_false_iff_not, Nat.not_le]; omega
    · rintro rfl; revert h; decide

/-! ## punctuation -/

theorem lexAt_punct (fl : Flavor) (P : Params) (L : Lx) (sk : Sk) (c : Char) (t : Tok) (r : List Cp)
    (h : (c = '[' ∧ t = .openBracket) ∨ (c = ']' ∧ t = .closeBracket) ∨ (c = '{' ∧ t = .openBrace) ∨
      (c = '}' ∧ t = .closeBrace) ∨ (c = ',' ∧ t = .comma) ∨ (c = ':' ∧ t = .colon)) :
    lexAt fl P L sk (cpOf c :: r) = .ok (L.at sk t r (sk.pos + (cpOf c).w)) := by
  rcases h with ⟨rfl, rfl⟩ | ⟨rfl, rfl⟩ | ⟨rfl, rfl⟩ | ⟨rfl, rfl⟩ | ⟨rfl, rfl⟩ | ⟨rfl, rfl⟩ <;> simp [lexAt]

theorem lexAt_eof (fl : Flavor) (P : Params) (L : Lx) (sk : Sk) :
    lexAt fl P L sk [] = .ok (L.at sk .eof [] sk.pos) := rfl

/-! ## `true`, `false`, `null` -/

theorem takeWhile_word (P : Params) (w : List Char) (hw : ∀ c ∈ w, isAsciiIdCont c = true) (rest : List Cp)
    (hr : ∀ c r, rest = c :: r → isIdCont P c.c = false) :
    (cps w ++ rest).takeWhile (fun c => isIdCont P c.c) = cps w ∧
    (cps w ++ rest).dropWhile (fun c => isIdCont P c.c) = rest := by
  induction w with
  | nil =>
    cases rest with
    | nil => simp
    | cons c r => simp [hr c r rfl]
  | cons a w ih =>
    have ha : isIdCont P a = true := by simp [isIdCont, hw a (by simp)]
    have := ih (fun c hc => hw c (List.mem_cons_of_mem _ hc))
    simp [ha, this.1, this.2]

theorem lexAt_word {P : Params} {R : Rat → F64} (hP : ParamsOK P R) (fl : Flavor) (L : Lx) (sk : Sk) (a : Char)
    (w : List Char) (t : Tok) (rest : List Cp)
    (h : (a = 't' ∧ w = ['r', 'u', 'e'] ∧ t = .tTrue) ∨ (a = 'f' ∧ w = ['a', 'l', 's', 'e'] ∧ t = .tFalse) ∨
      (a = 'n' ∧ w = ['u', 'l', 'l'] ∧ t = .tNull)) (hf : Follow rest) :
    lexAt fl P L sk (cps (a :: w) ++ rest) = .ok (L.at sk t rest (sk.pos + widths (cps (a :: w)))) := by
  have hr : ∀ c r, rest = c :: r → isIdCont P c.c = false := fun c r h => (delim_not_idCont hP (hf c r h)).1
  have hbs : headIs rest (· == '\\') = false := by
    cases rest with
    | nil => rfl
    | cons c r => simp [headIs, (delim_not_idCont hP (hf c r rfl)).2.2.1]
  rcases h with ⟨rfl, rfl, rfl⟩ | ⟨rfl, rfl, rfl⟩ | ⟨rfl, rfl, rfl⟩
  all_goals
    simp only [cps_cons, List.cons_append, lexAt, cpOf_c]
    simp only [show ∀ (x y : Char), (x = y) = (x = y) from fun _ _ => rfl, Char.reduceEq, if_false, false_or, or_false,
      isDigit, isAsciiIdStart]
    simp only [lexIdent]
  · obtain ⟨h1, h2⟩ := takeWhile_word P ['r', 'u', 'e'] (by decide) rest hr
    simp only [cps_cons, cps_nil, List.cons_append, List.nil_append] at h1 h2
    simp [h1, h2, hbs, keywordTok, chars, widths, Nat.add_assoc]
  · obtain ⟨h1, h2⟩ := takeWhile_word P ['a', 'l', 's', 'e'] (by decide) rest hr
    simp only [cps_cons, cps_nil, List.cons_append, List.nil_append] at h1 h2
    simp [h1, h2, hbs, keywordTok, chars, widths, Nat.add_assoc]
  · obtain ⟨h1, h2⟩ := takeWhile_word P ['u', 'l', 'l'] (by decide) rest hr
    simp only [cps_cons, cps_nil, List.cons_append, List.nil_append] at h1 h2
    simp [h1, h2, hbs, keywordTok, chars, widths, Nat.add_assoc]

end EsbuildModel.Json
