import EsbuildModel.Lemmas.JsonTotal1
import EsbuildModel.Lemmas.JsonTok
/-
Totality of the lexer model, part 2: `lexAt` / `next` never crash and consume input.
-/
namespace EsbuildModel.Json
open EsbuildModel.LexNum EsbuildModel.Spec.NumLit

theorem finish_ne (P : LexNum.Params) (r : List Char) (s : St) (a b : Bool) (v : F64) (t : List Char) :
    finish P r s a b v t ≠ .notNumeric := by
  unfold finish
  simp only
  repeat' split
  all_goals simp

theorem floatPath_ne (P : LexNum.Params) (first : Char) (src rest : List Char) : floatPath P first src rest ≠ .notNumeric := by
  unfold floatPath
  simp only
  repeat' split
  all_goals first | exact finish_ne _ _ _ _ _ _ _ | simp

theorem basePath_ne (P : LexNum.Params) (src rest : List Char) (base : Nat) (legacy : Bool) :
    basePath P src rest base legacy ≠ .notNumeric := by
  unfold basePath
  simp only
  repeat' split
  all_goals first | exact finish_ne _ _ _ _ _ _ _ | simp

theorem lexNum_ne (P : LexNum.Params) (c : Char) (r : List Char) (h : c = '.' ∨ LexNum.isDig c = true) :
    lexNum P (c :: r) ≠ .notNumeric := by
  simp only [lexNum]
  by_cases hd : c = '.'
  · simp only [hd, if_true]
    repeat' split
    all_goals first | exact floatPath_ne _ _ _ _ | simp
  · have hdig : LexNum.isDig c = true := by
      rcases h with h | h
      · exact absurd h hd
      · exact h
    simp only [hd, if_false, hdig, if_true]
    repeat' split
    all_goals first | exact floatPath_ne _ _ _ _ | exact basePath_ne _ _ _ _ _ | simp

theorem lit_render_ne_nil {l : Lit} (h : l.valid = true) : l.render ≠ [] := by
  cases l with
  | dec i f e =>
    cases i with
    | nil =>
      cases f with
      | none => simp [Lit.valid] at h
      | some g => simp [Lit.render, Spec.Num.fracText]
    | cons a t => simp [Lit.render]
  | legacyOctal ds => simp [Lit.render]
  | nonDec r u ds => simp [Lit.render]
  | bigDec ds => simp [Lit.render]
  | bigNonDec r u ds => simp [Lit.render]

theorem lexNum_len_pos {P : LexNum.Params} {R : Rat → F64} (hP : LexNum.ParamsOK P R) {src : List Char} :
    (∀ len v lg, lexNum P src = .num len v lg → 1 ≤ len) ∧ (∀ len t lg, lexNum P src = .big len t lg → 1 ≤ len) := by
  constructor
  · intro len v lg h
    obtain ⟨l, h1, _, h3, _⟩ := lexNum_num_sound hP h
    have := lit_render_ne_nil h1
    rw [h3] at this
    cases len with
    | zero => simp at this
    | succ k => omega
  · intro len t lg h
    obtain ⟨l, h1, _, h3, _⟩ := lexNum_big_sound h
    have := lit_render_ne_nil h1
    rw [h3] at this
    cases len with
    | zero => simp at this
    | succ k => omega

/-! ## `lexAt` -/

/-- what is left to read: the remaining input, and the current token unless it is the end of the file -/
def mu (L : Lx) : Nat := L.rest.length + (if L.tok = .eof then 0 else 1)

theorem mu_at_le (L : Lx) (sk : Sk) (t : Tok) (r : List Cp) (e : Nat) : mu (L.at sk t r e) ≤ r.length + 1 := by
  simp only [mu, Lx.at]
  by_cases h : t = .eof <;> simp [h]

theorem lexString_total (fl : Flavor) (L : Lx) (sk : Sk) (q : Cp) (r : List Cp) :
    lexString fl L sk q r ≠ .crash ∧ ∀ L', lexString fl L sk q r = .ok L' → mu L' ≤ r.length := by
  unfold lexString
  cases h : scanStr fl q.c r (sk.pos + q.w) with
  | unterminated a => exact ⟨by simp, by intro L' h; cases h⟩
  | ctrl a => exact ⟨by simp [syntaxError], by intro L' h; cases h⟩
  | done text rest e slow =>
    have hlt := scanStr_lt fl q.c r _ _ _ _ _ h
    simp only
    split
    · refine ⟨by simp, ?_⟩
      intro L' h'
      cases h'
      have := mu_at_le L { sk with log := if q.c = '\'' then sk.log.rangeError sk.pos else sk.log }
        (if q.c = '`' then Tok.other else Tok.str) rest e
      simp only [mu, Lx.at] at this ⊢
      omega
    · refine ⟨by simp, ?_⟩
      intro L' h'
      cases h'
      have := mu_at_le L { sk with log := if q.c = '\'' then sk.log.rangeError sk.pos else sk.log }
        (if q.c = '`' then Tok.other else Tok.str) rest e
      simp only [mu, Lx.at] at this ⊢
      omega

theorem lexNumber_total {P : Params} {Rd : Rat → F64} (hP : ParamsOK P Rd) (fl : Flavor) (L : Lx) (sk : Sk) (c : Cp)
    (r : List Cp) (hc : c.c = '.' ∨ isDigit c.c = true) :
    lexNumber fl P L sk (c :: r) ≠ .crash ∧ ∀ L', lexNumber fl P L sk (c :: r) = .ok L' → mu L' ≤ r.length + 1 := by
  unfold lexNumber
  have hne : lexNum P.num (chars (c :: r)) ≠ .notNumeric := lexNum_ne P.num c.c (chars r) hc
  obtain ⟨hl1, hl2⟩ := lexNum_len_pos hP.num (src := chars (c :: r))
  cases h : lexNum P.num (chars (c :: r)) with
  | notNumeric => exact absurd h hne
  | err p => exact ⟨by simp [syntaxError], by intro L' h; cases h⟩
  | dot =>
    refine ⟨by simp, ?_⟩
    intro L' h'; cases h'
    have := mu_at_le L sk .other (List.drop 1 (c :: r)) (sk.pos + 1)
    simp at this ⊢; omega
  | dotDotDot =>
    refine ⟨by simp, ?_⟩
    intro L' h'; cases h'
    have := mu_at_le L sk .other (List.drop 3 (c :: r)) (sk.pos + 3)
    simp only [List.length_drop, List.length_cons] at this ⊢; omega
  | big len t lg =>
    have := hl2 len t lg h
    refine ⟨by simp, ?_⟩
    intro L' h'; cases h'
    have := mu_at_le L sk .other (List.drop len (c :: r)) (sk.pos + len)
    simp only [List.length_drop, List.length_cons] at this ⊢; omega
  | num len v lg =>
    have := hl1 len v lg h
    simp only
    by_cases hb : fl = Flavor.json ∧ jsonNumBad (List.take len (chars (c :: r))) = true
    · rw [if_pos hb]
      exact ⟨by simp [unexpected], by intro L' h; cases h⟩
    · rw [if_neg hb]
      refine ⟨by simp, ?_⟩
      intro L' h'; cases h'
      have := mu_at_le L sk .num (List.drop len (c :: r)) (sk.pos + len)
      simp only [mu, Lx.at, List.length_drop, List.length_cons] at this ⊢; omega

end EsbuildModel.Json
