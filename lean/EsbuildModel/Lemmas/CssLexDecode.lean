import EsbuildModel.Impl.CssLexTok
import EsbuildModel.Lemmas.Wtf8Round
/-!
Facts about the decoding layer of the CSS lexer model (`decodeAll`): no byte is lost or read twice, every decoded
rune is either an ASCII byte standing for itself or a rune ≥ 0x80 made of bytes ≥ 0x80, and the UTF-8 of scalar
values decodes to those scalar values.
-/
namespace EsbuildModel.CssLex
open EsbuildModel.Wtf8

/-- shape of a decoded rune -/
def WfCh (c : Ch) : Prop :=
  (c.cp < 128 ∧ c.raw = [c.cp]) ∨ (128 ≤ c.cp ∧ c.raw ≠ [] ∧ ∀ b ∈ c.raw, 128 ≤ b)

def WfS (s : List Ch) : Prop := ∀ c ∈ s, WfCh c

theorem WfS.tail {c : Ch} {t : List Ch} (h : WfS (c :: t)) : WfS t := fun x hx => h x (List.mem_cons_of_mem _ hx)
theorem WfS.head {c : Ch} {t : List Ch} (h : WfS (c :: t)) : WfCh c := h c (by simp)
theorem WfS.nil : WfS [] := fun _ h => by simp at h

/-- first byte of the text of a well-formed rune -/
theorem WfCh.raw_head {c : Ch} (h : WfCh c) (b : Nat) (hb : c.raw.head? = some b) (hlt : b < 128) : c.cp = b ∧ c.raw = [b] := by
  rcases h with ⟨h1, h2⟩ | ⟨h1, h2, h3⟩
  · rw [h2] at hb; simp at hb; exact ⟨hb, by rw [h2, hb]⟩
  · cases hr : c.raw with
    | nil => exact absurd hr h2
    | cons x xs =>
      rw [hr] at hb; simp at hb
      have := h3 x (by rw [hr]; simp)
      omega

theorem WfCh.raw_of_ascii {c : Ch} (h : WfCh c) (hlt : c.cp < 128) : c.raw = [c.cp] := by
  rcases h with ⟨_, h2⟩ | ⟨h1, _, _⟩
  · exact h2
  · omega

theorem WfCh.raw_ne_nil {c : Ch} (h : WfCh c) : c.raw ≠ [] := by
  rcases h with ⟨_, e⟩ | ⟨_, e, _⟩
  · rw [e]; simp
  · exact e

theorem WfS.suffix {a b : List Ch} (h : WfS b) (hs : a <:+ b) : WfS a := fun c hc => h c (hs.subset hc)

theorem isCont_ge (b : Nat) (h : isCont b = true) : 128 ≤ b := by
  simp only [isCont, Bool.and_eq_true, decide_eq_true_eq] at h; exact h.1

theorem acceptLo_ge (a : Nat) : 128 ≤ acceptLo a := by
  unfold acceptLo; split
  · omega
  · split <;> omega

theorem acceptHi_le (a : Nat) : acceptHi a ≤ 191 := by
  unfold acceptHi; split
  · omega
  · split <;> omega

theorem acceptLo_224 : acceptLo 224 = 160 := rfl
theorem acceptLo_240 : acceptLo 240 = 144 := rfl

/-- width and shape of what `utf8.DecodeRuneInString` returns on a non-empty string -/
def DecShape (a : Nat) (t : List Nat) (r : Nat × Nat) : Prop :=
  1 ≤ r.2 ∧ r.2 ≤ 1 + t.length ∧
    (r.1 < 128 ∧ r.2 = 1 ∧ r.1 = a ∨ 128 ≤ r.1 ∧ 128 ≤ a ∧ ∀ b ∈ t.take (r.2 - 1), 128 ≤ b)

theorem decShape_err (a : Nat) (t : List Nat) (ha : 128 ≤ a) : DecShape a t (Wtf8.runeError, 1) := by
  refine ⟨by simp, by simp, Or.inr ⟨by simp [Wtf8.runeError], ha, by simp⟩⟩

theorem goDecodeRune_shape (a : Nat) (t : List Nat) : DecShape a t (goDecodeRune a t) := by
  unfold goDecodeRune
  by_cases h1 : a < 0x80
  · simp only [h1, if_true]; exact ⟨by simp, by simp, Or.inl ⟨h1, rfl, rfl⟩⟩
  · simp only [h1, if_false]
    have ha : 128 ≤ a := by omega
    have herr := decShape_err a t ha
    split
    · next h2 =>
      match t with
      | [] => exact herr
      | s1 :: r =>
        simp only
        split
        · next hc =>
          have := isCont_ge s1 hc
          rw [dec2]
          refine ⟨by simp, by simp only [List.length_cons]; omega, Or.inr ⟨by simp only; omega, ha, ?_⟩⟩
          simp; exact this
        · exact herr
    · split
      · next h3 =>
        match t with
        | [] => exact herr
        | [_] => exact herr
        | s1 :: s2 :: r =>
          simp only
          split
          · next hc =>
            have h2 := isCont_ge s2 hc.2.2
            have h1' : 128 ≤ s1 := Nat.le_trans (acceptLo_ge a) hc.1
            have h1'' : s1 ≤ 191 := Nat.le_trans hc.2.1 (acceptHi_le a)
            rw [dec3]
            refine ⟨by simp, by simp only [List.length_cons]; omega, Or.inr ⟨?_, ha, ?_⟩⟩
            · simp only
              by_cases ha2 : a = 224
              · have := hc.1; rw [ha2, acceptLo_224] at this; omega
              · omega
            · intro b hb; simp at hb; rcases hb with hb | hb <;> omega
          · exact herr
      · split
        · next h4 =>
          match t with
          | [] => exact herr
          | [_] => exact herr
          | [_, _] => exact herr
          | s1 :: s2 :: s3 :: r =>
            simp only
            split
            · next hc =>
              have h2 := isCont_ge s2 hc.2.2.1
              have h3' := isCont_ge s3 hc.2.2.2
              have h1' : 128 ≤ s1 := Nat.le_trans (acceptLo_ge a) hc.1
              have h1'' : s1 ≤ 191 := Nat.le_trans hc.2.1 (acceptHi_le a)
              rw [dec4]
              refine ⟨by simp, by simp only [List.length_cons]; omega, Or.inr ⟨?_, ha, ?_⟩⟩
              · simp only
                by_cases ha2 : a = 240
                · have := hc.1; rw [ha2, acceptLo_240] at this; omega
                · omega
              · intro b hb; simp at hb; rcases hb with hb | hb | hb <;> omega
            · exact herr
        · exact herr

theorem rawOf_append (a b : List Ch) : rawOf (a ++ b) = rawOf a ++ rawOf b := by simp [rawOf]
theorem rawOf_cons (c : Ch) (t : List Ch) : rawOf (c :: t) = c.raw ++ rawOf t := by simp [rawOf]
theorem rawOf_nil : rawOf [] = [] := rfl

theorem decodeFrom_drop : ∀ (k : Nat) (s : List Nat), decodeFrom k s = decodeFrom 0 (s.drop k)
  | 0, s => by simp
  | k + 1, [] => by simp [decodeFrom]
  | k + 1, a :: t => by simp only [decodeFrom, List.drop_succ_cons]; exact decodeFrom_drop k t

theorem decodeAll_nil : decodeAll [] = [] := rfl

/-- one step of the decoder -/
theorem decodeAll_cons (a : Nat) (t : List Nat) :
    decodeAll (a :: t) = ⟨(goDecodeRune a t).1, (a :: t).take (goDecodeRune a t).2⟩ :: decodeAll (t.drop ((goDecodeRune a t).2 - 1)) := by
  simp only [decodeAll, decodeFrom]
  rw [decodeFrom_drop]

theorem decodeAll_ascii (a : Nat) (t : List Nat) (h : a < 128) : decodeAll (a :: t) = ⟨a, [a]⟩ :: decodeAll t := by
  rw [decodeAll_cons]
  have : goDecodeRune a t = (a, 1) := by unfold goDecodeRune; simp [h]
  simp [this]

/-- induction on the length of a list -/
theorem list_length_induction {α : Type} {P : List α → Prop}
    (h : ∀ s, (∀ t, t.length < s.length → P t) → P s) : ∀ s, P s := by
  intro s
  generalize hn : s.length = n
  induction n using Nat.strongRecOn generalizing s with
  | _ n ih => exact h s (fun t ht => ih t.length (hn ▸ ht) t rfl)

/-- no byte is lost or read twice -/
theorem rawOf_decodeAll (s : List Nat) : rawOf (decodeAll s) = s := by
  induction s using list_length_induction with
  | _ s ih =>
    cases s with
    | nil => rfl
    | cons a t =>
      rw [decodeAll_cons]
      have hs := goDecodeRune_shape a t
      obtain ⟨h1, h2, _⟩ := hs
      have ih' := ih (t.drop ((goDecodeRune a t).2 - 1)) (by simp only [List.length_drop, List.length_cons]; omega)
      simp only [rawOf, List.flatMap_cons] at ih' ⊢
      rw [ih']
      generalize (goDecodeRune a t).2 = w at h1 h2
      obtain ⟨w', rfl⟩ : ∃ w', w = w' + 1 := ⟨w - 1, by omega⟩
      simp

theorem wfS_decodeAll (s : List Nat) : WfS (decodeAll s) := by
  induction s using list_length_induction with
  | _ s ih =>
    cases s with
    | nil => exact WfS.nil
    | cons a t =>
      rw [decodeAll_cons]
      have hs := goDecodeRune_shape a t
      obtain ⟨h1, h2, h3⟩ := hs
      have ih' := ih (t.drop ((goDecodeRune a t).2 - 1)) (by simp only [List.length_drop, List.length_cons]; omega)
      intro c hc
      simp only [List.mem_cons] at hc
      rcases hc with rfl | hc
      · rcases h3 with ⟨h3a, h3b, h3c⟩ | ⟨h3a, h3b, h3c⟩
        · left; rw [h3c] at h3a; simp [h3b, h3c, h3a]
        · right
          refine ⟨h3a, ?_, ?_⟩
          · generalize (goDecodeRune a t).2 = w at h1 h2
            obtain ⟨w', rfl⟩ : ∃ w', w = w' + 1 := ⟨w - 1, by omega⟩
            simp
          · generalize (goDecodeRune a t).2 = w at h1 h2 h3c
            obtain ⟨w', rfl⟩ : ∃ w', w = w' + 1 := ⟨w - 1, by omega⟩
            intro b hb
            simp only [List.take_succ_cons, List.mem_cons] at hb
            rcases hb with rfl | hb
            · exact h3b
            · exact h3c b (by simpa using hb)
      · exact ih' c hc

theorem rawLen_decodeAll (s : List Nat) : rawLen (decodeAll s) = s.length := by
  unfold rawLen; rw [rawOf_decodeAll]

/-- the UTF-8 of a scalar value, as `encRune` writes it, is what `Spec.Unicode.utf8` says (= `encA`) -/
theorem encRune_scalar (cp : Nat) (h : Spec.Unicode.IsScalar cp) : encRune cp = encA cp := by
  unfold Spec.Unicode.IsScalar at h
  unfold encRune encA
  have : ¬ (cp > 0x10FFFF ∨ (0xD800 ≤ cp ∧ cp ≤ 0xDFFF)) := by omega
  simp only [this, if_false]

/-- the UTF-8 of a scalar value in front of any text decodes to that scalar value, and the rest is decoded as if
it stood alone -/
theorem decodeAll_enc (cp : Nat) (h : Spec.Unicode.IsScalar cp) (rest : List Nat) :
    decodeAll (encRune cp ++ rest) = ⟨cp, encRune cp⟩ :: decodeAll rest := by
  rw [encRune_scalar cp h]
  obtain ⟨a, t, hat, hdec, hdrop⟩ := goDecode_enc cp h rest
  rw [hat, decodeAll_cons, hdec]
  simp only [hdrop]
  congr 1
  congr 1
  rw [← hat]
  simp

/-- the only bytes that Go decodes to U+FEFF are EF BB BF -/
theorem goDecodeRune_bom (a : Nat) (t : List Nat) :
    (goDecodeRune a t).1 = 0xFEFF ↔ a = 0xEF ∧ ∃ r, t = 0xBB :: 0xBF :: r := by
  constructor
  · intro h
    unfold goDecodeRune at h
    split at h
    · simp at h; omega
    · split at h
      · match t with
        | [] => simp [Wtf8.runeError] at h
        | s1 :: r =>
          simp only at h
          split at h
          · next hc =>
            simp only [isCont, Bool.and_eq_true, decide_eq_true_eq] at hc
            rw [dec2] at h; simp only at h; omega
          · simp [Wtf8.runeError] at h
      · split at h
        · next h3 =>
          match t with
          | [] => simp [Wtf8.runeError] at h
          | [_] => simp [Wtf8.runeError] at h
          | s1 :: s2 :: r =>
            simp only at h
            split at h
            · next hc =>
              have h1 : 128 ≤ s1 := Nat.le_trans (acceptLo_ge a) hc.1
              have h1' : s1 ≤ 191 := Nat.le_trans hc.2.1 (acceptHi_le a)
              have hc2 := hc.2.2
              simp only [isCont, Bool.and_eq_true, decide_eq_true_eq] at hc2
              rw [dec3] at h; simp only at h
              have : a = 239 ∧ s1 = 187 ∧ s2 = 191 := by omega
              exact ⟨this.1, r, by rw [this.2.1, this.2.2]⟩
            · simp [Wtf8.runeError] at h
        · split at h
          · next h4 =>
            match t with
            | [] => simp [Wtf8.runeError] at h
            | [_] => simp [Wtf8.runeError] at h
            | [_, _] => simp [Wtf8.runeError] at h
            | s1 :: s2 :: s3 :: r =>
              simp only at h
              split at h
              · next hc =>
                have h1 : 128 ≤ s1 := Nat.le_trans (acceptLo_ge a) hc.1
                have h1' : s1 ≤ 191 := Nat.le_trans hc.2.1 (acceptHi_le a)
                rw [dec4] at h; simp only at h
                by_cases ha2 : a = 240
                · have := hc.1; rw [ha2, acceptLo_240] at this; omega
                · omega
              · simp [Wtf8.runeError] at h
          · simp [Wtf8.runeError] at h
  · rintro ⟨rfl, r, rfl⟩
    rfl

theorem goDecodeRune_bom_width (r : List Nat) : goDecodeRune 0xEF (0xBB :: 0xBF :: r) = (0xFEFF, 3) := rfl

theorem acceptHi_237 : acceptHi 237 = 159 := rfl
theorem acceptHi_244 : acceptHi 244 = 143 := rfl

/-- Go never decodes a surrogate or a value above U+10FFFF -/
theorem goDecodeRune_scalar (a : Nat) (t : List Nat) : Spec.Unicode.IsScalar (goDecodeRune a t).1 := by
  have herr : Spec.Unicode.IsScalar Wtf8.runeError := by decide
  unfold goDecodeRune
  by_cases h1 : a < 0x80
  · simp only [h1, if_true]; unfold Spec.Unicode.IsScalar; omega
  · simp only [h1, if_false]
    split
    · next h2 =>
      match t with
      | [] => exact herr
      | s1 :: r =>
        simp only
        split
        · rw [dec2]; unfold Spec.Unicode.IsScalar; simp only; omega
        · exact herr
    · split
      · next h3 =>
        match t with
        | [] => exact herr
        | [_] => exact herr
        | s1 :: s2 :: r =>
          simp only
          split
          · next hc =>
            have h1' : 128 ≤ s1 := Nat.le_trans (acceptLo_ge a) hc.1
            rw [dec3]; unfold Spec.Unicode.IsScalar; simp only
            by_cases ha2 : a = 237
            · have := hc.2.1; rw [ha2, acceptHi_237] at this; omega
            · omega
          · exact herr
      · split
        · next h4 =>
          match t with
          | [] => exact herr
          | [_] => exact herr
          | [_, _] => exact herr
          | s1 :: s2 :: s3 :: r =>
            simp only
            split
            · next hc =>
              have h1' : 128 ≤ s1 := Nat.le_trans (acceptLo_ge a) hc.1
              have h1'' : s1 ≤ 191 := Nat.le_trans hc.2.1 (acceptHi_le a)
              rw [dec4]; unfold Spec.Unicode.IsScalar; simp only
              by_cases ha2 : a = 244
              · have := hc.2.1; rw [ha2, acceptHi_244] at this; omega
              · by_cases ha3 : a = 240
                · have := hc.1; rw [ha3, acceptLo_240] at this; omega
                · omega
            · exact herr
        · exact herr

theorem decodeAll_scalar (s : List Nat) : ∀ c ∈ decodeAll s, Spec.Unicode.IsScalar c.cp := by
  induction s using list_length_induction with
  | _ s ih =>
    cases s with
    | nil => intro c hc; simp [decodeAll_nil] at hc
    | cons a t =>
      rw [decodeAll_cons]
      obtain ⟨h1, h2, _⟩ := goDecodeRune_shape a t
      intro c hc
      simp only [List.mem_cons] at hc
      rcases hc with rfl | hc
      · exact goDecodeRune_scalar a t
      · exact ih _ (by simp only [List.length_drop, List.length_cons]; omega) c hc

end EsbuildModel.CssLex
