import EsbuildModel.Lemmas.StrLexTplItems
/-! Templates: the decoder on the text of a whole derivation (cooked value), and the scanning loop on it. -/
namespace EsbuildModel.StrLex
open EsbuildModel.Spec.StrLit
open EsbuildModel.Spec.JsString (hexVal? utf16)

theorem tvChars_cons_some {x : TplChar} {xs : List TplChar} {v : List Nat} (h : tvChars (x :: xs) = some v) :
    ∃ a b, x.tv = some a ∧ tvChars xs = some b ∧ v = a ++ b := by
  simp only [tvChars] at h
  cases h1 : x.tv <;> cases h2 : tvChars xs <;> simp [h1, h2] at h
  exact ⟨_, _, rfl, rfl, h.symm⟩

theorem tvChars_cons_none {x : TplChar} {xs : List TplChar} (h : tvChars (x :: xs) = none) :
    x.tv = none ∨ (∃ a, x.tv = some a ∧ tvChars xs = none) := by
  simp only [tvChars] at h
  cases h1 : x.tv <;> cases h2 : tvChars xs <;> simp [h1, h2] at h
  · left; rfl
  · left; rfl
  · right; exact ⟨_, rfl, rfl⟩

theorem notEsc_of_tv_none {x : TplChar} (h : x.tv = none) : ∃ n, x = .notEsc n := by
  cases x <;> simp [TplChar.tv] at h
  exact ⟨_, rfl⟩

/-- (T1) all escapes valid: the decoder returns the TV and leaves LegacyOctalLoc alone, with and without error reporting -/
theorem decode_tpl_some (rep : Bool) (close : List Nat) (q0 : Nat) (hc : close.head? = some q0) (h0 : q0 = 96 ∨ q0 = 36)
    (ds : List TplChar) (hok : tplOK close ds = true) (v : List Nat) (htv : tvChars ds = some v) (i : Nat) :
    decodeLoop rep (renderTpl ds) 0 i = .ok v none := by
  induction ds generalizing i v with
  | nil => simp only [tvChars, Option.some.injEq] at htv; subst htv; rfl
  | cons x xs ih =>
    simp only [tplOK, Bool.and_eq_true] at hok
    rw [TplChar.ok_local x _ close q0 hc h0] at hok
    obtain ⟨a, b, h1, h2, rfl⟩ := tvChars_cons_some htv
    obtain ⟨c, t', hr, hs⟩ := step_tplChar_tv rep x (renderTpl xs) hok.1 a h1
    have := decodeLoop_emit rep c t' (renderTpl xs) _ _ i hs
    simp only [renderTpl, hr]
    rw [this, ih hok.2 b h2]
    simp [Dec.prepend]

theorem prepend_ok' {units : List Nat} {l0 : Option Nat} {d : Dec} {v : List Nat} {leg : Option Nat}
    (h : d.prepend units l0 = .ok v leg) : ∃ more l', d = .ok more l' ∧ v = units ++ more ∧ leg = (l' <|> l0) := by
  cases d with
  | ok more l' => simp only [Dec.prepend, Dec.ok.injEq] at h; exact ⟨more, l', rfl, h.1.symm, h.2.symm⟩
  | fail p l => cases h
  | range p n => cases h

theorem decodeLoop_step (rep : Bool) (c : Nat) (t : List Nat) (i : Nat) (units : List Nat) (used : Nat) (lg : Bool)
    (h : step rep c t = .emit units used lg) :
    decodeLoop rep (c :: t) 0 i = (decodeLoop rep t (used - 1) (i + 1)).prepend units (if lg then some i else none) := by
  simp only [decodeLoop, h]

/-- (T2) some NotEscapeSequence: `reportErrors = false` decoding fails (cooked = nil) -/
theorem decode_tpl_none_false (close : List Nat) (q0 : Nat) (hc : close.head? = some q0) (h0 : q0 = 96 ∨ q0 = 36)
    (ds : List TplChar) (hok : tplOK close ds = true) (htv : tvChars ds = none) (i : Nat) :
    ∃ p l, decodeLoop false (renderTpl ds) 0 i = .fail p l := by
  induction ds generalizing i with
  | nil => simp [tvChars] at htv
  | cons x xs ih =>
    simp only [tplOK, Bool.and_eq_true] at hok
    rcases tvChars_cons_none htv with hx | ⟨a, hx, hxs⟩
    · obtain ⟨n, rfl⟩ := notEsc_of_tv_none hx
      have hok1 := hok.1
      rw [TplChar.ok_local _ _ close q0 hc h0] at hok1
      simp only [TplChar.ok, Bool.and_eq_true] at hok1
      simp only [renderTpl, TplChar.render, List.cons_append]
      rcases step_notEsc false n (renderTpl xs) hok1.1 hok1.2 with ⟨off, h⟩ | ⟨hr, _⟩
      · exact ⟨_, _, decodeLoop_fail false 92 _ off i h⟩
      · cases hr
    · have hok1 := hok.1
      rw [TplChar.ok_local x _ close q0 hc h0] at hok1
      obtain ⟨c, t', hr, hs⟩ := step_tplChar_tv false x (renderTpl xs) hok1 a hx
      obtain ⟨p, l, hrest⟩ := ih hok.2 hxs (i + (t'.length + 1))
      have := decodeLoop_emit false c t' (renderTpl xs) _ _ i hs
      simp only [renderTpl, hr]
      rw [this, hrest]
      exact ⟨p, _, rfl⟩

/-- (T3) some NotEscapeSequence: `reportErrors = true` decoding never returns a value with LegacyOctalLoc untouched — it
fails, reports "out of range", or records a legacy octal position (which makes the parser report an error) -/
theorem decode_tpl_none_true (close : List Nat) (q0 : Nat) (hc : close.head? = some q0) (h0 : q0 = 96 ∨ q0 = 36)
    (ds : List TplChar) (hok : tplOK close ds = true) (htv : tvChars ds = none) (i : Nat) (v : List Nat) :
    decodeLoop true (renderTpl ds) 0 i ≠ .ok v none := by
  induction ds generalizing i v with
  | nil => simp [tvChars] at htv
  | cons x xs ih =>
    simp only [tplOK, Bool.and_eq_true] at hok
    rcases tvChars_cons_none htv with hx | ⟨a, hx, hxs⟩
    · obtain ⟨n, rfl⟩ := notEsc_of_tv_none hx
      have hok1 := hok.1
      rw [TplChar.ok_local _ _ close q0 hc h0] at hok1
      simp only [TplChar.ok, Bool.and_eq_true] at hok1
      simp only [renderTpl, TplChar.render, List.cons_append]
      rcases step_notEsc true n (renderTpl xs) hok1.1 hok1.2 with ⟨off, h⟩ | ⟨_, ⟨u, k, h⟩ | ⟨len, h⟩⟩
      · rw [decodeLoop_fail true 92 _ off i h]; intro hh; cases hh
      · rw [decodeLoop_step true 92 _ i u k true h]
        intro hh
        obtain ⟨more, l', _, _, hl⟩ := prepend_ok' hh
        cases l' <;> simp at hl
      · rw [decodeLoop_range true 92 _ len i h]; intro hh; cases hh
    · have hok1 := hok.1
      rw [TplChar.ok_local x _ close q0 hc h0] at hok1
      obtain ⟨c, t', hr, hs⟩ := step_tplChar_tv true x (renderTpl xs) hok1 a hx
      have := decodeLoop_emit true c t' (renderTpl xs) _ _ i hs
      simp only [renderTpl, hr]
      rw [this]
      intro hh
      obtain ⟨more, l', hd, _, hl⟩ := prepend_ok' hh
      have : l' = none := by cases l' <;> simp at hl ⊢
      subst this
      exact ih hok.2 hxs _ _ hd

end EsbuildModel.StrLex
