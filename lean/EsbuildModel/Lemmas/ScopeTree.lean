import EsbuildModel.Lemmas.Slots
/-!
`Vis` (the inductive "visible together" relation of Spec/ScopeTree.lean) in terms of paths into the tree.
-/
namespace EsbuildModel.Slots

theorem subList?_eq : ∀ (ch : List Scope) (i : Nat) (p : List Nat),
    subList? ch i p = match ch[i]? with | none => none | some c => c.sub? p
  | [], i, p => by simp [subList?]
  | c :: cs, 0, p => by simp [subList?]
  | c :: cs, i + 1, p => by simp [subList?, subList?_eq cs i p]

theorem sub?_nil (sc : Scope) : sc.sub? [] = some sc := by
  cases sc; simp [Scope.sub?]

theorem sub?_cons (sc : Scope) (i : Nat) (p : List Nat) :
    sc.sub? (i :: p) = match sc.children[i]? with | none => none | some c => c.sub? p := by
  cases sc; simp [Scope.sub?, subList?_eq]

/-- a symbol is declared somewhere in the tree iff it is declared by the scope at some path -/
theorem mem_all_iff_sub {d : Scope → List Nat} {s : Nat} : ∀ (q : List Nat) (sc S : Scope),
    sc.sub? q = some S → s ∈ d S → s ∈ sc.all d
  | [], sc, S, h, hs => by
    rw [sub?_nil] at h; cases h; exact mem_all_of_decl hs
  | i :: q, sc, S, h, hs => by
    rw [sub?_cons] at h
    split at h
    · cases h
    · next c hc => exact mem_all_of_child (List.mem_of_getElem? hc) (mem_all_iff_sub q c S h hs)

mutual
theorem sub_of_mem_all {d : Scope → List Nat} {s : Nat} : (sc : Scope) → s ∈ sc.all d →
    ∃ q S, sc.sub? q = some S ∧ s ∈ d S
  | ⟨m, g, l, ch⟩, h => by
    simp only [Scope.all, List.mem_append] at h
    rcases h with h | h
    · exact ⟨[], _, sub?_nil _, h⟩
    · obtain ⟨i, q, S, hq, hs⟩ := sub_of_mem_allList ch h
      exact ⟨i :: q, S, by simp only [Scope.sub?]; exact hq, hs⟩
theorem sub_of_mem_allList {d : Scope → List Nat} {s : Nat} : (ch : List Scope) → s ∈ allList d ch →
    ∃ i q S, subList? ch i q = some S ∧ s ∈ d S
  | [], h => by simp [allList] at h
  | c :: cs, h => by
    simp only [allList, List.mem_append] at h
    rcases h with h | h
    · obtain ⟨q, S, hq, hs⟩ := sub_of_mem_all c h
      exact ⟨0, q, S, by simp only [subList?]; exact hq, hs⟩
    · obtain ⟨i, q, S, hq, hs⟩ := sub_of_mem_allList cs h
      exact ⟨i + 1, q, S, by simp only [subList?]; exact hq, hs⟩
end

theorem vis_of_paths {d : Scope → List Nat} {s t : Nat} : ∀ (p : List Nat) (sc T S : Scope) (q : List Nat),
    sc.sub? p = some T → T.sub? q = some S → s ∈ d S → t ∈ d T → Vis d sc s t
  | [], sc, T, S, q, hT, hS, hs, ht => by
    rw [sub?_nil] at hT; cases hT
    cases q with
    | nil => rw [sub?_nil] at hS; cases hS; exact .here hs ht
    | cons i q =>
      rw [sub?_cons] at hS
      split at hS
      · cases hS
      · next c hc => exact .inner (List.mem_of_getElem? hc) ht (mem_all_iff_sub q c S hS hs)
  | i :: p, sc, T, S, q, hT, hS, hs, ht => by
    rw [sub?_cons] at hT
    split at hT
    · cases hT
    · next c hc => exact .deeper (List.mem_of_getElem? hc) (vis_of_paths p c T S q hT hS hs ht)

theorem paths_of_vis {d : Scope → List Nat} {sc : Scope} {s t : Nat} (h : Vis d sc s t) :
    ∃ p q T S, sc.sub? p = some T ∧ T.sub? q = some S ∧ s ∈ d S ∧ t ∈ d T := by
  induction h with
  | @here sc s t hs ht => exact ⟨[], [], sc, sc, sub?_nil _, sub?_nil _, hs, ht⟩
  | @inner sc c s t hc ht hs =>
    obtain ⟨q, S, hq, hsS⟩ := sub_of_mem_all c hs
    obtain ⟨i, hi, hci⟩ := List.getElem_of_mem hc
    refine ⟨[], i :: q, sc, S, sub?_nil _, ?_, hsS, ht⟩
    rw [sub?_cons, List.getElem?_eq_getElem hi, hci]; exact hq
  | @deeper sc c s t hc _ ih =>
    obtain ⟨p, q, T, S, hT, hS, hs, ht⟩ := ih
    obtain ⟨i, hi, hci⟩ := List.getElem_of_mem hc
    refine ⟨i :: p, q, T, S, ?_, hS, hs, ht⟩
    rw [sub?_cons, List.getElem?_eq_getElem hi, hci]; exact hT

end EsbuildModel.Slots
