import EsbuildModel.Spec.MiniRegex
/-
The executable matcher of Spec/MiniRegex.lean against the denotational meaning:
`run_iff` (positions reachable = words in the meaning), `matchString_iff`.
-/
namespace EsbuildModel.Spec.MiniRegex

theorem dedup_cons (a : St) (l : List St) : dedup (a :: l) = if a ∈ dedup l then dedup l else a :: dedup l := rfl

theorem mem_dedup (x : St) (l : List St) : x ∈ dedup l ↔ x ∈ l := by
  induction l generalizing x with
  | nil => simp [dedup]
  | cons a l ih =>
    rw [dedup_cons]
    split
    · rename_i h
      rw [ih] at h
      rw [ih]
      constructor
      · intro hx; exact List.mem_cons_of_mem _ hx
      · intro hx
        rcases List.mem_cons.mp hx with rfl | hx
        · exact h
        · exact hx
    · simp only [List.mem_cons, ih]

/-- "`t` is reached from `(l, r)` by a word of meaning `D`" -/
def Reach (D : List Nat → List Nat → List Nat → Prop) (l r : List Nat) (t : St) : Prop :=
  ∃ w, r = w ++ t.2 ∧ t.1 = l ++ w ∧ D l w t.2

theorem mem_step1 (p : Nat → Bool) (l r : List Nat) (t : St) :
    t ∈ step1 p (l, r) ↔ ∃ c, p c = true ∧ r = c :: t.2 ∧ t.1 = l ++ [c] := by
  cases r with
  | nil => simp [step1]
  | cons c r =>
    simp only [step1]
    split
    · rename_i hp
      simp only [List.mem_singleton]
      constructor
      · rintro rfl; exact ⟨c, hp, rfl, rfl⟩
      · rintro ⟨c', _, h1, h2⟩
        injection h1 with h1 h1'
        subst h1 h1'
        cases t; simp_all
    · rename_i hp
      simp only [List.not_mem_nil, false_iff]
      rintro ⟨c', hp', h1, _⟩
      injection h1 with h1 _
      subst h1
      exact hp hp'

/-! ### the meaning of the atoms, in `Reach` form -/

theorem den_eps (l w r : List Nat) : Den .eps l w r ↔ w = [] := Iff.rfl
theorem den_chr (c : Nat) (l w r : List Nat) : Den (.chr c) l w r ↔ w = [c] := Iff.rfl
theorem den_dot (l w r : List Nat) : Den .dot l w r ↔ ∃ c, c ≠ 10 ∧ w = [c] := Iff.rfl
theorem den_notSlash (l w r : List Nat) : Den .notSlash l w r ↔ ∃ c, c ≠ 47 ∧ w = [c] := Iff.rfl
theorem den_bol (l w r : List Nat) : Den .bol l w r ↔ (l = [] ∧ w = []) := Iff.rfl
theorem den_eol (l w r : List Nat) : Den .eol l w r ↔ (r = [] ∧ w = []) := Iff.rfl
theorem den_seq (a b : Re) (l w r : List Nat) :
    Den (.seq a b) l w r ↔ ∃ w1 w2, w = w1 ++ w2 ∧ Den a l w1 (w2 ++ r) ∧ Den b (l ++ w1) w2 r := Iff.rfl
theorem den_alt (a b : Re) (l w r : List Nat) : Den (.alt a b) l w r ↔ (Den a l w r ∨ Den b l w r) := Iff.rfl
theorem den_star (a : Re) (l w r : List Nat) : Den (.star a) l w r ↔ ∃ n, Pow (Den a) n l w r := Iff.rfl

theorem pow_zero (D : List Nat → List Nat → List Nat → Prop) (l w r : List Nat) : Pow D 0 l w r ↔ w = [] := Iff.rfl
theorem pow_succ (D : List Nat → List Nat → List Nat → Prop) (n : Nat) (l w r : List Nat) :
    Pow D (n + 1) l w r ↔ ∃ w1 w2, w = w1 ++ w2 ∧ D l w1 (w2 ++ r) ∧ Pow D n (l ++ w1) w2 r := Iff.rfl

/-! ### the star loop -/

theorem starRun_zero (f : St → List St) (s : St) : starRun f 0 s = [s] := rfl
theorem starRun_succ (f : St → List St) (n : Nat) (s : St) :
    starRun f (n + 1) s = s :: ((f s).filter (fun t => decide (t.2.length < s.2.length))).flatMap (starRun f n) := rfl

theorem starRun_sound (f : St → List St) (D : List Nat → List Nat → List Nat → Prop)
    (hf : ∀ l r t, t ∈ f (l, r) → Reach D l r t) :
    ∀ fuel l r t, t ∈ starRun f fuel (l, r) → ∃ n, Reach (Pow D n) l r t := by
  intro fuel
  induction fuel with
  | zero =>
    intro l r t ht
    rw [starRun_zero, List.mem_singleton] at ht
    subst ht
    exact ⟨0, [], by simp, by simp, rfl⟩
  | succ k ih =>
    intro l r t ht
    rw [starRun_succ, List.mem_cons] at ht
    rcases ht with rfl | ht
    · exact ⟨0, [], by simp, by simp, rfl⟩
    · rw [List.mem_flatMap] at ht
      obtain ⟨u, hu, htu⟩ := ht
      rw [List.mem_filter] at hu
      obtain ⟨w1, hr1, hl1, hd1⟩ := hf l r u hu.1
      obtain ⟨n, w2, hr2, hl2, hd2⟩ := ih u.1 u.2 t htu
      refine ⟨n + 1, w1 ++ w2, ?_, ?_, ?_⟩
      · rw [hr1, hr2, List.append_assoc]
      · rw [hl2, hl1, List.append_assoc]
      · rw [pow_succ]
        refine ⟨w1, w2, rfl, ?_, ?_⟩
        · rw [← hr2]; exact hd1
        · rw [← hl1]; exact hd2

theorem starRun_complete (f : St → List St) (D : List Nat → List Nat → List Nat → Prop)
    (hf : ∀ l r t, Reach D l r t → t ∈ f (l, r)) :
    ∀ n fuel l w r, Pow D n l w r → w.length ≤ fuel → (l ++ w, r) ∈ starRun f fuel (l, w ++ r) := by
  intro n
  induction n with
  | zero =>
    intro fuel l w r hp _
    rw [pow_zero] at hp
    subst hp
    cases fuel with
    | zero => simp [starRun_zero]
    | succ k => simp [starRun_succ]
  | succ n ih =>
    intro fuel l w r hp hfuel
    rw [pow_succ] at hp
    obtain ⟨w1, w2, hw, hd, hp2⟩ := hp
    subst hw
    by_cases hw1 : w1 = []
    · subst hw1
      simp only [List.append_nil, List.nil_append] at hp2 ⊢
      exact ih fuel l w2 r hp2 (by simpa using hfuel)
    · have hlen : 0 < w1.length := List.length_pos_iff.mpr hw1
      cases fuel with
      | zero => simp only [List.length_append] at hfuel; omega
      | succ k =>
        rw [starRun_succ]
        refine List.mem_cons_of_mem _ ?_
        rw [List.mem_flatMap]
        refine ⟨(l ++ w1, w2 ++ r), ?_, ?_⟩
        · rw [List.mem_filter]
          refine ⟨hf l _ _ ⟨w1, by simp, rfl, hd⟩, ?_⟩
          simp only [List.length_append, decide_eq_true_eq]
          omega
        · have := ih k (l ++ w1) w2 r hp2 (by simp only [List.length_append] at hfuel; omega)
          simpa [List.append_assoc] using this

/-! ### `run` computes the meaning -/

theorem run_iff (re : Re) : ∀ l r t, t ∈ run re (l, r) ↔ Reach (Den re) l r t := by
  induction re with
  | eps =>
    intro l r t
    simp only [run, List.mem_singleton, Reach, den_eps]
    constructor
    · rintro rfl; exact ⟨[], by simp, by simp, rfl⟩
    · rintro ⟨w, h1, h2, rfl⟩
      cases t; simp_all
  | chr c =>
    intro l r t
    simp only [run, mem_step1, Reach, den_chr]
    constructor
    · rintro ⟨c', hc, h1, h2⟩
      have : c' = c := by simpa using hc
      subst this
      exact ⟨[c'], by simpa using h1, h2, rfl⟩
    · rintro ⟨w, h1, h2, rfl⟩
      exact ⟨c, by simp, by simpa using h1, h2⟩
  | dot =>
    intro l r t
    simp only [run, mem_step1, Reach, den_dot]
    constructor
    · rintro ⟨c', hc, h1, h2⟩
      exact ⟨[c'], by simpa using h1, h2, c', by simpa using hc, rfl⟩
    · rintro ⟨w, h1, h2, c, hc, rfl⟩
      exact ⟨c, by simpa using hc, by simpa using h1, h2⟩
  | notSlash =>
    intro l r t
    simp only [run, mem_step1, Reach, den_notSlash]
    constructor
    · rintro ⟨c', hc, h1, h2⟩
      exact ⟨[c'], by simpa using h1, h2, c', by simpa using hc, rfl⟩
    · rintro ⟨w, h1, h2, c, hc, rfl⟩
      exact ⟨c, by simpa using hc, by simpa using h1, h2⟩
  | bol =>
    intro l r t
    simp only [run, Reach, den_bol]
    constructor
    · intro h
      split at h
      · rename_i hl
        rw [List.mem_singleton] at h
        subst h
        exact ⟨[], by simp, by simp, by simpa using hl, rfl⟩
      · simp at h
    · rintro ⟨w, h1, h2, hl, rfl⟩
      subst hl
      cases t; simp_all
  | eol =>
    intro l r t
    simp only [run, Reach, den_eol]
    constructor
    · intro h
      split at h
      · rename_i hr
        rw [List.mem_singleton] at h
        subst h
        exact ⟨[], by simp, by simp, by simpa using hr, rfl⟩
      · simp at h
    · rintro ⟨w, h1, h2, hr, rfl⟩
      cases t; simp_all
  | seq a b iha ihb =>
    intro l r t
    simp only [run, mem_dedup, List.mem_flatMap, Reach, den_seq]
    constructor
    · rintro ⟨u, hu, ht⟩
      obtain ⟨w1, hr1, hl1, hd1⟩ := (iha l r u).mp hu
      obtain ⟨w2, hr2, hl2, hd2⟩ := (ihb u.1 u.2 t).mp ht
      refine ⟨w1 ++ w2, by rw [hr1, hr2, List.append_assoc], by rw [hl2, hl1, List.append_assoc], w1, w2, rfl, ?_, ?_⟩
      · rw [← hr2]; exact hd1
      · rw [← hl1]; exact hd2
    · rintro ⟨w, hr, hl, w1, w2, rfl, hd1, hd2⟩
      refine ⟨(l ++ w1, w2 ++ t.2), (iha l r _).mpr ⟨w1, by simpa using hr, rfl, hd1⟩, ?_⟩
      exact (ihb _ _ t).mpr ⟨w2, rfl, by simpa using hl, hd2⟩
  | alt a b iha ihb =>
    intro l r t
    simp only [run, mem_dedup, List.mem_append, Reach, den_alt]
    constructor
    · rintro (h | h)
      · obtain ⟨w, h1, h2, h3⟩ := (iha l r t).mp h
        exact ⟨w, h1, h2, Or.inl h3⟩
      · obtain ⟨w, h1, h2, h3⟩ := (ihb l r t).mp h
        exact ⟨w, h1, h2, Or.inr h3⟩
    · rintro ⟨w, h1, h2, h3 | h3⟩
      · exact Or.inl ((iha l r t).mpr ⟨w, h1, h2, h3⟩)
      · exact Or.inr ((ihb l r t).mpr ⟨w, h1, h2, h3⟩)
  | star a iha =>
    intro l r t
    simp only [run, mem_dedup]
    constructor
    · intro h
      obtain ⟨n, w, h1, h2, h3⟩ := starRun_sound (run a) (Den a) (fun l r t ht => (iha l r t).mp ht) _ l r t h
      exact ⟨w, h1, h2, n, h3⟩
    · rintro ⟨w, h1, h2, n, h3⟩
      have := starRun_complete (run a) (Den a) (fun l r t ht => (iha l r t).mpr ht) n r.length l w t.2 h3
        (by rw [h1]; simp)
      rw [← h1, ← h2] at this
      exact this

/-! ### the unanchored search -/

theorem mem_splits (l s : List Nat) (st : St) : st ∈ splits l s ↔ ∃ a b, s = a ++ b ∧ st = (l ++ a, b) := by
  induction s generalizing l with
  | nil =>
    simp only [splits, List.mem_singleton]
    constructor
    · rintro rfl; exact ⟨[], [], rfl, by simp⟩
    · rintro ⟨a, b, h, rfl⟩
      have h' := h.symm
      rw [List.append_eq_nil_iff] at h'
      obtain ⟨rfl, rfl⟩ := h'
      simp
  | cons c s ih =>
    simp only [splits, List.mem_cons, ih]
    constructor
    · rintro (rfl | ⟨a, b, rfl, rfl⟩)
      · exact ⟨[], c :: s, rfl, by simp⟩
      · exact ⟨c :: a, b, rfl, by simp⟩
    · rintro ⟨a, b, h, rfl⟩
      cases a with
      | nil => left; simp at h; subst h; simp
      | cons x a =>
        right
        simp only [List.cons_append, List.cons.injEq] at h
        obtain ⟨rfl, rfl⟩ := h
        exact ⟨a, b, rfl, by simp⟩

/-- the executable matcher decides the denotational meaning -/
theorem matchString_iff (re : Re) (s : List Nat) : matchString re s = true ↔ Matches re s := by
  unfold matchString Matches
  rw [List.any_eq_true]
  constructor
  · rintro ⟨st, hst, hne⟩
    rw [mem_splits] at hst
    obtain ⟨a, b, rfl, rfl⟩ := hst
    rw [List.nil_append] at hne
    cases hrun : run re (a, b) with
    | nil => simp [hrun] at hne
    | cons t ts =>
      have ht : t ∈ run re (a, b) := by rw [hrun]; simp
      obtain ⟨w, h1, _, h3⟩ := (run_iff re _ _ t).mp ht
      exact ⟨a, w, t.2, by rw [h1, List.append_assoc], by simpa using h3⟩
  · rintro ⟨l, w, r, rfl, hd⟩
    refine ⟨(l, w ++ r), ?_, ?_⟩
    · rw [mem_splits]; exact ⟨l, w ++ r, by simp, by simp⟩
    · have : (l ++ w, r) ∈ run re (l, w ++ r) := (run_iff re l (w ++ r) (l ++ w, r)).mpr ⟨w, rfl, rfl, hd⟩
      cases hrun : run re (l, w ++ r) with
      | nil => rw [hrun] at this; simp at this
      | cons t ts => simp

end EsbuildModel.Spec.MiniRegex
