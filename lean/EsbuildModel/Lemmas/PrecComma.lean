/-
Helper lemmas: comma chains. The printer never parenthesises a comma operand of a comma (`a, (b, c)` is printed
`a, b, c`), so the printed form of a tree and of its comma-normalised tree (`Expr.normComma`) are the same tokens.
-/
import EsbuildModel.Lemmas.PrecRoundTrip
namespace EsbuildModel.PrecPrint
open EsbuildModel.JsExpr

theorem appendComma_isComma (l r : Expr) : (appendComma l r).isComma = true := by
  fun_cases appendComma l r <;> simp [Expr.isComma]

theorem appendComma_wf (l : Expr) (hl : l.wellFormed = true) :
    ∀ r : Expr, r.wellFormed = true → (appendComma l r).wellFormed = true := by
  intro r
  fun_induction appendComma l r with
  | case1 r1 r2 ih =>
    intro h
    simp only [Expr.wellFormed, Bool.and_eq_true, BinOp.stratum] at h ⊢
    simp only [bne_iff_ne, ne_eq, Bool.or_eq_true, Bool.not_eq_eq_eq_not, Bool.not_true] at h ⊢
    refine ⟨⟨⟨ih h.1.1.1, h.1.1.2⟩, by simp⟩, h.2⟩
  | case2 r hne =>
    intro h
    have hc : r.isComma = false := by
      cases r with
      | binary op a b => cases op <;> simp_all [Expr.isComma]
      | _ => rfl
    simp [Expr.wellFormed, hl, h, hc, BinOp.stratum]

theorem simpleTarget_normComma (e : Expr) : e.normComma.simpleTarget = e.simpleTarget := by
  cases e with
  | binary op l r =>
    cases op <;> simp only [Expr.normComma, Expr.simpleTarget]
    fun_cases appendComma l.normComma r.normComma <;> rfl
  | _ => simp [Expr.normComma, Expr.simpleTarget]

theorem isComma_normComma (e : Expr) : e.normComma.isComma = e.isComma := by
  cases e with
  | binary op l r =>
    cases op <;> simp only [Expr.normComma, Expr.isComma]
    exact appendComma_isComma _ _
  | _ => simp [Expr.normComma, Expr.isComma]

mutual
theorem normComma_wf : (e : Expr) → e.targetsOk = true → e.normComma.wellFormed = true
  | .ident n, _ => rfl
  | .num n, _ => rfl
  | .unary op v, h => by
    simp only [Expr.targetsOk, Bool.and_eq_true] at h
    simp only [Expr.normComma, Expr.wellFormed, Bool.and_eq_true, normComma_wf v h.1, simpleTarget_normComma, h.2, and_self]
  | .binary op l r, h => by
    simp only [Expr.targetsOk, Bool.and_eq_true] at h
    have hl := normComma_wf l h.1.1
    have hr := normComma_wf r h.1.2
    by_cases hc : op = .comma
    · subst hc
      simp only [Expr.normComma]
      exact appendComma_wf _ hl _ hr
    · have e1 : (Expr.binary op l r).normComma = .binary op l.normComma r.normComma := by
        cases op <;> simp_all [Expr.normComma]
      have hs : (op.stratum == 1) = false := by cases op <;> simp_all [BinOp.stratum]
      rw [e1]
      simp only [Expr.wellFormed, hl, hr, simpleTarget_normComma, h.2, hs, Bool.false_and, Bool.not_false, Bool.and_self]
  | .cond t y n, h => by
    simp only [Expr.targetsOk, Bool.and_eq_true] at h
    simp only [Expr.normComma, Expr.wellFormed, normComma_wf t h.1.1, normComma_wf y h.1.2, normComma_wf n h.2, Bool.and_self]
  | .dot e n, h => by
    simp only [Expr.targetsOk] at h
    simp only [Expr.normComma, Expr.wellFormed, normComma_wf e h]
  | .index e i, h => by
    simp only [Expr.targetsOk, Bool.and_eq_true] at h
    simp only [Expr.normComma, Expr.wellFormed, normComma_wf e h.1, normComma_wf i h.2, Bool.and_self]
  | .call f as, h => by
    simp only [Expr.targetsOk, Bool.and_eq_true] at h
    simp only [Expr.normComma, Expr.wellFormed, normComma_wf f h.1, normCommaArgs_wf as h.2, Bool.and_self]
  | .new f as, h => by
    simp only [Expr.targetsOk, Bool.and_eq_true] at h
    simp only [Expr.normComma, Expr.wellFormed, normComma_wf f h.1, normCommaArgs_wf as h.2, Bool.and_self]
theorem normCommaArgs_wf : (as : Args) → as.targetsOk = true → as.normComma.wellFormed = true
  | .nil, _ => rfl
  | .cons a rest, h => by
    simp only [Args.targetsOk, Bool.and_eq_true] at h
    simp only [Args.normComma, Args.wellFormed, normComma_wf a h.1, normCommaArgs_wf rest h.2, Bool.and_self]
end

variable {m : Bool}

theorem print_comma (l r : Expr) (L : Nat) (fi nt : Bool) :
    print m (.binary .comma l r) L fi nt =
      paren (decide (L ≥ 1)) (print m l 0 (fi && !decide (L ≥ 1)) false ++
        .p .comma :: print m r 0 (fi && !decide (L ≥ 1)) false) := by
  rw [print_binary]
  simp [binWrap, leftLevel, rightLevel, BinOp.stratum, BinOp.assoc, BinOp.tok]

theorem print_appendComma (l : Expr) : ∀ (r : Expr) (L : Nat) (fi nt : Bool),
    print m (appendComma l r) L fi nt = print m (.binary .comma l r) L fi nt := by
  intro r
  fun_induction appendComma l r with
  | case1 r1 r2 ih =>
    intro L fi nt
    rw [print_comma, print_comma, ih, print_comma, print_comma]
    simp [paren]
  | case2 r hne => intro L fi nt; rfl

theorem isOrAndS_normComma (e : Expr) : isOrAndS e.normComma = isOrAndS e := by
  cases e with
  | binary op l r =>
    cases op <;> simp only [Expr.normComma, isOrAndS]
    fun_cases appendComma l.normComma r.normComma <;> rfl
  | _ => simp [Expr.normComma, isOrAndS]

theorem powLeftS_normComma (e : Expr) : powLeftS e.normComma = powLeftS e := by
  cases e with
  | binary op l r =>
    cases op <;> simp only [Expr.normComma, powLeftS]
    fun_cases appendComma l.normComma r.normComma <;> rfl
  | _ => simp [Expr.normComma, powLeftS]

theorem leftLevel_normComma (op : BinOp) (l : Expr) : leftLevel op l.normComma = leftLevel op l := by
  simp only [leftLevel, isOrAndS_normComma, powLeftS_normComma]

theorem rightLevel_normComma (op : BinOp) (r : Expr) : rightLevel op r.normComma = rightLevel op r := by
  simp only [rightLevel, isOrAndS_normComma]

mutual
theorem print_normComma : (e : Expr) → (L : Nat) → (fi nt : Bool) → print m e.normComma L fi nt = print m e L fi nt
  | .ident n, L, fi, nt => rfl
  | .num n, L, fi, nt => rfl
  | .unary op v, L, fi, nt => by
    simp only [Expr.normComma, print_unary, print_normComma v]
  | .binary op l r, L, fi, nt => by
    by_cases hc : op = .comma
    · subst hc
      simp only [Expr.normComma]
      rw [print_appendComma, print_comma, print_comma, print_normComma l, print_normComma r]
    · have e1 : (Expr.binary op l r).normComma = .binary op l.normComma r.normComma := by
        cases op <;> simp_all [Expr.normComma]
      rw [e1, print_binary, print_binary, leftLevel_normComma, rightLevel_normComma, print_normComma l, print_normComma r]
  | .cond t y n, L, fi, nt => by
    simp only [Expr.normComma, print_cond, print_normComma t, print_normComma y, print_normComma n]
  | .dot e n, L, fi, nt => by simp only [Expr.normComma, print_dot, print_normComma e]
  | .index e i, L, fi, nt => by simp only [Expr.normComma, print_index, print_normComma e, print_normComma i]
  | .call f as, L, fi, nt => by simp only [Expr.normComma, print_call, print_normComma f, printArgs_normComma as]
  | .new f as, L, fi, nt => by
    have hn : newParens m as.normComma L = newParens m as L := by cases as <;> rfl
    simp only [Expr.normComma, print_new, print_normComma f, printArgs_normComma as, hn]
theorem printArgs_normComma : (as : Args) → printArgs m as.normComma = printArgs m as
  | .nil => rfl
  | .cons a .nil => by simp only [Args.normComma, printArgs_one, print_normComma a]
  | .cons a (.cons b rest) => by
    have ih := printArgs_normComma (.cons b rest)
    simp only [Args.normComma] at ih ⊢
    rw [printArgs_cons, printArgs_cons, print_normComma a, ih]
end

/-- the round trip for every tree with proper targets: the parser gives the comma-normalised tree -/
theorem parse_print_norm_aux (e : Expr) (h : e.targetsOk = true) (level : Nat) (forbidIn : Bool) (inOk : Bool)
    (hio : inOk = false → forbidIn = true) : parse inOk (print m e level forbidIn false) = some e.normComma := by
  rw [← print_normComma e]
  exact parse_print_aux e.normComma (normComma_wf e h) level forbidIn inOk hio

theorem appendComma_of_not_comma (l r : Expr) (h : r.isComma = false) : appendComma l r = .binary .comma l r := by
  fun_cases appendComma l r
  · simp [Expr.isComma] at h
  · rfl

mutual
theorem normComma_id : (e : Expr) → e.wellFormed = true → e.normComma = e
  | .ident n, _ => rfl
  | .num n, _ => rfl
  | .unary op v, h => by
    simp only [Expr.wellFormed, Bool.and_eq_true] at h
    simp only [Expr.normComma, normComma_id v h.1]
  | .binary op l r, h => by
    simp only [Expr.wellFormed, Bool.and_eq_true, Bool.not_eq_eq_eq_not, Bool.not_true, Bool.and_eq_false_imp, beq_iff_eq] at h
    by_cases hc : op = .comma
    · subst hc
      simp only [Expr.normComma, normComma_id l h.1.1.1, normComma_id r h.1.1.2]
      exact appendComma_of_not_comma l r (h.2 rfl)
    · have e1 : (Expr.binary op l r).normComma = .binary op l.normComma r.normComma := by
        cases op <;> simp_all [Expr.normComma]
      rw [e1, normComma_id l h.1.1.1, normComma_id r h.1.1.2]
  | .cond t y n, h => by
    simp only [Expr.wellFormed, Bool.and_eq_true] at h
    simp only [Expr.normComma, normComma_id t h.1.1, normComma_id y h.1.2, normComma_id n h.2]
  | .dot e n, h => by
    simp only [Expr.wellFormed] at h
    simp only [Expr.normComma, normComma_id e h]
  | .index e i, h => by
    simp only [Expr.wellFormed, Bool.and_eq_true] at h
    simp only [Expr.normComma, normComma_id e h.1, normComma_id i h.2]
  | .call f as, h => by
    simp only [Expr.wellFormed, Bool.and_eq_true] at h
    simp only [Expr.normComma, normComma_id f h.1, normCommaArgs_id as h.2]
  | .new f as, h => by
    simp only [Expr.wellFormed, Bool.and_eq_true] at h
    simp only [Expr.normComma, normComma_id f h.1, normCommaArgs_id as h.2]
theorem normCommaArgs_id : (as : Args) → as.wellFormed = true → as.normComma = as
  | .nil, _ => rfl
  | .cons a rest, h => by
    simp only [Args.wellFormed, Bool.and_eq_true] at h
    simp only [Args.normComma, normComma_id a h.1, normCommaArgs_id rest h.2]
end

end EsbuildModel.PrecPrint
