import EsbuildModel.Impl.LineOffset
/-!
The binary search of `AddSourceMapping` over tables sorted by start offset: it never indexes out of range and
returns the number of tables that start at or before the location.  `lookupN` is the lookup for a non-negative
location in those terms.
-/
namespace EsbuildModel.LineOffset

/-- strictly increasing start offsets -/
def Sorted (ts : List Table) : Prop := ts.Pairwise (fun a b => a.start < b.start)

theorem Sorted.le {ts : List Table} (hs : Sorted ts) (i j : Nat) (hi : i < ts.length) (hj : j < ts.length)
    (hij : i ≤ j) : ts[i].start ≤ ts[j].start := by
  rcases Nat.lt_or_eq_of_le hij with h | h
  · exact Nat.le_of_lt ((List.pairwise_iff_getElem.mp hs) i j hi hj h)
  · subst h; exact Nat.le_refl _

/-- the loop invariant of the binary search -/
theorem search_spec (ts : List Table) (hs : Sorted ts) (loc : Int) (cnt : Nat) : ∀ lo, lo + cnt ≤ ts.length →
    (∀ j (h : j < ts.length), j < lo → (ts[j].start : Int) ≤ loc) →
    (∀ j (h : j < ts.length), lo + cnt ≤ j → loc < (ts[j].start : Int)) →
    ∃ r, search ts loc lo cnt = some r ∧ r ≤ ts.length ∧
      (∀ j (h : j < ts.length), j < r → (ts[j].start : Int) ≤ loc) ∧
      (∀ j (h : j < ts.length), r ≤ j → loc < (ts[j].start : Int)) := by
  induction cnt using Nat.strongRecOn with
  | _ cnt ih =>
    intro lo hlen hlo hhi
    rw [search]
    split
    · next h0 =>
      subst h0
      exact ⟨lo, rfl, by omega, hlo, fun j h hj => hhi j h (by omega)⟩
    · next h0 =>
      have hi : lo + cnt / 2 < ts.length := by omega
      simp only [List.getElem?_eq_getElem hi]
      split
      · next hle =>
        apply ih (cnt - cnt / 2 - 1) (by omega) (lo + cnt / 2 + 1) (by omega)
        · intro j h hj
          have := hs.le j (lo + cnt / 2) h hi (by omega)
          omega
        · intro j h hj
          exact hhi j h (by omega)
      · next hgt =>
        apply ih (cnt / 2) (by omega) lo (by omega) hlo
        intro j h hj
        have := hs.le (lo + cnt / 2) j hi h hj
        omega

theorem countP_partition (P : Table → Bool) (ts : List Table) : ∀ r, r ≤ ts.length →
    (∀ j (h : j < ts.length), j < r → P ts[j] = true) → (∀ j (h : j < ts.length), r ≤ j → P ts[j] = false) →
    ts.countP P = r := by
  induction ts with
  | nil => intro r hr _ _; simp at hr; simp [hr]
  | cons a t ih =>
    intro r hr h1 h2
    cases r with
    | zero =>
      rw [List.countP_eq_zero]
      intro x hx
      obtain ⟨j, hj, rfl⟩ := List.getElem_of_mem hx
      simp [h2 j hj (by omega)]
    | succ r =>
      have ha : P a = true := h1 0 (by simp) (by omega)
      rw [List.countP_cons_of_pos ha]
      congr 1
      apply ih r (by simpa using hr)
      · intro j hj hjr
        have := h1 (j + 1) (by simpa using hj) (by omega)
        simpa using this
      · intro j hj hjr
        have := h2 (j + 1) (by simpa using hj) (by omega)
        simpa using this

/-- the binary search never panics on sorted tables and counts the tables starting at or before `n` -/
theorem search_eq_countP (ts : List Table) (hs : Sorted ts) (n : Nat) :
    search ts (n : Int) 0 ts.length = some (ts.countP (fun t => decide (t.start ≤ n))) := by
  obtain ⟨r, hr, hlen, h1, h2⟩ := search_spec ts hs (n : Int) ts.length 0 (by omega)
    (fun j _ hj => absurd hj (by omega)) (fun j h hj => absurd hj (by omega))
  rw [hr]
  congr 1
  symm
  apply countP_partition _ ts r hlen
  · intro j hj hjr
    have := h1 j hj hjr
    simp only [decide_eq_true_eq]; omega
  · intro j hj hjr
    have := h2 j hj hjr
    simp only [decide_eq_false_iff_not]; omega

/-- a negative location finds no line: `originalLine` stays 0 and `lineOffsetTables[-1]` panics -/
theorem search_negative (ts : List Table) (hs : Sorted ts) (loc : Int) (hneg : loc < 0) :
    search ts loc 0 ts.length = some 0 := by
  obtain ⟨r, hr, hlen, h1, h2⟩ := search_spec ts hs loc ts.length 0 (by omega)
    (fun j _ hj => absurd hj (by omega)) (fun j h hj => absurd hj (by omega))
  rw [hr]
  congr 1
  cases r with
  | zero => rfl
  | succ r =>
    have := h1 0 (by omega) (by omega)
    omega

/-- column from one table, for a relative byte offset -/
def colOf (t : Table) (rel : Nat) : Option Nat :=
  match t.cols with
  | some cols => if rel ≥ t.first then cols[rel - t.first]? else some rel
  | none => some rel

/-- the lookup for a non-negative location, in terms of counting -/
def lookupN (ts : List Table) (n : Nat) : Option (Nat × Nat) :=
  let cnt := ts.countP (fun t => decide (t.start ≤ n))
  if cnt = 0 then none else
  match ts[cnt - 1]? with
  | none => none
  | some t => (colOf t (n - t.start)).map (fun c => (cnt - 1, c))

theorem lookup_eq_lookupN (ts : List Table) (hs : Sorted ts) (n : Nat) :
    lookup ts (n : Int) = (lookupN ts n).map (fun p => (p.1, (p.2 : Int))) := by
  unfold lookup lookupN
  rw [search_eq_countP ts hs n]
  simp only
  generalize hc : ts.countP (fun t => decide (t.start ≤ n)) = cnt
  cases cnt with
  | zero => rfl
  | succ l =>
    simp only [Nat.add_sub_cancel, Nat.add_one_ne_zero, if_false]
    cases ht : ts[l]? with
    | none => rfl
    | some t =>
      simp only
      -- the table found starts at or before `n`
      have hle : t.start ≤ n := by
        obtain ⟨hl, rfl⟩ := List.getElem?_eq_some_iff.mp ht
        obtain ⟨r, hr, hlen, h1, h2⟩ := search_spec ts hs (n : Int) ts.length 0 (by omega)
          (fun j _ hj => absurd hj (by omega)) (fun j h hj => absurd hj (by omega))
        rw [search_eq_countP ts hs n, hc] at hr
        have hr' : l + 1 = r := Option.some.inj hr
        have := h1 l hl (by omega)
        omega
      have hcast : (n : Int) - (t.start : Int) = ((n - t.start : Nat) : Int) := by omega
      unfold colOf
      cases hcols : t.cols with
      | none => simp only [Option.map_some, hcast]
      | some cols =>
        simp only
        by_cases hge : n - t.start ≥ t.first
        · have hge' : (n : Int) - (t.start : Int) ≥ (t.first : Int) := by omega
          have hidx : ((n : Int) - (t.start : Int) - (t.first : Int)).toNat = n - t.start - t.first := by omega
          rw [if_pos hge', if_pos hge, hidx]
          cases cols[n - t.start - t.first]? <;> rfl
        · have hge' : ¬ (n : Int) - (t.start : Int) ≥ (t.first : Int) := by omega
          rw [if_neg hge', if_neg hge]
          simp only [Option.map_some, hcast]

end EsbuildModel.LineOffset
