import EsbuildModel.Lemmas.JsonFuel
import EsbuildModel.Lemmas.JsonTotal1
/-
Errors never disappear from the log: every operation of the lexer and of the parser only adds messages.
-/
namespace EsbuildModel.Json

theorem commentError_le (fl : Flavor) (log : Log) (s : Nat) : log.le (commentError fl log s) := by
  simp only [commentError]
  split
  · exact Log.le_rangeError _ _
  · exact Log.le_refl _

theorem lineEnd_le (fl : Flavor) (log : Log) (cs : Option Nat) : log.le (lineEnd fl log cs) := by
  cases cs with
  | none => exact Log.le_refl _
  | some s => exact commentError_le fl log s

theorem skipSep_log_le (fl : Flavor) (m : SMode) (l : List Cp) (sk : Sk) :
    ∀ sk' l', skipSep fl m l sk = .ok (sk', l') → sk.log.le sk'.log := by
  fun_induction skipSep fl m l sk <;> intro sk' l' h
  all_goals first
    | (cases h; exact Log.le_refl _)
    | (cases h; exact lineEnd_le _ _ _)
    | (cases h; done)
    | (rename_i ih; exact ih sk' l' h)
    | (rename_i ih; exact Log.le_trans (Log.le_warn _ _) (ih sk' l' h))
    | (rename_i ih; exact Log.le_trans (lineEnd_le _ _ _) (ih sk' l' h))
    | (rename_i ih; exact Log.le_trans (commentError_le _ _ _) (ih sk' l' h))

theorem lexString_log_le (fl : Flavor) (L : Lx) (sk : Sk) (q : Cp) (r : List Cp) :
    ∀ L', lexString fl L sk q r = .ok L' → sk.log.le L'.log := by
  intro L' h
  unfold lexString at h
  split at h
  · cases h
  · cases h
  · simp only at h
    split at h <;> cases h <;> simp only [Lx.at] <;> split <;>
      first | exact Log.le_rangeError _ _ | exact Log.le_refl _

theorem lexNumber_log_le (fl : Flavor) (P : Params) (L : Lx) (sk : Sk) (src : List Cp) :
    ∀ L', lexNumber fl P L sk src = .ok L' → sk.log.le L'.log := by
  intro L' h
  unfold lexNumber at h
  split at h
  · split at h
    · cases h
    · cases h; exact Log.le_refl _
  all_goals first | (cases h; exact Log.le_refl _) | cases h

theorem idEscFinish_log_le (fl : Flavor) (P : Params) (L : Lx) (sk : Sk) (ip : Bool) (raw rest : List Cp) (e : Nat) :
    ∀ L', idEscFinish fl P L sk ip raw rest e = .ok L' → sk.log.le L'.log := by
  intro L' h
  unfold idEscFinish at h
  split at h
  · cases h
  · cases h
  · split at h
    · cases h
    · simp only at h
      split at h
      · cases h
      · cases h
        simp only [Lx.at]
        split
        · exact Log.le_refl _
        · exact Log.le_rangeError _ _

theorem idEsc_log_le (fl : Flavor) (P : Params) (L : Lx) (sk : Sk) (ip : Bool) (pre r : List Cp) :
    ∀ L', idEsc fl P L sk ip pre r = .ok L' → sk.log.le L'.log := by
  intro L' h
  unfold idEsc at h
  split at h
  · cases h
  · exact idEscFinish_log_le _ _ _ _ _ _ _ _ L' h

theorem lexIdent_log_le (fl : Flavor) (P : Params) (L : Lx) (sk : Sk) (ip : Bool) (pre r : List Cp) :
    ∀ L', lexIdent fl P L sk ip pre r = .ok L' → sk.log.le L'.log := by
  intro L' h
  unfold lexIdent at h
  simp only at h
  split at h
  · exact idEsc_log_le _ _ _ _ _ _ _ L' h
  · cases h; exact Log.le_refl _

end EsbuildModel.Json
