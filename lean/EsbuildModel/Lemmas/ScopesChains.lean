import EsbuildModel.Lemmas.ScopesWithPin
/-!
Link chains as lists: a chain that ends is duplicate-free, hence not longer than the symbol table (pigeonhole), and
"every chain ends" survives the link catch parameter → variable that hoistSymbols sets when a `var` is hoisted past a catch
scope.
-/
namespace EsbuildModel.Scopes

/-- consecutive symbols are linked, all are in the table -/
def Path (syms : Syms) : List Nat → Prop
  | [] => False
  | [x] => x < syms.length
  | x :: y :: r => x < syms.length ∧ linkOf syms x = some y ∧ Path syms (y :: r)

theorem Path.head_lt {syms : Syms} {x : Nat} {r : List Nat} (h : Path syms (x :: r)) : x < syms.length := by
  cases r with
  | nil => exact h
  | cons y r => exact h.1

/-- the last symbol of a nonempty chain -/
def lastOf : Nat → List Nat → Nat
  | x, [] => x
  | _, y :: r => lastOf y r

/-- ast.FollowSymbols ends in `t` iff there is a chain from `i` to an unlinked `t`, and the fuel covers it -/
theorem follow_of_path {syms : Syms} : ∀ (r : List Nat) (i : Nat), Path syms (i :: r) → linkOf syms (lastOf i r) = none →
    ∀ f, r.length + 1 ≤ f → follow f syms i = some (lastOf i r)
  | [], i, hp, hl, f, hf => by
    cases f with
    | zero => omega
    | succ f => rw [follow_unfold]; simp only [show i < syms.length from hp, if_true, lastOf] at hl ⊢; rw [hl]
  | y :: r, i, hp, hl, f, hf => by
    cases f with
    | zero => simp at hf
    | succ f =>
      rw [follow_unfold]
      simp only [hp.1, if_true, hp.2.1, lastOf]
      exact follow_of_path r y hp.2.2 hl f (by simp at hf; omega)

theorem path_of_follow {syms : Syms} : ∀ (f i t : Nat), follow f syms i = some t →
    ∃ r, Path syms (i :: r) ∧ lastOf i r = t ∧ linkOf syms t = none
  | 0, _, _, h => by simp [follow] at h
  | f + 1, i, t, h => by
    rw [follow_unfold] at h
    split at h
    · next hi =>
      cases hl : linkOf syms i with
      | none => rw [hl] at h; simp only [Option.some.injEq] at h; subst h; exact ⟨[], hi, rfl, hl⟩
      | some l =>
        rw [hl] at h
        obtain ⟨r, h1, h2, h3⟩ := path_of_follow f l t h
        exact ⟨l :: r, ⟨hi, hl, h1⟩, h2, h3⟩
    · cases h

/-- two chains from the same symbol to unlinked symbols are equal -/
theorem path_unique {syms : Syms} : ∀ (a b : List Nat) (x : Nat), Path syms (x :: a) → Path syms (x :: b) →
    linkOf syms (lastOf x a) = none → linkOf syms (lastOf x b) = none → a = b
  | [], [], _, _, _, _, _ => rfl
  | [], y :: b, x, _, hb, ha', _ => by simp only [lastOf] at ha'; rw [hb.2.1] at ha'; cases ha'
  | y :: a, [], x, ha, _, _, hb' => by simp only [lastOf] at hb'; rw [ha.2.1] at hb'; cases hb'
  | y :: a, z :: b, x, ha, hb, ha', hb' => by
    have : y = z := by have := ha.2.1; rw [hb.2.1] at this; cases this; rfl
    subst this
    rw [path_unique a b y ha.2.2 hb.2.2 ha' hb']

theorem path_suffix {syms : Syms} : ∀ (q1 : List Nat) (x y : Nat) (q2 : List Nat), Path syms (x :: (q1 ++ y :: q2)) →
    Path syms (y :: q2) ∧ lastOf x (q1 ++ y :: q2) = lastOf y q2
  | [], x, y, q2, h => ⟨h.2.2, rfl⟩
  | z :: q1, x, y, q2, h => by
    have := path_suffix q1 z y q2 h.2.2
    exact ⟨this.1, by simp only [List.cons_append, lastOf]; exact this.2⟩

/-- a chain that ends has no symbol twice -/
theorem path_nodup {syms : Syms} : ∀ (r : List Nat) (x : Nat), Path syms (x :: r) → linkOf syms (lastOf x r) = none →
    (x :: r).Nodup
  | [], x, _, _ => by simp
  | y :: r, x, hp, hl => by
    have ih := path_nodup r y hp.2.2 hl
    rw [List.nodup_cons]
    refine ⟨fun hx => ?_, ih⟩
    obtain ⟨q1, q2, e⟩ := List.append_of_mem hx
    -- x occurs again in the chain: the rest after that occurrence is a chain from x as well
    cases q1 with
    | nil =>
      simp only [List.nil_append, List.cons.injEq] at e
      obtain ⟨e1, e2⟩ := e
      subst e1; subst e2
      have hs := path_unique (y :: r) r y hp hp.2.2 hl hl
      have := congrArg List.length hs
      simp at this
    | cons z q1 =>
      simp only [List.cons_append, List.cons.injEq] at e
      obtain ⟨e1, e2⟩ := e
      subst e1; subst e2
      have hsuf := path_suffix q1 y x q2 hp.2.2
      have hl2 : linkOf syms (lastOf x q2) = none := by rw [← hsuf.2]; exact hl
      have hs := path_unique (y :: (q1 ++ x :: q2)) q2 x hp hsuf.1 hl hl2
      have := congrArg List.length hs
      simp at this
      omega

theorem path_all_lt {syms : Syms} : ∀ (r : List Nat) (x : Nat), Path syms (x :: r) → ∀ z, z ∈ x :: r → z < syms.length
  | [], x, h, z, hz => by simp at hz; rw [hz]; exact h
  | y :: r, x, h, z, hz => by
    simp only [List.mem_cons] at hz
    rcases hz with hz | hz
    · rw [hz]; exact h.1
    · exact path_all_lt r y h.2.2 z (by simpa using hz)

/-- pigeonhole: a duplicate-free list of numbers below `n` is not longer than `n` -/
theorem nodup_length_le : ∀ (n : Nat) (l : List Nat), l.Nodup → (∀ x, x ∈ l → x < n) → l.length ≤ n
  | 0, l, _, h => by
    cases l with
    | nil => simp
    | cons x _ => exact absurd (h x (by simp)) (Nat.not_lt_zero _)
  | n + 1, l, hn, h => by
    by_cases hm : n ∈ l
    · have h1 := nodup_length_le n (l.erase n) (hn.erase n) (fun x hx => by
        have hx' := List.mem_of_mem_erase hx
        have hne : x ≠ n := fun e => by subst e; exact (List.Nodup.not_mem_erase hn) hx
        have := h x hx'; omega)
      rw [List.length_erase_of_mem hm] at h1
      have : 1 ≤ l.length := List.length_pos_of_mem hm
      omega
    · have := nodup_length_le n l hn (fun x hx => by
        have := h x hx
        have hne : x ≠ n := fun e => hm (e ▸ hx)
        omega)
      omega

/-- every chain that ends is covered by the fuel of ast.FollowSymbols -/
theorem followSym_of_path {syms : Syms} (r : List Nat) (i : Nat) (hp : Path syms (i :: r))
    (hl : linkOf syms (lastOf i r) = none) : followSym syms i = some (lastOf i r) := by
  have hlen : (i :: r).length ≤ syms.length :=
    nodup_length_le _ _ (path_nodup r i hp hl) (path_all_lt r i hp)
  exact follow_of_path r i hp hl _ (by simp at hlen; omega)

/-- the chains of a table in which the unlinked symbol `mref` becomes the link of `ex` -/
theorem repath {a : Syms} {ex mref : Nat} (hne : ex ≠ mref) (hm : mref < a.length) (hlm : linkOf a mref = none)
    (hex : ex < a.length) : ∀ (r : List Nat) (x : Nat), Path a (x :: r) → linkOf a (lastOf x r) = none →
    ∃ r', Path (setLink a ex (some mref)) (x :: r') ∧ linkOf (setLink a ex (some mref)) (lastOf x r') = none := by
  have hmend : linkOf (setLink a ex (some mref)) mref = none := by rw [linkOf_setLink_other _ _ _ _ hne]; exact hlm
  have hexl : linkOf (setLink a ex (some mref)) ex = some mref := linkOf_setLink_self _ _ _ hex
  have hatex : ∃ r', Path (setLink a ex (some mref)) (ex :: r') ∧ linkOf (setLink a ex (some mref)) (lastOf ex r') = none :=
    ⟨[mref], ⟨by simpa using hex, hexl, by simpa [Path] using hm⟩, hmend⟩
  intro r
  induction r with
  | nil =>
    intro x hp hl
    by_cases hx : x = ex
    · subst hx; exact hatex
    · exact ⟨[], by simpa [Path] using hp, by
        simp only [lastOf] at hl ⊢
        rw [linkOf_setLink_other _ _ _ _ (fun e => hx e.symm)]; exact hl⟩
  | cons y r ih =>
    intro x hp hl
    by_cases hx : x = ex
    · subst hx; exact hatex
    · obtain ⟨r', h1, h2⟩ := ih y hp.2.2 hl
      refine ⟨y :: r', ⟨by simpa using hp.1, ?_, h1⟩, h2⟩
      rw [linkOf_setLink_other _ _ _ _ (fun e => hx e.symm)]; exact hp.2.1

theorem ChainsEnd.setLink {a : Syms} (h : ChainsEnd a) {ex mref : Nat} (hne : ex ≠ mref) (hm : mref < a.length)
    (hlm : linkOf a mref = none) (hex : ex < a.length) : ChainsEnd (setLink a ex (some mref)) := by
  intro i hi
  obtain ⟨t, ht⟩ := h i (by simpa using hi)
  obtain ⟨r, h1, h2, h3⟩ := path_of_follow _ _ _ ht
  obtain ⟨r', h4, h5⟩ := repath hne hm hlm hex r i h1 (by rw [h2]; exact h3)
  exact ⟨_, followSym_of_path r' i h4 h5⟩

/-- the walk of hoistSymbols for a symbol that must not be renamed: afterwards every symbol on its link chain must not be
renamed (also when the walk passes a catch parameter or the implicit `arguments` of the same name) -/
theorem hoistUp_pinned_chain' (name : Name) (mref orig : Nat) (sl : Bool) :
    ∀ (first : Bool) (anc : List Frame) (st : HSt) (anc' : List Frame) (st' : HSt),
    hoistUp name mref orig sl first anc st = some (anc', st') →
    isPinned st.syms mref = true → linkOf st.syms mref = none →
    (∀ X, X ∈ anc → ∀ x, lookup name X.members = some x → x ≠ mref) → ChainsEnd st.syms →
    ChainPinned st'.syms mref
  | _, [], _, _, _, h, _, _, _, _ => by simp [hoistUp] at h
  | first, s :: rest, st, anc', st', h, hp, hl, hfr, hce => by
    simp only [hoistUp] at h
    have hcont : ∀ (s0 : Frame) (st0 : HSt), isPinned st0.syms mref = true → linkOf st0.syms mref = none →
        ChainsEnd st0.syms →
        (if s0.kind.stopsHoisting = true then some ({ s0 with members := insert name mref s0.members } :: rest, st0)
          else match hoistUp name mref orig sl false rest st0 with
            | none => none
            | some (rest', st') => some (s0 :: rest', st')) = some (anc', st') →
        ChainPinned st'.syms mref := by
      intro s0 st0 hp0 hl0 hce0 h
      split at h
      · cases h; exact chainPinned_of_unlinked hl0 hp0
      · split at h
        · cases h
        · next rest' st1 hr =>
          cases h
          exact hoistUp_pinned_chain' name mref orig sl false rest st0 rest' st' hr hp0 hl0
            (fun X hX => hfr X (by simp [hX])) hce0
    have hst1 : isPinned (if s.kind = ScK.with_ then { st with syms := pin st.syms mref } else st).syms mref = true ∧
        linkOf (if s.kind = ScK.with_ then { st with syms := pin st.syms mref } else st).syms mref = none ∧
        ChainsEnd (if s.kind = ScK.with_ then { st with syms := pin st.syms mref } else st).syms := by
      split
      · exact ⟨isPinned_pin_mono hp, by simp only [linkOf_pin]; exact hl, hce.pin _⟩
      · exact ⟨hp, hl, hce⟩
    generalize (if s.kind = ScK.with_ then { st with syms := pin st.syms mref } else st) = st1 at h hst1
    obtain ⟨hp1, hl1, hce1⟩ := hst1
    have hunl : ChainPinned st1.syms mref := chainPinned_of_unlinked hl1 hp1
    split at h
    · exact hcont s _ hp1 hl1 hce1 h
    · next ex hex =>
      have hne : ex ≠ mref := hfr s (by simp) ex hex
      split at h
      · next ek blocked mk hek _ _ =>
        have hexlt := kindOf_lt hek
        split at h
        · cases h; exact hunl
        · split at h
          · cases h
            simp only [hp1, if_true]
            obtain ⟨t, ht⟩ := hce1 ex hexlt
            have hcp := pinLinks_chain _ _ _ _ ht
            intro x hx
            rw [isPinned_setLink]
            rcases onChain_setLink hx with h1 | h1
            · cases h1 with
              | refl => exact pinKept_pinLinks _ _ _ _ hp1
              | step h2 _ => rw [linkOf_pinLinks, hl1] at h2; cases h2
            · exact hcp x h1
          · split at h
            · split at h
              · split at h
                · cases h; exact hunl
                · split at h <;> cases h <;> exact hunl
              · cases h; exact hunl
            · -- a catch parameter or `arguments`: it is linked to the variable, the walk goes on
              have hmlt := isPinned_lt hp1
              refine hcont { s with members := insert name mref s.members } _ ?_ ?_ ?_ h
              · simp only [isPinned_setLink]; split
                · exact isPinned_pin_mono hp1
                · exact hp1
              · simp only
                rw [linkOf_setLink_other _ _ _ _ hne]
                split
                · simp only [linkOf_pin]; exact hl1
                · exact hl1
              · simp only
                split
                · exact (hce1.pin mref).setLink hne (by simpa using hmlt) (by simp only [linkOf_pin]; exact hl1)
                    (by simpa using hexlt)
                · exact hce1.setLink hne hmlt hl1 hexlt
      · cases h

theorem hoistUp_past_with_chain' (name : Name) (mref orig : Nat) (sl : Bool) : ∀ (pre : List Frame) (first : Bool) (s : Frame)
    (post : List Frame) (st : HSt) (anc' : List Frame) (st' : HSt),
    hoistUp name mref orig sl first (pre ++ s :: post) st = some (anc', st') → s.kind = .with_ → LetsThrough name pre →
    mref < st.syms.length → linkOf st.syms mref = none →
    (∀ X, X ∈ pre ++ s :: post → ∀ x, lookup name X.members = some x → x ≠ mref) → ChainsEnd st.syms →
    ChainPinned st'.syms mref
  | [], first, s, post, st, anc', st', h, hw, _, hm, hl, hfr, hce => by
    rw [List.nil_append, hoistUp_with_head _ _ _ _ _ _ _ _ hw] at h
    exact hoistUp_pinned_chain' name mref orig sl first _ _ _ _ h (isPinned_pin_self hm) (by simp only [linkOf_pin]; exact hl)
      (by simpa using hfr) (hce.pin mref)
  | X :: pre, first, s, post, st, anc', st', h, hw, hlt, hm, hl, hfr, hce => by
    obtain ⟨hx1, hx2⟩ := hlt X (by simp)
    simp only [List.cons_append, hoistUp, hx2, hx1, Bool.false_eq_true, if_false] at h
    split at h
    · cases h
    · next rest' st1 hr =>
      cases h
      refine hoistUp_past_with_chain' name mref orig sl pre false s post _ rest' st' hr hw (fun Y hY => hlt Y (by simp [hY]))
        ?_ ?_ (fun Y hY => hfr Y (by simp only [List.cons_append, List.mem_cons]; exact Or.inr hY)) ?_
      · split <;> simp [hm]
      · split
        · simp only [linkOf_pin]; exact hl
        · exact hl
      · split
        · exact hce.pin mref
        · exact hce

theorem hoistMember_with_body_chain' {anc anc' : List Frame} {f f' : Frame} {st st' : HSt} {mref : Nat} {sym : Sym}
    (h : hoistMember anc f st mref = some (anc', f', st')) (hw : f.kind = .with_) (hs : st.syms[mref]? = some sym)
    (hk : sym.kind = .hoisted) (hl : linkOf st.syms mref = none)
    (hfr : ∀ X, X ∈ anc → ∀ x, lookup sym.name X.members = some x → x ≠ mref) (hce : ChainsEnd st.syms) :
    ChainPinned st'.syms mref := by
  have hm : mref < st.syms.length := by
    rcases Nat.lt_or_ge mref st.syms.length with h1 | h1
    · exact h1
    · rw [List.getElem?_eq_none h1] at hs; cases hs
  unfold hoistMember at h
  rw [hs] at h
  cases anc with
  | nil => simp at h
  | cons p rest =>
    simp only [hk, ne_eq, not_true_eq_false, false_and, and_false, if_false, SK.isHoisted, beq_self_eq_true, Bool.true_or,
      Bool.not_true, Bool.false_eq_true, reduceCtorEq, pinIfWith, hw, if_true] at h
    split at h
    · cases h
    · next a1 s1 hu =>
      cases h
      exact hoistUp_pinned_chain' _ _ _ _ _ _ _ _ _ hu (isPinned_pin_self hm) (by simp only [linkOf_pin]; exact hl) hfr
        (hce.pin mref)

end EsbuildModel.Scopes
