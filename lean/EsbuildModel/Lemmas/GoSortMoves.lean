import EsbuildModel.Lemmas.GoSortView
/-!
`sort.Stable`, part 2b: what `swapRange`, `rotate` and the two single-element insertion loops of `symMerge` do to the
array, as explicit index maps.
-/
namespace EsbuildModel.GoSort
set_option linter.unusedSectionVars false
variable {α : Type} [Inhabited α]

/-- case analysis on index ranges: split every `if`, close impossible cases and index equalities with `omega` -/
macro "idx" : tactic =>
  `(tactic| (repeat' split) <;> (first | omega | rfl | (congr 1 <;> omega) | simp_all))

/-- exchange of the blocks `[a+lo, a+hi)` and `[b+lo, b+hi)` -/
def exchF (f : Nat → α) (a b lo hi : Nat) : Nat → α := fun k =>
  if a + lo ≤ k ∧ k < a + hi then f (k - a + b)
  else if b + lo ≤ k ∧ k < b + hi then f (k - b + a)
  else f k

theorem swapRange_view (a b : Nat) : ∀ (cnt i : Nat) (d : Array α), a + (i + cnt) ≤ b → b + i + cnt ≤ d.size →
    ∃ d', swapRange d a b i cnt = some d' ∧ d'.size = d.size ∧ view d' = exchF (view d) a b i (i + cnt) := by
  intro cnt
  induction cnt with
  | zero =>
    intro i d _ _
    refine ⟨d, rfl, rfl, ?_⟩
    funext k
    simp only [exchF, Nat.add_zero]
    have h1 : ¬ (a + i ≤ k ∧ k < a + i) := by omega
    have h2 : ¬ (b + i ≤ k ∧ k < b + i) := by omega
    simp [h1, h2]
  | succ cnt ih =>
    intro i d hab hb
    unfold swapRange
    obtain ⟨d1, h1, hs1, hv1⟩ := swap?_view d (a + i) (b + i) (by omega) (by omega)
    simp only [h1]
    obtain ⟨d', h2, hs2, hv2⟩ := ih (i + 1) d1 (by omega) (by omega)
    refine ⟨d', h2, by omega, ?_⟩
    rw [hv2, hv1]
    funext k
    simp only [exchF, swapF]
    idx

/-- `x u v y ↦ x v u y` with `u = [a, m)`, `v = [m, b)` -/
def rotF (f : Nat → α) (a m b : Nat) : Nat → α := fun k =>
  if a ≤ k ∧ k < a + (b - m) then f (k + (m - a))
  else if a + (b - m) ≤ k ∧ k < b then f (k - (b - m))
  else f k

theorem rotateLoop_view (m : Nat) : ∀ (fuel i j : Nat) (d : Array α), 1 ≤ i → 1 ≤ j → i ≤ m → m + j ≤ d.size →
    i + j ≤ fuel →
    ∃ d', rotateLoop m fuel i j d = some d' ∧ d'.size = d.size ∧ view d' = rotF (view d) (m - i) m (m + j) := by
  intro fuel
  induction fuel with
  | zero => intro i j d hi hj _ _ h; omega
  | succ fuel ih =>
    intro i j d hi hj him hmj hf
    unfold rotateLoop
    by_cases hne : i ≠ j
    · rw [if_pos hne]
      by_cases hgt : i > j
      · simp only [hgt, if_true]
        rw [sub?_some m i him]
        simp only
        obtain ⟨d1, h1, hs1, hv1⟩ := swapRange_view (m - i) m j 0 d (by omega) (by omega)
        rw [h1]
        simp only
        obtain ⟨d', h2, hs2, hv2⟩ := ih (i - j) j d1 (by omega) hj (by omega) (by omega) (by omega)
        refine ⟨d', h2, by omega, ?_⟩
        rw [hv2, hv1]
        funext k
        simp only [rotF, exchF, Nat.zero_add, Nat.add_zero]
        have e0 : m + j - m = j := by omega
        have e1 : m - (m - (i - j)) = i - j := by omega
        have e2 : m - (m - i) = i := by omega
        rw [e0, e1, e2]
        idx
      · simp only [hgt, if_false]
        rw [sub?_some m i him, sub?_some (m + j) i (by omega)]
        simp only
        obtain ⟨d1, h1, hs1, hv1⟩ := swapRange_view (m - i) (m + j - i) i 0 d (by omega) (by omega)
        rw [h1]
        simp only
        obtain ⟨d', h2, hs2, hv2⟩ := ih i (j - i) d1 hi (by omega) him (by omega) (by omega)
        refine ⟨d', h2, by omega, ?_⟩
        rw [hv2, hv1]
        funext k
        simp only [rotF, exchF, Nat.zero_add, Nat.add_zero]
        idx
    · rw [if_neg hne]
      have hij : i = j := by omega
      subst hij
      rw [sub?_some m i him]
      simp only
      obtain ⟨d1, h1, hs1, hv1⟩ := swapRange_view (m - i) m i 0 d (by omega) (by omega)
      refine ⟨d1, h1, hs1, ?_⟩
      rw [hv1]
      funext k
      simp only [rotF, exchF, Nat.zero_add, Nat.add_zero]
      idx

theorem rotate_view (d : Array α) (a m b : Nat) (ham : a < m) (hmb : m < b) (hb : b ≤ d.size) :
    ∃ d', rotate d a m b = some d' ∧ d'.size = d.size ∧ view d' = rotF (view d) a m b := by
  unfold rotate
  rw [sub?_some m a (by omega), sub?_some b m (by omega)]
  simp only
  obtain ⟨d', h1, h2, h3⟩ := rotateLoop_view m (m - a + (b - m) + 1) (m - a) (b - m) d (by omega) (by omega) (by omega)
    (by omega) (by omega)
  refine ⟨d', h1, h2, ?_⟩
  rw [h3]
  have e1 : m - (m - a) = a := by omega
  have e2 : m + (b - m) = b := by omega
  rw [e1, e2]

/-- `for k := a; k < i-1; k++ { Swap(k, k+1) }`: the element at `k` travels up by `cnt`, the ones it passes move down -/
def upF (f : Nat → α) (k cnt : Nat) : Nat → α := fun x =>
  if k ≤ x ∧ x < k + cnt then f (x + 1) else if x = k + cnt then f k else f x

theorem bubbleUp_view : ∀ (cnt k : Nat) (d : Array α), k + cnt < d.size →
    ∃ d', bubbleUp d k cnt = some d' ∧ d'.size = d.size ∧ view d' = upF (view d) k cnt := by
  intro cnt
  induction cnt with
  | zero =>
    intro k d _
    refine ⟨d, rfl, rfl, ?_⟩
    funext x
    simp only [upF]
    idx
  | succ cnt ih =>
    intro k d h
    unfold bubbleUp
    obtain ⟨d1, h1, hs1, hv1⟩ := swap?_view d k (k + 1) (by omega) (by omega)
    simp only [h1]
    obtain ⟨d', h2, hs2, hv2⟩ := ih (k + 1) d1 (by omega)
    refine ⟨d', h2, by omega, ?_⟩
    rw [hv2, hv1]
    funext x
    simp only [upF, swapF]
    idx

/-- `for k := m; k > i; k-- { Swap(k, k-1) }`: the element at `k` travels down by `cnt` -/
def downF (f : Nat → α) (k cnt : Nat) : Nat → α := fun x =>
  if k - cnt < x ∧ x ≤ k then f (x - 1) else if x = k - cnt then f k else f x

theorem bubbleDown_view : ∀ (cnt k : Nat) (d : Array α), k < d.size → cnt ≤ k →
    ∃ d', bubbleDown d k cnt = some d' ∧ d'.size = d.size ∧ view d' = downF (view d) k cnt := by
  intro cnt
  induction cnt with
  | zero =>
    intro k d _ _
    refine ⟨d, rfl, rfl, ?_⟩
    funext x
    simp only [downF]
    idx
  | succ cnt ih =>
    intro k d h hc
    unfold bubbleDown
    rw [sub?_some k 1 (by omega)]
    simp only
    obtain ⟨d1, h1, hs1, hv1⟩ := swap?_view d k (k - 1) (by omega) (by omega)
    simp only [h1]
    obtain ⟨d', h2, hs2, hv2⟩ := ih (k - 1) d1 (by omega) (by omega)
    refine ⟨d', h2, by omega, ?_⟩
    rw [hv2, hv1]
    funext x
    simp only [downF, swapF]
    idx

end EsbuildModel.GoSort
