import EsbuildModel.Lemmas.CssSpecSim3
/-!
Simulation model ↔ specification, part 4: strings (§4.3.5) with the readings `eofStringIsBad` and
`stringHexEscapeKeepsNewline`.
-/
namespace EsbuildModel.CssLex
open EsbuildModel.Spec
open EsbuildModel.Spec.Unicode (IsScalar)

/-- the state after a hex escape inside a string as esbuild's `consumeString` sees it: a newline is not part of it -/
def strEscRest (h : Nat) (u : List Ch) : List Ch :=
  if headIs isNewline (hexLoop 5 h u).2 then (hexLoop 5 h u).2 else skipOneWs (hexLoop 5 h u).2

/-- the value of the string whose body starts at `s` (meaningful when the string is terminated): the code points the
specification appends, computed along the model's `stringLoop` -/
def strVal (quote : Nat) (s : List Ch) : List Nat :=
  match s with
  | [] => []
  | c :: t =>
    if c.cp == 92 then
      match t with
      | [] => []
      | d :: u =>
        if d.cp == 13 then
          match u with
          | [] => []
          | e :: v => if e.cp == 10 then strVal quote v else strVal quote (e :: v)
        else if isNewline d.cp then strVal quote u
        else
          match isHex d.cp with
          | none => d.cp :: strVal quote u
          | some h => fixHex (hexLoop 5 h u).1 :: strVal quote (strEscRest h u)
    else if isNewline c.cp then []
    else if c.cp == quote then []
    else c.cp :: strVal quote t
termination_by s.length
decreasing_by
  all_goals simp only [List.length_cons]
  all_goals try omega
  have h1 := hexLoop_length 5 h u
  have h2 := skipOneWs_length (hexLoop 5 h u).2
  unfold strEscRest; split <;> omega

theorem stringLoop_ordinary (quote : Nat) (c : Ch) (t : List Ch) (h1 : c.cp ≠ 92) (h2 : isNewline c.cp = false)
    (h3 : c.cp ≠ quote) : stringLoop quote (c :: t) = stringLoop quote t := by
  rw [stringLoop.eq_def]; simp [h1, h2, h3]

theorem isHex_ordinary (c d quote : Nat) (h : isHex c = some d) (hq : quote = 34 ∨ quote = 39) :
    c ≠ 92 ∧ isNewline c = false ∧ c ≠ quote := by
  unfold isHex at h
  unfold isNewline
  simp only [Bool.or_eq_false_iff, beq_eq_false_iff_ne, ne_eq]
  split at h
  · omega
  · split at h
    · omega
    · split at h
      · omega
      · simp at h

/-- esbuild's `consumeString` passes over the rest of a hex escape rune by rune and arrives where the escape ends
(in front of a newline, if that is what follows the digits) -/
theorem stringLoop_hexTake (quote : Nat) (hq : quote = 34 ∨ quote = 39) (k : Nat) (u m : List Ch) :
    stringLoop quote (hexTake k u ++ m) = stringLoop quote m := by
  induction k generalizing u with
  | zero => simp [hexTake]
  | succ k ih =>
    cases u with
    | nil => simp [hexTake]
    | cons c t =>
      simp only [hexTake]
      cases hh : isHex c.cp with
      | none => simp
      | some d =>
        obtain ⟨h1, h2, h3⟩ := isHex_ordinary c.cp d quote hh hq
        simp only [List.cons_append]
        rw [stringLoop_ordinary quote c _ h1 h2 h3]
        exact ih t

theorem stringLoop_strEscRest (quote : Nat) (hq : quote = 34 ∨ quote = 39) (h : Nat) (u : List Ch) :
    stringLoop quote u = stringLoop quote (strEscRest h u) := by
  have hsplit := hexTake_append 5 h u
  conv => lhs; rw [← hsplit]
  rw [stringLoop_hexTake quote hq]
  unfold strEscRest
  split
  · rfl
  · next hnl =>
    cases hr : (hexLoop 5 h u).2 with
    | nil => rfl
    | cons w x =>
      rw [hr] at hnl
      simp only [headIs] at hnl
      simp only [skipOneWs]
      split
      · next hw =>
        have : w.cp ≠ 92 ∧ w.cp ≠ quote := by
          unfold isWhitespace at hw
          simp only [Bool.or_eq_true, beq_iff_eq] at hw
          omega
        exact stringLoop_ordinary quote w x this.1 (by simpa using hnl) this.2
      · rfl

theorem strEscRest_suffix (h : Nat) (u : List Ch) : strEscRest h u <:+ u := by
  unfold strEscRest; split
  · exact hexLoop_suffix 5 h u
  · exact (skipOneWs_suffix _).trans (hexLoop_suffix 5 h u)

theorem ppc_13 : ppc 13 = 10 := by decide
theorem ppc_10 : ppc 10 = 10 := by decide

theorem quote_facts (quote : Nat) (hq : quote = 34 ∨ quote = 39) :
    quote ≠ 13 ∧ quote ≠ 92 ∧ isNewline quote = false ∧ ppc quote = quote := by
  rcases hq with rfl | rfl <;> decide

/-- S9: §4.3.5 "consume a string token" (readings `eofStringIsBad`, `stringHexEscapeKeepsNewline`) along the model's
`stringLoop` -/
theorem sim_stringLoop (q : CssSyntax.Quirks) (hq1 : q.eofStringIsBad = true) (hq2 : q.stringHexEscapeKeepsNewline = true)
    (quote : Nat) (hq : quote = 34 ∨ quote = 39) (s : List Ch) (ht : Tame s) (acc : List Nat) :
    CssSyntax.stringLoop q quote acc (ppS s) =
      (if (stringLoop quote s).1 = .TString then .string (acc.reverse ++ strVal quote s) else .badString,
       ppS (stringLoop quote s).2) := by
  obtain ⟨hqcr, hq92, hqnl, hqpp⟩ := quote_facts quote hq
  fun_induction strVal quote s generalizing acc with
  | case1 => rw [stringLoop.eq_def]; simp [ppS_nil, CssSyntax.stringLoop, hq1]
  | case2 c hc =>
    simp only [beq_iff_eq] at hc
    rw [stringLoop.eq_def, ht.cons (crlfAt_of_ne_cr c _ (by omega)), (ppc_eq_92 _).2 hc, ppS_nil]
    have : (92 : Nat) ≠ quote := fun h => hq92 h.symm
    simp [hc, CssSyntax.stringLoop, this, CssSyntax.isNewline, hq1, ppS_nil]
  | case3 c hc d hd =>
    simp only [beq_iff_eq] at hc hd
    rw [stringLoop.eq_def, ht.cons (crlfAt_of_ne_cr c _ (by omega)), (ppc_eq_92 _).2 hc]
    have hdcr : crlfAt d [] = false := by simp [crlfAt, headIs]
    rw [ht.tail.cons hdcr, ppS_nil]
    have : (92 : Nat) ≠ quote := fun h => hq92 h.symm
    have hp : ppc d.cp = 10 := by simp [ppc, hd]
    simp [hc, hd, CssSyntax.stringLoop, this, CssSyntax.isNewline, hq1, ppc_13, ppS_nil]
  | case4 c hc d hd e v he ih =>
    simp only [beq_iff_eq] at hc hd he
    have hcrlf : crlfAt d (e :: v) = true := by simp [crlfAt, headIs, hd, he]
    have hecr : crlfAt e v = false := crlfAt_of_ne_cr e v (by omega)
    rw [stringLoop.eq_def, ht.cons (crlfAt_of_ne_cr c _ (by omega)), (ppc_eq_92 _).2 hc, ppS_crlf d _ hcrlf,
      ht.tail.tail.cons hecr]
    have : (92 : Nat) ≠ quote := fun h => hq92 h.symm
    have hp : ppc e.cp = 10 := by simp [ppc, he]
    rw [CssSyntax.stringLoop.eq_def]
    simp only [this, if_false, CssSyntax.isNewline, hp, beq_self_eq_true, if_true, hc, hd, he]
    simp only [show ((92 : Nat) == 10) = false from rfl, Bool.false_eq_true, if_false]
    exact ih ht.tail.tail.tail acc
  | case5 c hc d hd e v he ih =>
    simp only [beq_iff_eq] at hc hd he
    have hdcr : crlfAt d (e :: v) = false := by simp [crlfAt, headIs, he]
    rw [stringLoop.eq_def, ht.cons (crlfAt_of_ne_cr c _ (by omega)), (ppc_eq_92 _).2 hc, ht.tail.cons hdcr]
    have : (92 : Nat) ≠ quote := fun h => hq92 h.symm
    have hp : ppc d.cp = 10 := by simp [ppc, hd]
    have he' : (e.cp == 10) = false := by simp [he]
    rw [CssSyntax.stringLoop.eq_def]
    simp only [this, if_false, CssSyntax.isNewline, hp, beq_self_eq_true, if_true, hc, hd, he', Bool.false_eq_true]
    simp only [show ((92 : Nat) == 10) = false from rfl, Bool.false_eq_true, if_false]
    exact ih ht.tail.tail acc
  | case6 c hc d u hd hnl ih =>
    simp only [beq_iff_eq] at hc hd
    have hdcr : crlfAt d u = false := crlfAt_of_ne_cr d u hd
    rw [stringLoop.eq_def, ht.cons (crlfAt_of_ne_cr c _ (by omega)), (ppc_eq_92 _).2 hc, ht.tail.cons hdcr]
    have : (92 : Nat) ≠ quote := fun h => hq92 h.symm
    have hp : CssSyntax.isNewline (ppc d.cp) = true := by rw [cls_newline]; exact hnl
    have hd' : (d.cp == 13) = false := by simp [hd]
    rw [CssSyntax.stringLoop.eq_def]
    simp only [this, if_false, hp, if_true, hc, beq_self_eq_true, hd', Bool.false_eq_true]
    simp only [CssSyntax.isNewline, show ((92 : Nat) == 10) = false from rfl, Bool.false_eq_true, if_false]
    exact ih ht.tail.tail acc
  | case7 c hc d u hd hnl hh ih =>
    simp only [beq_iff_eq] at hc hd
    have hnl' : isNewline d.cp = false := by simpa using hnl
    have hdcr : crlfAt d u = false := crlfAt_of_ne_cr d u hd
    have hesc := sim_consumeEscaped true c (d :: u) ht hc (by simpa [headIs] using hnl')
    rw [ht.tail.cons hdcr] at hesc
    rw [stringLoop.eq_def, ht.cons (crlfAt_of_ne_cr c _ (by omega)), (ppc_eq_92 _).2 hc, ht.tail.cons hdcr]
    have : (92 : Nat) ≠ quote := fun h => hq92 h.symm
    have hp : CssSyntax.isNewline (ppc d.cp) = false := by rw [cls_newline]; exact hnl'
    have hd' : (d.cp == 13) = false := by simp [hd]
    rw [CssSyntax.stringLoop.eq_def]
    simp only [this, if_false, hp, hc, beq_self_eq_true, hd', Bool.false_eq_true, if_true, hq2]
    simp only [CssSyntax.isNewline, show ((92 : Nat) == 10) = false from rfl, Bool.false_eq_true, if_false]
    rw [hesc]
    simp only [consumeEscape, hh]
    rw [ih ht.tail.tail]
    simp
  | case8 c hc d u hd hnl h hh ih =>
    simp only [beq_iff_eq] at hc hd
    have hnl' : isNewline d.cp = false := by simpa using hnl
    have hdcr : crlfAt d u = false := crlfAt_of_ne_cr d u hd
    have hesc := sim_consumeEscaped true c (d :: u) ht hc (by simpa [headIs] using hnl')
    rw [ht.tail.cons hdcr] at hesc
    rw [stringLoop.eq_def, ht.cons (crlfAt_of_ne_cr c _ (by omega)), (ppc_eq_92 _).2 hc, ht.tail.cons hdcr]
    have : (92 : Nat) ≠ quote := fun h => hq92 h.symm
    have hp : CssSyntax.isNewline (ppc d.cp) = false := by rw [cls_newline]; exact hnl'
    have hd' : (d.cp == 13) = false := by simp [hd]
    rw [CssSyntax.stringLoop.eq_def]
    simp only [this, if_false, hp, hc, beq_self_eq_true, hd', Bool.false_eq_true, if_true, hq2]
    simp only [CssSyntax.isNewline, show ((92 : Nat) == 10) = false from rfl, Bool.false_eq_true, if_false]
    rw [hesc]
    simp only [consumeEscape, hh, Bool.true_and]
    have hrest : (if headIs isNewline (hexLoop 5 h u).2 = true then (hexLoop 5 h u).2 else skipOneWs (hexLoop 5 h u).2)
        = strEscRest h u := rfl
    rw [hrest, ih (ht.tail.tail.suffix (strEscRest_suffix h u)), ← stringLoop_strEscRest quote hq h u]
    simp
  | case9 c t hc hnl =>
    obtain ⟨r, hr⟩ := ht.head
    have hc' : c.cp ≠ 92 := by simpa using hc
    rw [stringLoop.eq_def]
    have hne : c.cp ≠ quote := by intro h; rw [h] at hnl; simp [hqnl] at hnl
    have hpq : ppc c.cp ≠ quote := by
      intro h
      have : CssSyntax.isNewline (ppc c.cp) = true := by rw [cls_newline]; exact hnl
      rw [h] at this
      rcases hq with rfl | rfl <;> simp [CssSyntax.isNewline] at this
    have hp : CssSyntax.isNewline (ppc c.cp) = true := by rw [cls_newline]; exact hnl
    simp only [hc, Bool.false_eq_true, if_false, hnl, if_true]
    rw [hr, CssSyntax.stringLoop.eq_def]
    simp [hpq, hp]
  | case10 c t hc hnl hq' =>
    simp only [beq_iff_eq] at hq'
    have hc' : c.cp ≠ 92 := by simpa using hc
    have hnl' : isNewline c.cp = false := by simpa using hnl
    have hm : stringLoop quote (c :: t) = (.TString, t) := by
      rw [stringLoop.eq_def]; simp [hq', hq92, hqnl]
    rw [hm, ht.cons (crlfAt_of_ne_cr c _ (by omega)), hq', hqpp, CssSyntax.stringLoop.eq_def]
    simp
  | case11 c t hc hnl hq' ih =>
    have hc' : c.cp ≠ 92 := by simpa using hc
    have hnl' : isNewline c.cp = false := by simpa using hnl
    have hq'' : c.cp ≠ quote := by simpa using hq'
    have hcr : c.cp ≠ 13 := by intro h; simp [isNewline, h] at hnl'
    have hp : ppc c.cp = c.cp := ppc_of_not_newline _ hnl'
    have hp2 : CssSyntax.isNewline c.cp = false := by rw [← hp, cls_newline]; exact hnl'
    rw [stringLoop_ordinary quote c t hc' hnl' hq'', ht.cons (crlfAt_of_ne_cr c t hcr), hp, CssSyntax.stringLoop.eq_def]
    simp only [hq'', if_false, hp2, Bool.false_eq_true, hc']
    rw [ih ht.tail]
    simp

/-! ### the text between the quotes and what `decodeEscapesInToken` makes of it -/

/-- the runes of the string body up to (excluding) the closing quote, along the model's `stringLoop` -/
def strChars (quote : Nat) (s : List Ch) : List Ch :=
  match s with
  | [] => []
  | c :: t =>
    if c.cp == 92 then
      match t with
      | [] => [c]
      | d :: u =>
        if d.cp == 13 then
          match u with
          | [] => [c, d]
          | e :: v => if e.cp == 10 then c :: d :: e :: strChars quote v else c :: d :: strChars quote (e :: v)
        else c :: d :: strChars quote u
    else if isNewline c.cp then []
    else if c.cp == quote then []
    else c :: strChars quote t
termination_by s.length
decreasing_by all_goals (simp only [List.length_cons]; omega)

theorem strChars_prefix (quote : Nat) (s : List Ch) : strChars quote s <+: s := by
  fun_induction strChars quote s with
  | case1 => exact List.prefix_refl _
  | case2 => exact List.prefix_refl _
  | case3 => exact List.prefix_refl _
  | case4 c hc d hd e v he ih => exact (List.prefix_cons_inj _).2 ((List.prefix_cons_inj _).2 ((List.prefix_cons_inj _).2 ih))
  | case5 c hc d hd e v he ih => exact (List.prefix_cons_inj _).2 ((List.prefix_cons_inj _).2 ih)
  | case6 c hc d u hd ih => exact (List.prefix_cons_inj _).2 ((List.prefix_cons_inj _).2 ih)
  | case7 => exact List.nil_prefix
  | case8 => exact List.nil_prefix
  | case9 c t h1 h2 h3 ih => exact (List.prefix_cons_inj _).2 ih

/-- a terminated string is its body, the closing quote, and the rest -/
theorem strChars_split (quote : Nat) (s : List Ch) (h : (stringLoop quote s).1 = .TString) :
    ∃ cq, cq.cp = quote ∧ s = strChars quote s ++ cq :: (stringLoop quote s).2 := by
  fun_induction strChars quote s with
  | case1 => rw [stringLoop.eq_def] at h; simp at h
  | case2 c hc => rw [stringLoop.eq_def] at h; simp [hc] at h
  | case3 c hc d hd => rw [stringLoop.eq_def] at h; simp [hc, hd] at h
  | case4 c hc d hd e v he ih =>
    rw [stringLoop.eq_def] at h ⊢; simp only [hc, hd, he, if_true] at h ⊢
    obtain ⟨cq, h1, h2⟩ := ih h
    exact ⟨cq, h1, by simp only [List.cons_append, List.cons.injEq, true_and]; exact h2⟩
  | case5 c hc d hd e v he ih =>
    rw [stringLoop.eq_def] at h ⊢; simp only [hc, hd, he, if_true, Bool.false_eq_true, if_false] at h ⊢
    obtain ⟨cq, h1, h2⟩ := ih h
    exact ⟨cq, h1, by simp only [List.cons_append, List.cons.injEq, true_and]; exact h2⟩
  | case6 c hc d u hd ih =>
    rw [stringLoop.eq_def] at h ⊢; simp only [hc, hd, if_true, Bool.false_eq_true, if_false] at h ⊢
    obtain ⟨cq, h1, h2⟩ := ih h
    exact ⟨cq, h1, by simp only [List.cons_append, List.cons.injEq, true_and]; exact h2⟩
  | case7 c t hc hnl => rw [stringLoop.eq_def] at h; simp [hc, hnl] at h
  | case8 c t hc hnl hq =>
    rw [stringLoop.eq_def]; simp only [hc, hnl, hq, Bool.false_eq_true, if_false, if_true]
    exact ⟨c, by simpa using hq, by simp⟩
  | case9 c t hc hnl hq ih =>
    rw [stringLoop.eq_def] at h ⊢; simp only [hc, hnl, hq, Bool.false_eq_true, if_false] at h ⊢
    obtain ⟨cq, h1, h2⟩ := ih h
    exact ⟨cq, h1, by simp only [List.cons_append, List.cons.injEq, true_and]; exact h2⟩

theorem strChars_ordinary (quote : Nat) (c : Ch) (t : List Ch) (h1 : c.cp ≠ 92) (h2 : isNewline c.cp = false)
    (h3 : c.cp ≠ quote) : strChars quote (c :: t) = c :: strChars quote t := by
  rw [strChars.eq_def]; simp [h1, h2, h3]

theorem strChars_hexTake (quote : Nat) (hq : quote = 34 ∨ quote = 39) (k : Nat) (u m : List Ch) :
    strChars quote (hexTake k u ++ m) = hexTake k u ++ strChars quote m := by
  induction k generalizing u with
  | zero => simp [hexTake]
  | succ k ih =>
    cases u with
    | nil => simp [hexTake]
    | cons c t =>
      simp only [hexTake]
      cases hh : isHex c.cp with
      | none => simp
      | some d =>
        obtain ⟨h1, h2, h3⟩ := isHex_ordinary c.cp d quote hh hq
        simp only [List.cons_append]
        rw [strChars_ordinary quote c _ h1 h2 h3, ih t]

theorem strChars_head (quote : Nat) (e : Ch) (v : List Ch) :
    strChars quote (e :: v) = [] ∨ ∃ r, strChars quote (e :: v) = e :: r := by
  obtain ⟨z, hz⟩ := strChars_prefix quote (e :: v)
  cases hs : strChars quote (e :: v) with
  | nil => left; rfl
  | cons x xs =>
    right
    rw [hs] at hz
    simp only [List.cons_append, List.cons.injEq] at hz
    exact ⟨xs, by rw [hz.1]⟩

/-- (B) `decodeEscapesInToken` on the text between the quotes of a terminated string gives the code points the
specification appends -/
theorem decCps_strChars (quote : Nat) (hq : quote = 34 ∨ quote = 39) (s : List Ch) (hnul : ∀ c ∈ s, c.cp ≠ 0)
    (h : (stringLoop quote s).1 = .TString) : decCps (strChars quote s) = strVal quote s := by
  fun_induction strVal quote s with
  | case1 => rw [strChars.eq_def]; simp [decCps]
  | case2 c hc => rw [stringLoop.eq_def] at h; simp [hc] at h
  | case3 c hc d hd => rw [stringLoop.eq_def] at h; simp [hc, hd] at h
  | case4 c hc d hd e v he ih =>
    rw [stringLoop.eq_def] at h; simp only [hc, hd, he, if_true] at h
    rw [strChars.eq_def]; simp only [hc, hd, he, if_true]
    rw [decCps.eq_def]
    have hc' : c.cp = 92 := by simpa using hc
    have hd' : d.cp = 13 := by simpa using hd
    simp only [hc', bne_self_eq_false, Bool.false_eq_true, if_false, hd', show isHex 13 = none from rfl,
      show ((13 : Nat) == 10 || (13 : Nat) == 12) = false from rfl, beq_self_eq_true, if_true, he]
    exact ih (fun x hx => hnul x (by simp [hx])) h
  | case5 c hc d hd e v he ih =>
    rw [stringLoop.eq_def] at h; simp only [hc, hd, he, if_true, Bool.false_eq_true, if_false] at h
    rw [strChars.eq_def]; simp only [hc, hd, he, if_true, Bool.false_eq_true, if_false]
    rw [decCps.eq_def]
    have hc' : c.cp = 92 := by simpa using hc
    have hd' : d.cp = 13 := by simpa using hd
    simp only [hc', bne_self_eq_false, Bool.false_eq_true, if_false, hd', show isHex 13 = none from rfl,
      show ((13 : Nat) == 10 || (13 : Nat) == 12) = false from rfl, beq_self_eq_true, if_true]
    have ih' := ih (fun x hx => hnul x (by simp [hx])) h
    rcases strChars_head quote e v with h0 | ⟨r, hr⟩
    · rw [h0] at ih' ⊢; simpa [decCps] using ih'
    · rw [hr] at ih' ⊢; simp only [he, Bool.false_eq_true, if_false]; exact ih'
  | case6 c hc d u hd hnl ih =>
    rw [stringLoop.eq_def] at h; simp only [hc, hd, if_true, Bool.false_eq_true, if_false] at h
    rw [strChars.eq_def]; simp only [hc, hd, if_true, Bool.false_eq_true, if_false]
    rw [decCps.eq_def]
    have hc' : c.cp = 92 := by simpa using hc
    have hd13 : d.cp ≠ 13 := by simpa using hd
    have h1012 : (d.cp == 10 || d.cp == 12) = true := by
      unfold isNewline at hnl
      simp only [Bool.or_eq_true, beq_iff_eq] at hnl ⊢; omega
    have hhx : isHex d.cp = none := by
      simp only [Bool.or_eq_true, beq_iff_eq] at h1012
      rcases h1012 with h' | h' <;> simp [h', isHex]
    simp only [hc', bne_self_eq_false, Bool.false_eq_true, if_false, hhx, h1012, if_true]
    exact ih (fun x hx => hnul x (by simp [hx])) h
  | case7 c hc d u hd hnl hh ih =>
    rw [stringLoop.eq_def] at h; simp only [hc, hd, if_true, Bool.false_eq_true, if_false] at h
    rw [strChars.eq_def]; simp only [hc, hd, if_true, Bool.false_eq_true, if_false]
    rw [decCps.eq_def]
    have hc' : c.cp = 92 := by simpa using hc
    have hd13 : (d.cp == 13) = false := by simpa using hd
    have h1012 : (d.cp == 10 || d.cp == 12) = false := by
      unfold isNewline at hnl
      simp only [Bool.or_eq_true, beq_iff_eq, not_or] at hnl
      simp [hnl.1.1, hnl.2]
    simp only [hc', bne_self_eq_false, Bool.false_eq_true, if_false, hh, h1012, hd13, List.cons.injEq, true_and]
    exact ih (fun x hx => hnul x (by simp [hx])) h
  | case8 c hc d u hd hnl hx hh ih =>
    have hc' : c.cp = 92 := by simpa using hc
    have hnl' : isNewline d.cp = false := by simpa using hnl
    rw [stringLoop.eq_def] at h; simp only [hc, hd, if_true, Bool.false_eq_true, if_false] at h
    rw [stringLoop_strEscRest quote hq hx u] at h
    rw [strChars.eq_def]; simp only [hc, hd, if_true, Bool.false_eq_true, if_false]
    -- the newline reading: then the string would not be terminated
    by_cases hn : headIs isNewline (hexLoop 5 hx u).2 = true
    · exfalso
      unfold strEscRest at h
      simp only [hn, if_true] at h
      cases hr : (hexLoop 5 hx u).2 with
      | nil => rw [hr] at hn; simp [headIs] at hn
      | cons w x =>
        rw [hr] at hn h
        simp only [headIs] at hn
        rw [stringLoop.eq_def] at h
        have : w.cp ≠ 92 := by intro h92; rw [h92] at hn; simp [isNewline] at hn
        simp [this, hn] at h
    · have hn' : headIs isNewline (hexLoop 5 hx u).2 = false := by simpa using hn
      have hrest : strEscRest hx u = skipOneWs (hexLoop 5 hx u).2 := by simp [strEscRest, hn']
      have hv : isValidEscape (c :: d :: u) = true := by simp [isValidEscape, hc', headIs, hnl']
      have hce : (consumeEscape (c :: d :: u)) = (fixHex (hexLoop 5 hx u).1, skipOneWs (hexLoop 5 hx u).2) := by
        simp [consumeEscape, hh]
      -- the body after `\` and the first digit: the other digits, the blank, then the rest of the body
      have hbody : strChars quote u = hexTake 5 u ++ (wsTake1 (hexLoop 5 hx u).2 ++ strChars quote (strEscRest hx u)) := by
        have hsplit := hexTake_append 5 hx u
        conv => lhs; rw [← hsplit]
        rw [strChars_hexTake quote hq]
        congr 1
        rw [hrest]
        cases hr : (hexLoop 5 hx u).2 with
        | nil => simp [wsTake1, skipOneWs]
        | cons w x =>
          rw [hr] at hn'
          simp only [headIs] at hn'
          simp only [wsTake1, skipOneWs]
          split
          · next hw =>
            have : w.cp ≠ 92 ∧ w.cp ≠ quote := by
              unfold isWhitespace at hw
              simp only [Bool.or_eq_true, beq_iff_eq] at hw
              omega
            rw [strChars_ordinary quote w x this.1 hn' this.2]; rfl
          · rfl
      rw [hbody]
      have hunit : c :: d :: (hexTake 5 u ++ (wsTake1 (hexLoop 5 hx u).2 ++ strChars quote (strEscRest hx u))) =
          escChars (c :: d :: u) ++ strChars quote (strEscRest hx u) := by
        simp [escChars, hh]
      rw [hunit, decCps_escape c (d :: u) hv _ (by rw [hce, ← hrest]; exact strChars_prefix _ _), hce]
      simp only [List.cons.injEq, true_and]
      exact ih (fun x hx' => hnul x (by
        have := (strEscRest_suffix hx u).subset hx'
        simp [this])) h
  | case9 c t hc hnl => rw [strChars.eq_def]; simp [hc, hnl, decCps]
  | case10 c t hc hnl hq' => rw [strChars.eq_def]; simp [hc, hnl, hq', decCps]
  | case11 c t hc hnl hq' ih =>
    have hc' : c.cp ≠ 92 := by simpa using hc
    have hnl' : isNewline c.cp = false := by simpa using hnl
    have hq'' : c.cp ≠ quote := by simpa using hq'
    rw [stringLoop_ordinary quote c t hc' hnl' hq''] at h
    rw [strChars_ordinary quote c t hc' hnl' hq'', decCps.eq_def]
    have h0 := hnul c (by simp)
    simp only [bne_iff_ne, ne_eq, hc', not_false_eq_true, if_true, beq_iff_eq, h0, if_false, List.cons.injEq, true_and]
    exact ih (fun x hx => hnul x (List.mem_cons_of_mem _ hx)) h

end EsbuildModel.CssLex
