import EsbuildModel.Lemmas.RealPathWalk
/-
The operating-system primitives, `kindOfPath`, `DirEntries.Get` and the cache-free directory information.
-/
namespace EsbuildModel.RealPath
open EsbuildModel.PosixFS

/-! ## Get -/

/-- no two names of one directory listing have the same lower-case form -/
def NoClash (names : List Name) : Prop := ∀ x ∈ names, ∀ y ∈ names, lower x = lower y → x = y

/-- no two entries of one directory differ only by case (decidable on the table) -/
def NoCaseClash (t : Tree) : Prop :=
  ∀ e1 ∈ t.entries, ∀ e2 ∈ t.entries, e1.dir = e2.dir → lower e1.name = lower e2.name → e1.name = e2.name

instance (t : Tree) : Decidable (NoCaseClash t) := by unfold NoCaseClash; exact inferInstance

theorem NoCaseClash.children {t : Tree} (h : NoCaseClash t) (d : Path) : NoClash (t.children d) := by
  intro x hx y hy hl
  obtain ⟨e1, hm1, hd1, rfl⟩ := mem_children.1 hx
  obtain ⟨e2, hm2, hd2, rfl⟩ := mem_children.1 hy
  exact h e1 hm1 e2 hm2 (hd1.trans hd2.symm) hl

theorem get_of_mem {names : List Name} (hn : NoClash names) {b : Name} (hb : b ∈ names) : get names b = some b := by
  unfold get
  have hmem : b ∈ names.filter (fun n => lower n = lower b) := by simp [hb]
  cases hl : (names.filter (fun n => lower n = lower b)).getLast? with
  | none => rw [List.getLast?_eq_none_iff] at hl; rw [hl] at hmem; cases hmem
  | some x =>
    have hx : x ∈ names.filter (fun n => lower n = lower b) := List.mem_of_getLast? hl
    simp at hx
    rw [hn x hx.1 b hb hx.2]

theorem get_some_mem {names : List Name} {q s : Name} (h : get names q = some s) : s ∈ names ∧ lower s = lower q := by
  unfold get at h
  have hx := List.mem_of_getLast? h
  simpa using hx

/-! ## the operating system on link-free positions and on resolvable directories -/

theorem osResolve_of_resolves {t : Tree} {p : List Name} {r : Path} {n : Nat} (h : Resolves t [] p r n)
    (hn : n ≤ osLinkLimit) : osResolve t p = some r := walk_complete h _ hn

theorem goEval_of_resolves {t : Tree} {p : List Name} {r : Path} {n : Nat} (h : Resolves t [] p r n)
    (hn : n ≤ goLinkLimit) : goEval t p = some r := walk_complete h _ hn

theorem osResolve_sound {t : Tree} (hwf : t.WF) {p : List Name} {r : Path} (h : osResolve t p = some r) :
    ∃ n, n ≤ osLinkLimit ∧ Resolves t [] p r n := walk_sound hwf _ [] p r (fun _ => rfl) h

theorem goEval_sound {t : Tree} (hwf : t.WF) {p : List Name} {r : Path} (h : goEval t p = some r) :
    ∃ n, n ≤ goLinkLimit ∧ Resolves t [] p r n := walk_sound hwf _ [] p r (fun _ => rfl) h

theorem osResolve_real {t : Tree} {r : Path} (h : RealPos t r) : osResolve t r = some r := by
  have := RealPos.resolves r [] (by simpa using h)
  simp at this
  exact osResolve_of_resolves this (Nat.zero_le _)

theorem osLstat_snoc {t : Tree} {d m : Path} {b : Name} {n : Nat} (h : Resolves t [] d m n) (hn : n ≤ osLinkLimit)
    (hd : t.raw m = some .dir) : osLstat t (d ++ [b]) = t.raw (m ++ [b]) := by
  simp [osLstat, splitLast_append, osResolve_of_resolves h hn, hd]

theorem osLstat_real {t : Tree} {r : Path} (h : RealPos t r) : osLstat t r = t.raw r := by
  cases hs : splitLast r with
  | none => rw [splitLast_eq_none hs]; rfl
  | some db =>
    obtain ⟨d, b⟩ := db
    have := splitLast_eq_some hs
    subst this
    obtain ⟨hd, hr⟩ := h.parent_dir
    have h0 := RealPos.resolves d [] (by simpa using hr)
    simp at h0
    exact osLstat_snoc h0 (Nat.zero_le _) hd

theorem osReaddir_of_resolves {t : Tree} {p : List Name} {r : Path} {n : Nat} (h : Resolves t [] p r n)
    (hn : n ≤ osLinkLimit) (hd : t.raw r = some .dir) : osReaddir t p = some (t.children r) := by
  simp [osReaddir, osResolve_of_resolves h hn, hd]

theorem osReaddir_sound {t : Tree} (hwf : t.WF) {p : List Name} {names : List Name} (h : osReaddir t p = some names) :
    ∃ r n, n ≤ osLinkLimit ∧ Resolves t [] p r n ∧ t.raw r = some .dir ∧ names = t.children r := by
  unfold osReaddir at h
  cases hr : osResolve t p with
  | none => rw [hr] at h; cases h
  | some rd =>
    rw [hr] at h
    by_cases hd : t.raw rd = some .dir
    · simp [hd] at h
      obtain ⟨n, hn, hres⟩ := osResolve_sound hwf hr
      exact ⟨rd, n, hn, hres, hd, h.symm⟩
    · simp [hd] at h

/-! ## kindOfPath -/

theorem kindOfPath_nonlink {t : Tree} {d m : Path} {b : Name} {n : Nat} {nd : Node}
    (h : Resolves t [] d m n) (hn : n ≤ osLinkLimit) (hd : t.raw m = some .dir)
    (hr : t.raw (m ++ [b]) = some nd) (hl : nd.isLink = false) :
    kindOfPath t (d ++ [b]) = (none, kindOf nd) := by
  unfold kindOfPath
  rw [osLstat_snoc h hn hd, hr]
  cases nd with
  | link _ _ => simp [Node.isLink] at hl
  | file => rfl
  | dir => rfl

theorem kindOfPath_missing {t : Tree} {d m : Path} {b : Name} {n : Nat}
    (h : Resolves t [] d m n) (hn : n ≤ osLinkLimit) (hd : t.raw m = some .dir)
    (hr : t.raw (m ++ [b]) = none) : kindOfPath t (d ++ [b]) = (none, .none) := by
  unfold kindOfPath
  rw [osLstat_snoc h hn hd, hr]

theorem kindOfPath_link {t : Tree} {d m r : Path} {b : Name} {n n' : Nat} {abs : Bool} {tgt : List Name}
    (h : Resolves t [] d m n) (hn : n ≤ osLinkLimit) (hd : t.raw m = some .dir)
    (hr : t.raw (m ++ [b]) = some (.link abs tgt))
    (hres : Resolves t [] (d ++ [b]) r n') (hn' : n' ≤ goLinkLimit) :
    ∃ nd, t.raw r = some nd ∧ nd.isLink = false ∧ kindOfPath t (d ++ [b]) = (some r, kindOf nd) := by
  have hreal : RealPos t r := hres.realPos (RealPos.nil t)
  obtain ⟨nd, hnd, hl⟩ := hreal.raw_not_link
  refine ⟨nd, hnd, hl, ?_⟩
  unfold kindOfPath
  rw [osLstat_snoc h hn hd, hr]
  simp only [goEval_of_resolves hres hn', osLstat_real hreal, hnd]
  cases nd with
  | link _ _ => simp [Node.isLink] at hl
  | file => rfl
  | dir => rfl

/-- whatever `kindOfPath` reports as the symlink of an entry is the POSIX resolution of the entry's pathname,
and the kind is the kind of what is there -/
theorem kindOfPath_symlink_sound {t : Tree} (hwf : t.WF) {p l : Path} {k : Kind}
    (h : kindOfPath t p = (some l, k)) :
    ∃ n nd, Resolves t [] p l n ∧ t.raw l = some nd ∧ nd.isLink = false ∧ k = kindOf nd := by
  unfold kindOfPath at h
  cases h1 : osLstat t p with
  | none => simp [h1] at h
  | some nd1 =>
    cases nd1 with
    | file => simp [h1] at h
    | dir => simp [h1] at h
    | link a tg =>
      simp only [h1] at h
      cases h2 : goEval t p with
      | none => simp [h2] at h
      | some l' =>
        simp only [h2] at h
        cases h3 : osLstat t l' with
        | none => simp [h3] at h
        | some nd3 =>
          obtain ⟨n, _, hres⟩ := goEval_sound hwf h2
          have hreal : RealPos t l' := hres.realPos (RealPos.nil t)
          rw [osLstat_real hreal] at h3
          cases nd3 with
          | link _ _ => simp [h3, osLstat_real hreal] at h
          | file =>
            simp [osLstat_real hreal, h3] at h
            obtain ⟨rfl, rfl⟩ := h
            exact ⟨n, .file, hres, h3, rfl, rfl⟩
          | dir =>
            simp [osLstat_real hreal, h3] at h
            obtain ⟨rfl, rfl⟩ := h
            exact ⟨n, .dir, hres, h3, rfl, rfl⟩

end EsbuildModel.RealPath
