import EsbuildModel.Lemmas.LexNumPhases
/-
Soundness of the floating-point branch: an accepted text is a derivation of DecimalLiteral (or
DecimalBigIntegerLiteral) and the value is the rounded MV.
-/
namespace EsbuildModel.LexNum
open EsbuildModel.Spec.Num EsbuildModel.Spec.NumLit

theorem char_of_toNat {c : Char} {n : Nat} (h : c.toNat = n) : c = Char.ofNat n := by
  rw [← h, Char.ofNat_toNat]

theorem headIsDig_of_append {run r : List Char} (h : headIsDig (run ++ r) = true) (hstop : StopAt isDig r) :
    headIsDig run = true := by
  cases run with
  | nil =>
    cases r with
    | nil => simp [headIsDig] at h
    | cons y r' => have := (hstop y r' rfl).1; simp [headIsDig, this] at h
  | cons y run' => simpa [headIsDig] using h

/-- digits after a first digit: `D (_? D)*` -/
theorem sepDigits_of_run {run : List Char} (h : runOK isDig false run = some false) (hd : headIsDig run = true) :
    sepDigits Spec.Num.isDigit run = true := by
  cases run with
  | nil => simp [headIsDig] at hd
  | cons c r =>
    have hc : isDig c = true := by simpa [headIsDig] using hd
    simp only [runOK, hc, if_true] at h
    have := (runOK_sep Spec.Num.isDigit isDigit_us r).1.1 h
    simp only [sepDigits, Bool.and_eq_true]
    exact ⟨hc, this⟩

/-- the fraction digits: empty or `D (_? D)*` -/
theorem frac_of_run {run : List Char} (h : runOK isDig false run = some false) (hus : ∀ r, run ≠ '_' :: r) :
    (run.isEmpty || sepDigits Spec.Num.isDigit run) = true := by
  cases run with
  | nil => rfl
  | cons c r =>
    have hc : c ≠ '_' := by rintro rfl; exact hus r rfl
    have := (runOK_sep Spec.Num.isDigit isDigit_us (c :: r)).1.1 h
    rw [sepTail_cons] at this
    simp only [hc, if_false] at this
    simpa [sepDigits] using this

theorem decInt_valid {first : Char} {rest run1 r1 : List Char} (hd : isDig first = true) (hsplit : rest = run1 ++ r1)
    (hrun : runOK isDig false run1 = some false) (hstop : StopAt isDig r1)
    (hzero : first = '0' → ∀ c r, rest = c :: r → ¬ (48 ≤ c.toNat ∧ c.toNat ≤ 55) ∧ c ≠ '_')
    (hil : (first == '0' && headIs rest (fun c => c == '8' || c == '9')) = true → ∀ c ∈ run1, c ≠ '_') :
    decIntOk (first :: run1) = true ∧
      nonOctalDec (first :: run1) = (first == '0' && headIs rest (fun c => c == '8' || c == '9')) := by
  by_cases hf : first = '0'
  · subst hf
    cases run1 with
    | nil =>
      refine ⟨by decide, ?_⟩
      simp only [List.nil_append] at hsplit
      subst hsplit
      cases rest with
      | nil => rfl
      | cons y r' =>
        have h1 := (hstop y r' rfl).1
        have : (y == '8' || y == '9') = false := by
          cases h8 : (y == '8' || y == '9') with
          | false => rfl
          | true =>
            simp only [Bool.or_eq_true, beq_iff_eq] at h8
            rcases h8 with rfl | rfl <;> simp [isDig] at h1
        simp [nonOctalDec, headIs, this]
    | cons c run1' =>
      have hrest : rest = c :: (run1' ++ r1) := by rw [hsplit]; rfl
      obtain ⟨hz1, hz2⟩ := hzero rfl c _ hrest
      have hcd : isDig c = true := by
        rcases runOK_all isDig hrun c List.mem_cons_self with h | h
        · exact h
        · exact absurd h hz2
      have h89 : c = '8' ∨ c = '9' := by
        simp only [isDig, Bool.and_eq_true, decide_eq_true_eq] at hcd
        have : c.toNat = 56 ∨ c.toNat = 57 := by omega
        rcases this with h | h
        · exact Or.inl (char_of_toNat h)
        · exact Or.inr (char_of_toNat h)
      have hhead : headIs rest (fun c => c == '8' || c == '9') = true := by
        rw [hrest]; rcases h89 with rfl | rfl <;> rfl
      have hall := runOK_noUS isDig hrun (hil (by simp [hhead]))
      have hnod : nonOctalDec ('0' :: c :: run1') = true := by
        simp only [nonOctalDec, Bool.and_eq_true, List.all_eq_true, List.any_eq_true]
        refine ⟨⟨⟨by decide, by simp⟩, hall⟩, c, List.mem_cons_self, ?_⟩
        rcases h89 with rfl | rfl <;> rfl
      exact ⟨by simp [decIntOk, hnod], by simp [hnod, hhead]⟩
  · have hne : (first == '0') = false := by simpa using hf
    have hst := (runOK_sep Spec.Num.isDigit isDigit_us run1).1.1 hrun
    refine ⟨?_, by simp [nonOctalDec, hne]⟩
    simp only [decIntOk, plainDecInt, hf, if_false, sepDigits, Bool.or_eq_true, Bool.and_eq_true]
    exact Or.inl ⟨hd, hst⟩

/-- the value of the number branches of the floating-point path -/
theorem dec_value {P : Params} {R : Rat → F64} (hP : ParamsOK P R) {i : List Char} {f : Option (List Char)}
    {e : Option ExpS} (hv : (Lit.dec i f e).valid = true) (hde : Bool) (hhde : hde = (f.isSome || e.isSome))
    (n : Nat) (hn : n = (Lit.dec i f e).render.length) :
    (if (!hde && decide (n < 10)) = true then P.rnd (u32Loop (strip (Lit.dec i f e).render))
     else P.pf (strip (Lit.dec i f e).render)) = R (Lit.dec i f e).mv := by
  split
  · rename_i hc
    simp only [Bool.and_eq_true, Bool.not_eq_true', decide_eq_true_eq] at hc
    obtain ⟨h1, h2⟩ := hc
    rw [hhde] at h1
    have hf : f = none := by cases f <;> simp_all
    have he : e = none := by cases e <;> simp_all
    subst hf he
    obtain ⟨hwf, _⟩ := dec_valid_wf hv
    have hi : AllDigits (strip i) := hwf.int
    have hrender : (Lit.dec i none none).render = i := by simp [Lit.render, fracText, expSText]
    rw [hrender] at hn ⊢
    have hlen : (strip i).length ≤ 9 := by
      have : (strip i).length ≤ i.length := List.length_filter_le _ _
      omega
    rw [u32Loop_eq hi hlen, hP.rnd]
    simp only [Lit.mv, Option.map, stripExp]
    rw [mv_int_only]
  · exact dec_pf hP hv

/-- the exponent phase of an accepted literal, as a piece of a derivation -/
theorem exp_info {r2 : List Char} {s2 : St} {r3 : List Char} {s3 : St} {he : Bool} (hinv : Inv s2)
    (h : expPart r2 s2 = .ok (r3, s3, he)) (hp3 : s3.prevUS = false) :
    ∃ ex : Option ExpS, Seg r2 s2 (expSText ex) r3 s3 ∧ expSOk ex = true ∧ s2.prevUS = false ∧ he = ex.isSome := by
  rcases expPart_ok hinv h with ⟨rfl, rfl, rfl, _⟩ | ⟨hp2, rfl, up, sg, run3, hseg, hrun, hdig, _⟩
  · exact ⟨none, seg_nil hinv, rfl, hp3, rfl⟩
  · rw [hp3] at hrun
    exact ⟨some ⟨up, sg, run3⟩, hseg, sepDigits_of_run hrun hdig, hp2, rfl⟩

def fracOk : Option (List Char) → Bool
  | none => true
  | some f => f.isEmpty || sepDigits Spec.Num.isDigit f

/-- the fraction phase (first character is a digit) -/
theorem frac_info {first : Char} {r1 : List Char} {s1 : St} {r2 : List Char} {s2 : St} {hd : Bool} (hinv : Inv s1)
    (hf : first ≠ '.') (h : fracPart first r1 s1 = .ok (r2, s2, hd)) (hp2 : s2.prevUS = false) :
    ∃ fr : Option (List Char), Seg r1 s1 (fracText fr) r2 s2 ∧ fracOk fr = true ∧ s1.prevUS = false ∧ hd = fr.isSome := by
  rcases fracPart_ok hinv h with ⟨rfl, rfl, rfl, _⟩ | ⟨_, hp1, rfl, run2, hseg, hrun, hus, _⟩
  · exact ⟨none, seg_nil hinv, rfl, hp2, by simp [hf]⟩
  · rw [hp2] at hrun
    exact ⟨some run2, hseg, frac_of_run hrun hus, hp1, rfl⟩

theorem st1_prevUS : st1.prevUS = false := rfl

theorem isDig_ne_us {c : Char} (h : isDig c = true) : c ≠ '_' := by rintro rfl; revert h; decide

/-- everything the floating-point branch establishes before it looks at the value -/
theorem floatPath_shape {first : Char} {rest : List Char}
    (hfirst : (first = '.' ∧ headIsDig rest = true) ∨ (first ≠ '.' ∧ isDig first = true))
    (hzero : first = '0' → ∀ c r, rest = c :: r → ¬ (48 ≤ c.toNat ∧ c.toNat ≤ 55) ∧ c ≠ '_')
    {il : Bool} (hil : il = (first == '0' && headIs rest (fun c => c == '8' || c == '9')))
    {r1 : List Char} {s1 : St} (h1 : digLoop il rest st1 = .ok (r1, s1))
    {r2 : List Char} {s2 : St} {hd : Bool} (h2 : fracPart first r1 s1 = .ok (r2, s2, hd))
    {r3 : List Char} {s3 : St} {he : Bool} (h3 : expPart r2 s2 = .ok (r3, s3, he)) (hp3 : s3.prevUS = false) :
    ∃ (i : List Char) (f : Option (List Char)) (e : Option ExpS),
      (Lit.dec i f e).valid = true ∧ (Lit.dec i f e).render = (first :: rest).take s3.end_ ∧
      s3.usCount = (Lit.dec i f e).render.count '_' ∧ (hd || he) = (f.isSome || e.isSome) ∧
      nonOctalDec i = il ∧ (first ≠ '.' → ∃ run1, i = first :: run1 ∧ runOK isDig false run1 = some false) ∧
      (first :: rest).drop s3.end_ = r3 ∧ s3.end_ = (Lit.dec i f e).render.length := by
  obtain ⟨run1, hseg1, hrun1, hstop1, hil1⟩ := digLoop_ok inv_st1 h1
  rw [st1_prevUS] at hrun1
  rcases hfirst with ⟨hf, hdig⟩ | ⟨hf, hdig⟩
  · -- `.5`
    subst hf
    have h2' := fracPart_ok hseg1.inv h2
    rcases h2' with ⟨rfl, rfl, rfl, _⟩ | ⟨hne, _⟩
    · obtain ⟨ex, hseg3, hexok, hp1, rfl⟩ := exp_info hseg1.inv h3 hp3
      rw [hp1] at hrun1
      have hd1 : headIsDig run1 = true := headIsDig_of_append (by rw [← hseg1.split]; exact hdig) hstop1
      have hsd := sepDigits_of_run hrun1 hd1
      obtain ⟨ht, hc, hl⟩ := (hseg1.trans hseg3).take (first := '.') (by decide)
      refine ⟨[], some run1, ex, ?_, ?_, ?_, by simp, ?_, fun h => absurd rfl h, (hseg1.trans hseg3).drop, ?_⟩
      · simp [Lit.valid, hsd, hexok]
      · rw [ht]; simp [Lit.render, fracText]
      · rw [hc]; simp [Lit.render, fracText]
      · rw [hil]; rfl
      · rw [hl]; simp [Lit.render, fracText]
    · exact absurd rfl hne
  · have hfus : first ≠ '_' := isDig_ne_us hdig
    have hp2 : s2.prevUS = false := by
      rcases expPart_ok (by
        rcases fracPart_ok hseg1.inv h2 with ⟨_, rfl, _⟩ | ⟨_, _, _, _, hs, _⟩
        · exact hseg1.inv
        · exact hs.inv) h3 with ⟨_, rfl, _⟩ | ⟨hp, _⟩
      · exact hp3
      · exact hp
    obtain ⟨fr, hseg2, hfrok, hp1, rfl⟩ := frac_info hseg1.inv hf h2 hp2
    obtain ⟨ex, hseg3, hexok, _, rfl⟩ := exp_info hseg2.inv h3 hp3
    rw [hp1] at hrun1
    obtain ⟨hiv, hno⟩ := decInt_valid hdig hseg1.split hrun1 hstop1 hzero (by rw [← hil]; exact hil1)
    obtain ⟨ht, hc, hl⟩ := ((hseg1.trans hseg2).trans hseg3).take (first := first) hfus
    refine ⟨first :: run1, fr, ex, ?_, ?_, ?_, rfl, by rw [hno, hil], fun _ => ⟨run1, rfl, hrun1⟩,
      ((hseg1.trans hseg2).trans hseg3).drop, ?_⟩
    · cases fr with
      | none => simp [Lit.valid, hiv, hexok]
      | some f => simp only [fracOk] at hfrok; simp [Lit.valid, hiv, hexok, hfrok]
    · rw [ht]; simp [Lit.render]
    · rw [hc]; simp [Lit.render]
    · rw [hl]; simp [Lit.render]

theorem run_empty_of_strip {isD : Char → Bool} (hus : isD '_' = false) {run : List Char}
    (h : runOK isD false run = some false) (hs : strip run = []) : run = [] := by
  cases run with
  | nil => rfl
  | cons c r =>
    exfalso
    have h1 := (runOK_sep isD hus (c :: r)).1.1 h
    rw [sepTail_cons] at h1
    by_cases hc : c = '_'
    · subst hc
      simp only [if_true] at h1
      obtain ⟨_, _, hne⟩ := sepDigits_strip isD hus h1
      rw [strip_cons_us] at hs
      exact hne hs
    · rw [strip_cons_ne hc] at hs
      cases hs

theorem plainDecInt_strip {i : List Char} (h : plainDecInt i = true) : plainDecInt (strip i) = true := by
  cases i with
  | nil => simp [plainDecInt] at h
  | cons c r =>
    simp only [plainDecInt] at h
    split at h
    · rename_i hc
      subst hc
      have : r = [] := by simpa using h
      subst this
      decide
    · rename_i hc
      have hd : Spec.Num.isDigit c = true := by simp only [sepDigits, Bool.and_eq_true] at h; exact h.1
      obtain ⟨h1, _, _⟩ := sepDigits_strip _ isDigit_us h
      rw [strip_cons_ne (isDigit_ne_us hd)] at h1 ⊢
      simp only [plainDecInt, hc, if_false]
      exact h1

theorem floatPath_cases {P : Params} {first : Char} {rest : List Char} {res : Res}
    (h : floatPath P first (first :: rest) rest = res) (hne : ∀ p, res ≠ .err p) :
    ∃ il r1 s1 r2 s2 hd r3 s3 he,
      il = (first == '0' && headIs rest (fun c => c == '8' || c == '9')) ∧
      digLoop il rest st1 = .ok (r1, s1) ∧ fracPart first r1 s1 = .ok (r2, s2, hd) ∧
      expPart r2 s2 = .ok (r3, s3, he) ∧
      ((headIs r3 (fun c => c == 'n') && !(hd || he)) = true ∧
         ¬ ((decide ((stripUS s3.usCount ((first :: rest).take s3.end_)).length > 1) && first == '0') = true) ∧
         res = finish P r3 s3 (hd || he) il (P.rnd 0) (stripUS s3.usCount ((first :: rest).take s3.end_))
       ∨ (headIs r3 (fun c => c == 'n') && !(hd || he)) = false ∧
         res = finish P r3 s3 (hd || he) il
           (if (!(hd || he) && decide (s3.end_ < 10)) = true
            then P.rnd (u32Loop (stripUS s3.usCount ((first :: rest).take s3.end_)))
            else P.pf (stripUS s3.usCount ((first :: rest).take s3.end_))) []) := by
  unfold floatPath at h
  simp only at h
  cases h1 : digLoop (first == '0' && headIs rest (fun c => c == '8' || c == '9')) rest st1 with
  | error p => rw [h1] at h; exact absurd h.symm (hne p)
  | ok res1 =>
    obtain ⟨r1, s1⟩ := res1
    rw [h1] at h
    simp only at h
    cases h2 : fracPart first r1 s1 with
    | error p => rw [h2] at h; exact absurd h.symm (hne p)
    | ok res2 =>
      obtain ⟨r2, s2, hd⟩ := res2
      rw [h2] at h
      simp only at h
      cases h3 : expPart r2 s2 with
      | error p => rw [h3] at h; exact absurd h.symm (hne p)
      | ok res3 =>
        obtain ⟨r3, s3, he⟩ := res3
        rw [h3] at h
        simp only at h
        refine ⟨_, r1, s1, r2, s2, hd, r3, s3, he, rfl, h1, h2, h3, ?_⟩
        split at h
        · rename_i hb
          split at h
          · exact absurd h.symm (hne _)
          · rename_i hz
            exact Or.inl ⟨hb, hz, h.symm⟩
        · rename_i hb
          refine Or.inr ⟨by simpa using hb, ?_⟩
          split at h
          · rename_i hc; rw [if_pos hc]; exact h.symm
          · rename_i hc; rw [if_neg hc]; exact h.symm

end EsbuildModel.LexNum
