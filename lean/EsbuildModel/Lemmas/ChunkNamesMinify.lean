import EsbuildModel.Lemmas.ChunkNames
/-!
The MinifyRenamer branch of renameSymbolsInChunk: invariants of AccumulateSymbolCount and
AllocateTopLevelSymbolSlots (helper lemmas for Props/C15ChunkNames.lean).
-/
namespace EsbuildModel.ChunkNames
open Slots (Scope Name)

/-- every table is at least as long as the first top-level slot of its namespace -/
def LenGE (first : Slots.Counts) (tab : SlotTab) : Prop := ∀ ns sl, tab[ns]? = some sl → first ns ≤ sl.length

theorem addCount_length {sl sl' : List Rename.Slot} {i cnt : Nat} {jsx : Bool} (h : addCount sl i cnt jsx = some sl') :
    sl'.length = sl.length := by
  unfold addCount at h
  split at h
  · cases h
  · simp only [Option.some.injEq] at h; subst h; simp

theorem lenGE_set {first : Slots.Counts} {tab : SlotTab} {k : Nat} {sl sl' : List Rename.Slot} (h : LenGE first tab)
    (hk : tab[k]? = some sl) (hl : sl.length ≤ sl'.length) : LenGE first (tab.set k sl') := by
  intro ns x hx
  rw [List.getElem?_set] at hx
  split at hx
  · next heq =>
    subst heq
    split at hx
    · simp only [Option.some.injEq] at hx; subst hx
      exact Nat.le_trans (h _ _ hk) hl
    · cases hx
  · exact h ns x hx

theorem lookup_mem {α : Type} : ∀ {l : List (Nat × α)} {k : Nat} {v : α}, l.lookup k = some v → (k, v) ∈ l
  | [], _, _, h => by simp at h
  | (k', v') :: es, k, v, h => by
    rw [List.lookup_cons] at h
    by_cases hk : k = k'
    · subst hk; simp at h; subst h; exact List.mem_cons_self
    · have : (k == k') = false := by simpa using hk
      rw [this] at h
      exact List.mem_cons_of_mem _ (lookup_mem h)

-- ------------------------------------------------------------------------------------------------
-- AccumulateSymbolCount

/-- the symbol a call of AccumulateSymbolCount counts: links followed, namespace aliases resolved -/
def target (syms : List CSym) (x : Nat) : Option Nat :=
  match follow syms (syms.length + 1) x with
  | none => none
  | some r0 => resolveAlias syms (syms.length + 1) (syms.length + 1) r0

/-- what one call does to the table lengths and to the deferred top-level array -/
theorem accumulate_facts {syms : List CSym} {first : Slots.Counts} {st st' : SlotTab × TopArr} {e : Nat × Nat}
    (h : accumulate syms st e = some st') :
    (LenGE first st.1 → LenGE first st'.1) ∧ (∀ y, y ∈ st.2 → y ∈ st'.2) ∧
    (∀ r sym, target syms e.1 = some r → syms[r]? = some sym → sym.ns ≠ 4 → sym.slot = none → (r, e.2) ∈ st'.2) := by
  unfold accumulate at h
  split at h
  · cases h
  · next r0 hr0 =>
    split at h
    · cases h
    · next r hr =>
      split at h
      · cases h
      · next sym hsym =>
        split at h
        · next h4 =>
          simp only [Option.some.injEq] at h; subst h
          refine ⟨id, fun _ hy => hy, ?_⟩
          intro r' sym' hr' hs' hn _
          simp only [target, hr0, hr, Option.some.injEq] at hr'; subst hr'
          rw [hsym] at hs'; cases hs'; exact absurd h4 hn
        · split at h
          · next i hi =>
            split at h
            · cases h
            · next sl hsl =>
              split at h
              · cases h
              · next sl' hsl' =>
                simp only [Option.some.injEq] at h; subst h
                refine ⟨fun hl => lenGE_set hl hsl (by rw [addCount_length hsl']; exact Nat.le_refl _), fun _ hy => hy, ?_⟩
                intro r' sym' hr' hs' _ hnone
                simp only [target, hr0, hr, Option.some.injEq] at hr'; subst hr'
                rw [hsym] at hs'; cases hs'; rw [hi] at hnone; cases hnone
          · simp only [Option.some.injEq] at h; subst h
            refine ⟨id, fun y hy => List.mem_append_left _ hy, ?_⟩
            intro r' sym' hr' _ _ _
            simp only [target, hr0, hr, Option.some.injEq] at hr'; subst hr'
            simp

theorem accumulateAll_facts {syms : List CSym} {first : Slots.Counts} : ∀ (es : List (Nat × Nat)) {st st' : SlotTab × TopArr},
    accumulateAll syms st es = some st' →
    (LenGE first st.1 → LenGE first st'.1) ∧ (∀ y, y ∈ st.2 → y ∈ st'.2) ∧
    (∀ e r sym, e ∈ es → target syms e.1 = some r → syms[r]? = some sym → sym.ns ≠ 4 → sym.slot = none → (r, e.2) ∈ st'.2)
  | [], st, st', h => by
    simp only [accumulateAll, Option.some.injEq] at h; subst h
    exact ⟨id, fun _ hy => hy, fun e _ _ he => by simp at he⟩
  | e :: es, st, st', h => by
    simp only [accumulateAll] at h
    split at h
    · cases h
    · next st1 h1 =>
      obtain ⟨a1, a2, a3⟩ := accumulate_facts (first := first) h1
      obtain ⟨b1, b2, b3⟩ := accumulateAll_facts (first := first) es h
      refine ⟨fun hl => b1 (a1 hl), fun y hy => b2 y (a2 y hy), ?_⟩
      intro e' r sym he' ht hs hn hsl
      rcases List.mem_cons.mp he' with rfl | he'
      · exact b2 _ (a3 r sym ht hs hn hsl)
      · exact b3 e' r sym he' ht hs hn hsl

theorem accFiles_facts {syms : List CSym} {first : Slots.Counts} : ∀ (fs : List File) {tab tab' : SlotTab} {arrs : List TopArr},
    accFiles syms tab fs = some (tab', arrs) →
    (LenGE first tab → LenGE first tab') ∧
    (∀ f e r sym, f ∈ fs → e ∈ fileCalls f → target syms e.1 = some r → syms[r]? = some sym → sym.ns ≠ 4 →
      sym.slot = none → (r, e.2) ∈ arrs.flatten)
  | [], tab, tab', arrs, h => by
    simp only [accFiles, Option.some.injEq, Prod.mk.injEq] at h
    obtain ⟨rfl, rfl⟩ := h
    exact ⟨id, fun f _ _ _ hf => by simp at hf⟩
  | f :: fs, tab, tab', arrs, h => by
    simp only [accFiles] at h
    split at h
    · cases h
    · next tab1 arr h1 =>
      split at h
      · cases h
      · next tab2 arrs2 h2 =>
        simp only [Option.some.injEq, Prod.mk.injEq] at h
        obtain ⟨rfl, rfl⟩ := h
        obtain ⟨a1, _, a3⟩ := accumulateAll_facts (first := first) (fileCalls f) h1
        obtain ⟨b1, b3⟩ := accFiles_facts (first := first) fs h2
        refine ⟨fun hl => b1 (a1 hl), ?_⟩
        intro f' e r sym hf' he ht hs hn hsl
        simp only [List.flatten_cons, List.mem_append]
        rcases List.mem_cons.mp hf' with rfl | hf'
        · exact Or.inl (List.mem_mergeSort.mpr (a3 e r sym he ht hs hn hsl))
        · exact Or.inr (b3 f' e r sym hf' he ht hs hn hsl)

theorem initSlots_lenGE (first : Slots.Counts) : LenGE first (initSlots first) := by
  intro ns sl h
  simp only [initSlots, List.getElem?_map, Option.map_eq_some_iff] at h
  obtain ⟨k, hk, rfl⟩ := h
  have : k = ns := by
    by_cases hlt : ns < 4
    · simp [List.getElem?_range, hlt] at hk; omega
    · simp [List.getElem?_range, hlt] at hk
  subst this
  simp

-- ------------------------------------------------------------------------------------------------
-- AllocateTopLevelSymbolSlots

/-- invariant of the serial phase: every entry of `topLevelSymbolToSlot` points at a slot of its symbol's
namespace at or above the first top-level slot, and two symbols of one namespace never share a slot -/
structure AllocInv (syms : List CSym) (first : Slots.Counts) (tab : SlotTab) (m : List (Nat × Nat)) : Prop where
  len : LenGE first tab
  range : ∀ r a, m.lookup r = some a →
    ∃ sym sl, syms[r]? = some sym ∧ tab[sym.ns]? = some sl ∧ first sym.ns ≤ a ∧ a < sl.length
  inj : ∀ r r' a sym sym', m.lookup r = some a → m.lookup r' = some a → syms[r]? = some sym →
    syms[r']? = some sym' → sym.ns = sym'.ns → r = r'

theorem getElem?_set_same_len {tab : SlotTab} {k ns : Nat} {sl sl' x : List Rename.Slot} (hk : tab[k]? = some sl)
    (hx : tab[ns]? = some x) : ∃ y, (tab.set k sl')[ns]? = some y ∧ (ns = k → y = sl') ∧ (ns ≠ k → y = x) := by
  rw [List.getElem?_set]
  by_cases h : k = ns
  · subst h
    have hlt : k < tab.length := by
      rcases Nat.lt_or_ge k tab.length with h | h
      · exact h
      · rw [List.getElem?_eq_none h] at hk; cases hk
    simp [hlt]
  · simp only [h, if_false]
    exact ⟨x, hx, fun e => absurd e.symm h, fun _ => rfl⟩

theorem allocOne_facts {syms : List CSym} {first : Slots.Counts} {st st' : SlotTab × List (Nat × Nat)} {e : Nat × Nat}
    (h : allocOne syms st e = some st') (inv : AllocInv syms first st.1 st.2) :
    AllocInv syms first st'.1 st'.2 ∧ (∀ r a, st.2.lookup r = some a → st'.2.lookup r = some a) ∧
    (∃ a, st'.2.lookup e.1 = some a) := by
  unfold allocOne at h
  split at h
  · cases h
  · next sym hsym =>
    split at h
    · cases h
    · next sl hsl =>
      split at h
      · next i hi =>
        simp only [Option.map_eq_some_iff] at h
        obtain ⟨sl', hsl', rfl⟩ := h
        have hlen := addCount_length hsl'
        refine ⟨⟨lenGE_set inv.len hsl (by rw [hlen]; exact Nat.le_refl _), ?_, inv.inj⟩, fun _ _ h => h, ⟨i, hi⟩⟩
        intro r a hra
        obtain ⟨sy, x, h1, h2, h3, h4⟩ := inv.range r a hra
        obtain ⟨y, hy, hy1, hy2⟩ := getElem?_set_same_len (sl' := sl') hsl h2
        refine ⟨sy, y, h1, hy, h3, ?_⟩
        by_cases hk : sy.ns = sym.ns
        · rw [hy1 hk, hlen]
          rw [hk, hsl] at h2; cases h2; exact h4
        · rw [hy2 hk]; exact h4
      · next hnone =>
        simp only [Option.some.injEq] at h; subst h
        have look : ∀ r, ((e.1, sl.length) :: st.2).lookup r = if r = e.1 then some sl.length else st.2.lookup r := by
          intro r
          rw [List.lookup_cons]
          by_cases hr : r = e.1
          · simp [hr]
          · have : (r == e.1) = false := by simpa using hr
            simp [hr, this]
        refine ⟨⟨lenGE_set inv.len hsl (by simp), ?_, ?_⟩, ?_, ⟨sl.length, by simp [look]⟩⟩
        · intro r a hra
          simp only [look] at hra
          split at hra
          · next hr =>
            subst hr
            simp only [Option.some.injEq] at hra; subst hra
            obtain ⟨y, hy, hy1, _⟩ := getElem?_set_same_len (sl' := sl ++ [⟨e.2, sym.jsx⟩]) hsl hsl
            exact ⟨sym, y, hsym, hy, inv.len _ _ hsl, by rw [hy1 rfl]; simp⟩
          · obtain ⟨sy, x, h1, h2, h3, h4⟩ := inv.range r a hra
            obtain ⟨y, hy, hy1, hy2⟩ := getElem?_set_same_len (sl' := sl ++ [⟨e.2, sym.jsx⟩]) hsl h2
            refine ⟨sy, y, h1, hy, h3, ?_⟩
            by_cases hk : sy.ns = sym.ns
            · rw [hy1 hk]
              rw [hk, hsl] at h2; cases h2
              simp; omega
            · rw [hy2 hk]; exact h4
        · intro r r' a sy sy' hra hra' hs hs' hns
          simp only [look] at hra hra'
          split at hra
          · next hr =>
            split at hra'
            · next hr' => rw [hr, hr']
            · subst hr
              simp only [Option.some.injEq] at hra; subst hra
              obtain ⟨sy2, x, h1, h2, _, h4⟩ := inv.range r' _ hra'
              rw [hs'] at h1; cases h1
              rw [hsym] at hs; cases hs
              rw [← hns, hsl] at h2; cases h2
              omega
          · split at hra'
            · next hr' =>
              subst hr'
              simp only [Option.some.injEq] at hra'; subst hra'
              obtain ⟨sy2, x, h1, h2, _, h4⟩ := inv.range r _ hra
              rw [hs] at h1; cases h1
              rw [hsym] at hs'; cases hs'
              rw [hns, hsl] at h2; cases h2
              omega
            · exact inv.inj r r' a sy sy' hra hra' hs hs' hns
        · intro r a hra
          simp only [look]
          split
          · next hr => subst hr; rw [hnone] at hra; cases hra
          · exact hra

theorem allocAll_facts {syms : List CSym} {first : Slots.Counts} : ∀ (es : TopArr) {st st' : SlotTab × List (Nat × Nat)},
    allocAll syms st es = some st' → AllocInv syms first st.1 st.2 →
    AllocInv syms first st'.1 st'.2 ∧ (∀ r a, st.2.lookup r = some a → st'.2.lookup r = some a) ∧
    (∀ e, e ∈ es → ∃ a, st'.2.lookup e.1 = some a)
  | [], st, st', h, inv => by
    simp only [allocAll, Option.some.injEq] at h; subst h
    exact ⟨inv, fun _ _ h => h, fun e he => by simp at he⟩
  | e :: es, st, st', h, inv => by
    simp only [allocAll] at h
    split at h
    · cases h
    · next st1 h1 =>
      obtain ⟨a1, a2, a3⟩ := allocOne_facts h1 inv
      obtain ⟨b1, b2, b3⟩ := allocAll_facts es h a1
      refine ⟨b1, fun r a hr => b2 r a (a2 r a hr), ?_⟩
      intro e' he'
      rcases List.mem_cons.mp he' with rfl | he'
      · obtain ⟨a, ha⟩ := a3
        exact ⟨a, b2 _ _ ha⟩
      · exact b3 e' he'

/-- what the code up to and including AllocateTopLevelSymbolSlots establishes -/
theorem minifySlots_facts {c : Chunk} {tab : SlotTab} {m : List (Nat × Nat)} (h : minifySlots c = some (tab, m)) :
    AllocInv c.syms (firstTopLevelSlots c.files) tab m ∧
    (∀ i r sym, i ∈ c.imports → target c.syms i = some r → c.syms[r]? = some sym → sym.ns ≠ 4 → sym.slot = none →
      ∃ a, m.lookup r = some a) ∧
    (∀ f e r sym, f ∈ c.files → e ∈ fileCalls f → target c.syms e.1 = some r → c.syms[r]? = some sym → sym.ns ≠ 4 →
      sym.slot = none → ∃ a, m.lookup r = some a) := by
  unfold minifySlots at h
  split at h
  · cases h
  · next tab1 arrs h1 =>
    split at h
    · cases h
    · next tab2 imps h2 =>
      obtain ⟨a1, a3⟩ := accFiles_facts (first := firstTopLevelSlots c.files) c.files h1
      obtain ⟨b1, _, b3⟩ := accumulateAll_facts (first := firstTopLevelSlots c.files) _ h2
      have inv0 : AllocInv c.syms (firstTopLevelSlots c.files) tab2 [] :=
        ⟨b1 (a1 (initSlots_lenGE _)), fun r a hra => by simp at hra, fun r r' a _ _ hra => by simp at hra⟩
      obtain ⟨c1, _, c3⟩ := allocAll_facts _ h inv0
      refine ⟨c1, ?_, ?_⟩
      · intro i r sym hi ht hs hn hsl
        have hmem : (i, 1) ∈ (sortedImports c).map (fun r => (r, 1)) :=
          List.mem_map.mpr ⟨i, mem_sortNat.mpr hi, rfl⟩
        have := b3 (i, 1) r sym hmem ht hs hn hsl
        exact c3 (r, 1) (List.mem_append_left _ this)
      · intro f e r sym hf he ht hs hn hsl
        have := a3 f e r sym hf he ht hs hn hsl
        exact c3 (r, e.2) (List.mem_append_right _ this)

-- ------------------------------------------------------------------------------------------------
-- AssignNamesByFrequency per namespace

theorem assignTabs_get {alpha : Rename.Alphabet} {reserved : List Name} {fuel : Nat} : ∀ (tab : SlotTab) (k : Nat)
    {tabs : List (List (Nat × Name))}, assignTabs alpha reserved fuel k tab = some tabs →
    ∀ j t, tabs[j]? = some t → ∃ sl, tab[j]? = some sl ∧
      Rename.assign alpha (k + j) (if k + j = 1 then jsKeywords else reserved) fuel sl = some t
  | [], k, tabs, h, j, t, ht => by
    simp only [assignTabs, Option.some.injEq] at h; subst h; simp at ht
  | sl :: rest, k, tabs, h, j, t, ht => by
    simp only [assignTabs] at h
    split at h
    · next t0 ts h0 hts =>
      simp only [Option.some.injEq] at h; subst h
      cases j with
      | zero =>
        simp only [List.getElem?_cons_zero, Option.some.injEq] at ht; subst ht
        exact ⟨sl, rfl, by simpa using h0⟩
      | succ j =>
        simp only [List.getElem?_cons_succ] at ht
        obtain ⟨sl', h1, h2⟩ := assignTabs_get rest (k + 1) hts j t ht
        refine ⟨sl', by simpa using h1, ?_⟩
        have e : k + 1 + j = k + (j + 1) := by omega
        rw [e] at h2; exact h2
    · cases h

/-- a name AssignNamesByFrequency gives to a slot of the default namespace (0) or to a label (1) is not in the
set it was told to avoid -/
theorem assign_pair_not_reserved {alpha : Rename.Alphabet} {reserved : List Name} {fuel ns : Nat} {sl : List Rename.Slot}
    {pairs : List (Nat × Name)} (hns : ns = 0 ∨ ns = 1) (h : Rename.assign alpha ns reserved fuel sl = some pairs)
    {i : Nat} {nm : Name} (hm : (i, nm) ∈ pairs) : nm ∉ reserved := by
  unfold Rename.assign at h
  simp only [Option.map_eq_some_iff] at h
  obtain ⟨ks, hks, rfl⟩ := h
  obtain ⟨j, hj, hget⟩ := List.mem_iff_getElem.mp hm
  simp only [List.length_zip, List.length_map] at hj
  obtain ⟨hlen, _, _, hok⟩ := Rename.assignSeq_spec _ 0 ks hks
  simp only [List.length_map] at hlen
  have hjk : j < ks.length := by omega
  have hjo : j < (Rename.order sl).length := by omega
  simp only [List.getElem_zip, List.getElem_map, Prod.mk.injEq] at hget
  have hallow := hok j ((Rename.order sl)[j]).2 ks[j] (by simp [hjo]) (by simp [hjk])
  have hne2 : ns ≠ 2 := by omega
  rw [← hget.2]
  simp only [hne2, if_false, List.nil_append]
  intro hmem
  rcases hns with rfl | rfl
  · simp [Rename.okFor] at hallow; exact hallow.1 hmem
  · simp [Rename.okFor] at hallow; exact hallow hmem

/-- UnionMax: the first top-level slot of a namespace is at least every file's nested slot count -/
theorem first_ge_file {files : List File} {f : File} (hf : f ∈ files) (k : Nat) :
    f.slotCounts.getD k 0 ≤ firstTopLevelSlots files k := by
  unfold firstTopLevelSlots
  have gen : ∀ (fs : List File) (acc : Slots.Counts),
      acc k ≤ (fs.foldl (fun acc f => Slots.unionMax acc (fun k => f.slotCounts.getD k 0)) acc) k ∧
      ∀ g, g ∈ fs → g.slotCounts.getD k 0 ≤ (fs.foldl (fun acc f => Slots.unionMax acc (fun k => f.slotCounts.getD k 0)) acc) k := by
    intro fs
    induction fs with
    | nil => intro acc; exact ⟨Nat.le_refl _, fun g hg => by simp at hg⟩
    | cons a as ih =>
      intro acc
      simp only [List.foldl_cons]
      obtain ⟨i1, i2⟩ := ih (Slots.unionMax acc (fun k => a.slotCounts.getD k 0))
      have hu1 : acc k ≤ Slots.unionMax acc (fun k => a.slotCounts.getD k 0) k := by
        simp only [Slots.unionMax]; split <;> omega
      have hu2 : a.slotCounts.getD k 0 ≤ Slots.unionMax acc (fun k => a.slotCounts.getD k 0) k := by
        simp only [Slots.unionMax]; split <;> omega
      refine ⟨Nat.le_trans hu1 i1, ?_⟩
      intro g hg
      rcases List.mem_cons.mp hg with rfl | hg
      · exact Nat.le_trans hu2 i1
      · exact i2 g hg
  exact (gen files Slots.zero).2 f hf

end EsbuildModel.ChunkNames
