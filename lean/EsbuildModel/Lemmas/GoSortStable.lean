import EsbuildModel.Lemmas.GoSortSym
/-!
`sort.Stable`, part 2e: the block structure (`stable`: insertion-sorted blocks of 20, then merge passes with doubling
block size) and the final theorem: the result is sorted, for every `Less` that is a total preorder.
-/
namespace EsbuildModel.GoSort
set_option linter.unusedSectionVars false
variable {α : Type} [Inhabited α]

/-- from `a` on, `cnt` consecutive runs of length `B` (the last one possibly shorter) are sorted and reach `n` -/
def Runs (lt : α → α → Bool) (f : Nat → α) (B n : Nat) : Nat → Nat → Prop
  | 0, a => n ≤ a
  | cnt + 1, a => SortedOn lt f a (min (a + B) n) ∧ Runs lt f B n cnt (a + B)

theorem Runs.congr (lt : α → α → Bool) (f g : Nat → α) (B n : Nat) : ∀ (cnt a : Nat), (∀ k, a ≤ k → k < n → g k = f k) →
    Runs lt f B n cnt a → Runs lt g B n cnt a := by
  intro cnt
  induction cnt with
  | zero => intro a _ h; exact h
  | succ cnt ih =>
    intro a he h
    exact ⟨h.1.congr (fun k k1 k2 => he k k1 (by omega)), ih (a + B) (fun k k1 k2 => he k (by omega) k2) h.2⟩

theorem blocks_sorted (lt : α → α → Bool) (hlt : TotalPreorder lt) (n bs : Nat) (hbs : 1 ≤ bs) :
    ∀ (fuel a : Nat) (d : Array α), n = d.size → n - a < fuel → a ≤ n →
    ∃ d', blocks lt n bs fuel a d = some d' ∧ d'.size = d.size ∧ (∃ cnt, Runs lt (view d') bs n cnt a) ∧
      EqOut (view d) (view d') a n := by
  intro fuel
  induction fuel with
  | zero => intro a d _ h; omega
  | succ fuel ih =>
    intro a d hn hf han
    unfold blocks
    by_cases hc : a + bs ≤ n
    · simp only [hc, if_true]
      obtain ⟨d1, h1, hs1, hsorted1, heq1⟩ := insertionSort_sorted lt hlt d a (a + bs) (by omega) (by omega)
      simp only [h1]
      obtain ⟨d', h2, hs2, ⟨cnt, hruns⟩, heq2⟩ := ih (a + bs) d1 (by omega) (by omega) hc
      refine ⟨d', h2, by omega, ⟨cnt + 1, ?_, hruns⟩, ?_⟩
      · have : min (a + bs) n = a + bs := by omega
        rw [this]
        exact hsorted1.congr (fun k k1 k2 => heq2 k (by omega))
      · intro k hk
        rw [heq2 k (by omega), heq1 k (by omega)]
    · simp only [hc, if_false]
      obtain ⟨d', h1, hs1, hsorted1, heq1⟩ := insertionSort_sorted lt hlt d a n han (by omega)
      refine ⟨d', h1, hs1, ⟨1, ?_, ?_⟩, heq1⟩
      · have : min (a + bs) n = n := by omega
        rw [this]; exact hsorted1
      · show n ≤ a + bs; omega

theorem mergePass_sorted (lt : α → α → Bool) (hlt : TotalPreorder lt) (n bs : Nat) (hbs : 1 ≤ bs) :
    ∀ (fuel a : Nat) (d : Array α) (cnt : Nat), n = d.size → n - a < fuel → Runs lt (view d) bs n cnt a →
    ∃ d', mergePass lt n bs fuel a d = some d' ∧ d'.size = d.size ∧ (∃ cnt', Runs lt (view d') (2 * bs) n cnt' a) ∧
      EqOut (view d) (view d') a n := by
  intro fuel
  induction fuel with
  | zero => intro a d _ _ h; omega
  | succ fuel ih =>
    intro a d cnt hn hf hruns
    unfold mergePass
    by_cases hc : a + 2 * bs ≤ n
    · simp only [hc, if_true]
      -- at least two full runs are left
      match cnt, hruns with
      | 0, h => exact absurd h (by show ¬ n ≤ a; omega)
      | 1, h => exact absurd h.2 (by show ¬ n ≤ a + bs; omega)
      | c + 2, h =>
        obtain ⟨r1, r2, r3⟩ := h
        have e1 : min (a + bs) n = a + bs := by omega
        have e2 : min (a + bs + bs) n = a + 2 * bs := by omega
        rw [e1] at r1; rw [e2] at r2
        obtain ⟨d1, h1, hs1, hsorted1, heq1, _⟩ := symMerge_sorted lt hlt (2 * bs + 1) d a (a + bs) (a + 2 * bs)
          (by omega) (by omega) (by omega) (by omega) r1 r2
        simp only [h1]
        have r3' : Runs lt (view d1) bs n c (a + 2 * bs) := by
          rw [show a + bs + bs = a + 2 * bs by omega] at r3
          exact Runs.congr lt _ _ bs n c _ (fun k k1 k2 => heq1 k (by omega)) r3
        obtain ⟨d', h2, hs2, ⟨cnt', hruns'⟩, heq2⟩ := ih (a + 2 * bs) d1 c (by omega) (by omega) r3'
        refine ⟨d', h2, by omega, ⟨cnt' + 1, ?_, hruns'⟩, ?_⟩
        · have : min (a + 2 * bs) n = a + 2 * bs := by omega
          rw [this]
          exact hsorted1.congr (fun k k1 k2 => heq2 k (by omega))
        · intro k hk
          rw [heq2 k (by omega), heq1 k (by omega)]
    · simp only [hc, if_false]
      by_cases hc2 : a + bs < n
      · simp only [hc2, if_true]
        match cnt, hruns with
        | 0, h => exact absurd h (by show ¬ n ≤ a; omega)
        | 1, h => exact absurd h.2 (by show ¬ n ≤ a + bs; omega)
        | c + 2, h =>
          obtain ⟨r1, r2, _⟩ := h
          have e1 : min (a + bs) n = a + bs := by omega
          have e2 : min (a + bs + bs) n = n := by omega
          rw [e1] at r1; rw [e2] at r2
          obtain ⟨d', h1, hs1, hsorted1, heq1, _⟩ := symMerge_sorted lt hlt (n - a + 1) d a (a + bs) n
            (by omega) hc2 (by omega) (by omega) r1 r2
          refine ⟨d', h1, hs1, ⟨1, ?_, ?_⟩, heq1⟩
          · have : min (a + 2 * bs) n = n := by omega
            rw [this]; exact hsorted1
          · show n ≤ a + 2 * bs; omega
      · simp only [hc2, if_false]
        refine ⟨d, rfl, rfl, ?_, EqOut.refl _ _ _⟩
        match cnt, hruns with
        | 0, h => exact ⟨0, h⟩
        | c + 1, h =>
          refine ⟨1, ?_, ?_⟩
          · have e1 : min (a + bs) n = min (a + 2 * bs) n := by omega
            rw [← e1]; exact h.1
          · show n ≤ a + 2 * bs; omega

theorem passes_sorted (lt : α → α → Bool) (hlt : TotalPreorder lt) (n : Nat) :
    ∀ (fuel bs : Nat) (d : Array α), n = d.size → 1 ≤ bs → n - bs < fuel → (∃ cnt, Runs lt (view d) bs n cnt 0) →
    ∃ d', passes lt n fuel bs d = some d' ∧ d'.size = d.size ∧ SortedOn lt (view d') 0 n := by
  intro fuel
  induction fuel with
  | zero => intro bs d _ _ h; omega
  | succ fuel ih =>
    intro bs d hn hbs hf ⟨cnt, hruns⟩
    unfold passes
    by_cases hc : bs < n
    · simp only [hc, if_true]
      obtain ⟨d1, h1, hs1, hruns1, _⟩ := mergePass_sorted lt hlt n bs hbs (n + 1) 0 d cnt hn (by omega) hruns
      simp only [h1]
      obtain ⟨d', h2, hs2, hsorted⟩ := ih (2 * bs) d1 (by omega) (by omega) (by omega) hruns1
      exact ⟨d', h2, by omega, hsorted⟩
    · simp only [hc, if_false]
      refine ⟨d, rfl, rfl, ?_⟩
      match cnt, hruns with
      | 0, h =>
        have : n = 0 := by
          have : n ≤ 0 := h
          omega
        subst this
        intro i j _ _ h3; omega
      | c + 1, h =>
        have e : min (0 + bs) n = n := by omega
        have := h.1
        rw [e] at this
        exact this

/-- **`sort.Stable` sorts for every total preorder `Less`** (reflexive relations such as `<=` included): the result
exists (no panic, all loops end), has the same size, and `Less` holds from every element to every later one. -/
theorem stable_sorted (lt : α → α → Bool) (hlt : TotalPreorder lt) (d : Array α) :
    ∃ d', stable lt d = some d' ∧ d'.toList.Pairwise (fun a b => lt a b = true) := by
  unfold stable
  simp only
  obtain ⟨d1, h1, hs1, hruns1, _⟩ := blocks_sorted lt hlt d.size 20 (by omega) (d.size + 1) 0 d rfl (by omega) (by omega)
  rw [h1]
  simp only
  obtain ⟨d', h2, hs2, hsorted⟩ := passes_sorted lt hlt d.size (d.size + 1) 20 d1 (by omega) (by omega) (by omega) hruns1
  refine ⟨d', h2, ?_⟩
  rw [List.pairwise_iff_getElem]
  intro i j hi hj hij
  simp only [Array.length_toList] at hi hj
  have := hsorted i j (by omega) (by omega) (by omega)
  simp only [view, Array.getD_eq_getD_getElem?, Array.getElem?_eq_getElem hi, Array.getElem?_eq_getElem hj, Option.getD_some] at this
  simpa using this

end EsbuildModel.GoSort
