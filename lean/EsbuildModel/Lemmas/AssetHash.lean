import EsbuildModel.Impl.AssetHash
import EsbuildModel.Lemmas.IsoHashName
import EsbuildModel.Lemmas.OutPathsInside
/-! Lemmas for the names of emitted assets (property C18, `Impl/AssetHash.lean`). -/
namespace EsbuildModel.AssetHash
open EsbuildModel.OutPaths EsbuildModel.Spec.OutPath

/-- a character of the base32 alphabet `A`–`Z`, `2`–`7` -/
def B32Char (c : Char) : Prop := IsoHash.IsB32 c.toNat

instance (c : Char) : Decidable (B32Char c) := by unfold B32Char IsoHash.IsB32; infer_instance

/-- `values` are the four values of `Lemmas/OutPathsExpand.lean` -/
theorem values_eq (d b h e : Str) : values d b h e = allValues d b h (trimDot e) := rfl

/-- the text of a template with all four values written in: data of every part followed by its value -/
def renderParts (d b h e : Str) (t : List Part) : Str :=
  (t.map fun p => p.data ++ valueOf d b h e p.ph).flatten

theorem renderParts_nil (d b h e : Str) : renderParts d b h e [] = [] := rfl

theorem renderParts_cons (d b h e : Str) (p : Part) (t : List Part) :
    renderParts d b h e (p :: t) = p.data ++ valueOf d b h e p.ph ++ renderParts d b h e t := by
  simp [renderParts]

theorem renderWith_allValues (d b h e : Str) (t : List Part) :
    renderWith (allValues d b h e) t = renderParts d b h e t := by
  unfold renderWith renderParts
  congr 1
  apply List.map_congr_left
  intro p _
  cases p with
  | mk data ph => exact partText_allValues d b h e data ph

/-- a value for `[hash]` does not matter when the template has no `[hash]` -/
theorem renderParts_no_hash (d b h h' e : Str) (t : List Part) (hno : hasPlaceholder t .hash = false) :
    renderParts d b h e t = renderParts d b h' e t := by
  induction t with
  | nil => rfl
  | cons p t ih =>
    have hp : p.ph ≠ .hash ∧ hasPlaceholder t .hash = false := by
      simpa [hasPlaceholder] using hno
    rw [renderParts_cons, renderParts_cons, ih hp.2]
    cases hph : p.ph <;> simp_all [valueOf]

/-- the digest has eight bytes, so `HashForFileName` never panics here -/
theorem contentHash_shape (bytes : List Nat) :
    ∃ H, contentHash bytes = some H ∧ H.length = 8 ∧ ∀ c ∈ H, B32Char c := by
  obtain ⟨n, h1, h2, h3⟩ := IsoHash.hashForFileName_shape (IsoHash.Digest.new.write bytes).sum
    (by rw [IsoHash.sum_length]; decide)
  refine ⟨n.map Char.ofNat, by simp [contentHash, h1], by simpa using h2, ?_⟩
  intro c hc
  obtain ⟨k, hk, rfl⟩ := List.mem_map.mp hc
  have hb := h3 k hk
  unfold B32Char
  have hlt : k < 256 := by unfold IsoHash.IsB32 at hb; omega
  have : (Char.ofNat k).toNat = k := by
    have hv : k.isValidChar := by unfold Nat.isValidChar; omega
    simp [Char.ofNat, hv, Char.toNat, Char.ofNatAux]
  rw [this]; exact hb

/-- `relPath` in terms of `renderParts` -/
theorem relPath_eq (o : Opts) (a : Asset) (entryOut : Option Str) (h : Str)
    (hh : hashFor (naming o a entryOut).template a.bytes = some h) :
    relPath o a entryOut =
      some (renderParts (dirBaseExt o a (naming o a entryOut)).1 (dirBaseExt o a (naming o a entryOut)).2.1 h
              (trimDot (dirBaseExt o a (naming o a entryOut)).2.2) (naming o a entryOut).template
            ++ (dirBaseExt o a (naming o a entryOut)).2.2) := by
  unfold relPath
  simp only [hh]
  rw [values_eq, templateToString_substituteTemplate, renderWith_allValues]

/-- offset of the first `[hash]` in the rendered text (`none`: the template has no `[hash]`) -/
def hashOffset (d b e : Str) : List Part → Option Nat
  | [] => none
  | p :: rest =>
    if p.ph = .hash then some p.data.length
    else (hashOffset d b e rest).map (· + (p.data ++ valueOf d b [] e p.ph).length)

theorem hashOffset_isSome (d b e : Str) (t : List Part) :
    (hashOffset d b e t).isSome = hasPlaceholder t .hash := by
  induction t with
  | nil => rfl
  | cons p t ih =>
    unfold hashOffset
    by_cases hp : p.ph = .hash
    · simp [hp, hasPlaceholder]
    · simp only [hp, if_false, Option.isSome_map, ih]
      simp [hasPlaceholder, hp]

/-- the eight characters at the offset are the hash -/
theorem drop_hashOffset (d b h e : Str) (t : List Part) (k : Nat) (x : Str)
    (hk : hashOffset d b e t = some k) :
    ((renderParts d b h e t ++ x).drop k).take h.length = h := by
  induction t generalizing k with
  | nil => simp [hashOffset] at hk
  | cons p t ih =>
    unfold hashOffset at hk
    by_cases hp : p.ph = .hash
    · simp only [hp, if_true, Option.some.injEq] at hk
      subst hk
      rw [renderParts_cons, hp]
      simp [valueOf, List.append_assoc]
    · simp only [hp, if_false] at hk
      cases ho : hashOffset d b e t with
      | none => rw [ho] at hk; simp at hk
      | some k' =>
        rw [ho] at hk
        simp only [Option.map_some, Option.some.injEq] at hk
        have hv : valueOf d b h e p.ph = valueOf d b [] e p.ph := by
          cases hph : p.ph <;> simp_all [valueOf]
        rw [renderParts_cons, hv, ← hk, List.append_assoc]
        have : k' + (p.data ++ valueOf d b [] e p.ph).length = (p.data ++ valueOf d b [] e p.ph).length + k' := by omega
        rw [this, ← List.drop_drop, List.drop_left]
        exact ih k' ho

/-- everything before the first `[hash]` is literal text: the offset does not depend on the values -/
def LiteralBeforeHash : List Part → Prop
  | [] => True
  | p :: rest => p.ph = .hash ∨ (p.ph = .none ∧ LiteralBeforeHash rest)

instance decLiteralBeforeHash : (t : List Part) → Decidable (LiteralBeforeHash t)
  | [] => isTrue trivial
  | p :: rest => by
    unfold LiteralBeforeHash
    have := decLiteralBeforeHash rest
    infer_instance

theorem hashOffset_literal (d b e d' b' e' : Str) (t : List Part) (hl : LiteralBeforeHash t) :
    hashOffset d b e t = hashOffset d' b' e' t := by
  induction t with
  | nil => rfl
  | cons p t ih =>
    unfold hashOffset
    rcases hl with hp | ⟨hp, hl⟩
    · simp [hp]
    · simp [hp, valueOf, ih hl]

end EsbuildModel.AssetHash
