import EsbuildModel.Impl.Pieces
namespace EsbuildModel.Pieces

theorem count_eq_len (f : Kind → Nat → List Nat) (ps : List Piece) :
    byteCount f ps = (substitute f ps).length := by
  induction ps with
  | nil => rfl
  | cons p ps ih =>
    simp only [byteCount, substitute, List.length_append, ih]
    cases p.kind <;> simp

/-- concatenating every piece's data and the key bytes that followed it gives back the scanned output -/
def rejoin (ps : List Piece) : List Nat := ps.flatMap fun p => p.data ++ p.raw

theorem indexOf_le (pre : List Nat) (out : List Nat) (b : Nat) (h : indexOf pre out = some b) : b ≤ out.length := by
  induction out generalizing b with
  | nil => simp [indexOf] at h; omega
  | cons x xs ih =>
    simp only [indexOf] at h
    split at h
    · simp at h; omega
    · cases h' : indexOf pre xs with
      | none => simp [h'] at h
      | some b' => simp [h'] at h; have := ih b' h'; simp; omega

theorem rejoin_break (pre : List Nat) (nf nc fuel : Nat) (out : List Nat) :
    rejoin (breakOutput pre nf nc fuel out) = out := by
  induction fuel generalizing out with
  | zero => simp [breakOutput, rejoin]
  | succ fuel ih =>
    unfold breakOutput
    split
    · simp [rejoin]
    · rename_i boundary hb
      simp only
      split
      · simp [rejoin]
      · rename_i hlen
        split
        · simp [rejoin]
        · rename_i kind index hk
          have ih' := ih (out.drop (boundary + pre.length + 9))
          simp only [rejoin, List.flatMap_cons] at ih' ⊢
          rw [ih']
          have e1 : List.take (pre.length + 9) (List.drop boundary out) ++ List.drop (boundary + pre.length + 9) out = List.drop boundary out := by
            have : boundary + pre.length + 9 = boundary + (pre.length + 9) := by omega
            rw [this, ← List.drop_drop]
            exact List.take_append_drop _ _
          rw [List.append_assoc, e1]
          exact List.take_append_drop _ _


theorem le32_inj (a b : Nat) (ha : a < 4294967296) (hb : b < 4294967296) (h : le32 a = le32 b) : a = b := by
  simp only [le32, List.cons.injEq, and_true] at h
  omega

theorem le32_length (a : Nat) : (le32 a).length = 4 := rfl

theorem preimage_cons (x : List Nat) (xs : List (List Nat)) :
    preimage (x :: xs) = le32 (x.length % 4294967296) ++ (x ++ preimage xs) := by
  simp [preimage, lenPrefixed]

theorem preimage_injective (a b : List (List Nat))
    (ha : ∀ x ∈ a, x.length < 4294967296) (hb : ∀ x ∈ b, x.length < 4294967296)
    (h : preimage a = preimage b) : a = b := by
  induction a generalizing b with
  | nil =>
    cases b with
    | nil => rfl
    | cons y ys =>
      rw [preimage_cons] at h
      have := congrArg List.length h
      simp [preimage, le32_length] at this
      omega
  | cons x xs ih =>
    cases b with
    | nil =>
      rw [preimage_cons] at h
      have := congrArg List.length h
      simp [preimage, le32_length] at this
    | cons y ys =>
      rw [preimage_cons, preimage_cons] at h
      have hx := ha x (by simp)
      have hy := hb y (by simp)
      have h1 := List.append_inj h (by simp [le32_length])
      have hl : x.length = y.length := by
        have := le32_inj _ _ (Nat.mod_lt _ (by decide)) (Nat.mod_lt _ (by decide)) h1.1
        rw [Nat.mod_eq_of_lt hx, Nat.mod_eq_of_lt hy] at this
        exact this
      have h2 := List.append_inj h1.2 hl
      rw [h2.1, ih ys (fun z hz => ha z (by simp [hz])) (fun z hz => hb z (by simp [hz])) h2.2]

end EsbuildModel.Pieces
