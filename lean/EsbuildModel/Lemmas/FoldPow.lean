import EsbuildModel.Lemmas.FoldNum
/-! The `**` case of FoldBinaryOperator (esbuild's own NaN checks in front of Go's `math.Pow`) against
Number::exponentiate (ECMA-262 6.1.6.1.3), for every pair of float64 values. -/
set_option linter.unusedSimpArgs false
namespace EsbuildModel.Fold
open EsbuildModel F64 EsbuildModel.Spec.JsArith

theorem two_pow_pos' (k : Nat) : 0 < 2 ^ k := Nat.two_pow_pos k

/-- value one: m · 2^e = 1 -/
theorem eq_one_facts (n : Bool) (m : Nat) (e : Int) (h : ieeeEq (.fin n m e) one = true) :
    n = false ∧ m ≠ 0 ∧ isIntegral m e = true ∧ truncAbs m e = 1 := by
  simp only [ieeeEq, one, finEq_iff, scaled_eq] at h
  have hpos : 0 < mag 1 0 (min e 0) := by
    have := (mag_eq_zero 1 0 (min e 0)); omega
  have hn : n = false := by
    cases n
    · rfl
    · simp at h; omega
  subst hn
  simp only [Bool.false_eq_true, if_false] at h
  have hm : mag m e (min e 0) = mag 1 0 (min e 0) := by omega
  have hm0 : m ≠ 0 := by
    intro h0; subst h0
    have := (mag_eq_zero 0 e (min e 0)).mpr rfl; omega
  refine ⟨rfl, hm0, ?_, ?_⟩
  · unfold isIntegral
    by_cases he : e ≥ 0
    · simp [he]
    · have hmin : min e 0 = e := by omega
      rw [hmin] at hm
      simp only [mag, Int.sub_self, Int.toNat_zero, Nat.pow_zero, Nat.mul_one, Nat.one_mul] at hm
      have : (0 - e).toNat = (-e).toNat := by congr 1; omega
      rw [this] at hm
      simp [he, hm]
  · unfold truncAbs
    by_cases he : e ≥ 0
    · have hmin : min e 0 = 0 := by omega
      rw [hmin] at hm
      simp only [mag, Int.sub_zero, Int.sub_self, Int.toNat_zero, Nat.pow_zero, Nat.mul_one] at hm
      simp [he, hm]
    · have hmin : min e 0 = e := by omega
      rw [hmin] at hm
      simp only [mag, Int.sub_self, Int.toNat_zero, Nat.pow_zero, Nat.mul_one, Nat.one_mul] at hm
      have : (0 - e).toNat = (-e).toNat := by congr 1; omega
      rw [this] at hm
      simp only [he, if_false, hm]
      exact Nat.div_self (two_pow_pos' _)

theorem eq_negone_abs (n : Bool) (m : Nat) (e : Int) (h : ieeeEq (.fin n m e) (.fin true 1 0) = true) :
    ieeeEq (.fin false m e) one = true := by
  simp only [ieeeEq, one, finEq_iff, scaled_eq] at h ⊢
  have hpos : 0 < mag 1 0 (min e 0) := by
    have := (mag_eq_zero 1 0 (min e 0)); omega
  cases n <;> simp at h ⊢ <;> omega

theorem eq_one_abs (n : Bool) (m : Nat) (e : Int) (h : ieeeEq (.fin n m e) one = true) :
    ieeeEq (.fin false m e) one = true := by
  have := (eq_one_facts n m e h).1; subst this; exact h

/-- |x| compared with 1: exactly one of <, =, > -/
theorem abs_one_trichotomy (m : Nat) (e : Int) :
    ieeeLt one (.fin false m e) = (!ieeeLt (.fin false m e) one && !ieeeEq (.fin false m e) one) := by
  rw [Bool.eq_iff_iff]
  simp only [ieeeLt, ieeeEq, one, Bool.and_eq_true, Bool.not_eq_true', ← Bool.not_eq_true, finLt_iff, finEq_iff,
    Int.min_comm 0 e]
  omega

theorem goIsOddInt_fin (n : Bool) (m : Nat) (e : Int) :
    goIsOddInt (.fin n m e) =
      if ieeeGe (.fin false m e) (.fin false (2 ^ 53) 0) then false
      else (isIntegral m e && truncAbs m e % 2 == 1) := rfl

theorem goIsOddInt_eq (y : F64) (hy : Mant53 y) : goIsOddInt y = isOddInteger y := by
  cases y with
  | nan => simp [goIsOddInt, isOddInteger, ieeeGe, ieeeLt, ieeeEq, abs]
  | inf n => simp [goIsOddInt, isOddInteger, ieeeGe, ieeeLt, ieeeEq, abs]
  | fin n m e =>
    rw [goIsOddInt_fin]
    simp only [isOddInteger]
    by_cases hge : (fin false m e).ieeeGe (fin false (2 ^ 53) 0) = true
    · rw [if_pos hge]
      -- value ≥ 2^53 with m < 2^53 forces e ≥ 1, so the integer is even
      have hm : m < 2 ^ 53 := hy
      simp only [ieeeGe, ieeeLt, ieeeEq, Bool.or_eq_true, finLt_iff, finEq_iff, scaled_eq, Bool.false_eq_true,
        if_false, Int.min_comm 0 e] at hge
      have he : e ≥ 1 := by
        rcases Int.lt_or_le e 1 with hlt | hle
        · exfalso
          have hmin : min e 0 = e := by omega
          rw [hmin] at hge
          have h1 : mag m e e = m := by simp [mag]
          have h2 : 2 ^ 53 ≤ mag (2 ^ 53) 0 e := by
            unfold mag
            exact Nat.le_mul_of_pos_right _ (two_pow_pos' _)
          omega
        · exact hle
      have heven : truncAbs m e % 2 = 0 := by
        unfold truncAbs
        have : e ≥ 0 := by omega
        simp only [this, if_true]
        obtain ⟨k, hk⟩ : ∃ k, e.toNat = k + 1 := ⟨e.toNat - 1, by omega⟩
        rw [hk, Nat.pow_succ, ← Nat.mul_assoc, Nat.mul_mod_left]
      simp [heven]
    · rw [if_neg hge]

theorem goIsOddInt_neg (y : F64) : goIsOddInt (neg y) = goIsOddInt y := by
  cases y <;> rfl

/-- the two facts about the "implementation-approximated" power that the Go code relies on -/
structure PowLaws (P : Params) : Prop where
  /-- 1 raised to any finite power is 1 -/
  one_base : ∀ x y, ieeeEq x one = true → P.pow x y = one
  /-- x raised to the power 1 is x -/
  one_exp : ∀ x y, ieeeEq y one = true → same x (P.pow x y)

/-- the `BinOpPow` case of FoldBinaryOperator -/
def foldPow (A : Arith) (a b : F64) : F64 :=
  if isNaN b || (isInf b && ieeeEq (abs a) one) then .nan else goPow A a b


theorem ieeeEq_nan_l (x : F64) : ieeeEq .nan x = false := rfl
theorem ieeeEq_nan_r (x : F64) : ieeeEq x .nan = false := by cases x <;> rfl
theorem ieeeLt_nan_l (x : F64) : ieeeLt .nan x = false := rfl
theorem ieeeLt_nan_r (x : F64) : ieeeLt x .nan = false := by cases x <;> rfl
theorem ieeeEq_inf_zero (a : Bool) : ieeeEq (.inf a) zero = false := rfl
theorem ieeeEq_inf_one (a : Bool) : ieeeEq (.inf a) one = false := rfl
theorem ieeeEq_inf_fin (a n : Bool) (m : Nat) (e : Int) : ieeeEq (.inf a) (.fin n m e) = false := rfl
theorem ieeeEq_fin_inf (a n : Bool) (m : Nat) (e : Int) : ieeeEq (.fin n m e) (.inf a) = false := rfl
theorem ieeeLt_inf_zero (a : Bool) : ieeeLt (.inf a) zero = a := rfl
theorem ieeeLt_zero_inf (a : Bool) : ieeeLt zero (.inf a) = !a := rfl
theorem ieeeLt_inf_one (a : Bool) : ieeeLt (.inf a) one = a := rfl
theorem ieeeLt_one_inf (a : Bool) : ieeeLt one (.inf a) = !a := rfl
theorem ieeeLt_inf_fin (a n : Bool) (m : Nat) (e : Int) : ieeeLt (.inf a) (.fin n m e) = a := rfl
theorem ieeeLt_fin_inf (a n : Bool) (m : Nat) (e : Int) : ieeeLt (.fin n m e) (.inf a) = !a := rfl

-- exponent NaN / ±0
theorem pow_nan_exp (P : Params) (a : F64) : same (foldPow P.toArith a .nan) (exponentiate P a .nan) := by
  simp [foldPow, exponentiate, isNaN, same]

theorem pow_zero_exp (P : Params) (a : F64) (n : Bool) (e : Int) :
    same (foldPow P.toArith a (.fin n 0 e)) (exponentiate P a (.fin n 0 e)) := by
  simp [foldPow, exponentiate, isNaN, isInf, isZero, goPow, ieeeEq_fin_zero, same_refl]

theorem zero_ne_one (n : Bool) (e : Int) : ieeeEq (.fin n 0 e) one = false := by
  cases h : ieeeEq (.fin n 0 e) one
  · rfl
  · exact absurd rfl (eq_one_facts _ _ _ h).2.1

-- exponent ±∞
theorem pow_inf_exp (P : Params) (a : F64) (bn : Bool) :
    same (foldPow P.toArith a (.inf bn)) (exponentiate P a (.inf bn)) := by
  cases a with
  | nan => simp [foldPow, exponentiate, isNaN, isInf, isZero, goPow, ieeeEq_nan_l, abs, ieeeEq_inf_zero, ieeeEq_inf_one, same]
  | inf an =>
    cases an <;> cases bn <;>
      simp [foldPow, exponentiate, isNaN, isInf, isZero, goPow, ieeeEq_inf_zero, ieeeEq_inf_one, ieeeEq_inf_fin,
        ieeeLt_inf_one, abs, same, gtZero, isOddInteger, isInfSign]
  | fin an am ae =>
    by_cases hm : am = 0
    · subst hm
      cases an <;> cases bn <;>
        simp [foldPow, exponentiate, isNaN, isInf, isZero, goPow, abs, zero_ne_one, ieeeEq_fin_zero, goPowZero,
          ieeeEq_inf_zero, ieeeEq_inf_one, ieeeLt_inf_zero, ieeeLt_zero_inf, ieeeGt, signbit, goIsOddInt, ieeeGe, ieeeLt_fin_inf,
          same, gtZero, isOddInteger]
    · -- finite non-zero base: compare |base| with 1
      have hz : ieeeEq (.fin an am ae) zero = false := by simp [ieeeEq_fin_zero, hm]
      have tri := abs_one_trichotomy am ae
      cases hEq : ieeeEq (.fin false am ae) one
      · -- |base| ≠ 1
        have h1 : ieeeEq (.fin an am ae) one = false := by
          cases h : ieeeEq (.fin an am ae) one
          · rfl
          · rw [eq_one_abs _ _ _ h] at hEq; cases hEq
        have h2 : ieeeEq (.fin an am ae) (.fin true 1 0) = false := by
          cases h : ieeeEq (.fin an am ae) (.fin true 1 0)
          · rfl
          · rw [eq_negone_abs _ _ _ h] at hEq; cases hEq
        rw [hEq] at tri
        cases hLt : ieeeLt (.fin false am ae) one <;> rw [hLt] at tri <;> cases bn <;>
          simp [foldPow, exponentiate, isNaN, isInf, isZero, goPow, abs, hEq, h1, h2, hz, hm, hLt, tri,
            ieeeEq_inf_zero, ieeeEq_inf_one, isInfSign, same]
      · cases bn <;> simp [foldPow, exponentiate, isNaN, isInf, isZero, abs, hEq, hm, tri, same]

theorem ieeeEq_one_false_of_abs (n : Bool) (m : Nat) (e : Int) (h : ieeeEq (.fin false m e) one = false) :
    ieeeEq (.fin n m e) one = false := by
  cases h' : ieeeEq (.fin n m e) one
  · rfl
  · rw [eq_one_abs _ _ _ h'] at h; cases h

-- exponent finite and non-zero
theorem pow_fin_exp (P : Params) (hP : PowLaws P) (a : F64) (bn : Bool) (bm : Nat) (be : Int)
    (hbm : bm ≠ 0) (hM : bm < 2 ^ 53) :
    same (foldPow P.toArith a (.fin bn bm be)) (exponentiate P a (.fin bn bm be)) := by
  have hbz : ieeeEq (.fin bn bm be) zero = false := by simp [ieeeEq_fin_zero, hbm]
  have hlt : ieeeLt (.fin bn bm be) zero = bn := by simp [ieeeLt_fin_zero, hbm]
  have hgt : ieeeLt zero (.fin bn bm be) = !bn := by simp [ieeeLt_zero_fin, hbm]
  have hodd : goIsOddInt (.fin bn bm be) = isOddInteger (.fin bn bm be) := goIsOddInt_eq _ hM
  have hgz : gtZero (.fin bn bm be) = !bn := by simp [gtZero, hbm]
  cases hb1 : ieeeEq (.fin bn bm be) one
  · -- exponent ≠ 1
    cases a with
    | nan => simp [foldPow, exponentiate, isNaN, isInf, isZero, goPow, hbz, hb1, hbm, ieeeEq_nan_l, same]
    | inf an =>
      cases an
      · cases bn <;>
          simp [foldPow, exponentiate, isNaN, isInf, isZero, goPow, hbz, hb1, hbm, ieeeEq_inf_one, ieeeEq_inf_zero,
            isInfSign, hlt, hgt, ieeeGt, hgz, same] <;> simp_all
      · -- base −∞: Pow(−0, −y)
        have hoddn : goIsOddInt (neg (.fin bn bm be)) = isOddInteger (.fin bn bm be) := by
          rw [goIsOddInt_neg, hodd]
        have hnlt : ieeeLt (neg (.fin bn bm be)) zero = !bn := by simp [neg, ieeeLt_fin_zero, hbm]
        have hngt : ieeeLt zero (neg (.fin bn bm be)) = bn := by simp [neg, ieeeLt_zero_fin, hbm]
        cases hn1 : ieeeEq (neg (.fin bn bm be)) one
        · cases bn <;>
            simp [foldPow, exponentiate, isNaN, isInf, isZero, goPow, hbz, hb1, hbm, ieeeEq_inf_one, ieeeEq_inf_zero,
              isInfSign, hn1, goPowZero, hnlt, hngt, ieeeGt, hgz, hoddn, signbit] <;>
            split <;> simp [same]
        · have f := eq_one_facts _ _ _ hn1
          have hbn : bn = true := by simpa using f.1
          subst hbn
          have hoddt : isOddInteger (.fin true bm be) = true := by
            simp [isOddInteger, f.2.2.1, f.2.2.2]
          simp [foldPow, exponentiate, isNaN, isInf, isZero, goPow, hbz, hb1, hbm, ieeeEq_inf_one, ieeeEq_inf_zero,
              isInfSign, hn1, hgz, hoddt, same]
    | fin an am ae =>
      by_cases hm : am = 0
      · subst hm
        cases an <;> cases bn <;>
          simp [foldPow, exponentiate, isNaN, isInf, isZero, goPow, hbz, hb1, hbm, zero_ne_one, ieeeEq_fin_zero,
            goPowZero, hlt, hgt, ieeeGt, hgz, hodd, signbit] <;>
          (try split) <;> simp [same]
      · have hz : ieeeEq (.fin an am ae) zero = false := by simp [ieeeEq_fin_zero, hm]
        have hxlt : ieeeLt (.fin an am ae) zero = an := by simp [ieeeLt_fin_zero, hm]
        cases ha1 : ieeeEq (.fin an am ae) one
        · simp [foldPow, exponentiate, isNaN, isInf, isZero, goPow, hbz, hb1, hbm, ha1, hz, hm, hxlt, isInteger]
          split <;> first | exact same_refl _ | simp [same]
        · have f := eq_one_facts _ _ _ ha1
          have han : an = false := f.1
          subst han
          have := hP.one_base _ (.fin bn bm be) ha1
          simp [foldPow, exponentiate, isNaN, isInf, isZero, goPow, hbz, hbm, ha1, hm, this, same]
  · -- exponent = 1
    have f := eq_one_facts _ _ _ hb1
    have hbn : bn = false := f.1
    subst hbn
    have hoddt : isOddInteger (.fin false bm be) = true := by simp [isOddInteger, f.2.2.1, f.2.2.2]
    cases a with
    | nan => simp [foldPow, exponentiate, isNaN, isInf, isZero, goPow, hbz, hb1, hbm, ieeeEq_nan_l, same]
    | inf an =>
      cases an <;>
        simp [foldPow, exponentiate, isNaN, isInf, isZero, goPow, hbz, hb1, hbm, ieeeEq_inf_one, hgz, hoddt, same]
    | fin an am ae =>
      by_cases hm : am = 0
      · subst hm
        cases an <;>
          simp [foldPow, exponentiate, isNaN, isInf, isZero, goPow, hbz, hb1, hbm, zero_ne_one, hgz, hoddt, same]
      · cases ha1 : ieeeEq (.fin an am ae) one
        · have := hP.one_exp (.fin an am ae) (.fin false bm be) hb1
          simp [foldPow, exponentiate, isNaN, isInf, isZero, goPow, hbz, hb1, hbm, ha1, hm, isInteger, f.2.2.1]
          exact this
        · have f' := eq_one_facts _ _ _ ha1
          have han : an = false := f'.1
          subst han
          have := hP.one_base _ (.fin false bm be) ha1
          simp [foldPow, exponentiate, isNaN, isInf, isZero, goPow, hbz, hbm, ha1, hm, this, same]

theorem pow_correct (P : Params) (hP : PowLaws P) (a b : F64) (hb : Mant53 b) :
    same (foldPow P.toArith a b) (exponentiate P a b) := by
  cases b with
  | nan => exact pow_nan_exp P a
  | inf bn => exact pow_inf_exp P a bn
  | fin bn bm be =>
    by_cases hbm : bm = 0
    · subst hbm; exact pow_zero_exp P a bn be
    · exact pow_fin_exp P hP a bn bm be hbm hb

end EsbuildModel.Fold
