import EsbuildModel.Lemmas.LexNumFloat
/-
Soundness of the two branches: what `.num` / `.big` results mean.
-/
namespace EsbuildModel.LexNum
open EsbuildModel.Spec.Num EsbuildModel.Spec.NumLit

/-- the statement of soundness for a Number token -/
def NumSound (R : Rat → F64) (src : List Char) (len : Nat) (v : F64) (lg : Bool) : Prop :=
  ∃ l : Lit, l.valid = true ∧ l.isBig = false ∧ l.render = src.take len ∧ v = R l.mv ∧ lg = l.isLegacy

/-- the statement of soundness for a BigInt token: the consumed text is a BigInt literal, and the recorded text
(with the suffix put back) is a BigInt literal without separators that has the same mathematical value -/
def BigSound (src : List Char) (len : Nat) (text : List Char) (lg : Bool) : Prop :=
  ∃ l : Lit, l.valid = true ∧ l.isBig = true ∧ l.render = src.take len ∧
    (∃ l' : Lit, l'.valid = true ∧ l'.isBig = true ∧ l'.render = text ++ ['n'] ∧ l'.mv = l.mv) ∧
    (∀ c ∈ text, c ≠ '_') ∧ lg = false

theorem floatPath_num {P : Params} {R : Rat → F64} (hP : ParamsOK P R) {first : Char} {rest : List Char}
    (hfirst : (first = '.' ∧ headIsDig rest = true) ∨ (first ≠ '.' ∧ isDig first = true))
    (hzero : first = '0' → ∀ c r, rest = c :: r → ¬ (48 ≤ c.toNat ∧ c.toNat ≤ 55) ∧ c ≠ '_')
    {len : Nat} {v : F64} {lg : Bool} (h : floatPath P first (first :: rest) rest = .num len v lg) :
    NumSound R (first :: rest) len v lg := by
  obtain ⟨il, r1, s1, r2, s2, hd, r3, s3, he, hil, h1, h2, h3, hcase⟩ :=
    floatPath_cases h (by intro p hp; cases hp)
  rcases hcase with ⟨hb, _, hfin⟩ | ⟨hb, hfin⟩
  · obtain ⟨_, _, _, _, hnb⟩ := finish_num hfin.symm
    rw [hb] at hnb; cases hnb
  · obtain ⟨hp3, hlen, hv, hlg, _⟩ := finish_num hfin.symm
    obtain ⟨i, f, e, hvalid, hrender, hcount, hde, hno, _, _, hl⟩ := floatPath_shape hfirst hzero hil h1 h2 h3 hp3
    refine ⟨Lit.dec i f e, hvalid, rfl, by rw [hlen, hrender], ?_, by rw [hlg]; exact hno.symm⟩
    rw [hv, ← hrender, stripUS_eq hcount]
    exact dec_value hP hvalid (hd || he) hde s3.end_ hl

theorem headIs_n {r : List Char} (h : headIs r (fun c => c == 'n') = true) : ∃ r', r = 'n' :: r' := by
  cases r with
  | nil => simp [headIs] at h
  | cons c r' =>
    have : c = 'n' := by simpa [headIs] using h
    exact ⟨r', by rw [this]⟩

theorem floatPath_big {P : Params} {first : Char} {rest : List Char}
    (hfirst : (first = '.' ∧ headIsDig rest = true) ∨ (first ≠ '.' ∧ isDig first = true))
    (hzero : first = '0' → ∀ c r, rest = c :: r → ¬ (48 ≤ c.toNat ∧ c.toNat ≤ 55) ∧ c ≠ '_')
    {len : Nat} {text : List Char} {lg : Bool} (h : floatPath P first (first :: rest) rest = .big len text lg) :
    BigSound (first :: rest) len text lg := by
  obtain ⟨il, r1, s1, r2, s2, hd, r3, s3, he, hil, h1, h2, h3, hcase⟩ :=
    floatPath_cases h (by intro p hp; cases hp)
  rcases hcase with ⟨hb, hz, hfin⟩ | ⟨hb, hfin⟩
  · obtain ⟨hp3, hlen, htext, hlg, hn, hde0⟩ := finish_big hfin.symm
    obtain ⟨i, f, e, hvalid, hrender, hcount, hde, hno, hi, hdrop, hl⟩ := floatPath_shape hfirst hzero hil h1 h2 h3 hp3
    rw [hde0] at hde
    have hf : f = none := by
      cases f with
      | none => rfl
      | some g => simp at hde
    have he' : e = none := by
      cases e with
      | none => rfl
      | some g => simp at hde
    subst hf he'
    have hri : (Lit.dec i none none).render = i := by simp [Lit.render, fracText, expSText]
    rw [hri] at hrender hcount
    have hfd : first ≠ '.' := by
      rcases hfirst with ⟨hf, _⟩ | ⟨hf, _⟩
      · exfalso
        obtain ⟨_, hs1, _⟩ := digLoop_ok inv_st1 h1
        rcases fracPart_ok hs1.inv h2 with ⟨_, _, hd', _⟩ | ⟨hne, _⟩
        · rw [hf] at hd'
          rw [hd'] at hde0
          simp at hde0
        · exact hne hf
      · exact hf
    obtain ⟨run1, rfl, hrun1⟩ := hi hfd
    rw [← hrender, stripUS_eq hcount] at htext hz
    have hdec : decIntOk (first :: run1) = true := by simpa [Lit.valid, expSOk] using hvalid
    have hplain : plainDecInt (first :: run1) = true ∧ il = false := by
      by_cases hf0 : first = '0'
      · subst hf0
        rw [strip_cons_ne (by decide)] at hz
        have hs : strip run1 = [] := by
          cases hsr : strip run1 with
          | nil => rfl
          | cons a b => rw [hsr] at hz; simp at hz
        have := run_empty_of_strip (isD := isDig) (by decide) hrun1 hs
        subst this
        exact ⟨by decide, by rw [← hno]; decide⟩
      · have hnod : nonOctalDec (first :: run1) = false := by simp [nonOctalDec, hf0]
        refine ⟨?_, by rw [← hno, hnod]⟩
        simpa [decIntOk, hnod] using hdec
    obtain ⟨r3', rfl⟩ := headIs_n hn
    refine ⟨Lit.bigDec (first :: run1), hplain.1, rfl, ?_, ⟨Lit.bigDec (strip (first :: run1)), plainDecInt_strip hplain.1, rfl, ?_, ?_⟩,
      ?_, by rw [hlg, hplain.2]⟩
    · rw [hlen, take_succ_of_drop hdrop, ← hrender]; rfl
    · rw [htext]; rfl
    · simp only [Lit.mv, strip_strip]
    · rw [htext]; exact strip_noUS _
  · obtain ⟨_, _, _, _, hn, hde0⟩ := finish_big hfin.symm
    rw [hn, hde0] at hb
    simp at hb

end EsbuildModel.LexNum
