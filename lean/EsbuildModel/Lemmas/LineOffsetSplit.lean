import EsbuildModel.Lemmas.LineOffsetAdvance
/-!
Scanning a text in two pieces: the same as scanning it in one go when the cut is a character boundary and does
not separate a CR from its LF.
-/
namespace EsbuildModel.LineOffset
open EsbuildModel.Spec.Unicode EsbuildModel.Spec.TextPosition

/-- the first character does not depend on bytes behind it -/
theorem firstChar_prefix (b : Nat) (r l2 : List Nat)
    (hw : (firstChar (b :: r ++ l2)).width ≤ (b :: r).length) :
    firstChar (b :: r) = firstChar (b :: r ++ l2) := by
  rcases firstChar_cases (b :: r ++ l2) with ⟨h, hno⟩ | ⟨k, h1, h4, hl, hwf, h⟩
  · rw [h]
    rcases firstChar_cases (b :: r) with ⟨h', _⟩ | ⟨k, h1, h4, hl, hwf, _⟩
    · exact h'
    · exfalso
      apply hno k h1 h4 (by simp at hl ⊢; omega)
      have : (b :: r ++ l2).take k = (b :: r).take k := by
        rw [List.take_append_of_le_length hl]
      rw [this]; exact hwf
  · rw [h] at hw ⊢
    simp only at hw
    have etake : (b :: r ++ l2).take k = (b :: r).take k := by
      rw [List.take_append_of_le_length hw]
    rw [etake] at hwf ⊢
    have hsplit : b :: r = utf8 (candidate ((b :: r).take k)) ++ (b :: r).drop k := by
      rw [hwf.2, List.take_append_drop]
    have := firstChar_utf8 _ hwf.1 ((b :: r).drop k)
    rw [← hsplit, hwf.2] at this
    rw [this]
    congr 1
    rw [List.length_take]; omega

theorem decode_append_aux (n : Nat) : ∀ (s1 s2 : List Nat), s1.length = n →
    (∃ k, k ≤ (decode (s1 ++ s2)).length ∧ bytes ((decode (s1 ++ s2)).take k) = s1.length) →
    decode (s1 ++ s2) = decode s1 ++ decode s2 := by
  induction n using Nat.strongRecOn with
  | _ n ih =>
    intro s1 s2 hn ⟨k, hk, hb⟩
    cases s1 with
    | nil => simp [decode_nil]
    | cons b r =>
      rw [List.cons_append, decode_cons] at hb hk ⊢
      have hfw := firstChar_width b (r ++ s2)
      cases k with
      | zero => simp at hb
      | succ k =>
        rw [List.take_succ_cons, bytes_cons] at hb
        have hw : (firstChar (b :: (r ++ s2))).width ≤ (b :: r).length := by omega
        have hfc := firstChar_prefix b r s2 (by rw [List.cons_append]; exact hw)
        rw [List.cons_append] at hfc
        rw [decode_cons, hfc]
        simp only [List.cons_append, List.cons.injEq, true_and]
        have hdrop : (r ++ s2).drop ((firstChar (b :: (r ++ s2))).width - 1)
            = r.drop ((firstChar (b :: (r ++ s2))).width - 1) ++ s2 := by
          rw [List.drop_append_of_le_length (by simp at hw; omega)]
        rw [hdrop] at hb hk ⊢
        apply ih _ _ _ _ rfl
        · exact ⟨k, by simpa using hk, by simp only [List.length_drop, List.length_cons] at hb ⊢; omega⟩
        · subst hn; simp only [List.length_drop, List.length_cons]; omega

/-- decoding commutes with cutting the text at a character boundary -/
theorem decode_append (s1 s2 : List Nat)
    (h : ∃ k, k ≤ (decode (s1 ++ s2)).length ∧ offsetOfIndex (decode (s1 ++ s2)) k = s1.length) :
    decode (s1 ++ s2) = decode s1 ++ decode s2 := decode_append_aux _ s1 s2 rfl h

theorem crlfs_append (a b : List Ch) (h : ¬ (a.getLast?.map (·.cp) = some 13 ∧ nextCp b = some 10)) :
    crlfs (a ++ b) = crlfs a ++ crlfs b := by
  induction a with
  | nil => rfl
  | cons c r ih =>
    rw [List.cons_append, crlfs_cons, crlfs_cons, List.cons_append]
    cases r with
    | nil =>
      simp only [List.nil_append, crlfs, List.nil_append]
      congr 2
      unfold crlfFlag
      simp only [List.getLast?_singleton, Option.map_some, Option.some.injEq] at h
      by_cases h13 : c.cp = 13
      · have : nextCp b ≠ some 10 := fun hb => h ⟨h13, hb⟩
        rw [beq_false_of_ne this]
        simp [nextCp]
      · rw [beq_false_of_ne h13]; rfl
    | cons x r' =>
      have : crlfFlag c (x :: r' ++ b) = crlfFlag c (x :: r') := rfl
      rw [this, ih (by simpa using h)]

theorem advC_append (o : LC) (x y : List (Ch × Bool)) : advC o (x ++ y) = advC (advC o x) y := by
  unfold advC; rw [List.foldl_append]

/-- two `AdvanceString` calls in a row = one call on the concatenation, when the cut is a character boundary of
the whole text and the first piece does not end in a CR whose LF opens the second -/
theorem advance_append (o : LC) (s1 s2 : List Nat)
    (hb : ∃ k, k ≤ (decode (s1 ++ s2)).length ∧ offsetOfIndex (decode (s1 ++ s2)) k = s1.length)
    (hcr : ¬ ((decode s1).getLast?.map (·.cp) = some 13 ∧ s2.head? = some 10)) :
    advance (advance o s1) s2 = advance o (s1 ++ s2) := by
  rw [advance_eq_advC, advance_eq_advC, advance_eq_advC, decode_append s1 s2 hb, crlfs_append, advC_append]
  intro ⟨h1, h2⟩
  apply hcr
  refine ⟨h1, ?_⟩
  have := decode_head_lf s2
  unfold nextCp at h2
  rw [h2] at this
  simpa using this.symm

end EsbuildModel.LineOffset
